(* Comb/Flat.v — the dot product over "flat" streams: several tags, none an ancestor of another. *)
From Coq Require Import List Ascii Bool NArith Arith Lia Permutation.
From SF Require Import Base.Str Tags.Model Comb.Model Comb.Proofs.
Import ListNotations.
Local Open Scope string_scope. Local Open Scope list_scope.

Definition arv := (string * tok)%type.               (* an arrival: port, (id, tag) *)
Definition atag (x : arv) : string := snd (snd x).
Definition sel (g : string) (l : list arv) : list arv := filter (fun x => String.eqb (atag x) g) l.
Definition ones (l : list arv) : pvals := map (fun x => (fst x, [ETok (snd x)])) l.
Definition empties (l : list arv) : pvals := map (fun x => (fst x, @nil elem)) l.
Definition add_tag (g : string) (ts : list string) : list string :=
  if existsb (String.eqb g) ts then ts else ts ++ [g].
Definition tags (l : list arv) : list string := fold_left (fun ts x => add_tag (atag x) ts) l [].
Definition mk (F : string -> pvals) (ts : list string) : tvals := map (fun g => (g, F g)) ts.
Definition upd (F : string -> pvals) (g : string) (v : pvals) : string -> pvals :=
  fun g' => if String.eqb g' g then v else F g'.

Lemma NoDup_snoc {A} (l : list A) x : NoDup l -> ~ In x l -> NoDup (l ++ [x]).
Proof.
  induction l as [|y l IH]; simpl; intros ND H.
  - constructor; auto.
  - inversion ND; subst. constructor.
    + rewrite in_app_iff. simpl. intros [?|[?|[]]]; auto.
    + apply IH; auto.
Qed.

Lemma tags_snoc l x : tags (l ++ [x]) = add_tag (atag x) (tags l).
Proof. unfold tags. now rewrite fold_left_app. Qed.

Lemma existsb_eqb_in g ts : existsb (String.eqb g) ts = true <-> In g ts.
Proof.
  rewrite existsb_exists. split.
  - intros (y & Hy & E). apply String.eqb_eq in E. now subst.
  - intros H. exists g. split; auto. apply String.eqb_refl.
Qed.

Lemma tags_spec l : NoDup (tags l) /\ forall g, In g (tags l) <-> In g (map atag l).
Proof.
  induction l as [|x l IH] using rev_ind.
  - simpl. split; [constructor|tauto].
  - destruct IH as [ND M]. rewrite tags_snoc, map_app. unfold add_tag.
    destruct (existsb (String.eqb (atag x)) (tags l)) eqn:E.
    + split; auto. intros g. rewrite in_app_iff, <- M. simpl. apply existsb_eqb_in in E.
      split; [tauto|]. intros [?|[<-|[]]]; auto.
    + assert (~ In (atag x) (tags l)) by (rewrite <- existsb_eqb_in; congruence).
      split.
      * apply NoDup_snoc; auto.
      * intros g. rewrite !in_app_iff, <- M. simpl. tauto.
Qed.

(* ---------- association lists of the form mk F ts ---------- *)
Lemma lookup_mk F ts g : In g ts -> lookup g (mk F ts) = Some (F g).
Proof.
  induction ts as [|t ts IH]; simpl; [tauto|]. intros H.
  destruct (String.eqb_spec g t); [now subst|]. apply IH. destruct H; congruence.
Qed.
Lemma mk_keys F ts : map fst (mk F ts) = ts.
Proof. unfold mk. rewrite map_map. simpl. apply map_id. Qed.
Lemma mk_ext F G ts : (forall g, In g ts -> F g = G g) -> mk F ts = mk G ts.
Proof. intros H. apply map_ext_in. intros g Hg. now rewrite H. Qed.
Lemma assoc_set_mk F ts g v : NoDup ts -> In g ts -> assoc_set g v (mk F ts) = mk (upd F g v) ts.
Proof.
  induction ts as [|t ts IH]; simpl; [tauto|]. intros ND H. inversion ND; subst.
  unfold upd at 1. destruct (String.eqb_spec g t).
  - subst t. rewrite String.eqb_refl. f_equal. apply mk_ext. intros g' Hg'. unfold upd.
    destruct (String.eqb_spec g' g); [subst; tauto|reflexivity].
  - destruct (String.eqb_spec t g); [congruence|]. f_equal. apply IH; auto. destruct H; congruence.
Qed.
Lemma assoc_set_mk_new F ts g v : ~ In g ts -> assoc_set g v (mk F ts) = mk (upd F g v) (ts ++ [g]).
Proof.
  intros H. rewrite assoc_set_notin by now rewrite mk_keys.
  unfold mk. rewrite map_app. simpl. unfold upd at 2. rewrite String.eqb_refl. f_equal.
  apply map_ext_in. intros g' Hg'. unfold upd. destruct (String.eqb_spec g' g); [subst; tauto|reflexivity].
Qed.

Lemma Forall2_map2' {A B C} (g : A -> B) (f : A -> C) (R : B -> C -> Prop) : forall ps,
  (forall q, In q ps -> R (g q) (f q)) -> Forall2 R (map g ps) (map f ps).
Proof. induction ps; simpl; intros H; constructor; auto. Qed.

Section Flat.
Variable items : list string.
Let n := length items.

Definition F (arrived : list arv) (g : string) : pvals :=
  let l := sel g arrived in if Nat.eqb (length l) n then empties l else ones l.
Definition tv_of (arrived : list arv) : tvals := mk (F arrived) (tags arrived).

(* the combination emitted for the tokens l (all of one tag) *)
Definition combo (l : list arv) : schema :=
  retag (get_tag_s (map atag l)) (map (fun x => (fst x, snd x)) l).
(* what the arrival of x after [arrived] must emit: the combination of its tag when it is the n-th token of that tag *)
Definition emission (arrived : list arv) (x : arv) : list schema :=
  let l := sel (atag x) (arrived ++ [x]) in if Nat.eqb (length l) n then [combo l] else [].
Fixpoint outs_spec (arrived rest : list arv) : list (list schema) :=
  match rest with
  | [] => []
  | x :: r => emission arrived x :: outs_spec (arrived ++ [x]) r
  end.

(* well-formed flat input *)
Definition akey (x : arv) : string * string := (fst x, atag x).
Definition flat (l : list arv) : Prop :=
  forall x y, In x l -> In y l -> atag x <> atag y -> is_parent_tag_s (atag x) (atag y) = false.
Definition wf (l : list arv) : Prop :=
  NoDup items /\ (forall x, In x l -> In (fst x) items) /\ NoDup (map akey l) /\ flat l.

Definition inert (pv : pvals) : Prop := length pv <> n \/ min_len pv = 0.

Lemma min_len_empties l : min_len (empties l) = 0.
Proof.
  unfold min_len, empties. rewrite map_map. simpl. destruct l as [|a r]; simpl; auto.
  induction r as [|b r IH]; simpl; auto.
Qed.
Lemma F_inert arrived g : inert (F arrived g).
Proof.
  unfold inert, F. destruct (Nat.eqb_spec (length (sel g arrived)) n).
  - right. apply min_len_empties.
  - left. unfold ones. now rewrite map_length.
Qed.

Lemma scan_inert ts : forall ks G,
  (forall k, In k ks -> In k ts /\ inert (G k)) -> dot_scan n ks (mk G ts) = (mk G ts, [], None).
Proof.
  induction ks as [|k ks IH]; intros G H; simpl; auto.
  destruct (H k (or_introl eq_refl)) as [Hin Hi]. rewrite lookup_mk by exact Hin.
  destruct (Nat.eqb_spec (length (G k)) n).
  - destruct Hi as [?|Hz]; [congruence|]. rewrite Hz. simpl. rewrite IH; auto. intros; apply H; simpl; auto.
  - apply IH. intros; apply H; simpl; auto.
Qed.

Lemma scan_skip ts rest : forall pre G,
  (forall k, In k pre -> In k ts /\ inert (G k)) ->
  dot_scan n (pre ++ rest) (mk G ts) = dot_scan n rest (mk G ts).
Proof.
  induction pre as [|k pre IH]; intros G H; simpl; auto.
  destruct (H k (or_introl eq_refl)) as [Hin Hi]. rewrite lookup_mk by exact Hin.
  destruct (Nat.eqb_spec (length (G k)) n).
  - destruct Hi as [?|Hz]; [congruence|]. rewrite Hz. simpl. rewrite IH.
    + destruct (dot_scan n rest (mk G ts)) as [[a b] c]. reflexivity.
    + intros; apply H; simpl; auto.
  - apply IH. intros; apply H; simpl; auto.
Qed.

Lemma pop_all_ones l :
  pop_all (ones l) = Some (empties l, map (fun x => (fst x, ETok (snd x))) l).
Proof. induction l as [|a r IH]; simpl; auto. now rewrite IH. Qed.

Lemma merge_ones l : forall acc,
  NoDup (map fst acc ++ map fst l) ->
  fold_left merge_elem (map (fun x : string * tok => (fst x, ETok (snd x))) l) acc =
  acc ++ map (fun x => (fst x, snd x)) l.
Proof.
  induction l as [|a r IH]; intros acc ND; simpl.
  - now rewrite app_nil_r.
  - unfold merge_elem at 2. simpl.
    assert (~ In (fst a) (map fst acc)).
    { simpl in ND. apply NoDup_remove_2 in ND. rewrite in_app_iff in ND. tauto. }
    rewrite assoc_set_notin by auto. rewrite IH.
    + now rewrite <- app_assoc.
    + rewrite map_app. simpl. rewrite <- app_assoc. exact ND.
Qed.

Lemma min_len_ones l : l <> [] -> min_len (ones l) = 1.
Proof.
  destruct l as [|a r]; [congruence|]. intros _. unfold min_len. simpl.
  induction r as [|b r IH]; simpl; auto.
Qed.

(* the scan after the token has been added: G is the state with g's entry in "ones" form *)
Lemma scan_after_add ts G g l :
  NoDup ts -> In g ts -> G g = ones l -> l <> [] -> NoDup (map fst l) ->
  (forall k, In k ts -> k <> g -> inert (G k)) ->
  dot_scan n ts (mk G ts) =
  if Nat.eqb (length l) n then (mk (upd G g (empties l)) ts, [combo l], None) else (mk G ts, [], None).
Proof.
  intros ND Hin HG Hl NDl Hi.
  destruct (Nat.eqb_spec (length l) n) as [E|E].
  - destruct (in_split _ _ Hin) as (pre & post & Ets).
    assert (Hpre : forall k, In k pre -> In k ts /\ inert (G k)).
    { intros k Hk. assert (In k ts) by (rewrite Ets, in_app_iff; auto). split; auto. apply Hi; auto.
      intros ->. rewrite Ets in ND. apply NoDup_remove_2 in ND. rewrite in_app_iff in ND. tauto. }
    rewrite Ets at 1. rewrite scan_skip by exact Hpre. simpl.
    rewrite lookup_mk by exact Hin. rewrite HG.
    assert (length (ones l) = n) as -> by (unfold ones; now rewrite map_length).
    rewrite Nat.eqb_refl, min_len_ones by exact Hl. simpl.
    rewrite lookup_mk by exact Hin. rewrite HG, pop_all_ones.
    rewrite (merge_ones l []) by exact NDl. simpl.
    rewrite assoc_set_mk by auto.
    rewrite scan_inert.
    + unfold combo, atag. rewrite map_map. simpl. reflexivity.
    + intros k Hk. assert (In k ts) by (rewrite Ets, in_app_iff; simpl; auto). split; auto.
      unfold upd. destruct (String.eqb_spec k g).
      * right. apply min_len_empties.
      * apply Hi; auto.
  - apply scan_inert. intros k Hk. split; auto. destruct (String.eqb_spec k g).
    + subst k. left. rewrite HG. unfold ones. now rewrite map_length.
    + apply Hi; auto.
Qed.

Lemma sel_snoc g l x : sel g (l ++ [x]) = sel g l ++ (if String.eqb (atag x) g then [x] else []).
Proof. unfold sel. rewrite filter_app. simpl. destruct (String.eqb (atag x) g); reflexivity. Qed.

Lemma sel_in g l y : In y (sel g l) -> In y l /\ atag y = g.
Proof. unfold sel. rewrite filter_In. intros [? E]. apply String.eqb_eq in E. auto. Qed.

(* ports of the tokens of one tag are distinct *)
Lemma sel_ports_nodup g l : NoDup (map akey l) -> NoDup (map fst (sel g l)).
Proof.
  induction l as [|a r IH]; simpl; intros ND; [constructor|]. inversion ND; subst.
  destruct (String.eqb_spec (atag a) g); simpl; auto. constructor; auto.
  intros Hin. apply in_map_iff in Hin. destruct Hin as (y & Ey & Hy). apply sel_in in Hy. destruct Hy as [Hy Ty].
  apply H1. apply in_map_iff. exists y. split; auto. unfold akey. now rewrite Ey, Ty, e.
Qed.

Lemma propagate_flat (e : elem) p g : forall ks tv,
  (forall k, In k ks -> k = g \/ (is_parent_tag_s k g = false /\ is_parent_tag_s g k = false)) ->
  propagate dot_add ks g e p tv = inl tv.
Proof.
  induction ks as [|k ks IH]; intros tv H; simpl; auto.
  destruct (H k (or_introl eq_refl)) as [->|[A B]].
  - rewrite String.eqb_refl. apply IH. intros; apply H; simpl; auto.
  - destruct (String.eqb g k); [apply IH; intros; apply H; simpl; auto|].
    rewrite A, B. apply IH. intros; apply H; simpl; auto.
Qed.

Lemma combine_flat (arrived : list arv) (x : arv) :
  wf (arrived ++ [x]) ->
  combine (c1 items) (mkst (tv_of arrived) []) (fst x) (snd x) =
  (mkst (tv_of (arrived ++ [x])) [], emission arrived x, None).
Proof.
  intros (NDi & Hports & NDk & Hflat). set (p := fst x). set (g := atag x).
  assert (Hp : In p items) by (apply (Hports x); rewrite in_app_iff; simpl; auto).
  destruct (tags_spec arrived) as [NDt Mt].
  unfold combine, c1. simpl oitems. rewrite find_inner_ports, names_items.
  assert (existsb (String.eqb p) items = true) as ->.
  { apply existsb_exists. exists p. split; auto. apply String.eqb_refl. }
  unfold combine1. simpl okind. cbv iota. unfold add_to_list.
  change (elem_tag (ETok (snd x))) with g. simpl otv.
  (* propagation does nothing *)
  rewrite propagate_flat.
  2:{ intros k Hk. unfold tv_of in Hk. rewrite mk_keys in Hk. apply Mt in Hk.
      apply in_map_iff in Hk. destruct Hk as (y & Ey & Hy).
      destruct (String.eqb_spec k g); auto. right. subst k. split.
      - apply (Hflat y x); [rewrite in_app_iff; auto|rewrite in_app_iff; simpl; auto|exact n0].
      - apply (Hflat x y); [rewrite in_app_iff; simpl; auto|rewrite in_app_iff; auto|]. intros E. apply n0. now symmetry. }
  (* the tokens of tag g arrived so far: distinct ports, not p, fewer than n *)
  set (l := sel g arrived).
  assert (NDl' : NoDup (map fst (sel g (arrived ++ [x])))) by now apply sel_ports_nodup.
  assert (El' : sel g (arrived ++ [x]) = l ++ [x]).
  { rewrite sel_snoc. fold g. now rewrite String.eqb_refl. }
  rewrite El' in NDl'. rewrite map_app in NDl'. simpl in NDl'. fold p in NDl'.
  assert (Hpl : ~ In p (map fst l)).
  { apply NoDup_remove_2 in NDl'. rewrite app_nil_r in NDl'. exact NDl'. }
  assert (NDl : NoDup (map fst l)) by (apply NoDup_remove_1 in NDl'; now rewrite app_nil_r in NDl').
  assert (Llt : length l < n).
  { assert (incl (p :: map fst l) items).
    { intros q [<-|Hq]; auto. apply in_map_iff in Hq. destruct Hq as (y & <- & Hy). apply sel_in in Hy.
      apply Hports. rewrite in_app_iff. tauto. }
    assert (NoDup (p :: map fst l)) by (constructor; auto).
    pose proof (NoDup_incl_length H0 H) as L. cbn [length] in L. rewrite map_length in L. unfold n in *. exact L. }
  assert (Fg : F arrived g = ones l).
  { unfold F. fold l. destruct (Nat.eqb_spec (length l) n); [lia|reflexivity]. }
  assert (Cur : match lookup g (tv_of arrived) with Some pv => pv | None => [] end = ones l).
  { destruct (in_dec string_dec g (tags arrived)) as [i|ni].
    - unfold tv_of. rewrite lookup_mk by exact i. exact Fg.
    - unfold tv_of. rewrite lookup_notin by now rewrite mk_keys.
      assert (l = []) as ->; [|reflexivity].
      destruct l as [|y r] eqn:E; auto. exfalso. apply ni, Mt.
      assert (In y (sel g arrived)) by (fold l; rewrite E; simpl; auto).
      apply sel_in in H. destruct H as [H <-]. now apply in_map. }
  rewrite Cur. unfold dot_add.
  rewrite (lookup_notin p (ones l)) by (unfold ones; rewrite map_map; exact Hpl).
  rewrite (assoc_set_notin p _ (ones l)) by (unfold ones; rewrite map_map; exact Hpl).
  replace (ones l ++ [(p, [ETok (snd x)])]) with (ones (l ++ [x])) by (unfold ones; now rewrite map_app).
  (* the state after the add is mk G ts' *)
  set (ts' := tags (arrived ++ [x])).
  set (G := upd (F arrived) g (ones (l ++ [x]))).
  assert (Emid : assoc_set g (ones (l ++ [x])) (tv_of arrived) = mk G ts').
  { unfold ts'. rewrite tags_snoc. fold g. unfold add_tag.
    destruct (existsb (String.eqb g) (tags arrived)) eqn:Ex.
    - apply existsb_eqb_in in Ex. unfold tv_of. now rewrite assoc_set_mk.
    - assert (~ In g (tags arrived)) by (rewrite <- existsb_eqb_in; congruence).
      unfold tv_of. now rewrite assoc_set_mk_new. }
  rewrite Emid. unfold dot_product. rewrite mk_keys.
  destruct (tags_spec (arrived ++ [x])) as [NDt' Mt']. fold ts' in NDt', Mt'.
  assert (Hg' : In g ts').
  { apply Mt'. rewrite map_app, in_app_iff. right. simpl. auto. }
  fold n. rewrite (scan_after_add ts' G g (l ++ [x])); auto.
  2:{ unfold G, upd. now rewrite String.eqb_refl. }
  2:{ destruct l; discriminate. }
  2:{ rewrite map_app. simpl. exact NDl'. }
  2:{ intros k Hk Hne. unfold G, upd. destruct (String.eqb_spec k g); [congruence|]. apply F_inert. }
  (* put the pieces together *)
  unfold emission. fold g. rewrite El'.
  assert (Fin : forall k, k <> g -> F (arrived ++ [x]) k = F arrived k).
  { intros k Hne. unfold F. rewrite sel_snoc. fold g.
    destruct (String.eqb_spec g k); [congruence|]. now rewrite app_nil_r. }
  assert (Fgx : F (arrived ++ [x]) g = if Nat.eqb (length (l ++ [x])) n then empties (l ++ [x]) else ones (l ++ [x])).
  { unfold F. now rewrite El'. }
  destruct (Nat.eqb_spec (length (l ++ [x])) n) as [E|E].
  - f_equal. f_equal. f_equal. unfold tv_of. fold ts'. apply mk_ext. intros k Hk. unfold upd, G, upd.
    destruct (String.eqb_spec k g).
    + subst k. now rewrite Fgx.
    + now rewrite Fin.
  - f_equal. f_equal. f_equal. unfold tv_of. fold ts'. apply mk_ext. intros k Hk. unfold G, upd.
    destruct (String.eqb_spec k g).
    + subst k. now rewrite Fgx.
    + now rewrite Fin.
Qed.

Lemma NoDup_app_l {A} (a b : list A) : NoDup (a ++ b) -> NoDup a.
Proof.
  induction a as [|x a IH]; simpl; intros H; [constructor|]. inversion H; subst.
  constructor; auto. intros Hx. apply H2. rewrite in_app_iff. auto.
Qed.

Lemma wf_prefix a b : wf (a ++ b) -> wf a.
Proof.
  intros (A & B & C & D). split; [auto|]. split; [|split].
  - intros x Hx. apply B. rewrite in_app_iff. auto.
  - rewrite map_app in C. now apply NoDup_app_l in C.
  - intros x y Hx Hy. apply D; rewrite in_app_iff; auto.
Qed.

Lemma run_flat : forall rest arrived,
  wf (arrived ++ rest) ->
  run (c1 items) (mkst (tv_of arrived) []) rest = (outs_spec arrived rest, None).
Proof.
  induction rest as [|x rest IH]; intros arrived W; simpl; auto.
  replace (arrived ++ x :: rest) with ((arrived ++ [x]) ++ rest) in W by now rewrite <- app_assoc.
  pose proof (combine_flat arrived x (wf_prefix _ _ W)) as C.
  destruct x as [p t]. cbn [fst snd] in C. rewrite C.
  rewrite IH by exact W. reflexivity.
Qed.

(* dot product over flat streams: whatever the arrival order, the combination of a tag is emitted exactly when
   the n-th token of that tag arrives (n = number of ports) and holds exactly the tokens of that tag; nothing else
   is ever emitted; no exception *)
Theorem dot_flat (arr : list arv) :
  wf arr -> run (c1 items) init_state arr = (outs_spec [] arr, None).
Proof. intros W. apply (run_flat arr []). exact W. Qed.


(* ---------- order independence ---------- *)
Definition complete (l : list arv) (g : string) : bool := Nat.eqb (length (sel g l)) n.
(* the combinations of the complete tags, in order of first occurrence of the tag *)
Definition done (l : list arv) : list schema :=
  map (fun g => combo (sel g l)) (filter (complete l) (tags l)).

Lemma outs_spec_snoc : forall r a x,
  concat (outs_spec a (r ++ [x])) = concat (outs_spec a r) ++ emission (a ++ r) x.
Proof.
  induction r as [|y r IH]; intros a x; simpl.
  - now rewrite !app_nil_r.
  - rewrite IH, <- !app_assoc. simpl. reflexivity.
Qed.

Lemma sel_lt (l : list arv) (x : arv) : wf (l ++ [x]) -> length (sel (atag x) l) < n.
Proof.
  intros (NDi & Hports & NDk & _). set (g := atag x).
  assert (NDl' : NoDup (map fst (sel g (l ++ [x])))) by now apply sel_ports_nodup.
  rewrite sel_snoc in NDl'. fold g in NDl'. rewrite String.eqb_refl, map_app in NDl'. simpl in NDl'.
  assert (Hpl : ~ In (fst x) (map fst (sel g l))).
  { apply NoDup_remove_2 in NDl'. rewrite app_nil_r in NDl'. exact NDl'. }
  assert (NDl : NoDup (map fst (sel g l))) by (apply NoDup_remove_1 in NDl'; now rewrite app_nil_r in NDl').
  assert (I : incl (fst x :: map fst (sel g l)) items).
  { intros q [<-|Hq]; [apply Hports; rewrite in_app_iff; simpl; auto|].
    apply in_map_iff in Hq. destruct Hq as (y & <- & Hy). apply sel_in in Hy.
    apply Hports. rewrite in_app_iff. tauto. }
  assert (ND2 : NoDup (fst x :: map fst (sel g l))) by (constructor; auto).
  pose proof (NoDup_incl_length ND2 I) as L. cbn [length] in L. rewrite map_length in L. exact L.
Qed.

Lemma done_step (l : list arv) (x : arv) :
  wf (l ++ [x]) -> Permutation (done (l ++ [x])) (done l ++ emission l x).
Proof.
  intros W. pose proof (sel_lt l x W) as Lt. set (g := atag x) in *.
  assert (Cg : complete l g = false).
  { unfold complete. destruct (Nat.eqb_spec (length (sel g l)) n); auto. exfalso. rewrite e in Lt. exact (Nat.lt_irrefl _ Lt). }
  assert (Sne : forall g', g' <> g -> sel g' (l ++ [x]) = sel g' l).
  { intros g' Hne. rewrite sel_snoc. fold g. destruct (String.eqb_spec g g'); [congruence|]. now rewrite app_nil_r. }
  assert (Cne : forall g', g' <> g -> complete (l ++ [x]) g' = complete l g').
  { intros g' Hne. unfold complete. now rewrite Sne. }
  assert (Eem : emission l x = if complete (l ++ [x]) g then [combo (sel g (l ++ [x]))] else []) by reflexivity.
  destruct (tags_spec l) as [NDt Mt]. unfold done. rewrite tags_snoc. fold g. unfold add_tag.
  destruct (existsb (String.eqb g) (tags l)) eqn:Ex.
  - apply existsb_eqb_in in Ex. destruct (in_split _ _ Ex) as (pre & post & Et). rewrite Et in *.
    assert (Npre : ~ In g pre) by (apply NoDup_remove_2 in NDt; rewrite in_app_iff in NDt; tauto).
    assert (Npost : ~ In g post) by (apply NoDup_remove_2 in NDt; rewrite in_app_iff in NDt; tauto).
    rewrite !filter_app. simpl. rewrite Cg, !map_app.
    assert (Hpre : map (fun g0 => combo (sel g0 (l ++ [x]))) (filter (complete (l ++ [x])) pre) =
                   map (fun g0 => combo (sel g0 l)) (filter (complete l) pre)).
    { rewrite (filter_ext_in (complete (l ++ [x])) (complete l)).
      - apply map_ext_in. intros g' Hg'. apply filter_In in Hg'. rewrite Sne; auto. intros ->. tauto.
      - intros g' Hg'. apply Cne. intros ->. tauto. }
    assert (Hpost : map (fun g0 => combo (sel g0 (l ++ [x]))) (filter (complete (l ++ [x])) post) =
                    map (fun g0 => combo (sel g0 l)) (filter (complete l) post)).
    { rewrite (filter_ext_in (complete (l ++ [x])) (complete l)).
      - apply map_ext_in. intros g' Hg'. apply filter_In in Hg'. rewrite Sne; auto. intros ->. tauto.
      - intros g' Hg'. apply Cne. intros ->. tauto. }
    rewrite Hpre, Eem. rewrite <- app_assoc. apply Permutation_app_head.
    destruct (complete (l ++ [x]) g); simpl.
    + rewrite Hpost. apply Permutation_cons_append.
    + rewrite Hpost. now rewrite app_nil_r.
  - assert (Ng : ~ In g (tags l)) by (rewrite <- existsb_eqb_in; congruence).
    rewrite filter_app, map_app. simpl. rewrite Eem.
    assert (Hpre : map (fun g0 => combo (sel g0 (l ++ [x]))) (filter (complete (l ++ [x])) (tags l)) =
                   map (fun g0 => combo (sel g0 l)) (filter (complete l) (tags l))).
    { rewrite (filter_ext_in (complete (l ++ [x])) (complete l)).
      - apply map_ext_in. intros g' Hg'. apply filter_In in Hg'. rewrite Sne; auto. intros ->. tauto.
      - intros g' Hg'. apply Cne. intros ->. tauto. }
    rewrite Hpre. apply Permutation_app_head. destruct (complete (l ++ [x]) g); simpl; apply Permutation_refl.
Qed.

Lemma outs_done : forall arr, wf arr -> Permutation (concat (outs_spec [] arr)) (done arr).
Proof.
  induction arr as [|x l IH] using rev_ind; intros W.
  - simpl. constructor.
  - rewrite outs_spec_snoc. simpl app. eapply Permutation_trans; [|apply Permutation_sym, done_step; exact W].
    apply Permutation_app_tail. apply IH. eapply wf_prefix; exact W.
Qed.

Lemma Permutation_filter' {A} (f : A -> bool) l l' : Permutation l l' -> Permutation (filter f l) (filter f l').
Proof.
  induction 1; simpl; auto.
  - destruct (f x); auto.
  - destruct (f x), (f y); auto. apply perm_swap.
  - eapply Permutation_trans; eauto.
Qed.

Lemma wf_perm a b : Permutation a b -> wf a -> wf b.
Proof.
  intros P (A & B & C & D). split; auto. split; [|split].
  - intros x Hx. apply B. eapply Permutation_in; [apply Permutation_sym; exact P|exact Hx].
  - eapply Permutation_NoDup; [|exact C]. now apply Permutation_map.
  - intros x y Hx Hy. apply D; eapply Permutation_in; try (apply Permutation_sym; exact P); auto.
Qed.

Lemma map_atag_sel g l : map atag (sel g l) = repeat g (length (sel g l)).
Proof.
  unfold sel. induction l as [|a r IH]; simpl; auto.
  destruct (String.eqb_spec (atag a) g); simpl; auto. now rewrite e, IH.
Qed.

(* equality of bags of combinations, a combination being a port -> token map *)
Definition bag_eq (a b : list schema) : Prop :=
  exists a' b', Permutation a a' /\ Permutation b b' /\ Forall2 (@Permutation (string * tok)) a' b'.

Theorem dot_flat_order_independent (arr1 arr2 : list arv) :
  wf arr1 -> Permutation arr1 arr2 ->
  snd (run (c1 items) init_state arr1) = None /\ snd (run (c1 items) init_state arr2) = None /\
  bag_eq (concat (fst (run (c1 items) init_state arr1))) (concat (fst (run (c1 items) init_state arr2))).
Proof.
  intros W1 P. pose proof (wf_perm _ _ P W1) as W2.
  rewrite (dot_flat arr1 W1), (dot_flat arr2 W2). simpl. split; auto. split; auto.
  set (T2 := filter (complete arr2) (tags arr2)).
  exists (map (fun g => combo (sel g arr1)) T2), (done arr2). split; [|split].
  - eapply Permutation_trans; [apply outs_done; exact W1|]. unfold done. apply Permutation_map.
    assert (PT : Permutation (tags arr1) (tags arr2)).
    { destruct (tags_spec arr1) as [N1 M1]. destruct (tags_spec arr2) as [N2 M2].
      apply NoDup_Permutation; auto. intros g. rewrite M1, M2.
      split; apply Permutation_in; [|apply Permutation_sym]; now apply Permutation_map. }
    unfold T2. rewrite (filter_ext (complete arr2) (complete arr1)).
    + now apply Permutation_filter'.
    + intros g. unfold complete, sel. f_equal. apply Permutation_length, Permutation_filter'. now apply Permutation_sym.
  - apply outs_done. exact W2.
  - unfold done. fold T2. apply Forall2_map2'. intros g _. unfold combo.
    assert (PS : Permutation (sel g arr1) (sel g arr2)) by (unfold sel; now apply Permutation_filter').
    rewrite !map_atag_sel, (Permutation_length PS). unfold retag. apply Permutation_map, Permutation_map. exact PS.
Qed.

End Flat.
