(* Comb/GBcast.v — Comb/Bcast.v re-done for arrivals that carry an arbitrary element (a token or the schema emitted
   by an inner combinator), as needed for nested combinators: the arriving element is (item name, elem), its tag is
   elem_tag, the emitted combination merges the elements (schema |= element for inner schemas). *)
From Coq Require Import List Ascii Bool NArith Arith Lia Permutation.
From SF Require Import Base.Str Tags.Model Comb.Model Comb.Proofs Comb.Flat.
Import ListNotations.
Local Open Scope string_scope. Local Open Scope list_scope.

Definition garv := (string * elem)%type.
Definition gatag (x : garv) : string := elem_tag (snd x).
Definition gakey (x : garv) : string * string := (fst x, gatag x).
Definition gones (l : list garv) : pvals := map (fun x => (fst x, [snd x])) l.
Definition gempties (l : list garv) : pvals := map (fun x => (fst x, @nil elem)) l.
Definition gtags (l : list garv) : list string := fold_left (fun ts x => add_tag (gatag x) ts) l [].
(* the combination emitted for the elements l: merged (schema[key] = token / schema |= inner schema), re-tagged *)
Definition gcombo (l : list garv) : schema :=
  let m := fold_left merge_elem l [] in retag (get_tag_s (map (fun kv => snd (snd kv)) m)) m.

Lemma gtags_snoc l x : gtags (l ++ [x]) = add_tag (gatag x) (gtags l).
Proof. unfold gtags. now rewrite fold_left_app. Qed.

Lemma gtags_spec l : NoDup (gtags l) /\ forall g, In g (gtags l) <-> In g (map gatag l).
Proof.
  induction l as [|x l IH] using rev_ind.
  - simpl. split; [constructor|tauto].
  - destruct IH as [ND M]. rewrite gtags_snoc, map_app. unfold add_tag.
    destruct (existsb (String.eqb (gatag x)) (gtags l)) eqn:E.
    + split; auto. intros g. rewrite in_app_iff, <- M. simpl. apply existsb_eqb_in in E.
      split; [tauto|]. intros [?|[<-|[]]]; auto.
    + assert (~ In (gatag x) (gtags l)) by (rewrite <- existsb_eqb_in; congruence).
      split.
      * apply NoDup_snoc; auto.
      * intros g. rewrite !in_app_iff, <- M. simpl. tauto.
Qed.

Lemma min_len_gempties l : min_len (gempties l) = 0.
Proof.
  unfold min_len, gempties. rewrite map_map. simpl. destruct l as [|a r]; simpl; auto.
  induction r as [|b r IH]; simpl; auto.
Qed.
Lemma min_len_gones l : l <> [] -> min_len (gones l) = 1.
Proof.
  destruct l as [|a r]; [congruence|]. intros _. unfold min_len. simpl.
  induction r as [|b r IH]; simpl; auto.
Qed.
Lemma pop_all_gones l : pop_all (gones l) = Some (gempties l, l).
Proof. induction l as [|[a b] r IH]; simpl; auto. now rewrite IH. Qed.

Lemma flat_map_ext_in' {A B} (f g : A -> list B) l : (forall x, In x l -> f x = g x) -> flat_map f l = flat_map g l.
Proof. induction l; simpl; intros H; auto. rewrite H, IHl; auto. Qed.

Section Scan.
Variable n : nat.
Variable ts : list string.
Variable L : string -> list garv.
Hypothesis NDts : NoDup ts.

(* a state in which key k holds the tokens L k, one per port, or nothing any more once it has fired *)
Definition St (fired : string -> bool) (k : string) : pvals := if fired k then gempties (L k) else gones (L k).
Definition fires (fired : string -> bool) (k : string) : bool := negb (fired k) && Nat.eqb (length (L k)) n.
Definition fired_after (ks : list string) (fired : string -> bool) : string -> bool :=
  fun k => fired k || (existsb (String.eqb k) ks && Nat.eqb (length (L k)) n).

Lemma scan_fire : forall ks fired,
  NoDup ks -> incl ks ts ->
  (forall k, In k ks -> fired k = false -> L k <> [] /\ NoDup (map fst (L k))) ->
  dot_scan n ks (mk (St fired) ts) =
  (mk (St (fired_after ks fired)) ts,
   flat_map (fun k => if fires fired k then [gcombo (L k)] else []) ks, None).
Proof.
  induction ks as [|k ks IH]; intros fired ND Hin Hok; simpl.
  - f_equal. f_equal. apply mk_ext. intros k _. unfold St, fired_after. simpl. now rewrite orb_false_r.
  - inversion ND; subst. assert (Hk : In k ts) by (apply Hin; simpl; auto).
    rewrite lookup_mk by exact Hk.
    assert (Hin' : incl ks ts) by (intros q Hq; apply Hin; simpl; auto).
    unfold fires at 1. destruct (fired k) eqn:Fk; simpl.
    + (* already fired: nothing left *)
      assert (Sk : St fired k = gempties (L k)) by (unfold St; now rewrite Fk). rewrite Sk.
      assert (length (gempties (L k)) = length (L k)) as -> by (unfold gempties; now rewrite map_length).
      assert (E : mk (St (fired_after (k :: ks) fired)) ts = mk (St (fired_after ks fired)) ts).
      { apply mk_ext. intros q _. unfold St, fired_after. simpl. destruct (String.eqb_spec q k); auto.
        subst q. now rewrite Fk. }
      rewrite E.
      destruct (Nat.eqb (length (L k)) n).
      * rewrite min_len_gempties. simpl. rewrite IH; auto. intros q Hq; apply Hok; simpl; auto.
      * rewrite IH; auto. intros q Hq; apply Hok; simpl; auto.
    + assert (Sk : St fired k = gones (L k)) by (unfold St; now rewrite Fk). rewrite Sk.
      assert (length (gones (L k)) = length (L k)) as -> by (unfold gones; now rewrite map_length).
      destruct (Hok k (or_introl eq_refl) Fk) as [Hne NDl].
      destruct (Nat.eqb_spec (length (L k)) n) as [En|En].
      * rewrite min_len_gones by exact Hne. simpl. rewrite lookup_mk by exact Hk.
        rewrite Sk, pop_all_gones. simpl.
        rewrite assoc_set_mk by auto.
        set (fired2 := fun q => if String.eqb q k then true else fired q).
        assert (E2 : mk (upd (St fired) k (gempties (L k))) ts = mk (St fired2) ts).
        { apply mk_ext. intros q _. unfold upd, St, fired2. destruct (String.eqb q k) eqn:Eq; auto.
          apply String.eqb_eq in Eq. now subst. }
        rewrite E2, IH; auto.
        -- f_equal. f_equal.
           ++ apply mk_ext. intros q _. unfold St, fired_after, fired2. simpl.
              destruct (String.eqb_spec q k); simpl; auto. subst q. now rewrite En, Nat.eqb_refl, orb_true_r.
           ++ apply f_equal2; [reflexivity|].
              apply flat_map_ext_in'. intros q Hq. unfold fires, fired2.
              destruct (String.eqb_spec q k); auto. subst. tauto.
        -- intros q Hq Fq. apply Hok; simpl; auto. unfold fired2 in Fq.
           destruct (String.eqb q k); [discriminate|auto].
      * rewrite IH; auto.
        -- f_equal. f_equal. apply mk_ext. intros q _. unfold St, fired_after. simpl.
           destruct (String.eqb_spec q k); simpl; auto. subst q.
           destruct (Nat.eqb_spec (length (L k)) n); [congruence|]. now rewrite andb_false_r.
        -- intros q Hq; apply Hok; simpl; auto.
Qed.
End Scan.

(* ---------- helpers about the propagation loop ---------- *)
Definition addp (e : elem) (p : string) (pv : pvals) : pvals :=
  assoc_set p (match lookup p pv with Some dq => dq ++ [e] | None => [e] end) pv.

Lemma addp_ones l (x : garv) : ~ In (fst x) (map fst l) -> addp (snd x) (fst x) (gones l) = gones (l ++ [x]).
Proof.
  intros H. unfold addp. assert (K : map fst (gones l) = map fst l) by (unfold gones; now rewrite map_map).
  rewrite lookup_notin, assoc_set_notin by now rewrite K. unfold gones. now rewrite map_app.
Qed.

Lemma copy_port_one (p : string) (t : elem) pv : copy_port dot_add p [t] pv = inl (addp t p pv).
Proof. reflexivity. Qed.

Lemma copy_ones : forall l acc,
  NoDup (map fst acc ++ map fst l) -> copy_ports dot_add (gones l) (gones acc) = inl (gones (acc ++ l)).
Proof.
  induction l as [|y l IH]; intros acc ND; simpl.
  - now rewrite app_nil_r.
  - fold (addp (snd y) (fst y) (gones acc)).
    rewrite addp_ones.
    + replace (acc ++ y :: l) with ((acc ++ [y]) ++ l) by now rewrite <- app_assoc.
      apply IH. rewrite map_app. simpl. rewrite <- app_assoc. exact ND.
    + simpl in ND. apply NoDup_remove_2 in ND. rewrite in_app_iff in ND. tauto.
Qed.

Lemma propagate_skip (add : adder) (e : elem) p g : forall ks tv,
  (forall k, In k ks -> k = g \/ (is_parent_tag_s k g = false /\ is_parent_tag_s g k = false)) ->
  propagate add ks g e p tv = inl tv.
Proof.
  induction ks as [|k ks IH]; intros tv H; simpl; auto.
  destruct (H k (or_introl eq_refl)) as [->|[A B]].
  - rewrite String.eqb_refl. apply IH. intros; apply H; simpl; auto.
  - destruct (String.eqb g k); [apply IH; intros; apply H; simpl; auto|].
    rewrite A, B. apply IH. intros; apply H; simpl; auto.
Qed.

Lemma propagate_skip_prefix (add : adder) (e : elem) p g rest : forall pre tv,
  (forall k, In k pre -> k = g \/ (is_parent_tag_s k g = false /\ is_parent_tag_s g k = false)) ->
  propagate add (pre ++ rest) g e p tv = propagate add rest g e p tv.
Proof.
  induction pre as [|k pre IH]; intros tv H; simpl; auto.
  destruct (H k (or_introl eq_refl)) as [->|[A B]].
  - rewrite String.eqb_refl. apply IH. intros; apply H; simpl; auto.
  - destruct (String.eqb g k); [apply IH; intros; apply H; simpl; auto|].
    rewrite A, B. apply IH. intros; apply H; simpl; auto.
Qed.

(* the arriving tag is an ancestor of every other key: the token is appended to every key but its own *)
Lemma propagate_all (e : elem) p r ts : NoDup ts -> forall ks G,
  NoDup ks -> incl ks ts ->
  (forall k, In k ks -> k = r \/ is_parent_tag_s k r = true) ->
  propagate dot_add ks r e p (mk G ts) =
  inl (mk (fun k => if existsb (String.eqb k) ks && negb (String.eqb k r) then addp e p (G k) else G k) ts).
Proof.
  intros NDts. induction ks as [|k ks IH]; intros G ND Hin H; simpl.
  - reflexivity.
  - inversion ND; subst. assert (Hk : In k ts) by (apply Hin; simpl; auto).
    assert (Hin' : incl ks ts) by (intros q Hq; apply Hin; simpl; auto).
    destruct (String.eqb_spec r k).
    + subst k. rewrite IH; auto; [|intros; apply H; simpl; auto]. f_equal. apply mk_ext. intros q _.
      destruct (String.eqb_spec q r); simpl; auto. now rewrite andb_false_r.
    + destruct (H k (or_introl eq_refl)) as [->|Hp]; [congruence|]. rewrite Hp.
      rewrite lookup_mk by exact Hk. unfold dot_add at 1. fold (addp e p (G k)).
      rewrite assoc_set_mk by auto. rewrite IH; auto; [|intros; apply H; simpl; auto].
      f_equal. apply mk_ext. intros q _. unfold upd.
      destruct (String.eqb_spec q k); simpl.
      * subst q. assert (existsb (String.eqb k) ks = false) as ->.
        { destruct (existsb (String.eqb k) ks) eqn:E; auto. apply existsb_eqb_in in E. tauto. }
        simpl. destruct (String.eqb_spec k r); [congruence|]. reflexivity.
      * reflexivity.
Qed.

Section Bcast.
Variable items : list string.
Variable r : string.          (* the shallow tag *)
Variable dp : string.         (* the scattered port *)
Let n := length items.

Definition counts (k : string) (y : garv) : bool := String.eqb (gatag y) r || String.eqb (gatag y) k.
(* the tokens relevant to key k: the broadcast gones and the one tagged k *)
Definition bsel (k : string) (l : list garv) : list garv := filter (counts k) l.
Definition fired_of (arrived : list garv) (k : string) : bool := Nat.eqb (length (bsel k arrived)) n.
Definition tvb (arrived : list garv) : tvals :=
  mk (St (fun k => bsel k arrived) (fired_of arrived)) (gtags arrived).

Definition deepc (g : string) : Prop := g <> r /\ is_parent_tag_s g r = true /\ is_parent_tag_s r g = false.
Definition wfb (l : list garv) : Prop :=
  NoDup items /\ In dp items /\ (forall x, In x l -> In (fst x) items) /\ NoDup (map gakey l) /\
  (forall x, In x l -> if String.eqb (fst x) dp then deepc (gatag x) else gatag x = r) /\
  (forall x y, In x l -> In y l -> fst x = dp -> fst y = dp -> gatag x <> gatag y ->
               is_parent_tag_s (gatag x) (gatag y) = false).

(* the arrival of x emits the combination of every key that was not complete before and is complete now *)
Definition emission_b (arrived : list garv) (x : garv) : list schema :=
  flat_map (fun k => if fires n (fun k => bsel k (arrived ++ [x])) (fired_of arrived) k
                     then [gcombo (bsel k (arrived ++ [x]))] else [])
           (gtags (arrived ++ [x])).
Fixpoint outs_b (arrived rest : list garv) : list (list schema) :=
  match rest with
  | [] => []
  | x :: rest' => emission_b arrived x :: outs_b (arrived ++ [x]) rest'
  end.

Lemma wfb_prefix a b : wfb (a ++ b) -> wfb a.
Proof.
  intros (A & B & C & D & E & F). split; auto. split; auto. split; [|split; [|split]].
  - intros x Hx. apply C. rewrite in_app_iff. auto.
  - rewrite map_app in D. now apply NoDup_app_l in D.
  - intros x Hx. apply E. rewrite in_app_iff. auto.
  - intros x y Hx Hy. apply F; rewrite in_app_iff; auto.
Qed.

Lemma bsel_snoc k l x : bsel k (l ++ [x]) = bsel k l ++ (if counts k x then [x] else []).
Proof. unfold bsel. rewrite filter_app. simpl. destruct (counts k x); reflexivity. Qed.

Lemma shallow_or_deep l x : wfb l -> In x l ->
  (fst x = dp /\ deepc (gatag x)) \/ (fst x <> dp /\ gatag x = r).
Proof.
  intros (_ & _ & _ & _ & E & _) Hx. specialize (E x Hx).
  destruct (String.eqb_spec (fst x) dp); auto.
Qed.

Lemma bsel_ports_nodup k l : wfb l -> NoDup (map fst (bsel k l)).
Proof.
  intros W. pose proof W as (_ & _ & _ & NDk & _ & _).
  assert (NDl : NoDup (bsel k l)) by (unfold bsel; apply NoDup_filter; eapply NoDup_map_inv; exact NDk).
  assert (Inj : forall a b, In a (bsel k l) -> In b (bsel k l) -> fst a = fst b -> a = b).
  { intros a b Ha Hb E. unfold bsel in Ha, Hb. apply filter_In in Ha. apply filter_In in Hb.
    destruct Ha as [Ha Ca]. destruct Hb as [Hb Cb].
    assert (K : gakey a = gakey b).
    { unfold gakey. rewrite E. f_equal.
      destruct (shallow_or_deep l a W Ha) as [[Pa (Na & _)]|[Pa Ta]];
      destruct (shallow_or_deep l b W Hb) as [[Pb (Nb & _)]|[Pb Tb]]; try congruence.
      unfold counts in Ca, Cb. apply orb_true_iff in Ca. apply orb_true_iff in Cb.
      destruct Ca as [Ca|Ca]; apply String.eqb_eq in Ca; [congruence|].
      destruct Cb as [Cb|Cb]; apply String.eqb_eq in Cb; congruence. }
    clear -NDk Ha Hb K. induction l as [|y l IH]; simpl in *; [tauto|]. inversion NDk; subst.
    destruct Ha as [<-|Ha]; destruct Hb as [<-|Hb]; auto.
    - exfalso. apply H1. rewrite K. now apply in_map.
    - exfalso. apply H1. rewrite <- K. now apply in_map. }
  clear -NDl Inj. induction (bsel k l) as [|y m IH]; simpl; [constructor|]. inversion NDl; subst.
  constructor.
  - intros Hin. apply in_map_iff in Hin. destruct Hin as (z & Ez & Hz).
    assert (z = y) by (apply Inj; simpl; auto). subst. tauto.
  - apply IH; auto. intros a b Ha Hb. apply Inj; simpl; auto.
Qed.

Lemma bsel_ports_incl k l : wfb l -> incl (map fst (bsel k l)) items.
Proof.
  intros (_ & _ & C & _) q Hq. apply in_map_iff in Hq. destruct Hq as (y & <- & Hy).
  apply filter_In in Hy. apply C. tauto.
Qed.

(* a key for which the arriving token counts cannot have been complete before *)
Lemma bsel_lt k l x : wfb (l ++ [x]) -> counts k x = true -> length (bsel k l) < n.
Proof.
  intros W Cx. pose proof (bsel_ports_nodup k _ W) as ND. pose proof (bsel_ports_incl k _ W) as I.
  rewrite bsel_snoc, Cx, map_app in *. simpl in *.
  pose proof (NoDup_incl_length ND I) as Le. rewrite app_length, map_length in Le. simpl in Le.
  unfold n. rewrite Nat.add_1_r in Le. exact Le.
Qed.

(* the shallow key never completes: its ports exclude dp *)
Lemma bsel_r_lt l : wfb l -> length (bsel r l) < n.
Proof.
  intros W. pose proof (bsel_ports_nodup r _ W) as ND. pose proof (bsel_ports_incl r _ W) as I.
  pose proof W as (_ & Hdp & _).
  assert (Ndp : ~ In dp (map fst (bsel r l))).
  { intros Hin. apply in_map_iff in Hin. destruct Hin as (y & Ey & Hy). apply filter_In in Hy.
    destruct Hy as [Hy Cy]. destruct (shallow_or_deep l y W Hy) as [[_ (Ny & _)]|[Py _]]; [|congruence].
    unfold counts in Cy. rewrite orb_diag in Cy. apply String.eqb_eq in Cy. congruence. }
  assert (ND2 : NoDup (dp :: map fst (bsel r l))) by (constructor; auto).
  assert (I2 : incl (dp :: map fst (bsel r l)) items) by (intros q [<-|Hq]; auto).
  pose proof (NoDup_incl_length ND2 I2) as Le. cbn [length] in Le. rewrite map_length in Le. exact Le.
Qed.

Lemma bsel_nonempty k l : In k (gtags l) -> bsel k l <> [].
Proof.
  intros Hk. apply (proj2 (gtags_spec l)) in Hk. apply in_map_iff in Hk. destruct Hk as (y & Ey & Hy).
  assert (In y (bsel k l)).
  { apply filter_In. split; auto. unfold counts. rewrite Ey, String.eqb_refl. apply orb_true_r. }
  intros E. rewrite E in H. exact H.
Qed.

Lemma assoc_set_mk_any F ts g v : NoDup ts -> assoc_set g v (mk F ts) = mk (upd F g v) (add_tag g ts).
Proof.
  intros ND. unfold add_tag. destruct (existsb (String.eqb g) ts) eqn:E.
  - apply existsb_eqb_in in E. now apply assoc_set_mk.
  - apply assoc_set_mk_new. rewrite <- existsb_eqb_in. congruence.
Qed.

Lemma dp_notin_r l : wfb l -> ~ In dp (map fst (bsel r l)).
Proof.
  intros W Hin. apply in_map_iff in Hin. destruct Hin as (y & Ey & Hy). apply filter_In in Hy.
  destruct Hy as [Hy Cy]. destruct (shallow_or_deep l y W Hy) as [[_ (Ny & _)]|[Py _]]; [|congruence].
  unfold counts in Cy. rewrite orb_diag in Cy. apply String.eqb_eq in Cy. congruence.
Qed.

Lemma bsel_absent l : ~ In r (gtags l) -> bsel r l = [].
Proof.
  intros H. destruct (bsel r l) as [|y m] eqn:E; auto. exfalso. apply H.
  assert (Hy : In y (bsel r l)) by (rewrite E; simpl; auto). apply filter_In in Hy. destruct Hy as [Hy Cy].
  unfold counts in Cy. rewrite orb_diag in Cy. apply String.eqb_eq in Cy.
  apply (proj2 (gtags_spec l)). rewrite <- Cy. now apply in_map.
Qed.

Section Step.
Variables (arrived : list garv) (x : garv).
Hypothesis W : wfb (arrived ++ [x]).
Let L := fun k => bsel k arrived.
Let L' := fun k => bsel k (arrived ++ [x]).
Let fo := fired_of arrived.
Let ts := gtags arrived.
Let ts' := gtags (arrived ++ [x]).
Let G := St L fo.

Lemma W0 : wfb arrived.
Proof. eapply wfb_prefix; exact W. Qed.

Lemma counts_unfired k : counts k x = true -> fo k = false /\ ~ In (fst x) (map fst (L k)) /\ L' k = L k ++ [x].
Proof.
  intros C. pose proof (bsel_lt k _ _ W C) as Lt. split; [|split].
  - unfold fo, fired_of. destruct (Nat.eqb_spec (length (bsel k arrived)) n); auto.
    exfalso. rewrite e in Lt. exact (Nat.lt_irrefl _ Lt).
  - pose proof (bsel_ports_nodup k _ W) as ND. rewrite bsel_snoc, C, map_app in ND. simpl in ND.
    apply NoDup_remove_2 in ND. now rewrite app_nil_r in ND.
  - unfold L', L. now rewrite bsel_snoc, C.
Qed.

Lemma nocount_same k : counts k x = false -> L' k = L k.
Proof. intros C. unfold L', L. now rewrite bsel_snoc, C, app_nil_r. Qed.

Lemma mid_shallow : gatag x = r ->
  add_to_list dot_add 0 true (snd x) (fst x) (tvb arrived) = inl (mk (St L' fo) ts').
Proof.
  intros Tx. set (p := fst x). set (e := snd x).
  destruct (gtags_spec arrived) as [NDt Mt]. fold ts in NDt, Mt.
  assert (Call : forall k, counts k x = true) by (intros k; unfold counts; now rewrite Tx, String.eqb_refl).
  unfold add_to_list. change (elem_tag e) with (gatag x). rewrite Tx.
  unfold tvb. fold L fo ts G. rewrite mk_keys.
  rewrite (propagate_all e p r ts NDt ts G NDt (fun q Hq => Hq)).
  2:{ intros k Hk. apply Mt in Hk. apply in_map_iff in Hk. destruct Hk as (y & Ey & Hy).
      destruct (shallow_or_deep _ y W0 Hy) as [[_ (_ & Pk & _)]|[_ Ty]]; [right|left]; congruence. }
  set (G1 := fun k => if existsb (String.eqb k) ts && negb (String.eqb k r) then addp e p (G k) else G k).
  assert (Cur : match lookup r (mk G1 ts) with Some pv => pv | None => [] end = G r).
  { destruct (in_dec string_dec r ts) as [i|ni].
    - rewrite lookup_mk by exact i. unfold G1. rewrite String.eqb_refl. simpl. now rewrite andb_false_r.
    - rewrite lookup_notin by now rewrite mk_keys.
      destruct (counts_unfired r (Call r)) as (Fr & _ & _). unfold G, St. rewrite Fr. unfold L.
      now rewrite bsel_absent. }
  rewrite Cur. unfold dot_add. fold (addp e p (G r)).
  rewrite assoc_set_mk_any by exact NDt. unfold ts'. rewrite gtags_snoc, Tx. fold ts.
  f_equal. apply mk_ext. intros k Hk. unfold upd.
  destruct (counts_unfired k (Call k)) as (Fk & Pk & Lk).
  assert (A : addp e p (G k) = St L' fo k).
  { unfold G, St. rewrite Fk, Lk. unfold e, p. now apply addp_ones. }
  destruct (String.eqb_spec k r); [subst k; exact A|].
  unfold G1. assert (In k ts) as Hkts.
  { unfold add_tag in Hk. destruct (existsb (String.eqb r) ts); auto. apply in_app_iff in Hk.
    destruct Hk as [?|[?|[]]]; auto. congruence. }
  apply existsb_eqb_in in Hkts. rewrite Hkts. destruct (String.eqb_spec k r); [congruence|]. exact A.
Qed.

Lemma mid_deep : fst x = dp -> deepc (gatag x) ->
  add_to_list dot_add 0 true (snd x) (fst x) (tvb arrived) = inl (mk (St L' fo) ts').
Proof.
  intros Px (Gne & Gpar & Gnot). set (g := gatag x) in *. set (e := snd x).
  destruct (gtags_spec arrived) as [NDt Mt]. fold ts in NDt, Mt.
  pose proof W as (_ & _ & _ & NDk & _ & Hun).
  (* g is a new key *)
  assert (Ng : ~ In g ts).
  { intros Hg. apply Mt in Hg. apply in_map_iff in Hg. destruct Hg as (y & Ey & Hy).
    destruct (shallow_or_deep _ y W0 Hy) as [[Py _]|[_ Ty]]; [|fold g in Gne; congruence].
    rewrite map_app in NDk. simpl in NDk. apply NoDup_remove_2 in NDk. rewrite app_nil_r in NDk.
    apply NDk. apply in_map_iff. exists y. split; auto. unfold gakey. now rewrite Py, Px, Ey. }
  (* every key but r is unrelated to g *)
  assert (Skip : forall k, In k ts -> k <> r ->
            k = g \/ (is_parent_tag_s k g = false /\ is_parent_tag_s g k = false)).
  { intros k Hk0 Hkr. right. pose proof Hk0 as Hk. apply Mt in Hk. apply in_map_iff in Hk. destruct Hk as (y & Ey & Hy).
    destruct (shallow_or_deep _ y W0 Hy) as [[Py _]|[_ Ty]]; [|congruence].
    assert (Hne : gatag y <> gatag x) by (rewrite Ey; fold g; intros E; apply Ng; now rewrite <- E).
    assert (Hne' : gatag x <> gatag y) by (intros E; apply Hne; now symmetry).
    assert (Iy : In y (arrived ++ [x])) by (rewrite in_app_iff; auto).
    assert (Ix : In x (arrived ++ [x])) by (rewrite in_app_iff; simpl; auto).
    rewrite <- Ey. fold g in Hun. split; [apply (Hun y x)|apply (Hun x y)]; auto. }
  assert (Fr : fo r = false).
  { unfold fo, fired_of. pose proof (bsel_r_lt _ W0) as Lt.
    destruct (Nat.eqb_spec (length (bsel r arrived)) n); auto. exfalso. rewrite e0 in Lt. exact (Nat.lt_irrefl _ Lt). }
  assert (Gr : G r = gones (L r)) by (unfold G, St; now rewrite Fr).
  assert (Cg : counts g x = true) by (unfold counts; fold g; rewrite String.eqb_refl; apply orb_true_r).
  assert (Lg : L' g = L r ++ [x]).
  { unfold L', L. rewrite bsel_snoc, Cg. f_equal. unfold bsel. apply filter_ext_in. intros y Hy.
    unfold counts. destruct (String.eqb_spec (gatag y) g) as [E|E].
    - exfalso. apply Ng, Mt. rewrite <- E. now apply in_map.
    - now rewrite orb_false_r, orb_diag. }
  assert (Fg : fo g = false).
  { unfold fo, fired_of. replace (bsel g arrived) with (L r).
    - exact Fr.
    - unfold L, bsel. apply filter_ext_in. intros y Hy. unfold counts.
      destruct (String.eqb_spec (gatag y) g) as [E|E].
      + exfalso. apply Ng, Mt. rewrite <- E. now apply in_map.
      + now rewrite orb_false_r, orb_diag. }
  assert (Same : forall k, k <> g -> St L' fo k = G k).
  { intros k Hk. unfold G, St. rewrite nocount_same; auto. unfold counts. fold g.
    destruct (String.eqb_spec g r); [congruence|]. destruct (String.eqb_spec g k); [congruence|]. reflexivity. }
  unfold add_to_list. change (elem_tag e) with g.
  unfold tvb. fold L fo ts G. rewrite mk_keys.
  (* the propagation loop *)
  assert (Prop1 : propagate dot_add ts g e (fst x) (mk G ts) =
                  inl (if existsb (String.eqb r) ts then mk (upd G g (gones (L r))) (ts ++ [g]) else mk G ts)).
  { destruct (existsb (String.eqb r) ts) eqn:Er.
    - apply existsb_eqb_in in Er. destruct (in_split _ _ Er) as (pre & post & Ets).
      assert (Npre : ~ In r pre) by (rewrite Ets in NDt; apply NoDup_remove_2 in NDt; rewrite in_app_iff in NDt; tauto).
      assert (Npost : ~ In r post) by (rewrite Ets in NDt; apply NoDup_remove_2 in NDt; rewrite in_app_iff in NDt; tauto).
      rewrite Ets at 1. rewrite propagate_skip_prefix.
      2:{ intros k Hk. apply Skip; [rewrite Ets, in_app_iff; auto|intros ->; tauto]. }
      simpl. destruct (String.eqb_spec g r); [congruence|]. rewrite Gnot, Gpar.
      rewrite lookup_mk by exact Er. rewrite Gr.
      assert (Lne : L r <> []) by (apply bsel_nonempty; exact Er).
      assert (forallb (fun pd : string * list elem => match snd pd with [] => true | _ :: _ => false end) (gones (L r)) = false) as ->.
      { destruct (L r) as [|y m]; [congruence|]. reflexivity. }
      rewrite lookup_notin by now rewrite mk_keys.
      change (@nil (string * list elem)) with (gones []).
      rewrite copy_ones by (simpl; apply (bsel_ports_nodup r _ W0)). simpl app.
      rewrite assoc_set_mk_new by exact Ng.
      apply propagate_skip. intros k Hk. apply Skip; [rewrite Ets, in_app_iff; simpl; auto|intros ->; tauto].
    - apply propagate_skip. intros k Hk. apply Skip; auto. intros ->.
      apply existsb_eqb_in in Hk. congruence. }
  rewrite Prop1.
  assert (NDtg : NoDup (ts ++ [g])) by (apply NoDup_snoc; auto).
  assert (Pdp : ~ In (fst x) (map fst (L r))) by (rewrite Px; apply dp_notin_r; exact W0).
  assert (Ets' : ts' = ts ++ [g]).
  { unfold ts'. rewrite gtags_snoc. fold g ts. unfold add_tag.
    destruct (existsb (String.eqb g) ts) eqn:E; auto. apply existsb_eqb_in in E. tauto. }
  destruct (existsb (String.eqb r) ts) eqn:Er.
  - rewrite lookup_mk by (rewrite in_app_iff; simpl; auto).
    unfold upd at 1. rewrite String.eqb_refl. unfold dot_add. fold (addp e (fst x) (gones (L r))).
    unfold e. rewrite addp_ones by exact Pdp.
    rewrite assoc_set_mk by (auto; rewrite in_app_iff; simpl; auto).
    f_equal. rewrite Ets'. apply mk_ext. intros k Hk. unfold upd.
    destruct (String.eqb_spec k g).
    + subst k. unfold St. now rewrite Fg, Lg.
    + symmetry. now apply Same.
  - assert (Nr : ~ In r ts) by (rewrite <- existsb_eqb_in; congruence).
    rewrite lookup_notin by now rewrite mk_keys.
    unfold dot_add. fold (addp e (fst x) []). change (@nil (string * list elem)) with (gones []).
    assert (Lr : L r = []) by (unfold L; now apply bsel_absent).
    unfold e. rewrite addp_ones by (simpl; tauto). simpl app.
    rewrite assoc_set_mk_new by exact Ng.
    f_equal. rewrite Ets'. apply mk_ext. intros k Hk. unfold upd.
    destruct (String.eqb_spec k g).
    + subst k. unfold St. rewrite Fg, Lg, Lr. reflexivity.
    + symmetry. now apply Same.
Qed.


(* one element arriving for item (fst x) of a dot product over [items] *)
Lemma combine1_b p t :
  combine1 KDot items (fst x) (snd x) p t (tvb arrived) =
  (tvb (arrived ++ [x]), emission_b arrived x, None).
Proof.
  pose proof W as (NDi & Hdp & Hports & NDk & Hkind & _).
  assert (Ix : In x (arrived ++ [x])) by (rewrite in_app_iff; simpl; auto).
  unfold combine1.
  assert (Mid : add_to_list dot_add 0 true (snd x) (fst x) (tvb arrived) = inl (mk (St L' fo) ts')).
  { destruct (shallow_or_deep _ x W Ix) as [[Px Dx]|[Px Tx]]; [now apply mid_deep|now apply mid_shallow]. }
  rewrite Mid. unfold dot_product. rewrite mk_keys.
  destruct (gtags_spec (arrived ++ [x])) as [NDt' Mt']. fold ts' in NDt', Mt'.
  fold n. rewrite (scan_fire n ts' L' NDt' ts' fo NDt' (fun q Hq => Hq)).
  2:{ intros k Hk _. split; [apply bsel_nonempty; exact Hk|apply bsel_ports_nodup; exact W]. }
  f_equal. f_equal. unfold tvb. fold ts'. apply mk_ext. intros k Hk.
  unfold St. replace (fired_after n L' ts' fo k) with (fired_of (arrived ++ [x]) k); auto.
  unfold fired_after. apply existsb_eqb_in in Hk. rewrite Hk. simpl.
  unfold fired_of at 1. fold (L' k). destruct (fo k) eqn:Fk; simpl; auto.
  destruct (counts k x) eqn:C.
  - destruct (counts_unfired k C) as (F & _). congruence.
  - rewrite nocount_same by exact C. exact Fk.
Qed.
End Step.
End Bcast.
