(* Recovery/Proofs.v — lemmas about Recovery/Model.v (property C16). *)
From Coq Require Import List Bool Arith Lia.
From SF Require Import Recovery.Model.
Import ListNotations.

Section Proofs.
  Variable val : Type.
  Variable dflt : val.
  Notation dag := (dag val). Notation store := (store val).

  (* the failure-free value of job i *)
  Definition den (d : dag) (i : nat) : val :=
    match failure_free d i with Some v => v | None => dflt end.

  Lemma upd_same (s : store) i v : upd s i v i = v.
  Proof. unfold upd. rewrite Nat.eqb_refl. reflexivity. Qed.
  Lemma upd_other (s : store) i v k : k <> i -> upd s i v k = s k.
  Proof. intros H. unfold upd. destruct (Nat.eqb_spec k i); [contradiction|reflexivity]. Qed.

  Lemma all_some_map (s : store) (f : nat -> val) l :
    (forall k, In k l -> s k = Some (f k)) -> all_some (map s l) = Some (map f l).
  Proof.
    induction l as [|k r IH]; intros H; simpl; [reflexivity|].
    rewrite (H k (or_introl eq_refl)). rewrite IH; [reflexivity|]. intros; apply H; right; assumption.
  Qed.

  Lemma all_some_inv (s : store) l vs :
    all_some (map s l) = Some vs -> forall k, In k l -> exists v, s k = Some v.
  Proof.
    revert vs. induction l as [|k r IH]; intros vs H x Hin; [destruct Hin|].
    simpl in H. destruct (s k) eqn:E; [|discriminate].
    destruct (all_some (map s r)) eqn:E2; [|discriminate].
    destruct Hin as [<-|Hin]; [eauto|eapply IH; eauto].
  Qed.

  Lemma all_some_agree (s : store) (f : nat -> val) l vs :
    (forall k v, s k = Some v -> v = f k) -> all_some (map s l) = Some vs -> vs = map f l.
  Proof.
    intros Hag. revert vs. induction l as [|k r IH]; intros vs H; simpl in *; [congruence|].
    destruct (s k) eqn:E; [|discriminate].
    destruct (all_some (map s r)) eqn:E2; [|discriminate].
    inversion H; subst. rewrite (Hag _ _ E). f_equal. apply IH. reflexivity.
  Qed.

  Lemma ff_run_S (d : dag) n : ff_run d (S n) = step d (ff_run d n) (Exec n).
  Proof.
    unfold ff_run, run. rewrite seq_S, map_app, fold_left_app. reflexivity.
  Qed.

  (* after the first n jobs ran in order, jobs < n have a value, and it is the job function applied to the
     values of the inputs *)
  Lemma ff_run_spec (d : dag) : well_formed d -> forall n, n <= length d ->
    forall i, i < n -> exists j, nth_error d i = Some j /\
      exists v, ff_run d n i = Some v /\
      exists f : nat -> val, (forall k, In k (inputs j) -> ff_run d n k = Some (f k)) /\ v = fn j (map f (inputs j)).
  Proof.
    intros Hwf. induction n as [|n IH]; intros Hn i Hi; [lia|].
    rewrite ff_run_S.
    assert (Hnth : exists j, nth_error d n = Some j).
    { destruct (nth_error d n) eqn:E; [eauto|]. apply nth_error_None in E. lia. }
    destruct Hnth as [jn Ejn].
    (* inputs of job n are all available after n steps *)
    assert (Hav : forall k, In k (inputs jn) -> exists v, ff_run d n k = Some v).
    { intros k Hk. pose proof (Hwf n jn Ejn k Hk) as Hlt.
      destruct (IH ltac:(lia) k Hlt) as (j & _ & v & Hv & _). eauto. }
    set (f := fun k => match ff_run d n k with Some v => v | None => dflt end).
    assert (Hf : forall k, In k (inputs jn) -> ff_run d n k = Some (f k)).
    { intros k Hk. destruct (Hav k Hk) as [v Hv]. unfold f. rewrite Hv. reflexivity. }
    simpl. rewrite Ejn. rewrite (all_some_map _ f _ Hf).
    destruct (Nat.eq_dec i n) as [->|Hne].
    - exists jn. split; [assumption|]. exists (fn jn (map f (inputs jn))). rewrite upd_same.
      split; [reflexivity|]. exists f. split; [|reflexivity].
      intros k Hk. rewrite upd_other; [auto|]. pose proof (Hwf n jn Ejn k Hk). lia.
    - destruct (IH ltac:(lia) i ltac:(lia)) as (j & Ej & v & Hv & g & Hg & Hvg).
      exists j. split; [assumption|]. exists v. rewrite upd_other by assumption.
      split; [assumption|]. exists g. split; [|assumption].
      intros k Hk. rewrite upd_other; [auto|]. pose proof (Hwf i j Ej k Hk). lia.
  Qed.

  Lemma failure_free_total (d : dag) : well_formed d ->
    forall i, i < length d -> failure_free d i = Some (den d i).
  Proof.
    intros Hwf i Hi. unfold den.
    destruct (ff_run_spec d Hwf (length d) (le_n _) i Hi) as (j & _ & v & Hv & _).
    unfold failure_free. rewrite Hv. reflexivity.
  Qed.

  (* the failure-free values are a fixpoint of the job functions *)
  Lemma den_fixpoint (d : dag) : well_formed d ->
    forall i j, nth_error d i = Some j -> den d i = fn j (map (den d) (inputs j)).
  Proof.
    intros Hwf i j Ej.
    assert (Hi : i < length d) by (apply nth_error_Some; congruence).
    destruct (ff_run_spec d Hwf (length d) (le_n _) i Hi) as (j' & Ej' & v & Hv & f & Hf & Hvf).
    rewrite Ej in Ej'. inversion Ej'; subst j'.
    unfold den at 1. unfold failure_free. rewrite Hv. rewrite Hvf.
    f_equal. apply map_ext_in. intros k Hk. unfold den, failure_free. rewrite (Hf k Hk). reflexivity.
  Qed.

  (* a store agrees with the failure-free run wherever it has a value *)
  Definition agrees (d : dag) (s : store) : Prop := forall i v, s i = Some v -> v = den d i.

  Lemma agrees_empty (d : dag) : agrees d (empty).
  Proof. intros i v H. discriminate. Qed.

  Lemma step_agrees (d : dag) : well_formed d -> forall s e, agrees d s -> agrees d (step d s e).
  Proof.
    intros Hwf s e Hag. destruct e as [i|i]; simpl.
    - destruct (nth_error d i) as [j|] eqn:Ej; [|assumption].
      destruct (all_some (map s (inputs j))) as [vs|] eqn:Evs; [|assumption].
      intros k v. destruct (Nat.eq_dec k i) as [->|Hne].
      + rewrite upd_same. intros H; inversion H; subst.
        rewrite (den_fixpoint d Hwf i j Ej). f_equal.
        eapply all_some_agree; eauto.
      + rewrite upd_other by assumption. apply Hag.
    - intros k v. destruct (Nat.eq_dec k i) as [->|Hne].
      + rewrite upd_same. discriminate.
      + rewrite upd_other by assumption. apply Hag.
  Qed.

  Lemma run_agrees (d : dag) : well_formed d -> forall evs s, agrees d s -> agrees d (run d evs s).
  Proof.
    intros Hwf evs. induction evs as [|e r IH]; intros s Hag; simpl; [assumption|].
    apply IH. apply step_agrees; assumption.
  Qed.

  (* SAFETY: whatever failures, losses and re-executions happened, every value that exists equals the value
     the failure-free run computes for that job *)
  Lemma recovered_equals_failure_free (d : dag) : well_formed d ->
    forall evs i v, run d evs empty i = Some v -> failure_free d i = Some v.
  Proof.
    intros Hwf evs i v H.
    pose proof (run_agrees d Hwf evs empty (agrees_empty d) i v H) as ->.
    destruct (le_lt_dec (length d) i) as [Hge|Hlt]; [|apply failure_free_total; assumption].
    (* a job outside the dag never gets a value *)
    exfalso. clear -H Hge.
    assert (Hnone : forall evs s, s i = None -> run d evs s i = None).
    { intros evs0. induction evs0 as [|e r IH]; intros s Hs; simpl; [assumption|]. apply IH.
      destruct e as [k|k]; simpl.
      - destruct (nth_error d k) eqn:E; [|assumption].
        destruct (all_some (map s (inputs j))); [|assumption].
        rewrite upd_other; [assumption|]. intros ->. apply nth_error_None in Hge. congruence.
      - destruct (Nat.eq_dec i k) as [->|Hne]; [apply upd_same|rewrite upd_other; assumption]. }
    rewrite (Hnone evs empty eq_refl) in H. discriminate.
  Qed.

  (* LIVENESS of the canonical rollback from any state: availability only grows, and job i ends up available *)
  Lemma step_exec_mono (d : dag) (s : store) i k v : s k = Some v -> exists v', step d s (Exec i) k = Some v'.
  Proof.
    intros H. simpl. destruct (nth_error d i); [|eauto].
    destruct (all_some (map s (inputs j))); [|eauto].
    destruct (Nat.eq_dec k i) as [->|Hne]; [rewrite upd_same; eauto|rewrite upd_other; eauto].
  Qed.

  Lemma ensure_mono (d : dag) fuel : forall (s : store) i k v, s k = Some v -> exists v', ensure d fuel s i k = Some v'.
  Proof.
    induction fuel as [|f IH]; intros s i k v H; simpl; [eauto|].
    destruct (s i); [eauto|]. destruct (nth_error d i) as [j|]; [|eauto].
    assert (Hfold : forall l (s0 : store) v0, s0 k = Some v0 -> exists v', fold_left (ensure d f) l s0 k = Some v').
    { induction l as [|x r IHl]; intros s0 v0 H0; simpl; [eauto|].
      destruct (IH s0 x k v0 H0) as [v1 H1]. eapply IHl; eauto. }
    destruct (Hfold (inputs j) s v H) as [v1 H1].
    destruct (all_some (map (fold_left (ensure d f) (inputs j) s) (inputs j))); [|eauto].
    destruct (Nat.eq_dec k i) as [->|Hne]; [rewrite upd_same; eauto|rewrite upd_other; eauto].
  Qed.

  Lemma ensure_available (d : dag) : well_formed d -> forall fuel (s : store) i,
    i < length d -> i < fuel -> exists v, ensure d fuel s i i = Some v.
  Proof.
    intros Hwf. induction fuel as [|f IH]; intros s i Hi Hf; [lia|].
    simpl. destruct (s i) eqn:Esi; [eauto|].
    destruct (nth_error d i) as [j|] eqn:Ej; [|apply nth_error_None in Ej; lia].
    (* after the fold every input is available *)
    assert (Hfold : forall l (s0 : store), (forall k, In k l -> k < i) ->
              forall k, In k l -> exists v, fold_left (ensure d f) l s0 k = Some v).
    { induction l as [|x r IHl]; intros s0 Hlt k Hk; [destruct Hk|]. simpl.
      destruct Hk as [<-|Hk].
      - destruct (IH s0 x ltac:(pose proof (Hlt x (or_introl eq_refl)); lia)
                        ltac:(pose proof (Hlt x (or_introl eq_refl)); lia)) as [v Hv].
        clear -Hv IH. revert Hv. generalize (ensure d f s0 x). generalize v.
        induction r as [|y r IHr]; intros v0 s1 Hv; simpl; [eauto|].
        destruct (ensure_mono d f s1 y x v0 Hv) as [v1 Hv1]. eapply IHr; eauto.
      - apply IHl; [intros; apply Hlt; right; assumption|assumption]. }
    set (s' := fold_left (ensure d f) (inputs j) s).
    assert (Hall : exists vs, all_some (map s' (inputs j)) = Some vs).
    { set (g := fun k => match s' k with Some v => v | None => dflt end).
      exists (map g (inputs j)). apply all_some_map. intros k Hk.
      destruct (Hfold (inputs j) s (Hwf i j Ej) k Hk) as [v Hv]. unfold g. fold s' in Hv. rewrite Hv. reflexivity. }
    destruct Hall as [vs Hvs]. fold s'. rewrite Hvs, upd_same. eauto.
  Qed.

  (* ensure is itself a history of execution attempts, so safety applies to it *)
  Lemma ensure_agrees (d : dag) : well_formed d -> forall fuel (s : store) i, agrees d s -> agrees d (ensure d fuel s i).
  Proof.
    intros Hwf. induction fuel as [|f IH]; intros s i Hag; cbn [ensure]; [assumption|].
    destruct (s i); [assumption|]. destruct (nth_error d i) as [j|]; [|assumption].
    apply step_agrees; [assumption|].
    generalize dependent s. induction (inputs j) as [|x r IHr]; intros s Hag; simpl; [assumption|].
    apply IHr. apply IH. assumption.
  Qed.

  Lemma rollback_completes (d : dag) : well_formed d -> forall evs out, out < length d ->
    ensure d (S out) (run d evs empty) out out = failure_free d out.
  Proof.
    intros Hwf evs out Hout.
    destruct (ensure_available d Hwf (S out) (run d evs empty) out Hout (Nat.lt_succ_diag_r _)) as [v Hv].
    rewrite Hv. rewrite failure_free_total by assumption. f_equal.
    eapply ensure_agrees; [assumption| |exact Hv].
    apply run_agrees; [assumption|apply agrees_empty].
  Qed.
End Proofs.

(* versions without the default element where a value is at hand *)
Lemma recovered_equals_failure_free' (val : Type) (d : dag val) :
  well_formed d -> forall evs i v, run d evs empty i = Some v -> failure_free d i = Some v.
Proof. intros Hwf evs i v H. exact (recovered_equals_failure_free val v d Hwf evs i v H). Qed.

Lemma ensure_mono' (val : Type) (d : dag val) fuel s i k (v : val) :
  s k = Some v -> exists v', ensure d fuel s i k = Some v'.
Proof. exact (ensure_mono val d fuel s i k v). Qed.
