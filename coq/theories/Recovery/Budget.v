(* Recovery/Budget.v — the liveness half of C16 with the retry budget: rollbacks granted by the retry counter.
   (Definitions and their lemmas together: an extension of Recovery/Model.v + Retry/Model.v's counter semantics.)

   ANCHORS:
     streamflow.recovery.failure_manager.RollbackFailureManager._recover / _synchronize_workflows / _update_request
        (a rollback covers a set S of jobs -- the failed job and the producers of its unavailable inputs; it is granted
         iff every job of S has version < max_retries; then every version is incremented and the jobs are re-executed
         in dependency order; otherwise FailureHandlingException aborts the run)

   A managed history is a list of failures.  Each failure names the failed job, the outputs lost with it (fail-stop;
   [] for a soft failure, and organic failures caused by an earlier loss are failures like any other) and the rollback
   set S the engine chose (the provenance-graph search of C18 is abstracted: any S that is closed, see [closed_b]). *)
From Coq Require Import List Bool Arith NArith Lia.
From SF Require Import Recovery.Model Recovery.Proofs.
Import ListNotations.

Section Budget.
  Variable val : Type.
  Variable dflt : val.
  Notation dag := (dag val). Notation store := (store val).

  Record failure := mkfail { failed : nat; lost : list nat; rset : list nat }.

  Definition mem (j : nat) (l : list nat) : bool := existsb (Nat.eqb j) l.

  Record mstate := mkm { mst : store; mver : nat -> N }.
  Definition m0 (s : store) : mstate := mkm s (fun _ => 1%N).     (* RecoveryRequest.version starts at 1 *)

  Definition lose_all (s : store) (l : list nat) : store := fold_left (fun s i => upd s i None) l s.
  Definition exec_all (d : dag) (s : store) (l : list nat) : store := fold_left (fun s i => step d s (Exec i)) l s.

  (* granted iff every job of the rollback set is below the limit (None = no limit configured) *)
  Definition granted (lim : option N) (m : mstate) (S : list nat) : bool :=
    match lim with None => true | Some L => forallb (fun j => N.ltb (mver m j) L) S end.

  (* None = the manager refuses: FailureHandlingException, the workflow fails *)
  Definition mstep (d : dag) (lim : option N) (m : mstate) (f : failure) : option mstate :=
    if granted lim m (rset f)
    then Some (mkm (exec_all d (lose_all (mst m) (lost f)) (rset f))
                   (fun j => if mem j (rset f) then (mver m j + 1)%N else mver m j))
    else None.

  Fixpoint mrun (d : dag) (lim : option N) (m : mstate) (h : list failure) : option mstate :=
    match h with
    | [] => Some m
    | f :: r => match mstep d lim m f with Some m' => mrun d lim m' r | None => None end
    end.

  (* how many rollbacks of the history re-execute job j *)
  Definition demand (h : list failure) (j : nat) : N :=
    N.of_nat (length (filter (fun f => mem j (rset f)) h)).

  (* the rollback set is closed w.r.t. the store it is applied to: ascending order is dependency order, it contains
     the failed job, and every input of every member is available or an earlier member *)
  Fixpoint closed_from (d : dag) (s : store) (done : list nat) (S : list nat) : bool :=
    match S with
    | [] => true
    | j :: r =>
        match nth_error d j with
        | None => false
        | Some jb =>
            forallb (fun k => mem k done || match s k with Some _ => true | None => false end) (inputs jb)
            && closed_from d s (j :: done) r
        end
    end.
  Definition closed_b (d : dag) (s : store) (f : failure) : bool :=
    mem (failed f) (rset f) && closed_from d (lose_all s (lost f)) [] (rset f).

  (* every failure of the history picks a closed rollback set (checked against the evolving store) *)
  Fixpoint all_closed (d : dag) (lim : option N) (m : mstate) (h : list failure) : bool :=
    match h with
    | [] => true
    | f :: r => closed_b d (mst m) f &&
                match mstep d lim m f with Some m' => all_closed d lim m' r | None => true end
    end.

  (* ------------------------------------------------------------------------------------------- *)
  Lemma granted_budget L m S :
    (forall j, mem j S = true -> (mver m j < L)%N) -> granted (Some L) m S = true.
  Proof.
    intros H. simpl. apply forallb_forall. intros j Hj. apply N.ltb_lt. apply H.
    unfold mem. apply existsb_exists. exists j. split; [assumption|apply Nat.eqb_refl].
  Qed.

  Lemma demand_cons f h j : demand (f :: h) j = ((if mem j (rset f) then 1 else 0) + demand h j)%N.
  Proof.
    unfold demand. cbn [filter]. destruct (mem j (rset f)); [cbn [length]; rewrite Nat2N.inj_succ; lia|lia].
  Qed.

  (* BUDGET: if, for every job, first execution + re-executions demanded by the history stay within the limit, every
     rollback is granted and the versions are exactly 1 + demand *)
  Lemma mrun_granted d L h : forall m,
    (forall j, (mver m j + demand h j <= L)%N) ->
    exists m', mrun d (Some L) m h = Some m' /\ forall j, mver m' j = (mver m j + demand h j)%N.
  Proof.
    induction h as [|f r IH]; intros m Hb.
    - exists m. split; [reflexivity|]. intros j. unfold demand. simpl. lia.
    - simpl. unfold mstep.
      assert (Hg : granted (Some L) m (rset f) = true).
      { apply granted_budget. intros j Hj. specialize (Hb j). rewrite demand_cons, Hj in Hb. lia. }
      rewrite Hg.
      set (m1 := mkm (exec_all d (lose_all (mst m) (lost f)) (rset f))
                     (fun j => if mem j (rset f) then (mver m j + 1)%N else mver m j)).
      destruct (IH m1) as (m' & Hrun & Hver).
      { intros j. specialize (Hb j). rewrite demand_cons in Hb. simpl. destruct (mem j (rset f)); lia. }
      exists m'. split; [assumption|]. intros j. rewrite Hver, demand_cons. simpl.
      destruct (mem j (rset f)); lia.
  Qed.

  (* ... and the bound is tight: a history that is granted satisfies it for every job it ever rolls back *)
  Lemma mrun_some_budget d L h : forall m m',
    mrun d (Some L) m h = Some m' ->
    forall j, (demand h j > 0)%N -> (mver m j + demand h j <= L)%N.
  Proof.
    induction h as [|f r IH]; intros m m' Hrun j Hd.
    - unfold demand in Hd. simpl in Hd. lia.
    - simpl in Hrun. unfold mstep in Hrun.
      destruct (granted (Some L) m (rset f)) eqn:Hg; [|discriminate].
      set (m1 := mkm (exec_all d (lose_all (mst m) (lost f)) (rset f))
                     (fun j => if mem j (rset f) then (mver m j + 1)%N else mver m j)) in *.
      rewrite demand_cons in *. destruct (mem j (rset f)) eqn:Hm.
      + destruct (N.eq_dec (demand r j) 0) as [E0|N0].
        * rewrite E0. simpl in Hg. rewrite forallb_forall in Hg.
          unfold mem in Hm. apply existsb_exists in Hm. destruct Hm as (x & Hx & Hxe).
          apply Nat.eqb_eq in Hxe. subst x. specialize (Hg j Hx). apply N.ltb_lt in Hg. lia.
        * specialize (IH m1 m' Hrun j ltac:(lia)). simpl in IH. rewrite Hm in IH. lia.
      + specialize (IH m1 m' Hrun j ltac:(lia)). simpl in IH. rewrite Hm in IH. lia.
  Qed.

  (* PROGRESS: executing a closed rollback set makes every member available *)
  Lemma exec_closed d : well_formed d -> forall S (s : store) done,
    closed_from d s done S = true ->
    (forall k, mem k done = true -> s k <> None) ->
    forall j, mem j S = true -> exec_all d s S j <> None.
  Proof.
    intros Hwf. induction S as [|x r IH]; intros s done Hc Hdone j Hj; [discriminate|].
    simpl in Hc. destruct (nth_error d x) as [jb|] eqn:Ex; [|discriminate].
    apply andb_true_iff in Hc. destruct Hc as [Hin Hrest].
    (* x executes: all inputs available *)
    assert (Hall : exists vs, all_some (map s (inputs jb)) = Some vs).
    { set (g := fun k => match s k with Some v => v | None => dflt end).
      exists (map g (inputs jb)). apply all_some_map. intros k Hk.
      rewrite forallb_forall in Hin. specialize (Hin k Hk). apply orb_true_iff in Hin.
      unfold g. destruct (s k) eqn:E; [reflexivity|]. destruct Hin as [Hm|Hf]; [|discriminate].
      exfalso. exact (Hdone k Hm E). }
    destruct Hall as [vs Hvs].
    set (s1 := step d s (Exec x)).
    assert (Hs1x : s1 x <> None).
    { unfold s1. simpl. rewrite Ex, Hvs, upd_same. discriminate. }
    assert (Hmono : forall k, s k <> None -> s1 k <> None).
    { intros k Hk. unfold s1. simpl. rewrite Ex, Hvs.
      destruct (Nat.eq_dec k x) as [->|Hne]; [rewrite upd_same; discriminate|rewrite upd_other; assumption]. }
    (* availability only grows along exec_all *)
    assert (Hgrow : forall l (s0 : store) k, s0 k <> None -> exec_all d s0 l k <> None).
    { induction l as [|y l IHl]; intros s0 k Hk; simpl; [assumption|]. apply IHl.
      simpl. destruct (nth_error d y) as [jy|]; [|assumption].
      destruct (all_some (map s0 (inputs jy))); [|assumption].
      destruct (Nat.eq_dec k y) as [->|Hne]; [rewrite upd_same; discriminate|rewrite upd_other; assumption]. }
    simpl in Hj. apply orb_true_iff in Hj. change (exec_all d s (x :: r) j) with (exec_all d s1 r j).
    destruct Hj as [Hjx|Hjr].
    - apply Nat.eqb_eq in Hjx. subst j. apply Hgrow. assumption.
    - apply (IH s1 (x :: done)); [| |assumption].
      + (* closedness is monotone in the store *)
        clear -Hrest Hmono. revert Hrest. generalize (x :: done). induction r as [|y r IHr]; intros dn Hc; simpl in *; [reflexivity|].
        destruct (nth_error d y) as [jy|]; [|discriminate].
        apply andb_true_iff in Hc. destruct Hc as [H1 H2]. apply andb_true_iff. split; [|apply IHr; assumption].
        rewrite forallb_forall in *. intros k Hk. specialize (H1 k Hk). apply orb_true_iff in H1. apply orb_true_iff.
        destruct H1 as [H1|H1]; [left; assumption|right].
        destruct (s k) eqn:E; [|discriminate]. specialize (Hmono k ltac:(congruence)). destruct (s1 k); [reflexivity|congruence].
      + intros k Hk. simpl in Hk. apply orb_true_iff in Hk. destruct Hk as [Hk|Hk].
        * apply Nat.eqb_eq in Hk. subst k. assumption.
        * apply Hmono. apply Hdone. assumption.
  Qed.

  (* managed runs are histories of Model.v: the store always agrees with the failure-free run *)
  Lemma lose_all_agrees d l : forall s, agrees val dflt d s -> agrees val dflt d (lose_all s l).
  Proof.
    induction l as [|i r IH]; intros s H; simpl; [assumption|]. apply IH.
    intros k v. destruct (Nat.eq_dec k i) as [->|Hne]; [rewrite upd_same; discriminate|rewrite upd_other; auto].
  Qed.

  Lemma exec_all_agrees d : well_formed d -> forall l s, agrees val dflt d s -> agrees val dflt d (exec_all d s l).
  Proof.
    intros Hwf. induction l as [|i r IH]; intros s H; [assumption|].
    change (exec_all d s (i :: r)) with (exec_all d (step d s (Exec i)) r). apply IH.
    apply step_agrees; assumption.
  Qed.

  Lemma mstep_agrees d lim m f m' : well_formed d ->
    mstep d lim m f = Some m' -> agrees val dflt d (mst m) -> agrees val dflt d (mst m').
  Proof.
    intros Hwf. unfold mstep. destruct (granted lim m (rset f)); [|discriminate].
    intros H; inversion H; subst; simpl. intros Ha. apply exec_all_agrees; [assumption|]. apply lose_all_agrees. assumption.
  Qed.

  Lemma mrun_agrees d lim : well_formed d -> forall h m m',
    mrun d lim m h = Some m' -> agrees val dflt d (mst m) -> agrees val dflt d (mst m').
  Proof.
    intros Hwf. induction h as [|f r IH]; intros m m' Hrun Ha; simpl in Hrun; [inversion Hrun; subst; assumption|].
    destruct (mstep d lim m f) as [m1|] eqn:E; [|discriminate].
    eapply IH; [eassumption|]. eapply mstep_agrees; eassumption.
  Qed.

  (* a granted, closed rollback makes the failed job's output exist again *)
  Lemma mstep_recovers d lim m f m' : well_formed d ->
    closed_b d (mst m) f = true -> mstep d lim m f = Some m' -> mst m' (failed f) <> None.
  Proof.
    intros Hwf Hc. unfold mstep. destruct (granted lim m (rset f)); [|discriminate].
    intros H; inversion H; subst; simpl. unfold closed_b in Hc. apply andb_true_iff in Hc. destruct Hc as [Hm Hcl].
    eapply (exec_closed d Hwf (rset f) _ []); [exact Hcl| |exact Hm].
    intros k Hk. discriminate.
  Qed.

  Lemma ensure_completes_from d : well_formed d -> forall (s : store) out,
    agrees val dflt d s -> out < length d -> ensure d (S out) s out out = failure_free d out.
  Proof.
    intros Hwf s out Ha Hout.
    destruct (ensure_available val dflt d Hwf (S out) s out Hout (Nat.lt_succ_diag_r _)) as [v Hv].
    rewrite Hv. rewrite (failure_free_total val dflt d Hwf out Hout). f_equal.
    exact (ensure_agrees val dflt d Hwf (S out) s out Ha out v Hv).
  Qed.

  (* every failure of the history is granted and, right after its rollback, its failed job's output exists again *)
  Fixpoint recovered_all (d : dag) (lim : option N) (m : mstate) (h : list failure) : Prop :=
    match h with
    | [] => True
    | f :: r => match mstep d lim m f with
                | Some m' => mst m' (failed f) <> None /\ recovered_all d lim m' r
                | None => False
                end
    end.

  Lemma recovered_all_holds d lim : well_formed d -> forall h m m',
    mrun d lim m h = Some m' -> all_closed d lim m h = true -> recovered_all d lim m h.
  Proof.
    intros Hwf. induction h as [|f r IH]; intros m m' Hrun Hc; simpl; [exact I|].
    simpl in Hrun, Hc. apply andb_true_iff in Hc. destruct Hc as [Hcf Hcr].
    destruct (mstep d lim m f) as [m1|] eqn:E; [|discriminate].
    split; [eapply mstep_recovers; eassumption|]. eapply IH; eassumption.
  Qed.

  (* LIVENESS WITH THE BUDGET.  From any state that agrees with the failure-free run (e.g. the empty one, or any prefix
     of the run), for every history of failures -- any jobs, any losses, including rollbacks caused by consumers -- whose
     rollback sets are CLOSED (each contains its failed job, and every input of a member is available or an earlier
     member; checked against the evolving store) and in which each job's first execution plus the re-executions demanded
     of it stay within the limit: every rollback is granted (the run is never aborted), each granted rollback makes its
     failed job's output exist again (so the run can go on from there), versions are exactly 1 + demand, and the store
     still agrees with the failure-free run (every value that exists is the failure-free one). *)
  Theorem completes_within_budget d L h s0 :
    well_formed d -> agrees val dflt d s0 ->
    all_closed d (Some L) (m0 s0) h = true ->
    (forall j, (1 + demand h j <= L)%N) ->
    exists m', mrun d (Some L) (m0 s0) h = Some m' /\
               recovered_all d (Some L) (m0 s0) h /\
               (forall j, mver m' j = (1 + demand h j)%N) /\
               agrees val dflt d (mst m').
  Proof.
    intros Hwf Ha Hc Hb.
    destruct (mrun_granted d L h (m0 s0) Hb) as (m' & Hrun & Hver).
    exists m'. split; [assumption|].
    split; [eapply recovered_all_holds; eassumption|]. split; [exact Hver|].
    exact (mrun_agrees d (Some L) Hwf h (m0 s0) m' Hrun Ha).
  Qed.

  (* THE BOUNDARY.  Conversely a history is granted only if the budget holds for every job it ever rolls back: the
     condition above is exactly (for those jobs) what the retry counter enforces. *)
  Theorem granted_only_within_budget (d : dag) (L : N) (h : list failure) (s0 : store) (m' : mstate) :
    mrun d (Some L) (m0 s0) h = Some m' -> forall j : nat, (demand h j > 0)%N -> (1 + demand h j <= L)%N.
  Proof. intros H j Hj. exact (mrun_some_budget d L h (m0 s0) m' H j Hj). Qed.
End Budget.
