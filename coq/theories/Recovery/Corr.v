(* Recovery/Corr.v — correspondence cases for Recovery/Model.v (used by the C16 check): the job DAG of a
   generated workflow shape with the concrete job functions of the harness, the history the real engine
   produced (successful job executions, data losses) and the output it delivered. *)
From Coq Require Import List Bool Arith NArith ZArith Ascii.
From SF Require Import Base.Str Base.Dec Base.Corr.
From SF Require Export Recovery.Model Recovery.InjectModel.
Import ListNotations.
Local Open Scope string_scope. Local Open Scope list_scope.

Inductive cval := VN (n : Z) | VS (s : string) | VL (l : list cval).

Fixpoint cval_eqb (a b : cval) : bool :=
  match a, b with
  | VN x, VN y => Z.eqb x y
  | VS x, VS y => String.eqb x y
  | VL x, VL y =>
      (fix go (x y : list cval) : bool :=
         match x, y with
         | [], [] => true
         | p :: x', q :: y' => cval_eqb p q && go x' y'
         | _, _ => false
         end) x y
  | _, _ => false
  end.

Definition bad : cval := VN (-1)%Z.
Definition ints (l : list cval) : option (list Z) :=
  fold_right (fun v acc => match v, acc with VN n, Some r => Some (n :: r) | _, _ => None end) (Some []) l.
Definition strs (l : list cval) : option (list string) :=
  fold_right (fun v acc => match v, acc with VS s, Some r => Some (s :: r) | _, _ => None end) (Some []) l.
Definition zsum (l : list Z) : Z := fold_right Z.add 0%Z l.

(* the job functions of harness/props/_recov_shapes.py:apply_op; [len] = len(label) *)
Inductive op :=
| OConstN (n : Z) | OConstS (s : string)
| OInc (len : Z) | OCat (label : string)
| OSplitN (n : nat) | OSplit (n : nat)
| OElemInc (k : nat) (len : Z) | OElemCat (k : nat) (label : string)
| OJoin (label : string) | OSum (len : Z)
| OSucc.

Definition apply_op (o : op) (vals : list cval) : cval :=
  match o with
  | OConstN n => VN n
  | OConstS s => VS s
  | OInc len => match ints vals with Some l => VN (zsum l * 2 + len) | None => bad end
  | OCat label => match strs vals with Some l => VS (join "+" l ++ "|" ++ label) | None => bad end
  | OSplitN n => match vals with [VN v] => VL (map (fun i => VN (v * 10 + Z.of_nat i)) (seq 0 n)) | _ => bad end
  | OSplit n => match vals with [VS s] => VL (map (fun i => VS (s ++ "#" ++ dec (N.of_nat i))) (seq 0 n)) | _ => bad end
  | OElemInc k len => match vals with [VL l] => match nth k l bad with VN v => VN (v * 2 + len) | _ => bad end | _ => bad end
  | OElemCat k label => match vals with [VL l] => match nth k l bad with VS s => VS (s ++ "|" ++ label) | _ => bad end | _ => bad end
  | OJoin label => match strs vals with Some l => VS (join "," l ++ "|" ++ label) | None => bad end
  | OSum len => match ints vals with Some l => VN (zsum l + len) | None => bad end
  | OSucc => match vals with [VN v] => VN (v + 1) | _ => bad end
  end.

Definition jb (ins : list nat) (o : op) : job cval := mkjob ins (apply_op o).

Definition wf_b (d : dag cval) : bool :=
  forallb (fun ij => forallb (fun k => Nat.ltb k (fst ij)) (inputs (snd ij))) (combine (seq 0 (length d)) d).

(* run the history, also checking that every execution the engine completed was enabled in the model *)
Fixpoint run_checked (d : dag cval) (evs : list event) (s : store cval) : store cval * bool :=
  match evs with
  | [] => (s, true)
  | e :: r =>
      let ok := match e with Exec i => enabled d s i | Lose _ => true end in
      let '(s', ok') := run_checked d r (step d s e) in (s', ok && ok')
  end.

Definition pt (i : N) (t : list N) (a : bool) : ptok := mkptok i t a.

Inductive ccase :=
| CRun (d : dag cval) (evs : list event) (out : nat) (completed : bool) (observed : option cval)
(* the real _inject_tokens on one port: the mapper's tokens of that port (id, tag, availability) in mapper order, and the
   ids it put on the port in order (None = FailureHandlingException) *)
| CInject (l : list ptok) (r : option (list N)).

Definition check_case (c : ccase) : bool :=
  match c with
  | CRun d evs out completed observed =>
      let '(s, ok) := run_checked d evs empty in
      wf_b d && ok &&
      (if completed
       then opt_eqb cval_eqb (s out) observed && opt_eqb cval_eqb (failure_free d out) observed &&
            match observed with Some _ => true | None => false end
       else true)
  | CInject l r => opt_eqb (list_eqb N.eqb) (inject l) r
  end.
