(* Recovery/InjectProofs.v — lemmas about Recovery/InjectModel.v. *)
From Coq Require Import List Bool NArith ZArith Lia Sorting.Sorted Sorting.Permutation Relations.
From SF Require Import Base.Str Tags.Model Tags.Proofs Recovery.InjectModel.
Import ListNotations.
Local Open Scope list_scope.

Definition tle (a b : ptok) : Prop := (compare_tags (ptag a) (ptag b) <= 0)%Z.

Lemma tag_leb_spec a b : tag_leb a b = true <-> tle a b.
Proof. unfold tag_leb, tle. apply Z.leb_le. Qed.

Lemma tle_total a b : tag_leb a b = false -> tle b a.
Proof.
  unfold tag_leb, tle. intros H. apply Z.leb_gt in H. rewrite compare_antisym. lia.
Qed.

Lemma tle_trans a b c : tle a b -> tle b c -> tle a c.
Proof. unfold tle. intros H1 H2. exact (proj1 (compare_trans _ _ _ H1 H2)). Qed.

Lemma insert_perm x l : Permutation (x :: l) (insert_tok x l).
Proof.
  induction l as [|y r IH]; simpl; [reflexivity|].
  destruct (tag_leb x y); [reflexivity|].
  eapply perm_trans; [apply perm_swap|]. apply perm_skip. exact IH.
Qed.

Lemma sort_perm l : Permutation l (sort_toks l).
Proof.
  induction l as [|x r IH]; simpl; [reflexivity|].
  eapply perm_trans; [apply perm_skip; exact IH|]. apply insert_perm.
Qed.

Lemma insert_sorted x l : Sorted tle l -> Sorted tle (insert_tok x l).
Proof.
  induction l as [|y r IH]; intros Hs; simpl; [repeat constructor|].
  destruct (tag_leb x y) eqn:E.
  - constructor; [assumption|]. constructor. apply tag_leb_spec. assumption.
  - inversion Hs as [|? ? Hr Hhd]; subst. constructor; [apply IH; assumption|].
    destruct r as [|z r']; simpl.
    + constructor. apply tle_total. assumption.
    + destruct (tag_leb x z).
      * constructor. apply tle_total. assumption.
      * inversion Hhd; subst. constructor. assumption.
Qed.

Lemma sort_sorted l : Sorted tle (sort_toks l).
Proof. induction l as [|x r IH]; simpl; [constructor|]. apply insert_sorted. assumption. Qed.

Lemma sort_strongly_sorted l : StronglySorted tle (sort_toks l).
Proof. apply Sorted_StronglySorted; [intros a b c; apply tle_trans|apply sort_sorted]. Qed.

Lemma same_tag_spec a b : same_tag a b = true <-> a = b.
Proof.
  unfold same_tag. rewrite Z.eqb_eq. split; [apply compare_eq|intros ->; apply compare_refl].
Qed.

Lemma distinct_tags_spec l : distinct_tags l = true <-> NoDup l.
Proof.
  induction l as [|t r IH]; simpl; [split; [constructor|reflexivity]|].
  rewrite andb_true_iff, negb_true_iff, IH. split.
  - intros [Hn Hr]. constructor; [|assumption]. intros Hin.
    assert (existsb (same_tag t) r = true) as E; [|congruence].
    apply existsb_exists. exists t. split; [assumption|apply same_tag_spec; reflexivity].
  - intros H. inversion H as [|? ? Hnotin Hr]; subst. split; [|assumption].
    apply not_true_is_false. intros E. apply existsb_exists in E. destruct E as (y & Hy & Hty).
    apply same_tag_spec in Hty. subst. contradiction.
Qed.

Lemma nodup_app_r {A} (l l' : list A) : NoDup (l ++ l') -> NoDup l'.
Proof. induction l as [|x r IH]; simpl; [auto|]. intros H. inversion H; subst. auto. Qed.

(* what is put on the port: exactly the available tokens, each once, in the numeric depth-first order of their tags
   (compare_tags: 0.9 before 0.10), strictly increasing *)
Theorem inject_spec l ids :
  inject l = Some ids ->
  exists s, ids = map pid s /\ Permutation (filter pavail l) s /\ StronglySorted tle s /\ NoDup (map ptag s) /\
            (forall pre a mid b post, s = pre ++ a :: mid ++ b :: post -> (compare_tags (ptag a) (ptag b) < 0)%Z).
Proof.
  unfold inject. set (s := sort_toks (filter pavail l)).
  destruct (distinct_tags (map ptag s)) eqn:E; [|discriminate].
  intros H; inversion H; subst ids. exists s.
  pose proof (sort_strongly_sorted (filter pavail l)) as Hss. fold s in Hss.
  apply distinct_tags_spec in E.
  split; [reflexivity|]. split; [apply sort_perm|]. split; [assumption|]. split; [assumption|].
  intros pre a mid b post Hs.
  (* a <= b from strong sortedness, a <> b from NoDup *)
  assert (Hle : tle a b).
  { rewrite Hs in Hss. clear -Hss. induction pre as [|p pre IH]; simpl in Hss.
    - inversion Hss as [|? ? _ Hall]; subst. rewrite Forall_forall in Hall. apply Hall.
      apply in_or_app. right. left. reflexivity.
    - inversion Hss; subst. apply IH. assumption. }
  assert (Hne : ptag a <> ptag b).
  { rewrite Hs in E. rewrite map_app in E. apply nodup_app_r in E. simpl in E.
    inversion E as [|? ? Hnotin _]; subst. intros Heq. apply Hnotin. rewrite Heq.
    rewrite map_app. apply in_or_app. right. left. reflexivity. }
  unfold tle in Hle. destruct (Z.eq_dec (compare_tags (ptag a) (ptag b)) 0) as [E0|N0]; [|lia].
  exfalso. apply Hne. apply compare_eq. assumption.
Qed.

(* the exception is raised exactly when two available tokens of the port carry the same tag *)
Theorem inject_error_iff l : inject l = None <-> ~ NoDup (map ptag (filter pavail l)).
Proof.
  unfold inject. set (s := sort_toks (filter pavail l)).
  assert (Hp : Permutation (map ptag (filter pavail l)) (map ptag s)) by (apply Permutation_map, sort_perm).
  destruct (distinct_tags (map ptag s)) eqn:E.
  - split; [discriminate|]. intros Hn. exfalso. apply Hn. apply distinct_tags_spec in E.
    eapply Permutation_NoDup; [apply Permutation_sym; exact Hp|assumption].
  - split; [|reflexivity]. intros _ Hnd.
    assert (distinct_tags (map ptag s) = true); [|congruence].
    apply distinct_tags_spec. eapply Permutation_NoDup; eassumption.
Qed.
