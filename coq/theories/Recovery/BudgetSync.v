(* Recovery/BudgetSync.v — the counter semantics of Recovery/Budget.v ([granted] + the increments of [mstep]) is the one of
   Retry/Model.v's [synchronize] (the model of RollbackFailureManager._synchronize_workflows that C17's correspondence ties
   to the code) on duplicate-free request lists none of which is recovering.  The two differ only where it cannot be
   observed: [synchronize] increments as it goes and keeps the increments made before a refusal (the run is aborted
   then), and it skips recovering requests (concurrent recoveries: property C19), which Budget.v does not model. *)
From Coq Require Import List Bool Arith NArith Lia.
From SF Require Import Base.Str Retry.Model Retry.Proofs Recovery.Model Recovery.Budget.
Import ListNotations.
Local Open Scope list_scope.

Definition plain (ks : list string) : rollback := map (fun k => (k, false)) ks.

Lemma version_of_set_other vs k v k' : k' <> k -> version_of (set_version vs k v) k' = version_of vs k'.
Proof. intros H. unfold version_of. rewrite lookup_set_other by assumption. reflexivity. Qed.
Lemma version_of_set_same vs k v : version_of (set_version vs k v) k = v.
Proof. unfold version_of. rewrite lookup_set_same. reflexivity. Qed.

Lemma synchronize_plain L : forall ks vs, NoDup ks ->
  snd (synchronize (Some L) vs (plain ks)) = negb (forallb (fun k => N.ltb (version_of vs k) L) ks) /\
  (forallb (fun k => N.ltb (version_of vs k) L) ks = true ->
   forall k, version_of (fst (synchronize (Some L) vs (plain ks))) k =
             if existsb (String.eqb k) ks then (version_of vs k + 1)%N else version_of vs k).
Proof.
  induction ks as [|a r IH]; intros vs Hnd; simpl; [split; [reflexivity|intros _ k; reflexivity]|].
  inversion Hnd as [|x l Hnotin Hnd']; subst.
  unfold update_request, can_retry. destruct (N.ltb (version_of vs a) L) eqn:Ea; simpl.
  - set (vs1 := set_version vs a (version_of vs a + 1)%N).
    assert (Hsame : forall k, In k r -> version_of vs1 k = version_of vs k).
    { intros k Hk. unfold vs1. apply version_of_set_other. intros ->. contradiction. }
    assert (Hfb : forallb (fun k => N.ltb (version_of vs1 k) L) r = forallb (fun k => N.ltb (version_of vs k) L) r).
    { clear -Hsame. induction r as [|b r IHr]; simpl; [reflexivity|].
      rewrite (Hsame b (or_introl eq_refl)). f_equal. apply IHr. intros k Hk. apply Hsame. right. assumption. }
    destruct (IH vs1 Hnd') as [H1 H2]. rewrite Hfb in H1, H2. split; [assumption|].
    intros Hall k. rewrite (H2 Hall k).
    destruct (String.eqb_spec k a) as [->|Hne]; simpl.
    + assert (Hex : existsb (String.eqb a) r = false).
      { apply not_true_is_false. intros Hex. apply existsb_exists in Hex. destruct Hex as (x & Hx & Hxe).
        apply String.eqb_eq in Hxe. subst x. contradiction. }
      rewrite Hex. unfold vs1. apply version_of_set_same.
    + unfold vs1. rewrite version_of_set_other by assumption. reflexivity.
  - split; [reflexivity|discriminate].
Qed.

Section Link.
  Variable val : Type.
  Variable name : nat -> string.
  Hypothesis name_inj : forall a b, name a = name b -> a = b.

  (* the versions of the failure manager represent the counters of the budget model *)
  Definition represents (vs : versions) (m : mstate val) : Prop := forall j, version_of vs (name j) = mver val m j.

  Lemma mem_names j S : existsb (String.eqb (name j)) (map name S) = mem j S.
  Proof.
    unfold mem. induction S as [|a r IH]; simpl; [reflexivity|]. rewrite IH. f_equal.
    destruct (String.eqb_spec (name j) (name a)) as [E|N]; destruct (Nat.eqb_spec j a) as [E'|N']; try reflexivity.
    - exfalso. apply N'. apply name_inj. assumption.
    - exfalso. apply N. subst. reflexivity.
  Qed.

  (* a rollback of Budget.v is granted iff _synchronize_workflows (Retry/Model.v) does not raise on the same jobs, and then
     both leave the same versions *)
  Theorem budget_matches_retry_counter L vs m S :
    NoDup S -> represents vs m ->
    snd (synchronize (Some L) vs (plain (map name S))) = negb (granted val (Some L) m S) /\
    (granted val (Some L) m S = true ->
     forall m' d f, mstep val d (Some L) m f = Some m' -> rset f = S ->
     represents (fst (synchronize (Some L) vs (plain (map name S)))) m').
  Proof.
    intros Hnd Hrep.
    assert (Hnd' : NoDup (map name S)).
    { clear -Hnd name_inj. induction Hnd as [|a r Hnotin Hnd IH]; simpl; constructor; [|assumption].
      intros Hin. apply in_map_iff in Hin. destruct Hin as (x & Hx & Hxr). apply name_inj in Hx. subst. contradiction. }
    destruct (synchronize_plain L (map name S) vs Hnd') as [H1 H2].
    assert (Hfb : forallb (fun k => N.ltb (version_of vs k) L) (map name S) = granted val (Some L) m S).
    { simpl. clear -Hrep. induction S as [|a r IH]; simpl; [reflexivity|]. rewrite Hrep, IH. reflexivity. }
    rewrite Hfb in H1, H2. split; [assumption|].
    intros Hg m' d f Hstep HS j. unfold mstep in Hstep. rewrite HS, Hg in Hstep. inversion Hstep; subst m'; simpl.
    rewrite (H2 Hg (name j)), mem_names, !Hrep. reflexivity.
  Qed.
End Link.
