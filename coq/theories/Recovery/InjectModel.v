(* Recovery/InjectModel.v — the token list _inject_tokens puts on one port of a recovery workflow.  Definitions only.

   ANCHORS:
     streamflow.recovery.failure_manager._inject_tokens
        token_list = sorted([mapper.token_instances[id] for id in mapper.port_tokens[port] if mapper.token_availability[id]],
                            key=cmp_to_key(lambda x, y: compare_tags(x.tag, y.tag)))          (after fix 62ae2d6)
        if len({t.tag for t in token_list}) != len(token_list): raise FailureHandlingException
        for token in token_list: port.put(token)
     streamflow.core.utils.compare_tags   (through Tags/Model.v)

   Not modelled here: the boundary rules added to InterWorkflowPorts (Port/Model.v, RecSync/Delivery.v). *)
From Coq Require Import List Bool NArith ZArith.
From SF Require Import Base.Str Tags.Model.
Import ListNotations.
Local Open Scope list_scope.

Record ptok := mkptok { pid : N; ptag : tag; pavail : bool }.

Definition tag_leb (a b : ptok) : bool := (compare_tags (ptag a) (ptag b) <=? 0)%Z.

(* Python's sorted() is stable: an element goes before the first later element it does not exceed *)
Fixpoint insert_tok (x : ptok) (l : list ptok) : list ptok :=
  match l with
  | [] => [x]
  | y :: r => if tag_leb x y then x :: y :: r else y :: insert_tok x r
  end.
Definition sort_toks (l : list ptok) : list ptok := fold_right insert_tok [] l.

Definition same_tag (a b : tag) : bool := (compare_tags a b =? 0)%Z.
Fixpoint distinct_tags (l : list tag) : bool :=
  match l with
  | [] => true
  | t :: r => negb (existsb (same_tag t) r) && distinct_tags r
  end.

(* Some (ids in the order they are put) | None = FailureHandlingException "multiple tokens with same tag" *)
Definition inject (l : list ptok) : option (list N) :=
  let s := sort_toks (filter pavail l) in
  if distinct_tags (map ptag s) then Some (map pid s) else None.
