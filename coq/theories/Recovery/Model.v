(* Recovery/Model.v — rollback recovery over an unfolded job DAG (property C16).  Definitions only.

   ANCHORS (what the model abstracts):
     streamflow.core.recovery.recoverable                          (a failed attempt leaves the outputs unset)
     streamflow.recovery.failure_manager.RollbackFailureManager._recover
                                                                    (re-execute the failed job and the producers of
                                                                     its unavailable inputs, in dependency order)
     streamflow.workflow.token.FileToken.is_available / Token.is_available
                                                                    (a value is available or lost)
     streamflow.workflow.step.ExecuteStep._execute_command         (a job reads its inputs, writes its output)

   A workflow run is unfolded into jobs 0..n-1 in topological order (scatter elements and loop iterations
   are separate jobs); job i reads the outputs of the jobs [inputs i], all of smaller index, and computes a
   deterministic function of them.  The store says which outputs currently exist.  A history is ANY list of
   events: a successful execution attempt, or the loss of an output (fail-stop failures lose many at once;
   a soft failure is an attempt that leaves the store unchanged, i.e. no event).  Which jobs a rollback
   re-executes (the provenance-graph search, property C18) is not modelled: any choice is a history here;
   [ensure] is the canonical choice (producers of unavailable inputs, recursively). *)
From Coq Require Import List Bool Arith Lia.
Import ListNotations.

Section Recovery.
  Variable val : Type.

  Record job := mkjob { inputs : list nat; fn : list val -> val }.
  Definition dag := list job.

  Definition well_formed (d : dag) : Prop :=
    forall i j, nth_error d i = Some j -> forall k, In k (inputs j) -> k < i.

  Definition store := nat -> option val.
  Definition empty : store := fun _ => None.
  Definition upd (s : store) (i : nat) (v : option val) : store :=
    fun k => if Nat.eqb k i then v else s k.

  Fixpoint all_some (l : list (option val)) : option (list val) :=
    match l with
    | [] => Some []
    | None :: _ => None
    | Some v :: r => match all_some r with Some vs => Some (v :: vs) | None => None end
    end.

  Inductive event := Exec (i : nat) | Lose (i : nat).

  (* an execution attempt of job i succeeds iff all its inputs exist; otherwise nothing changes *)
  Definition step (d : dag) (s : store) (e : event) : store :=
    match e with
    | Lose i => upd s i None
    | Exec i =>
        match nth_error d i with
        | None => s
        | Some j =>
            match all_some (map s (inputs j)) with
            | Some vs => upd s i (Some (fn j vs))
            | None => s
            end
        end
    end.

  Definition run (d : dag) (evs : list event) (s : store) : store := fold_left (step d) evs s.

  (* was the attempt enabled? (used by the correspondence: the real engine completed the job) *)
  Definition enabled (d : dag) (s : store) (i : nat) : bool :=
    match nth_error d i with
    | None => false
    | Some j => match all_some (map s (inputs j)) with Some _ => true | None => false end
    end.

  (* the failure-free run: every job once, in order *)
  Definition ff_run (d : dag) (n : nat) : store := run d (map Exec (seq 0 n)) empty.
  Definition failure_free (d : dag) : store := ff_run d (length d).

  (* the canonical rollback: make job i's output exist by first (recursively) regenerating the unavailable
     inputs; fuel > i suffices because inputs have smaller indices *)
  Fixpoint ensure (d : dag) (fuel : nat) (s : store) (i : nat) : store :=
    match fuel with
    | 0 => s
    | S f =>
        match s i with
        | Some _ => s
        | None =>
            match nth_error d i with
            | None => s
            | Some j => step d (fold_left (ensure d f) (inputs j) s) (Exec i)
            end
        end
    end.
End Recovery.

Arguments mkjob {val}. Arguments inputs {val}. Arguments fn {val}.
Arguments well_formed {val}. Arguments empty {val}. Arguments upd {val}. Arguments all_some {val}.
Arguments step {val}. Arguments run {val}. Arguments enabled {val}. Arguments ff_run {val}.
Arguments failure_free {val}. Arguments ensure {val}.
