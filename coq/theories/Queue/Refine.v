(* Queue/Refine.v — every execution of the coroutine-level system (Queue/Coroutine.v) emits a trace accepted by
   the event-level model (Queue/Model.v); hence the theorems of Queue/Proofs.v hold of the coroutine system. *)
From Coq Require Import List Bool Arith Lia.
From SF Require Import Queue.Model Queue.Proofs Queue.Coroutine.
Import ListNotations.

Lemma accept_app : forall t1 t2 q q1, accept q t1 = Some q1 -> accept q (t1 ++ t2) = accept q1 t2.
Proof.
  induction t1 as [|e t1 IH]; simpl; intros t2 q q1 H. inversion H; auto.
  destruct (qstep q e); [|discriminate]. apply IH; auto.
Qed.
Lemma leqb_refl : forall l, leqb l l = true.
Proof. induction l; simpl; auto. rewrite Nat.eqb_refl. auto. Qed.

Definition pc_ok (q : qst) (j : nat) (p : pc) : Prop :=
  match p with
  | PInit => ~ In j (ever q)
  | PSubmitting => In j (ever q) /\ ~ In j (sched q) /\ ~ In j (cleared q) /\ ~ In j (finished q)
  | PWaitClear => In j (ever q)
  | PPollWait | PListing _ | PSleeping => In j (cleared q)
  | PDone => In j (finished q)
  | PFailed => True
  end.

(* the undeploy() call: once scancel has run, every job of the snapshot is out of the queue for good *)
Definition und_ok (u : upc) (sn : option (list nat)) (cqv ev : list nat) : Prop :=
  match u with
  | UInit => sn = None
  | UCancelling ids => sn = Some ids /\ forall x, In x ids -> In x ev
  | UCancelled | UDone => exists l, sn = Some l /\ forall x, In x l -> In x ev /\ ~ In x cqv
  end.
Lemma und_keep : forall u sn cqv ev cqv' ev',
  und_ok u sn cqv ev -> (forall x, In x cqv' -> In x cqv \/ ~ In x ev) -> (forall x, In x ev -> In x ev') ->
  und_ok u sn cqv' ev'.
Proof.
  intros u sn cqv ev cqv' ev' H Hq He. destruct u; simpl in *; auto.
  - destruct H as [A B]. split; auto.
  - destruct H as [l [A B]]. exists l. split; auto. intros x Hx. destruct (B x Hx) as [B1 B2]. split; auto.
    intro X. destruct (Hq x X); auto.
  - destruct H as [l [A B]]. exists l. split; auto. intros x Hx. destruct (B x Hx) as [B1 B2]. split; auto.
    intro X. destruct (Hq x X); auto.
Qed.

(* the refinement relation; [ex] is a job whose program counter is being changed by the current action *)
Record Rel (ex : option nat) (c : cst) (q : qst) : Prop := {
  rq : queue q = cq c; rs : sched q = csched c; rc : cache q = ccache c;
  rlk : match clock c with
        | Some j => exists a, cpc c j = PListing a /\ inflight q = Some a
        | None => inflight q = None
        end;
  rsub : forall x, In x (sched q) \/ In x (cleared q) \/ In x (finished q) -> In x (ever q);
  rlu : forall k a, Some k <> ex -> cpc c k = PListing a -> clock c = Some k;
  rpc : forall k, Some k <> ex -> pc_ok q k (cpc c k);
  rsn : snap q = csnap c;
  rund : und_ok (cund c) (csnap c) (cq c) (ever q)
}.

Lemma rel_q0 : Rel None c0 q0.
Proof. constructor; simpl; auto. intros x [H|[H|H]]; destruct H. intros; discriminate. Qed.

Lemma rel_weaken : forall c q j, Rel None c q -> Rel (Some j) c q.
Proof.
  intros c q j [a b d e sb f g sn un]. constructor; auto.
  - intros k a0 _. apply f. discriminate.
  - intros k _. apply g. discriminate.
Qed.

(* other jobs keep their facts when the event-level sets grow by j / shrink *)
Lemma pc_ok_other : forall q q' k p j, k <> j -> pc_ok q k p ->
  (forall x, In x (ever q) -> In x (ever q')) -> (forall x, x <> j -> In x (ever q') -> In x (ever q)) ->
  (forall x, x <> j -> In x (sched q') -> In x (sched q)) ->
  (forall x, In x (cleared q) -> In x (cleared q')) -> (forall x, x <> j -> In x (cleared q') -> In x (cleared q)) ->
  (forall x, x <> j -> In x (finished q') -> In x (finished q)) ->
  (forall x, In x (finished q) -> In x (finished q')) ->
  pc_ok q' k p.
Proof.
  intros q q' k p j Hne H He1 He2 Hs Hc1 Hc2 Hf Hf2. destruct p; simpl in *.
  - intro X. apply H. apply (He2 k); auto.
  - destruct H as [h1 [h2 [h3 h4]]]. split; [auto|split; [|split]].
    + intro X. apply h2. apply (Hs k); auto.
    + intro X. apply h3. apply (Hc2 k); auto.
    + intro X. apply h4. apply (Hf k); auto.
  - auto.
  - auto.
  - auto.
  - auto.
  - auto.
  - exact I.
Qed.

Lemma upd_same : forall f j p, upd f j p j = p.
Proof. intros. unfold upd. now rewrite Nat.eqb_refl. Qed.
Lemma upd_other : forall f j p k, k <> j -> upd f j p k = f k.
Proof. intros. unfold upd. destruct (k =? j) eqn:E; auto. apply Nat.eqb_eq in E. congruence. Qed.

Ltac keepund un := eapply und_keep; [exact un| |]; simpl; auto.

(* leaving the loop / going to sleep / KeyError, on a listing that is the cache content *)
Lemma decide_ok : forall c q j l,
  Rel (Some j) c q -> ccache c = Some l -> clock c = None -> In j (cleared q) ->
  exists q', accept q (snd (decide c j l)) = Some q' /\ Rel None (fst (decide c j l)) q'.
Proof.
  intros c q j l [a b d e sb f g sn un] Hc Hl Hcl. unfold decide. destruct (mem j l) eqn:Em; simpl.
  - exists q. split; auto. constructor; simpl; auto.
    + rewrite Hl in *. exact e.
    + intros k a0 _ Hk. destruct (Nat.eq_dec k j) as [->|Hne].
      * rewrite upd_same in Hk. discriminate.
      * rewrite upd_other in Hk; auto. apply (f k a0); auto. congruence.
    + intros k _. destruct (Nat.eq_dec k j) as [->|Hne].
      * rewrite upd_same. simpl. auto.
      * rewrite upd_other; auto. apply g. congruence.
  - destruct (mem j (csched c)) eqn:Es; simpl.
    + (* Unrecord *)
      unfold accept, qstep. rewrite d, Hc, b, Es. rewrite (proj2 (mem_In j (cleared q)) Hcl), Em. simpl.
      eexists. split; [reflexivity|]. constructor; simpl; auto.
      * rewrite Hl in *. exact e.
      * intros x [X|[X|[X|X]]]; [apply In_del in X; apply sb; rewrite b; tauto|apply sb; auto
                                 |subst; apply sb; left; rewrite b; apply mem_In; auto|apply sb; auto].
      * intros k a0 _ Hk. destruct (Nat.eq_dec k j) as [->|Hne].
        -- rewrite upd_same in Hk. discriminate.
        -- rewrite upd_other in Hk; auto. apply (f k a0); auto. congruence.
      * intros k _. destruct (Nat.eq_dec k j) as [->|Hne].
        -- rewrite upd_same. simpl. auto.
        -- rewrite upd_other; auto. assert (Hk : Some k <> Some j) by congruence.
           apply (pc_ok_other q _ k (cpc c k) j Hne (g k Hk)); simpl; auto.
           ++ intros x Hx X. apply In_del in X. rewrite b. tauto.
           ++ intros x Hx [X|X]; [congruence|auto].
    + (* PopMissing: KeyError *)
      unfold accept, qstep. rewrite b, Es. eexists. split; [reflexivity|]. constructor; simpl; auto.
      * rewrite Hl in *. exact e.
      * intros k a0 _ Hk. destruct (Nat.eq_dec k j) as [->|Hne].
        -- rewrite upd_same in Hk. discriminate.
        -- rewrite upd_other in Hk; auto. apply (f k a0); auto. congruence.
      * intros k _. destruct (Nat.eq_dec k j) as [->|Hne].
        -- rewrite upd_same. simpl. auto.
        -- rewrite upd_other; auto. apply g. congruence.
Qed.

Ltac others j Hpc := let k := fresh "k" in let Hne := fresh "Hne" in
  intros k _; destruct (Nat.eq_dec k j) as [->|Hne]; [rewrite upd_same; simpl|rewrite upd_other; auto].
Ltac lu j Hlu := let k := fresh "k" in let a0 := fresh "a0" in let Hk := fresh "Hk" in let Hne := fresh "Hne" in
  intros k a0 _ Hk; destruct (Nat.eq_dec k j) as [->|Hne];
  [rewrite upd_same in Hk; try discriminate|rewrite upd_other in Hk; auto; eapply Hlu; eauto].
Ltac lk j Rlk := destruct (clock _) as [k0|]; auto;
  let a0 := fresh "a0" in let A := fresh "A" in let B := fresh "B" in
  destruct Rlk as [a0 [A B]]; exists a0; split; auto;
  destruct (Nat.eq_dec k0 j) as [->|?]; [congruence|rewrite upd_other; auto].
Ltac samepc Hpc := let k := fresh "k" in let X := fresh "X" in
  solve [intros k _; pose proof (Hpc k) as X; destruct (cpc _ k); simpl in *; intuition auto].

Theorem refine_step : forall c q a c' evs,
  Rel None c q -> cstep c a = Some (c', evs) -> exists q', accept q evs = Some q' /\ Rel None c' q'.
Proof.
  intros c q a c' evs R H. pose proof R as [Rq Rs Rc Rlk Rsub Rlu Rpc Rsn Run].
  assert (Hpc : forall k, pc_ok q k (cpc c k)) by (intro k; apply Rpc; discriminate).
  assert (Hlu : forall k a0, cpc c k = PListing a0 -> clock c = Some k) by (intros k a0; apply Rlu; discriminate).
  destruct a as [j|j|j|j|j|j|j| | | |]; simpl in H.
  - (* ASubmit *)
    destruct (cpc c j) eqn:Ej; try discriminate. inversion H; subst; clear H.
    pose proof (Hpc j) as Hj. rewrite Ej in Hj. simpl in Hj.
    simpl. rewrite (proj2 (mem_false j (ever q)) Hj). eexists. split; [reflexivity|].
    constructor; simpl; auto.
    + rewrite Rq. reflexivity.
    + lk j Rlk.
    + intros x X. apply in_or_app. left. auto.
    + lu j Hlu.
    + others j Hpc.
      * repeat split; [apply in_or_app; right; left; auto| | |]; intro X; apply Hj; apply Rsub; auto.
      * apply (pc_ok_other q _ k (cpc c k) j Hne (Hpc k)); simpl; auto.
        -- intros x Hx. apply in_or_app. auto.
        -- intros x Hx X. apply in_app_or in X. destruct X as [X|[X|[]]]; auto. congruence.
    + keepund Run.
      * intros x X. apply in_app_or in X. destruct X as [X|[X|[]]]; auto. subst. auto.
      * intros x X. apply in_or_app. auto.
  - (* ASubmitRet: record *)
    destruct (cpc c j) eqn:Ej; try discriminate. inversion H; subst; clear H.
    pose proof (Hpc j) as Hj. rewrite Ej in Hj. simpl in Hj. destruct Hj as [h1 [h2 [h3 h4]]].
    simpl. rewrite (proj2 (mem_In j (ever q)) h1), (proj2 (mem_false j (sched q)) h2),
      (proj2 (mem_false j (cleared q)) h3), (proj2 (mem_false j (finished q)) h4). simpl.
    eexists. split; [reflexivity|]. constructor; simpl; auto.
    + rewrite Rs. reflexivity.
    + lk j Rlk.
    + intros x [X|X]; [apply in_app_or in X; destruct X as [X|[X|[]]]; [apply Rsub; auto|subst; auto]|apply Rsub; auto].
    + lu j Hlu.
    + others j Hpc.
      * exact h1.
      * apply (pc_ok_other q _ k (cpc c k) j Hne (Hpc k)); simpl; auto.
        intros x Hx X. apply in_app_or in X. destruct X as [X|[X|[]]]; auto. congruence.
  - (* AClear: the lock is free, so no squeue is in flight *)
    destruct (cpc c j) eqn:Ej; try discriminate. destruct (clock c) eqn:El; try discriminate.
    inversion H; subst; clear H. pose proof (Hpc j) as Hj. rewrite Ej in Hj. simpl in Hj.
    simpl. rewrite Rlk. simpl.
    eexists. split; [reflexivity|]. constructor; simpl; auto.
    + intros x [X|[[X|X]|X]]; [apply Rsub; auto|subst; auto|apply Rsub; auto|apply Rsub; auto].
    + intros k a0 _ Hk. destruct (Nat.eq_dec k j) as [->|Hne].
      * rewrite upd_same in Hk. discriminate.
      * rewrite upd_other in Hk; auto. pose proof (Hlu k a0 Hk) as X. rewrite ?El in X. discriminate.
    + others j Hpc.
      * auto.
      * apply (pc_ok_other q _ k (cpc c k) j Hne (Hpc k)); simpl; auto.
        intros x Hx [X|X]; [congruence|auto].
  - (* APoll *)
    destruct (cpc c j) eqn:Ej; try discriminate. destruct (clock c) eqn:El; try discriminate.
    pose proof (Hpc j) as Hj. rewrite Ej in Hj. simpl in Hj.
    destruct (ccache c) as [l|] eqn:Ec.
    + destruct (decide_ok c q j l (rel_weaken c q j R) Ec El Hj) as [q' [A B]].
      destruct (decide c j l) as [c2 evs2]. inversion H; subst; clear H. simpl in *. eauto.
    + inversion H; subst; clear H. simpl. rewrite Rlk, Rs, leqb_refl. simpl.
      eexists. split; [reflexivity|]. constructor; simpl; auto.
      * exists (csched c). rewrite upd_same. auto.
      * rewrite <- Rs. exact Rsub.
      * intros k a0 _ Hk. destruct (Nat.eq_dec k j) as [->|Hne]; auto.
        rewrite upd_other in Hk; auto. pose proof (Hlu k a0 Hk) as X. discriminate.
      * rewrite <- Rs. others j Hpc; [exact Hj|].
        pose proof (Hpc k) as X. destruct (cpc c k); simpl in *; auto.
  - (* AListRet: squeue answered; cache filled; lock released; decide *)
    destruct (cpc c j) eqn:Ej; try discriminate.
    pose proof (Hpc j) as Hj. rewrite Ej in Hj. simpl in Hj.
    pose proof (Hlu j a Ej) as Hl. rewrite Hl in Rlk. destruct Rlk as [a0 [A B]]. rewrite Ej in A. inversion A; subst a0.
    set (r := filter (fun k => mem k (cq c)) a) in *.
    set (c1 := mkC (cq c) (csched c) (Some r) None (cpc c) (csnap c) (cund c)) in *.
    set (q1 := mkQ (cq c) (ever q) (sched q) (cleared q) (Some r) None (snap q) (finished q)).
    assert (R1 : Rel (Some j) c1 q1).
    { constructor; simpl; auto.
      - intros k a1 Hk Hk'. exfalso. rewrite (Hlu k a1 Hk') in Hl. inversion Hl. congruence.
      - intros k Hk. pose proof (Hpc k) as X. destruct (cpc c k); simpl in *; auto. }
    destruct (decide_ok c1 q1 j r R1 eq_refl eq_refl Hj) as [q' [A' B']].
    destruct (decide c1 j r) as [c2 evs2] eqn:Ed. inversion H; subst; clear H.
    exists q'. split; auto. simpl. rewrite B, Rq. rewrite !leqb_refl. simpl. exact A'.
  - (* AWake *)
    destruct (cpc c j) eqn:Ej; try discriminate. inversion H; subst; clear H.
    pose proof (Hpc j) as Hj. rewrite Ej in Hj. simpl in Hj.
    exists q. split; auto. constructor; simpl; auto.
    + lk j Rlk.
    + lu j Hlu.
    + others j Hpc; try exact Hj; try apply Hpc.
  - (* ALeave *)
    destruct (mem j (cq c)) eqn:Em; try discriminate. inversion H; subst; clear H.
    simpl. rewrite Rq, Em. eexists. split; [reflexivity|]. constructor; simpl; auto; try samepc Hpc.
    keepund Run. intros x0 X0. apply In_del in X0. tauto.
  - (* AExpire *)
    inversion H; subst; clear H. simpl. eexists. split; [reflexivity|]. constructor; simpl; auto; try samepc Hpc.
  - (* AUndStart *)
    destruct (cund c) eqn:Eu; try discriminate. simpl in Run.
    destruct (csched c) as [|i0 ids0] eqn:Esc.
    + inversion H; subst; clear H. simpl. eexists. split; [reflexivity|]. constructor; simpl; auto; try samepc Hpc.
      * intros x0 [X0|X0]; [destruct X0|apply Rsub; auto].
      * rewrite Rs. reflexivity.
      * exists []. split; auto. intros x0 [].
    + inversion H; subst; clear H. simpl. eexists. split; [reflexivity|]. constructor; simpl; auto; try samepc Hpc.
      * rewrite Rs. reflexivity.
      * split; auto. intros x X. apply Rsub. left. rewrite Rs. exact X.
  - (* ACancel: scancel of exactly the snapshot *)
    destruct (cund c) eqn:Eu; try discriminate. inversion H; subst; clear H. simpl in Run. destruct Run as [U1 U2].
    simpl. rewrite Rsn, U1, leqb_refl. eexists. split; [reflexivity|]. constructor; simpl; auto; try samepc Hpc.
    + rewrite Rq. reflexivity.
    + exists ids. split; auto. intros x Hx. split; auto. intro X. apply filter_In in X. destruct X as [_ X].
      rewrite (proj2 (mem_In x ids) Hx) in X. discriminate.
  - (* AUndEnd: `self._scheduled_jobs = {}` *)
    destruct (cund c) eqn:Eu; try discriminate. inversion H; subst; clear H. simpl in Run.
    destruct Run as [l [U1 U2]]. simpl. rewrite Rsn, U1. eexists. split; [reflexivity|].
    constructor; simpl; auto; try samepc Hpc.
    + intros x [X|X]; [destruct X|apply Rsub; auto].
    + exists l. auto.
Qed.

(* ---------------------------------------------------------------- executions *)
Theorem refines : forall acts c q, Rel None c q ->
  exists q', accept q (snd (cexec c acts)) = Some q' /\ Rel None (fst (cexec c acts)) q'.
Proof.
  induction acts as [|a r IH]; intros c q R; simpl.
  - exists q. auto.
  - destruct (cstep c a) as [[c' evs]|] eqn:E.
    + destruct (refine_step c q a c' evs R E) as [q1 [A1 R1]].
      destruct (IH c' q1 R1) as [q2 [A2 R2]].
      destruct (cexec c' r) as [c'' tr]. simpl in *. exists q2. split; auto.
      rewrite (accept_app evs tr q q1 A1). exact A2.
    + apply IH; auto.
Qed.

(* every execution of the coroutine system, from the initial state: its trace is accepted, and a job whose
   run() has left the polling loop is not in the queue *)
Corollary coroutine_trace_accepted : forall acts, exists q, accept q0 (snd (cexec c0 acts)) = Some q.
Proof. intros acts. destruct (refines acts c0 q0 rel_q0) as [q [A _]]. eauto. Qed.

Corollary coroutine_after_queue : forall acts j,
  cpc (fst (cexec c0 acts)) j = PDone -> ~ In j (cq (fst (cexec c0 acts))).
Proof.
  intros acts j H. destruct (refines acts c0 q0 rel_q0) as [q [A R]].
  pose proof (rpc _ _ _ R j) as P. rewrite H in P. simpl in P.
  rewrite <- (rq _ _ _ R). eapply after_queue; eauto. apply P. discriminate.
Qed.

(* once undeploy() has returned, every job that was recorded when it started is out of the queue (whatever the
   jobs, leaves, expiries and polls that interleaved with its three stretches) *)
Corollary coroutine_undeploy_cancels : forall acts,
  cund (fst (cexec c0 acts)) = UDone ->
  exists l, csnap (fst (cexec c0 acts)) = Some l /\ forall x, In x l -> ~ In x (cq (fst (cexec c0 acts))).
Proof.
  intros acts H. destruct (refines acts c0 q0 rel_q0) as [q [A R]].
  pose proof (rund _ _ _ R) as U. rewrite H in U. simpl in U. destruct U as [l [U1 U2]].
  exists l. split; auto. intros x Hx. apply (U2 x Hx).
Qed.
