(* Queue/Corr.v — correspondence cases for Queue/Model.v (C27): the event trace the real SlurmConnector
   produced under the controlled event loop must be accepted by the model, rule by rule. *)
From Coq Require Import List Bool Arith.
From SF Require Import Base.Corr.
From SF Require Export Queue.Model.
Import ListNotations.

Inductive ccase := CTrace (tr : list event).

Definition check_case (c : ccase) : bool :=
  match c with CTrace tr => match accept q0 tr with Some _ => true | None => false end end.
