(* Queue/Coroutine.v — a coroutine-level transition system of QueueManagerConnector.run and its refinement to the
   event-level rules of Queue/Model.v.

   ANCHORS:
     streamflow.deployment.connector.queue_manager.QueueManagerConnector.run
     streamflow.deployment.connector.queue_manager.SlurmConnector._get_running_jobs

   Tasks are jobs (a job is identified with the queue id sbatch gives it; ids are distinct).  Shared state: the
   external queue, _scheduled_jobs, the one-slot cache, _jobs_cache_lock (its holder).  A job's program counter
   ranges over the await points of run():
     PInit         before `await self._run_batch_command(..)`
     PSubmitting   inside it (sbatch has been executed, the reply has not been consumed)
     PWaitClear    recorded in _scheduled_jobs, at `async with self._jobs_cache_lock:` (the cache-clearing one)
     PPollWait     at the `async with self._jobs_cache_lock:` of the polling loop
     PListing a    inside `await self._get_running_jobs(..)` on a cache miss: squeue -j a is in flight, lock held
     PSleeping     inside `await asyncio.sleep(pollingInterval)`
     PDone         left the loop (popped from _scheduled_jobs)
     PFailed       the pop raised KeyError: undeploy() had replaced _scheduled_jobs
   undeploy() (one call) is a fourth kind of task: snapshot of _scheduled_jobs, scancel of the snapshot, then
   `self._scheduled_jobs = {}`; its three stretches interleave freely with the jobs.
   An action is one atomic stretch of one task between two suspensions (or an external event: a job leaves the
   queue, the TTL expires).  The lock is abstracted to "free or held": a task may always choose to wait, and may
   take the lock whenever it is free; asyncio.Lock's FIFO hand-over only removes behaviours.  The stretches
   "record; clear" and "clear; first poll" are split at the lock acquisitions (where the real code may or may
   not suspend): the split adds behaviours.  The stretches that the event rules rely on are kept atomic:
   consulting the cache (or receiving the squeue answer), releasing the lock and deciding/popping.
   [refines]: every execution of this system emits an event trace that the event-level model accepts; in
   particular the guard of ClearBy (no squeue in flight) and of ListStart/Listing FOLLOW from the lock instead
   of being observed on traces. *)
From Coq Require Import List Bool Arith Lia.
From SF Require Import Queue.Model Queue.Proofs.
Import ListNotations.

Inductive pc := PInit | PSubmitting | PWaitClear | PPollWait | PListing (a : list nat) | PSleeping | PDone
              | PFailed.   (* `_scheduled_jobs.pop(job_id)` raised KeyError (after undeploy replaced the dictionary) *)
(* program counter of the (single) undeploy() call: before it / scancel of the snapshot created and in flight /
   scancel answered, gather about to return / `_scheduled_jobs = {}` done *)
Inductive upc := UInit | UCancelling (ids : list nat) | UCancelled | UDone.

Record cst := mkC { cq : list nat; csched : list nat; ccache : option (list nat); clock : option nat;
                    cpc : nat -> pc; csnap : option (list nat); cund : upc }.

Inductive act :=
| ASubmit (j : nat) | ASubmitRet (j : nat) | AClear (j : nat) | APoll (j : nat) | AListRet (j : nat)
| AWake (j : nat) | ALeave (j : nat) | AExpire
| AUndStart | ACancel | AUndEnd.       (* undeploy(): snapshot / scancel executes / gather returns, dictionary replaced *)

Definition upd (f : nat -> pc) (j : nat) (p : pc) : nat -> pc := fun k => if k =? j then p else f k.

(* leave the loop or go to sleep, according to a listing l *)
Definition decide (c : cst) (j : nat) (l : list nat) : cst * list event :=
  if mem j l then (mkC (cq c) (csched c) (ccache c) (clock c) (upd (cpc c) j PSleeping) (csnap c) (cund c), [])
  else if mem j (csched c)
  then (mkC (cq c) (del j (csched c)) (ccache c) (clock c) (upd (cpc c) j PDone) (csnap c) (cund c), [Unrecord j])
  else (mkC (cq c) (csched c) (ccache c) (clock c) (upd (cpc c) j PFailed) (csnap c) (cund c), [PopMissing j]).

Definition cstep (c : cst) (a : act) : option (cst * list event) :=
  match a with
  | ASubmit j =>
      match cpc c j with
      | PInit => Some (mkC (cq c ++ [j]) (csched c) (ccache c) (clock c) (upd (cpc c) j PSubmitting) (csnap c) (cund c), [Submit j])
      | _ => None
      end
  | ASubmitRet j =>
      match cpc c j with
      | PSubmitting => Some (mkC (cq c) (csched c ++ [j]) (ccache c) (clock c) (upd (cpc c) j PWaitClear) (csnap c) (cund c), [Record j])
      | _ => None
      end
  | AClear j =>
      match cpc c j, clock c with
      | PWaitClear, None => Some (mkC (cq c) (csched c) None None (upd (cpc c) j PPollWait) (csnap c) (cund c), [ClearBy j])
      | _, _ => None
      end
  | APoll j =>
      match cpc c j, clock c with
      | PPollWait, None =>
          match ccache c with
          | Some l => Some (decide c j l)                       (* cache hit: lock taken and released at once *)
          | None => Some (mkC (cq c) (csched c) None (Some j) (upd (cpc c) j (PListing (csched c))) (csnap c) (cund c),
                          [ListStart (csched c)])
          end
      | _, _ => None
      end
  | AListRet j =>
      match cpc c j with
      | PListing a =>
          let r := filter (fun k => mem k (cq c)) a in
          let c1 := mkC (cq c) (csched c) (Some r) None (cpc c) (csnap c) (cund c) in
          let (c2, evs) := decide c1 j r in Some (c2, Listing a r :: evs)
      | _ => None
      end
  | AWake j =>
      match cpc c j with
      | PSleeping => Some (mkC (cq c) (csched c) (ccache c) (clock c) (upd (cpc c) j PPollWait) (csnap c) (cund c), [])
      | _ => None
      end
  | ALeave j =>
      if mem j (cq c) then Some (mkC (del j (cq c)) (csched c) (ccache c) (clock c) (cpc c) (csnap c) (cund c), [Leave j])
      else None
  | AExpire => Some (mkC (cq c) (csched c) None (clock c) (cpc c) (csnap c) (cund c), [Expire])
  | AUndStart =>
      match cund c with
      | UInit =>
          match csched c with
          | [] => (* nothing to cancel: gather() of nothing does not suspend, the dictionary is replaced at once *)
                  Some (mkC (cq c) [] (ccache c) (clock c) (cpc c) (Some []) UDone, [UndeployStart; UndeployEnd])
          | ids => Some (mkC (cq c) (csched c) (ccache c) (clock c) (cpc c) (Some ids) (UCancelling ids), [UndeployStart])
          end
      | _ => None
      end
  | ACancel =>
      match cund c with
      | UCancelling ids =>
          Some (mkC (filter (fun x => negb (mem x ids)) (cq c)) (csched c) (ccache c) (clock c) (cpc c) (csnap c) UCancelled,
                [Cancel ids])
      | _ => None
      end
  | AUndEnd =>
      match cund c with
      | UCancelled => Some (mkC (cq c) [] (ccache c) (clock c) (cpc c) (csnap c) UDone, [UndeployEnd])
      | _ => None
      end
  end.

(* an execution: actions that are not enabled are skipped *)
Fixpoint cexec (c : cst) (acts : list act) : cst * list event :=
  match acts with
  | [] => (c, [])
  | a :: r => match cstep c a with
              | Some (c', evs) => let (c'', tr) := cexec c' r in (c'', evs ++ tr)
              | None => cexec c r
              end
  end.

Definition c0 : cst := mkC [] [] None None (fun _ => PInit) None UInit.
