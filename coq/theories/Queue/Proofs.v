(* Queue/Proofs.v — invariants of Queue/Model.v over every accepted event trace (any interleaving of
   submissions, polls, cache clears, TTL expiries, departures and an undeploy). *)
From Coq Require Import List Bool Arith Lia.
From SF Require Import Queue.Model.
Import ListNotations.

Lemma mem_In : forall n l, mem n l = true <-> In n l.
Proof.
  unfold mem; intros n l; split; intro H.
  - apply existsb_exists in H. destruct H as [x [Hx E]]. apply Nat.eqb_eq in E. now subst.
  - apply existsb_exists. exists n. split; auto. apply Nat.eqb_refl.
Qed.
Lemma mem_false : forall n l, mem n l = false <-> ~ In n l.
Proof.
  intros n l; split; intro H.
  - intro HI. apply mem_In in HI. congruence.
  - destruct (mem n l) eqn:E; auto. apply mem_In in E. contradiction.
Qed.
Lemma In_del : forall x n l, In x (del n l) <-> In x l /\ x <> n.
Proof.
  intros x n l. unfold del. rewrite filter_In. rewrite negb_true_iff, Nat.eqb_neq. tauto.
Qed.
Lemma leqb_eq : forall a b, leqb a b = true -> a = b.
Proof.
  induction a as [|x a IH]; destruct b as [|y b]; simpl; intros H; try discriminate; auto.
  apply andb_prop in H. destruct H as [H1 H2]. apply Nat.eqb_eq in H1. subst. f_equal. auto.
Qed.

(* a listing [l] is complete: it contains every job that cleared the cache after recording itself, is still
   recorded, and is still queued *)
Definition complete (s : qst) (l : list nat) :=
  forall j, In j (cleared s) -> In j (sched s) -> In j (queue s) -> In j l.

Record Inv (s : qst) : Prop := {
  inv_cache : forall l, cache s = Some l -> complete s l;
  inv_flight : forall a, inflight s = Some a -> complete s a;
  inv_sched : forall j, In j (sched s) -> In j (ever s);
  inv_fin : forall j, In j (finished s) -> In j (ever s) /\ ~ In j (queue s)
}.

Lemma inv_q0 : Inv q0.
Proof. constructor; simpl; intros; try discriminate; try contradiction. Qed.

Ltac conds H :=
  repeat match type of H with
         | (if ?c then _ else _) = _ => let E := fresh "E" in destruct c eqn:E; [|discriminate]
         | (if ?c then _ else _) = _ => let E := fresh "E" in destruct c eqn:E; [discriminate|]
         end.

Lemma inv_step : forall s e s', Inv s -> qstep s e = Some s' -> Inv s'.
Proof.
  intros s e s' [Hc Hf Hs Hd] H. destruct e; simpl in H.
  - (* Submit *)
    destruct (mem j (ever s)) eqn:E; [discriminate|]. inversion H; subst; clear H. apply mem_false in E.
    constructor; simpl; unfold complete; simpl; intros.
    + apply (Hc l H j0); auto. apply in_app_or in H2. destruct H2 as [|[|[]]]; auto. subst. apply Hs in H1. contradiction.
    + apply (Hf a H j0); auto. apply in_app_or in H2. destruct H2 as [|[|[]]]; auto. subst. apply Hs in H1. contradiction.
    + apply in_or_app. left. auto.
    + destruct (Hd j0 H) as [A B]. split. apply in_or_app; auto.
      intro X. apply in_app_or in X. destruct X as [|[|[]]]; auto. subst. contradiction.
  - (* Record *)
    destruct (mem j (ever s) && negb (mem j (sched s)) && negb (mem j (cleared s)) && negb (mem j (finished s))) eqn:E;
      [|discriminate].
    inversion H; subst; clear H.
    apply andb_prop in E. destruct E as [E E4]. apply andb_prop in E. destruct E as [E E3].
    apply andb_prop in E. destruct E as [E1 E2].
    apply mem_In in E1. apply negb_true_iff in E3. apply mem_false in E3.
    constructor; simpl; unfold complete; simpl; intros.
    + apply (Hc l H j0); auto. apply in_app_or in H1. destruct H1 as [|[|[]]]; auto. subst. contradiction.
    + apply (Hf a H j0); auto. apply in_app_or in H1. destruct H1 as [|[|[]]]; auto. subst. contradiction.
    + apply in_app_or in H. destruct H as [|[|[]]]; auto. subst. auto.
    + auto.
  - (* ClearBy *)
    destruct (isnone (inflight s)) eqn:E; [|discriminate].
    inversion H; subst; clear H.
    constructor; simpl; unfold complete; simpl; intros; try discriminate; auto.
  - (* Expire *)
    inversion H; subst; clear H.
    constructor; simpl; unfold complete; simpl; intros; try discriminate; auto.
    apply (Hf a H j); auto.
  - (* ListStart *)
    destruct (isnone (inflight s) && leqb asked (sched s)) eqn:E; [|discriminate].
    inversion H; subst; clear H. apply andb_prop in E. destruct E as [_ E]. apply leqb_eq in E. subst.
    constructor; simpl; unfold complete; simpl; intros; auto.
    + apply (Hc l H j); auto.
    + inversion H; subst. auto.
  - (* Listing *)
    destruct (inflight s) as [a'|] eqn:EF; [|discriminate].
    destruct (leqb asked a' && leqb res (filter (fun j => mem j (queue s)) asked)) eqn:E; [|discriminate].
    inversion H; subst; clear H. apply andb_prop in E. destruct E as [E1 E2].
    apply leqb_eq in E1. apply leqb_eq in E2. subst.
    constructor; simpl; unfold complete; simpl; intros; try discriminate; auto.
    inversion H; subst. apply filter_In. split. apply (Hf a' eq_refl j); auto. apply mem_In; auto.
  - (* Leave *)
    destruct (mem j (queue s)) eqn:E; [|discriminate]. inversion H; subst; clear H.
    constructor; simpl; unfold complete; simpl; intros; auto.
    + apply In_del in H2. apply (Hc l H j0); tauto.
    + apply In_del in H2. apply (Hf a H j0); tauto.
    + destruct (Hd j0 H) as [A B]. split; auto. intro X. apply In_del in X. tauto.
  - (* Unrecord *)
    destruct (cache s) as [l|] eqn:EC; [|discriminate].
    destruct (mem j (sched s) && mem j (cleared s) && negb (mem j l)) eqn:E; [|discriminate].
    inversion H; subst; clear H. apply andb_prop in E. destruct E as [E E3].
    apply andb_prop in E. destruct E as [E1 E2]. apply mem_In in E1. apply mem_In in E2.
    apply negb_true_iff in E3. apply mem_false in E3.
    constructor; simpl; unfold complete; simpl; intros; auto.
    + inversion H; subst. apply In_del in H1. apply (Hc l0 eq_refl j0); tauto.
    + apply In_del in H1. apply (Hf a H j0); tauto.
    + apply In_del in H. apply Hs. tauto.
    + destruct H as [|H]; [subst j0|auto]. split. auto.
      intro X. apply E3. apply (Hc l eq_refl j); auto.
  - (* UndeployStart *)
    inversion H; subst; clear H. constructor; simpl; unfold complete; simpl; intros; auto.
    apply (Hc l H j); auto. apply (Hf a H j); auto.
  - (* Cancel *)
    destruct (snap s) as [l|] eqn:ES; [|discriminate].
    destruct (leqb ids l) eqn:E; [|discriminate]. inversion H; subst; clear H.
    constructor; simpl; unfold complete; simpl; intros; auto.
    + apply filter_In in H2. apply (Hc l0 H j); tauto.
    + apply filter_In in H2. apply (Hf a H j); tauto.
    + destruct (Hd j H) as [A B]. split; auto. intro X. apply filter_In in X. tauto.
  - (* UndeployEnd *)
    destruct (snap s); [|discriminate]. inversion H; subst; clear H.
    constructor; simpl; unfold complete; simpl; intros; try contradiction; auto.
  - (* PopMissing *)
    destruct (mem j (sched s)); [discriminate|]. inversion H; subst. constructor; auto.
Qed.

Lemma inv_accept : forall tr s s', Inv s -> accept s tr = Some s' -> Inv s'.
Proof.
  induction tr as [|e tr IH]; simpl; intros s s' HI H.
  - inversion H; subst; auto.
  - destruct (qstep s e) as [s1|] eqn:E; [|discriminate]. eapply IH; [|exact H]. eapply inv_step; eauto.
Qed.

(* a job whose run() left the polling loop is not in the queue, after any accepted trace *)
Theorem after_queue : forall tr s j,
  accept q0 tr = Some s -> In j (finished s) -> ~ In j (queue s).
Proof.
  intros tr s j H Hj. destruct (inv_accept tr q0 s inv_q0 H) as [_ _ _ Hd]. apply (Hd j Hj).
Qed.

(* ... and at the very moment it leaves the loop *)
Theorem after_queue_step : forall tr s j s',
  accept q0 tr = Some s -> qstep s (Unrecord j) = Some s' -> ~ In j (queue s).
Proof.
  intros tr s j s' H Hq. pose proof (inv_accept tr q0 s inv_q0 H) as HI.
  pose proof (inv_step s (Unrecord j) s' HI Hq) as [_ _ _ Hd].
  assert (In j (finished s')).
  { simpl in Hq. destruct (cache s); [|discriminate].
    destruct (mem j (sched s) && mem j (cleared s) && negb (mem j l)); [|discriminate].
    inversion Hq; subst. simpl. auto. }
  destruct (Hd j H0) as [_ B]. simpl in Hq. destruct (cache s); [|discriminate].
  destruct (mem j (sched s) && mem j (cleared s) && negb (mem j l)); [|discriminate].
  inversion Hq; subst. simpl in B. exact B.
Qed.

(* every listing that is cached or in flight contains every cleared, recorded, still-queued job *)
Theorem listings_complete : forall tr s l,
  accept q0 tr = Some s -> (cache s = Some l \/ inflight s = Some l) -> complete s l.
Proof.
  intros tr s l H [A|A]; destruct (inv_accept tr q0 s inv_q0 H) as [Hc Hf _ _]; auto.
Qed.

(* undeploy cancels exactly the jobs recorded when it started *)
Theorem undeploy_exact : forall tr s ids s' l,
  accept q0 tr = Some s -> qstep s (Cancel ids) = Some s' -> snap s = Some l -> ids = l.
Proof.
  intros tr s ids s' l _ Hq Hs. simpl in Hq. rewrite Hs in Hq.
  destruct (leqb ids l) eqn:E; [|discriminate]. apply leqb_eq; auto.
Qed.

(* without the cache clear the property fails: a rule-breaking trace (job 2 leaves the loop on a listing that
   was computed before it was recorded) is rejected by the model, i.e. the ClearBy rule is what is needed *)
Example stale_listing_rejected :
  accept q0 [Submit 1; Record 1; ClearBy 1; ListStart [1]; Listing [1] [1]; Leave 1;
             Submit 2; Record 2; Unrecord 2] = None.
Proof. vm_compute. reflexivity. Qed.

Example accepted_example :
  exists s, accept q0 [Submit 1; Record 1; ClearBy 1; ListStart [1]; Submit 2; Record 2; Listing [1] [1];
                       ClearBy 2; Expire; ListStart [1; 2]; Leave 1; Listing [1; 2] [2]; Unrecord 1;
                       UndeployStart; Cancel [2]; ListStart [2]; Listing [2] []; Unrecord 2; UndeployEnd] = Some s
            /\ finished s = [2; 1] /\ queue s = [].
Proof. eexists. vm_compute. repeat split; reflexivity. Qed.
