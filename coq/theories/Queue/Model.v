(* Queue/Model.v — event-level transition system of the batch-job polling protocol.

   ANCHORS:
     streamflow.deployment.connector.queue_manager.QueueManagerConnector.run
     streamflow.deployment.connector.queue_manager.QueueManagerConnector.undeploy
     streamflow.deployment.connector.queue_manager.SlurmConnector._get_running_jobs
     streamflow.deployment.connector.queue_manager.SlurmConnector._remove_jobs
     streamflow.deployment.connector.queue_manager._const_key_maker

   State: the external queue, the ids ever submitted, _scheduled_jobs (insertion order), the jobs whose run()
   has cleared the cache after recording itself, the one-slot cache (constant key), the squeue call in flight
   (its `-j` argument was built from _scheduled_jobs when the call started; _jobs_cache_lock is held while it
   runs), the snapshot undeploy took, and the jobs whose run() left the polling loop.
   [qstep] is the acceptance rule of each event = what the code does at that point:
     Record j      self._scheduled_jobs[job_id] = location          (after sbatch returned the fresh id j)
     ClearBy j     async with lock: cache.clear()                   (lock free => no squeue in flight)
     ListStart a   lock taken, cache miss, command built: a = list(_scheduled_jobs)
     Listing a r   squeue answered: r = the asked ids still queued (assumption on squeue); cached
     Unrecord j    j's loop saw a listing (= the cache content) without j; _scheduled_jobs.pop(j)
     Expire        TTL expiry, any time;   Leave j   the job leaves the queue, any time
     UndeployStart / Cancel ids / UndeployEnd   undeploy(): scancel of exactly the snapshot of _scheduled_jobs;
                   at the end _scheduled_jobs is replaced by an empty dictionary
     PopMissing j  a run() that was still polling pops its id from that new dictionary: KeyError *)
From Coq Require Import List Bool Arith.
Import ListNotations.

Inductive event :=
| Submit (j : nat) | Record (j : nat) | ClearBy (j : nat) | Expire
| ListStart (asked : list nat) | Listing (asked res : list nat)
| Leave (j : nat) | Unrecord (j : nat)
| UndeployStart | Cancel (ids : list nat) | UndeployEnd
| PopMissing (j : nat).   (* _scheduled_jobs.pop(j) on a dictionary that no longer has j: KeyError in run() *)

Record qst := mkQ { queue : list nat; ever : list nat; sched : list nat; cleared : list nat;
                    cache : option (list nat); inflight : option (list nat); snap : option (list nat);
                    finished : list nat }.

Definition mem (n : nat) (l : list nat) : bool := existsb (Nat.eqb n) l.
Definition del (n : nat) (l : list nat) : list nat := filter (fun x => negb (x =? n)) l.
Fixpoint leqb (a b : list nat) : bool :=
  match a, b with [] , [] => true | x :: a', y :: b' => (x =? y) && leqb a' b' | _, _ => false end.
Definition isnone {A} (o : option A) := match o with None => true | Some _ => false end.

Definition q0 : qst := mkQ [] [] [] [] None None None [].

Definition qstep (s : qst) (e : event) : option qst :=
  match e with
  | Submit j =>
      if mem j (ever s) then None
      else Some (mkQ (queue s ++ [j]) (ever s ++ [j]) (sched s) (cleared s) (cache s) (inflight s) (snap s) (finished s))
  | Record j =>
      if mem j (ever s) && negb (mem j (sched s)) && negb (mem j (cleared s)) && negb (mem j (finished s))
      then Some (mkQ (queue s) (ever s) (sched s ++ [j]) (cleared s) (cache s) (inflight s) (snap s) (finished s))
      else None
  | ClearBy j =>
      if isnone (inflight s)      (* (j may no longer be in _scheduled_jobs: undeploy() may have replaced it) *)
      then Some (mkQ (queue s) (ever s) (sched s) (j :: cleared s) None None (snap s) (finished s))
      else None
  | Expire => Some (mkQ (queue s) (ever s) (sched s) (cleared s) None (inflight s) (snap s) (finished s))
  | ListStart a =>
      if isnone (inflight s) && leqb a (sched s)
      then Some (mkQ (queue s) (ever s) (sched s) (cleared s) (cache s) (Some a) (snap s) (finished s))
      else None
  | Listing a r =>
      match inflight s with
      | Some a' =>
        if leqb a a' && leqb r (filter (fun j => mem j (queue s)) a)
        then Some (mkQ (queue s) (ever s) (sched s) (cleared s) (Some r) None (snap s) (finished s))
        else None
      | None => None
      end
  | Leave j =>
      if mem j (queue s)
      then Some (mkQ (del j (queue s)) (ever s) (sched s) (cleared s) (cache s) (inflight s) (snap s) (finished s))
      else None
  | Unrecord j =>
      match cache s with
      | Some l =>
        if mem j (sched s) && mem j (cleared s) && negb (mem j l)
        then Some (mkQ (queue s) (ever s) (del j (sched s)) (cleared s) (cache s) (inflight s) (snap s)
                       (j :: finished s))
        else None
      | None => None
      end
  | UndeployStart =>
      Some (mkQ (queue s) (ever s) (sched s) (cleared s) (cache s) (inflight s) (Some (sched s)) (finished s))
  | Cancel ids =>
      match snap s with
      | Some l =>
        if leqb ids l
        then Some (mkQ (filter (fun x => negb (mem x ids)) (queue s)) (ever s) (sched s) (cleared s) (cache s)
                       (inflight s) (snap s) (finished s))
        else None
      | None => None
      end
  | UndeployEnd =>     (* undeploy() ends with `self._scheduled_jobs = {}` *)
      match snap s with
      | Some _ => Some (mkQ (queue s) (ever s) [] (cleared s) (cache s) (inflight s) (snap s) (finished s))
      | None => None
      end
  | PopMissing j => if mem j (sched s) then None else Some s
  end.

Fixpoint accept (s : qst) (tr : list event) : option qst :=
  match tr with
  | [] => Some s
  | e :: tr' => match qstep s e with Some s' => accept s' tr' | None => None end
  end.
