(* Cwl/Network.v — the token network StreamFlow builds for a step scattered with dotproduct over n inputs:
     n ScatterSteps  ->  DotProductCombinator over the n ports  ->  per-combination job  ->  GatherStep(depth 1)
   composed from the proved step models of C01 (Gather/) and C02 (Comb/), which are imported, not edited.

   ANCHORS: streamflow.cwl.translator (scatter section of _translate_workflow_step: ScatterStep per scattered
            input, DotProductCombinator "-scatter-combinator", GatherStep "-gather" with the size port),
            via Gather.Model (ScatterStep._scatter, GatherStep.run) and Comb.Model (DotProductCombinator.combine).
   The job (ExecuteStep + the CWL tool) is a function [jobp] of the payload ids of the combination read in
   port order; its output token carries get_tag of the combination's tokens (utils.get_tag), as in
   CWLCommandOutputProcessor / build_token. *)
From Coq Require Import List Ascii Bool NArith Arith Lia Permutation.
From SF Require Import Base.Str Base.Dec Tags.Model Tags.Proofs.
From SF Require Gather.Model Gather.Proofs.
From SF Require Import Comb.Model Comb.Proofs Comb.Flat Comb.Cart.
From SF Require Cwl.Sem.
Import ListNotations.
Local Open Scope string_scope. Local Open Scope list_scope. Local Open Scope nat_scope.

Module G := Gather.Model.
Module GP := Gather.Proofs.

(* ---------------------------------------------------------------- small list facts *)
Lemma filter_all {A} (f : A -> bool) l : (forall x, In x l -> f x = true) -> filter f l = l.
Proof.
  induction l as [|a l IH]; simpl; intros H; [reflexivity|].
  rewrite (H a) by auto. f_equal. apply IH. intros x Hx. apply H. auto.
Qed.

Lemma filter_none {A} (f : A -> bool) l : (forall x, In x l -> f x = false) -> filter f l = [].
Proof.
  induction l as [|a l IH]; simpl; intros H; [reflexivity|].
  rewrite (H a) by auto. apply IH. intros x Hx. apply H. auto.
Qed.

Lemma lookup_in_nodup {A} k (v : A) l :
  NoDup (map fst l) -> In (k, v) l -> lookup k l = Some v.
Proof.
  induction l as [|[k' v'] l IH]; simpl; intros ND Hin; [destruct Hin|].
  inversion ND as [|? ? Hn ND']; subst.
  destruct Hin as [E|Hin].
  - inversion E; subst. rewrite String.eqb_refl. reflexivity.
  - destruct (String.eqb_spec k k') as [->|Hne].
    + exfalso. apply Hn. apply in_map_iff. exists (k', v). auto.
    + apply IH; assumption.
Qed.

Lemma lookup_some_in {A} k (v : A) l : lookup k l = Some v -> In (k, v) l.
Proof.
  induction l as [|[k' v'] l IH]; simpl; [discriminate|].
  destruct (String.eqb_spec k k') as [->|Hne]; intros H.
  - inversion H; subst. auto.
  - right. apply IH. exact H.
Qed.

Lemma lookup_perm {A} k (a b : list (string * A)) :
  NoDup (map fst a) -> Permutation a b -> lookup k a = lookup k b.
Proof.
  intros ND P.
  assert (NDb : NoDup (map fst b)) by (eapply Permutation_NoDup; [apply Permutation_map; exact P|exact ND]).
  destruct (lookup k a) as [v|] eqn:Ea.
  - symmetry. apply lookup_in_nodup; [exact NDb|].
    eapply Permutation_in; [exact P|]. apply lookup_some_in. exact Ea.
  - destruct (lookup k b) as [v|] eqn:Eb; [|reflexivity].
    apply lookup_some_in in Eb. apply (Permutation_in _ (Permutation_sym P)) in Eb.
    rewrite (lookup_in_nodup k v a ND Eb) in Ea. discriminate.
Qed.

Lemma get_tag_fold_same g k : fold_left (fun out t => if Nat.ltb (String.length out) (String.length t) then t else out)
                                        (repeat g k) g = g.
Proof. induction k; simpl; [reflexivity|]. rewrite Nat.ltb_irrefl. exact IHk. Qed.

Lemma get_tag_repeat g k : 1 < String.length g -> 1 <= k -> get_tag_s (repeat g k) = g.
Proof.
  intros Hg Hk. destruct k as [|k]; [lia|]. unfold get_tag_s. simpl.
  replace (Nat.ltb 1 (String.length g)) with true by (symmetry; apply Nat.ltb_lt; exact Hg).
  apply get_tag_fold_same.
Qed.

Lemma ids_generic (ps : list string) (g : string) : NoDup ps -> forall r : list N, length r = length ps ->
  map (fun p => match lookup p (map (fun pi : string * N => (fst pi, (snd pi, g))) (List.combine ps r)) with
                | Some x => fst x | None => 0%N end) ps = r.
Proof.
  induction ps as [|p ps IH]; intros ND [|x xs] L; simpl in *; try discriminate; [reflexivity|].
  rewrite String.eqb_refl. simpl. f_equal.
  inversion ND as [|? ? Hn ND']; subst.
  transitivity (map (fun q => match lookup q (map (fun pi : string * N => (fst pi, (snd pi, g))) (List.combine ps xs)) with
                              | Some y => fst y | None => 0%N end) ps); [|apply IH; [exact ND'|lia]].
  apply map_ext_in. intros q Hq.
  destruct (String.eqb_spec q p) as [->|_]; [contradiction|reflexivity].
Qed.

(* ---------------------------------------------------------------- link with the specification's dotproduct *)
(* rows of Sem.dot over the per-port arrays have one entry per port *)
Lemma transpose_rows {A} : forall m (ls rows : list (list A)),
  Cwl.Sem.transpose m ls = Some rows -> length rows = m /\ forall r, In r rows -> length r = length ls.
Proof.
  induction m as [|m IH]; intros ls rows H; simpl in H.
  - destruct (forallb _ ls); inversion H; subst. split; [reflexivity|intros r []].
  - destruct (Cwl.Sem.mapM _ ls) as [hts|] eqn:E; [|discriminate].
    destruct (Cwl.Sem.transpose m (map snd hts)) as [rows'|] eqn:E'; [|discriminate].
    inversion H; subst. destruct (IH _ _ E') as [L R].
    assert (Lh : length hts = length ls).
    { clear - E. revert hts E. induction ls as [|l ls IHl]; intros hts E; simpl in E.
      - inversion E. reflexivity.
      - destruct l; [discriminate|]. destruct (Cwl.Sem.mapM _ ls) eqn:E2; [|discriminate].
        inversion E; subst. simpl. f_equal. apply IHl. reflexivity. }
    split; [simpl; congruence|]. intros r [<-|Hr].
    + rewrite map_length. exact Lh.
    + rewrite (R r Hr), map_length. exact Lh.
Qed.

(* ---------------------------------------------------------------- the network *)
Section Net.
Variable items : list string.          (* the scattered input ports, in the order of [scatter:] *)
Variable t : tag.                      (* tag of the arrays being scattered *)
Variable jobp : list N -> string.      (* payload of the job's output, from the payload ids in port order *)
Hypothesis items_nodup : NoDup items.
Hypothesis items_ne : items <> [].
Hypothesis t_ne : t <> [].
Let n := length items.

Definition tg (i : nat) : string := render (t ++ [N.of_nat i]).

(* what the n ScatterSteps emit for element index i: port k carries (id of element i of array k, t.i) *)
Definition row_arvs (i : nat) (r : list N) : list arv :=
  map (fun pi : string * N => (fst pi, (snd pi, tg i))) (List.combine items r).
Fixpoint srows (k : nat) (rows : list (list N)) : list arv :=
  match rows with
  | [] => []
  | r :: rs => row_arvs k r ++ srows (S k) rs
  end.

(* expected gathered elements: job of row i, tagged t.i *)
Fixpoint eres (k : nat) (rows : list (list N)) : list G.tok :=
  match rows with
  | [] => []
  | r :: rs => G.Tok (tg k) (jobp r) :: eres (S k) rs
  end.

(* the job: reads the combination by port name, emits a token tagged get_tag(inputs) *)
Definition sch_ids (s : schema) : list N :=
  map (fun p => match lookup p s with Some x => fst x | None => 0%N end) items.
Definition exec (s : schema) : G.tok :=
  G.Tok (get_tag_s (map (fun kv : string * tok => snd (snd kv)) s)) (jobp (sch_ids s)).

(* ---- tags *)
Lemma tg_inj i j : tg i = tg j -> i = j.
Proof.
  unfold tg. intros E. apply GP.render_inj in E; try (destruct t; discriminate).
  apply app_inv_head in E. inversion E. lia.
Qed.

Lemma tg_long i : 1 < String.length (tg i).
Proof.
  unfold tg. rewrite render_snoc by exact t_ne. rewrite length_append, length_append. simpl.
  pose proof (dec_length_pos (N.of_nat i)).
  assert (1 <= String.length (render t)).
  { destruct t as [|a r]; [congruence|]. unfold render. simpl.
    destruct r; simpl; [apply dec_length_pos|]. rewrite length_append. pose proof (dec_length_pos a). lia. }
  lia.
Qed.

Lemma tg_unrelated i j : i <> j -> is_parent_tag_s (tg i) (tg j) = false.
Proof.
  intros Hne. unfold is_parent_tag_s, tg.
  rewrite !split_render by (destruct t; discriminate).
  destruct (list_prefixb (map dec (t ++ [N.of_nat j])) (map dec (t ++ [N.of_nat i]))) eqn:P; [|reflexivity].
  exfalso. apply prefixb_same_length in P; [|rewrite !map_length, !app_length; reflexivity].
  rewrite !map_app in P. apply app_inv_head in P. simpl in P. inversion P as [E].
  apply dec_inj in E. lia.
Qed.

(* ---- the scattered arrivals *)
Lemma row_atag i r x : In x (row_arvs i r) -> atag x = tg i.
Proof. unfold row_arvs. intros H. apply in_map_iff in H. destruct H as [pi [<- _]]. reflexivity. Qed.

Lemma row_ports i r : length r = n -> map fst (row_arvs i r) = items.
Proof.
  intros L. unfold row_arvs. rewrite map_map. simpl.
  change (map (fun x : string * N => fst x) (List.combine items r)) with (map fst (List.combine items r)).
  clear - L. subst n. revert r L. induction items as [|p ps IH]; intros [|x xs] L; simpl in *; try discriminate; auto.
  f_equal. apply IH. lia.
Qed.

Lemma row_length i r : length r = n -> length (row_arvs i r) = n.
Proof.
  intros L. transitivity (length (map fst (row_arvs i r))); [symmetry; apply map_length|].
  rewrite row_ports by exact L. reflexivity.
Qed.

Lemma sel_row i j r : sel (tg i) (row_arvs j r) = if Nat.eqb i j then row_arvs j r else [].
Proof.
  unfold sel. destruct (Nat.eqb_spec i j) as [->|Hne].
  - apply filter_all. intros x Hx. rewrite (row_atag _ _ _ Hx). apply String.eqb_refl.
  - apply filter_none. intros x Hx. rewrite (row_atag _ _ _ Hx).
    apply String.eqb_neq. intros E. apply tg_inj in E. congruence.
Qed.

Lemma sel_app g a b : sel g (a ++ b) = sel g a ++ sel g b.
Proof. unfold sel. apply filter_app. Qed.

Lemma sel_srows i : forall rows k,
  sel (tg i) (srows k rows) = if (k <=? i) && (i <? k + length rows) then row_arvs i (nth (i - k) rows []) else [].
Proof.
  induction rows as [|r rs IH]; intros k.
  - cbn [srows length]. destruct (Nat.leb_spec k i), (Nat.ltb_spec i (k + 0)); cbn [andb]; try reflexivity; lia.
  - cbn [srows length]. rewrite sel_app, sel_row, IH.
    destruct (Nat.eqb_spec i k) as [E|Hne];
      destruct (Nat.leb_spec k i), (Nat.ltb_spec i (k + S (length rs))),
               (Nat.leb_spec (S k) i), (Nat.ltb_spec i (S k + length rs));
      cbn [andb]; try lia; rewrite ?app_nil_r; try reflexivity.
    + subst i. rewrite Nat.sub_diag. reflexivity.
    + replace (i - k) with (S (i - S k)) by lia. reflexivity.
Qed.

Definition rows_ok (rows : list (list N)) : Prop := forall r, In r rows -> length r = n.

Lemma n_pos : 1 <= n.
Proof. subst n. destruct items; [congruence|simpl; lia]. Qed.

Lemma srows_tags : forall rows k, rows_ok rows ->
  forall g, In g (map atag (srows k rows)) <-> exists i, k <= i < k + length rows /\ g = tg i.
Proof.
  induction rows as [|r rs IH]; intros k Hok g; simpl.
  - split; [tauto|]. intros [i [H _]]. lia.
  - rewrite map_app, in_app_iff, IH by (intros r' Hr'; apply Hok; right; exact Hr'). split.
    + intros [H|[i [Hi ->]]].
      * apply in_map_iff in H. destruct H as [x [<- Hx]]. exists k. split; [lia|]. apply (row_atag _ _ _ Hx).
      * exists i. split; [lia|reflexivity].
    + intros [i [Hi ->]]. destruct (Nat.eq_dec i k) as [->|Hne].
      * left. pose proof (row_length k r (Hok r (or_introl eq_refl))) as L. pose proof n_pos.
        destruct (row_arvs k r) as [|x l] eqn:E; [simpl in L; lia|].
        simpl. left. apply (row_atag k r). rewrite E. left. reflexivity.
      * right. exists i. split; [lia|reflexivity].
Qed.

Lemma srows_wf : forall rows k, rows_ok rows -> wf items (srows k rows).
Proof.
  intros rows k Hok. split; [exact items_nodup|]. split; [|split].
  - revert k. induction rows as [|r rs IH]; intros k x Hx; simpl in Hx; [destruct Hx|].
    apply in_app_iff in Hx. destruct Hx as [Hx|Hx].
    + unfold row_arvs in Hx. apply in_map_iff in Hx. destruct Hx as [pi [<- Hpi]]. simpl.
      destruct pi as [p v]. apply List.in_combine_l in Hpi. exact Hpi.
    + eapply IH; [|exact Hx]. intros r' Hr'. apply Hok. right. exact Hr'.
  - revert k. induction rows as [|r rs IH]; intros k; simpl; [constructor|].
    rewrite map_app. apply NoDup_app_intro.
    + (* within a row: distinct ports *)
      assert (E : map akey (row_arvs k r) = map (fun p => (p, tg k)) items).
      { rewrite <- (row_ports k r) by (apply Hok; left; reflexivity). rewrite map_map.
        apply map_ext_in. intros x Hx. unfold akey. rewrite (row_atag _ _ _ Hx). reflexivity. }
      rewrite E. apply FinFun.Injective_map_NoDup; [|exact items_nodup]. intros a b H. inversion H. reflexivity.
    + apply IH. intros r' Hr'. apply Hok. right. exact Hr'.
    + intros x H1 H2. apply in_map_iff in H1. destruct H1 as [a [<- Ha]].
      apply in_map_iff in H2. destruct H2 as [b [Eb Hb]].
      unfold akey in Eb. inversion Eb as [[Ep Et]].
      rewrite (row_atag _ _ _ Ha) in Et.
      assert (In (atag b) (map atag (srows (S k) rs))) by (apply in_map; exact Hb).
      apply srows_tags in H; [|intros r' Hr'; apply Hok; right; exact Hr'].
      destruct H as [i [Hi Ei]]. rewrite Ei in Et. apply tg_inj in Et. lia.
  - intros x y Hx Hy Hne.
    assert (Tx : In (atag x) (map atag (srows k rows))) by (apply in_map; exact Hx).
    assert (Ty : In (atag y) (map atag (srows k rows))) by (apply in_map; exact Hy).
    apply srows_tags in Tx; [|exact Hok]. apply srows_tags in Ty; [|exact Hok].
    destruct Tx as [i [_ Ei]]. destruct Ty as [j [_ Ej]]. rewrite Ei, Ej in *.
    apply tg_unrelated. intros ->. apply Hne. reflexivity.
Qed.

(* ---- one combination -> one job output *)
Lemma retag_tags g (s : schema) : map (fun kv : string * tok => snd (snd kv)) (retag g s) = repeat g (length s).
Proof. unfold retag. induction s as [|a s IH]; simpl; [reflexivity|]. f_equal. exact IH. Qed.

Lemma ids_of_row g r : length r = n ->
  sch_ids (map (fun pi : string * N => (fst pi, (snd pi, g))) (List.combine items r)) = r.
Proof. intros L. unfold sch_ids. apply ids_generic; [exact items_nodup|exact L]. Qed.

Lemma exec_combo i r l :
  length r = n -> Permutation l (row_arvs i r) -> exec (combo l) = G.Tok (tg i) (jobp r).
Proof.
  intros L P. unfold exec, combo.
  assert (Hl : length l = n) by (rewrite (Permutation_length P); apply row_length; exact L).
  assert (Ht : map atag l = repeat (tg i) n).
  { rewrite <- Hl. clear - P. revert P. generalize (row_atag i r). intros H P.
    assert (forall x, In x l -> atag x = tg i) by (intros x Hx; apply H; eapply Permutation_in; eauto).
    clear - H0. induction l as [|a l IH]; simpl; [reflexivity|]. rewrite H0 by (left; reflexivity).
    f_equal. apply IH. intros x Hx. apply H0. right. exact Hx. }
  rewrite Ht, get_tag_repeat by (try apply tg_long; apply n_pos).
  rewrite retag_tags, map_length. change (@length (string * tok) l) with (@length arv l).
  rewrite Hl, get_tag_repeat by (try apply tg_long; apply n_pos).
  f_equal. f_equal.
  (* the ids, read by port name, do not depend on the order in which the tokens arrived *)
  set (s' := retag (tg i) (map (fun x : arv => (fst x, snd x)) (row_arvs i r))).
  match goal with |- sch_ids ?S = _ => set (s0 := S) end.
  assert (Ps : Permutation s0 s').
  { unfold s0, s', retag. apply Permutation_map. apply Permutation_map. exact P. }
  assert (NDs : NoDup (map fst s')).
  { unfold s', retag. rewrite !map_map. simpl.
    change (map (fun x : arv => fst x) (row_arvs i r)) with (map fst (row_arvs i r)).
    rewrite row_ports by exact L. exact items_nodup. }
  assert (ND0 : NoDup (map fst s0)).
  { eapply Permutation_NoDup; [apply Permutation_map; apply Permutation_sym; exact Ps|exact NDs]. }
  transitivity (sch_ids s').
  - unfold sch_ids. apply map_ext. intros p. rewrite (lookup_perm p s0 s' ND0 Ps). reflexivity.
  - unfold s', row_arvs, retag. rewrite !map_map. simpl. apply ids_of_row. exact L.
Qed.

Lemma eres_spec : forall rows k,
  eres k rows = map (fun i => G.Tok (tg i) (jobp (nth (i - k) rows []))) (seq k (length rows)).
Proof.
  induction rows as [|r rs IH]; intros k; simpl; [reflexivity|].
  rewrite Nat.sub_diag. f_equal. rewrite IH. apply map_ext_in. intros i Hi. apply in_seq in Hi.
  replace (i - k) with (S (i - S k)) by lia. reflexivity.
Qed.

Lemma eres_ok rows : GP.elems_ok t (eres 0 rows).
Proof.
  unfold GP.elems_ok, GP.tags_from. rewrite eres_spec, map_map, map_length, seq_length. reflexivity.
Qed.

Lemma eres_length : forall rows k, length (eres k rows) = length rows.
Proof. induction rows; intros k; simpl; auto. Qed.

(* ---- combinator: whatever the arrival order, the jobs run are exactly one per index, on the right row *)
Lemma combinator_jobs rows arr :
  rows_ok rows -> Permutation arr (srows 0 rows) ->
  run (c1 items) init_state arr = (outs_spec items [] arr, None) /\
  Permutation (map exec (concat (outs_spec items [] arr))) (eres 0 rows).
Proof.
  intros Hok P.
  assert (W : wf items arr) by (eapply wf_perm; [apply Permutation_sym; exact P|apply srows_wf; exact Hok]).
  split; [apply dot_flat; exact W|].
  eapply Permutation_trans; [apply Permutation_map; apply outs_done; exact W|].
  unfold done. fold n.
  set (m := length rows).
  (* every tag t.i, i < m, is complete *)
  assert (Hsel : forall i, i < m -> Permutation (sel (tg i) arr) (row_arvs i (nth i rows []))).
  { intros i Hi. eapply Permutation_trans; [apply Permutation_filter'; exact P|].
    fold (sel (tg i) (srows 0 rows)). rewrite sel_srows. simpl. fold m.
    replace (i <? m) with true by (symmetry; apply Nat.ltb_lt; exact Hi).
    rewrite Nat.sub_0_r. apply Permutation_refl. }
  assert (Hrow : forall i, i < m -> length (nth i rows []) = n).
  { intros i Hi. apply Hok. apply nth_In. exact Hi. }
  assert (Htags : Permutation (tags arr) (map tg (seq 0 m))).
  { destruct (tags_spec arr) as [ND Hin]. apply NoDup_Permutation; [exact ND| |].
    - apply FinFun.Injective_map_NoDup; [intros a b; apply tg_inj|apply seq_NoDup].
    - intros g. rewrite Hin. split.
      + intros H. assert (H' : In g (map atag (srows 0 rows))).
        { eapply Permutation_in; [apply Permutation_map; exact P|exact H]. }
        apply srows_tags in H'; [|exact Hok]. destruct H' as [i [Hi ->]].
        apply in_map. apply in_seq. fold m in Hi. lia.
      + intros H. apply in_map_iff in H. destruct H as [i [<- Hi]]. apply in_seq in Hi.
        eapply Permutation_in; [apply Permutation_map; apply Permutation_sym; exact P|].
        apply srows_tags; [exact Hok|]. exists i. fold m. split; [lia|reflexivity]. }
  assert (Hall : forall g, In g (tags arr) -> complete items arr g = true).
  { intros g Hg. apply (Permutation_in _ Htags) in Hg. apply in_map_iff in Hg. destruct Hg as [i [<- Hi]].
    apply in_seq in Hi. unfold complete. fold n. apply Nat.eqb_eq.
    rewrite (Permutation_length (Hsel i ltac:(lia))). apply row_length. apply Hrow. lia. }
  rewrite (filter_all _ _ Hall). rewrite map_map.
  eapply Permutation_trans; [apply Permutation_map; exact Htags|].
  rewrite map_map, eres_spec. fold m.
  replace (map (fun x : nat => exec (combo (sel (tg x) arr))) (seq 0 m))
    with (map (fun i : nat => G.Tok (tg i) (jobp (nth (i - 0) rows []))) (seq 0 m)); [apply Permutation_refl|].
  apply map_ext_in. intros i Hi. apply in_seq in Hi. rewrite Nat.sub_0_r. symmetry.
  apply exec_combo; [apply Hrow; lia|apply Hsel; lia].
Qed.

(* ---- what the n ScatterSteps emit, array by array (C01_scatter: element i of a list tagged t gets tag t.i) *)
Fixpoint col_arvs (p : string) (i : nat) (col : list N) : list arv :=
  match col with
  | [] => []
  | x :: c => (p, (x, tg i)) :: col_arvs p (S i) c
  end.
Fixpoint scols (k : nat) (ps : list string) (cols : list (list N)) : list arv :=
  match ps, cols with
  | p :: ps', c :: cols' => col_arvs p k c ++ scols k ps' cols'
  | _, _ => []
  end.

Definition heads_row (k : nat) (ps : list string) (hs : list N) : list arv :=
  map (fun pi : string * N => (fst pi, (snd pi, tg k))) (List.combine ps hs).

Lemma scols_peel k : forall ps (hts : list (N * list N)),
  length ps = length hts ->
  Permutation (scols k ps (map (fun ht => fst ht :: snd ht) hts))
              (heads_row k ps (map fst hts) ++ scols (S k) ps (map snd hts)).
Proof.
  induction ps as [|p ps IH]; intros [|[h tl] hts] L; simpl in L; try discriminate; [apply Permutation_refl|].
  cbn [map fst snd scols col_arvs heads_row List.combine].
  change (map (fun pi : string * N => (fst pi, (snd pi, tg k))) (List.combine ps (map fst hts)))
    with (heads_row k ps (map fst hts)).
  cbn [app]. apply perm_skip.
  eapply Permutation_trans; [apply Permutation_app_head; apply IH; lia|].
  rewrite !app_assoc. apply Permutation_app_tail. apply Permutation_app_comm.
Qed.

Lemma mapM_heads (ls : list (list N)) hts :
  Cwl.Sem.mapM (fun l : list N => match l with x :: l' => Some (x, l') | [] => None end) ls = Some hts ->
  ls = map (fun ht => fst ht :: snd ht) hts.
Proof.
  revert hts. induction ls as [|l ls IH]; intros hts H; simpl in H.
  - inversion H. reflexivity.
  - destruct l as [|x l']; [discriminate|].
    destruct (Cwl.Sem.mapM _ ls) as [r|] eqn:E; [|discriminate]. inversion H; subst. simpl.
    f_equal. apply IH. reflexivity.
Qed.

Lemma scols_all_nil k : forall ps (cols : list (list N)),
  forallb (fun l : list N => match l with [] => true | _ => false end) cols = true -> scols k ps cols = [].
Proof.
  induction ps as [|p ps IH]; intros [|c cols] H; simpl in *; try reflexivity.
  destruct c; [|discriminate]. simpl. apply IH. exact H.
Qed.

(* the union of the per-port scatters is, up to order, the row-wise listing used above *)
Lemma scols_srows : forall m k (cols rows : list (list N)),
  length cols = n -> Cwl.Sem.transpose m cols = Some rows ->
  Permutation (scols k items cols) (srows k rows).
Proof.
  induction m as [|m IH]; intros k cols rows L H; simpl in H.
  - destruct (forallb _ cols) eqn:E; inversion H; subst. rewrite scols_all_nil by exact E. apply Permutation_refl.
  - destruct (Cwl.Sem.mapM _ cols) as [hts|] eqn:E; [|discriminate].
    destruct (Cwl.Sem.transpose m (map snd hts)) as [rows'|] eqn:E'; [|discriminate].
    inversion H; subst. apply mapM_heads in E. subst cols. rewrite map_length in L.
    eapply Permutation_trans; [apply scols_peel; subst n; lia|].
    cbn [srows]. apply Permutation_app; [apply Permutation_refl|].
    apply IH; [rewrite map_length; exact L|exact E'].
Qed.

(* ---- THE NETWORK *)
Theorem scatter_network_dot rows arr l1 l2 p1 p2 :
  rows_ok rows ->
  (* any arrival order of the scattered elements at the combinator *)
  Permutation arr (srows 0 rows) ->
  let res := run (c1 items) init_state arr in
  (* the size token (DotProductSizeTransformer: the common length) and the job outputs, in any order and any
     legal interleaving with the two termination tokens, at the gather *)
  Permutation (l1 ++ l2) (G.OnSize (render t) (N.of_nat (length rows)) :: map G.OnElem (map exec (concat (fst res)))) ->
  p1 <> p2 -> (forall a, In a l2 -> G.port_of a <> p1) ->
  let s := G.gather_run 1 (l1 ++ G.OnTerm p1 G.Completed :: l2 ++ [G.OnTerm p2 G.Completed]) in
  snd res = None /\
  G.gout (G.gd s) = [G.ListTok (render t) (eres 0 rows)] /\ G.gfinal s = Some G.Completed.
Proof.
  intros Hok P res Hg Hne Hl2 s.
  destruct (combinator_jobs rows arr Hok P) as [Hrun Hjobs].
  unfold res in *. rewrite Hrun in *. simpl fst in *. simpl snd.
  split; [reflexivity|].
  apply GP.gather_one; auto.
  - apply eres_ok.
  - unfold GP.inst_arrivals. rewrite eres_length.
    eapply Permutation_trans; [exact Hg|]. apply perm_skip. apply Permutation_map. exact Hjobs.
Qed.

(* the same, stated on the arrays as they are scattered port by port, with the rows of the SPECIFICATION's
   dotproduct (Cwl.Sem.dot): the gathered list holds job(row i) at position i, for every row of [dot cols] *)
Theorem scatter_network_dot_spec cols rows arr l1 l2 p1 p2 :
  length cols = n -> Cwl.Sem.dot cols = Some rows ->
  Permutation arr (scols 0 items cols) ->
  let res := run (c1 items) init_state arr in
  Permutation (l1 ++ l2) (G.OnSize (render t) (N.of_nat (length rows)) :: map G.OnElem (map exec (concat (fst res)))) ->
  p1 <> p2 -> (forall a, In a l2 -> G.port_of a <> p1) ->
  let s := G.gather_run 1 (l1 ++ G.OnTerm p1 G.Completed :: l2 ++ [G.OnTerm p2 G.Completed]) in
  snd res = None /\
  G.gout (G.gd s) = [G.ListTok (render t) (eres 0 rows)] /\ G.gfinal s = Some G.Completed /\
  map (fun x => match x with G.Tok _ v => v | G.ListTok _ _ => "" end) (eres 0 rows) = map jobp rows.
Proof.
  intros L D P res Hg Hne Hl2 s.
  assert (Ht : exists m, Cwl.Sem.transpose m cols = Some rows).
  { unfold Cwl.Sem.dot in D. destruct cols as [|c cs]; [pose proof n_pos; simpl in L; lia|]. eexists. exact D. }
  destruct Ht as [m Ht].
  assert (Hok : rows_ok rows).
  { intros r Hr. destruct (transpose_rows m cols rows Ht) as [_ R]. rewrite (R r Hr). exact L. }
  assert (P' : Permutation arr (srows 0 rows)).
  { eapply Permutation_trans; [exact P|]. eapply scols_srows; eauto. }
  destruct (scatter_network_dot rows arr l1 l2 p1 p2 Hok P' Hg Hne Hl2) as (A & B & C).
  repeat split; try assumption.
  clear. generalize 0. induction rows as [|r rs IH]; intros k; simpl; [reflexivity|]. f_equal. apply IH.
Qed.

End Net.

