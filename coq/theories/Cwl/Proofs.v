(* Cwl/Proofs.v — laws of the specification interpreter (Cwl/Sem.v) and of StreamFlow's value-level
   operators (Cwl/Ops.v) against it. *)
From Coq Require Import List Bool NArith ZArith Lia.
From SF Require Import Base.Str Base.Dec Base.Corr Tags.Model Cwl.Sem Cwl.Ops.
Import ListNotations.
Local Open Scope list_scope.

(* ------------------------------------------------------------------ scatter: flat = leaves of nested *)
Lemma flat_map_map {A B C} (f : A -> B) (g : B -> list C) l :
  flat_map g (map f l) = flat_map (fun x => g (f x)) l.
Proof. induction l; simpl; congruence. Qed.

Lemma leaves_nest {A} (ls : list (list A)) : forall acc, leaves (nest ls acc) = cart ls acc.
Proof.
  induction ls as [|l rest IH]; intros acc; simpl; [reflexivity|].
  rewrite flat_map_map. apply flat_map_ext. intros x. apply IH.
Qed.

Lemma leaves_tree_map {A B} (f : A -> B) (t : ntree A) : leaves (tree_map f t) = map f (leaves t).
Proof.
  revert t. fix IH 1. intros [a|l]; simpl; [reflexivity|].
  induction l as [|x l IHl]; simpl; [reflexivity|].
  rewrite map_app, IH, IHl. reflexivity.
Qed.

(* the jobs of a flat_crossproduct, in order, are the leaves (left to right) of the nested_crossproduct *)
Lemma flat_is_flatten_nested {A B} (f : list A -> B) (ls : list (list A)) :
  map f (cart ls []) = leaves (tree_map f (nest ls [])).
Proof. rewrite leaves_tree_map, leaves_nest. reflexivity. Qed.

Lemma flat_map_nil {A B} (f : A -> list B) l : (forall x, In x l -> f x = []) -> flat_map f l = [].
Proof.
  induction l; simpl; intros H; [reflexivity|].
  rewrite (H a) by auto. simpl. apply IHl. intros x Hx. apply H. auto.
Qed.

Lemma cart_empty {A} (ls : list (list A)) : In [] ls -> forall acc, cart ls acc = [].
Proof.
  induction ls as [|l rest IH]; intros Hin acc; [destruct Hin|].
  simpl. destruct Hin as [->|Hin]; [reflexivity|].
  apply flat_map_nil. intros x _. apply IH. exact Hin.
Qed.

(* ------------------------------------------------------------------ pickValue *)
Lemma non_nulls_map l :
  map tok_value (filter (fun t => negb (tok_is_null t)) l) = non_nulls (map tok_value l).
Proof.
  unfold non_nulls, tok_is_null. induction l as [|t l IH]; simpl; [reflexivity|].
  destruct (is_null (tok_value t)); simpl; congruence.
Qed.

Lemma pick_first g l :
  option_map tok_value (sf_pick FirstNonNull (LTok g l)) = pick_value FirstNonNull (map tok_value l).
Proof.
  simpl. rewrite <- non_nulls_map.
  destruct (filter (fun t => negb (tok_is_null t)) l); reflexivity.
Qed.

Lemma pick_only g l :
  option_map tok_value (sf_pick OnlyNonNull (LTok g l)) = pick_value OnlyNonNull (map tok_value l).
Proof.
  simpl. rewrite <- non_nulls_map.
  destruct (filter (fun t => negb (tok_is_null t)) l) as [|x [|y r]]; reflexivity.
Qed.

Lemma pick_all g l :
  option_map tok_value (sf_pick AllNonNull (LTok g l)) = pick_value AllNonNull (map tok_value l).
Proof. simpl. rewrite non_nulls_map. reflexivity. Qed.

Lemma pick_any p g l :
  option_map tok_value (sf_pick p (LTok g l)) = pick_value p (map tok_value l).
Proof. destruct p; [apply pick_first | apply pick_only | apply pick_all]. Qed.

(* ------------------------------------------------------------------ merge_nested *)
Lemma merge_nested_multi inputs :
  length inputs <> 1 ->
  tok_value (sf_list_merge false inputs) = merge_nested (map tok_value inputs).
Proof.
  intros H. destruct inputs as [|a [|b r]]; [reflexivity| simpl in H; lia |].
  destruct a; reflexivity.
Qed.

Lemma merge_nested_single_scalar g v :
  tok_value (sf_list_merge false [Tok g v]) = merge_nested [v].
Proof. reflexivity. Qed.

(* a link with at least two sources and no flattening: combinator + pick / list-to-element chain *)
Lemma link_multi lm pv inputs :
  2 <= length inputs -> lm <> Some MergeFlattened ->
  option_map tok_value (sf_link lm pv inputs) = apply_pick pv (merge_sources lm (map tok_value inputs)).
Proof.
  intros Hlen Hlm.
  assert (Hm : sf_list_merge false inputs = LTok (get_tag_s (map tok_tag inputs)) inputs).
  { destruct inputs as [|a [|b r]]; simpl in Hlen; try lia. destruct a; reflexivity. }
  assert (Hs : merge_sources lm (map tok_value inputs) = VArr (map tok_value inputs)).
  { destruct inputs as [|a [|b r]]; simpl in Hlen; try lia.
    destruct lm as [[|]|]; try reflexivity. congruence. }
  rewrite Hs. unfold sf_link.
  replace (match lm with Some MergeFlattened => true | _ => false end) with false
    by (destruct lm as [[|]|]; try reflexivity; congruence).
  rewrite Hm. destruct pv as [p|]; simpl apply_pick.
  - apply pick_any.
  - destruct lm as [[|]|]; try congruence; try reflexivity.
    destruct inputs as [|a [|b r]]; simpl in Hlen; try lia. reflexivity.
Qed.

(* ------------------------------------------------------------------ merge_flattened *)
(* shallow: what build_token / GatherStep produce for values of type T or T[] with T not an array *)
Definition scalar_tok (t : tok) : bool :=
  match t with Tok _ (VArr _) => false | Tok _ _ => true | LTok _ _ => false end.
Definition shallow_tok (t : tok) : bool :=
  match t with Tok _ _ => scalar_tok t | LTok _ l => forallb scalar_tok l end.

Fixpoint keys_sorted (l : list tok) : bool :=
  match l with
  | [] => true
  | x :: l' => match l' with
               | [] => true
               | y :: _ => N.leb (tok_key x) (tok_key y) && keys_sorted l'
               end
  end.
Definition inner_sorted (t : tok) : bool := match t with LTok _ l => keys_sorted l | _ => true end.

Lemma insert_sorted x l :
  keys_sorted (x :: l) = true -> insert_tok x l = x :: l.
Proof.
  destruct l as [|y l]; [reflexivity|]. simpl. intros H.
  apply andb_prop in H. destruct H as [H _]. rewrite H. reflexivity.
Qed.

Lemma keys_sorted_tail x l : keys_sorted (x :: l) = true -> keys_sorted l = true.
Proof.
  destruct l as [|y l]; [reflexivity|]. simpl. intros H. apply andb_prop in H. apply H.
Qed.

Lemma sort_sorted l : keys_sorted l = true -> sort_toks l = l.
Proof.
  induction l as [|x l IH]; intros H; [reflexivity|].
  unfold sort_toks in *. simpl. rewrite IH by (eapply keys_sorted_tail; eauto).
  apply insert_sorted. exact H.
Qed.

Lemma flatten_scalars n l :
  forallb scalar_tok l = true -> keys_sorted l = true -> flatten_fuel (S n) l = l.
Proof.
  intros Hs Hk. simpl. rewrite sort_sorted by exact Hk.
  induction l as [|t l IH]; [reflexivity|].
  simpl in Hs. apply andb_prop in Hs. destruct Hs as [Ht Hl].
  simpl. destruct t; [|discriminate].
  simpl. f_equal. apply IH; [exact Hl|]. eapply keys_sorted_tail; eauto.
Qed.

Lemma flatten1_scalars l :
  forallb scalar_tok l = true -> flatten1 (map tok_value l) = map tok_value l.
Proof.
  induction l as [|t l IH]; intros H; [reflexivity|].
  simpl in H. apply andb_prop in H. destruct H as [Ht Hl].
  destruct t as [g v|g l']; [|discriminate]. simpl.
  destruct v; simpl; try (rewrite IH by exact Hl; reflexivity). discriminate.
Qed.

Lemma flatten_shallow d l :
  forallb shallow_tok l = true -> forallb inner_sorted l = true -> forest_depth l <= d ->
  map tok_value (flat_map (fun t => match t with
                                    | LTok _ l' => flatten_fuel d l'
                                    | Tok _ _ => [t]
                                    end) l)
  = flatten1 (map tok_value l).
Proof.
  induction l as [|t l IH]; intros Hs Hk Hd; [reflexivity|].
  simpl in Hs, Hk. apply andb_prop in Hs. destruct Hs as [Ht Hl].
  apply andb_prop in Hk. destruct Hk as [Hkt Hkl].
  change (forest_depth (t :: l)) with (Nat.max (tok_depth t) (forest_depth l)) in Hd.
  cbn [flat_map]. rewrite map_app, IH by (try assumption; lia).
  destruct t as [g v|g l'].
  - simpl. destruct v; try reflexivity. discriminate.
  - destruct d as [|d'].
    + exfalso. change (tok_depth (LTok g l')) with (S (forest_depth l')) in Hd. lia.
    + rewrite flatten_scalars by assumption. reflexivity.
Qed.

(* merge_flattened of sources of type T / T[] (T not an array), each list in key order *)
Lemma merge_flattened_shallow inputs :
  forallb shallow_tok inputs = true ->
  keys_sorted inputs = true -> forallb inner_sorted inputs = true ->
  tok_value (sf_list_merge true inputs) = merge_flattened (map tok_value inputs).
Proof.
  intros Hs Hk Hi.
  destruct inputs as [|a [|b r]].
  - reflexivity.
  - (* a single source *)
    destruct a as [g v|g l].
    + simpl in Hs. rewrite andb_true_r in Hs.
      cbn. unfold merge_flattened. simpl. destruct v; try reflexivity. discriminate.
    + simpl in Hs, Hi. rewrite andb_true_r in Hs, Hi.
      unfold sf_list_merge, sf_flatten. cbn [tok_value].
      rewrite flatten_scalars by assumption.
      unfold merge_flattened. simpl. rewrite app_nil_r. reflexivity.
  - (* several sources: the top-level list is in key order, so sorting keeps it *)
    unfold sf_list_merge.
    replace (match a :: b :: r with
             | [LTok g l] => (l, g)
             | [Tok g v] => ([Tok g v], g)
             | _ => (a :: b :: r, get_tag_s (map tok_tag (a :: b :: r)))
             end) with (a :: b :: r, get_tag_s (map tok_tag (a :: b :: r)))
      by (destruct a; reflexivity).
    cbn [tok_value]. unfold merge_flattened. f_equal.
    unfold sf_flatten.
    change (flatten_fuel (S (forest_depth (a :: b :: r))) (a :: b :: r)) with
      (flat_map (fun t => match t with
                          | LTok _ l' => flatten_fuel (forest_depth (a :: b :: r)) l'
                          | Tok _ _ => [t]
                          end) (sort_toks (a :: b :: r))).
    rewrite sort_sorted by exact Hk.
    apply flatten_shallow; try assumption. lia.
Qed.

(* ------------------------------------------------------------------ empty scatter *)
Definition tok_elems (t : tok) : list value :=
  match t with LTok _ l => map tok_value l | Tok _ _ => [] end.
Definition all_lists (inputs : list tok) : bool :=
  forallb (fun t => match t with LTok _ _ => true | _ => false end) inputs.

Lemma some_empty inputs :
  all_lists inputs = true -> sf_scatter_nonempty inputs = false -> In [] (map tok_elems inputs).
Proof.
  induction inputs as [|t l IH]; simpl; intros Ha Hn; [discriminate|].
  apply andb_prop in Ha. destruct Ha as [Ht Hl].
  destruct t as [|g [|x r]]; try discriminate.
  - left. reflexivity.
  - right. apply IH; assumption.
Qed.

Lemma empty_scatter_flat inputs job :
  all_lists inputs = true -> sf_scatter_nonempty inputs = false ->
  spec_scatter_value FlatCross (map tok_elems inputs) job
  = Some (tok_value (sf_empty_scatter FlatCross inputs)).
Proof.
  intros Ha Hn. simpl. rewrite cart_empty by (apply some_empty; assumption). reflexivity.
Qed.

Lemma transpose_all_nil {A} (ls : list (list A)) :
  (forall l, In l ls -> l = []) -> transpose 0 ls = Some [].
Proof.
  intros H. simpl.
  replace (forallb (fun l : list A => match l with [] => true | _ => false end) ls) with true; [reflexivity|].
  symmetry. apply forallb_forall. intros l Hl. rewrite (H l Hl). reflexivity.
Qed.

(* dotproduct: StreamFlow's shortcut agrees with the spec when ALL scattered arrays are empty *)
Lemma empty_scatter_dot_all_empty inputs job :
  inputs <> [] ->
  (forall t, In t inputs -> exists g, t = LTok g []) ->
  spec_scatter_value Dot (map tok_elems inputs) job
  = Some (tok_value (sf_empty_scatter Dot inputs)).
Proof.
  intros Hne H. destruct inputs as [|t r]; [congruence|].
  assert (Hall : forall l, In l (map tok_elems (t :: r)) -> l = []).
  { intros l Hl. apply in_map_iff in Hl. destruct Hl as [x [<- Hx]].
    destruct (H x Hx) as [g ->]. reflexivity. }
  destruct (H t (or_introl eq_refl)) as [g ->].
  unfold spec_scatter_value, dot.
  change (map tok_elems (LTok g [] :: r)) with ((@nil value) :: map tok_elems r) in *.
  cbv beta iota. change (length (@nil value)) with 0.
  rewrite (transpose_all_nil _ Hall). reflexivity.
Qed.
