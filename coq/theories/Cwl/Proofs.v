(* Cwl/Proofs.v — laws of the specification interpreter (Cwl/Sem.v) and of StreamFlow's value-level
   operators (Cwl/Ops.v) against it. *)
From Coq Require Import List Bool NArith ZArith Lia.
From SF Require Import Base.Str Base.Dec Base.Corr Tags.Model Cwl.Sem Cwl.Ops.
Import ListNotations.
Local Open Scope list_scope.

(* ------------------------------------------------------------------ scatter: flat = leaves of nested *)
Lemma flat_map_map {A B C} (f : A -> B) (g : B -> list C) l :
  flat_map g (map f l) = flat_map (fun x => g (f x)) l.
Proof. induction l; simpl; congruence. Qed.

Lemma leaves_nest {A} (ls : list (list A)) : forall acc, leaves (nest ls acc) = cart ls acc.
Proof.
  induction ls as [|l rest IH]; intros acc; simpl; [reflexivity|].
  rewrite flat_map_map. apply flat_map_ext. intros x. apply IH.
Qed.

Lemma leaves_tree_map {A B} (f : A -> B) (t : ntree A) : leaves (tree_map f t) = map f (leaves t).
Proof.
  revert t. fix IH 1. intros [a|l]; simpl; [reflexivity|].
  induction l as [|x l IHl]; simpl; [reflexivity|].
  rewrite map_app, IH, IHl. reflexivity.
Qed.

(* the jobs of a flat_crossproduct, in order, are the leaves (left to right) of the nested_crossproduct *)
Lemma flat_is_flatten_nested {A B} (f : list A -> B) (ls : list (list A)) :
  map f (cart ls []) = leaves (tree_map f (nest ls [])).
Proof. rewrite leaves_tree_map, leaves_nest. reflexivity. Qed.

Lemma flat_map_nil {A B} (f : A -> list B) l : (forall x, In x l -> f x = []) -> flat_map f l = [].
Proof.
  induction l; simpl; intros H; [reflexivity|].
  rewrite (H a) by auto. simpl. apply IHl. intros x Hx. apply H. auto.
Qed.

Lemma cart_empty {A} (ls : list (list A)) : In [] ls -> forall acc, cart ls acc = [].
Proof.
  induction ls as [|l rest IH]; intros Hin acc; [destruct Hin|].
  simpl. destruct Hin as [->|Hin]; [reflexivity|].
  apply flat_map_nil. intros x _. apply IH. exact Hin.
Qed.

(* ------------------------------------------------------------------ pickValue *)
Lemma non_nulls_map l :
  map tok_value (filter (fun t => negb (tok_is_null t)) l) = non_nulls (map tok_value l).
Proof.
  unfold non_nulls, tok_is_null. induction l as [|t l IH]; simpl; [reflexivity|].
  destruct (is_null (tok_value t)); simpl; congruence.
Qed.

Lemma pick_first g l :
  option_map tok_value (sf_pick FirstNonNull (LTok g l)) = pick_value FirstNonNull (map tok_value l).
Proof.
  simpl. rewrite <- non_nulls_map.
  destruct (filter (fun t => negb (tok_is_null t)) l); reflexivity.
Qed.

Lemma pick_only g l :
  option_map tok_value (sf_pick OnlyNonNull (LTok g l)) = pick_value OnlyNonNull (map tok_value l).
Proof.
  simpl. rewrite <- non_nulls_map.
  destruct (filter (fun t => negb (tok_is_null t)) l) as [|x [|y r]]; reflexivity.
Qed.

Lemma pick_all g l :
  option_map tok_value (sf_pick AllNonNull (LTok g l)) = pick_value AllNonNull (map tok_value l).
Proof. simpl. rewrite non_nulls_map. reflexivity. Qed.

Lemma pick_any p g l :
  option_map tok_value (sf_pick p (LTok g l)) = pick_value p (map tok_value l).
Proof. destruct p; [apply pick_first | apply pick_only | apply pick_all]. Qed.

(* ------------------------------------------------------------------ merge_nested *)
Lemma tok_value_retag g t : tok_value (retag_tok g t) = tok_value t.
Proof. destruct t; reflexivity. Qed.
Lemma map_value_retag g l : map tok_value (map (retag_tok g) l) = map tok_value l.
Proof. rewrite map_map. apply map_ext. intros t. apply tok_value_retag. Qed.

Lemma merge_outputs_multi inputs : 2 <= length inputs ->
  merge_outputs inputs = map (retag_tok (merge_tag inputs)) inputs.
Proof.
  intros H. unfold merge_outputs. destruct inputs as [|a [|b r]]; simpl in H; try lia.
  destruct a; reflexivity.
Qed.

Lemma merge_nested_multi inputs :
  length inputs <> 1 ->
  tok_value (sf_list_merge false inputs) = merge_nested (map tok_value inputs).
Proof.
  intros H. destruct inputs as [|a [|b r]]; [reflexivity| simpl in H; lia |].
  unfold sf_list_merge. rewrite merge_outputs_multi by (simpl; lia).
  cbn [tok_value]. rewrite map_value_retag. reflexivity.
Qed.

Lemma merge_nested_single_scalar g v :
  tok_value (sf_list_merge false [Tok g v]) = merge_nested [v].
Proof. reflexivity. Qed.

(* a link with at least two sources and no flattening: combinator + pick / list-to-element chain *)
Lemma link_multi lm pv inputs :
  2 <= length inputs -> lm <> Some MergeFlattened ->
  option_map tok_value (sf_link lm pv inputs) = apply_pick pv (merge_sources lm (map tok_value inputs)).
Proof.
  intros Hlen Hlm.
  assert (Hm : sf_list_merge false inputs = LTok (merge_tag inputs) (map (retag_tok (merge_tag inputs)) inputs)).
  { unfold sf_list_merge. rewrite merge_outputs_multi by exact Hlen. reflexivity. }
  assert (Hs : merge_sources lm (map tok_value inputs) = VArr (map tok_value inputs)).
  { destruct inputs as [|a [|b r]]; simpl in Hlen; try lia.
    destruct lm as [[|]|]; try reflexivity. congruence. }
  rewrite Hs. unfold sf_link.
  replace (match lm with Some MergeFlattened => true | _ => false end) with false
    by (destruct lm as [[|]|]; try reflexivity; congruence).
  rewrite Hm. destruct pv as [p|]; simpl apply_pick.
  - rewrite pick_any, map_value_retag. reflexivity.
  - destruct lm as [[|]|]; try congruence.
    + cbn [option_map tok_value]. rewrite map_value_retag. reflexivity.
    + destruct inputs as [|a [|b r]]; simpl in Hlen; try lia.
      cbn [map sf_list_to_element option_map tok_value]. f_equal. f_equal.
      rewrite !tok_value_retag. f_equal. f_equal. apply map_value_retag.
Qed.

(* ------------------------------------------------------------------ merge_flattened *)
(* shallow: what build_token / GatherStep produce for values of type T or T[] with T not an array *)
Definition scalar_tok (t : tok) : bool :=
  match t with Tok _ (VArr _) => false | Tok _ _ => true | LTok _ _ => false end.
Definition shallow_tok (t : tok) : bool :=
  match t with Tok _ _ => scalar_tok t | LTok _ l => forallb scalar_tok l end.

Fixpoint keys_sorted (l : list tok) : bool :=
  match l with
  | [] => true
  | x :: l' => match l' with
               | [] => true
               | y :: _ => N.leb (tok_key x) (tok_key y) && keys_sorted l'
               end
  end.
Definition inner_sorted (t : tok) : bool := match t with LTok _ l => keys_sorted l | _ => true end.

Lemma insert_sorted x l :
  keys_sorted (x :: l) = true -> insert_tok x l = x :: l.
Proof.
  destruct l as [|y l]; [reflexivity|]. simpl. intros H.
  apply andb_prop in H. destruct H as [H _]. rewrite H. reflexivity.
Qed.

Lemma keys_sorted_tail x l : keys_sorted (x :: l) = true -> keys_sorted l = true.
Proof.
  destruct l as [|y l]; [reflexivity|]. simpl. intros H. apply andb_prop in H. apply H.
Qed.

Lemma sort_sorted l : keys_sorted l = true -> sort_toks l = l.
Proof.
  induction l as [|x l IH]; intros H; [reflexivity|].
  unfold sort_toks in *. simpl. rewrite IH by (eapply keys_sorted_tail; eauto).
  apply insert_sorted. exact H.
Qed.

Lemma flatten_scalars n l :
  forallb scalar_tok l = true -> keys_sorted l = true -> flatten_fuel (S n) l = l.
Proof.
  intros Hs Hk. simpl. rewrite sort_sorted by exact Hk.
  induction l as [|t l IH]; [reflexivity|].
  simpl in Hs. apply andb_prop in Hs. destruct Hs as [Ht Hl].
  simpl. destruct t; [|discriminate].
  simpl. f_equal. apply IH; [exact Hl|]. eapply keys_sorted_tail; eauto.
Qed.

Lemma flatten1_scalars l :
  forallb scalar_tok l = true -> flatten1 (map tok_value l) = map tok_value l.
Proof.
  induction l as [|t l IH]; intros H; [reflexivity|].
  simpl in H. apply andb_prop in H. destruct H as [Ht Hl].
  destruct t as [g v|g l']; [|discriminate]. simpl.
  destruct v; simpl; try (rewrite IH by exact Hl; reflexivity). discriminate.
Qed.

Lemma flatten_shallow d l :
  forallb shallow_tok l = true -> forallb inner_sorted l = true -> forest_depth l <= d ->
  map tok_value (flat_map (fun t => match t with
                                    | LTok _ l' => flatten_fuel d l'
                                    | Tok _ _ => [t]
                                    end) l)
  = flatten1 (map tok_value l).
Proof.
  induction l as [|t l IH]; intros Hs Hk Hd; [reflexivity|].
  simpl in Hs, Hk. apply andb_prop in Hs. destruct Hs as [Ht Hl].
  apply andb_prop in Hk. destruct Hk as [Hkt Hkl].
  change (forest_depth (t :: l)) with (Nat.max (tok_depth t) (forest_depth l)) in Hd.
  cbn [flat_map]. rewrite map_app, IH by (try assumption; lia).
  destruct t as [g v|g l'].
  - simpl. destruct v; try reflexivity. discriminate.
  - destruct d as [|d'].
    + exfalso. change (tok_depth (LTok g l')) with (S (forest_depth l')) in Hd. lia.
    + rewrite flatten_scalars by assumption. reflexivity.
Qed.

(* after the combinator's re-tagging all top-level keys are equal *)
Lemma keys_sorted_retag g : forall l, keys_sorted (map (retag_tok g) l) = true.
Proof.
  induction l as [|a l IH]; [reflexivity|]. destruct l as [|b l]; [reflexivity|].
  cbn [map keys_sorted] in *. rewrite IH. rewrite andb_true_r.
  assert (E : forall x, tok_key (retag_tok g x) = tok_key (Tok g VNull)) by (intros [? ?|? ?]; reflexivity).
  rewrite (E a), (E b). apply N.leb_refl.
Qed.
Lemma shallow_retag g t : shallow_tok (retag_tok g t) = shallow_tok t.
Proof. destruct t as [? v|? l]; [destruct v; reflexivity|reflexivity]. Qed.
Lemma inner_sorted_retag g t : inner_sorted (retag_tok g t) = inner_sorted t.
Proof. destruct t; reflexivity. Qed.
Lemma forallb_map_ext {A} (f g : A -> bool) (h : A -> A) l : (forall x, f (h x) = g x) -> forallb f (map h l) = forallb g l.
Proof. intros H. induction l; simpl; [reflexivity|]. rewrite H, IHl. reflexivity. Qed.
Lemma forest_depth_retag g l : forest_depth (map (retag_tok g) l) = forest_depth l.
Proof.
  unfold forest_depth. induction l as [|a l IH]; simpl; [reflexivity|]. rewrite IH.
  destruct a; reflexivity.
Qed.

(* merge_flattened of sources of type T / T[] (T not an array), each inner list in key order
   (the top-level list is re-tagged with one tag by the combinator, so it is always in key order) *)
Lemma merge_flattened_shallow inputs :
  forallb shallow_tok inputs = true -> forallb inner_sorted inputs = true ->
  tok_value (sf_list_merge true inputs) = merge_flattened (map tok_value inputs).
Proof.
  intros Hs Hi.
  destruct inputs as [|a [|b r]].
  - reflexivity.
  - (* a single source *)
    destruct a as [g v|g l].
    + simpl in Hs. rewrite andb_true_r in Hs.
      cbn. unfold merge_flattened. simpl. destruct v; try reflexivity. discriminate.
    + simpl in Hs, Hi. rewrite andb_true_r in Hs, Hi.
      unfold sf_list_merge, sf_flatten, merge_outputs. cbn [map retag_tok tok_value].
      rewrite flatten_scalars by assumption.
      unfold merge_flattened. simpl. rewrite app_nil_r. reflexivity.
  - (* several sources *)
    unfold sf_list_merge. rewrite merge_outputs_multi by (simpl; lia).
    set (g := merge_tag (a :: b :: r)). set (rts := map (retag_tok g) (a :: b :: r)).
    cbn [tok_value]. unfold merge_flattened. f_equal.
    unfold sf_flatten.
    change (flatten_fuel (S (forest_depth rts)) rts) with
      (flat_map (fun t => match t with
                          | LTok _ l' => flatten_fuel (forest_depth rts) l'
                          | Tok _ _ => [t]
                          end) (sort_toks rts)).
    rewrite sort_sorted by apply keys_sorted_retag.
    rewrite <- (map_value_retag g (a :: b :: r)). fold rts.
    apply flatten_shallow.
    + unfold rts. rewrite (forallb_map_ext shallow_tok shallow_tok); [exact Hs|apply shallow_retag].
    + unfold rts. rewrite (forallb_map_ext inner_sorted inner_sorted); [exact Hi|apply inner_sorted_retag].
    + lia.
Qed.

(* the same on the faithful (partial) operator: numeric tags => no ValueError, and the value is the spec's *)
Lemma merge_flattened_shallow_opt inputs :
  numeric_forest (merge_outputs inputs) = true ->
  forallb shallow_tok inputs = true -> forallb inner_sorted inputs = true ->
  exists out, sf_list_merge_opt true inputs = Some out /\
              tok_value out = merge_flattened (map tok_value inputs).
Proof.
  intros Hn Hs Hi. exists (sf_list_merge true inputs). split.
  - unfold sf_list_merge_opt. rewrite Hn. reflexivity.
  - apply merge_flattened_shallow; assumption.
Qed.

(* ------------------------------------------------------------------ empty scatter *)
Definition tok_elems (t : tok) : list value :=
  match t with LTok _ l => map tok_value l | Tok _ _ => [] end.
Definition all_lists (inputs : list tok) : bool :=
  forallb (fun t => match t with LTok _ _ => true | _ => false end) inputs.

Lemma some_empty inputs :
  all_lists inputs = true -> sf_scatter_nonempty inputs = false -> In [] (map tok_elems inputs).
Proof.
  induction inputs as [|t l IH]; simpl; intros Ha Hn; [discriminate|].
  apply andb_prop in Ha. destruct Ha as [Ht Hl].
  destruct t as [|g [|x r]]; try discriminate.
  - left. reflexivity.
  - right. apply IH; assumption.
Qed.

Lemma empty_scatter_flat inputs job :
  all_lists inputs = true -> sf_scatter_nonempty inputs = false ->
  spec_scatter_value FlatCross (map tok_elems inputs) job
  = Some (tok_value (sf_empty_scatter FlatCross inputs)).
Proof.
  intros Ha Hn. simpl. rewrite cart_empty by (apply some_empty; assumption). reflexivity.
Qed.

Lemma transpose_all_nil {A} (ls : list (list A)) :
  (forall l, In l ls -> l = []) -> transpose 0 ls = Some [].
Proof.
  intros H. simpl.
  replace (forallb (fun l : list A => match l with [] => true | _ => false end) ls) with true; [reflexivity|].
  symmetry. apply forallb_forall. intros l Hl. rewrite (H l Hl). reflexivity.
Qed.

(* dotproduct: StreamFlow's shortcut agrees with the spec when ALL scattered arrays are empty *)
Lemma empty_scatter_dot_all_empty inputs job :
  inputs <> [] ->
  (forall t, In t inputs -> exists g, t = LTok g []) ->
  spec_scatter_value Dot (map tok_elems inputs) job
  = Some (tok_value (sf_empty_scatter Dot inputs)).
Proof.
  intros Hne H. destruct inputs as [|t r]; [congruence|].
  assert (Hall : forall l, In l (map tok_elems (t :: r)) -> l = []).
  { intros l Hl. apply in_map_iff in Hl. destruct Hl as [x [<- Hx]].
    destruct (H x Hx) as [g ->]. reflexivity. }
  destruct (H t (or_introl eq_refl)) as [g ->].
  unfold spec_scatter_value, dot.
  change (map tok_elems (LTok g [] :: r)) with ((@nil value) :: map tok_elems r) in *.
  cbv beta iota. change (length (@nil value)) with 0.
  rewrite (transpose_all_nil _ Hall). reflexivity.
Qed.
