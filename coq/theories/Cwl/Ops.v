(* Cwl/Ops.v — models of StreamFlow's value-level CWL operators, as they are in /repo.
   Definitions only.

   ANCHORS:
     streamflow.cwl.combinator._flatten_token_list
     streamflow.cwl.combinator.ListMergeCombinator.combine       (the schema -> ListToken part; the
        dot-product matching of tags is C02's subject: here all inputs are present with one tag each)
     streamflow.cwl.transformer.FirstNonNullTransformer._transform
     streamflow.cwl.transformer.OnlyNonNullTransformer._transform
     streamflow.cwl.transformer.AllNonNullTransformer._transform
     streamflow.cwl.transformer.ListToElementTransformer._transform
     streamflow.cwl.step.CWLEmptyScatterConditionalStep._eval / _on_false
     streamflow.cwl.translator._create_list_merger               (which operators are chained: sf_link)
     streamflow.workflow.utils.get_token_value, streamflow.core.utils.get_tag (via Tags.Model.get_tag_s)

   Tokens: [Tok tag v] is a plain Token whose value is a JSON scalar (or any non-list value);
   [LTok tag l] is a ListToken.  ObjectToken / CWLFileToken are not modelled. *)
From Coq Require Import List Bool NArith ZArith Ascii.
From SF Require Import Base.Str Base.Dec Base.Corr Tags.Model Cwl.Sem.
Import ListNotations.
Local Open Scope string_scope. Local Open Scope list_scope.

Inductive tok :=
| Tok (tag : string) (v : value)
| LTok (tag : string) (l : list tok).

Definition tok_tag (t : tok) : string := match t with Tok g _ => g | LTok g _ => g end.

(* get_token_value *)
Fixpoint tok_value (t : tok) : value :=
  match t with
  | Tok _ v => v
  | LTok _ l => VArr (map tok_value l)
  end.

Fixpoint tok_eqb (a b : tok) {struct a} : bool :=
  match a, b with
  | Tok g v, Tok g' v' => String.eqb g g' && value_eqb v v'
  | LTok g l, LTok g' l' =>
      String.eqb g g' &&
      (fix go (x y : list tok) {struct x} : bool :=
         match x, y with
         | [], [] => true
         | u :: x', v :: y' => tok_eqb u v && go x' y'
         | _, _ => false
         end) l l'
  | _, _ => false
  end.

(* int(t.tag.split(".")[-1]).  Python raises ValueError when the last component is not a decimal number
   (tags "", "x", "0.y" — the tag '' really occurs: known finding scattered-subworkflow-independent-step);
   [tok_key] is totalised with 0 there, so every statement about [sf_flatten]/[sf_list_merge true] is about the
   real function only on forests whose tags satisfy [numeric_forest]; [sf_list_merge_opt] is the faithful,
   partial version (None = ValueError) and is what the correspondence checks. *)
Definition tok_key_opt (t : tok) : option N := undec (last (split_on "."%char (tok_tag t)) "").
Definition tok_key (t : tok) : N :=
  match tok_key_opt t with
  | Some n => n
  | None => 0%N
  end.

(* every token the flattening sorts (all levels) has a numeric last tag component *)
Fixpoint numeric_tok (t : tok) : bool :=
  match tok_key_opt t with
  | None => false
  | Some _ => match t with
              | Tok _ _ => true
              | LTok _ l => (fix go (l : list tok) : bool :=
                               match l with [] => true | x :: l' => numeric_tok x && go l' end) l
              end
  end.
Definition numeric_forest (l : list tok) : bool := forallb numeric_tok l.

(* sorted(outputs, key=...) is stable: an element goes before the first one whose key is >= its own,
   elements being inserted from the right *)
Fixpoint insert_tok (x : tok) (l : list tok) : list tok :=
  match l with
  | [] => [x]
  | y :: l' => if N.leb (tok_key x) (tok_key y) then x :: y :: l' else y :: insert_tok x l'
  end.
Definition sort_toks (l : list tok) : list tok := fold_right insert_tok [] l.

(* _flatten_token_list: sort by last tag component, then splice ListTokens recursively (all levels).
   The recursion is on the token tree below the sorted list, so it is written with fuel; [sf_flatten]
   supplies enough of it (depth of the forest). *)
Fixpoint flatten_fuel (n : nat) (l : list tok) : list tok :=
  match n with
  | O => []
  | S n' =>
      flat_map (fun t => match t with
                         | LTok _ l' => flatten_fuel n' l'
                         | Tok _ _ => [t]
                         end) (sort_toks l)
  end.

Fixpoint tok_depth (t : tok) : nat :=
  match t with
  | Tok _ _ => 0
  | LTok _ l => S (fold_right (fun x d => Nat.max (tok_depth x) d) 0 l)
  end.
Definition forest_depth (l : list tok) : nat := fold_right (fun x d => Nat.max (tok_depth x) d) 0 l.

Definition sf_flatten (l : list tok) : list tok := flatten_fuel (S (forest_depth l)) l.

(* Token.retag: own tag only *)
Definition retag_tok (g : string) (t : tok) : tok :=
  match t with Tok _ v => Tok g v | LTok _ l => LTok g l end.

(* the tokens of the schema DotProductCombinator._product yields: every input re-tagged get_tag of all of them;
   a single ListToken input is replaced by its elements (their own tags untouched) *)
Definition merge_tag (inputs : list tok) : string := get_tag_s (map tok_tag inputs).
Definition merge_outputs (inputs : list tok) : list tok :=
  match map (retag_tok (merge_tag inputs)) inputs with
  | [LTok _ l] => l
  | rts => rts
  end.

(* ListMergeCombinator.combine once every input has delivered its token (one token per port, as the
   dot product matches them); the output carries the common tag (get_tag of equal tags) *)
Definition sf_list_merge (flatten : bool) (inputs : list tok) : tok :=
  LTok (merge_tag inputs) (if flatten then sf_flatten (merge_outputs inputs) else merge_outputs inputs).

(* faithful version: None = ValueError raised by int() inside _flatten_token_list *)
Definition sf_list_merge_opt (flatten : bool) (inputs : list tok) : option tok :=
  if flatten && negb (numeric_forest (merge_outputs inputs)) then None
  else Some (sf_list_merge flatten inputs).

Definition tok_is_null (t : tok) : bool := is_null (tok_value t).

(* First/Only/AllNonNullTransformer._transform; None = WorkflowExecutionException *)
Definition sf_pick (p : pick) (t : tok) : option tok :=
  match t with
  | Tok _ _ => None                                          (* "Invalid value for token" *)
  | LTok g l =>
      match p with
      | FirstNonNull => match filter (fun t => negb (tok_is_null t)) l with
                        | x :: _ => Some x
                        | [] => None
                        end
      | OnlyNonNull => match filter (fun t => negb (tok_is_null t)) l with
                       | [x] => Some x
                       | _ => None
                       end
      | AllNonNull => Some (LTok g (filter (fun t => negb (tok_is_null t)) l))
      end
  end.

(* ListToElementTransformer._transform; None = WorkflowDefinitionException *)
Definition sf_list_to_element (t : tok) : option tok :=
  match t with
  | LTok _ [x] => Some x
  | LTok g l => Some (LTok g l)
  | Tok _ _ => None
  end.

(* _create_list_merger: the chain built for a link with sources [inputs] *)
Definition sf_link (lm : option linkmerge) (pv : option pick) (inputs : list tok) : option tok :=
  let merged := sf_list_merge (match lm with Some MergeFlattened => true | _ => false end) inputs in
  match pv with
  | Some p => sf_pick p merged
  | None => match lm with
            | None => sf_list_to_element merged
            | Some _ => Some merged
            end
  end.

(* CWLEmptyScatterConditionalStep._eval: all scatter inputs are non-empty ListTokens *)
Definition sf_scatter_nonempty (inputs : list tok) : bool :=
  forallb (fun t => match t with LTok _ (_ :: _) => true | _ => false end) inputs.

(* CWLEmptyScatterConditionalStep._on_false: the token put on every skip (= step output) port *)
Definition sf_empty_scatter (m : smethod) (inputs : list tok) : tok :=
  let tag := get_tag_s (map tok_tag inputs) in
  match m with
  | NestedCross => LTok tag (map (fun _ => LTok tag []) inputs)
  | _ => LTok tag []
  end.

(* ---- the specification's answer for a scatter whose job function is never needed --------------- *)
(* value of any output of a scattered step, by the spec, given the array lengths (Sem.eval_step with a
   job function returning [v] for that output); used to state what an "empty scatter" must produce *)
Definition spec_scatter_value (m : smethod) (arrays : list (list value)) (job : list value -> value)
  : option value :=
  match m with
  | Dot => match dot arrays with
           | Some rows => Some (VArr (map job rows))
           | None => None
           end
  | FlatCross => Some (VArr (map job (cart arrays [])))
  | NestedCross =>
      Some ((fix tv (t : ntree (list value)) : value :=
               match t with
               | Leaf r => job r
               | Node l => VArr (map tv l)
               end) (nest arrays []))
  end.
