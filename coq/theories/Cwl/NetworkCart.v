(* Cwl/NetworkCart.v — the token networks StreamFlow builds for flat_crossproduct and nested_crossproduct:
     n ScatterSteps -> CartesianProductCombinator(depth 1) -> per-combination job ->
        flat:   ONE GatherStep of depth n  (size = product of the lengths: CartesianProductSizeTransformer)
        nested: n chained GatherSteps of depth 1 (here n = 2)
   composed from Comb/Cart.v (C02_cartesian_partial) and Gather/ProofsD.v, Gather/Proofs.v (C01), imported unchanged.
   ANCHORS: streamflow.cwl.translator (scatter section: CartesianProductCombinator "-scatter-combinator",
            GatherStep "-gather" with depth=len(scatter_inputs) / "-gather-<port>" chain for nested_crossproduct). *)
From Coq Require Import List Ascii Bool NArith Arith Lia Permutation.
From SF Require Import Base.Str Base.Dec Tags.Model Tags.Proofs.
From SF Require Gather.Model Gather.Proofs Gather.ProofsD.
From SF Require Import Comb.Model Comb.Proofs Comb.Flat Comb.Cart.
From SF Require Cwl.Sem.
From SF Require Import Cwl.Network.
Import ListNotations.
Local Open Scope string_scope. Local Open Scope list_scope. Local Open Scope nat_scope.

Module GD := Gather.ProofsD.

(* ---------------------------------------------------------------- list facts *)
Lemma flat_map_map' {A B C} (f : A -> B) (g : B -> list C) l :
  flat_map g (map f l) = flat_map (fun x => g (f x)) l.
Proof. induction l; simpl; congruence. Qed.

Lemma map_flat_map {A B C} (f : B -> C) (g : A -> list B) l :
  map f (flat_map g l) = flat_map (fun x => map f (g x)) l.
Proof. induction l; simpl; [reflexivity|]. rewrite map_app. congruence. Qed.

(* Sem.cart with an accumulator is itertools.product (Comb.Model.cproduct) *)
Lemma cart_cproduct {A} : forall (ls : list (list A)) acc,
  Cwl.Sem.cart ls acc = map (fun c => rev acc ++ c) (cproduct ls).
Proof.
  induction ls as [|l r IH]; intros acc; simpl.
  - rewrite app_nil_r. reflexivity.
  - rewrite map_flat_map. apply flat_map_ext. intros x. rewrite IH, map_map.
    apply map_ext. intros c. simpl. rewrite <- app_assoc. reflexivity.
Qed.
Lemma cart_nil_cproduct {A} (ls : list (list A)) : Cwl.Sem.cart ls [] = cproduct ls.
Proof. rewrite cart_cproduct. simpl. apply map_id. Qed.

Section CartNet.
Variable items : list string.
Variable t : tag.
Variable jobp : list N -> string.
Hypothesis items_nodup : NoDup items.
Hypothesis items_ne : items <> [].
Hypothesis t_ne : t <> [].

Notation tg := (tg t).

(* per-port token lists, the same tokens as Network.scols lists *)
Fixpoint tls (ps : list string) (cols : list (list N)) : list (list arv) :=
  match ps, cols with
  | p :: ps', c :: cols' => col_arvs t p 0 c :: tls ps' cols'
  | _, _ => []
  end.

Lemma scols_concat : forall ps cols, scols t 0 ps cols = concat (tls ps cols).
Proof. induction ps as [|p ps IH]; intros [|c cols]; simpl; try reflexivity. rewrite IH. reflexivity. Qed.

(* index tuple, id tuple, choice — one entry per combination, row-major *)
Fixpoint ecol (p : string) (k : nat) (col : list N) : list (nat * N * arv) :=
  match col with
  | [] => []
  | x :: c => (k, x, (p, (x, tg k))) :: ecol p (S k) c
  end.
Fixpoint combos (ps : list string) (cols : list (list N)) : list (list N * list N * list arv) :=
  match ps, cols with
  | p :: ps', c :: cols' =>
      flat_map (fun e : nat * N * arv =>
                  map (fun tr : list N * list N * list arv =>
                         (N.of_nat (fst (fst e)) :: fst (fst tr), snd (fst e) :: snd (fst tr), snd e :: snd tr))
                      (combos ps' cols')) (ecol p 0 c)
  | _, _ => [([], [], [])]
  end.

Lemma ecol_arvs p : forall col k, map snd (ecol p k col) = col_arvs t p k col.
Proof. induction col as [|x c IH]; intros k; simpl; [reflexivity|]. rewrite IH. reflexivity. Qed.
Lemma ecol_ids p : forall col k, map (fun e : nat * N * arv => snd (fst e)) (ecol p k col) = col.
Proof. induction col as [|x c IH]; intros k; simpl; [reflexivity|]. rewrite IH. reflexivity. Qed.
Lemma ecol_idx p : forall col k, map (fun e : nat * N * arv => fst (fst e)) (ecol p k col) = seq k (length col).
Proof. induction col as [|x c IH]; intros k; simpl; [reflexivity|]. rewrite IH. reflexivity. Qed.

(* the three projections of [combos] *)
Lemma combos_choices : forall ps cols, length cols = length ps ->
  map (fun tr : list N * list N * list arv => snd tr) (combos ps cols) = cproduct (tls ps cols).
Proof.
  induction ps as [|p ps IH]; intros [|c cols] L; simpl in *; try discriminate; [reflexivity|].
  rewrite map_flat_map. rewrite <- (ecol_arvs p c 0), flat_map_map'.
  apply flat_map_ext. intros e. rewrite map_map. simpl. rewrite <- IH by lia. rewrite map_map. reflexivity.
Qed.

Lemma combos_ids : forall ps cols, length cols = length ps ->
  map (fun tr : list N * list N * list arv => snd (fst tr)) (combos ps cols) = cproduct cols.
Proof.
  induction ps as [|p ps IH]; intros [|c cols] L; simpl in *; try discriminate; [reflexivity|].
  rewrite map_flat_map. rewrite <- (ecol_ids p c 0) at 2. rewrite flat_map_map'.
  apply flat_map_ext. intros e. rewrite map_map. simpl. rewrite <- IH by lia. rewrite map_map. reflexivity.
Qed.

Lemma combos_idx : forall ps cols, length cols = length ps ->
  map (fun tr : list N * list N * list arv => fst (fst tr)) (combos ps cols) = GD.grid (map (@length N) cols).
Proof.
  induction ps as [|p ps IH]; intros [|c cols] L; simpl in *; try discriminate; [reflexivity|].
  rewrite map_flat_map. rewrite <- (ecol_idx p c 0), flat_map_map'.
  apply flat_map_ext. intros e. rewrite map_map. simpl. rewrite <- IH by lia. rewrite map_map. reflexivity.
Qed.

(* every entry is consistent: the choice lists, in port order, (port, (id, t.index)) *)
Definition zip3 (ps : list string) (is xs : list N) : list arv :=
  map (fun q : string * (N * N) => (fst q, (snd (snd q), render (t ++ [fst (snd q)]))))
      (List.combine ps (List.combine is xs)).

Lemma ecol_shape p : forall col k e, In e (ecol p k col) ->
  snd e = (p, (snd (fst e), tg (fst (fst e)))).
Proof.
  induction col as [|x c IH]; intros k e H; simpl in H; [destruct H|].
  destruct H as [<-|H]; [reflexivity|]. eapply IH. exact H.
Qed.

Lemma combos_shape : forall ps cols tr, length cols = length ps -> In tr (combos ps cols) ->
  length (fst (fst tr)) = length ps /\ length (snd (fst tr)) = length ps /\
  snd tr = zip3 ps (fst (fst tr)) (snd (fst tr)).
Proof.
  induction ps as [|p ps IH]; intros [|c cols] tr L H; simpl in *; try discriminate.
  - destruct H as [<-|[]]. repeat split.
  - apply in_flat_map in H. destruct H as [e [He H]]. apply in_map_iff in H. destruct H as [tr' [<- Htr']].
    destruct (IH cols tr' ltac:(lia) Htr') as (A & B & C). simpl. repeat split; try lia.
    unfold zip3. simpl. rewrite (ecol_shape p c 0 e He). unfold Network.tg. f_equal. exact C.
Qed.

(* ---- tags *)
Lemma render_app (a b : list N) : render (a ++ b) = join "." (map dec a ++ map dec b).
Proof. unfold render. rewrite map_app. reflexivity. Qed.

Lemma removelast_snoc {A} (l : list A) x : removelast (l ++ [x]) = l.
Proof. apply removelast_last. Qed.

Lemma gk_tg i : drop_last 1 (tg i) = render t.
Proof.
  unfold drop_last, Network.tg. rewrite split_render by (destruct t; discriminate).
  rewrite map_length, app_length. simpl. replace (length t + 1 - 1) with (length t) by lia.
  rewrite map_app, firstn_app, map_length, Nat.sub_diag. simpl. rewrite app_nil_r.
  rewrite <- (map_length dec t), firstn_all. reflexivity.
Qed.

(* mk_out of a consistent choice: every member re-tagged t ++ indices *)
Lemma zip3_suffix : forall ps is xs, length is = length ps -> length xs = length ps ->
  map (fun kt : arv => last_comp (snd (snd kt))) (zip3 ps is xs) = map dec is.
Proof.
  unfold zip3. induction ps as [|p ps IH]; intros [|i is] [|x xs] Li Lx; simpl in *; try discriminate; [reflexivity|].
  f_equal; [|apply IH; lia].
  unfold last_comp. rewrite split_render by (destruct t; discriminate). rewrite map_app. simpl. apply last_last.
Qed.

Lemma zip3_retag suf : forall ps is xs, length is = length ps -> length xs = length ps ->
  map (fun kt : arv => (fst kt, (fst (snd kt), join "." (removelast (split_on "." (snd (snd kt))) ++ suf))))
      (zip3 ps is xs)
  = map (fun pi : string * N => (fst pi, (snd pi, join "." (map dec t ++ suf)))) (List.combine ps xs).
Proof.
  unfold zip3. induction ps as [|p ps IH]; intros [|i is] [|x xs] Li Lx; simpl in *; try discriminate; [reflexivity|].
  f_equal; [|apply IH; lia].
  rewrite split_render by (destruct t; discriminate). rewrite map_app. simpl. rewrite removelast_snoc. reflexivity.
Qed.

Lemma mk_out_zip3 ps is xs : length is = length ps -> length xs = length ps ->
  mk_out (zip3 ps is xs) =
  map (fun pi : string * N => (fst pi, (snd pi, render (t ++ is)))) (List.combine ps xs).
Proof.
  intros Li Lx. unfold mk_out. cbv zeta. rewrite zip3_suffix by assumption.
  rewrite zip3_retag by assumption. rewrite render_app. reflexivity.
Qed.

(* ---- the job on a combination *)
Lemma render_long (is : list N) : is <> [] -> 1 < String.length (render (t ++ is)).
Proof.
  intros Hne. destruct (exists_last Hne) as [l [x ->]]. rewrite app_assoc.
  rewrite <- (N2Nat.id x). apply (tg_long items (t ++ l)). destruct t; [congruence|discriminate].
Qed.

Lemma exec_combo_tr cols tr : length cols = length items -> In tr (combos items cols) ->
  exec items jobp (mk_out (snd tr)) = G.Tok (render (t ++ fst (fst tr))) (jobp (snd (fst tr))).
Proof.
  intros L H. destruct (combos_shape items cols tr L H) as (A & B & C).
  rewrite C, mk_out_zip3 by assumption. unfold exec.
  set (R := render (t ++ fst (fst tr))).
  assert (Hn : 1 <= length items) by (destruct items; [congruence|simpl; lia]).
  assert (Htags' : map (fun kv : string * tok => snd (snd kv))
                      (map (fun pi : string * N => (fst pi, (snd pi, R))) (List.combine items (snd (fst tr))))
                  = repeat R (length items)).
  { rewrite map_map. simpl.
    assert (Lc : length (List.combine items (snd (fst tr))) = length items) by (rewrite combine_length; lia).
    rewrite <- Lc. generalize (List.combine items (snd (fst tr))). intros l. induction l; simpl; congruence. }
  rewrite Htags', get_tag_repeat; [| |exact Hn].
  - f_equal. f_equal. unfold sch_ids. apply ids_generic; [exact items_nodup|exact B].
  - apply render_long. intros E. rewrite E in A. simpl in A. lia.
Qed.

(* ---- the scattered tokens are a well-formed input of the cartesian combinator (depth 1) *)
Lemma col_in p : forall col k x, In x (col_arvs t p k col) -> fst x = p /\ exists i, atag x = tg i.
Proof.
  induction col as [|y c IH]; intros k x H; simpl in H; [destruct H|].
  destruct H as [<-|H]; [split; [reflexivity|exists k; reflexivity]|]. eapply IH. exact H.
Qed.

Lemma col_akeys p : forall col k,
  map akey (col_arvs t p k col) = map (fun i => (p, tg i)) (seq k (length col)).
Proof. induction col as [|y c IH]; intros k; simpl; [reflexivity|]. rewrite IH. reflexivity. Qed.

Lemma col_nodup_keys p col k : NoDup (map akey (col_arvs t p k col)).
Proof.
  rewrite col_akeys. apply FinFun.Injective_map_NoDup; [|apply seq_NoDup].
  intros a b E. inversion E as [E']. apply (tg_inj items t t_ne) in E'. exact E'.
Qed.

Lemma col_nodup p col k : NoDup (col_arvs t p k col).
Proof. eapply NoDup_map_inv. apply col_nodup_keys. Qed.

Lemma tls_in : forall ps cols x, In x (concat (tls ps cols)) -> In (fst x) ps /\ exists i, atag x = tg i.
Proof.
  induction ps as [|p ps IH]; intros [|c cols] x H; simpl in H; try destruct H.
  apply in_app_iff in H. destruct H as [H|H].
  - destruct (col_in p c 0 x H) as [E I]. split; [left; auto|exact I].
  - destruct (IH cols x H) as [E I]. split; [right; exact E|exact I].
Qed.

Lemma tls_nodup_keys : forall ps cols, NoDup ps -> NoDup (map akey (concat (tls ps cols))).
Proof.
  induction ps as [|p ps IH]; intros [|c cols] ND; simpl; try constructor.
  inversion ND as [|? ? Hn ND']; subst. rewrite map_app. apply NoDup_app_intro.
  - apply col_nodup_keys.
  - apply IH. exact ND'.
  - intros k H1 H2. apply in_map_iff in H1. destruct H1 as [a [<- Ha]].
    apply in_map_iff in H2. destruct H2 as [b [Eb Hb]]. unfold akey in Eb. inversion Eb as [[Ep Et]].
    destruct (col_in p c 0 a Ha) as [Pa _]. destruct (tls_in ps cols b Hb) as [Pb _]. congruence.
Qed.

Lemma tls_all_nodup : forall ps cols, Forall (@NoDup arv) (tls ps cols).
Proof.
  induction ps as [|p ps IH]; intros [|c cols]; simpl; try apply Forall_nil.
  apply Forall_cons; [apply col_nodup|apply IH].
Qed.

Lemma tls_wfc cols : wfc items 1 (concat (tls items cols)).
Proof.
  split; [exact items_nodup|]. split; [|split].
  - intros x Hx. apply (tls_in items cols x Hx).
  - apply tls_nodup_keys. exact items_nodup.
  - intros x y Hx Hy Hne. exfalso. apply Hne. unfold gk.
    destruct (tls_in _ _ _ Hx) as [_ [i ->]]. destruct (tls_in _ _ _ Hy) as [_ [j ->]].
    rewrite !gk_tg. reflexivity.
Qed.

(* ---- choices = itertools.product of the per-port token lists *)
Lemma forall2_choice : forall ps cols ch, NoDup ps -> length cols = length ps ->
  (Forall2 (fun (x : arv) l => In x l) ch (tls ps cols) <->
   map fst ch = ps /\ forall y, In y ch -> In y (concat (tls ps cols))).
Proof.
  induction ps as [|p ps IH]; intros [|c cols] ch ND L; simpl in L; try discriminate.
  - simpl. split.
    + intros H. inversion H. split; [reflexivity|intros y []].
    + intros [H _]. destruct ch; [constructor|discriminate].
  - inversion ND as [|? ? Hn ND']; subst. simpl. split.
    + intros H. inversion H as [|y l ch' ls Hy Hrest]; subst.
      destruct (proj1 (IH cols ch' ND' ltac:(lia)) Hrest) as [Hp Hin].
      destruct (col_in p c 0 y Hy) as [Py _]. split; [simpl; congruence|].
      intros z [<-|Hz]; apply in_app_iff; [left; exact Hy|right; apply Hin; exact Hz].
    + intros [Hp Hin]. destruct ch as [|y ch']; [discriminate|]. simpl in Hp. assert (Py : fst y = p) by congruence. assert (Pch : map fst ch' = ps) by congruence.
      constructor.
      * specialize (Hin y (or_introl eq_refl)). apply in_app_iff in Hin. destruct Hin as [H|H]; [exact H|].
        exfalso. apply Hn. rewrite <- Py. apply (tls_in ps cols y H).
      * apply (IH cols ch' ND' ltac:(lia)). split; [exact Pch|].
        intros z Hz. specialize (Hin z (or_intror Hz)). apply in_app_iff in Hin. destruct Hin as [H|H]; [|exact H].
        exfalso. destruct (col_in p c 0 z H) as [Pz _]. apply Hn. rewrite <- Pz, <- Pch. apply in_map. exact Hz.
Qed.

Lemma choice_iff cols arr ch : length cols = length items ->
  Permutation arr (concat (tls items cols)) ->
  (is_choice items 1 arr ch <-> In ch (cproduct (tls items cols))).
Proof.
  intros L P. rewrite in_cproduct, (forall2_choice items cols ch items_nodup L). unfold is_choice. split.
  - intros (A & B & _). split; [exact A|]. intros y Hy. eapply Permutation_in; [exact P|]. apply B. exact Hy.
  - intros (A & B). split; [exact A|]. split.
    + intros y Hy. eapply Permutation_in; [apply Permutation_sym; exact P|]. apply B. exact Hy.
    + intros y z Hy Hz. unfold gk.
      destruct (tls_in _ _ _ (B y Hy)) as [_ [i ->]]. destruct (tls_in _ _ _ (B z Hz)) as [_ [j ->]].
      rewrite !gk_tg. reflexivity.
Qed.

(* expected job outputs, row-major: index tuple s (in grid order), payload jobp of the ids *)
Definition eflat (cols : list (list N)) : list G.tok :=
  map (fun tr : list N * list N * list arv => G.Tok (render (t ++ fst (fst tr))) (jobp (snd (fst tr))))
      (combos items cols).

Lemma one_ne_zero : 1 <> 0. Proof. discriminate. Qed.

(* ---- the combinator: whatever the arrival order, exactly one job per index tuple, on the right ids *)
Lemma cart_jobs cols arr : length cols = length items ->
  Permutation arr (scols t 0 items cols) ->
  snd (run (cc items 1) init_state arr) = None /\
  Permutation (map (exec items jobp) (concat (fst (run (cc items 1) init_state arr)))) (eflat cols).
Proof.
  intros L P. rewrite scols_concat in P.
  assert (W : wfc items 1 arr) by (eapply wfc_perm; [apply Permutation_sym; exact P|apply tls_wfc]).
  destruct (cart_full items 1 one_ne_zero arr items_ne W) as (R & ND & M).
  rewrite R. simpl. split; [reflexivity|].
  rewrite <- concat_map, map_map.
  assert (PC : Permutation (concat (ems items 1 [] arr)) (cproduct (tls items cols))).
  { apply NoDup_Permutation; [exact ND| |].
    - apply NoDup_cproduct. apply tls_all_nodup.
    - intros ch. rewrite M. apply choice_iff; assumption. }
  eapply Permutation_trans; [apply Permutation_map; exact PC|].
  rewrite <- (combos_choices items cols L), map_map. unfold eflat.
  erewrite map_ext_in; [apply Permutation_refl|].
  intros tr Htr. apply exec_combo_tr with (cols := cols); assumption.
Qed.

(* ---- FLAT_CROSSPRODUCT: one GatherStep of depth n *)
Lemma eflat_tags cols : length cols = length items ->
  map G.tag_of (eflat cols) = map (fun s => render (t ++ s)) (GD.grid (map (@length N) cols)).
Proof.
  intros L. unfold eflat. rewrite map_map. simpl. rewrite <- (combos_idx items cols L), map_map. reflexivity.
Qed.

Lemma eflat_payloads cols : length cols = length items ->
  map (fun x => match x with G.Tok _ v => v | G.ListTok _ _ => "" end) (eflat cols) = map jobp (Cwl.Sem.cart cols []).
Proof.
  intros L. unfold eflat. rewrite map_map. simpl. rewrite cart_nil_cproduct, <- (combos_ids items cols L), map_map.
  reflexivity.
Qed.

Theorem scatter_network_flat cols arr l1 l2 p1 p2 :
  length cols = length items ->
  (* any arrival order of the scattered elements at the CartesianProductCombinator *)
  Permutation arr (scols t 0 items cols) ->
  let res := run (cc items 1) init_state arr in
  (* the size token (CartesianProductSizeTransformer: the product of the lengths) and the job outputs, in any
     order and any legal interleaving with the two termination tokens, at the ONE gather of depth n *)
  Permutation (l1 ++ l2)
    (G.OnSize (render t) (N.of_nat (fold_right Nat.mul 1 (map (@length N) cols)))
     :: map G.OnElem (map (exec items jobp) (concat (fst res)))) ->
  p1 <> p2 -> (forall a, In a l2 -> G.port_of a <> p1) ->
  let s := G.gather_run (length items) (l1 ++ G.OnTerm p1 G.Completed :: l2 ++ [G.OnTerm p2 G.Completed]) in
  snd res = None /\
  G.gout (G.gd s) = [G.ListTok (render t) (eflat cols)] /\ G.gfinal s = Some G.Completed /\
  map (fun x => match x with G.Tok _ v => v | G.ListTok _ _ => "" end) (eflat cols) = map jobp (Cwl.Sem.cart cols []).
Proof.
  intros L P res Hg Hne Hl2 s.
  destruct (cart_jobs cols arr L P) as [Hnone Hjobs]. fold res in Hnone, Hjobs.
  split; [exact Hnone|].
  assert (Hd : map (@length N) cols <> []) by (destruct cols; [destruct items; [congruence|discriminate]|discriminate]).
  pose proof (GD.gather_depth_d_grid (map (@length N) cols) t (eflat cols) l1 l2 p1 p2 Hd t_ne (eflat_tags cols L)) as G.
  rewrite map_length, L in G.
  destruct G as [G1 G2]; auto.
  - eapply Permutation_trans; [exact Hg|]. apply perm_skip. apply Permutation_map. exact Hjobs.
  - split; [exact G1|]. split; [exact G2|]. apply eflat_payloads. exact L.
Qed.

End CartNet.

(* ---------------------------------------------------------------- NESTED_CROSSPRODUCT, two scattered inputs:
   CartesianProductCombinator -> job -> GatherStep(depth 1) keyed t.i (sizes |c2|) -> GatherStep(depth 1) keyed t *)
Lemma flat_map_single {A B} (h : A -> B) l : flat_map (fun x => [h x]) l = map h l.
Proof. induction l; simpl; congruence. Qed.

Section Nested2.
Variables p q : string.
Variable t : tag.
Variable jobp : list N -> string.
Hypothesis pq : p <> q.
Hypothesis t_ne : t <> [].
Variables c1 c2 : list N.

Let items := [p; q].
Lemma items_nodup2 : NoDup items.
Proof. unfold items. constructor; [simpl; intuition congruence|]. constructor; [simpl; tauto|constructor]. Qed.
Lemma items_ne2 : items <> []. Proof. discriminate. Qed.

(* results of row i (element x of the first array): one per element of the second array, tagged t.i.j *)
Definition nrow (i : nat) (x : N) : list G.tok :=
  map (fun e' : nat * N * arv => G.Tok (render (t ++ [N.of_nat i; N.of_nat (fst (fst e'))])) (jobp [x; snd (fst e')]))
      (ecol t q 0 c2).
Definition ness_from (k : nat) (col : list N) : list (list G.tok) :=
  map (fun e : nat * N * arv => nrow (fst (fst e)) (snd (fst e))) (ecol t p k col).
Definition ness : list (list G.tok) := ness_from 0 c1.

Lemma eflat_ness : eflat items t jobp [c1; c2] = concat ness.
Proof.
  unfold eflat, ness, ness_from, items. cbn [combos]. rewrite map_flat_map, flat_map_concat_map. f_equal.
  apply map_ext. intros e. rewrite map_map. unfold nrow. cbn [map].
  rewrite flat_map_single, map_map. apply map_ext. intros e'. reflexivity.
Qed.

Lemma nrow_length i x : length (nrow i x) = length c2.
Proof. unfold nrow. rewrite map_length, <- (map_length (fun e : nat * N * arv => fst (fst e))), ecol_idx, seq_length. reflexivity. Qed.

Lemma nrow_ok i x : GP.elems_ok (t ++ [N.of_nat i]) (nrow i x).
Proof.
  unfold GP.elems_ok, GP.tags_from. rewrite nrow_length. unfold nrow. rewrite map_map. simpl.
  rewrite <- (ecol_idx t q c2 0), map_map. apply map_ext. intros e'. rewrite <- app_assoc. reflexivity.
Qed.

Lemma ness_insts_ok : forall col k, Forall GP.inst_ok (GP.inner_insts t k (ness_from k col)).
Proof.
  induction col as [|x c IH]; intros k; simpl; constructor.
  - split; [simpl; destruct t; discriminate|]. simpl. apply nrow_ok.
  - apply IH.
Qed.

Lemma ness_length : forall col k, length (ness_from k col) = length col.
Proof. intros col k. unfold ness_from. rewrite map_length, <- (map_length (fun e : nat * N * arv => fst (fst e))), ecol_idx, seq_length. reflexivity. Qed.

(* size tokens of the inner gather: one per element of the first array, carrying |c2| *)
Definition nsizes (k n : nat) : list G.garr :=
  map (fun i => G.OnSize (render (t ++ [N.of_nat i])) (N.of_nat (length c2))) (seq k n).

Lemma ness_arrivals : forall col k,
  Permutation (nsizes k (length col) ++ map G.OnElem (concat (ness_from k col)))
              (GP.all_arrivals (GP.inner_insts t k (ness_from k col))).
Proof.
  induction col as [|x c IH]; intros k; [apply Permutation_refl|].
  unfold GP.all_arrivals in *. cbn [length nsizes seq map ness_from ecol GP.inner_insts concat].
  fold (nsizes (S k) (length c)). fold (ness_from (S k) c).
  unfold GP.iarr at 1. unfold GP.inst_arrivals, GP.ikey. cbn [fst snd]. rewrite nrow_length.
  cbn [app]. apply perm_skip. rewrite map_app.
  eapply Permutation_trans; [|apply Permutation_app_head; apply IH].
  rewrite !app_assoc. apply Permutation_app_tail. apply Permutation_app_comm.
Qed.

Theorem scatter_network_nested2 arr l1 l2 p1 p2 m1 m2 q1 q2 :
  Permutation arr (scols t 0 items [c1; c2]) ->
  let res := run (cc items 1) init_state arr in
  (* inner gather: the |c1| size tokens t.i (each |c2|) and the job outputs, any legal order *)
  Permutation (l1 ++ l2) (nsizes 0 (length c1) ++ map G.OnElem (map (exec items jobp) (concat (fst res)))) ->
  p1 <> p2 -> (forall a, In a l2 -> G.port_of a <> p1) ->
  let s_in := G.gather_run 1 (l1 ++ G.OnTerm p1 G.Completed :: l2 ++ [G.OnTerm p2 G.Completed]) in
  (* outer gather: the size token t (|c1|) and whatever the inner gather emitted, any legal order *)
  Permutation (m1 ++ m2) (G.OnSize (render t) (N.of_nat (length c1)) :: map G.OnElem (G.gout (G.gd s_in))) ->
  q1 <> q2 -> (forall a, In a m2 -> G.port_of a <> q1) ->
  let s_out := G.gather_run 1 (m1 ++ G.OnTerm q1 G.Completed :: m2 ++ [G.OnTerm q2 G.Completed]) in
  snd res = None /\
  G.gout (G.gd s_out) = [G.ListTok (render t) (GP.expected_out (GP.inner_insts t 0 ness))] /\
  G.gfinal s_out = Some G.Completed /\
  map (map (fun x => match x with G.Tok _ v => v | G.ListTok _ _ => "" end)) ness
  = map (fun x => map (fun y => jobp [x; y]) c2) c1.
Proof.
  intros P res Hin Hne Hl2 s_in Hout Hqne Hm2 s_out.
  destruct (cart_jobs items t jobp items_nodup2 items_ne2 t_ne [c1; c2] arr eq_refl P) as [Hnone Hjobs].
  fold res in Hnone, Hjobs. rewrite eflat_ness in Hjobs.
  split; [exact Hnone|].
  set (insts := GP.inner_insts t 0 ness).
  assert (Hok : Forall GP.inst_ok insts) by apply ness_insts_ok.
  assert (Hnd : NoDup (map GP.ikey insts)) by (apply GP.inner_insts_nodup; exact t_ne).
  assert (Harr : Permutation (l1 ++ l2) (GP.all_arrivals insts)).
  { eapply Permutation_trans; [exact Hin|].
    eapply Permutation_trans; [|apply ness_arrivals].
    apply Permutation_app_head. apply Permutation_map. exact Hjobs. }
  destruct (GP.gather_many_perm insts l1 l2 p1 p2 Hok Hnd Harr Hne Hl2) as [Gin _]. fold s_in in Gin.
  assert (Heok : GP.elems_ok t (GP.expected_out insts)).
  { unfold GP.elems_ok, GP.tags_from, GP.expected_out. rewrite map_map, map_length. simpl.
    change (map (fun x : GP.inst => GP.ikey x) insts) with (map GP.ikey insts).
    unfold insts. rewrite GP.inner_insts_keys by exact t_ne.
    replace (length (GP.inner_insts t 0 ness)) with (length ness); [reflexivity|].
    clear. generalize 0. induction ness; intros k; simpl; auto. }
  assert (Hlen : length (GP.expected_out insts) = length c1).
  { unfold GP.expected_out, insts. rewrite map_length.
    transitivity (length ness); [clear; generalize 0; induction ness; intros k; simpl; auto|apply ness_length]. }
  destruct (GP.gather_one t (GP.expected_out insts) m1 m2 q1 q2 t_ne Heok) as [G1 G2]; auto.
  { unfold GP.inst_arrivals. rewrite Hlen. eapply Permutation_trans; [exact Hout|].
    apply perm_skip. apply Permutation_map. exact Gin. }
  split; [exact G1|]. split; [exact G2|].
  unfold ness, ness_from. rewrite map_map. rewrite <- (ecol_ids t p c1 0) at 2. rewrite map_map.
  apply map_ext. intros e. unfold nrow. rewrite map_map. simpl.
  rewrite <- (ecol_ids t q c2 0) at 2. rewrite map_map. reflexivity.
Qed.

End Nested2.
