(* Cwl/Sem.v — a reference interpreter for a mini-CWL, written from the CWL v1.2 Workflow text
   (WorkflowStepInput: source / linkMerge / pickValue / default / valueFrom; scatter + scatterMethod;
   when; subworkflows), with the reference runner (cwltool: workflow_job.object_from_state,
   match_types, postScatterEval, dotproduct/flat/nested scatter builders) consulted where the text
   is silent (order: merge -> pickValue (only on arrays) -> default (on null) -> scatter -> valueFrom -> when).
   Definitions only.  This file is a SPECIFICATION interpreter, not a model of StreamFlow: StreamFlow's
   value-level operators are modelled in Cwl/Ops.v.

   Not covered (stated in design/notes/C29.md): File/Directory values, CommandLineTools, loops,
   JavaScript beyond the fixed tool/condition/valueFrom library, static type checking. *)
From Coq Require Import List Bool NArith ZArith Ascii.
From SF Require Import Base.Str Base.Dec Base.Corr.
Import ListNotations.
Local Open Scope string_scope. Local Open Scope list_scope.

(* ---------------------------------------------------------------- values *)
Inductive value :=
| VNull
| VInt (z : Z)
| VStr (s : string)
| VBool (b : bool)
| VArr (l : list value)
| VRec (l : list (string * value)).     (* fields in the order the harness canonicalises: sorted by key *)

Fixpoint value_eqb (a b : value) {struct a} : bool :=
  match a, b with
  | VNull, VNull => true
  | VInt x, VInt y => Z.eqb x y
  | VStr x, VStr y => String.eqb x y
  | VBool x, VBool y => Bool.eqb x y
  | VArr x, VArr y =>
      (fix go (x y : list value) {struct x} : bool :=
         match x, y with
         | [], [] => true
         | u :: x', v :: y' => value_eqb u v && go x' y'
         | _, _ => false
         end) x y
  | VRec x, VRec y =>
      (fix go (x y : list (string * value)) {struct x} : bool :=
         match x, y with
         | [], [] => true
         | (k, u) :: x', (k', v) :: y' => String.eqb k k' && value_eqb u v && go x' y'
         | _, _ => false
         end) x y
  | _, _ => false
  end.

Definition obj := list (string * value).

Fixpoint lookup (k : string) (o : obj) : option value :=
  match o with
  | [] => None
  | (k', v) :: o' => if String.eqb k k' then Some v else lookup k o'
  end.

Fixpoint set_key (k : string) (v : value) (o : obj) : obj :=
  match o with
  | [] => [(k, v)]
  | (k', v') :: o' => if String.eqb k k' then (k, v) :: o' else (k', v') :: set_key k v o'
  end.

Definition is_null (v : value) : bool := match v with VNull => true | _ => false end.

Fixpoint mapM {A B} (f : A -> option B) (l : list A) : option (list B) :=
  match l with
  | [] => Some []
  | x :: l' => match f x with
               | None => None
               | Some y => match mapM f l' with None => None | Some ys => Some (y :: ys) end
               end
  end.

(* ---------------------------------------------------------------- link resolution (the spec) *)
Inductive linkmerge := MergeNested | MergeFlattened.
Inductive pick := FirstNonNull | OnlyNonNull | AllNonNull.

Definition merge_nested (vs : list value) : value := VArr vs.

Fixpoint flatten1 (vs : list value) : list value :=
  match vs with
  | [] => []
  | VArr l :: vs' => l ++ flatten1 vs'
  | v :: vs' => v :: flatten1 vs'
  end.
Definition merge_flattened (vs : list value) : value := VArr (flatten1 vs).

Definition non_nulls (l : list value) : list value := filter (fun v => negb (is_null v)) l.

(* None = the workflow fails *)
Definition pick_value (p : pick) (l : list value) : option value :=
  match p with
  | FirstNonNull => match non_nulls l with v :: _ => Some v | [] => None end
  | OnlyNonNull => match non_nulls l with [v] => Some v | _ => None end
  | AllNonNull => Some (VArr (non_nulls l))
  end.

Definition apply_pick (p : option pick) (v : value) : option value :=
  match p, v with
  | Some p, VArr l => pick_value p l
  | _, _ => Some v
  end.

(* sources already looked up; [lm] as written in the document *)
Definition merge_sources (lm : option linkmerge) (vs : list value) : value :=
  match lm, vs with
  | Some MergeNested, _ => merge_nested vs
  | Some MergeFlattened, _ => merge_flattened vs
  | None, [v] => v
  | None, [] => VNull
  | None, _ => merge_nested vs       (* several sources: merge_nested is the default *)
  end.

Definition apply_default (d : option value) (v : value) : value :=
  match v, d with
  | VNull, Some dv => dv
  | _, _ => v
  end.

Definition resolve (lm : option linkmerge) (pv : option pick) (d : option value) (vs : list value)
  : option value :=
  match apply_pick pv (merge_sources lm vs) with
  | Some v => Some (apply_default d v)
  | None => None
  end.

(* ---------------------------------------------------------------- the tool library *)
Inductive tool := TAdd | TCat | TShow | TRange | TSum | TLen | TMaybe | TPair | TId | TMkRec | TGetX | TTwo | TPos
  (* File values: a File is the record {basename, class = "File", contents} (locations, size and checksum are derived
     and checked by the harness).  TMkFile is an ExpressionTool returning a file literal; TCCat (cat f > name),
     TCCp (cp f name) and TCWc (wc -c < f) are CommandLineTools; TFContents is an ExpressionTool with loadContents *)
  | TMkFile (name : string) | TCCat (name : string) | TCCp (name : string) | TCWc | TFContents.

Definition mk_file (name contents : string) : value :=
  VRec [("basename", VStr name); ("class", VStr "File"); ("contents", VStr contents)].
Definition file_contents (v : value) : option string :=
  match v with
  | VRec r => match lookup "class" r, lookup "contents" r with
              | Some (VStr "File"), Some (VStr c) => Some c
              | _, _ => None
              end
  | _ => None
  end.

Definition show_Z (z : Z) : string :=
  match z with
  | Z0 => "0"
  | Zpos p => dec (Npos p)
  | Zneg p => String.append "-" (dec (Npos p))
  end.

Fixpoint range_from (n : nat) (start : Z) : list value :=
  match n with
  | O => []
  | S n' => VInt start :: range_from n' (start + 1)
  end.

Fixpoint sum_ints (l : list value) : option Z :=
  match l with
  | [] => Some 0%Z
  | VInt z :: l' => match sum_ints l' with Some s => Some (z + s)%Z | None => None end
  | _ :: _ => None
  end.

(* a tool reads only its own inputs; an input of the wrong type makes the job fail (both runners
   validate the job object against the declared types) *)
Definition run_tool (t : tool) (i : obj) : option obj :=
  let a := lookup "a" i in
  let b := lookup "b" i in
  match t with
  | TAdd => match a, b with Some (VInt x), Some (VInt y) => Some [("o", VInt (x + y))] | _, _ => None end
  | TCat => match a, b with Some (VStr x), Some (VStr y) => Some [("o", VStr (String.append x y))] | _, _ => None end
  | TShow => match a with Some (VInt x) => Some [("o", VStr (show_Z x))] | _ => None end
  | TRange => match a with Some (VInt x) => Some [("o", VArr (range_from (Z.to_nat x) 0))] | _ => None end
  | TSum => match a with
            | Some (VArr l) => match sum_ints l with Some s => Some [("o", VInt s)] | None => None end
            | _ => None end
  | TLen => match a with Some (VArr l) => Some [("o", VInt (Z.of_nat (length l)))] | _ => None end
  | TMaybe => match a with
              | Some (VInt x) => Some [("o", if Z.even x then VInt x else VNull)]
              | _ => None end
  | TPair => match a, b with Some x, Some y => Some [("o", VArr [x; y])] | _, _ => None end
  | TId => match a with Some x => Some [("o", x)] | None => None end
  | TMkRec => match a, b with
              | Some (VInt x), Some (VStr y) => Some [("o", VRec [("x", VInt x); ("y", VStr y)])]
              | _, _ => None end
  | TGetX => match a with
             | Some (VRec r) => match lookup "x" r with Some v => Some [("o", v)] | None => None end
             | _ => None end
  | TTwo => match a with
            | Some (VInt x) => Some [("o", VInt (x * 2)); ("p", VBool (0 <? x)%Z)]
            | _ => None end
  | TPos => match a with
            | Some (VInt x) => if (x <? 0)%Z then None else Some [("o", VInt x)]
            | _ => None end
  | TMkFile n => match b with Some (VStr c) => Some [("o", mk_file n c)] | _ => None end
  | TCCat n => match a with
               | Some f => match file_contents f with Some c => Some [("o", mk_file n c)] | None => None end
               | None => None end
  | TCCp n => match a with
              | Some f => match file_contents f with Some c => Some [("o", mk_file n c)] | None => None end
              | None => None end
  | TCWc => match a with
            | Some f => match file_contents f with
                        | Some c => Some [("o", VInt (Z.of_nat (String.length c)))]
                        | None => None end
            | None => None end
  | TFContents => match a with
                  | Some f => match file_contents f with Some c => Some [("o", VStr c)] | None => None end
                  | None => None end
  end.

(* ---------------------------------------------------------------- programs *)
Inductive vfrom := VFSelf | VFSelfPlus (k : Z) | VFInput (n : string) | VFConst (v : value).
Inductive cond := CGt (n : string) (k : Z) | CBool (n : string) | CNonNull (n : string) | CRaw (n : string)
  | CLt (n : string) (k : Z).        (* inputs.n < k : the loopWhen form *)
Inductive smethod := Dot | NestedCross | FlatCross.

Record link := {
  l_id : string;
  l_src : list string;            (* "x" = workflow input, "step/out" = step output *)
  l_lm : option linkmerge;
  l_pv : option pick;
  l_default : option value;
  l_vf : option vfrom }.

Inductive wf := Wf (inputs : list (string * option value)) (steps : list step) (outputs : list link)
with step := Step (id : string) (run : runk) (ins : list link) (scatter : list string) (m : smethod)
                  (when : option cond) (outs : list string)
  (* cwltool:Loop (StreamFlow: tests/test_cwl_loop.py): while loopWhen holds on the current inputs run the process,
     then feed input k with output o for every (k, o) of [loop]; outputMethod last (null when no iteration) / all *)
  | LStep (id : string) (run : runk) (ins : list link) (loop : list (string * string)) (lw : cond) (all : bool)
          (outs : list string)
with runk := RTool (t : tool) | RWf (w : wf).

(* ---------------------------------------------------------------- evaluation *)
Definition resolve_link (env : obj) (l : link) : option value :=
  match mapM (fun r => lookup r env) (l_src l) with
  | None => None                                   (* dangling reference: invalid document *)
  | Some vs => resolve (l_lm l) (l_pv l) (l_default l) vs
  end.

Definition resolve_links (env : obj) (ls : list link) : option obj :=
  mapM (fun l => match resolve_link env l with Some v => Some (l_id l, v) | None => None end) ls.

Definition eval_vf (inputs : obj) (self : value) (v : vfrom) : option value :=
  match v with
  | VFSelf => Some self
  | VFSelfPlus k => match self with
                    | VInt z => Some (VInt (z + k))
                    | VNull => Some (VInt k)         (* JavaScript: null + k *)
                    | _ => None
                    end
  | VFInput n => match lookup n inputs with Some x => Some x | None => Some VNull end
  | VFConst c => Some c
  end.

(* valueFrom of every input is evaluated against the input object as it was before any valueFrom *)
Definition apply_vfs (ls : list link) (inputs : obj) : option obj :=
  mapM (fun kv : string * value =>
          let (k, v) := kv in
          match find (fun l => String.eqb (l_id l) k) ls with
          | Some l => match l_vf l with
                      | Some f => match eval_vf inputs v f with Some v' => Some (k, v') | None => None end
                      | None => Some (k, v)
                      end
          | None => Some (k, v)
          end) inputs.

(* Some true / Some false, None = "when must evaluate to a boolean" *)
Definition eval_cond (inputs : obj) (c : cond) : option bool :=
  match c with
  | CGt n k => match lookup n inputs with
               | Some (VInt z) => Some (k <? z)%Z
               | Some VNull => Some (k <? 0)%Z      (* JavaScript: null > k *)
               | _ => None
               end
  | CLt n k => match lookup n inputs with
               | Some (VInt z) => Some (z <? k)%Z
               | Some VNull => Some (0 <? k)%Z      (* JavaScript: null < k *)
               | _ => None
               end
  | CBool n | CRaw n => match lookup n inputs with Some (VBool b) => Some b | _ => None end
  | CNonNull n => match lookup n inputs with Some VNull | None => Some false | Some _ => Some true end
  end.

(* ---- scatter: job lists and nesting, generic in the element type *)
Inductive ntree (A : Type) := Leaf (a : A) | Node (l : list (ntree A)).
Arguments Leaf {A}. Arguments Node {A}.

Fixpoint cart {A} (ls : list (list A)) (acc : list A) : list (list A) :=
  match ls with
  | [] => [rev acc]
  | l :: rest => flat_map (fun x => cart rest (x :: acc)) l
  end.

Fixpoint nest {A} (ls : list (list A)) (acc : list A) : ntree (list A) :=
  match ls with
  | [] => Leaf (rev acc)
  | l :: rest => Node (map (fun x => nest rest (x :: acc)) l)
  end.

Fixpoint leaves {A} (t : ntree A) : list A :=
  match t with
  | Leaf a => [a]
  | Node l => flat_map leaves l
  end.

Fixpoint tree_map {A B} (f : A -> B) (t : ntree A) : ntree B :=
  match t with
  | Leaf a => Leaf (f a)
  | Node l => Node (map (tree_map f) l)
  end.

Fixpoint tree_mapM {A B} (f : A -> option B) (t : ntree A) : option (ntree B) :=
  match t with
  | Leaf a => match f a with Some b => Some (Leaf b) | None => None end
  | Node l =>
      match (fix go (l : list (ntree A)) : option (list (ntree B)) :=
               match l with
               | [] => Some []
               | x :: l' => match tree_mapM f x with
                            | None => None
                            | Some y => match go l' with None => None | Some ys => Some (y :: ys) end
                            end
               end) l with
      | Some l' => Some (Node l')
      | None => None
      end
  end.

(* the i-th elements of every list (dotproduct); None when lengths differ *)
Fixpoint transpose {A} (n : nat) (ls : list (list A)) : option (list (list A)) :=
  match n with
  | O => if forallb (fun l => match l with [] => true | _ => false end) ls then Some [] else None
  | S n' =>
      match mapM (fun l => match l with x :: l' => Some (x, l') | [] => None end) ls with
      | None => None
      | Some hts => match transpose n' (map snd hts) with
                    | Some rows => Some (map fst hts :: rows)
                    | None => None
                    end
      end
  end.

Definition dot {A} (ls : list (list A)) : option (list (list A)) :=
  match ls with
  | [] => Some []
  | l :: _ => transpose (length l) ls
  end.

Definition as_array (v : option value) : option (list value) :=
  match v with Some (VArr l) => Some l | _ => None end.

Fixpoint assign (names : list string) (vals : list value) (o : obj) : obj :=
  match names, vals with
  | n :: names', v :: vals' => assign names' vals' (set_key n v o)
  | _, _ => o
  end.

(* value of output [o] from a tree of per-job output objects *)
Fixpoint tree_value (o : string) (t : ntree obj) : value :=
  match t with
  | Leaf r => match lookup o r with Some v => v | None => VNull end
  | Node l => VArr (map (tree_value o) l)
  end.

Section Step.
  Variable sub : wf -> obj -> option obj.        (* evaluation of a nested workflow (less fuel) *)

  Definition run_process (r : runk) (i : obj) : option obj :=
    match r with
    | RTool t => run_tool t i
    | RWf w => sub w i
    end.

  (* one job: valueFrom, then when, then the process; a skipped job yields null on every output *)
  Definition run_job (r : runk) (ins : list link) (when : option cond) (outs : list string) (i : obj)
    : option obj :=
    match apply_vfs ins i with
    | None => None
    | Some i' =>
        match when with
        | None => run_process r i'
        | Some c => match eval_cond i' c with
                    | None => None
                    | Some true => run_process r i'
                    | Some false => Some (map (fun o => (o, VNull)) outs)
                    end
        end
    end.

  (* at most [fuel] iterations (the generator keeps loops within 12; running out of fuel is a failure) *)
  Fixpoint loop_iter (fuel : nat) (r : runk) (lp : list (string * string)) (lw : cond) (i : obj) (acc : list obj)
    : option (list obj) :=
    match fuel with
    | O => None
    | S f =>
        match eval_cond i lw with
        | None => None
        | Some false => Some (rev acc)
        | Some true =>
            match run_process r i with
            | None => None
            | Some o =>
                let i' := fold_left (fun acc' (ko : string * string) =>
                                       set_key (fst ko) (match lookup (snd ko) o with Some v => v | None => VNull end) acc')
                                    lp i in
                loop_iter f r lp lw i' (o :: acc)
            end
        end
    end.

  Definition eval_step (env : obj) (s : step) : option obj :=
    match s with
    | LStep id r ins lp lw all outs =>
        match resolve_links env ins with
        | None => None
        | Some i =>
            match loop_iter 64 r lp lw i [] with
            | None => None
            | Some its =>
                Some (map (fun o =>
                             (o, if all
                                 then VArr (map (fun r' => match lookup o r' with Some v => v | None => VNull end) its)
                                 else match last its [] with
                                      | [] => VNull
                                      | r' => match lookup o r' with Some v => v | None => VNull end
                                      end)) outs)
            end
        end
    | Step id r ins scatter m when outs =>
        match resolve_links env ins with
        | None => None
        | Some i =>
            match scatter with
            | [] => run_job r ins when outs i
            | _ =>
                match mapM (fun n => as_array (lookup n i)) scatter with
                | None => None                      (* scatter over something that is not an array *)
                | Some arrays =>
                    let job := fun vals => run_job r ins when outs (assign scatter vals i) in
                    let tree :=
                      match m with
                      | Dot => match dot arrays with
                               | Some rows => Some (Node (map Leaf rows))
                               | None => None           (* lengths differ *)
                               end
                      | FlatCross => Some (Node (map Leaf (cart arrays [])))
                      | NestedCross => Some (nest arrays [])
                      end in
                    match tree with
                    | None => None
                    | Some t => match tree_mapM job t with
                                | None => None
                                | Some rt => Some (map (fun o => (o, tree_value o rt)) outs)
                                end
                    end
                end
            end
        end
    end.

  Fixpoint eval_steps (env : obj) (ss : list step) : option obj :=
    match ss with
    | [] => Some env
    | s :: ss' =>
        match eval_step env s with
        | None => None
        | Some r =>
            let sid := match s with Step id _ _ _ _ _ _ => id | LStep id _ _ _ _ _ _ => id end in
            eval_steps (env ++ map (fun kv : string * value => (String.append sid (String.append "/" (fst kv)), snd kv)) r) ss'
        end
    end.
End Step.

Definition input_env (inputs : list (string * option value)) (job : obj) : obj :=
  map (fun kd : string * option value =>
         let (k, d) := kd in
         (k, apply_default d (match lookup k job with Some v => v | None => VNull end))) inputs.

Fixpoint eval_wf (fuel : nat) (w : wf) (job : obj) : option obj :=
  match fuel with
  | O => None
  | S f =>
      match w with
      | Wf inputs steps outputs =>
          match eval_steps (eval_wf f) (input_env inputs job) steps with
          | None => None
          | Some env => resolve_links env outputs
          end
      end
  end.

(* nesting depth of subworkflows never exceeds the generator's bound; 8 is ample *)
Definition run_wf (w : wf) (job : obj) : option obj := eval_wf 8 w job.
