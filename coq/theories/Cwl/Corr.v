(* Cwl/Corr.v — correspondence cases for C29.

   CProg  : a mini-CWL program, its job object, the output object printed by the reference runner
            (cwltool) and the one printed by StreamFlow (None = the runner failed).  check: the Gallina
            reference interpreter (Cwl/Sem.v) agrees with the reference runner, and with StreamFlow
            wherever StreamFlow agrees with the reference runner (the harness' oracle reports the cases
            where the two runners differ; they are findings about StreamFlow, not about the interpreter).
   COp*   : StreamFlow's value-level operators run for real (ListMergeCombinator.combine,
            _flatten_token_list, First/Only/AllNonNull, ListToElement, CWLEmptyScatterConditionalStep)
            against their models in Cwl/Ops.v. *)
From Coq Require Import List Bool NArith ZArith.
From SF Require Import Base.Str Base.Corr.
From SF Require Export Cwl.Sem Cwl.Ops.
Import ListNotations.

Definition obj_eqb (a b : obj) : bool :=
  Nat.eqb (length a) (length b) &&
  forallb (fun kv : string * value =>
             match lookup (fst kv) b with Some v => value_eqb (snd kv) v | None => false end) a.

Definition oobj_eqb (a b : option obj) : bool := opt_eqb obj_eqb a b.

Inductive ccase :=
| CProg (w : wf) (job : obj) (ref sf : option obj)
| COpMerge (flatten : bool) (inputs : list tok) (out : option tok)    (* ListMergeCombinator.combine; None = ValueError *)
| COpPick (p : pick) (t : tok) (out : option tok)                    (* *NonNullTransformer._transform *)
| COpListToElement (t : tok) (out : option tok)
| COpEmptyScatter (m : smethod) (inputs : list tok) (fires : bool) (out : tok).

Definition check_case (c : ccase) : bool :=
  match c with
  | CProg w job ref sf =>
      let m := run_wf w job in
      oobj_eqb m ref && (oobj_eqb m sf || negb (oobj_eqb sf ref))
  | COpMerge fl inputs out => opt_eqb tok_eqb (sf_list_merge_opt fl inputs) out
  | COpPick p t out => opt_eqb tok_eqb (sf_pick p t) out
  | COpListToElement t out => opt_eqb tok_eqb (sf_list_to_element t) out
  | COpEmptyScatter m inputs fires out =>
      Bool.eqb (negb (sf_scatter_nonempty inputs)) fires &&
      (negb fires || tok_eqb (sf_empty_scatter m inputs) out)
  end.
