(* JsDeps/Corr.v — correspondence cases for JsDeps/Model.v (used by the C31 check).
   One case = one CWL expression string, given structurally (library declarations + parts), with
   (a) what streamflow.cwl.utils.resolve_dependencies returned / raised on its text, and
   (b) what an instrumented real evaluation (node with a Proxy around inputs for JS parts, the regex_eval of
       cwl_utils on a recording mapping for parameter references) read from inputs and whether it succeeded. *)
From Coq Require Import List Bool NArith.
From SF Require Import Base.Str Base.Corr.
From SF Require Export JsDeps.Model.
Import ListNotations.
Local Open Scope string_scope. Local Open Scope list_scope.

Inductive odeps := ODeps (d : list string) | OErr (e : perr) | OOther.
(* OReads: reads observed with a different (universal) inputs object: not compared with the model evaluator, only used
   for the in-fragment consequence check below (kind realworld) *)
Inductive oeval := OEval (ok : bool) (reads : list string) | ONoEval | OReads (ok : bool) (reads : list string).

(* [frag] = the harness' claim that the case lies in the fragment of C31_sound_partial (no library, every JS part
   in_fragment); the claim is re-computed here, so the count reported in the evidence is the model's own. *)
Inductive ccase :=
  CCase (lib : stmt) (ps : list part) (inp : list (string * ival)) (d : odeps) (e : oeval) (frag : bool).

Definition fuel : nat := 200.

(* model of the evaluation of all parts, left to right, stopping at the first failure:
   Some (ok, reads) or None when some part is outside the modelled semantics *)
Fixpoint eval_parts (inp : list (string * ival)) (lib : stmt) (ps : list part) (acc : list string)
  : option (bool * list string) :=
  match ps with
  | [] => Some (true, acc)
  | PText _ :: r => eval_parts inp lib r acc
  | PRef root segs :: r =>
      if String.eqb root "inputs" then
        match run_ref inp fuel root segs with
        | Ok _ s => eval_parts inp lib r (snd s ++ acc)
        | Throw s => Some (false, snd s ++ acc)
        | Unsup | NoFuel => None
        end
      else if (String.eqb root "self" || String.eqb root "runtime") then
        match segs with [] => eval_parts inp lib r acc | _ => None end
      else None   (* not a context key: cwl_utils sends the text to JavaScript, where the name is unbound *)
  | PJs body :: r =>
      match run inp fuel lib body with
      | Ok _ s => eval_parts inp lib r (snd s ++ acc)
      | Throw s => Some (false, snd s ++ acc)
      | Unsup | NoFuel => None
      end
  end.

Definition check_deps (lib : stmt) (ps : list part) (d : odeps) : bool :=
  match deps_parts lib ps, d with
  | inr m, ODeps o => set_eqb m o
  | inl AttributeError, OErr AttributeError => true
  | inl KeyError, OErr KeyError => true
  | _, _ => false
  end.

Definition check_eval (lib : stmt) (ps : list part) (inp : list (string * ival)) (e : oeval) : bool :=
  match e with
  | ONoEval | OReads _ _ => true
  | OEval ok reads =>
      match eval_parts inp lib ps [] with
      | None => true
      | Some (mok, mreads) => Bool.eqb ok mok && set_eqb mreads reads
      end
  end.

(* the fragment of C31_sound_interpolation_partial (which contains those of C31_sound_partial,
   C31_sound_functions_partial and C31_paramref_sound) *)
Definition case_in_fragment (lib : stmt) (ps : list part) : bool := parts_in_fragment lib ps.

(* inside the fragment the theorem's conclusion is also checked on the observations themselves: the analysis did not
   fail and the observed reads of a successful evaluation are observed dependencies *)
Definition frag_consequence (frag : bool) (d : odeps) (e : oeval) : bool :=
  if frag then
    match d, e with
    | ODeps o, OEval true reads | ODeps o, OReads true reads => incl_b reads o
    | ODeps _, _ => true
    | _, _ => false
    end
  else true.

Definition check_case (c : ccase) : bool :=
  match c with
  | CCase lib ps inp d e frag =>
      check_deps lib ps d && check_eval lib ps inp e && Bool.eqb (case_in_fragment lib ps) frag
      && frag_consequence frag d e
  end.

(* how many of the evaluations were actually compared (evidence only) *)
Definition eval_modelled (c : ccase) : bool :=
  match c with CCase lib ps inp _ (OEval _ _) _ => match eval_parts inp lib ps [] with Some _ => true | None => false end
          | _ => false end.

Definition eval_observed (c : ccase) : bool := match c with CCase _ _ _ _ (OEval _ _) _ => true | _ => false end.
(* (cases with an observed evaluation, those the model evaluator answered (not Unsup / NoFuel), those in a proved
   fragment among the observed, those in a proved fragment that the model evaluator answered) *)
Definition eval_counts (cs : list ccase) : nat * nat * nat * nat :=
  let obs := filter eval_observed cs in
  let frag := filter (fun c => match c with CCase lib ps _ _ _ _ => case_in_fragment lib ps end) obs in
  (List.length obs, List.length (filter eval_modelled obs), List.length frag, List.length (filter eval_modelled frag)).
