(* JsDeps/Sound.v — soundness of the listener on the function-free fragment [ok_s]. *)
From Coq Require Import List Bool NArith Ascii Lia PeanoNat.
From SF Require Import Base.Str Base.Dec JsDeps.Model JsDeps.Proofs.
Import ListNotations.
Local Open Scope string_scope. Local Open Scope list_scope.

Definition NG (G : list string) : names := {| glob := G; inner := [] |}.
Definition WG (G D : list string) : wst := {| nm := NG G; dp := D |}.

Lemma contains_NG x G : contains x (NG G) = mem x G.
Proof. unfold contains; simpl. apply orb_false_r. Qed.
Lemma in_global_NG x G : in_global x (NG G) = mem x G.
Proof. unfold in_global; simpl. apply andb_true_r. Qed.

Lemma get_name_some e y : get_name e = Some y -> e = EId y.
Proof. destruct e; simpl; intros H; try discriminate. inversion H; reflexivity. Qed.

Lemma mem_cons x y G : mem x (y :: G) = String.eqb x y || mem x G.
Proof. reflexivity. Qed.
Lemma mem_remove_neq z x G : z <> x -> mem z G = true -> mem z (remove_all x G) = true.
Proof.
  intros Hn. induction G as [|a G IH]; simpl; intros H; [discriminate|].
  destruct (String.eqb z a) eqn:E.
  - apply String.eqb_eq in E; subst a.
    destruct (String.eqb x z) eqn:E2; [apply String.eqb_eq in E2; congruence|].
    simpl. rewrite String.eqb_refl. reflexivity.
  - simpl in H. destruct (negb (String.eqb x a)); simpl; [rewrite E; simpl|]; apply IH; exact H.
Qed.

(* ---------------------------------------------------------------------------------------------- *)
(* the walk of fragment code never fails; dependencies only grow; inside branches names only grow *)

Definition skip_post (br : bool) (G D G' D' : list string) : Prop :=
  mem "inputs" G' = true /\ incl D D' /\ (br = true -> forall z, mem z G = true -> mem z G' = true).

Lemma skip_post_refl br G D : mem "inputs" G = true -> skip_post br G D G D.
Proof. intros H. split; [exact H|]. split; [apply incl_refl|auto]. Qed.

Lemma skip_post_trans br G D G1 D1 G2 D2 :
  skip_post br G D G1 D1 -> skip_post br G1 D1 G2 D2 -> skip_post br G D G2 D2.
Proof.
  intros [_ [B C]] [A' [B' C']]. split; [exact A'|]. split; [eapply incl_tran; eauto|].
  intros Hb z Hz. apply C'; [exact Hb|]. apply C; assumption.
Qed.

Lemma skip_post_weaken G D G' D' : skip_post true G D G' D' -> forall br, skip_post br G D G' D'.
Proof. intros [A [B C]] br. split; [exact A|]. split; [exact B|]. intros _. apply C. reflexivity. Qed.

Lemma enter_dot_id x f G D :
  exists D', enter_dot (EId x) f (WG G D) = WOk (WG G D') /\ incl D D' /\
             (mem x G = true -> is_reserved f = false -> In f D').
Proof.
  unfold enter_dot; simpl. rewrite in_global_NG.
  destruct (mem x G).
  - destruct (is_reserved f).
    + exists D. split; [reflexivity|]. split; [apply incl_refl|]. intros _ C; discriminate.
    + exists (f :: D). split; [reflexivity|]. split; [apply incl_tl, incl_refl|]. intros _ _. left; reflexivity.
  - exists D. split; [reflexivity|]. split; [apply incl_refl|]. intros C; discriminate.
Qed.

Lemma good_key_inv k : good_key k = true ->
  exists dq s, k = EStr dq s /\ strip_q (token_text dq s) = s /\ String.eqb s "" = false.
Proof.
  destruct k; simpl; intros H; try discriminate.
  apply andb_true_iff in H. destruct H as [A B]. apply String.eqb_eq in A.
  exists dq, s. split; [reflexivity|]. split; [exact A|]. apply negb_true_iff in B. exact B.
Qed.

Lemma enter_index_id x dq s G D :
  strip_q (token_text dq s) = s -> String.eqb s "" = false ->
  exists D', enter_index (EId x) (EStr dq s) (WG G D) = WOk (WG G D') /\ incl D D' /\
             (mem x G = true -> In s D').
Proof.
  intros A B. unfold enter_index; simpl. rewrite in_global_NG.
  destruct (mem x G).
  - rewrite A, B. exists (s :: D). split; [reflexivity|]. split; [apply incl_tl, incl_refl|]. intros _. left; reflexivity.
  - exists D. split; [reflexivity|]. split; [apply incl_refl|]. intros C; discriminate.
Qed.

Lemma enter_dot_none e f w : get_name e = None -> enter_dot e f w = WOk w.
Proof. unfold enter_dot. intros ->. reflexivity. Qed.
Lemma enter_index_none e k w : get_name e = None -> enter_index e k w = WOk w.
Proof. unfold enter_index. intros ->. reflexivity. Qed.
Lemma enter_assign_none x r w : get_name r = None -> enter_assign x r w = WOk w.
Proof. unfold enter_assign. intros ->. destruct (contains x (nm w)); reflexivity. Qed.

(* x = y on a single-scope stack *)
Lemma enter_assign_id x y G D :
  mem "inputs" G = true -> String.eqb x "inputs" = false ->
  exists G', enter_assign x (EId y) (WG G D) = WOk (WG G' D) /\ mem "inputs" G' = true /\
    (mem y G = true -> mem x G' = true /\ forall z, mem z G = true -> mem z G' = true) /\
    (forall z, z <> x -> mem z G = true -> mem z G' = true).
Proof.
  intros Hi Hx. unfold enter_assign; simpl. rewrite !contains_NG.
  destruct (mem x G) eqn:Ex; destruct (mem y G) eqn:Ey.
  - exists G. split; [reflexivity|]. split; [exact Hi|]. split; [intros _; split; [exact Ex|auto]|auto].
  - unfold delete_name; simpl. rewrite Ex. exists (remove_all x G). split; [reflexivity|].
    split; [apply mem_remove_neq; [intros C; subst x; rewrite String.eqb_refl in Hx; discriminate|exact Hi]|].
    split; [intros C; discriminate|]. intros z Hz Hm. apply mem_remove_neq; assumption.
  - exists (x :: G). split; [reflexivity|].
    split; [rewrite mem_cons, Hi; apply orb_true_r|].
    split; [intros _; split; [rewrite mem_cons, String.eqb_refl; reflexivity|
                              intros z Hz; rewrite mem_cons, Hz; apply orb_true_r]|].
    intros z _ Hz. rewrite mem_cons, Hz. apply orb_true_r.
  - exists G. split; [reflexivity|]. split; [exact Hi|]. split; [intros C; discriminate|auto].
Qed.

Lemma skip_e : forall e br G D, ok_e br e = true -> mem "inputs" G = true ->
  exists G' D', walk_e e (WG G D) = WOk (WG G' D') /\ skip_post br G D G' D'.
Proof.
  induction e; intros br G D Hok Hi; simpl in Hok; try discriminate.
  - exists G, D. split; [reflexivity|apply skip_post_refl; exact Hi].
  - exists G, D. split; [reflexivity|apply skip_post_refl; exact Hi].
  - exists G, D. split; [reflexivity|apply skip_post_refl; exact Hi].
  - exists G, D. split; [reflexivity|apply skip_post_refl; exact Hi].
  - (* EDot *)
    destruct (get_name e) as [x|] eqn:En.
    + apply get_name_some in En; subst e.
      destruct (enter_dot_id x f G D) as [D' [A [B _]]].
      exists G, D'. simpl. rewrite A. simpl. split; [reflexivity|].
      split; [exact Hi|]. split; [exact B|auto].
    + apply andb_true_iff in Hok. destruct Hok as [_ Hok].
      destruct (IHe br G D Hok Hi) as [G' [D' [A B]]].
      exists G', D'. simpl. rewrite (enter_dot_none _ _ _ En). simpl. split; [exact A|exact B].
  - (* EIdx *)
    destruct (get_name e1) as [x|] eqn:En.
    + apply get_name_some in En; subst e1.
      apply good_key_inv in Hok. destruct Hok as [dq [s [-> [A B]]]].
      destruct (enter_index_id x dq s G D A B) as [D' [E [F _]]].
      exists G, D'. simpl. simpl in E. rewrite E. simpl. split; [reflexivity|].
      split; [exact Hi|]. split; [exact F|auto].
    + apply andb_true_iff in Hok. destruct Hok as [Hok Hk]. apply andb_true_iff in Hok. destruct Hok as [_ Hok].
      destruct (IHe1 br G D Hok Hi) as [G1 [D1 [A B]]].
      destruct (IHe2 br G1 D1 Hk (proj1 B)) as [G2 [D2 [A2 B2]]].
      exists G2, D2. simpl. rewrite (enter_index_none _ _ _ En). simpl. rewrite A. simpl. split; [exact A2|].
      eapply skip_post_trans; eauto.
  - (* EAdd *)
    apply andb_true_iff in Hok. destruct Hok as [Ha Hb].
    destruct (IHe1 br G D Ha Hi) as [G1 [D1 [A B]]].
    destruct (IHe2 br G1 D1 Hb (proj1 B)) as [G2 [D2 [A2 B2]]].
    exists G2, D2. simpl. rewrite A. simpl. split; [exact A2|eapply skip_post_trans; eauto].
  - (* ECond *)
    apply andb_true_iff in Hok. destruct Hok as [Hok Hb]. apply andb_true_iff in Hok. destruct Hok as [Hc Ha].
    destruct (IHe1 br G D Hc Hi) as [G1 [D1 [A1 B1]]].
    destruct (IHe2 true G1 D1 Ha (proj1 B1)) as [G2 [D2 [A2 B2]]].
    destruct (IHe3 true G2 D2 Hb (proj1 B2)) as [G3 [D3 [A3 B3]]].
    exists G3, D3. simpl. rewrite A1. simpl. rewrite A2. simpl. split; [exact A3|].
    eapply skip_post_trans; [exact B1|]. eapply skip_post_trans; apply skip_post_weaken; eauto.
  - (* EParen *)
    destruct (IHe br G D Hok Hi) as [G' [D' [A B]]]. exists G', D'. split; [exact A|exact B].
  - (* EAssign *)
    apply andb_true_iff in Hok. destruct Hok as [Hx Hok]. apply negb_true_iff in Hx.
    destruct (get_name e) as [y|] eqn:En.
    + apply get_name_some in En; subst e.
      destruct (enter_assign_id x y G D Hi Hx) as [G' [A [B [C C2]]]].
      exists G', D. simpl. rewrite A. simpl. split; [reflexivity|].
      split; [exact B|]. split; [apply incl_refl|].
      intros Hb. subst br. simpl in Hok. apply String.eqb_eq in Hok. subst y.
      apply (proj2 (C Hi)).
    + apply andb_true_iff in Hok. destruct Hok as [_ Hok].
      destruct (IHe br G D Hok Hi) as [G' [D' [A B]]].
      exists G', D'. simpl. rewrite (enter_assign_none _ _ _ En). simpl. split; [exact A|exact B].
Qed.

Lemma skip_s : forall s br G D, ok_s br s = true -> mem "inputs" G = true ->
  exists G' D', walk_s s (WG G D) = WOk (WG G' D') /\ skip_post br G D G' D'.
Proof.
  induction s; intros br G D Hok Hi; simpl in Hok; try discriminate.
  - exists G, D. split; [reflexivity|apply skip_post_refl; exact Hi].
  - apply andb_true_iff in Hok. destruct Hok as [Ha Hb].
    destruct (IHs1 br G D Ha Hi) as [G1 [D1 [A B]]].
    destruct (IHs2 br G1 D1 Hb (proj1 B)) as [G2 [D2 [A2 B2]]].
    exists G2, D2. simpl. rewrite A. simpl. split; [exact A2|eapply skip_post_trans; eauto].
  - exists G, D. split; [reflexivity|apply skip_post_refl; exact Hi].
  - apply andb_true_iff in Hok. destruct Hok as [_ Hok]. apply (skip_e e br G D Hok Hi).
  - apply (skip_e e br G D Hok Hi).
  - apply (skip_e e br G D Hok Hi).
  - apply andb_true_iff in Hok. destruct Hok as [Hok Hb]. apply andb_true_iff in Hok. destruct Hok as [Hc Ha].
    destruct (skip_e c br G D Hc Hi) as [G1 [D1 [A1 B1]]].
    destruct (IHs1 true G1 D1 Ha (proj1 B1)) as [G2 [D2 [A2 B2]]].
    destruct (IHs2 true G2 D2 Hb (proj1 B2)) as [G3 [D3 [A3 B3]]].
    exists G3, D3. simpl. rewrite A1. simpl. rewrite A2. simpl. split; [exact A3|].
    eapply skip_post_trans; [exact B1|]. eapply skip_post_trans; apply skip_post_weaken; eauto.
Qed.

(* ---------------------------------------------------------------------------------------------- *)
(* simulation: every variable whose store cell holds the inputs object is in the listener's name set *)

Lemma nth_set_nth_neq : forall (s : list val) l l' v, l <> l' -> nth l' (set_nth l v s) VUndef = nth l' s VUndef.
Proof.
  induction s as [|a s IH]; intros l l' v Hn; [destruct l; reflexivity|].
  destruct l; destruct l'; simpl; try reflexivity; [congruence|]. apply IH. congruence.
Qed.
Lemma nth_set_nth_same : forall (s : list val) l v,
  nth l (set_nth l v s) VUndef = v \/ nth l (set_nth l v s) VUndef = VUndef.
Proof.
  induction s as [|a s IH]; intros l v.
  - right. destruct l; reflexivity.
  - destruct l; simpl; [left; reflexivity|apply IH].
Qed.

Lemma add_val_not_inp a b v : add_val a b = Some v -> v <> VInp.
Proof. destruct a; destruct b; simpl; intros H; inversion H; discriminate. Qed.

Section Sim.
  Variable inp : list (string * ival).
  Variable env : list (string * nat).
  Hypothesis inj_env : forall z x l, assoc z env = Some l -> assoc x env = Some l -> z = x.

  Definition Inv (G : list string) (s : st) : Prop :=
    forall z l, assoc z env = Some l -> nth l (fst s) VUndef = VInp -> mem z G = true.

  Lemma Inv_mono G G' s : (forall z, mem z G = true -> mem z G' = true) -> Inv G s -> Inv G' s.
  Proof. intros H I z l A B. apply H. eapply I; eauto. Qed.

  Lemma Inv_reads G store r r' : Inv G (store, r) -> Inv G (store, r').
  Proof. intros I z l A B. eapply I; eauto. Qed.

  Lemma Inv_store G G' s x l v :
    Inv G s -> assoc x env = Some l ->
    (v = VInp -> mem x G' = true) ->
    (forall z, z <> x -> mem z G = true -> mem z G' = true) ->
    Inv G' (set_nth l v (fst s), snd s).
  Proof.
    intros I Hx Hv Hm z lz A B. simpl in B.
    destruct (Nat.eq_dec l lz) as [->|Hn].
    - assert (z = x) by (eapply inj_env; eauto). subst z.
      destruct (nth_set_nth_same (fst s) lz v) as [E|E]; rewrite E in B; [auto|discriminate].
    - rewrite nth_set_nth_neq in B by exact Hn.
      apply Hm; [|eapply I; eauto]. intros ->. rewrite Hx in A. inversion A. congruence.
  Qed.

  Definition sim_post (e_may : bool) (G' D' : list string) (v : val) (s' : st) : Prop :=
    mem "inputs" G' = true /\ Inv G' s' /\ incl (snd s') D' /\ (v = VInp -> e_may = true).

  (* reading a property of a value that was obtained from variable x / from a non-inputs expression *)
  Lemma prop_read G D s v1 k v s' :
    Inv G s -> incl (snd s) D -> get_prop inp v1 k s = Ok v s' ->
    (v1 = VInp -> In k D) ->
    Inv G s' /\ incl (snd s') D /\ v <> VInp.
  Proof.
    intros I R H Hk. apply get_prop_spec in H. destruct H as [Hv [[-> ->]|[_ ->]]].
    - split; [destruct s; eapply Inv_reads; exact I|]. split; [|exact Hv].
      simpl. intros a [<-|Ha]; [apply Hk; reflexivity|apply R; exact Ha].
    - auto.
  Qed.

  Lemma sound_e : forall n br e G D s v s',
    ok_e br e = true -> mem "inputs" G = true -> Inv G s -> incl (snd s) D ->
    eval_e inp n env e s = Ok v s' ->
    exists G' D', walk_e e (WG G D) = WOk (WG G' D') /\ sim_post (may_inp e) G' D' v s'.
  Proof.
    induction n as [|n IH]; intros br e G D s v s' Hok Hi HI HR H; [discriminate|].
    destruct e; simpl in Hok; try discriminate; simpl in H.
    - inversion H; subst. exists G, D. split; [reflexivity|]. repeat split; auto; discriminate.
    - inversion H; subst. exists G, D. split; [reflexivity|]. repeat split; auto; discriminate.
    - inversion H; subst. exists G, D. split; [reflexivity|]. repeat split; auto; discriminate.
    - destruct (assoc x env) as [l|] eqn:A; [|discriminate]. inversion H; subst.
      exists G, D. split; [reflexivity|]. repeat split; auto.
    - (* EDot *)
      destruct (get_name e) as [x|] eqn:En.
      + apply get_name_some in En; subst e.
        destruct n as [|n']; [discriminate|]. simpl in H.
        destruct (assoc x env) as [l|] eqn:A; [|discriminate]. simpl in H.
        destruct (enter_dot_id x f G D) as [D' [E [F K]]].
        assert (HR' : incl (snd s) D') by (eapply incl_tran; eauto).
        destruct (prop_read G D' s _ f v s' HI HR' H) as [I' [R' Nv]].
        { intros Hv. apply K; [eapply HI; eauto|apply negb_true_iff; exact Hok]. }
        exists G, D'. simpl. rewrite E. simpl. split; [reflexivity|].
        split; [exact Hi|]. split; [exact I'|]. split; [exact R'|]. intros C; contradiction.
      + apply andb_true_iff in Hok. destruct Hok as [Hm Hok]. apply negb_true_iff in Hm.
        destruct (eval_e inp n env e s) as [v1 s1| | |] eqn:E1; try discriminate. simpl in H.
        destruct (IH br e G D s v1 s1 Hok Hi HI HR E1) as [G1 [D1 [W1 [Hi1 [I1 [R1 M1]]]]]].
        destruct (prop_read G1 D1 s1 v1 f v s' I1 R1 H) as [I' [R' Nv]].
        { intros Hv. apply M1 in Hv. congruence. }
        exists G1, D1. simpl. rewrite (enter_dot_none _ _ _ En). simpl. split; [exact W1|].
        split; [exact Hi1|]. split; [exact I'|]. split; [exact R'|]. intros C; contradiction.
    - (* EIdx *)
      destruct (get_name e1) as [x|] eqn:En.
      + apply get_name_some in En; subst e1.
        apply good_key_inv in Hok. destruct Hok as [dq [k [-> [Ka Kb]]]].
        destruct n as [|n']; [discriminate|]. simpl in H.
        destruct (assoc x env) as [l|] eqn:A; [|discriminate]. simpl in H.
        destruct (enter_index_id x dq k G D Ka Kb) as [D' [E [F K]]].
        assert (HR' : incl (snd s) D') by (eapply incl_tran; eauto).
        assert (H' : get_prop inp (nth l (fst s) VUndef) k s = Ok v s').
        { destruct (nth l (fst s) VUndef); exact H. }
        destruct (prop_read G D' s _ k v s' HI HR' H') as [I' [R' Nv]].
        { intros Hv. apply K. eapply HI; eauto. }
        exists G, D'. simpl. simpl in E. rewrite E. simpl. split; [reflexivity|].
        split; [exact Hi|]. split; [exact I'|]. split; [exact R'|]. intros C; contradiction.
      + apply andb_true_iff in Hok. destruct Hok as [Hok Hk]. apply andb_true_iff in Hok.
        destruct Hok as [Hm Hok]. apply negb_true_iff in Hm.
        destruct (eval_e inp n env e1 s) as [v1 s1| | |] eqn:E1; try discriminate. simpl in H.
        destruct (IH br e1 G D s v1 s1 Hok Hi HI HR E1) as [G1 [D1 [W1 [Hi1 [I1 [R1 M1]]]]]].
        destruct (eval_e inp n env e2 s1) as [v2 s2| | |] eqn:E2; try discriminate. simpl in H.
        destruct (IH br e2 G1 D1 s1 v2 s2 Hk Hi1 I1 R1 E2) as [G2 [D2 [W2 [Hi2 [I2 [R2 M2]]]]]].
        assert (N1 : v1 <> VInp) by (intros Hv; apply M1 in Hv; congruence).
        assert (exists key, get_prop inp v1 key s2 = Ok v s') as [key H'].
        { destruct v1; try discriminate; try contradiction;
            (destruct (to_key v2) as [key|]; [exists key; exact H|discriminate]). }
        destruct (prop_read G2 D2 s2 v1 key v s' I2 R2 H') as [I' [R' Nv]].
        { intros Hv; contradiction. }
        exists G2, D2. simpl. rewrite (enter_index_none _ _ _ En). simpl. rewrite W1. simpl. split; [exact W2|].
        split; [exact Hi2|]. split; [exact I'|]. split; [exact R'|]. intros C; contradiction.
    - (* EAdd *)
      apply andb_true_iff in Hok. destruct Hok as [Ha Hb].
      destruct (eval_e inp n env e1 s) as [v1 s1| | |] eqn:E1; try discriminate. simpl in H.
      destruct (IH br e1 G D s v1 s1 Ha Hi HI HR E1) as [G1 [D1 [W1 [Hi1 [I1 [R1 M1]]]]]].
      destruct (eval_e inp n env e2 s1) as [v2 s2| | |] eqn:E2; try discriminate. simpl in H.
      destruct (IH br e2 G1 D1 s1 v2 s2 Hb Hi1 I1 R1 E2) as [G2 [D2 [W2 [Hi2 [I2 [R2 M2]]]]]].
      destruct (add_val v1 v2) as [w|] eqn:Ea; [|discriminate]. inversion H; subst.
      exists G2, D2. simpl. rewrite W1. simpl. split; [exact W2|].
      split; [exact Hi2|]. split; [exact I2|]. split; [exact R2|].
      intros C. apply add_val_not_inp in Ea. contradiction.
    - (* ECond *)
      apply andb_true_iff in Hok. destruct Hok as [Hok Hb]. apply andb_true_iff in Hok. destruct Hok as [Hc Ha].
      destruct (eval_e inp n env e1 s) as [vc s1| | |] eqn:E1; try discriminate. simpl in H.
      destruct (IH br e1 G D s vc s1 Hc Hi HI HR E1) as [G1 [D1 [W1 [Hi1 [I1 [R1 _]]]]]].
      destruct (truthy vc).
      + destruct (IH true e2 G1 D1 s1 v s' Ha Hi1 I1 R1 H) as [G2 [D2 [W2 [Hi2 [I2 [R2 M2]]]]]].
        destruct (skip_e e3 true G2 D2 Hb Hi2) as [G3 [D3 [W3 [Hi3 [S3 T3]]]]].
        exists G3, D3. simpl. rewrite W1. simpl. rewrite W2. simpl. split; [exact W3|].
        split; [exact Hi3|]. split; [eapply Inv_mono; [apply T3; reflexivity|exact I2]|].
        split; [eapply incl_tran; eauto|]. intros C. rewrite (M2 C). reflexivity.
      + destruct (skip_e e2 true G1 D1 Ha Hi1) as [G2 [D2 [W2 [Hi2 [S2 T2]]]]].
        assert (I2 : Inv G2 s1) by (eapply Inv_mono; [apply T2; reflexivity|exact I1]).
        assert (R2 : incl (snd s1) D2) by (eapply incl_tran; eauto).
        destruct (IH true e3 G2 D2 s1 v s' Hb Hi2 I2 R2 H) as [G3 [D3 [W3 [Hi3 [I3 [R3 M3]]]]]].
        exists G3, D3. simpl. rewrite W1. simpl. rewrite W2. simpl. split; [exact W3|].
        split; [exact Hi3|]. split; [exact I3|]. split; [exact R3|].
        intros C. rewrite (M3 C). apply orb_true_r.
    - (* EParen *)
      apply (IH br e G D s v s' Hok Hi HI HR H).
    - (* EAssign *)
      apply andb_true_iff in Hok. destruct Hok as [Hx Hok]. apply negb_true_iff in Hx.
      destruct (get_name e) as [y|] eqn:En.
      + apply get_name_some in En; subst e.
        destruct n as [|n']; [discriminate|]. simpl in H.
        destruct (assoc y env) as [ly|] eqn:Ay; [|discriminate]. simpl in H.
        destruct (assoc x env) as [l|] eqn:A; [|discriminate]. inversion H; subst. clear H.
        destruct (enter_assign_id x y G D Hi Hx) as [G' [E [Hi' [C C2]]]].
        exists G', D. simpl. rewrite E. simpl. split; [reflexivity|].
        split; [exact Hi'|]. split.
        * eapply Inv_store; [exact HI|exact A| |exact C2].
          intros Hv. apply (proj1 (C (HI y ly Ay Hv))).
        * split; [exact HR|]. intros _. reflexivity.
      + apply andb_true_iff in Hok. destruct Hok as [Hm Hok]. apply negb_true_iff in Hm.
        destruct (eval_e inp n env e s) as [v1 s1| | |] eqn:E1; try discriminate. simpl in H.
        destruct (IH br e G D s v1 s1 Hok Hi HI HR E1) as [G1 [D1 [W1 [Hi1 [I1 [R1 M1]]]]]].
        destruct (assoc x env) as [l|] eqn:A; [|discriminate]. inversion H; subst. clear H.
        exists G1, D1. simpl. rewrite (enter_assign_none _ _ _ En). simpl. split; [exact W1|].
        split; [exact Hi1|]. split.
        * eapply Inv_store; [exact I1|exact A| |auto].
          intros Hv. apply M1 in Hv. congruence.
        * split; [exact R1|]. exact M1.
  Qed.

  Lemma sound_s : forall n br c G D s r s',
    ok_s br c = true -> mem "inputs" G = true -> Inv G s -> incl (snd s) D ->
    exec inp n env c s = Ok r s' ->
    exists G' D', walk_s c (WG G D) = WOk (WG G' D') /\ mem "inputs" G' = true /\
                  incl (snd s') D' /\ (r = CNormal -> Inv G' s').
  Proof.
    induction n as [|n IH]; intros br c G D s r s' Hok Hi HI HR H; [discriminate|].
    destruct c as [|c1 c2|x|x e|e|e|cc c1 c2|fn ps body|fx fps fbody|fi fc fu fb]; simpl in Hok; try discriminate; simpl in H.
    - inversion H; subst. exists G, D. split; [reflexivity|]. auto.
    - (* SSeq *)
      apply andb_true_iff in Hok. destruct Hok as [Ha Hb].
      destruct (exec inp n env c1 s) as [r1 s1| | |] eqn:E1; try discriminate. simpl in H.
      destruct (IH br c1 G D s r1 s1 Ha Hi HI HR E1) as [G1 [D1 [W1 [Hi1 [R1 I1]]]]].
      destruct r1.
      + destruct (IH br c2 G1 D1 s1 r s' Hb Hi1 (I1 eq_refl) R1 H) as [G2 [D2 [W2 [Hi2 [R2 I2]]]]].
        exists G2, D2. simpl. rewrite W1. simpl. split; [exact W2|]. auto.
      + inversion H; subst.
        destruct (skip_s c2 br G1 D1 Hb Hi1) as [G2 [D2 [W2 [Hi2 [S2 _]]]]].
        exists G2, D2. simpl. rewrite W1. simpl. split; [exact W2|].
        split; [exact Hi2|]. split; [eapply incl_tran; eauto|]. intros C; discriminate.
    - inversion H; subst. exists G, D. split; [reflexivity|]. auto.
    - (* SVarI *)
      apply andb_true_iff in Hok. destruct Hok as [Hm Hok]. apply negb_true_iff in Hm.
      destruct (eval_e inp n env e s) as [v1 s1| | |] eqn:E1; try discriminate. simpl in H.
      destruct (sound_e n br e G D s v1 s1 Hok Hi HI HR E1) as [G1 [D1 [W1 [Hi1 [I1 [R1 M1]]]]]].
      destruct (assoc x env) as [l|] eqn:A; [|discriminate]. inversion H; subst. clear H.
      exists G1, D1. simpl. split; [exact W1|]. split; [exact Hi1|]. split; [exact R1|].
      intros _. eapply Inv_store; [exact I1|exact A| |auto].
      intros Hv. apply M1 in Hv. congruence.
    - (* SExpr *)
      destruct (eval_e inp n env e s) as [v1 s1| | |] eqn:E1; try discriminate. simpl in H. inversion H; subst.
      destruct (sound_e n br e G D s v1 s' Hok Hi HI HR E1) as [G1 [D1 [W1 [Hi1 [I1 [R1 _]]]]]].
      exists G1, D1. simpl. split; [exact W1|]. auto.
    - (* SRet *)
      destruct (eval_e inp n env e s) as [v1 s1| | |] eqn:E1; try discriminate. simpl in H. inversion H; subst.
      destruct (sound_e n br e G D s v1 s' Hok Hi HI HR E1) as [G1 [D1 [W1 [Hi1 [I1 [R1 _]]]]]].
      exists G1, D1. simpl. split; [exact W1|]. auto.
    - (* SIf *)
      apply andb_true_iff in Hok. destruct Hok as [Hok Hb]. apply andb_true_iff in Hok. destruct Hok as [Hc Ha].
      destruct (eval_e inp n env cc s) as [vc s1| | |] eqn:E1; try discriminate. simpl in H.
      destruct (sound_e n br cc G D s vc s1 Hc Hi HI HR E1) as [G1 [D1 [W1 [Hi1 [I1 [R1 _]]]]]].
      destruct (truthy vc).
      + destruct (IH true c1 G1 D1 s1 r s' Ha Hi1 I1 R1 H) as [G2 [D2 [W2 [Hi2 [R2 I2]]]]].
        destruct (skip_s c2 true G2 D2 Hb Hi2) as [G3 [D3 [W3 [Hi3 [S3 T3]]]]].
        exists G3, D3. simpl. rewrite W1. simpl. rewrite W2. simpl. split; [exact W3|].
        split; [exact Hi3|]. split; [eapply incl_tran; eauto|].
        intros C. eapply Inv_mono; [apply T3; reflexivity|apply I2; exact C].
      + destruct (skip_s c1 true G1 D1 Ha Hi1) as [G2 [D2 [W2 [Hi2 [S2 T2]]]]].
        assert (I2 : Inv G2 s1) by (eapply Inv_mono; [apply T2; reflexivity|exact I1]).
        assert (R2 : incl (snd s1) D2) by (eapply incl_tran; eauto).
        destruct (IH true c2 G2 D2 s1 r s' Hb Hi2 I2 R2 H) as [G3 [D3 [W3 [Hi3 [R3 I3]]]]].
        exists G3, D3. simpl. rewrite W1. simpl. rewrite W2. simpl. split; [exact W3|]. auto.
  Qed.
End Sim.

(* ---------------------------------------------------------------------------------------------- *)
(* the outermost frame built by [run] for a function-free body *)

Lemma ok_no_funs : forall s br, ok_s br s = true -> hoist_funs s = [].
Proof.
  induction s; intros br H; simpl in *; try reflexivity; try discriminate.
  apply andb_true_iff in H. destruct H as [A B]. rewrite (IHs1 _ A), (IHs2 _ B). reflexivity.
Qed.

Definition vars_of (body : stmt) : list string :=
  filter (fun x => negb (mem x [])) (nodup string_dec (hoist_vars (SSeq SSkip body))).
Definition env_of (vs : list string) : list (string * nat) := rev (alloc_names vs 3) ++ genv.
Definition store_of (vs : list string) : list val := gstore ++ map (fun _ => VUndef) vs.

Lemma run_ff inp n body : hoist_funs body = [] ->
  run inp n SSkip body = exec inp n (env_of (vars_of body)) (SSeq SSkip body) (store_of (vars_of body), []).
Proof.
  intros H. unfold run, enter_frame. simpl. rewrite H. simpl. rewrite app_nil_r. reflexivity.
Qed.

Lemma alloc_in_ge : forall xs b z l, In (z, l) (alloc_names xs b) -> b <= l.
Proof.
  induction xs as [|a xs IH]; intros b z l H; simpl in H; [contradiction|].
  destruct H as [H|H]; [inversion H; lia|]. apply IH in H. lia.
Qed.
Lemma alloc_inj : forall xs b z x l,
  In (z, l) (alloc_names xs b) -> In (x, l) (alloc_names xs b) -> z = x.
Proof.
  induction xs as [|a xs IH]; intros b z x l Hz Hx; simpl in *; [contradiction|].
  destruct Hz as [Hz|Hz]; destruct Hx as [Hx|Hx].
  - inversion Hz; inversion Hx; congruence.
  - inversion Hz; subst. apply alloc_in_ge in Hx. lia.
  - inversion Hx; subst. apply alloc_in_ge in Hz. lia.
  - eapply IH; eauto.
Qed.
Lemma assoc_in {B} : forall (env : list (string * B)) z l, assoc z env = Some l -> In (z, l) env.
Proof.
  induction env as [|[k v] env IH]; intros z l H; simpl in H; [discriminate|].
  destruct (String.eqb z k) eqn:E.
  - apply String.eqb_eq in E. inversion H; subst. left; reflexivity.
  - right. apply IH. exact H.
Qed.
Lemma env_of_in vs z l : In (z, l) (env_of vs) ->
  (In (z, l) (alloc_names vs 3) /\ 3 <= l) \/ (In (z, l) genv).
Proof.
  unfold env_of. intros H. apply in_app_or in H. destruct H as [H|H].
  - apply in_rev in H. left. split; [exact H|eapply alloc_in_ge; eauto].
  - right. exact H.
Qed.
Lemma genv_cases z l : In (z, l) genv -> (z = "inputs" /\ l = 0) \/ (z = "self" /\ l = 1) \/ (z = "runtime" /\ l = 2).
Proof.
  unfold genv. simpl. intros [H|[H|[H|[]]]]; inversion H; auto.
Qed.
Lemma env_of_inj vs : forall z x l,
  assoc z (env_of vs) = Some l -> assoc x (env_of vs) = Some l -> z = x.
Proof.
  intros z x l Hz Hx. apply assoc_in, env_of_in in Hz. apply assoc_in, env_of_in in Hx.
  destruct Hz as [[Hz Lz]|Hz]; destruct Hx as [[Hx Lx]|Hx].
  - eapply alloc_inj; eauto.
  - apply genv_cases in Hx. lia.
  - apply genv_cases in Hz. lia.
  - apply genv_cases in Hz. apply genv_cases in Hx.
    destruct Hz as [[-> Lz]|[[-> Lz]|[-> Lz]]]; destruct Hx as [[-> Lx]|[[-> Lx]|[-> Lx]]]; try reflexivity; lia.
Qed.
Lemma nth_map_undef : forall (vs : list string) l, nth l (map (fun _ => VUndef) vs) VUndef = VUndef.
Proof. induction vs; intros l; destruct l; simpl; auto. Qed.
Lemma Inv_init vs : Inv (env_of vs) ["inputs"] (store_of vs, []).
Proof.
  intros z l A B. apply assoc_in, env_of_in in A. unfold store_of, gstore in B. cbn [fst] in B.
  destruct l as [|[|[|l']]]; cbn [app nth] in B; try discriminate.
  - destruct A as [[_ L]|A]; [lia|]. apply genv_cases in A.
    destruct A as [[-> _]|[[_ L]|[_ L]]]; [reflexivity|lia|lia].
  - rewrite nth_map_undef in B. discriminate.
Qed.

(* every terminating evaluation, on every inputs object, of a body of the fragment reads only dependencies,
   and the analysis of such a body does not fail *)
Theorem sound_partial : forall inp n body c s,
  in_fragment body = true ->
  run inp n SSkip body = Ok c s ->
  exists w, deps_js SSkip body = WOk w /\ incl (snd s) (dp w).
Proof.
  unfold in_fragment. intros inp n body c s Hok H.
  rewrite (run_ff inp n body (ok_no_funs _ _ Hok)) in H.
  destruct (sound_s inp (env_of (vars_of body)) (env_of_inj _) n false (SSeq SSkip body) ["inputs"] [] _ c s
              Hok eq_refl (Inv_init _) (incl_refl _) H) as [G' [D' [W [_ [R _]]]]].
  exists (WG G' D'). split; [exact W|exact R].
Qed.

Theorem total_partial : forall body, in_fragment body = true -> exists w, deps_js SSkip body = WOk w.
Proof.
  unfold in_fragment. intros body Hok.
  destruct (skip_s body false ["inputs"] [] Hok eq_refl) as [G' [D' [W _]]].
  exists (WG G' D'). exact W.
Qed.
