(* JsDeps/Funs.v — the listener on function-fragment code, the function theorem, interpolated strings. *)
From Coq Require Import List Bool NArith Ascii Lia PeanoNat.
From SF Require Import Base.Str Base.Dec JsDeps.Model JsDeps.Proofs JsDeps.Sound JsDeps.FunsA JsDeps.FunsB.
Import ListNotations.
Local Open Scope string_scope. Local Open Scope list_scope.

Scheme expr_mi := Induction for expr Sort Prop
  with elist_mi := Induction for elist Sort Prop
  with stmt_mi := Induction for stmt Sort Prop.
Combined Scheme ast_mutind from expr_mi, elist_mi, stmt_mi.

(* the listener state while walking function-fragment code: the outermost scope [G] contains inputs and none of the
   names of the function being walked; inner scopes are empty *)
Definition NI (G : list string) (ins : list (list string)) : names := {| glob := G; inner := ins |}.
Definition WN (G : list string) (ins : list (list string)) (D : list string) : wst := {| nm := NI G ins; dp := D |}.
Definition shape (ins : list (list string)) : Prop := ins = [] \/ ins = [[]].

Lemma contains_NI x G ins : shape ins -> contains x (NI G ins) = mem x G.
Proof. intros [->| ->]; unfold contains; simpl; rewrite ?orb_false_r; reflexivity. Qed.
Lemma in_global_NI x G ins : shape ins -> in_global x (NI G ins) = mem x G.
Proof. intros [->| ->]; unfold in_global; simpl; rewrite ?orb_false_r, ?andb_true_r; reflexivity. Qed.
Lemma local_not_inputs x L : mem x L = true -> mem "inputs" L = false -> String.eqb x "inputs" = false.
Proof.
  intros A B. destruct (String.eqb x "inputs") eqn:E; [|reflexivity].
  apply String.eqb_eq in E. subst. congruence.
Qed.

(* G agrees with "is the identifier inputs" on the identifiers of function-fragment code *)
Definition Gok (G L : list string) : Prop :=
  mem "inputs" G = true /\ forall x, mem x L = true -> mem x G = false.
Lemma Gok_id G L x : Gok G L -> mem "inputs" L = false -> okb_e L (EId x) = true -> mem x G = String.eqb x "inputs".
Proof.
  intros [Gi Gl] Hi Hok. simpl in Hok. destruct (mem x L) eqn:Em.
  - rewrite (Gl x Em). symmetry. apply (local_not_inputs x L Em Hi).
  - simpl in Hok. rewrite Hok. apply String.eqb_eq in Hok. subst. exact Gi.
Qed.

Definition Wpost (G : list string) (ins : list (list string)) (D : list string) (ad : list string) (r : wres) : Prop :=
  exists D', r = WOk (WN G ins D') /\ incl D D' /\ incl ad D'.

Lemma Wpost_seq G ins D a1 a2 ad r1 (k : wst -> wres) :
  Wpost G ins D a1 r1 -> (forall D1, Wpost G ins D1 a2 (k (WN G ins D1))) ->
  incl ad (a1 ++ a2) -> Wpost G ins D ad (wbind r1 k).
Proof.
  intros [D1 [-> [I1 A1]]] H Had. destruct (H D1) as [D2 [E2 [I2 A2]]].
  exists D2. simpl. split; [exact E2|]. split; [eapply incl_tran; eauto|].
  intros z Hz. apply Had in Hz. apply in_app_iff in Hz. destruct Hz as [Hz|Hz]; [apply I2, A1, Hz|apply A2, Hz].
Qed.
Lemma Wpost_id G ins D : Wpost G ins D [] (WOk (WN G ins D)).
Proof. exists D. split; [reflexivity|]. split; [apply incl_refl|apply incl_nil_l]. Qed.

Lemma enter_dot_NI G ins x f D :
  shape ins -> is_reserved f = false -> mem x G = String.eqb x "inputs" ->
  Wpost G ins D (inputs_key (EId x) [f]) (enter_dot (EId x) f (WN G ins D)).
Proof.
  intros Hs Hr Hx. unfold enter_dot; simpl. rewrite (in_global_NI x G ins Hs), Hx.
  destruct (String.eqb x "inputs"); [rewrite Hr; exists (f :: D)|exists D];
    (split; [reflexivity|]); (split; [try apply incl_tl; apply incl_refl|]).
  - intros z [<-|[]]. left; reflexivity.
  - apply incl_nil_l.
Qed.
Lemma enter_index_NI G ins x dq s D :
  shape ins -> strip_q (token_text dq s) = s -> String.eqb s "" = false -> mem x G = String.eqb x "inputs" ->
  Wpost G ins D (inputs_key (EId x) [s]) (enter_index (EId x) (EStr dq s) (WN G ins D)).
Proof.
  intros Hs A B Hx. unfold enter_index; simpl. rewrite (in_global_NI x G ins Hs), Hx.
  destruct (String.eqb x "inputs"); [rewrite A, B; exists (s :: D)|exists D];
    (split; [reflexivity|]); (split; [try apply incl_tl; apply incl_refl|]).
  - intros z [<-|[]]. left; reflexivity.
  - apply incl_nil_l.
Qed.

(* enterFunctionDeclaration adds no shadow when no parameter is a tracked name *)
Lemma fundecl_NI : forall G ps D, (forall p, In p ps -> mem p G = false) ->
  enter_fundecl ps (WN G [] D) = WN G [[]] D.
Proof.
  intros G ps D H. unfold enter_fundecl.
  change (set_nm (add_scope (nm (WN G [] D))) (WN G [] D)) with (WN G [[]] D).
  induction ps as [|p ps IH]; simpl; [reflexivity|].
  rewrite (contains_NI p G [[]] (or_intror eq_refl)), (H p (or_introl eq_refl)).
  apply IH. intros q Hq. apply H. right; exact Hq.
Qed.

Definition Pe (e : expr) : Prop := forall G L ins D,
  okb_e L e = true -> mem "inputs" L = false -> Gok G L -> shape ins -> Wpost G ins D (ad_e e) (walk_e e (WN G ins D)).
Definition Pl (l : elist) : Prop := forall G L ins D,
  okb_l L l = true -> mem "inputs" L = false -> Gok G L -> shape ins -> Wpost G ins D (ad_l l) (walk_l l (WN G ins D)).
Definition Ps (c : stmt) : Prop := forall top G L ins D,
  okb_s top L c = true -> mem "inputs" L = false -> Gok G L -> (top = true -> G = ["inputs"]) ->
  (ins = [] \/ (ins = [[]] /\ top = false)) ->
  Wpost G ins D (ad_s c) (walk_s c (WN G ins D)).

Lemma shape_of ins top : (ins = [] \/ (ins = [[]] /\ top = false)) -> shape ins.
Proof. intros [->|[-> _]]; [left|right]; reflexivity. Qed.

Lemma Gok_inputs L : mem "inputs" L = false -> Gok ["inputs"] L.
Proof.
  intros Hi. split; [reflexivity|]. intros x Hx. rewrite mem_cons. simpl. rewrite orb_false_r.
  apply (local_not_inputs x L Hx Hi).
Qed.

Lemma W_all : (forall e, Pe e) /\ (forall l, Pl l) /\ (forall c, Ps c).
Proof.
  apply ast_mutind; unfold Pe, Pl, Ps.
  - intros n G L ins D _ _ _ _. apply Wpost_id.
  - intros dq s G L ins D _ _ _ _. apply Wpost_id.
  - intros b G L ins D _ _ _ _. apply Wpost_id.
  - intros x G L ins D _ _ _ _. apply Wpost_id.
  - (* EDot *)
    intros e IH f G L ins D Hok Hi HG Hs. simpl in Hok. apply andb_true_iff in Hok. destruct Hok as [H1 H2].
    simpl. destruct (get_name e) as [x|] eqn:En.
    + apply get_name_some in En; subst e. apply negb_true_iff in H2.
      eapply Wpost_seq; [apply enter_dot_NI; [assumption|assumption|apply (Gok_id G L x HG Hi H1)]| |apply incl_refl].
      intros D1. apply Wpost_id.
    + rewrite (enter_dot_none _ _ _ En). simpl.
      destruct (IH G L ins D H1 Hi HG Hs) as [D' [E [I1 A1]]]. exists D'. split; [exact E|]. split; [exact I1|].
      intros z Hz. apply in_app_iff in Hz. destruct Hz as [Hz|Hz]; [|apply A1; exact Hz].
      destruct e; simpl in En, Hz; try contradiction. discriminate.
  - (* EIdx *)
    intros e IH k IHk G L ins D Hok Hi HG Hs. simpl in Hok. apply andb_true_iff in Hok. destruct Hok as [H1 H2].
    simpl. destruct (get_name e) as [x|] eqn:En.
    + apply get_name_some in En; subst e. apply good_key_inv in H2. destruct H2 as [dq [s [-> [A B]]]].
      eapply Wpost_seq; [apply enter_index_NI; [assumption|assumption|assumption|apply (Gok_id G L x HG Hi H1)]| |].
      * intros D1. simpl. apply Wpost_id.
      * simpl. inc.
    + rewrite (enter_index_none _ _ _ En). simpl.
      apply andb_true_iff in H2. destruct H2 as [_ Hk].
      eapply Wpost_seq; [apply (IH G L ins D H1 Hi HG Hs)|intros D1; apply (IHk G L ins D1 Hk Hi HG Hs)|].
      intros z Hz. apply in_app_iff in Hz. destruct Hz as [Hz|Hz]; [|exact Hz].
      destruct e; simpl in En, Hz; try contradiction. discriminate.
  - (* EAdd *)
    intros a IHa b IHb G L ins D Hok Hi HG Hs. simpl in Hok. apply andb_true_iff in Hok. destruct Hok as [H1 H2].
    simpl. eapply Wpost_seq; [apply (IHa G L ins D H1 Hi HG Hs)|intros D1; apply (IHb G L ins D1 H2 Hi HG Hs)|apply incl_refl].
  - (* ECond *)
    intros c IHc a IHa b IHb G L ins D Hok Hi HG Hs. simpl in Hok.
    apply andb_true_iff in Hok. destruct Hok as [Hok H3]. apply andb_true_iff in Hok. destruct Hok as [H1 H2].
    simpl. eapply Wpost_seq; [apply (IHc G L ins D H1 Hi HG Hs)| |apply incl_refl].
    intros D1. eapply Wpost_seq; [apply (IHa G L ins D1 H2 Hi HG Hs)|intros D2; apply (IHb G L ins D2 H3 Hi HG Hs)|apply incl_refl].
  - (* EParen *)
    intros e IH G L ins D Hok Hi HG Hs. simpl in *. apply (IH G L ins D Hok Hi HG Hs).
  - (* EAssign *)
    intros x r IH G L ins D Hok Hi HG Hs. simpl in Hok.
    apply andb_true_iff in Hok. destruct Hok as [Hok Hm]. apply andb_true_iff in Hok. destruct Hok as [Hx Hr].
    simpl.
    assert (Ea : enter_assign x r (WN G ins D) = WOk (WN G ins D)).
    { unfold enter_assign. simpl. rewrite (contains_NI x G ins Hs), (proj2 HG x Hx).
      destruct (get_name r) as [y|] eqn:En; [|reflexivity].
      apply get_name_some in En; subst r. simpl in Hm. apply negb_true_iff in Hm. apply negb_false_iff in Hm.
      rewrite (contains_NI y G ins Hs), (proj2 HG y Hm). reflexivity. }
    rewrite Ea. simpl. apply (IH G L ins D Hr Hi HG Hs).
  - (* ECall *)
    intros f IHf args IHa G L ins D Hok Hi HG Hs. simpl in Hok. apply andb_true_iff in Hok. destruct Hok as [H1 H2].
    destruct f; try discriminate.
    + simpl. apply (IHa G L ins D H2 Hi HG Hs).
    + apply andb_true_iff in H1. destruct H1 as [H1 _].
      change (walk_e (ECall (EDot f f0) args) (WN G ins D)) with (wbind (walk_e (EDot f f0) (WN G ins D)) (walk_l args)).
      eapply Wpost_seq; [apply (IHf G L ins D H1 Hi HG Hs)|intros D1; apply (IHa G L ins D1 H2 Hi HG Hs)|apply incl_refl].
  - (* EFun *)
    intros ps body _ G L ins D Hok. simpl in Hok. discriminate.
  - (* EOp *)
    intros o ex args IHa G L ins D Hok Hi HG Hs. simpl in Hok. simpl. apply (IHa G L ins D Hok Hi HG Hs).
  - (* ELogic *)
    intros isand a IHa b IHb G L ins D Hok Hi HG Hs. simpl in Hok. apply andb_true_iff in Hok. destruct Hok as [H1 H2].
    simpl. eapply Wpost_seq; [apply (IHa G L ins D H1 Hi HG Hs)|intros D1; apply (IHb G L ins D1 H2 Hi HG Hs)|apply incl_refl].
  - intros G L ins D _ _ _ _. apply Wpost_id.
  - (* ECons *)
    intros e IHe r IHr G L ins D Hok Hi HG Hs. simpl in Hok.
    apply andb_true_iff in Hok. destruct Hok as [Hok H3]. apply andb_true_iff in Hok. destruct Hok as [H1 _].
    simpl. eapply Wpost_seq; [apply (IHe G L ins D H1 Hi HG Hs)|intros D1; apply (IHr G L ins D1 H3 Hi HG Hs)|apply incl_refl].
  - intros top G L ins D _ _ _ _ _. apply Wpost_id.
  - (* SSeq *)
    intros a IHa b IHb top G L ins D Hok Hi HG Ht Hs. simpl in Hok. apply andb_true_iff in Hok. destruct Hok as [H1 H2].
    simpl. eapply Wpost_seq; [apply (IHa top G L ins D H1 Hi HG Ht Hs)|intros D1; apply (IHb top G L ins D1 H2 Hi HG Ht Hs)|apply incl_refl].
  - intros x top G L ins D _ _ _ _ _. apply Wpost_id.
  - (* SVarI *)
    intros x e IH top G L ins D Hok Hi HG Ht Hs. simpl in Hok.
    apply andb_true_iff in Hok. destruct Hok as [Hok _]. apply andb_true_iff in Hok. destruct Hok as [_ He].
    simpl. apply (IH G L ins D He Hi HG (shape_of _ _ Hs)).
  - intros e IH top G L ins D Hok Hi HG Ht Hs. simpl in *. apply (IH G L ins D Hok Hi HG (shape_of _ _ Hs)).
  - intros e IH top G L ins D Hok Hi HG Ht Hs. simpl in Hok. apply andb_true_iff in Hok. destruct Hok as [He _].
    simpl. apply (IH G L ins D He Hi HG (shape_of _ _ Hs)).
  - (* SIf *)
    intros c IHc t IHt f IHf top G L ins D Hok Hi HG Ht Hs. simpl in Hok.
    apply andb_true_iff in Hok. destruct Hok as [Hok H3]. apply andb_true_iff in Hok. destruct Hok as [H1 H2].
    assert (Hs' : ins = [] \/ ins = [[]] /\ false = false) by (destruct Hs as [->|[-> _]]; auto).
    assert (Ht' : false = true -> G = ["inputs"]) by discriminate.
    simpl. eapply Wpost_seq; [apply (IHc G L ins D H1 Hi HG (shape_of _ _ Hs))| |apply incl_refl].
    intros D1. eapply Wpost_seq; [apply (IHt false G L ins D1 H2 Hi HG Ht' Hs')|intros D2; apply (IHf false G L ins D2 H3 Hi HG Ht' Hs')|apply incl_refl].
  - (* SFun *)
    intros fn ps body IH top G L ins D Hok Hi HG Ht Hs. simpl in Hok.
    apply andb_true_iff in Hok. destruct Hok as [Hok Hni]. apply andb_true_iff in Hok. destruct Hok as [Htop Hb].
    subst top. destruct Hs as [->|[_ C]]; [|discriminate]. apply negb_true_iff in Hni.
    rewrite (Ht eq_refl) in *.
    assert (HG' : Gok ["inputs"] (ps ++ hoist_vars body)) by (apply Gok_inputs; exact Hni).
    simpl. change {| nm := NI ["inputs"] []; dp := D |} with (WN ["inputs"] [] D).
    rewrite (fundecl_NI ["inputs"] ps D).
    2:{ intros p Hp. apply (proj2 HG'). rewrite mem_app. apply orb_true_iff. left. apply mem_In. exact Hp. }
    assert (Ht' : false = true -> ["inputs"] = ["inputs"]) by reflexivity.
    destruct (IH false ["inputs"] _ [[]] D Hb Hni HG' Ht' (or_intror (conj eq_refl eq_refl))) as [D' [E [I1 A1]]].
    rewrite E. simpl. exists D'. split; [reflexivity|]. split; [exact I1|exact A1].
  - (* SFunE *)
    intros fx ps body IH top G L ins D Hok Hi HG Ht Hs. simpl in Hok.
    apply andb_true_iff in Hok. destruct Hok as [Hok Hni]. apply andb_true_iff in Hok. destruct Hok as [Hok Hb].
    apply andb_true_iff in Hok. destruct Hok as [Htop _].
    subst top. destruct Hs as [->|[_ C]]; [|discriminate]. apply negb_true_iff in Hni.
    rewrite (Ht eq_refl) in *.
    assert (HG' : Gok ["inputs"] (ps ++ hoist_vars body)) by (apply Gok_inputs; exact Hni).
    assert (Ht' : false = true -> ["inputs"] = ["inputs"]) by reflexivity.
    simpl. apply (IH false ["inputs"] _ [] D Hb Hni HG' Ht' (or_introl eq_refl)).
  - (* SFor *)
    intros fi IHi fc IHc fu IHu fb IHb top G L ins D Hok Hi HG Ht Hs. simpl in Hok.
    apply andb_true_iff in Hok. destruct Hok as [Hok H4]. apply andb_true_iff in Hok. destruct Hok as [Hok H3].
    apply andb_true_iff in Hok. destruct Hok as [H1 H2].
    assert (Hs' : ins = [] \/ ins = [[]] /\ false = false) by (destruct Hs as [->|[-> _]]; auto).
    assert (Ht' : false = true -> G = ["inputs"]) by discriminate.
    simpl. eapply Wpost_seq; [apply (IHi false G L ins D H1 Hi HG Ht' Hs')| |apply incl_refl].
    intros D1. eapply Wpost_seq; [apply (IHc G L ins D1 H2 Hi HG (shape_of _ _ Hs))| |apply incl_refl].
    intros D2. eapply Wpost_seq; [apply (IHu G L ins D2 H3 Hi HG (shape_of _ _ Hs))|intros D3; apply (IHb false G L ins D3 H4 Hi HG Ht' Hs')|apply incl_refl].
Qed.
