(* JsDeps/Funs.v — the listener on function-fragment code, the function theorem, interpolated strings. *)
From Coq Require Import List Bool NArith Ascii Lia PeanoNat.
From SF Require Import Base.Str Base.Dec JsDeps.Model JsDeps.Proofs JsDeps.Sound JsDeps.FunsA JsDeps.FunsB.
Import ListNotations.
Local Open Scope string_scope. Local Open Scope list_scope.

Scheme expr_mi := Induction for expr Sort Prop
  with elist_mi := Induction for elist Sort Prop
  with stmt_mi := Induction for stmt Sort Prop.
Combined Scheme ast_mutind from expr_mi, elist_mi, stmt_mi.

(* the listener state while walking function-fragment code: only [inputs] is tracked; inner scopes are empty *)
Definition NI (ins : list (list string)) : names := {| glob := ["inputs"]; inner := ins |}.
Definition WN (ins : list (list string)) (D : list string) : wst := {| nm := NI ins; dp := D |}.
Definition shape (ins : list (list string)) : Prop := ins = [] \/ ins = [[]].

Lemma contains_NI x ins : shape ins -> contains x (NI ins) = String.eqb x "inputs".
Proof. intros [->| ->]; unfold contains; simpl; rewrite ?orb_false_r; reflexivity. Qed.
Lemma in_global_NI x ins : shape ins -> in_global x (NI ins) = String.eqb x "inputs".
Proof. intros [->| ->]; unfold in_global; simpl; rewrite ?orb_false_r, ?andb_true_r; reflexivity. Qed.
Lemma local_not_inputs x L : mem x L = true -> mem "inputs" L = false -> String.eqb x "inputs" = false.
Proof.
  intros A B. destruct (String.eqb x "inputs") eqn:E; [|reflexivity].
  apply String.eqb_eq in E. subst. congruence.
Qed.

Definition Wpost (ins : list (list string)) (D : list string) (ad : list string) (r : wres) : Prop :=
  exists D', r = WOk (WN ins D') /\ incl D D' /\ incl ad D'.

Lemma Wpost_seq ins D a1 a2 ad r1 (k : wst -> wres) :
  Wpost ins D a1 r1 -> (forall D1, Wpost ins D1 a2 (k (WN ins D1))) ->
  incl ad (a1 ++ a2) -> Wpost ins D ad (wbind r1 k).
Proof.
  intros [D1 [-> [I1 A1]]] H Had. destruct (H D1) as [D2 [E2 [I2 A2]]].
  exists D2. simpl. split; [exact E2|]. split; [eapply incl_tran; eauto|].
  intros z Hz. apply Had in Hz. apply in_app_iff in Hz. destruct Hz as [Hz|Hz]; [apply I2, A1, Hz|apply A2, Hz].
Qed.
Lemma Wpost_id ins D : Wpost ins D [] (WOk (WN ins D)).
Proof. exists D. split; [reflexivity|]. split; [apply incl_refl|apply incl_nil_l]. Qed.

Lemma enter_dot_NI ins x f D :
  shape ins -> is_reserved f = false ->
  Wpost ins D (inputs_key (EId x) [f]) (enter_dot (EId x) f (WN ins D)).
Proof.
  intros Hs Hr. unfold enter_dot; simpl. rewrite (in_global_NI x ins Hs).
  destruct (String.eqb x "inputs"); [rewrite Hr; exists (f :: D)|exists D];
    (split; [reflexivity|]); (split; [try apply incl_tl; apply incl_refl|]).
  - intros z [<-|[]]. left; reflexivity.
  - apply incl_nil_l.
Qed.
Lemma enter_index_NI ins x dq s D :
  shape ins -> strip_q (token_text dq s) = s -> String.eqb s "" = false ->
  Wpost ins D (inputs_key (EId x) [s]) (enter_index (EId x) (EStr dq s) (WN ins D)).
Proof.
  intros Hs A B. unfold enter_index; simpl. rewrite (in_global_NI x ins Hs).
  destruct (String.eqb x "inputs"); [rewrite A, B; exists (s :: D)|exists D];
    (split; [reflexivity|]); (split; [try apply incl_tl; apply incl_refl|]).
  - intros z [<-|[]]. left; reflexivity.
  - apply incl_nil_l.
Qed.

Lemma fundecl_NI : forall ps D, mem "inputs" ps = false ->
  enter_fundecl ps (WN [] D) = WN [[]] D.
Proof.
  intros ps D H. unfold enter_fundecl.
  change (set_nm (add_scope (nm (WN [] D))) (WN [] D)) with (WN [[]] D).
  induction ps as [|p ps IH]; simpl; [reflexivity|].
  rewrite mem_cons in H. apply orb_false_iff in H. destruct H as [Hp H].
  rewrite (contains_NI p [[]] (or_intror eq_refl)).
  rewrite String.eqb_sym, Hp. apply IH; exact H.
Qed.

Definition Pe (e : expr) : Prop := forall L ins D,
  okb_e L e = true -> mem "inputs" L = false -> shape ins -> Wpost ins D (ad_e e) (walk_e e (WN ins D)).
Definition Pl (l : elist) : Prop := forall L ins D,
  okb_l L l = true -> mem "inputs" L = false -> shape ins -> Wpost ins D (ad_l l) (walk_l l (WN ins D)).
Definition Ps (c : stmt) : Prop := forall top L ins D,
  okb_s top L c = true -> mem "inputs" L = false -> (ins = [] \/ (ins = [[]] /\ top = false)) ->
  Wpost ins D (ad_s c) (walk_s c (WN ins D)).

Lemma shape_of ins top : (ins = [] \/ (ins = [[]] /\ top = false)) -> shape ins.
Proof. intros [->|[-> _]]; [left|right]; reflexivity. Qed.

Lemma W_all : (forall e, Pe e) /\ (forall l, Pl l) /\ (forall c, Ps c).
Proof.
  apply ast_mutind; unfold Pe, Pl, Ps.
  - intros n L ins D _ _ _. apply Wpost_id.
  - intros dq s L ins D _ _ _. apply Wpost_id.
  - intros b L ins D _ _ _. apply Wpost_id.
  - intros x L ins D _ _ _. apply Wpost_id.
  - (* EDot *)
    intros e IH f L ins D Hok Hi Hs. simpl in Hok. apply andb_true_iff in Hok. destruct Hok as [H1 H2].
    simpl. destruct (get_name e) as [x|] eqn:En.
    + apply get_name_some in En; subst e. apply negb_true_iff in H2.
      eapply Wpost_seq; [apply enter_dot_NI; assumption| |apply incl_refl].
      intros D1. apply Wpost_id.
    + rewrite (enter_dot_none _ _ _ En). simpl.
      destruct (IH L ins D H1 Hi Hs) as [D' [E [I1 A1]]]. exists D'. split; [exact E|]. split; [exact I1|].
      intros z Hz. apply in_app_iff in Hz. destruct Hz as [Hz|Hz]; [|apply A1; exact Hz].
      destruct e; simpl in En, Hz; try contradiction. discriminate.
  - (* EIdx *)
    intros e IH k IHk L ins D Hok Hi Hs. simpl in Hok. apply andb_true_iff in Hok. destruct Hok as [H1 H2].
    simpl. destruct (get_name e) as [x|] eqn:En.
    + apply get_name_some in En; subst e. apply good_key_inv in H2. destruct H2 as [dq [s [-> [A B]]]].
      eapply Wpost_seq; [apply enter_index_NI; assumption| |].
      * intros D1. simpl. apply Wpost_id.
      * simpl. inc.
    + rewrite (enter_index_none _ _ _ En). simpl.
      apply andb_true_iff in H2. destruct H2 as [_ Hk].
      eapply Wpost_seq; [apply (IH L ins D H1 Hi Hs)|intros D1; apply (IHk L ins D1 Hk Hi Hs)|].
      intros z Hz. apply in_app_iff in Hz. destruct Hz as [Hz|Hz]; [|exact Hz].
      destruct e; simpl in En, Hz; try contradiction. discriminate.
  - (* EAdd *)
    intros a IHa b IHb L ins D Hok Hi Hs. simpl in Hok. apply andb_true_iff in Hok. destruct Hok as [H1 H2].
    simpl. eapply Wpost_seq; [apply (IHa L ins D H1 Hi Hs)|intros D1; apply (IHb L ins D1 H2 Hi Hs)|apply incl_refl].
  - (* ECond *)
    intros c IHc a IHa b IHb L ins D Hok Hi Hs. simpl in Hok.
    apply andb_true_iff in Hok. destruct Hok as [Hok H3]. apply andb_true_iff in Hok. destruct Hok as [H1 H2].
    simpl. eapply Wpost_seq; [apply (IHc L ins D H1 Hi Hs)| |apply incl_refl].
    intros D1. eapply Wpost_seq; [apply (IHa L ins D1 H2 Hi Hs)|intros D2; apply (IHb L ins D2 H3 Hi Hs)|apply incl_refl].
  - (* EParen *)
    intros e IH L ins D Hok Hi Hs. simpl in *. apply (IH L ins D Hok Hi Hs).
  - (* EAssign *)
    intros x r IH L ins D Hok Hi Hs. simpl in Hok.
    apply andb_true_iff in Hok. destruct Hok as [Hok Hm]. apply andb_true_iff in Hok. destruct Hok as [Hx Hr].
    simpl.
    assert (Ea : enter_assign x r (WN ins D) = WOk (WN ins D)).
    { unfold enter_assign. simpl. rewrite (contains_NI x ins Hs), (local_not_inputs x L Hx Hi).
      destruct (get_name r) as [y|] eqn:En; [|reflexivity].
      apply get_name_some in En; subst r. simpl in Hm. apply negb_true_iff in Hm. apply negb_false_iff in Hm.
      rewrite (contains_NI y ins Hs), (local_not_inputs y L Hm Hi). reflexivity. }
    rewrite Ea. simpl. apply (IH L ins D Hr Hi Hs).
  - (* ECall *)
    intros f IHf args IHa L ins D Hok Hi Hs. simpl in Hok. apply andb_true_iff in Hok. destruct Hok as [H1 H2].
    destruct (get_name f) as [g|] eqn:En; [|discriminate]. apply get_name_some in En; subst f.
    simpl. apply (IHa L ins D H2 Hi Hs).
  - (* EFun *)
    intros ps body _ L ins D Hok. simpl in Hok. discriminate.
  - intros L ins D _ _ _. apply Wpost_id.
  - (* ECons *)
    intros e IHe r IHr L ins D Hok Hi Hs. simpl in Hok.
    apply andb_true_iff in Hok. destruct Hok as [Hok H3]. apply andb_true_iff in Hok. destruct Hok as [H1 _].
    simpl. eapply Wpost_seq; [apply (IHe L ins D H1 Hi Hs)|intros D1; apply (IHr L ins D1 H3 Hi Hs)|apply incl_refl].
  - intros top L ins D _ _ _. apply Wpost_id.
  - (* SSeq *)
    intros a IHa b IHb top L ins D Hok Hi Hs. simpl in Hok. apply andb_true_iff in Hok. destruct Hok as [H1 H2].
    simpl. eapply Wpost_seq; [apply (IHa top L ins D H1 Hi Hs)|intros D1; apply (IHb top L ins D1 H2 Hi Hs)|apply incl_refl].
  - intros x top L ins D _ _ _. apply Wpost_id.
  - (* SVarI *)
    intros x e IH top L ins D Hok Hi Hs. simpl in Hok.
    apply andb_true_iff in Hok. destruct Hok as [Hok _]. apply andb_true_iff in Hok. destruct Hok as [_ He].
    simpl. apply (IH L ins D He Hi (shape_of _ _ Hs)).
  - intros e IH top L ins D Hok Hi Hs. simpl in *. apply (IH L ins D Hok Hi (shape_of _ _ Hs)).
  - intros e IH top L ins D Hok Hi Hs. simpl in Hok. apply andb_true_iff in Hok. destruct Hok as [He _].
    simpl. apply (IH L ins D He Hi (shape_of _ _ Hs)).
  - (* SIf *)
    intros c IHc t IHt f IHf top L ins D Hok Hi Hs. simpl in Hok.
    apply andb_true_iff in Hok. destruct Hok as [Hok H3]. apply andb_true_iff in Hok. destruct Hok as [H1 H2].
    assert (Hs' : ins = [] \/ ins = [[]] /\ false = false) by (destruct Hs as [->|[-> _]]; auto).
    simpl. eapply Wpost_seq; [apply (IHc L ins D H1 Hi (shape_of _ _ Hs))| |apply incl_refl].
    intros D1. eapply Wpost_seq; [apply (IHt false L ins D1 H2 Hi Hs')|intros D2; apply (IHf false L ins D2 H3 Hi Hs')|apply incl_refl].
  - (* SFun *)
    intros fn ps body IH top L ins D Hok Hi Hs. simpl in Hok.
    apply andb_true_iff in Hok. destruct Hok as [Hok Hni]. apply andb_true_iff in Hok. destruct Hok as [Ht Hb].
    subst top. destruct Hs as [->|[_ C]]; [|discriminate]. apply negb_true_iff in Hni.
    assert (Hps : mem "inputs" ps = false).
    { rewrite mem_app in Hni. apply orb_false_iff in Hni. exact (proj1 Hni). }
    simpl. change {| nm := NI []; dp := D |} with (WN [] D). rewrite (fundecl_NI ps D Hps).
    destruct (IH false _ [[]] D Hb Hni (or_intror (conj eq_refl eq_refl))) as [D' [E [I1 A1]]].
    rewrite E. simpl. exists D'. split; [reflexivity|]. split; [exact I1|exact A1].
Qed.
