(* JsDeps/Funs.v — the function theorem and whole interpolated strings. *)
From Coq Require Import List Bool NArith Ascii Lia PeanoNat.
From SF Require Import Base.Str Base.Dec JsDeps.Model JsDeps.Proofs JsDeps.Sound JsDeps.FunsA JsDeps.FunsB JsDeps.FunsW.
Import ListNotations.
Local Open Scope string_scope. Local Open Scope list_scope.

Definition tv (prog : stmt) : list string := filter (fun _ => true) (nodup string_dec (hoist_vars prog)).
Definition tenv (prog : stmt) : list (string * nat) :=
  rev (alloc_names (map fst (hoist_funs prog)) (S (S (S (List.length (tv prog)))))) ++
  rev (alloc_names (tv prog) 3) ++ genv.
Definition tstore (prog : stmt) : list val :=
  gstore ++ map (fun _ => VUndef) (tv prog) ++
            map (fun f : string * (list string * stmt) => VClos (tenv prog) (fst (snd f)) (snd (snd f))) (hoist_funs prog).

Lemma run_top inp n lib body :
  run inp n lib body = exec inp n (tenv (SSeq lib body)) (SSeq lib body) (tstore (SSeq lib body), []).
Proof. reflexivity. Qed.

Lemma funs_ok : forall c L, okb_s true L c = true -> forall f, In f (hoist_funs c) ->
  okb_s false (fst (snd f) ++ hoist_vars (snd (snd f))) (snd (snd f)) = true /\
  mem "inputs" (fst (snd f) ++ hoist_vars (snd (snd f))) = false /\
  incl (ad_s (snd (snd f))) (ad_s c).
Proof.
  induction c; intros L Hok f Hf; simpl in Hf; try contradiction; simpl in Hok.
  - apply andb_true_iff in Hok. destruct Hok as [H1 H2]. apply in_app_iff in Hf. destruct Hf as [Hf|Hf].
    + destruct (IHc1 L H1 f Hf) as [A [B C]]. split; [exact A|]. split; [exact B|]. simpl. apply incl_appl; exact C.
    + destruct (IHc2 L H2 f Hf) as [A [B C]]. split; [exact A|]. split; [exact B|]. simpl. apply incl_appr; exact C.
  - destruct Hf as [<-|[]]. simpl.
    apply andb_true_iff in Hok. destruct Hok as [Hb Hni].
    apply negb_true_iff in Hni. split; [exact Hb|]. split; [exact Hni|apply incl_refl].
Qed.

Lemma SOK_init prog L : okb_s true L prog = true -> SOK (tenv prog) (ad_s prog) 1 (tstore prog, []).
Proof.
  intros Hok.
  assert (Fg : Forall (good_val (tenv prog) (ad_s prog)) (tstore prog)).
  { unfold tstore, gstore. repeat (constructor; [exact Logic.I|]). apply Forall_app. split.
    - apply Forall_forall. intros v Hv. apply in_map_iff in Hv. destruct Hv as [_ [<- _]]. exact Logic.I.
    - apply Forall_forall. intros v Hv. apply in_map_iff in Hv. destruct Hv as [f [<- Hf]].
      destruct (funs_ok prog L Hok f Hf) as [A [B C]]. simpl. repeat split; assumption. }
  assert (Fn : Forall (fun v => v <> VInp) (tl (tstore prog))).
  { unfold tstore, gstore. cbn [app tl]. repeat (constructor; [discriminate|]).
    apply Forall_app. split; apply Forall_forall; intros v Hv; apply in_map_iff in Hv; destruct Hv as [? [<- _]]; discriminate. }
  unfold SOK. cbn [fst snd]. split; [|split].
  - intros l. apply nth_Forall; [exact Fg|exact Logic.I].
  - intros l Hl. destruct l as [|l']; [lia|].
    change (nth (S l') (tstore prog) VUndef) with (nth l' (tl (tstore prog)) VUndef).
    apply (nth_Forall (fun v => v <> VInp)); [exact Fn|discriminate].
  - unfold tstore, gstore. simpl. lia.
Qed.

Lemma LocalEnv_init prog L :
  mem "inputs" L = false -> LocalEnv L 1 (tenv prog).
Proof.
  intros Hi x l Hm A. apply assoc_in in A. unfold tenv in A.
  apply in_app_or in A. destruct A as [A|A].
  - apply in_rev, alloc_in_ge in A. lia.
  - apply in_app_or in A. destruct A as [A|A].
    + apply in_rev, alloc_in_ge in A. lia.
    + apply genv_cases in A. destruct A as [[-> _]|[[_ ->]|[_ ->]]]; [congruence|lia|lia].
Qed.

(* C31_sound_functions_partial *)
Theorem sound_functions : forall inp n lib body c s,
  in_fragmentF lib body = true ->
  run inp n lib body = Ok c s ->
  exists w, deps_js lib body = WOk w /\ incl (snd s) (dp w).
Proof.
  intros inp n lib body c s Hfr H. unfold in_fragmentF in Hfr.
  apply andb_true_iff in Hfr. destruct Hfr as [Hok Hni]. apply negb_true_iff in Hni.
  set (prog := SSeq lib body) in *. rewrite run_top in H. fold prog in H.
  destruct (A_all inp (tenv prog) (ad_s prog) n) as [_ [_ As]].
  destruct (As true _ 1 _ prog _ c s Hok Hni (LocalEnv_init prog _ Hni) (fun _ => conj eq_refl (incl_refl _)) (SOK_init prog _ Hok) H) as [_ [_ [R _]]].
  destruct W_all as [_ [_ Ws]].
  destruct (Ws prog true ["inputs"] _ [] [] Hok Hni (Gok_inputs _ Hni) (fun _ => eq_refl) (or_introl eq_refl)) as [D' [E [_ A]]].
  exists (WN ["inputs"] [] D'). split; [exact E|].
  intros k Hk. destruct (R k Hk) as [[]|Hk']. simpl.
  apply A. apply in_app_iff in Hk'. destruct Hk'; assumption.
Qed.

Theorem total_functions : forall lib body, in_fragmentF lib body = true -> exists w, deps_js lib body = WOk w.
Proof.
  intros lib body Hfr. unfold in_fragmentF in Hfr.
  apply andb_true_iff in Hfr. destruct Hfr as [Hok Hni]. apply negb_true_iff in Hni.
  destruct W_all as [_ [_ Ws]].
  destruct (Ws (SSeq lib body) true ["inputs"] _ [] [] Hok Hni (Gok_inputs _ Hni) (fun _ => eq_refl) (or_introl eq_refl)) as [D' [E _]].
  exists (WN ["inputs"] [] D'). exact E.
Qed.

