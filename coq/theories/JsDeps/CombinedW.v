(* JsDeps/Combined.v — the combined fragment: aliases in the outermost frame + alias-free function declarations. *)
From Coq Require Import List Bool NArith Ascii Lia PeanoNat.
From SF Require Import Base.Str Base.Dec JsDeps.Model JsDeps.Proofs JsDeps.Sound JsDeps.FunsA JsDeps.FunsB JsDeps.FunsW JsDeps.Funs.
Import ListNotations.
Local Open Scope string_scope. Local Open Scope list_scope.

Definition sub (G A : list string) : Prop := forall z, mem z G = true -> mem z A = true.

Lemma mem_remove_sub z x G : mem z (remove_all x G) = true -> mem z G = true.
Proof.
  induction G as [|a G IH]; simpl; [auto|]. destruct (negb (String.eqb x a)); simpl.
  - destruct (String.eqb z a); [reflexivity|exact IH].
  - intros H. rewrite (IH H). apply orb_true_r.
Qed.

Lemma enter_assign_id3 x y G D :
  mem "inputs" G = true -> String.eqb x "inputs" = false ->
  exists G', enter_assign x (EId y) (WG G D) = WOk (WG G' D) /\ mem "inputs" G' = true /\
    (mem y G = true -> mem x G' = true /\ forall z, mem z G = true -> mem z G' = true) /\
    (forall z, z <> x -> mem z G = true -> mem z G' = true) /\
    (forall z, mem z G' = true -> mem z G = true \/ (z = x /\ mem y G = true)) /\
    (mem y G = false -> mem x G = false -> G' = G).
Proof.
  intros Hi Hx. unfold enter_assign; simpl. rewrite !contains_NG.
  destruct (mem x G) eqn:Ex; destruct (mem y G) eqn:Ey.
  - exists G. repeat split; auto; try discriminate.
  - unfold delete_name; simpl. rewrite Ex. exists (remove_all x G). split; [reflexivity|].
    split; [apply mem_remove_neq; [intros C; subst x; rewrite String.eqb_refl in Hx; discriminate|exact Hi]|].
    split; [intros C; discriminate|]. split; [intros z Hz Hm; apply mem_remove_neq; assumption|].
    split; [intros z Hz; left; eapply mem_remove_sub; eauto|intros _ C; discriminate].
  - exists (x :: G). split; [reflexivity|].
    split; [rewrite mem_cons, Hi; apply orb_true_r|].
    split; [intros _; split; [rewrite mem_cons, String.eqb_refl; reflexivity|
                              intros z Hz; rewrite mem_cons, Hz; apply orb_true_r]|].
    split; [intros z _ Hz; rewrite mem_cons, Hz; apply orb_true_r|].
    split; [|intros C; discriminate].
    intros z Hz. rewrite mem_cons in Hz. apply orb_true_iff in Hz. destruct Hz as [Hz|Hz]; [|left; exact Hz].
    right. apply String.eqb_eq in Hz. auto.
  - exists G. repeat split; auto; try discriminate.
Qed.

Lemma enter_dot_total e f G D : exists D', enter_dot e f (WG G D) = WOk (WG G D') /\ incl D D'.
Proof.
  destruct (get_name e) as [x|] eqn:En.
  - apply get_name_some in En; subst e. destruct (enter_dot_id x f G D) as [D' [A [B _]]]. exists D'. auto.
  - exists D. rewrite (enter_dot_none _ _ _ En). split; [reflexivity|apply incl_refl].
Qed.
Lemma enter_index_total e k G D :
  (forall x, get_name e = Some x -> mem x G = true -> good_key k = true) ->
  exists D', enter_index e k (WG G D) = WOk (WG G D') /\ incl D D'.
Proof.
  intros H. destruct (get_name e) as [x|] eqn:En.
  - apply get_name_some in En; subst e. destruct (mem x G) eqn:Ex.
    + destruct (good_key_inv k (H x eq_refl Ex)) as [dq [s [-> [A B]]]].
      destruct (enter_index_id x dq s G D A B) as [D' [E [F _]]]. exists D'. auto.
    + exists D. unfold enter_index; simpl. rewrite in_global_NG, Ex. split; [reflexivity|apply incl_refl].
  - exists D. rewrite (enter_index_none _ _ _ En). split; [reflexivity|apply incl_refl].
Qed.

Definition skipC (br : bool) (A G D G' D' fd : list string) : Prop :=
  mem "inputs" G' = true /\ sub G' A /\ incl D D' /\
  (br = true -> forall z, mem z G = true -> mem z G' = true) /\ incl fd D'.

Lemma skipC_refl br A G D : mem "inputs" G = true -> sub G A -> skipC br A G D G D [].
Proof. intros H S. split; [exact H|]. split; [exact S|]. split; [apply incl_refl|]. split; [auto|apply incl_nil_l]. Qed.
Lemma skipC_D br A G D D' : mem "inputs" G = true -> sub G A -> incl D D' -> skipC br A G D G D' [].
Proof. intros H S I. split; [exact H|]. split; [exact S|]. split; [exact I|]. split; [auto|apply incl_nil_l]. Qed.
Lemma skipC_trans br A G D G1 D1 G2 D2 f1 f2 f :
  skipC br A G D G1 D1 f1 -> skipC br A G1 D1 G2 D2 f2 -> incl f (f1 ++ f2) -> skipC br A G D G2 D2 f.
Proof.
  intros [_ [_ [B [C F1]]]] [A' [S' [B' [C' F2]]]] Hf. split; [exact A'|]. split; [exact S'|].
  split; [eapply incl_tran; eauto|]. split.
  - intros Hb z Hz. apply C'; [exact Hb|]. apply C; assumption.
  - intros z Hz. apply Hf in Hz. apply in_app_iff in Hz. destruct Hz as [Hz|Hz]; [apply B', F1, Hz|apply F2, Hz].
Qed.
Lemma skipC_weaken A G D G' D' fd : skipC true A G D G' D' fd -> forall br, skipC br A G D G' D' fd.
Proof. intros [X [S [B [C F]]]] br. split; [exact X|]. split; [exact S|]. split; [exact B|]. split; [intros _; apply C; reflexivity|exact F]. Qed.

Lemma walk_sfun br A fn ps body G D :
  okt_s br A (SFun fn ps body) = true -> mem "inputs" G = true -> sub G A ->
  exists D', walk_s (SFun fn ps body) (WG G D) = WOk (WG G D') /\ incl D D' /\ incl (ad_s body) D'.
Proof.
  intros Hok Hi S. simpl in Hok.
  apply andb_true_iff in Hok. destruct Hok as [Hok Hfa]. apply andb_true_iff in Hok. destruct Hok as [Hok Hni].
  apply andb_true_iff in Hok. destruct Hok as [_ Hb]. apply negb_true_iff in Hni.
  assert (HG : Gok G (ps ++ hoist_vars body)).
  { split; [exact Hi|]. intros x Hx. destruct (mem x G) eqn:Ex; [|reflexivity].
    rewrite forallb_forall in Hfa. specialize (Hfa x (proj1 (mem_In _ _) Hx)). rewrite (S x Ex) in Hfa. discriminate. }
  destruct W_all as [_ [_ Ws]].
  assert (Ht' : false = true -> G = ["inputs"]) by discriminate.
  destruct (Ws body false G _ [[]] D Hb Hni HG Ht' (or_intror (conj eq_refl eq_refl))) as [D' [E [I1 A1]]].
  exists D'.
  change (walk_s (SFun fn ps body) (WG G D)) with
    (wbind (walk_s body (enter_fundecl ps (WN G [] D))) (fun w => WOk (set_nm (delete_scope (nm w)) w))).
  rewrite (fundecl_NI G ps D).
  2:{ intros p Hp. apply (proj2 HG). rewrite mem_app. apply orb_true_iff. left. apply mem_In. exact Hp. }
  rewrite E. simpl. split; [reflexivity|]. split; [exact I1|exact A1].
Qed.

Lemma walk_sfune br A fx ps body G D :
  okt_s br A (SFunE fx ps body) = true -> mem "inputs" G = true -> sub G A ->
  exists D', walk_s (SFunE fx ps body) (WG G D) = WOk (WG G D') /\ incl D D' /\ incl (ad_s body) D'.
Proof.
  intros Hok Hi S. simpl in Hok.
  apply andb_true_iff in Hok. destruct Hok as [Hok Hfa]. apply andb_true_iff in Hok. destruct Hok as [Hok Hni].
  apply andb_true_iff in Hok. destruct Hok as [_ Hb]. apply negb_true_iff in Hni.
  assert (HG : Gok G (ps ++ hoist_vars body)).
  { split; [exact Hi|]. intros x Hx. destruct (mem x G) eqn:Ex; [|reflexivity].
    rewrite forallb_forall in Hfa. specialize (Hfa x (proj1 (mem_In _ _) Hx)). rewrite (S x Ex) in Hfa. discriminate. }
  destruct W_all as [_ [_ Ws]].
  assert (Ht' : false = true -> G = ["inputs"]) by discriminate.
  destruct (Ws body false G _ [] D Hb Hni HG Ht' (or_introl eq_refl)) as [D' [E [I1 A1]]].
  exists D'. split; [exact E|]. split; [exact I1|exact A1].
Qed.

Definition Qe (e : expr) : Prop := forall br A G D,
  okt_e br A e = true -> mem "inputs" G = true -> sub G A ->
  exists G' D', walk_e e (WG G D) = WOk (WG G' D') /\ skipC br A G D G' D' [].
Definition Ql (l : elist) : Prop := forall br A G D,
  okt_l br A l = true -> mem "inputs" G = true -> sub G A ->
  exists G' D', walk_l l (WG G D) = WOk (WG G' D') /\ skipC br A G D G' D' [].
Definition Qs (c : stmt) : Prop := forall br A G D,
  okt_s br A c = true -> mem "inputs" G = true -> sub G A ->
  exists G' D', walk_s c (WG G D) = WOk (WG G' D') /\ skipC br A G D G' D' (fd_s c).

Ltac seq2 IH1 IH2 :=
  let G1 := fresh "G1" in let D1 := fresh "D1" in let W1 := fresh "W1" in let K1 := fresh "K1" in
  let G2 := fresh "G2" in let D2 := fresh "D2" in let W2 := fresh "W2" in let K2 := fresh "K2" in
  destruct IH1 as [G1 [D1 [W1 K1]]];
  destruct (IH2 G1 D1 (proj1 K1) (proj1 (proj2 K1))) as [G2 [D2 [W2 K2]]];
  exists G2, D2; simpl; rewrite W1; simpl; split; [exact W2|eapply skipC_trans; [exact K1|exact K2|]].

Lemma skipC_all : (forall e, Qe e) /\ (forall l, Ql l) /\ (forall c, Qs c).
Proof.
  apply ast_mutind; unfold Qe, Ql, Qs.
  - intros n br A G D _ Hi S. exists G, D. split; [reflexivity|apply skipC_refl; assumption].
  - intros dq s br A G D _ Hi S. exists G, D. split; [reflexivity|apply skipC_refl; assumption].
  - intros b br A G D _ Hi S. exists G, D. split; [reflexivity|apply skipC_refl; assumption].
  - intros x br A G D _ Hi S. exists G, D. split; [reflexivity|apply skipC_refl; assumption].
  - (* EDot *)
    intros e IH f br A G D Hok Hi S. simpl in Hok. apply andb_true_iff in Hok. destruct Hok as [H1 _].
    destruct (enter_dot_total e f G D) as [D0 [E0 I0]].
    destruct (IH br A G D0 H1 Hi S) as [G1 [D1 [W1 K1]]].
    exists G1, D1. simpl. rewrite E0. simpl. split; [exact W1|].
    eapply skipC_trans; [apply (skipC_D br A G D D0 Hi S I0)|exact K1|apply incl_refl].
  - (* EIdx *)
    intros e IH k IHk br A G D Hok Hi S. simpl in Hok.
    apply andb_true_iff in Hok. destruct Hok as [Hok H3]. apply andb_true_iff in Hok. destruct Hok as [H1 H2].
    destruct (enter_index_total e k G D) as [D0 [E0 I0]].
    { intros x Ex Hx. rewrite Ex in H3. rewrite (S x Hx) in H3. exact H3. }
    destruct (IH br A G D0 H1 Hi S) as [G1 [D1 [W1 K1]]].
    destruct (IHk br A G1 D1 H2 (proj1 K1) (proj1 (proj2 K1))) as [G2 [D2 [W2 K2]]].
    exists G2, D2. simpl. rewrite E0. simpl. rewrite W1. simpl. split; [exact W2|].
    eapply skipC_trans; [apply (skipC_D br A G D D0 Hi S I0)|eapply skipC_trans; [exact K1|exact K2|apply incl_refl]|apply incl_refl].
  - (* EAdd *)
    intros a IHa b IHb br A G D Hok Hi S. simpl in Hok. apply andb_true_iff in Hok. destruct Hok as [H1 H2].
    seq2 (IHa br A G D H1 Hi S) (fun G1 D1 => IHb br A G1 D1 H2). apply incl_refl.
  - (* ECond *)
    intros c IHc a IHa b IHb br A G D Hok Hi S. simpl in Hok.
    apply andb_true_iff in Hok. destruct Hok as [Hok H3]. apply andb_true_iff in Hok. destruct Hok as [H1 H2].
    destruct (IHc br A G D H1 Hi S) as [G1 [D1 [W1 K1]]].
    destruct (IHa true A G1 D1 H2 (proj1 K1) (proj1 (proj2 K1))) as [G2 [D2 [W2 K2]]].
    destruct (IHb true A G2 D2 H3 (proj1 K2) (proj1 (proj2 K2))) as [G3 [D3 [W3 K3]]].
    exists G3, D3. simpl. rewrite W1. simpl. rewrite W2. simpl. split; [exact W3|].
    eapply skipC_trans; [exact K1|eapply skipC_trans; [apply skipC_weaken; exact K2|apply skipC_weaken; exact K3|apply incl_refl]|apply incl_refl].
  - (* EParen *)
    intros e IH br A G D Hok Hi S. simpl in Hok. apply (IH br A G D Hok Hi S).
  - (* EAssign *)
    intros x r IH br A G D Hok Hi S. simpl in Hok.
    apply andb_true_iff in Hok. destruct Hok as [Hok H3]. apply andb_true_iff in Hok. destruct Hok as [Hx Hr].
    apply negb_true_iff in Hx.
    destruct (get_name r) as [y|] eqn:En.
    + apply get_name_some in En; subst r.
      destruct (enter_assign_id3 x y G D Hi Hx) as [G' [E [Hi' [C1 [C2 [C3 C4]]]]]].
      exists G', D. simpl. rewrite E. simpl. split; [reflexivity|].
      split; [exact Hi'|]. split.
      * intros z Hz. destruct (C3 z Hz) as [Hz'|[-> Hy]]; [apply S; exact Hz'|].
        destruct (mem x A) eqn:Ea; [reflexivity|]. apply negb_true_iff in H3. rewrite (S y Hy) in H3. discriminate.
      * split; [apply incl_refl|]. split; [|apply incl_nil_l].
        intros Hb. subst br. destruct (mem x A) eqn:Ea.
        -- simpl in H3. apply String.eqb_eq in H3. subst y. apply (proj2 (C1 Hi)).
        -- apply negb_true_iff in H3.
           assert (Ey : mem y G = false) by (destruct (mem y G) eqn:Ey; [rewrite (S y Ey) in H3; discriminate|reflexivity]).
           assert (Ex : mem x G = false) by (destruct (mem x G) eqn:Ex; [rewrite (S x Ex) in Ea; discriminate|reflexivity]).
           rewrite (C4 Ey Ex). auto.
    + destruct (IH br A G D Hr Hi S) as [G1 [D1 [W1 K1]]].
      exists G1, D1. simpl. rewrite (enter_assign_none _ _ _ En). simpl. split; [exact W1|exact K1].
  - (* ECall *)
    intros f IHf args IHa br A G D Hok Hi S. simpl in Hok. apply andb_true_iff in Hok. destruct Hok as [H1 H2].
    destruct f; try discriminate.
    + simpl. apply (IHa br A G D H2 Hi S).
    + apply andb_true_iff in H1. destruct H1 as [H1 _].
      change (walk_e (ECall (EDot f f0) args) (WG G D)) with (wbind (walk_e (EDot f f0) (WG G D)) (walk_l args)).
      destruct (IHf br A G D H1 Hi S) as [G1 [D1 [W1 K1]]].
      destruct (IHa br A G1 D1 H2 (proj1 K1) (proj1 (proj2 K1))) as [G2 [D2 [W2 K2]]].
      exists G2, D2. rewrite W1. simpl. split; [exact W2|eapply skipC_trans; [exact K1|exact K2|apply incl_refl]].
  - intros ps body _ br A G D Hok. simpl in Hok. discriminate.
  - (* EOp *)
    intros o ex args IHa br A G D Hok Hi S. simpl in Hok. simpl. apply (IHa br A G D Hok Hi S).
  - (* ELogic *)
    intros isand a IHa b IHb br A G D Hok Hi S. simpl in Hok. apply andb_true_iff in Hok. destruct Hok as [H1 H2].
    destruct (IHa br A G D H1 Hi S) as [G1 [D1 [W1 K1]]].
    destruct (IHb true A G1 D1 H2 (proj1 K1) (proj1 (proj2 K1))) as [G2 [D2 [W2 K2]]].
    exists G2, D2. simpl. rewrite W1. simpl. split; [exact W2|].
    eapply skipC_trans; [exact K1|apply skipC_weaken; exact K2|apply incl_refl].
  - intros br A G D _ Hi S. exists G, D. split; [reflexivity|apply skipC_refl; assumption].
  - (* ECons *)
    intros e IHe r IHr br A G D Hok Hi S. simpl in Hok.
    apply andb_true_iff in Hok. destruct Hok as [Hok H3]. apply andb_true_iff in Hok. destruct Hok as [H1 _].
    seq2 (IHe br A G D H1 Hi S) (fun G1 D1 => IHr br A G1 D1 H3). apply incl_refl.
  - intros br A G D _ Hi S. exists G, D. split; [reflexivity|apply skipC_refl; assumption].
  - (* SSeq *)
    intros a IHa b IHb br A G D Hok Hi S. simpl in Hok. apply andb_true_iff in Hok. destruct Hok as [H1 H2].
    seq2 (IHa br A G D H1 Hi S) (fun G1 D1 => IHb br A G1 D1 H2). apply incl_refl.
  - intros x br A G D _ Hi S. exists G, D. split; [reflexivity|apply skipC_refl; assumption].
  - (* SVarI *)
    intros x e IH br A G D Hok Hi S. simpl in Hok. apply andb_true_iff in Hok. destruct Hok as [H1 _].
    apply (IH br A G D H1 Hi S).
  - intros e IH br A G D Hok Hi S. simpl in Hok. apply (IH br A G D Hok Hi S).
  - intros e IH br A G D Hok Hi S. simpl in Hok. apply (IH br A G D Hok Hi S).
  - (* SIf *)
    intros c IHc t IHt f IHf br A G D Hok Hi S. simpl in Hok.
    apply andb_true_iff in Hok. destruct Hok as [Hok H3]. apply andb_true_iff in Hok. destruct Hok as [H1 H2].
    destruct (IHc br A G D H1 Hi S) as [G1 [D1 [W1 K1]]].
    destruct (IHt true A G1 D1 H2 (proj1 K1) (proj1 (proj2 K1))) as [G2 [D2 [W2 K2]]].
    destruct (IHf true A G2 D2 H3 (proj1 K2) (proj1 (proj2 K2))) as [G3 [D3 [W3 K3]]].
    exists G3, D3. simpl. rewrite W1. simpl. rewrite W2. simpl. split; [exact W3|].
    eapply skipC_trans; [exact K1|eapply skipC_trans; [apply skipC_weaken; exact K2|apply skipC_weaken; exact K3|apply incl_refl]|apply incl_refl].
  - (* SFun *)
    intros fn ps body _ br A G D Hok Hi S.
    destruct (walk_sfun br A fn ps body G D Hok Hi S) as [D' [E [I1 A1]]].
    exists G, D'. split; [exact E|].
    split; [exact Hi|]. split; [exact S|]. split; [exact I1|]. split; [auto|exact A1].
  - (* SFunE *)
    intros fx ps body _ br A G D Hok Hi S.
    destruct (walk_sfune br A fx ps body G D Hok Hi S) as [D' [E [I1 A1]]].
    exists G, D'. split; [exact E|].
    split; [exact Hi|]. split; [exact S|]. split; [exact I1|]. split; [auto|exact A1].
  - (* SFor *)
    intros fi _ fc _ fu _ fb _ br A G D Hok. simpl in Hok. discriminate.
Qed.
