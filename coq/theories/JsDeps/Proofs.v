(* JsDeps/Proofs.v — counterexamples (computed by the kernel) and the parameter-reference soundness proof. *)
From Coq Require Import List Bool NArith Ascii Lia.
From SF Require Import Base.Str Base.Dec JsDeps.Model.
Import ListNotations.
Local Open Scope string_scope. Local Open Scope list_scope.

(* the analysis succeeds, an evaluation terminates normally, and it read a field that is not a dependency *)
Definition misses (lib body : stmt) : Prop :=
  exists inp n w c s k, deps_js lib body = WOk w /\ run inp n lib body = Ok c s /\ In k (snd s) /\ ~ In k (dp w).
(* the analysis raises although an evaluation terminates normally *)
Definition fails_on (lib body : stmt) (e : perr) : Prop :=
  exists inp n c s, deps_js lib body = WErr e /\ run inp n lib body = Ok c s.

Definition inp0 : list (string * ival) :=
  [("a", IStr "b"); ("b", IStr "ab"); ("ab", IStr "k"); ("k", IStr "a"); ("h", IStr "q"); ("z", INum 0);
   ("class", IStr "a"); ("'a'", IStr "k")].
Definition I := EId "inputs".
Definition one := SRet (ENum 1).

Ltac miss k :=
  unfold misses; exists inp0, 60; eexists; eexists; eexists; exists k;
  split; [vm_compute; reflexivity|split; [vm_compute; reflexivity|split; [simpl; tauto|simpl; intuition discriminate]]].
Ltac fail_on :=
  unfold fails_on; exists inp0, 60; eexists; eexists; split; vm_compute; reflexivity.

Definition p_var_init := SSeq (SVarI "v" I) (SSeq (SExpr (EDot (EId "v") "b")) one).
Lemma var_init_misses : misses SSkip p_var_init. Proof. miss "b". Qed.

Definition p_chain := SSeq (SVar "v") (SSeq (SVar "w") (SSeq (SExpr (EAssign "v" (EAssign "w" I)))
                        (SSeq (SExpr (EDot (EId "v") "h")) one))).
Lemma chain_assign_misses : misses SSkip p_chain. Proof. miss "h". Qed.

Definition p_paren := SSeq (SExpr (EDot (EParen I) "a")) one.
Lemma paren_misses : misses SSkip p_paren. Proof. miss "a". Qed.
Definition p_ternary := SSeq (SExpr (EDot (EParen (ECond (EDot I "k") I I)) "a")) one.
Lemma ternary_misses : misses SSkip p_ternary. Proof. miss "a". Qed.

Definition f_param := SFun "g" ["i"] (SRet (EDot (EId "i") "b")).
Definition p_fn_param := SSeq f_param (SSeq (SExpr (ECall (EId "g") (ECons I ENil))) one).
Lemma fn_param_misses : misses SSkip p_fn_param. Proof. miss "b". Qed.
(* the same through an expressionLib function and a $(...) expression *)
Lemma fn_param_lib_misses : misses f_param (SRet (EParen (ECall (EId "g") (ECons I ENil)))). Proof. miss "b". Qed.

Definition p_fn_return := SSeq (SFun "g" [] (SRet I)) (SSeq (SExpr (EDot (ECall (EId "g") ENil) "h")) one).
Lemma fn_return_misses : misses SSkip p_fn_return. Proof. miss "h". Qed.

Definition p_closure_late :=
  SSeq (SVar "v") (SSeq (SFun "g" [] (SRet (EDot (EId "v") "b"))) (SSeq (SExpr (EAssign "v" I))
       (SSeq (SExpr (ECall (EId "g") ENil)) one))).
Lemma closure_late_misses : misses SSkip p_closure_late. Proof. miss "b". Qed.

Definition p_inner_scope :=
  SSeq (SFun "g" [] (SSeq (SVar "y") (SSeq (SExpr (EAssign "y" I)) (SRet (EDot (EId "y") "k")))))
       (SSeq (SExpr (ECall (EId "g") ENil)) one).
Lemma inner_scope_misses : misses SSkip p_inner_scope. Proof. miss "k". Qed.

Definition p_branch_delete :=
  SSeq (SVar "v") (SSeq (SExpr (EAssign "v" I)) (SSeq (SVarI "w" (EStr true "s"))
       (SSeq (SIf (EDot I "z") (SExpr (EAssign "v" (EId "w"))) SSkip) (SSeq (SExpr (EDot (EId "v") "h")) one)))).
Lemma branch_delete_misses : misses SSkip p_branch_delete. Proof. miss "h". Qed.

Definition p_reserved := SSeq (SExpr (EDot I "class")) one.
Lemma reserved_misses : misses SSkip p_reserved. Proof. miss "class". Qed.

Definition p_strip := SSeq (SExpr (EIdx I (EStr true "'a'"))) one.
Lemma strip_misses : misses SSkip p_strip. Proof. miss "'a'". Qed.

Definition p_computed_var := SSeq (SVarI "k" (EStr false "a")) (SRet (EIdx I (EId "k"))).
Lemma computed_var_fails : fails_on SSkip p_computed_var AttributeError. Proof. fail_on. Qed.
Definition p_computed_concat := SRet (EIdx I (EAdd (EStr true "a") (EStr true "b"))).
Lemma computed_concat_fails : fails_on SSkip p_computed_concat AttributeError. Proof. fail_on. Qed.
Definition p_computed_num := SRet (EIdx I (ENum 0)).
Lemma computed_num_fails : fails_on SSkip p_computed_num AttributeError. Proof. fail_on. Qed.

Definition p_nested_delete :=
  SSeq (SVar "v") (SSeq (SExpr (EAssign "v" I)) (SSeq (SVarI "w" (EStr true "s"))
       (SSeq (SFun "g" [] (SSeq (SExpr (EAssign "v" (EId "w"))) (SRet (EId "w")))) one))).
Lemma nested_delete_fails : fails_on SSkip p_nested_delete KeyError. Proof. fail_on. Qed.

Lemma ref_index_misses :
  exists inp n c s, run_ref inp n "inputs" [SgIdx 1] = Ok c s /\ In "1" (snd s) /\ deps_ref "inputs" "inputs" [SgIdx 1] = [].
Proof. exists inp0, 60. eexists. eexists. split; [vm_compute; reflexivity|split; [simpl; tauto|reflexivity]]. Qed.

(* positive instances: what the listener does track *)
Definition p_alias_ok := SSeq (SVar "x") (SSeq (SExpr (EAssign "x" I)) (SRet (EDot (EId "x") "k"))).
Lemma alias_ok : exists w c s, deps_js SSkip p_alias_ok = WOk w /\ run inp0 60 SSkip p_alias_ok = Ok c s /\
                               snd s = ["k"] /\ dp w = ["k"].
Proof. eexists. eexists. eexists. repeat split; vm_compute; reflexivity. Qed.


(* ---------------------------------------------------------------------------------------------- *)
(* parameter references: every terminating evaluation reads at most the key of the first segment, which is
   exactly what regex_eval of the DependencyResolver records *)


Definition env0 : list (string * nat) := genv.
Definition st0 : st := (gstore, []).

Lemma get_prop_spec inp v k s v' s' :
  get_prop inp v k s = Ok v' s' ->
  v' <> VInp /\ ((v = VInp /\ s' = (fst s, k :: snd s)) \/ (v <> VInp /\ s' = s)).
Proof.
  destruct v; simpl; intros H; try discriminate.
  - inversion H; subst. split; [discriminate|right; split; [discriminate|reflexivity]].
  - destruct (String.eqb k "length"); [|destruct (all_digits k); [discriminate|]]; inversion H; subst;
      (split; [discriminate|right; split; [discriminate|reflexivity]]).
  - inversion H; subst. split; [discriminate|right; split; [discriminate|reflexivity]].
  - inversion H; subst. split.
    + destruct (assoc k inp) as [i|]; [destruct i|]; discriminate.
    + left; split; reflexivity.
  - inversion H; subst. split.
    + destruct (assoc k fs); discriminate.
    + right; split; [discriminate|reflexivity].
Qed.

Definition chain (l : list seg) : expr := fold_left seg_access l (EId "inputs").

Definition chain_post (l : list seg) (v : val) (s' : st) : Prop :=
  fst s' = gstore /\
  match l with
  | [] => v = VInp /\ snd s' = []
  | g :: _ => v <> VInp /\ snd s' = [seg_key g]
  end.

Lemma access_step inp l v1 s1 k v s' g :
  chain_post l v1 s1 -> get_prop inp v1 k s1 = Ok v s' -> (l = [] -> k = seg_key g) ->
  chain_post (l ++ [g]) v s'.
Proof.
  intros [Hf Hl] H Hk. apply get_prop_spec in H. destruct H as [Hv H].
  destruct l as [|g0 l'].
  - destruct Hl as [-> Hs]. destruct H as [[_ ->]|[C _]]; [|congruence].
    simpl. split; [exact Hf|]. split; [exact Hv|]. simpl. rewrite Hs, (Hk eq_refl). reflexivity.
  - destruct Hl as [Hn Hs]. destruct H as [[C _]|[_ ->]]; [congruence|].
    simpl. split; [exact Hf|]. split; [exact Hv|exact Hs].
Qed.

Lemma chain_eval inp l : forall n v s',
  eval_e inp n env0 (chain l) st0 = Ok v s' -> chain_post l v s'.
Proof.
  induction l as [|g l IH] using rev_ind; intros n v s' H.
  - destruct n; [discriminate|]. simpl in H. inversion H; subst. repeat split.
  - unfold chain in *. rewrite fold_left_app in H. simpl in H.
    destruct n as [|n]; [discriminate|].
    destruct g as [f|raw|raw|m]; simpl in H.
    + destruct (eval_e inp n env0 (fold_left seg_access l (EId "inputs")) st0) as [v1 s1| | |] eqn:E; try discriminate.
      simpl in H. eapply access_step; [eapply IH; exact E|exact H|reflexivity].
    + destruct (eval_e inp n env0 (fold_left seg_access l (EId "inputs")) st0) as [v1 s1| | |] eqn:E; try discriminate.
      simpl in H. destruct n as [|n']; [discriminate|]. simpl in H.
      destruct v1; try discriminate;
        (eapply access_step; [eapply IH; exact E|exact H|reflexivity]).
    + destruct (eval_e inp n env0 (fold_left seg_access l (EId "inputs")) st0) as [v1 s1| | |] eqn:E; try discriminate.
      simpl in H. destruct n as [|n']; [discriminate|]. simpl in H.
      destruct v1; try discriminate;
        (eapply access_step; [eapply IH; exact E|exact H|reflexivity]).
    + destruct (eval_e inp n env0 (fold_left seg_access l (EId "inputs")) st0) as [v1 s1| | |] eqn:E; try discriminate.
      simpl in H. destruct n as [|n']; [discriminate|]. simpl in H.
      destruct v1; try discriminate;
        (eapply access_step; [eapply IH; exact E|exact H|reflexivity]).
Qed.

Lemma run_ref_eval inp n segs c s :
  run_ref inp n "inputs" segs = Ok c s ->
  exists m v, eval_e inp m env0 (chain segs) st0 = Ok v s.
Proof.
  unfold run_ref, run. cbn [enter_frame]. simpl.
  intros H.
  destruct n as [|n]; [discriminate|]. simpl in H.
  destruct n as [|n]; [discriminate|]. simpl in H.
  destruct n as [|n]; [discriminate|]. simpl in H.
  fold (chain segs) in H. unfold ref_expr in H. fold (chain segs) in H.
  match type of H with bind ?X _ = _ => destruct X as [v s1| | |] eqn:E; try discriminate end.
  simpl in H. inversion H; subst. exists n, v. exact E.
Qed.

Lemma paramref_sound inp n segs c s :
  match segs with SgIdx _ :: _ => False | g :: _ => seg_key g <> "" | [] => True end ->
  run_ref inp n "inputs" segs = Ok c s ->
  incl (snd s) (deps_ref "inputs" "inputs" segs).
Proof.
  intros Hs H. apply run_ref_eval in H. destruct H as [m [v H]].
  apply chain_eval in H. destruct H as [_ H].
  destruct segs as [|g r].
  - destruct H as [_ ->]. intros x [].
  - destruct H as [_ ->]. unfold deps_ref. simpl.
    destruct g as [f|raw|raw|k]; simpl in *; try contradiction.
    + destruct (String.eqb f "") eqn:E; [apply String.eqb_eq in E; contradiction|apply incl_refl].
    + destruct (String.eqb (unesc2 raw) "") eqn:E; [apply String.eqb_eq in E; contradiction|apply incl_refl].
    + destruct (String.eqb (unesc2 raw) "") eqn:E; [apply String.eqb_eq in E; contradiction|apply incl_refl].
Qed.
