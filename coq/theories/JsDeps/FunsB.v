(* JsDeps/Funs.v — Lemma A, the walk of function-fragment code, the function theorem and interpolation. *)
From Coq Require Import List Bool NArith Ascii Lia PeanoNat.
From SF Require Import Base.Str Base.Dec JsDeps.Model JsDeps.Proofs JsDeps.Sound JsDeps.FunsA.
Import ListNotations.
Local Open Scope string_scope. Local Open Scope list_scope.

Ltac inc := first [apply incl_nil_l | (let z := fresh "z" in let Hz := fresh "Hz" in unfold incl; intros z Hz; rewrite ?in_app_iff in Hz; rewrite ?in_app_iff; clear - Hz; tauto)].

Lemma add_val_gv E0 DF a b v : add_val a b = Some v -> gv E0 DF v.
Proof. destruct a; destruct b; simpl; intros H; inversion H; split; try exact Logic.I; discriminate. Qed.

Lemma key_incl (v1 : val) x k Y :
  (v1 = VInp -> x = "inputs") -> incl (inputs_key (EId x) k) Y ->
  incl (if match v1 with VInp => true | _ => false end then k else []) Y.
Proof.
  destruct v1; intros H HY; try apply incl_nil_l.
  rewrite (H eq_refl) in HY. simpl in HY. exact HY.
Qed.
Lemma op_val_gv E0 DF o vs v : op_val o vs = Some v -> gv E0 DF v.
Proof.
  unfold op_val. destruct (raw_op o vs) as [r|]; [|discriminate].
  destruct r; intros H; inversion H; subst; split; try exact Logic.I; discriminate.
Qed.
Lemma meth_val_gv E0 DF v m vs x : meth_val v m vs = Some x -> gv E0 DF x.
Proof.
  unfold meth_val. intros H.
  destruct v; destruct vs as [|a0 [|a1 r0]]; try discriminate; try (destruct a0; try discriminate);
    repeat match type of H with context [String.eqb ?p ?q] => destruct (String.eqb p q) end;
    try discriminate; inversion H; split; try exact Logic.I; discriminate.
Qed.
Lemma eval_id inp n env g s vf s1 :
  eval_e inp n env (EId g) s = Ok vf s1 -> s1 = s /\ exists l, assoc g env = Some l /\ vf = nth l (fst s) VUndef.
Proof.
  destruct n; simpl; [discriminate|]. destruct (assoc g env) as [l|]; [|discriminate].
  intros H; inversion H; subst. split; [reflexivity|]. exists l. split; reflexivity.
Qed.
Lemma not_inp_nil (v1 : val) (k : list string) :
  v1 <> VInp -> (if match v1 with VInp => true | _ => false end then k else []) = [].
Proof. destruct v1; intros H; try reflexivity. contradiction. Qed.

Section FunsB.
  Variable inp : list (string * ival).
  Variable E0 : list (string * nat).
  Variable DF : list string.
  Notation SOK' := (SOK E0 DF).
  Notation gv' := (gv E0 DF).
  Notation good' := (good_val E0 DF).

  Lemma RB_snd (s s1 s2 : st) X : snd s2 = snd s1 -> RB s s1 X -> RB s s2 X.
  Proof. intros E A k H. rewrite E in H. apply A; exact H. Qed.

  Definition stA (n : nat) : Prop :=
    (forall L base env e s v s', okb_e L e = true -> mem "inputs" L = false -> LocalEnv L base env -> SOK' base s ->
        eval_e inp n env e s = Ok v s' -> postE E0 DF L base e s v s') /\
    (forall L base env l s vs s', okb_l L l = true -> mem "inputs" L = false -> LocalEnv L base env -> SOK' base s ->
        eval_l inp n env l s = Ok vs s' -> postL E0 DF base l s vs s') /\
    (forall top L base env c s r s', okb_s top L c = true -> mem "inputs" L = false -> LocalEnv L base env ->
        (top = true -> env = E0 /\ incl (ad_s c) DF) ->
        SOK' base s -> exec inp n env c s = Ok r s' -> postS E0 DF base c s r s').

  Lemma A_all : forall n, stA n.
  Proof.
    induction n as [|n [IHe [IHl IHs]]]; [split; [|split]; intros; discriminate|].
    split; [|split].
    - (* expressions *)
      intros L base env e s v s' Hok Hi LE S H.
      destruct e; simpl in Hok; try discriminate; simpl in H.
      + inversion H; subst. split; [exact S|]. split; [apply Frame_refl|]. split; [apply RB_refl|].
        split; [exact Logic.I|discriminate].
      + inversion H; subst. split; [exact S|]. split; [apply Frame_refl|]. split; [apply RB_refl|].
        split; [exact Logic.I|discriminate].
      + inversion H; subst. split; [exact S|]. split; [apply Frame_refl|]. split; [apply RB_refl|].
        split; [exact Logic.I|discriminate].
      + (* EId *)
        destruct (assoc x env) as [l|] eqn:A; [|discriminate]. inversion H; subst.
        destruct (id_val E0 DF L base env s' x l Hok Hi LE S A) as [G V].
        split; [exact S|]. split; [apply Frame_refl|]. split; [apply RB_refl|]. split; [exact G|].
        intros Hv. simpl. destruct (V Hv) as [_ ->]. reflexivity.
      + (* EDot *)
        apply andb_true_iff in Hok. destruct Hok as [Hok1 Hok].
        destruct (get_name e) as [x|] eqn:En.
        * apply get_name_some in En; subst e.
          destruct n as [|n']; [discriminate|]. simpl in H.
          destruct (assoc x env) as [l|] eqn:A; [|discriminate]. simpl in H.
          destruct (id_val E0 DF L base env s x l Hok1 Hi LE S A) as [G V].
          destruct (prop_step inp E0 DF base s _ f v s' S H) as [S' [F' [[Gv Nv] R']]].
          split; [exact S'|]. split; [exact F'|]. split.
          -- eapply RB_weaken; [exact R'|]. apply (key_incl _ x); [intros Hv; apply (proj1 (V Hv))|cbn [ad_e]; inc].
          -- split; [exact Gv|intros C; contradiction].
        * apply negb_true_iff in Hok.
          destruct (eval_e inp n env e s) as [v1 s1| | |] eqn:E1; try discriminate. simpl in H.
          destruct (IHe L base env e s v1 s1 Hok1 Hi LE S E1) as [S1 [F1 [R1 [G1 M1]]]].
          assert (N1 : v1 <> VInp) by (intros C; apply M1 in C; congruence).
          destruct (prop_step inp E0 DF base s1 _ f v s' S1 H) as [S' [F' [[Gv Nv] R']]].
          rewrite (not_inp_nil v1 [f] N1) in R'.
          split; [exact S'|]. split; [eapply Frame_trans; eauto|]. split.
          -- eapply RB_trans; [exact R1|exact R'| |]; simpl; inc.
          -- split; [exact Gv|intros C; contradiction].
      + (* EIdx *)
        apply andb_true_iff in Hok. destruct Hok as [Hok1 Hok].
        destruct (get_name e1) as [x|] eqn:En.
        * apply get_name_some in En; subst e1.
          apply good_key_inv in Hok. destruct Hok as [dq [k [-> [Ka Kb]]]].
          destruct n as [|n']; [discriminate|]. simpl in H.
          destruct (assoc x env) as [l|] eqn:A; [|discriminate]. simpl in H.
          destruct (id_val E0 DF L base env s x l Hok1 Hi LE S A) as [G V].
          assert (H' : get_prop inp (nth l (fst s) VUndef) k s = Ok v s').
          { destruct (nth l (fst s) VUndef); exact H. }
          destruct (prop_step inp E0 DF base s _ k v s' S H') as [S' [F' [[Gv Nv] R']]].
          split; [exact S'|]. split; [exact F'|]. split.
          -- eapply RB_weaken; [exact R'|]. apply (key_incl _ x); [intros Hv; apply (proj1 (V Hv))|cbn [ad_e]; inc].
          -- split; [exact Gv|intros C; contradiction].
        * apply andb_true_iff in Hok. destruct Hok as [Hm Hk]. apply negb_true_iff in Hm.
          destruct (eval_e inp n env e1 s) as [v1 s1| | |] eqn:E1; try discriminate. simpl in H.
          destruct (IHe L base env e1 s v1 s1 Hok1 Hi LE S E1) as [S1 [F1 [R1 [G1 M1]]]].
          destruct (eval_e inp n env e2 s1) as [v2 s2| | |] eqn:E2; try discriminate. simpl in H.
          destruct (IHe L base env e2 s1 v2 s2 Hk Hi LE S1 E2) as [S2 [F2 [R2 [G2 M2]]]].
          assert (N1 : v1 <> VInp) by (intros C; apply M1 in C; congruence).
          assert (exists key, get_prop inp v1 key s2 = Ok v s') as [key H'].
          { destruct v1; try discriminate; try contradiction;
              (destruct (to_key v2) as [key|]; [exists key; exact H|discriminate]). }
          destruct (prop_step inp E0 DF base s2 _ key v s' S2 H') as [S' [F' [[Gv Nv] R']]].
          rewrite (not_inp_nil v1 [key] N1) in R'.
          split; [exact S'|]. split; [eapply Frame_trans; [exact F1|eapply Frame_trans; eauto]|]. split.
          -- assert (R12 : RB s s2 (ad_e (EIdx e1 e2) ++ DF)) by (eapply RB_trans; [exact R1|exact R2| |]; simpl; inc).
             eapply RB_trans; [exact R12|exact R'| |]; simpl; inc.
          -- split; [exact Gv|intros C; contradiction].
      + (* EAdd *)
        apply andb_true_iff in Hok. destruct Hok as [Ha Hb].
        destruct (eval_e inp n env e1 s) as [v1 s1| | |] eqn:E1; try discriminate. simpl in H.
        destruct (IHe L base env e1 s v1 s1 Ha Hi LE S E1) as [S1 [F1 [R1 [G1 M1]]]].
        destruct (eval_e inp n env e2 s1) as [v2 s2| | |] eqn:E2; try discriminate. simpl in H.
        destruct (IHe L base env e2 s1 v2 s2 Hb Hi LE S1 E2) as [S2 [F2 [R2 [G2 M2]]]].
        destruct (add_val v1 v2) as [w|] eqn:Ea; [|discriminate]. inversion H; subst.
        destruct (add_val_gv E0 DF _ _ _ Ea) as [Gw Nw].
        split; [exact S2|]. split; [eapply Frame_trans; eauto|]. split.
        * eapply RB_trans; [exact R1|exact R2| |]; simpl; inc.
        * split; [exact Gw|intros C; contradiction].
      + (* ECond *)
        apply andb_true_iff in Hok. destruct Hok as [Hok Hb]. apply andb_true_iff in Hok. destruct Hok as [Hc Ha].
        destruct (eval_e inp n env e1 s) as [vc s1| | |] eqn:E1; try discriminate. simpl in H.
        destruct (IHe L base env e1 s vc s1 Hc Hi LE S E1) as [S1 [F1 [R1 _]]].
        destruct (truthy vc).
        * destruct (IHe L base env e2 s1 v s' Ha Hi LE S1 H) as [S2 [F2 [R2 [G2 M2]]]].
          split; [exact S2|]. split; [eapply Frame_trans; eauto|]. split.
          -- eapply RB_trans; [exact R1|exact R2| |]; simpl; inc.
          -- split; [exact G2|]. intros C. simpl. rewrite (M2 C). reflexivity.
        * destruct (IHe L base env e3 s1 v s' Hb Hi LE S1 H) as [S2 [F2 [R2 [G2 M2]]]].
          split; [exact S2|]. split; [eapply Frame_trans; eauto|]. split.
          -- eapply RB_trans; [exact R1|exact R2| |]; simpl; inc.
          -- split; [exact G2|]. intros C. simpl. rewrite (M2 C). apply orb_true_r.
      + (* EParen *)
        apply (IHe L base env e s v s' Hok Hi LE S H).
      + (* EAssign *)
        apply andb_true_iff in Hok. destruct Hok as [Hok Hm]. apply andb_true_iff in Hok. destruct Hok as [Hx Hr].
        apply negb_true_iff in Hm.
        destruct (eval_e inp n env e s) as [v1 s1| | |] eqn:E1; try discriminate. simpl in H.
        destruct (IHe L base env e s v1 s1 Hr Hi LE S E1) as [S1 [F1 [R1 [G1 M1]]]].
        destruct (assoc x env) as [l|] eqn:A; [|discriminate]. inversion H; subst. clear H.
        assert (N1 : v <> VInp) by (intros C; apply M1 in C; congruence).
        destruct (store_local E0 DF base s1 l v S1 (LE x l Hx A) (conj G1 N1)) as [S' F'].
        split; [exact S'|]. split; [eapply Frame_trans; eauto|]. split.
        * eapply RB_snd; [|exact R1]. reflexivity.
        * split; [exact G1|intros C; contradiction].
      + (* ECall *)
        apply andb_true_iff in Hok. destruct Hok as [Hf Hargs].
        destruct e; try discriminate.
        * (* a call through an identifier *)
          destruct (eval_e inp n env (EId x) s) as [vf s0| | |] eqn:Ef; try discriminate. simpl in H.
          apply eval_id in Ef. destruct Ef as [-> [lg [Ag ->]]].
          destruct (eval_l inp n env args s) as [vs s2| | |] eqn:E2; try discriminate. simpl in H.
          destruct (IHl L base env args s vs s2 Hargs Hi LE S E2) as [S2 [F2 [R2 Fv]]].
          pose proof (proj1 S lg) as Gf.
          destruct (nth lg (fst s) VUndef) as [|n0|s0|b0| |fs0|cenv ps fb| |] eqn:Evf; try discriminate.
          simpl in Gf. destruct Gf as [-> [Okf [Hif Idf]]].
          destruct (call_frame E0 DF base ps fb vs s2 Okf S2 Fv) as [env'' [store'' [Efr [LE'' [S'' [Low Len'']]]]]].
          rewrite Efr in H.
          destruct (exec inp n env'' fb (store'', snd s2)) as [c s3| | |] eqn:E3; try discriminate.
          simpl in H. inversion H; subst. clear H.
          assert (Ht : false = true -> env'' = E0 /\ incl (ad_s fb) DF) by discriminate.
          destruct (IHs false _ _ env'' fb _ c s' Okf Hif LE'' Ht S'' E3) as [S3 [F3 [R3 Rv]]].
          destruct S2 as [G2 [N2 Len2]]. destruct S3 as [G3 [N3 Len3]]. destruct F3 as [F3a F3b]. simpl in *.
          split; [split; [exact G3|split]|].
          -- intros l Hl. destruct (Nat.lt_ge_cases l (List.length (fst s2))) as [Hlt|Hge].
             ++ rewrite F3a by exact Hlt. rewrite Low by exact Hlt. apply N2; exact Hl.
             ++ apply N3; exact Hge.
          -- lia.
          -- split; [|split].
             ++ eapply Frame_trans; [exact F2|]. split; simpl.
                ** intros l Hl. rewrite F3a by lia. apply Low. lia.
                ** lia.
             ++ eapply RB_trans; [exact R2| |apply incl_refl|apply incl_refl].
                intros k Hk. destruct (R3 k Hk) as [Hk'|Hk']; [left; exact Hk'|].
                right. apply in_app_iff in Hk'. apply in_app_iff. right. destruct Hk' as [Hk'|Hk']; [apply Idf; exact Hk'|exact Hk'].
             ++ destruct c as [|rv].
                ** split; [exact Logic.I|discriminate].
                ** destruct (Rv rv eq_refl) as [Grv Nrv]. split; [exact Grv|intros C; contradiction].
        * (* a method call on a receiver that is not the inputs object *)
          apply andb_true_iff in Hf. destruct Hf as [Hf Hm]. apply negb_true_iff in Hm.
          simpl in Hf. apply andb_true_iff in Hf. destruct Hf as [Hr _].
          destruct (eval_e inp n env e s) as [v1 s1| | |] eqn:E1; try discriminate. simpl in H.
          destruct (IHe L base env e s v1 s1 Hr Hi LE S E1) as [S1 [F1 [R1 [G1 M1]]]].
          destruct (eval_l inp n env args s1) as [vs s2| | |] eqn:E2; try discriminate. simpl in H.
          destruct (IHl L base env args s1 vs s2 Hargs Hi LE S1 E2) as [S2 [F2 [R2 Fv]]].
          assert (exists x, meth_val v1 f vs = Some x /\ v = x /\ s' = s2) as [x [Ex [-> ->]]].
          { destruct v1; try discriminate; (destruct (meth_val _ f vs) as [x|]; [|discriminate]);
              inversion H; subst; exists v; auto. }
          destruct (meth_val_gv E0 DF _ _ _ _ Ex) as [Gx Nx].
          split; [exact S2|]. split; [eapply Frame_trans; eauto|]. split.
          -- eapply RB_trans; [exact R1|exact R2| |]; cbn [ad_e]; inc.
          -- split; [exact Gx|intros C; contradiction].
      + (* EOp *)
        destruct (eval_l inp n env args s) as [vs s2| | |] eqn:E2; try discriminate. simpl in H.
        destruct (IHl L base env args s vs s2 Hok Hi LE S E2) as [S2 [F2 [R2 Fv]]].
        destruct (op_val o vs) as [w|] eqn:Eo; [|discriminate]. inversion H; subst.
        destruct (op_val_gv E0 DF _ _ _ Eo) as [Gw Nw].
        split; [exact S2|]. split; [exact F2|]. split; [exact R2|]. split; [exact Gw|intros C; contradiction].
      + (* ELogic *)
        apply andb_true_iff in Hok. destruct Hok as [Ha Hb].
        destruct (eval_e inp n env e1 s) as [va s1| | |] eqn:E1; try discriminate. simpl in H.
        destruct (IHe L base env e1 s va s1 Ha Hi LE S E1) as [S1 [F1 [R1 [G1 M1]]]].
        destruct (if isand then truthy va else negb (truthy va)).
        * destruct (IHe L base env e2 s1 v s' Hb Hi LE S1 H) as [S2 [F2 [R2 [G2 M2]]]].
          split; [exact S2|]. split; [eapply Frame_trans; eauto|]. split.
          -- eapply RB_trans; [exact R1|exact R2| |]; simpl; inc.
          -- split; [exact G2|]. intros C. simpl. rewrite (M2 C). apply orb_true_r.
        * inversion H; subst. split; [exact S1|]. split; [exact F1|]. split.
          -- eapply RB_weaken; [exact R1|]. simpl; inc.
          -- split; [exact G1|]. intros C. simpl. rewrite (M1 C). reflexivity.
    - (* argument lists *)
      intros L base env l s vs s' Hok Hi LE S H.
      destruct l; simpl in Hok; simpl in H.
      + inversion H; subst. split; [exact S|]. split; [apply Frame_refl|]. split; [apply RB_refl|constructor].
      + apply andb_true_iff in Hok. destruct Hok as [Hok Hr]. apply andb_true_iff in Hok. destruct Hok as [He Hm].
        apply negb_true_iff in Hm.
        destruct (eval_e inp n env e s) as [v1 s1| | |] eqn:E1; try discriminate. simpl in H.
        destruct (IHe L base env e s v1 s1 He Hi LE S E1) as [S1 [F1 [R1 [G1 M1]]]].
        destruct (eval_l inp n env l s1) as [vs2 s2| | |] eqn:E2; try discriminate. simpl in H.
        destruct (IHl L base env l s1 vs2 s2 Hr Hi LE S1 E2) as [S2 [F2 [R2 Fv]]].
        inversion H; subst.
        split; [exact S2|]. split; [eapply Frame_trans; eauto|]. split.
        * eapply RB_trans; [exact R1|exact R2| |]; simpl; inc.
        * constructor; [|exact Fv]. split; [exact G1|]. intros C; apply M1 in C; congruence.
    - (* statements *)
      intros top L base env c s r s' Hok Hi LE HT S H.
      destruct c as [|c1 c2|x|x e|e|e|cc c1 c2|fn ps body|fx fps fbody|fi fc fu fb]; simpl in Hok; simpl in H.
      + inversion H; subst. split; [exact S|]. split; [apply Frame_refl|]. split; [apply RB_refl|]. intros v C; discriminate.
      + apply andb_true_iff in Hok. destruct Hok as [Ha Hb].
        destruct (exec inp n env c1 s) as [r1 s1| | |] eqn:E1; try discriminate. simpl in H.
        assert (HT1 : top = true -> env = E0 /\ incl (ad_s c1) DF).
        { intros Et. destruct (HT Et) as [X Y]. split; [exact X|]. intros z Hz. apply Y. simpl. apply in_app_iff. left; exact Hz. }
        assert (HT2 : top = true -> env = E0 /\ incl (ad_s c2) DF).
        { intros Et. destruct (HT Et) as [X Y]. split; [exact X|]. intros z Hz. apply Y. simpl. apply in_app_iff. right; exact Hz. }
        destruct (IHs top L base env c1 s r1 s1 Ha Hi LE HT1 S E1) as [S1 [F1 [R1 V1]]].
        destruct r1.
        * destruct (IHs top L base env c2 s1 r s' Hb Hi LE HT2 S1 H) as [S2 [F2 [R2 V2]]].
          split; [exact S2|]. split; [eapply Frame_trans; eauto|]. split; [|exact V2].
          eapply RB_trans; [exact R1|exact R2| |]; simpl; inc.
        * inversion H; subst. split; [exact S1|]. split; [exact F1|]. split; [|exact V1].
          eapply RB_weaken; [exact R1|]. simpl; inc.
      + inversion H; subst. split; [exact S|]. split; [apply Frame_refl|]. split; [apply RB_refl|]. intros v C; discriminate.
      + apply andb_true_iff in Hok. destruct Hok as [Hok Hm]. apply andb_true_iff in Hok. destruct Hok as [Hx Hr].
        apply negb_true_iff in Hm.
        destruct (eval_e inp n env e s) as [v1 s1| | |] eqn:E1; try discriminate. simpl in H.
        destruct (IHe L base env e s v1 s1 Hr Hi LE S E1) as [S1 [F1 [R1 [G1 M1]]]].
        destruct (assoc x env) as [l|] eqn:A; [|discriminate]. inversion H; subst. clear H.
        assert (N1 : v1 <> VInp) by (intros C; apply M1 in C; congruence).
        destruct (store_local E0 DF base s1 l v1 S1 (LE x l Hx A) (conj G1 N1)) as [S' F'].
        split; [exact S'|]. split; [eapply Frame_trans; eauto|]. split; [|intros v C; discriminate].
        eapply RB_snd; [|exact R1]. reflexivity.
      + destruct (eval_e inp n env e s) as [v1 s1| | |] eqn:E1; try discriminate. simpl in H. inversion H; subst.
        destruct (IHe L base env e s v1 s' Hok Hi LE S E1) as [S1 [F1 [R1 _]]].
        split; [exact S1|]. split; [exact F1|]. split; [exact R1|intros v C; discriminate].
      + apply andb_true_iff in Hok. destruct Hok as [Hr Hm]. apply negb_true_iff in Hm.
        destruct (eval_e inp n env e s) as [v1 s1| | |] eqn:E1; try discriminate. simpl in H. inversion H; subst.
        destruct (IHe L base env e s v1 s' Hr Hi LE S E1) as [S1 [F1 [R1 [G1 M1]]]].
        split; [exact S1|]. split; [exact F1|]. split; [exact R1|].
        intros v C. inversion C; subst. split; [exact G1|]. intros D. apply M1 in D. congruence.
      + apply andb_true_iff in Hok. destruct Hok as [Hok Hb]. apply andb_true_iff in Hok. destruct Hok as [Hc Ha].
        destruct (eval_e inp n env cc s) as [vc s1| | |] eqn:E1; try discriminate. simpl in H.
        destruct (IHe L base env cc s vc s1 Hc Hi LE S E1) as [S1 [F1 [R1 _]]].
        assert (HF : forall c0, false = true -> env = E0 /\ incl (ad_s c0) DF) by (intros; discriminate).
        destruct (truthy vc).
        * destruct (IHs false L base env c1 s1 r s' Ha Hi LE (HF _) S1 H) as [S2 [F2 [R2 V2]]].
          split; [exact S2|]. split; [eapply Frame_trans; eauto|]. split; [|exact V2].
          eapply RB_trans; [exact R1|exact R2| |]; simpl; inc.
        * destruct (IHs false L base env c2 s1 r s' Hb Hi LE (HF _) S1 H) as [S2 [F2 [R2 V2]]].
          split; [exact S2|]. split; [eapply Frame_trans; eauto|]. split; [|exact V2].
          eapply RB_trans; [exact R1|exact R2| |]; simpl; inc.
      + inversion H; subst. split; [exact S|]. split; [apply Frame_refl|]. split; [apply RB_refl|]. intros v C; discriminate.
      + (* SFunE: var x = function(ps) { body } at the top level: the closure captures the outermost frame *)
        apply andb_true_iff in Hok. destruct Hok as [Hok Hni]. apply andb_true_iff in Hok. destruct Hok as [Hok Hb].
        apply andb_true_iff in Hok. destruct Hok as [Htop Hx]. subst top. apply negb_true_iff in Hni.
        destruct (HT eq_refl) as [-> Hd].
        destruct (assoc fx E0) as [l|] eqn:Ax; [|discriminate]. inversion H; subst. clear H.
        assert (Gc : gv E0 DF (VClos E0 fps fbody)).
        { split; [|discriminate]. simpl. repeat split; assumption. }
        destruct (store_local E0 DF base s l _ S (LE fx l Hx Ax) Gc) as [S' F'].
        split; [exact S'|]. split; [exact F'|]. split; [|intros v C; discriminate].
        eapply RB_snd; [|apply RB_refl]. reflexivity.
      + (* SFor *)
        apply andb_true_iff in Hok. destruct Hok as [Hok Hbd]. apply andb_true_iff in Hok. destruct Hok as [Hok Hu].
        apply andb_true_iff in Hok. destruct Hok as [Hin Hc].
        assert (HF : forall c0, false = true -> env = E0 /\ incl (ad_s c0) DF) by (intros; discriminate).
        destruct (exec inp n env fi s) as [r0 s0| | |] eqn:E0'; try discriminate. simpl in H.
        destruct (IHs false L base env fi s r0 s0 Hin Hi LE (HF _) S E0') as [S0 [F0 [R0 V0]]].
        destruct r0 as [|rv0].
        2:{ inversion H; subst. split; [exact S0|]. split; [exact F0|]. split; [|exact V0].
            eapply RB_weaken; [exact R0|]. simpl; inc. }
        destruct (eval_e inp n env fc s0) as [vc s1| | |] eqn:E1; try discriminate. simpl in H.
        destruct (IHe L base env fc s0 vc s1 Hc Hi LE S0 E1) as [S1 [F1 [R1 _]]].
        assert (R01 : RB s s1 (ad_s (SFor fi fc fu fb) ++ DF)).
        { eapply RB_trans; [exact R0|exact R1| |]; simpl; inc. }
        destruct (truthy vc).
        2:{ inversion H; subst. split; [exact S1|]. split; [eapply Frame_trans; eauto|]. split; [exact R01|].
            intros v C; discriminate. }
        destruct (exec inp n env fb s1) as [r2 s2| | |] eqn:E2; try discriminate. simpl in H.
        destruct (IHs false L base env fb s1 r2 s2 Hbd Hi LE (HF _) S1 E2) as [S2 [F2 [R2 V2]]].
        assert (R02 : RB s s2 (ad_s (SFor fi fc fu fb) ++ DF)).
        { eapply RB_trans; [exact R01|exact R2|apply incl_refl|]; simpl; inc. }
        destruct r2 as [|rv2].
        2:{ inversion H; subst. split; [exact S2|]. split; [eapply Frame_trans; [exact F0|eapply Frame_trans; eauto]|].
            split; [exact R02|exact V2]. }
        destruct (eval_e inp n env fu s2) as [vu s3| | |] eqn:E3; try discriminate. simpl in H.
        destruct (IHe L base env fu s2 vu s3 Hu Hi LE S2 E3) as [S3 [F3 [R3 _]]].
        assert (Hok' : okb_s false L (SFor SSkip fc fu fb) = true) by (simpl; rewrite Hc, Hu, Hbd; reflexivity).
        destruct (IHs false L base env (SFor SSkip fc fu fb) s3 r s' Hok' Hi LE (HF _) S3 H) as [S4 [F4 [R4 V4]]].
        split; [exact S4|].
        split; [eapply Frame_trans; [exact F0|eapply Frame_trans; [exact F1|eapply Frame_trans; [exact F2|eapply Frame_trans; eauto]]]|].
        split; [|exact V4].
        eapply RB_trans; [eapply RB_trans; [exact R02|exact R3|apply incl_refl|]|exact R4|apply incl_refl|]; simpl; inc.
  Qed.
End FunsB.
