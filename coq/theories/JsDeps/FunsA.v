(* JsDeps/Funs.v — soundness of the listener on the fragment with function declarations [in_fragmentF]
   and on whole interpolated strings. *)
From Coq Require Import List Bool NArith Ascii Lia PeanoNat.
From SF Require Import Base.Str Base.Dec JsDeps.Model JsDeps.Proofs JsDeps.Sound.
Import ListNotations.
Local Open Scope string_scope. Local Open Scope list_scope.

(* ---------------------------------------------------------------------------------------------- *)
(* small facts *)

Lemma mem_In x l : mem x l = true <-> In x l.
Proof.
  unfold mem. rewrite existsb_exists. split.
  - intros [y [A B]]. apply String.eqb_eq in B. subst. exact A.
  - intros H. exists x. split; [exact H|apply String.eqb_refl].
Qed.
Lemma mem_app x a b : mem x (a ++ b) = mem x a || mem x b.
Proof. unfold mem. apply existsb_app. Qed.

Lemma assoc_app {B} (x : string) (a b : list (string * B)) :
  assoc x (a ++ b) = match assoc x a with Some v => Some v | None => assoc x b end.
Proof. induction a as [|[k v] a IH]; simpl; [reflexivity|]. destruct (String.eqb x k); [reflexivity|exact IH]. Qed.
Lemma assoc_key {B} : forall (a : list (string * B)) x, In x (map fst a) -> exists v, assoc x a = Some v.
Proof.
  induction a as [|[k v] a IH]; intros x H; simpl in *; [contradiction|].
  destruct (String.eqb x k) eqn:E; [eexists; reflexivity|].
  destruct H as [H|H]; [subst; rewrite String.eqb_refl in E; discriminate|apply IH; exact H].
Qed.
Lemma alloc_keys : forall xs b, map fst (alloc_names xs b) = xs.
Proof. induction xs; intros b; simpl; [reflexivity|f_equal; apply IHxs]. Qed.

Lemma bind_keys : forall ps vs b, map fst (fst (bind_params ps vs b)) = ps.
Proof.
  induction ps as [|p ps IH]; intros vs b; simpl; [reflexivity|].
  specialize (IH (tl vs) (S b)). destruct (bind_params ps (tl vs) (S b)) as [e st]. simpl in *. f_equal. exact IH.
Qed.
Lemma bind_in_ge : forall ps vs b x l, In (x, l) (fst (bind_params ps vs b)) -> b <= l.
Proof.
  induction ps as [|p ps IH]; intros vs b x l H; simpl in H; [contradiction|].
  specialize (IH (tl vs) (S b) x l). destruct (bind_params ps (tl vs) (S b)) as [e st]. simpl in *.
  destruct H as [H|H]; [inversion H; lia|]. apply IH in H. lia.
Qed.
Lemma bind_vals (P : val -> Prop) : forall ps vs b, Forall P vs -> P VUndef -> Forall P (snd (bind_params ps vs b)).
Proof.
  induction ps as [|p ps IH]; intros vs b Hv Hu; simpl; [constructor|].
  assert (Ht : Forall P (tl vs)) by (destruct vs; [constructor|inversion Hv; assumption]).
  specialize (IH (tl vs) (S b) Ht Hu). destruct (bind_params ps (tl vs) (S b)) as [e st]. simpl in *.
  constructor; [|exact IH]. destruct vs; [exact Hu|inversion Hv; assumption].
Qed.

Lemma nth_Forall (P : val -> Prop) : forall l i, Forall P l -> P VUndef -> P (nth i l VUndef).
Proof.
  induction l as [|a l IH]; intros i H Hu; [destruct i; exact Hu|].
  inversion H; subst. destruct i; simpl; [assumption|apply IH; assumption].
Qed.
Lemma set_nth_length : forall (s : list val) l v, List.length (set_nth l v s) = List.length s.
Proof. induction s as [|a s IH]; intros l v; [destruct l; reflexivity|]. destruct l; simpl; [reflexivity|f_equal; apply IH]. Qed.

Lemma okb_no_funs : forall s L, okb_s false L s = true -> hoist_funs s = [].
Proof.
  induction s; intros L H; simpl in *; try reflexivity; try discriminate.
  apply andb_true_iff in H. destruct H as [A B]. rewrite (IHs1 _ A), (IHs2 _ B). reflexivity.
Qed.

Lemma enter_frame_nofuns cenv ps fb vs store :
  hoist_funs fb = [] ->
  let b := List.length store in
  let vars := filter (fun x => negb (mem x ps)) (nodup string_dec (hoist_vars fb)) in
  enter_frame cenv ps fb vs store =
    (rev (alloc_names vars (b + List.length ps)) ++ rev (fst (bind_params ps vs b)) ++ cenv,
     store ++ snd (bind_params ps vs b) ++ map (fun _ => VUndef) vars).
Proof.
  intros H b vars. unfold enter_frame. fold b.
  destruct (bind_params ps vs b) as [penv pvals] eqn:E. rewrite H. simpl. fold vars.
  rewrite app_nil_r. reflexivity.
Qed.

Lemma get_prop_good inp v1 k s v s' : get_prop inp v1 k s = Ok v s' ->
  match v with VClos _ _ _ => False | _ => True end.
Proof.
  destruct v1; simpl; intros H; try discriminate.
  - inversion H; subst; exact Logic.I.
  - destruct (String.eqb k "length"); [|destruct (all_digits k); [discriminate|]]; inversion H; subst; exact Logic.I.
  - inversion H; subst; exact Logic.I.
  - inversion H; subst. destruct (assoc k inp) as [i|]; [destruct i|]; exact Logic.I.
  - inversion H; subst. destruct (assoc k fs); exact Logic.I.
Qed.

(* ---------------------------------------------------------------------------------------------- *)
(* Lemma A: execution of fragment code in a frame whose local names never hold the inputs object *)

Section FunsA.
  Variable inp : list (string * ival).
  Variable E0 : list (string * nat).     (* the outermost frame: every closure captures it *)
  Variable DF : list string.             (* fields read by the declared functions *)

  Definition good_val (v : val) : Prop :=
    match v with
    | VClos cenv ps fb =>
        cenv = E0 /\ okb_s false (ps ++ hoist_vars fb) fb = true /\
        mem "inputs" (ps ++ hoist_vars fb) = false /\ incl (ad_s fb) DF
    | _ => True
    end.
  Definition gv (v : val) : Prop := good_val v /\ v <> VInp.

  Definition SOK (base : nat) (s : st) : Prop :=
    (forall l, good_val (nth l (fst s) VUndef)) /\
    (forall l, base <= l -> nth l (fst s) VUndef <> VInp) /\
    base <= List.length (fst s).
  Definition LocalEnv (L : list string) (base : nat) (env : list (string * nat)) : Prop :=
    forall x l, mem x L = true -> assoc x env = Some l -> base <= l.
  Definition RB (s s' : st) (X : list string) : Prop :=
    forall k, In k (snd s') -> In k (snd s) \/ In k X.
  Definition Frame (base : nat) (s s' : st) : Prop :=
    (forall l, l < base -> nth l (fst s') VUndef = nth l (fst s) VUndef) /\
    List.length (fst s) <= List.length (fst s').

  Lemma RB_refl s X : RB s s X. Proof. intros k H; left; exact H. Qed.
  Lemma RB_trans s s1 s2 X1 X2 X :
    RB s s1 X1 -> RB s1 s2 X2 -> incl X1 X -> incl X2 X -> RB s s2 X.
  Proof.
    intros A B I1 I2 k H. destruct (B k H) as [H1|H1]; [|right; apply I2; exact H1].
    destruct (A k H1) as [H2|H2]; [left; exact H2|right; apply I1; exact H2].
  Qed.
  Lemma RB_weaken s s' X Y : RB s s' X -> incl X Y -> RB s s' Y.
  Proof. intros A I k H. destruct (A k H); [left|right]; auto. Qed.
  Lemma Frame_refl b s : Frame b s s. Proof. split; auto. Qed.
  Lemma Frame_trans b s s1 s2 : Frame b s s1 -> Frame b s1 s2 -> Frame b s s2.
  Proof. intros [A1 A2] [B1 B2]. split; [intros l H; rewrite B1, A1; auto|lia]. Qed.

  Lemma good_undef : good_val VUndef. Proof. exact Logic.I. Qed.

  (* storing a good non-inputs value in a local cell *)
  Lemma store_local base s l v :
    SOK base s -> base <= l -> gv v ->
    SOK base (set_nth l v (fst s), snd s) /\ Frame base s (set_nth l v (fst s), snd s).
  Proof.
    intros [G [N Len]] Hl [Gv Nv]. split; [split; [|split]|split]; simpl.
    - intros l'. destruct (Nat.eq_dec l l') as [->|Hn].
      + destruct (nth_set_nth_same (fst s) l' v) as [E|E]; rewrite E; [exact Gv|exact good_undef].
      + rewrite nth_set_nth_neq by exact Hn. apply G.
    - intros l' Hb. destruct (Nat.eq_dec l l') as [->|Hn].
      + destruct (nth_set_nth_same (fst s) l' v) as [E|E]; rewrite E; [exact Nv|discriminate].
      + rewrite nth_set_nth_neq by exact Hn. apply N; exact Hb.
    - rewrite set_nth_length. exact Len.
    - intros l' Hb. apply nth_set_nth_neq. lia.
    - rewrite set_nth_length. lia.
  Qed.

  (* a property read *)
  Lemma prop_step base s v1 k v s' :
    SOK base s -> get_prop inp v1 k s = Ok v s' ->
    SOK base s' /\ Frame base s s' /\ gv v /\ RB s s' (if match v1 with VInp => true | _ => false end then [k] else []).
  Proof.
    intros S H. pose proof (get_prop_good _ _ _ _ _ _ H) as Gc. apply get_prop_spec in H.
    destruct H as [Nv [[-> ->]|[Hn ->]]].
    - split; [destruct S as [G [N Len]]; split; [|split]; simpl; assumption|].
      split; [split; simpl; auto|]. split.
      + split; [destruct v; try exact Logic.I; contradiction|exact Nv].
      + intros k' [<-|H]; [right; left; reflexivity|left; exact H].
    - split; [exact S|]. split; [apply Frame_refl|]. split.
      + split; [destruct v; try exact Logic.I; contradiction|exact Nv].
      + apply RB_refl.
  Qed.

  Definition postE (L : list string) (base : nat) (e : expr) (s : st) (v : val) (s' : st) : Prop :=
    SOK base s' /\ Frame base s s' /\ RB s s' (ad_e e ++ DF) /\ good_val v /\ (v = VInp -> may_inpB L e = true).
  Definition postL (base : nat) (l : elist) (s : st) (vs : list val) (s' : st) : Prop :=
    SOK base s' /\ Frame base s s' /\ RB s s' (ad_l l ++ DF) /\ Forall gv vs.
  Definition postS (base : nat) (c : stmt) (s : st) (r : comp) (s' : st) : Prop :=
    SOK base s' /\ Frame base s s' /\ RB s s' (ad_s c ++ DF) /\ (forall v, r = CRet v -> gv v).

  (* the value of an identifier *)
  Lemma id_val L base env s x l :
    okb_e L (EId x) = true -> mem "inputs" L = false -> LocalEnv L base env -> SOK base s ->
    assoc x env = Some l ->
    good_val (nth l (fst s) VUndef) /\ (nth l (fst s) VUndef = VInp -> x = "inputs" /\ mem x L = false).
  Proof.
    intros Hok Hi LE [G [N _]] A. split; [apply G|]. intros Hv. simpl in Hok.
    destruct (mem x L) eqn:Em.
    - exfalso. apply (N l); [eapply LE; eauto|exact Hv].
    - simpl in Hok. apply String.eqb_eq in Hok. auto.
  Qed.

  (* the frame of a call *)
  Lemma call_frame base ps fb vs s :
    okb_s false (ps ++ hoist_vars fb) fb = true -> SOK base s -> Forall gv vs ->
    exists env'' store'', enter_frame E0 ps fb vs (fst s) = (env'', store'') /\
      LocalEnv (ps ++ hoist_vars fb) (List.length (fst s)) env'' /\
      SOK (List.length (fst s)) (store'', snd s) /\
      (forall l, l < List.length (fst s) -> nth l store'' VUndef = nth l (fst s) VUndef) /\
      List.length (fst s) <= List.length store''.
  Proof.
    intros Hok [G [N Len]] Hvs.
    rewrite (enter_frame_nofuns E0 ps fb vs (fst s) (okb_no_funs _ _ Hok)).
    set (b := List.length (fst s)).
    set (vars := filter (fun x => negb (mem x ps)) (nodup string_dec (hoist_vars fb))).
    eexists. eexists. split; [reflexivity|]. split; [|split; [|split]].
    - intros x l Hm A. rewrite assoc_app in A.
      destruct (assoc x (rev (alloc_names vars (b + List.length ps)))) as [l1|] eqn:E1.
      + inversion A; subst. apply assoc_in, in_rev, alloc_in_ge in E1. lia.
      + rewrite assoc_app in A.
        assert (Hk : In x (map fst (rev (fst (bind_params ps vs b))))).
        { rewrite map_rev, bind_keys. apply in_rev. rewrite rev_involutive.
          rewrite mem_app in Hm. apply orb_true_iff in Hm. destruct Hm as [Hm|Hm]; [apply mem_In; exact Hm|].
          destruct (mem x ps) eqn:Ep; [apply mem_In; exact Ep|]. exfalso.
          assert (Hv : In x (map fst (rev (alloc_names vars (b + List.length ps))))).
          { rewrite map_rev, alloc_keys. apply in_rev. rewrite rev_involutive. unfold vars.
            apply filter_In. split; [apply nodup_In, mem_In; exact Hm|rewrite Ep; reflexivity]. }
          apply assoc_key in Hv. destruct Hv as [v Hv]. rewrite Hv in E1. discriminate. }
        apply assoc_key in Hk. destruct Hk as [l2 Hk]. rewrite Hk in A. inversion A; subst.
        apply assoc_in, in_rev, bind_in_ge in Hk. exact Hk.
    - assert (Fg : Forall good_val (snd (bind_params ps vs b) ++ map (fun _ => VUndef) vars)).
      { apply Forall_app. split.
        - apply bind_vals; [eapply Forall_impl; [|exact Hvs]; intros a [A _]; exact A|exact good_undef].
        - apply Forall_forall. intros v Hv. apply in_map_iff in Hv. destruct Hv as [_ [<- _]]. exact good_undef. }
      assert (Fn : Forall (fun v => v <> VInp) (snd (bind_params ps vs b) ++ map (fun _ => VUndef) vars)).
      { apply Forall_app. split.
        - apply bind_vals; [eapply Forall_impl; [|exact Hvs]; intros a [_ A]; exact A|discriminate].
        - apply Forall_forall. intros v Hv. apply in_map_iff in Hv. destruct Hv as [_ [<- _]]. discriminate. }
      split; [|split]; simpl.
      + intros l. destruct (Nat.lt_ge_cases l b) as [Hl|Hl].
        * rewrite app_nth1 by exact Hl. apply G.
        * rewrite app_nth2 by exact Hl. apply nth_Forall; [exact Fg|exact good_undef].
      + intros l Hl. fold b in Hl. rewrite app_nth2 by exact Hl.
        apply (nth_Forall (fun v => v <> VInp)); [exact Fn|discriminate].
      + rewrite app_length. fold b. lia.
    - intros l Hl. apply app_nth1. exact Hl.
    - rewrite app_length. lia.
  Qed.
End FunsA.
