(* JsDeps/Combined.v — simulation for the combined fragment, the combined theorem, interpolated strings. *)
From Coq Require Import List Bool NArith Ascii Lia PeanoNat.
From SF Require Import Base.Str Base.Dec JsDeps.Model JsDeps.Proofs JsDeps.Sound JsDeps.FunsA JsDeps.FunsB JsDeps.FunsW
  JsDeps.Funs JsDeps.CombinedW.
Import ListNotations.
Local Open Scope string_scope. Local Open Scope list_scope.


Section SimC.
  Variable inp : list (string * ival).
  Variable E0 : list (string * nat).
  Hypothesis inj_env : forall z x l, assoc z E0 = Some l -> assoc x E0 = Some l -> z = x.
  Variable DF : list string.
  Variable A : list string.
  Notation good' := (good_val E0 DF).
  Notation gv' := (gv E0 DF).

  Definition GS (s : st) : Prop := forall l, good' (nth l (fst s) VUndef).
  Definition J (G : list string) (s : st) : Prop :=
    mem "inputs" G = true /\ Inv E0 G s /\ sub G A /\ GS s.
  Definition RD (s : st) (D : list string) : Prop := incl (snd s) (D ++ DF).

  Lemma GS_set s l v : GS s -> good' v -> GS (set_nth l v (fst s), snd s).
  Proof.
    intros G Gv l'. simpl. destruct (Nat.eq_dec l l') as [->|Hn].
    - destruct (nth_set_nth_same (fst s) l' v) as [E|E]; rewrite E; [exact Gv|exact Logic.I].
    - rewrite nth_set_nth_neq by exact Hn. apply G.
  Qed.

  Lemma RD_mono s D D' : RD s D -> incl D D' -> RD s D'.
  Proof. intros R I k Hk. apply R in Hk. apply in_app_iff in Hk. apply in_app_iff. destruct Hk; [left; apply I|right]; assumption. Qed.

  (* a property read in the outermost frame *)
  Lemma prop_readC G D s v1 k v s' :
    J G s -> RD s D -> get_prop inp v1 k s = Ok v s' -> (v1 = VInp -> In k D) ->
    J G s' /\ RD s' D /\ gv' v.
  Proof.
    intros [Hi [I [S Gs]]] R H Hk.
    pose proof (get_prop_good _ _ _ _ _ _ H) as Gc.
    destruct (prop_read inp E0 G (D ++ DF) s v1 k v s' I R H) as [I' [R' Nv]].
    { intros Hv. apply in_app_iff. left. apply Hk; exact Hv. }
    apply get_prop_spec in H. destruct H as [_ H].
    assert (Ef : fst s' = fst s) by (destruct H as [[_ ->]|[_ ->]]; reflexivity).
    split; [split; [exact Hi|split; [exact I'|split; [exact S|]]]|].
    - intros l. rewrite Ef. apply Gs.
    - split; [exact R'|]. split; [destruct v; try exact Logic.I; contradiction|exact Nv].
  Qed.

  Definition stC (n : nat) : Prop :=
    (forall br e G D s v s', okt_e br A e = true -> J G s -> RD s D -> eval_e inp n E0 e s = Ok v s' ->
       exists G' D', walk_e e (WG G D) = WOk (WG G' D') /\ J G' s' /\ RD s' D' /\ good' v /\
                     (v = VInp -> may_inpT A e = true)) /\
    (forall br l G D s vs s', okt_l br A l = true -> J G s -> RD s D -> eval_l inp n E0 l s = Ok vs s' ->
       exists G' D', walk_l l (WG G D) = WOk (WG G' D') /\ J G' s' /\ RD s' D' /\ Forall gv' vs) /\
    (forall br c G D s r s', okt_s br A c = true -> incl (fd_s c) DF -> J G s -> RD s D -> exec inp n E0 c s = Ok r s' ->
       exists G' D', walk_s c (WG G D) = WOk (WG G' D') /\ mem "inputs" G' = true /\ sub G' A /\ RD s' D' /\
                     (r = CNormal -> J G' s')).

  Lemma C_all : forall n, stC n.
  Proof.
    induction n as [|n [IHe [IHl IHs]]]; [split; [|split]; intros; discriminate|].
    destruct skipC_all as [Ske [Skl Sks]].
    split; [|split].
    - (* expressions *)
      intros br e G D s v s' Hok HJ HR H.
      destruct e; simpl in Hok; try discriminate; simpl in H.
      + inversion H; subst. exists G, D. split; [reflexivity|]. split; [exact HJ|]. split; [exact HR|]. split; [exact Logic.I|discriminate].
      + inversion H; subst. exists G, D. split; [reflexivity|]. split; [exact HJ|]. split; [exact HR|]. split; [exact Logic.I|discriminate].
      + inversion H; subst. exists G, D. split; [reflexivity|]. split; [exact HJ|]. split; [exact HR|]. split; [exact Logic.I|discriminate].
      + (* EId *)
        destruct (assoc x E0) as [l|] eqn:Ax; [|discriminate]. inversion H; subst.
        exists G, D. split; [reflexivity|]. split; [exact HJ|]. split; [exact HR|].
        destruct HJ as [Hi [I [S Gs]]]. split; [apply Gs|].
        intros Hv. simpl. apply S. eapply I; eauto.
      + (* EDot *)
        apply andb_true_iff in Hok. destruct Hok as [H1 H2].
        destruct (get_name e) as [x|] eqn:En.
        * apply get_name_some in En; subst e.
          destruct n as [|n']; [discriminate|]. simpl in H.
          destruct (assoc x E0) as [l|] eqn:Ax; [|discriminate]. simpl in H.
          destruct (enter_dot_id x f G D) as [D' [E [F K]]].
          destruct (prop_readC G D' s _ f v s' HJ (RD_mono _ _ _ HR F) H) as [J' [R' Gv]].
          { intros Hv. destruct HJ as [Hi [I [S Gs]]]. pose proof (I x l Ax Hv) as Hx.
            apply K; [exact Hx|]. rewrite (S x Hx) in H2. simpl in H2. apply negb_true_iff in H2. exact H2. }
          exists G, D'. simpl. rewrite E. simpl. split; [reflexivity|].
          split; [exact J'|]. split; [exact R'|]. split; [exact (proj1 Gv)|]. intros C. destruct Gv; contradiction.
        * apply negb_true_iff in H2.
          destruct (eval_e inp n E0 e s) as [v1 s1| | |] eqn:E1; try discriminate. simpl in H.
          destruct (IHe br e G D s v1 s1 H1 HJ HR E1) as [G1 [D1 [W1 [J1 [R1 [Gv1 M1]]]]]].
          destruct (prop_readC G1 D1 s1 v1 f v s' J1 R1 H) as [J' [R' Gv]].
          { intros Hv. apply M1 in Hv. congruence. }
          exists G1, D1. simpl. rewrite (enter_dot_none _ _ _ En). simpl. split; [exact W1|].
          split; [exact J'|]. split; [exact R'|]. split; [exact (proj1 Gv)|]. intros C. destruct Gv; contradiction.
      + (* EIdx *)
        apply andb_true_iff in Hok. destruct Hok as [Hok H3]. apply andb_true_iff in Hok. destruct Hok as [H1 H2].
        destruct (eval_e inp n E0 e1 s) as [v1 s1| | |] eqn:E1; try discriminate. simpl in H.
        destruct (eval_e inp n E0 e2 s1) as [v2 s2| | |] eqn:E2; try discriminate. simpl in H.
        destruct (get_name e1) as [x|] eqn:En.
        * apply get_name_some in En; subst e1.
          apply eval_id in E1. destruct E1 as [-> [l [Ax ->]]].
          destruct HJ as [Hi [I [S Gs]]].
          destruct (mem x G) eqn:Ex.
          -- (* x is tracked: the key is a good literal *)
             rewrite (S x Ex) in H3. simpl in H3. apply good_key_inv in H3. destruct H3 as [dq [k [-> [Ka Kb]]]].
             destruct n as [|n']; [discriminate|]. simpl in E2. inversion E2; subst. clear E2.
             destruct (enter_index_id x dq k G D Ka Kb) as [D' [E [F K]]].
             assert (H' : get_prop inp (nth l (fst s2) VUndef) k s2 = Ok v s').
             { destruct (nth l (fst s2) VUndef); exact H. }
             destruct (prop_readC G D' s2 _ k v s' (conj Hi (conj I (conj S Gs))) (RD_mono _ _ _ HR F) H') as [J' [R' Gv]].
             { intros _. apply K. exact Ex. }
             exists G, D'. simpl. simpl in E. rewrite E. simpl. split; [reflexivity|].
             split; [exact J'|]. split; [exact R'|]. split; [exact (proj1 Gv)|]. intros C. destruct Gv; contradiction.
          -- (* x is not tracked: its value is not the inputs object *)
             assert (N1 : nth l (fst s) VUndef <> VInp).
             { intros Hv. rewrite (I x l Ax Hv) in Ex. discriminate. }
             assert (Ei : enter_index (EId x) e2 (WG G D) = WOk (WG G D)).
             { unfold enter_index; simpl. rewrite in_global_NG, Ex. reflexivity. }
             destruct (IHe br e2 G D s v2 s2 H2 (conj Hi (conj I (conj S Gs))) HR E2) as [G2 [D2 [W2 [J2 [R2 _]]]]].
             assert (exists key, get_prop inp (nth l (fst s) VUndef) key s2 = Ok v s') as [key H'].
             { destruct (nth l (fst s) VUndef); try discriminate; try contradiction;
                 (destruct (to_key v2) as [key|]; [exists key; exact H|discriminate]). }
             destruct (prop_readC G2 D2 s2 _ key v s' J2 R2 H') as [J' [R' Gv]].
             { intros Hv; contradiction. }
             exists G2, D2. simpl. rewrite Ei. simpl. split; [exact W2|].
             split; [exact J'|]. split; [exact R'|]. split; [exact (proj1 Gv)|]. intros C. destruct Gv; contradiction.
        * apply negb_true_iff in H3.
          destruct (IHe br e1 G D s v1 s1 H1 HJ HR E1) as [G1 [D1 [W1 [J1 [R1 [Gv1 M1]]]]]].
          destruct (IHe br e2 G1 D1 s1 v2 s2 H2 J1 R1 E2) as [G2 [D2 [W2 [J2 [R2 _]]]]].
          assert (N1 : v1 <> VInp) by (intros Hv; apply M1 in Hv; congruence).
          assert (exists key, get_prop inp v1 key s2 = Ok v s') as [key H'].
          { destruct v1; try discriminate; try contradiction;
              (destruct (to_key v2) as [key|]; [exists key; exact H|discriminate]). }
          destruct (prop_readC G2 D2 s2 v1 key v s' J2 R2 H') as [J' [R' Gv]].
          { intros Hv; contradiction. }
          exists G2, D2. simpl. rewrite (enter_index_none _ _ _ En). simpl. rewrite W1. simpl. split; [exact W2|].
          split; [exact J'|]. split; [exact R'|]. split; [exact (proj1 Gv)|]. intros C. destruct Gv; contradiction.
      + (* EAdd *)
        apply andb_true_iff in Hok. destruct Hok as [Ha Hb].
        destruct (eval_e inp n E0 e1 s) as [v1 s1| | |] eqn:E1; try discriminate. simpl in H.
        destruct (IHe br e1 G D s v1 s1 Ha HJ HR E1) as [G1 [D1 [W1 [J1 [R1 _]]]]].
        destruct (eval_e inp n E0 e2 s1) as [v2 s2| | |] eqn:E2; try discriminate. simpl in H.
        destruct (IHe br e2 G1 D1 s1 v2 s2 Hb J1 R1 E2) as [G2 [D2 [W2 [J2 [R2 _]]]]].
        destruct (add_val v1 v2) as [w|] eqn:Ea; [|discriminate]. inversion H; subst.
        destruct (add_val_gv E0 DF _ _ _ Ea) as [Gw Nw].
        exists G2, D2. simpl. rewrite W1. simpl. split; [exact W2|].
        split; [exact J2|]. split; [exact R2|]. split; [exact Gw|intros C; contradiction].
      + (* ECond *)
        apply andb_true_iff in Hok. destruct Hok as [Hok Hb]. apply andb_true_iff in Hok. destruct Hok as [Hc Ha].
        destruct (eval_e inp n E0 e1 s) as [vc s1| | |] eqn:E1; try discriminate. simpl in H.
        destruct (IHe br e1 G D s vc s1 Hc HJ HR E1) as [G1 [D1 [W1 [J1 [R1 _]]]]].
        destruct (truthy vc).
        * destruct (IHe true e2 G1 D1 s1 v s' Ha J1 R1 H) as [G2 [D2 [W2 [J2 [R2 [Gv2 M2]]]]]].
          destruct J2 as [Hi2 [I2 [S2 Gs2]]].
          destruct (Ske e3 true A G2 D2 Hb Hi2 S2) as [G3 [D3 [W3 [Hi3 [S3 [B3 [T3 _]]]]]]].
          exists G3, D3. simpl. rewrite W1. simpl. rewrite W2. simpl. split; [exact W3|].
          split; [split; [exact Hi3|split; [eapply Inv_mono; [apply T3; reflexivity|exact I2]|split; [exact S3|exact Gs2]]]|].
          split; [eapply RD_mono; eauto|]. split; [exact Gv2|]. intros C. rewrite (M2 C). reflexivity.
        * destruct J1 as [Hi1 [I1 [S1 Gs1]]].
          destruct (Ske e2 true A G1 D1 Ha Hi1 S1) as [G2 [D2 [W2 [Hi2 [S2 [B2 [T2 _]]]]]]].
          assert (J2 : J G2 s1).
          { split; [exact Hi2|split; [eapply Inv_mono; [apply T2; reflexivity|exact I1]|split; [exact S2|exact Gs1]]]. }
          destruct (IHe true e3 G2 D2 s1 v s' Hb J2 (RD_mono _ _ _ R1 B2) H) as [G3 [D3 [W3 [J3 [R3 [Gv3 M3]]]]]].
          exists G3, D3. simpl. rewrite W1. simpl. rewrite W2. simpl. split; [exact W3|].
          split; [exact J3|]. split; [exact R3|]. split; [exact Gv3|]. intros C. rewrite (M3 C). apply orb_true_r.
      + (* EParen *)
        apply (IHe br e G D s v s' Hok HJ HR H).
      + (* EAssign *)
        apply andb_true_iff in Hok. destruct Hok as [Hok H3]. apply andb_true_iff in Hok. destruct Hok as [Hx Hr].
        apply negb_true_iff in Hx.
        destruct (eval_e inp n E0 e s) as [v1 s1| | |] eqn:E1; try discriminate. simpl in H.
        destruct (assoc x E0) as [l|] eqn:Ax; [|discriminate]. inversion H; subst. clear H.
        destruct (get_name e) as [y|] eqn:En.
        * apply get_name_some in En; subst e.
          apply eval_id in E1. destruct E1 as [-> [ly [Ay ->]]].
          destruct HJ as [Hi [I [S Gs]]].
          destruct (enter_assign_id3 x y G D Hi Hx) as [G' [E [Hi' [C1 [C2 [C3 C4]]]]]].
          exists G', D. simpl. rewrite E. simpl. split; [reflexivity|].
          split; [split; [exact Hi'|split; [|split]]|].
          -- eapply Inv_store; [exact inj_env|exact I|exact Ax| |exact C2].
             intros Hv. apply (proj1 (C1 (I y ly Ay Hv))).
          -- intros z Hz. destruct (C3 z Hz) as [Hz'|[-> Hy]]; [apply S; exact Hz'|].
             destruct (mem x A) eqn:Ea; [reflexivity|]. apply negb_true_iff in H3. rewrite (S y Hy) in H3. discriminate.
          -- apply GS_set; [exact Gs|apply Gs].
          -- split; [exact HR|]. split; [apply Gs|]. intros Hv. simpl. apply S. eapply I; eauto.
        * apply negb_true_iff in H3.
          destruct (IHe br e G D s v s1 Hr HJ HR E1) as [G1 [D1 [W1 [[Hi1 [I1 [S1 Gs1]]] [R1 [Gv1 M1]]]]]].
          exists G1, D1. simpl. rewrite (enter_assign_none _ _ _ En). simpl. split; [exact W1|].
          split; [split; [exact Hi1|split; [|split; [exact S1|apply GS_set; assumption]]]|].
          -- eapply Inv_store; [exact inj_env|exact I1|exact Ax| |auto].
             intros Hv. apply M1 in Hv. congruence.
          -- split; [exact R1|]. split; [exact Gv1|exact M1].
      + (* ECall *)
        apply andb_true_iff in Hok. destruct Hok as [Hf Hargs].
        destruct e; try discriminate.
        * destruct (eval_e inp n E0 (EId x) s) as [vf s0| | |] eqn:Ef; try discriminate. simpl in H.
          apply eval_id in Ef. destruct Ef as [-> [lg [Ag ->]]].
          destruct (eval_l inp n E0 args s) as [vs s2| | |] eqn:E2; try discriminate. simpl in H.
          destruct (IHl br args G D s vs s2 Hargs HJ HR E2) as [G2 [D2 [W2 [[Hi2 [I2 [S2 Gs2]]] [R2 Fv]]]]].
          pose proof (proj2 (proj2 (proj2 HJ)) lg) as Gf.
          destruct (nth lg (fst s) VUndef) as [|n0|s0|b0| |fs0|cenv ps fb| |] eqn:Evf; try discriminate.
          simpl in Gf. destruct Gf as [-> [Okf [Hif Idf]]].
          assert (SK : SOK E0 DF (List.length (fst s2)) s2).
          { split; [exact Gs2|]. split; [|lia]. intros l Hl. rewrite nth_overflow by exact Hl. discriminate. }
          destruct (call_frame E0 DF _ ps fb vs s2 Okf SK Fv) as [env'' [store'' [Efr [LE'' [S'' [Low Len'']]]]]].
          rewrite Efr in H.
          destruct (exec inp n env'' fb (store'', snd s2)) as [c s3| | |] eqn:E3; try discriminate.
          simpl in H. inversion H; subst. clear H.
          destruct (A_all inp E0 DF n) as [_ [_ As]].
          assert (Ht : false = true -> env'' = E0 /\ incl (ad_s fb) DF) by discriminate.
          destruct (As false _ _ env'' fb _ c s' Okf Hif LE'' Ht S'' E3) as [[G3 [N3 Len3]] [[F3a F3b] [R3 Rv]]].
          simpl in *.
          exists G2, D2. split; [exact W2|].
          split; [split; [exact Hi2|split; [|split; [exact S2|exact G3]]]|].
          -- intros z l Az Hv. destruct (Nat.lt_ge_cases l (List.length (fst s2))) as [Hlt|Hge].
             ++ rewrite F3a in Hv by exact Hlt. rewrite Low in Hv by exact Hlt. eapply I2; eauto.
             ++ exfalso. apply (N3 l Hge). exact Hv.
          -- split.
             ++ intros k Hk. destruct (R3 k Hk) as [Hk'|Hk']; [apply R2; exact Hk'|].
                apply in_app_iff. right. apply in_app_iff in Hk'. destruct Hk' as [Hk'|Hk']; [apply Idf; exact Hk'|exact Hk'].
             ++ destruct c as [|rv].
                ** split; [exact Logic.I|discriminate].
                ** destruct (Rv rv eq_refl) as [Grv Nrv]. split; [exact Grv|intros C; contradiction].
        * (* method call on a receiver that is not the inputs object *)
          apply andb_true_iff in Hf. destruct Hf as [Hf Hm]. apply negb_true_iff in Hm.
          pose proof Hf as Hdot. simpl in Hf. apply andb_true_iff in Hf. destruct Hf as [Hr _].
          destruct (eval_e inp n E0 e s) as [v1 s1| | |] eqn:E1; try discriminate. simpl in H.
          destruct (IHe br e G D s v1 s1 Hr HJ HR E1) as [G1 [D1 [W1 [J1 [R1 [Gv1 M1]]]]]].
          destruct (eval_l inp n E0 args s1) as [vs s2| | |] eqn:E2; try discriminate. simpl in H.
          assert (exists x, meth_val v1 f vs = Some x /\ v = x /\ s' = s2) as [x [Ex [-> ->]]].
          { destruct v1; try discriminate; (destruct (meth_val _ f vs) as [x|]; [|discriminate]);
              inversion H; subst; exists v; auto. }
          destruct (meth_val_gv E0 DF _ _ _ _ Ex) as [Gx Nx].
          (* the walk: enterMemberDot on the callee, then the receiver, then the arguments *)
          destruct skipC_all as [Ske' _].
          destruct HJ as [Hi [I [S Gs]]].
          destruct (enter_dot_total e f G D) as [D0 [Ed I0]].
          assert (J0 : J G s) by (repeat split; assumption).
          destruct (IHe br e G D0 s v1 s1 Hr J0 (RD_mono _ _ _ HR I0) E1) as [G1' [D1' [W1' [J1' [R1' _]]]]].
          destruct (IHl br args G1' D1' s1 vs s2 Hargs J1' R1' E2) as [G2 [D2 [W2 [J2 [R2 Fv]]]]].
          exists G2, D2.
          change (walk_e (ECall (EDot e f) args) (WG G D)) with
            (wbind (wbind (enter_dot e f (WG G D)) (walk_e e)) (walk_l args)).
          rewrite Ed. simpl. rewrite W1'. simpl. split; [exact W2|].
          split; [exact J2|]. split; [exact R2|]. split; [exact Gx|intros C; contradiction].
      + (* EOp *)
        destruct (eval_l inp n E0 args s) as [vs s2| | |] eqn:E2; try discriminate. simpl in H.
        destruct (IHl br args G D s vs s2 Hok HJ HR E2) as [G2 [D2 [W2 [J2 [R2 Fv]]]]].
        destruct (op_val o vs) as [w|] eqn:Eo; [|discriminate]. inversion H; subst.
        destruct (op_val_gv E0 DF _ _ _ Eo) as [Gw Nw].
        exists G2, D2. simpl. split; [exact W2|]. split; [exact J2|]. split; [exact R2|].
        split; [exact Gw|intros C; contradiction].
      + (* ELogic *)
        apply andb_true_iff in Hok. destruct Hok as [Ha Hb].
        destruct (eval_e inp n E0 e1 s) as [va s1| | |] eqn:E1; try discriminate. simpl in H.
        destruct (IHe br e1 G D s va s1 Ha HJ HR E1) as [G1 [D1 [W1 [J1 [R1 [Gv1 M1]]]]]].
        destruct (if isand then truthy va else negb (truthy va)).
        * destruct (IHe true e2 G1 D1 s1 v s' Hb J1 R1 H) as [G2 [D2 [W2 [J2 [R2 [Gv2 M2]]]]]].
          exists G2, D2. simpl. rewrite W1. simpl. split; [exact W2|].
          split; [exact J2|]. split; [exact R2|]. split; [exact Gv2|]. intros C. rewrite (M2 C). apply orb_true_r.
        * inversion H; subst. destruct J1 as [Hi1 [I1 [S1 Gs1]]].
          destruct (Ske e2 true A G1 D1 Hb Hi1 S1) as [G2 [D2 [W2 [Hi2 [S2 [B2 [T2 _]]]]]]].
          exists G2, D2. simpl. rewrite W1. simpl. split; [exact W2|].
          split; [split; [exact Hi2|split; [eapply Inv_mono; [apply T2; reflexivity|exact I1]|split; [exact S2|exact Gs1]]]|].
          split; [eapply RD_mono; eauto|]. split; [exact Gv1|]. intros C. rewrite (M1 C). reflexivity.
    - (* argument lists *)
      intros br l G D s vs s' Hok HJ HR H.
      destruct l; simpl in Hok; simpl in H.
      + inversion H; subst. exists G, D. split; [reflexivity|]. split; [exact HJ|]. split; [exact HR|constructor].
      + apply andb_true_iff in Hok. destruct Hok as [Hok Hr]. apply andb_true_iff in Hok. destruct Hok as [He Hm].
        apply negb_true_iff in Hm.
        destruct (eval_e inp n E0 e s) as [v1 s1| | |] eqn:E1; try discriminate. simpl in H.
        destruct (IHe br e G D s v1 s1 He HJ HR E1) as [G1 [D1 [W1 [J1 [R1 [Gv1 M1]]]]]].
        destruct (eval_l inp n E0 l s1) as [vs2 s2| | |] eqn:E2; try discriminate. simpl in H.
        destruct (IHl br l G1 D1 s1 vs2 s2 Hr J1 R1 E2) as [G2 [D2 [W2 [J2 [R2 Fv]]]]].
        inversion H; subst.
        exists G2, D2. simpl. rewrite W1. simpl. split; [exact W2|]. split; [exact J2|]. split; [exact R2|].
        constructor; [|exact Fv]. split; [exact Gv1|]. intros C; apply M1 in C; congruence.
    - (* statements *)
      intros br c G D s r s' Hok Hfd HJ HR H.
      destruct c as [|c1 c2|x|x e|e|e|cc c1 c2|fn ps body|fx fps fbody|fi fc fu fb]; simpl in H.
      + inversion H; subst. exists G, D. split; [reflexivity|]. destruct HJ as [Hi [I [S Gs]]].
        split; [exact Hi|]. split; [exact S|]. split; [exact HR|]. intros _. repeat split; assumption.
      + (* SSeq *)
        simpl in Hok. apply andb_true_iff in Hok. destruct Hok as [Ha Hb].
        destruct (exec inp n E0 c1 s) as [r1 s1| | |] eqn:E1; try discriminate. simpl in H.
        assert (Hfd1 : incl (fd_s c1) DF) by (intros z Hz; apply Hfd; simpl; apply in_app_iff; left; exact Hz).
        assert (Hfd2 : incl (fd_s c2) DF) by (intros z Hz; apply Hfd; simpl; apply in_app_iff; right; exact Hz).
        destruct (IHs br c1 G D s r1 s1 Ha Hfd1 HJ HR E1) as [G1 [D1 [W1 [Hi1 [S1 [R1 J1]]]]]].
        destruct r1.
        * destruct (IHs br c2 G1 D1 s1 r s' Hb Hfd2 (J1 eq_refl) R1 H) as [G2 [D2 [W2 K2]]].
          exists G2, D2. simpl. rewrite W1. simpl. split; [exact W2|exact K2].
        * inversion H; subst.
          destruct (Sks c2 br A G1 D1 Hb Hi1 S1) as [G2 [D2 [W2 [Hi2 [S2 [B2 _]]]]]].
          exists G2, D2. simpl. rewrite W1. simpl. split; [exact W2|].
          split; [exact Hi2|]. split; [exact S2|]. split; [eapply RD_mono; eauto|]. intros C; discriminate.
      + inversion H; subst. exists G, D. split; [reflexivity|]. destruct HJ as [Hi [I [S Gs]]].
        split; [exact Hi|]. split; [exact S|]. split; [exact HR|]. intros _. repeat split; assumption.
      + (* SVarI *)
        simpl in Hok. apply andb_true_iff in Hok. destruct Hok as [Hr Hm]. apply negb_true_iff in Hm.
        destruct (eval_e inp n E0 e s) as [v1 s1| | |] eqn:E1; try discriminate. simpl in H.
        destruct (IHe br e G D s v1 s1 Hr HJ HR E1) as [G1 [D1 [W1 [[Hi1 [I1 [S1 Gs1]]] [R1 [Gv1 M1]]]]]].
        destruct (assoc x E0) as [l|] eqn:Ax; [|discriminate]. inversion H; subst. clear H.
        exists G1, D1. simpl. split; [exact W1|]. split; [exact Hi1|]. split; [exact S1|]. split; [exact R1|].
        intros _. split; [exact Hi1|split; [|split; [exact S1|apply GS_set; assumption]]].
        eapply Inv_store; [exact inj_env|exact I1|exact Ax| |auto].
        intros Hv. apply M1 in Hv. congruence.
      + (* SExpr *)
        simpl in Hok.
        destruct (eval_e inp n E0 e s) as [v1 s1| | |] eqn:E1; try discriminate. simpl in H. inversion H; subst.
        destruct (IHe br e G D s v1 s' Hok HJ HR E1) as [G1 [D1 [W1 [J1 [R1 _]]]]].
        exists G1, D1. simpl. split; [exact W1|]. destruct J1 as [Hi1 [I1 [S1 Gs1]]].
        split; [exact Hi1|]. split; [exact S1|]. split; [exact R1|]. intros _. repeat split; assumption.
      + (* SRet *)
        simpl in Hok.
        destruct (eval_e inp n E0 e s) as [v1 s1| | |] eqn:E1; try discriminate. simpl in H. inversion H; subst.
        destruct (IHe br e G D s v1 s' Hok HJ HR E1) as [G1 [D1 [W1 [J1 [R1 _]]]]].
        exists G1, D1. simpl. split; [exact W1|]. destruct J1 as [Hi1 [I1 [S1 Gs1]]].
        split; [exact Hi1|]. split; [exact S1|]. split; [exact R1|]. intros C; discriminate.
      + (* SIf *)
        simpl in Hok.
        apply andb_true_iff in Hok. destruct Hok as [Hok Hb]. apply andb_true_iff in Hok. destruct Hok as [Hc Ha].
        destruct (eval_e inp n E0 cc s) as [vc s1| | |] eqn:E1; try discriminate. simpl in H.
        destruct (IHe br cc G D s vc s1 Hc HJ HR E1) as [G1 [D1 [W1 [J1 [R1 _]]]]].
        assert (Hfd1 : incl (fd_s c1) DF) by (intros z Hz; apply Hfd; simpl; apply in_app_iff; left; exact Hz).
        assert (Hfd2 : incl (fd_s c2) DF) by (intros z Hz; apply Hfd; simpl; apply in_app_iff; right; exact Hz).
        destruct (truthy vc).
        * destruct (IHs true c1 G1 D1 s1 r s' Ha Hfd1 J1 R1 H) as [G2 [D2 [W2 [Hi2 [S2 [R2 J2]]]]]].
          destruct (Sks c2 true A G2 D2 Hb Hi2 S2) as [G3 [D3 [W3 [Hi3 [S3 [B3 [T3 _]]]]]]].
          exists G3, D3. simpl. rewrite W1. simpl. rewrite W2. simpl. split; [exact W3|].
          split; [exact Hi3|]. split; [exact S3|]. split; [eapply RD_mono; eauto|].
          intros C. destruct (J2 C) as [_ [I2 [_ Gs2]]].
          split; [exact Hi3|split; [eapply Inv_mono; [apply T3; reflexivity|exact I2]|split; [exact S3|exact Gs2]]].
        * destruct J1 as [Hi1 [I1 [S1 Gs1]]].
          destruct (Sks c1 true A G1 D1 Ha Hi1 S1) as [G2 [D2 [W2 [Hi2 [S2 [B2 [T2 _]]]]]]].
          assert (J2 : J G2 s1).
          { split; [exact Hi2|split; [eapply Inv_mono; [apply T2; reflexivity|exact I1]|split; [exact S2|exact Gs1]]]. }
          destruct (IHs true c2 G2 D2 s1 r s' Hb Hfd2 J2 (RD_mono _ _ _ R1 B2) H) as [G3 [D3 [W3 K3]]].
          exists G3, D3. simpl. rewrite W1. simpl. rewrite W2. simpl. split; [exact W3|exact K3].
      + (* SFun *)
        inversion H; subst. destruct HJ as [Hi [I [S Gs]]].
        destruct (walk_sfun br A fn ps body G D Hok Hi S) as [D' [E [I1 _]]].
        exists G, D'. split; [exact E|]. split; [exact Hi|]. split; [exact S|]. split; [eapply RD_mono; eauto|].
        intros _. repeat split; assumption.
      + (* SFunE *)
        destruct HJ as [Hi [I [S Gs]]].
        destruct (walk_sfune br A fx fps fbody G D Hok Hi S) as [D' [E [I1 _]]].
        simpl in Hok.
        apply andb_true_iff in Hok. destruct Hok as [Hok _]. apply andb_true_iff in Hok. destruct Hok as [Hok Hni].
        apply andb_true_iff in Hok. destruct Hok as [Hok Hb]. apply andb_true_iff in Hok. destruct Hok as [_ Hx].
        apply negb_true_iff in Hni. apply negb_true_iff in Hx.
        destruct (assoc fx E0) as [l|] eqn:Ax; [|discriminate]. inversion H; subst. clear H.
        exists G, D'. split; [exact E|]. split; [exact Hi|]. split; [exact S|]. split; [eapply RD_mono; eauto|].
        intros _. split; [exact Hi|split; [|split; [exact S|]]].
        * eapply Inv_store; [exact inj_env|exact I|exact Ax|intros C; discriminate|auto].
        * apply GS_set; [exact Gs|]. simpl. repeat split; try assumption.
      + simpl in Hok. discriminate.
  Qed.
End SimC.

(* ---------------------------------------------------------------------------------------------- *)
(* the outermost frame *)

Lemma alloc_in_lt : forall xs b z l, In (z, l) (alloc_names xs b) -> l < b + List.length xs.
Proof.
  induction xs as [|a xs IH]; intros b z l H; simpl in H; [contradiction|].
  destruct H as [H|H]; [inversion H; simpl; lia|]. apply IH in H. simpl. lia.
Qed.

Lemma tenv_in prog z l : In (z, l) (tenv prog) ->
  (In (z, l) (alloc_names (map fst (hoist_funs prog)) (S (S (S (List.length (tv prog)))))) /\ 3 + List.length (tv prog) <= l) \/
  (In (z, l) (alloc_names (tv prog) 3) /\ 3 <= l < 3 + List.length (tv prog)) \/
  (In (z, l) genv /\ l < 3).
Proof.
  unfold tenv. intros H. apply in_app_or in H. destruct H as [H|H].
  - apply in_rev in H. left. split; [exact H|]. apply alloc_in_ge in H. lia.
  - apply in_app_or in H. destruct H as [H|H].
    + apply in_rev in H. right; left. split; [exact H|]. split; [eapply alloc_in_ge; eauto|apply alloc_in_lt in H; lia].
    + right; right. split; [exact H|]. apply genv_cases in H. lia.
Qed.

Lemma tenv_inj prog : forall z x l, assoc z (tenv prog) = Some l -> assoc x (tenv prog) = Some l -> z = x.
Proof.
  intros z x l Hz Hx. apply assoc_in, tenv_in in Hz. apply assoc_in, tenv_in in Hx.
  destruct Hz as [[Hz Lz]|[[Hz Lz]|[Hz Lz]]]; destruct Hx as [[Hx Lx]|[[Hx Lx]|[Hx Lx]]]; try lia.
  - eapply alloc_inj; eauto.
  - eapply alloc_inj; eauto.
  - apply genv_cases in Hz. apply genv_cases in Hx.
    destruct Hz as [[-> Ez]|[[-> Ez]|[-> Ez]]]; destruct Hx as [[-> Ex]|[[-> Ex]|[-> Ex]]]; try reflexivity; lia.
Qed.

Lemma funs_okT A : forall c, okt_s false A c = true -> forall f, In f (hoist_funs c) ->
  okb_s false (fst (snd f) ++ hoist_vars (snd (snd f))) (snd (snd f)) = true /\
  mem "inputs" (fst (snd f) ++ hoist_vars (snd (snd f))) = false /\
  incl (ad_s (snd (snd f))) (fd_s c).
Proof.
  induction c; intros Hok f Hf; simpl in Hf; try contradiction; simpl in Hok.
  - apply andb_true_iff in Hok. destruct Hok as [H1 H2]. apply in_app_iff in Hf. destruct Hf as [Hf|Hf].
    + destruct (IHc1 H1 f Hf) as [X [Y Z]]. split; [exact X|]. split; [exact Y|]. simpl. apply incl_appl; exact Z.
    + destruct (IHc2 H2 f Hf) as [X [Y Z]]. split; [exact X|]. split; [exact Y|]. simpl. apply incl_appr; exact Z.
  - destruct Hf as [<-|[]]. simpl.
    apply andb_true_iff in Hok. destruct Hok as [Hok _]. apply andb_true_iff in Hok. destruct Hok as [Hb Hni].
    apply negb_true_iff in Hni. split; [exact Hb|]. split; [exact Hni|apply incl_refl].
Qed.

Lemma tstore_tail_not_inp prog : Forall (fun v => v <> VInp) (tl (tstore prog)).
Proof.
  unfold tstore, gstore. cbn [app tl]. repeat (constructor; [discriminate|]).
  apply Forall_app. split; apply Forall_forall; intros v Hv; apply in_map_iff in Hv; destruct Hv as [? [<- _]]; discriminate.
Qed.

Lemma J_init A prog : mem "inputs" A = true -> okt_s false A prog = true ->
  J (tenv prog) (fd_s prog) A ["inputs"] (tstore prog, []).
Proof.
  intros HA Hok. split; [reflexivity|]. split; [|split].
  - intros z l Az Hv. cbn [fst] in Hv. destruct l as [|l'].
    + apply assoc_in, tenv_in in Az. destruct Az as [[_ L]|[[_ L]|[Az _]]]; try lia.
      apply genv_cases in Az. destruct Az as [[-> _]|[[_ L]|[_ L]]]; [reflexivity|lia|lia].
    + exfalso. change (nth (S l') (tstore prog) VUndef) with (nth l' (tl (tstore prog)) VUndef) in Hv.
      revert Hv. apply (nth_Forall (fun v => v <> VInp)); [apply tstore_tail_not_inp|discriminate].
  - intros z Hz. rewrite mem_cons in Hz. simpl in Hz. rewrite orb_false_r in Hz. apply String.eqb_eq in Hz. subst. exact HA.
  - intros l. cbn [fst]. apply nth_Forall; [|exact Logic.I].
    unfold tstore, gstore. repeat (constructor; [exact Logic.I|]). apply Forall_app. split.
    + apply Forall_forall. intros v Hv. apply in_map_iff in Hv. destruct Hv as [_ [<- _]]. exact Logic.I.
    + apply Forall_forall. intros v Hv. apply in_map_iff in Hv. destruct Hv as [f [<- Hf]].
      destruct (funs_okT A prog Hok f Hf) as [X [Y Z]]. simpl. repeat split; assumption.
Qed.

(* for ANY set A of alias-capable names that passes the check *)
Theorem sound_T : forall A inp n lib body c s,
  okT A lib body = true ->
  run inp n lib body = Ok c s ->
  exists w, deps_js lib body = WOk w /\ incl (snd s) (dp w).
Proof.
  intros A inp n lib body c s Hfr H. unfold okT in Hfr.
  apply andb_true_iff in Hfr. destruct Hfr as [HA Hok].
  set (prog := SSeq lib body) in *. rewrite run_top in H. fold prog in H.
  destruct (C_all inp (tenv prog) (tenv_inj prog) (fd_s prog) A n) as [_ [_ Cs]].
  destruct (Cs false prog ["inputs"] [] _ c s Hok (incl_refl _) (J_init A prog HA Hok) (incl_nil_l _) H)
    as [G' [D' [W [_ [_ [R _]]]]]].
  destruct skipC_all as [_ [_ Sks]].
  destruct (Sks prog false A ["inputs"] [] Hok eq_refl) as [G2 [D2 [W2 [_ [_ [_ [_ F2]]]]]]].
  { intros z Hz. rewrite mem_cons in Hz. simpl in Hz. rewrite orb_false_r in Hz. apply String.eqb_eq in Hz. subst. exact HA. }
  rewrite W in W2. inversion W2; subst.
  exists (WG G2 D2). split; [exact W|].
  intros k Hk. apply R in Hk. apply in_app_iff in Hk. destruct Hk as [Hk|Hk]; [exact Hk|apply F2; exact Hk].
Qed.

Theorem total_T : forall A lib body, okT A lib body = true -> exists w, deps_js lib body = WOk w.
Proof.
  intros A lib body Hfr. unfold okT in Hfr. apply andb_true_iff in Hfr. destruct Hfr as [HA Hok].
  destruct skipC_all as [_ [_ Sks]].
  destruct (Sks (SSeq lib body) false A ["inputs"] [] Hok eq_refl) as [G2 [D2 [W2 _]]].
  { intros z Hz. rewrite mem_cons in Hz. simpl in Hz. rewrite orb_false_r in Hz. apply String.eqb_eq in Hz. subst. exact HA. }
  exists (WG G2 D2). exact W2.
Qed.

(* C31_sound_combined_partial *)
Theorem sound_combined : forall inp n lib body c s,
  in_fragmentC lib body = true ->
  run inp n lib body = Ok c s ->
  exists w, deps_js lib body = WOk w /\ incl (snd s) (dp w).
Proof.
  intros inp n lib body c s Hfr H. unfold in_fragmentC in Hfr.
  apply orb_true_iff in Hfr. destruct Hfr as [Hfr|Hfr]; [apply orb_true_iff in Hfr; destruct Hfr as [Hfr|Hfr]|].
  - eapply sound_T; eauto.
  - eapply sound_functions; eauto.
  - destruct lib; try discriminate. eapply sound_partial; eauto.
Qed.
Theorem total_combined : forall lib body, in_fragmentC lib body = true -> exists w, deps_js lib body = WOk w.
Proof.
  intros lib body Hfr. unfold in_fragmentC in Hfr.
  apply orb_true_iff in Hfr. destruct Hfr as [Hfr|Hfr]; [apply orb_true_iff in Hfr; destruct Hfr as [Hfr|Hfr]|].
  - eapply total_T; eauto.
  - eapply total_functions; eauto.
  - destruct lib; try discriminate. eapply total_partial; eauto.
Qed.
Lemma combined_subsumes lib body :
  (in_fragmentF lib body = true -> in_fragmentC lib body = true) /\
  (in_fragment body = true -> in_fragmentC SSkip body = true) /\
  (in_fragmentT lib body = true -> in_fragmentC lib body = true).
Proof.
  unfold in_fragmentC. split; [|split]; intros ->; rewrite ?orb_true_r; reflexivity.
Qed.

(* ---------------------------------------------------------------------------------------------- *)
(* whole interpolated strings *)

Lemma parts_sound_acc inp n lib : forall ps acc R,
  parts_in_fragment lib ps = true ->
  run_parts inp n lib ps acc = Some R ->
  exists D, deps_parts lib ps = inr D /\ forall k, In k R -> In k acc \/ In k D.
Proof.
  induction ps as [|p ps IH]; intros acc R Hok H; simpl in H.
  - inversion H; subst. exists []. split; [reflexivity|auto].
  - simpl in Hok. apply andb_true_iff in Hok. destruct Hok as [Hp Hps].
    destruct p as [t|root segs|body]; simpl.
    + apply (IH acc R Hps H).
    + destruct (String.eqb root "inputs") eqn:Er.
      * apply String.eqb_eq in Er. subst root.
        destruct (run_ref inp n "inputs" segs) as [c s| | |] eqn:E; try discriminate.
        destruct (IH _ R Hps H) as [D [ED HD]]. rewrite ED.
        exists (deps_ref "inputs" "inputs" segs ++ D). split; [reflexivity|].
        assert (Hs : match segs with SgIdx _ :: _ => False | g :: _ => seg_key g <> "" | [] => True end).
        { simpl in Hp. destruct segs as [|g r]; [exact Logic.I|].
          destruct g; try discriminate; apply negb_true_iff in Hp; intros C; rewrite C in Hp; discriminate. }
        pose proof (paramref_sound inp n segs c s Hs E) as Hin.
        intros k Hk. destruct (HD k Hk) as [Hk'|Hk']; [|right; apply in_app_iff; right; exact Hk'].
        apply in_app_iff in Hk'. destruct Hk' as [Hk'|Hk']; [|left; exact Hk'].
        right. apply in_app_iff. left. apply Hin; exact Hk'.
      * destruct (IH acc R Hps H) as [D [ED HD]]. rewrite ED.
        exists (deps_ref "inputs" root segs ++ D). split; [reflexivity|].
        intros k Hk. destruct (HD k Hk) as [Hk'|Hk']; [left; exact Hk'|right; apply in_app_iff; right; exact Hk'].
    + destruct (run inp n lib body) as [c s| | |] eqn:E; try discriminate.
      destruct (sound_combined inp n lib body c s Hp E) as [w [Ew Hin]].
      rewrite Ew. destruct (IH _ R Hps H) as [D [ED HD]]. rewrite ED.
      exists (dp w ++ D). split; [reflexivity|].
      intros k Hk. destruct (HD k Hk) as [Hk'|Hk']; [|right; apply in_app_iff; right; exact Hk'].
      apply in_app_iff in Hk'. destruct Hk' as [Hk'|Hk']; [|left; exact Hk'].
      right. apply in_app_iff. left. apply Hin; exact Hk'.
Qed.

Theorem parts_sound : forall inp n lib ps R,
  parts_in_fragment lib ps = true ->
  run_parts inp n lib ps [] = Some R ->
  exists D, deps_parts lib ps = inr D /\ incl R D.
Proof.
  intros inp n lib ps R Hok H. destruct (parts_sound_acc inp n lib ps [] R Hok H) as [D [E HD]].
  exists D. split; [exact E|]. intros k Hk. destruct (HD k Hk) as [[]|Hk']. exact Hk'.
Qed.
