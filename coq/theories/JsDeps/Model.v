(* JsDeps/Model.v — static dependency analysis of CWL expressions vs. the fields of [inputs] an evaluation reads.

   ANCHORS:
     streamflow.cwl.expression.CWLDependencyListener   (__init__, _get_index, _get_name, enterFunctionDeclaration,
                                                        exitFunctionDeclaration, enterAssignmentExpression,
                                                        enterMemberDotExpression, enterMemberIndexExpression)
     streamflow.cwl.expression.DependencyResolver      (eval, regex_eval)
     streamflow.cwl.expression._extract_key
     streamflow.core.utils.NamesStack                  (add_scope, add_name, delete_scope, delete_name, global_names, __contains__)
     streamflow.cwl.utils.resolve_dependencies         (union over the $(..)/${..} parts found by cwl_utils' scanner)

   Definitions only.  Three parts:
     1. an AST for the ES5 fragment the generator emits (the ANTLR parse JS text -> tree is NOT modelled: the
        harness prints the AST to JS, and the listener model walks the AST in the order ParseTreeWalker fires
        enter/exit events on the corresponding parse tree);
     2. [walk_*]/[deps_*]: the listener, event by event, with the NamesStack and the two Python exceptions
        it can raise (AttributeError from .literal()/.strip on a non-string-literal index, KeyError from
        set.remove in delete_name);
     3. [eval_*]/[run]: a fuel-bounded big-step evaluator of the same AST (strict-mode ES5: function-level
        hoisting, closures over a store, ReferenceError on undeclared names, TypeError on property access of
        undefined) instrumented to record every property read on the [inputs] object. *)
From Coq Require Import List Bool NArith Ascii.
From SF Require Import Base.Str Base.Dec.
Import ListNotations.
Local Open Scope string_scope. Local Open Scope list_scope.

(* ------------------------------------------------------------------------------------------------ *)
(* 1. syntax *)

Inductive expr :=
| ENum (n : N)
| EStr (dq : bool) (s : string)        (* string literal; [s] = raw source text between the quotes (no backslash, no
                                          enclosing quote character), so its value is [s]; dq = double-quoted *)
| EBool (b : bool)
| EId (x : string)
| EDot (e : expr) (f : string)         (* e.f *)
| EIdx (e : expr) (k : expr)           (* e[k] *)
| EAdd (a b : expr)                    (* a + b *)
| ECond (c a b : expr)                 (* c ? a : b *)
| EParen (e : expr)                    (* (e) *)
| EAssign (x : string) (r : expr)      (* x = r   (identifier targets only) *)
| ECall (f : expr) (args : elist)      (* f(args) *)
| EFun (ps : list string) (body : stmt) (* anonymous function expression *)
| EOp (o : string) (extra : list string) (args : elist)
    (* a strict operator / constructor applied to its operands, evaluated left to right: binary < > <= >= == === != !==
       - * / %, unary ! neg typeof, null (no operand), array literal "arr", object literal "obj" (extra = the keys),
       regular-expression literal "regex" (extra = its text), "throw" (the operand of a throw statement) *)
| ELogic (isand : bool) (a b : expr)   (* a && b / a || b *)
with elist := ENil | ECons (e : expr) (r : elist)
with stmt :=
| SSkip
| SSeq (a b : stmt)
| SVar (x : string)                    (* var x; *)
| SVarI (x : string) (e : expr)        (* var x = e; *)
| SExpr (e : expr)
| SRet (e : expr)
| SIf (c : expr) (t f : stmt)          (* if (c) { t } else { f } *)
| SFun (name : string) (ps : list string) (body : stmt)    (* function name(ps) { body } *)
| SFunE (x : string) (ps : list string) (body : stmt)     (* var x = function(ps) { body }; *)
| SFor (init : stmt) (c : expr) (u : expr) (body : stmt). (* for (init; c; u) { body }   (while: init = SSkip) *)

Definition mem (x : string) (l : list string) : bool := existsb (String.eqb x) l.
Definition remove_all (x : string) (l : list string) : list string := filter (fun y => negb (String.eqb x y)) l.

(* the grammar's reservedWord alternatives (keyword | futureReservedWord | NullLiteral | BooleanLiteral), as
   lexed by the generated lexer (strict-mode words included): after a dot they are an identifierName without
   an Identifier token *)
Definition reserved_words : list string :=
  ["break";"do";"instanceof";"typeof";"case";"else";"new";"var";"catch";"finally";"return";"void";"continue";
   "for";"switch";"while";"debugger";"function";"this";"with";"default";"if";"throw";"delete";"in";"try";
   "class";"enum";"extends";"super";"const";"export";"import";"implements";"let";"private";"public";
   "interface";"package";"protected";"static";"yield";"null";"true";"false"].
Definition is_reserved (f : string) : bool := mem f reserved_words.

(* ------------------------------------------------------------------------------------------------ *)
(* 2. the listener *)

(* NamesStack: [glob] = stack[0]; [inner] = stack[1:], head = stack[-1] *)
Record names := { glob : list string; inner : list (list string) }.

Definition names_init : names := {| glob := ["inputs"]; inner := [] |}.
Definition add_scope (s : names) : names := {| glob := glob s; inner := [] :: inner s |}.
Definition delete_scope (s : names) : names := {| glob := glob s; inner := tl (inner s) |}.
Definition add_name (x : string) (s : names) : names :=
  match inner s with
  | [] => {| glob := x :: glob s; inner := [] |}
  | top :: r => {| glob := glob s; inner := (x :: top) :: r |}
  end.
Definition contains (x : string) (s : names) : bool := mem x (glob s) || existsb (mem x) (inner s).
(* global_names(): stack[0] minus every later scope *)
Definition in_global (x : string) (s : names) : bool := mem x (glob s) && negb (existsb (mem x) (inner s)).
(* delete_name: set.remove on stack[-1]; None = KeyError *)
Definition delete_name (x : string) (s : names) : option names :=
  match inner s with
  | [] => if mem x (glob s) then Some {| glob := remove_all x (glob s); inner := [] |} else None
  | top :: r => if mem x top then Some {| glob := glob s; inner := remove_all x top :: r |} else None
  end.

Inductive perr := AttributeError | KeyError.
Record wst := { nm : names; dp : list string }.
Inductive wres := WOk (w : wst) | WErr (e : perr).
Definition wbind (r : wres) (k : wst -> wres) : wres := match r with WOk w => k w | WErr e => WErr e end.
Definition add_dep (d : string) (w : wst) : wst := {| nm := nm w; dp := d :: dp w |}.
Definition set_nm (n : names) (w : wst) : wst := {| nm := n; dp := dp w |}.

(* _get_name(ctx): text of the first direct Identifier token child; only an IdentifierExpression has one in this
   fragment (function expressions are anonymous) *)
Definition get_name (e : expr) : option string := match e with EId x => Some x | _ => None end.

(* str.strip of both quote characters *)
Definition is_quote (c : ascii) : bool := (Ascii.eqb c "'" || Ascii.eqb c """")%char.
Fixpoint lstrip_q (s : string) : string :=
  match s with String c r => if is_quote c then lstrip_q r else s | EmptyString => EmptyString end.
Fixpoint rstrip_q (s : string) : string :=
  match s with
  | EmptyString => EmptyString
  | String c r => match rstrip_q r with
                  | EmptyString => if is_quote c then EmptyString else String c EmptyString
                  | r' => String c r'
                  end
  end.
Definition strip_q (s : string) : string := rstrip_q (lstrip_q s).
Definition quote_of (dq : bool) : string := if dq then """" else "'".
Definition token_text (dq : bool) (s : string) : string := quote_of dq ++ s ++ quote_of dq.

Definition enter_assign (x : string) (r : expr) (w : wst) : wres :=
  if contains x (nm w) then
    match get_name r with
    | Some y => if contains y (nm w) then WOk w
                else match delete_name x (nm w) with Some n => WOk (set_nm n w) | None => WErr KeyError end
    | None => WOk w        (* right is always a SingleExpressionContext in this grammar: the else-branch is dead *)
    end
  else
    match get_name r with
    | Some y => if contains y (nm w) then WOk (set_nm (add_name x (nm w)) w) else WOk w
    | None => WOk w
    end.

Definition enter_dot (e : expr) (f : string) (w : wst) : wres :=
  match get_name e with
  | Some x => if in_global x (nm w) then (if is_reserved f then WOk w else WOk (add_dep f w)) else WOk w
  | None => WOk w
  end.

Definition enter_index (e : expr) (k : expr) (w : wst) : wres :=
  match get_name e with
  | Some x =>
      if in_global x (nm w) then
        match k with
        | EStr dq s => let d := strip_q (token_text dq s) in
                       if String.eqb d "" then WOk w else WOk (add_dep d w)
        | ENum _ | EBool _ => WErr AttributeError     (* literal() without a StringLiteral token: None.strip *)
        | _ => WErr AttributeError                    (* no .literal() on the context class *)
        end
      else WOk w
  | None => WOk w
  end.

Definition enter_fundecl (ps : list string) (w : wst) : wst :=
  fold_left (fun w p => if contains p (nm w) then set_nm (add_name p (nm w)) w else w) ps
            (set_nm (add_scope (nm w)) w).

Fixpoint walk_e (e : expr) (w : wst) : wres :=
  match e with
  | ENum _ | EStr _ _ | EBool _ | EId _ => WOk w
  | EDot e1 f => wbind (enter_dot e1 f w) (walk_e e1)
  | EIdx e1 k => wbind (enter_index e1 k w) (fun w => wbind (walk_e e1 w) (walk_e k))
  | EAdd a b => wbind (walk_e a w) (walk_e b)
  | ECond c a b => wbind (walk_e c w) (fun w => wbind (walk_e a w) (walk_e b))
  | EParen e1 => walk_e e1 w
  | EAssign x r => wbind (enter_assign x r w) (walk_e r)
  | ECall f args => wbind (walk_e f w) (walk_l args)
  | EFun ps body => walk_s body w
  | EOp _ _ args => walk_l args w
  | ELogic _ a b => wbind (walk_e a w) (walk_e b)
  end
with walk_l (l : elist) (w : wst) : wres :=
  match l with ENil => WOk w | ECons e r => wbind (walk_e e w) (walk_l r) end
with walk_s (s : stmt) (w : wst) : wres :=
  match s with
  | SSkip | SVar _ => WOk w
  | SSeq a b => wbind (walk_s a w) (walk_s b)
  | SVarI _ e | SExpr e | SRet e => walk_e e w
  | SIf c t f => wbind (walk_e c w) (fun w => wbind (walk_s t w) (walk_s f))
  | SFun _ ps body =>
      wbind (walk_s body (enter_fundecl ps w)) (fun w => WOk (set_nm (delete_scope (nm w)) w))
  | SFunE _ _ body => walk_s body w       (* a FunctionExpression in an initialiser: no listener event, no scope *)
  | SFor init c u body =>
      wbind (walk_s init w) (fun w => wbind (walk_e c w) (fun w => wbind (walk_e u w) (walk_s body)))
  end.

Definition w_init : wst := {| nm := names_init; dp := [] |}.

(* DependencyResolver.eval on one JS part: a fresh listener walks  use-strict; <lib> (function(){<body>})() *)
Definition deps_js (lib body : stmt) : wres := wbind (walk_s lib w_init) (walk_s body).

(* parameter references: root followed by segments, as matched by param_re of cwl_utils *)
Inductive seg :=
| SgDot (s : string)         (* .sym *)
| SgSingle (raw : string)    (* [QraWQ] single-quoted *)
| SgDouble (raw : string)    (* double-quoted *)
| SgIdx (n : N).             (* [n] *)

(* str.replace(backslash+q, q) : non-overlapping, left to right *)
Fixpoint unesc (q : ascii) (s : string) : string :=
  match s with
  | EmptyString => EmptyString
  | String c r =>
      if Ascii.eqb c "\"%char then
        match r with
        | String d r' => if Ascii.eqb d q then String d (unesc q r') else String c (unesc q r)
        | EmptyString => String c EmptyString
        end
      else String c (unesc q r)
  end.
Definition unesc2 (s : string) : string := unesc """"%char (unesc "'"%char s).
(* _extract_key *)
Definition extract_key (g : seg) : option string :=
  match g with
  | SgDot s => Some s
  | SgSingle raw | SgDouble raw => Some (unesc2 raw)
  | SgIdx _ => None
  end.
(* DependencyResolver.regex_eval with current_value = {} (never a sequence, so the length case is dead);
   a key that is the empty string is falsy *)
Definition deps_ref (ctx_key root : string) (segs : list seg) : list string :=
  if String.eqb root ctx_key then
    match segs with
    | g :: _ => match extract_key g with Some k => if String.eqb k "" then [] else [k] | None => [] end
    | [] => []
    end
  else [].

Inductive part :=
| PText (s : string)
| PRef (root : string) (segs : list seg)     (* $(root segs) *)
| PJs (body : stmt).                         (* ${body}, or $(e) as [SRet (EParen e)] *)

(* resolve_dependencies(expression, full_js=True, expression_lib=lib): the union over the parts; the first failing
   part aborts *)
Fixpoint deps_parts (lib : stmt) (ps : list part) : perr + list string :=
  match ps with
  | [] => inr []
  | PText _ :: r => deps_parts lib r
  | PRef root segs :: r =>
      match deps_parts lib r with inr d => inr (deps_ref "inputs" root segs ++ d) | e => e end
  | PJs body :: r =>
      match deps_js lib body with
      | WErr e => inl e
      | WOk w => match deps_parts lib r with inr d => inr (dp w ++ d) | e => e end
      end
  end.

(* ------------------------------------------------------------------------------------------------ *)
(* 3. instrumented evaluation *)

Inductive ival := IStr (s : string) | INum (n : N) | IBool (b : bool) | IObj (fs : list (string * string)).

Inductive val :=
| VUndef | VNum (n : N) | VStr (s : string) | VBool (b : bool)
| VInp                                              (* the inputs object itself *)
| VObj (fs : list (string * string))                (* an object stored in inputs; its fields hold strings *)
| VClos (env : list (string * nat)) (ps : list string) (body : stmt)
| VNull
| VOpaque.                                           (* an array / object / regexp built by the expression itself *)

Definition val_of_ival (i : ival) : val :=
  match i with IStr s => VStr s | INum n => VNum n | IBool b => VBool b | IObj fs => VObj fs end.

Definition st := (list val * list string)%type.      (* store, reads (most recent first) *)

Inductive res (A : Type) :=
| Ok (a : A) (s : st)
| Throw (s : st)          (* a JS exception (ReferenceError / TypeError) *)
| Unsup                   (* outside the modelled semantics *)
| NoFuel.
Arguments Ok {A}. Arguments Throw {A}. Arguments Unsup {A}. Arguments NoFuel {A}.

Definition bind {A B} (r : res A) (k : A -> st -> res B) : res B :=
  match r with Ok a s => k a s | Throw s => Throw s | Unsup => Unsup | NoFuel => NoFuel end.

Fixpoint assoc {B} (x : string) (l : list (string * B)) : option B :=
  match l with [] => None | (k, v) :: r => if String.eqb x k then Some v else assoc x r end.

Fixpoint set_nth (n : nat) (v : val) (l : list val) : list val :=
  match l, n with
  | [], _ => []
  | _ :: r, O => v :: r
  | a :: r, S n' => a :: set_nth n' v r
  end.

Definition truthy (v : val) : bool :=
  match v with
  | VUndef | VNull => false | VNum n => negb (N.eqb n 0) | VStr s => negb (String.eqb s "") | VBool b => b
  | _ => true
  end.

Section Eval.
  Variable inp : list (string * ival).

  Definition get_prop (v : val) (k : string) (s : st) : res val :=
    match v with
    | VInp => Ok (match assoc k inp with Some i => val_of_ival i | None => VUndef end) (fst s, k :: snd s)
    | VUndef | VNull => Throw s
    | VStr x => if String.eqb k "length" then Ok (VNum (N.of_nat (String.length x))) s
                else if all_digits k then Unsup            (* a character of the string: outside the model *)
                else Ok VUndef s                            (* (prototype methods are not in the generator's pool) *)
    | VNum _ | VBool _ => Ok VUndef s                      (* properties of numbers / booleans: undefined *)
    | VObj fs => Ok (match assoc k fs with Some x => VStr x | None => VUndef end) s
    | _ => Unsup
    end.

  Definition to_key (v : val) : option string :=
    match v with VStr s => Some s | VNum n => Some (dec n) | _ => None end.

  (* ToString of a value as the + operator sees it; objects (the inputs object included) stringify without reading
     any of their own fields *)
  Definition to_str (v : val) : option string :=
    match v with
    | VStr s => Some s
    | VNum n => Some (dec n)
    | VBool b => Some (if b then "true" else "false")
    | VUndef => Some "undefined"
    | VInp | VObj _ => Some "[object Object]"
    | VNull => Some "null"
    | VClos _ _ _ | VOpaque => None
    end.
  Definition add_val (a b : val) : option val :=
    match a, b with
    | VNum x, VNum y => Some (VNum (x + y))
    | VStr x, _ => match to_str b with Some y => Some (VStr (x ++ y)) | None => None end
    | _, VStr y => match to_str a with Some x => Some (VStr (x ++ y)) | None => None end
    | VInp, _ | VObj _, _ => match to_str b with Some y => Some (VStr ("[object Object]" ++ y)) | None => None end
    | _, VInp | _, VObj _ => match to_str a with Some x => Some (VStr (x ++ "[object Object]")) | None => None end
    | _, _ => None           (* numeric addition involving booleans / undefined: outside the model *)
    end.

  (* names declared with var in a function body, not descending into nested functions *)
  Fixpoint hoist_vars (s : stmt) : list string :=
    match s with
    | SSeq a b => hoist_vars a ++ hoist_vars b
    | SVar x | SVarI x _ | SFunE x _ _ => [x]
    | SIf _ t f => hoist_vars t ++ hoist_vars f
    | SFor init _ _ body => hoist_vars init ++ hoist_vars body
    | _ => []
    end.

  (* strict operators; None = outside the model (then the whole evaluation answers Unsup).  The result is never the
     inputs object and never a function. *)
  Definition cmp_num (o : string) (x y : N) : option bool :=
    if String.eqb o "<" then Some (N.ltb x y) else if String.eqb o ">" then Some (N.ltb y x)
    else if String.eqb o "<=" then Some (N.leb x y) else if String.eqb o ">=" then Some (N.leb y x)
    else None.
  Definition is_eq_op (o : string) : option bool :=       (* Some true: equality, Some false: inequality *)
    if String.eqb o "==" || String.eqb o "===" then Some true
    else if String.eqb o "!=" || String.eqb o "!==" then Some false else None.
  Definition nullish (v : val) : bool := match v with VUndef | VNull => true | _ => false end.
  Definition prim_eq (strict : bool) (a b : val) : option bool :=
    match a, b with
    | VNum x, VNum y => Some (N.eqb x y)
    | VStr x, VStr y => Some (String.eqb x y)
    | VBool x, VBool y => Some (Bool.eqb x y)
    | VUndef, VUndef | VNull, VNull => Some true
    | VUndef, VNull | VNull, VUndef => Some (negb strict)
    | (VUndef | VNull), (VNum _ | VStr _ | VBool _ | VInp | VObj _ | VOpaque)
    | (VNum _ | VStr _ | VBool _ | VInp | VObj _ | VOpaque), (VUndef | VNull) => Some false
    | _, _ => None
    end.
  Definition type_of (v : val) : string :=
    match v with
    | VUndef => "undefined" | VNum _ => "number" | VStr _ => "string" | VBool _ => "boolean"
    | VClos _ _ _ => "function" | _ => "object"
    end.
  Definition raw_op (o : string) (vs : list val) : option val :=
    match vs with
    | [] => if String.eqb o "null" then Some VNull
            else if String.eqb o "regex" || String.eqb o "arr" || String.eqb o "obj" then Some VOpaque else None
    | [a] => if String.eqb o "!" then Some (VBool (negb (truthy a)))
             else if String.eqb o "typeof" then Some (VStr (type_of a))
             else if String.eqb o "arr" || String.eqb o "obj" then Some VOpaque else None
    | [a; b] =>
        if String.eqb o "arr" || String.eqb o "obj" then Some VOpaque else
        match is_eq_op o with
        | Some pos => match prim_eq (String.eqb o "===" || String.eqb o "!==") a b with
                      | Some r => Some (VBool (if pos then r else negb r)) | None => None end
        | None =>
            match a, b with
            | VNum x, VNum y =>
                match cmp_num o x y with
                | Some r => Some (VBool r)
                | None => if String.eqb o "*" then Some (VNum (x * y))
                          else if String.eqb o "-" then (if N.leb y x then Some (VNum (x - y)) else None)
                          else None
                end
            | _, _ => None
            end
        end
    | _ => if String.eqb o "arr" || String.eqb o "obj" then Some VOpaque else None
    end.
  Definition op_val (o : string) (vs : list val) : option val :=
    match raw_op o vs with
    | Some VInp | Some (VClos _ _ _) => None
    | r => r
    end.
  (* native methods on a receiver that is not the inputs object; None = outside the model *)
  Definition meth_val (v : val) (m : string) (vs : list val) : option val :=
    match v, vs with
    | VStr x, [VStr y] => if String.eqb m "concat" then Some (VStr (x ++ y)) else None
    | VStr x, [] => if String.eqb m "toString" then Some (VStr x) else None
    | VNum n, [] => if String.eqb m "toString" then Some (VStr (dec n)) else None
    | _, _ => None
    end.
  (* function declarations among the top-level statements of a body *)
  Fixpoint hoist_funs (s : stmt) : list (string * (list string * stmt)) :=
    match s with
    | SSeq a b => hoist_funs a ++ hoist_funs b
    | SFun n ps b => [(n, (ps, b))]
    | _ => []
    end.

  Fixpoint bind_params (ps : list string) (vs : list val) (base : nat) : list (string * nat) * list val :=
    match ps with
    | [] => ([], [])
    | p :: r =>
        let v := match vs with v :: _ => v | [] => VUndef end in
        let '(e, st) := bind_params r (tl vs) (S base) in
        ((p, base) :: e, v :: st)
    end.

  Fixpoint alloc_names (xs : list string) (base : nat) : list (string * nat) :=
    match xs with [] => [] | x :: r => (x, base) :: alloc_names r (S base) end.

  (* frame of a call: parameters, then hoisted vars (not re-binding a parameter), then hoisted functions;
     later bindings shadow earlier ones, so the environment is searched from the most recent *)
  Definition enter_frame (cenv : list (string * nat)) (ps : list string) (body : stmt) (vs : list val)
             (store : list val) : list (string * nat) * list val :=
    let base := List.length store in
    let '(penv, pvals) := bind_params ps vs base in
    let vars := filter (fun x => negb (mem x ps)) (nodup string_dec (hoist_vars body)) in
    let venv := alloc_names vars (base + List.length ps) in
    let funs := hoist_funs body in
    let fbase := base + List.length ps + List.length vars in
    let fenv := alloc_names (map fst funs) fbase in
    let env' := rev fenv ++ rev venv ++ rev penv ++ cenv in
    (env', store ++ pvals ++ map (fun _ => VUndef) vars
                 ++ map (fun f => VClos env' (fst (snd f)) (snd (snd f))) funs).

  Inductive comp := CNormal | CRet (v : val).

  Fixpoint eval_e (n : nat) (env : list (string * nat)) (e : expr) (s : st) {struct n} : res val :=
    match n with
    | O => NoFuel
    | S n =>
      match e with
      | ENum k => Ok (VNum k) s
      | EStr _ x => Ok (VStr x) s
      | EBool b => Ok (VBool b) s
      | EId x => match assoc x env with
                 | Some l => Ok (nth l (fst s) VUndef) s
                 | None => Throw s
                 end
      | EDot e1 f => bind (eval_e n env e1 s) (fun v s => get_prop v f s)
      | EIdx e1 k =>
          bind (eval_e n env e1 s) (fun v s =>
          bind (eval_e n env k s) (fun kv s =>
            match v with
            | VUndef | VNull => Throw s
            | _ => match to_key kv with Some key => get_prop v key s | None => Unsup end
            end))
      | EAdd a b =>
          bind (eval_e n env a s) (fun va s =>
          bind (eval_e n env b s) (fun vb s =>
            match add_val va vb with Some v => Ok v s | None => Unsup end))
      | ECond c a b =>
          bind (eval_e n env c s) (fun vc s => if truthy vc then eval_e n env a s else eval_e n env b s)
      | EParen e1 => eval_e n env e1 s
      | EAssign x r =>
          bind (eval_e n env r s) (fun v s =>
            match assoc x env with
            | Some l => Ok v (set_nth l v (fst s), snd s)
            | None => Throw s
            end)
      | ECall (EDot r m) args =>                 (* method call: the receiver is not looked up as an inputs field read
                                                    unless it is the inputs object itself, which is outside the model *)
          bind (eval_e n env r s) (fun v s =>
          bind (eval_l n env args s) (fun vs s =>
            match v with
            | VUndef | VNull => Throw s
            | VInp | VClos _ _ _ => Unsup
            | _ => match meth_val v m vs with Some x => Ok x s | None => Unsup end
            end))
      | ECall f args =>
          bind (eval_e n env f s) (fun vf s =>
          bind (eval_l n env args s) (fun vs s =>
            match vf with
            | VClos cenv ps body =>
                let '(env', store') := enter_frame cenv ps body vs (fst s) in
                bind (exec n env' body (store', snd s)) (fun c s =>
                  Ok (match c with CRet v => v | CNormal => VUndef end) s)
            | _ => Throw s
            end))
      | EFun ps body => Ok (VClos env ps body) s
      | EOp o _ args =>
          bind (eval_l n env args s) (fun vs s => match op_val o vs with Some v => Ok v s | None => Unsup end)
      | ELogic isand a b =>
          bind (eval_e n env a s) (fun va s =>
            if (if isand then truthy va else negb (truthy va)) then eval_e n env b s else Ok va s)
      end
    end
  with eval_l (n : nat) (env : list (string * nat)) (l : elist) (s : st) {struct n} : res (list val) :=
    match n with
    | O => NoFuel
    | S n =>
      match l with
      | ENil => Ok [] s
      | ECons e r => bind (eval_e n env e s) (fun v s => bind (eval_l n env r s) (fun vs s => Ok (v :: vs) s))
      end
    end
  with exec (n : nat) (env : list (string * nat)) (c : stmt) (s : st) {struct n} : res comp :=
    match n with
    | O => NoFuel
    | S n =>
      match c with
      | SSkip | SVar _ | SFun _ _ _ => Ok CNormal s
      | SSeq a b => bind (exec n env a s) (fun r s => match r with CNormal => exec n env b s | CRet v => Ok (CRet v) s end)
      | SVarI x e =>
          bind (eval_e n env e s) (fun v s =>
            match assoc x env with
            | Some l => Ok CNormal (set_nth l v (fst s), snd s)
            | None => Throw s
            end)
      | SExpr e => bind (eval_e n env e s) (fun _ s => Ok CNormal s)
      | SRet e => bind (eval_e n env e s) (fun v s => Ok (CRet v) s)
      | SIf c t f => bind (eval_e n env c s) (fun vc s => if truthy vc then exec n env t s else exec n env f s)
      | SFunE x ps body =>
          match assoc x env with
          | Some l => Ok CNormal (set_nth l (VClos env ps body) (fst s), snd s)
          | None => Throw s
          end
      | SFor init c u body =>
          bind (exec n env init s) (fun r s =>
            match r with
            | CRet v => Ok (CRet v) s
            | CNormal =>
                bind (eval_e n env c s) (fun vc s =>
                  if truthy vc then
                    bind (exec n env body s) (fun r s =>
                      match r with
                      | CRet v => Ok (CRet v) s
                      | CNormal => bind (eval_e n env u s) (fun _ s => exec n env (SFor SSkip c u body) s)
                      end)
                  else Ok CNormal s)
            end)
      end
    end.

  (* the whole JS part: library declarations and the body share the outermost function frame, whose enclosing
     environment binds the three CWL context names: [inputs] (location 0, the instrumented object), [self]
     (location 1: null in the harness, modelled as undefined: both throw on property access and are falsy) and
     [runtime] (location 2: an opaque object with string fields) *)
  Definition genv : list (string * nat) := [("inputs", 0); ("self", 1); ("runtime", 2)].
  Definition gstore : list val := [VInp; VUndef; VObj [("outdir", "/out"); ("tmpdir", "/tmp")]].
  Definition run (n : nat) (lib body : stmt) : res comp :=
    let prog := SSeq lib body in
    let '(env', store') := enter_frame genv [] prog [] gstore in
    exec n env' prog (store', []).

End Eval.

(* A parameter reference is evaluated by regex_eval of cwl_utils (key in inputs; inputs[key]; then down the value);
   when that raises WorkflowException (missing key, integer index on a mapping, ...) and full JS is enabled, the
   evaluator of cwl_utils falls through to JavaScript with the very same text.  Whenever regex_eval succeeds
   the JavaScript evaluation succeeds with the same reads on inputs, so the reference is modelled as the
   JavaScript member chain. *)
Definition seg_access (e : expr) (g : seg) : expr :=
  match g with
  | SgDot s => EDot e s
  | SgSingle raw | SgDouble raw => EIdx e (EStr true (unesc2 raw))
  | SgIdx n => EIdx e (ENum n)
  end.
Definition ref_expr (root : string) (segs : list seg) : expr := fold_left seg_access segs (EId root).
Definition run_ref (inp : list (string * ival)) (n : nat) (root : string) (segs : list seg) : res comp :=
  run inp n SSkip (SRet (EParen (ref_expr root segs))).

(* ------------------------------------------------------------------------------------------------ *)
(* 4. the syntactic fragment on which the analysis is proved sound (JsDeps/Sound.v): function-free programs
      in which the inputs object can only travel through plain identifier-to-identifier assignments.
      [br] = inside an if/else or ?: branch. *)

(* may the expression evaluate to the inputs object itself? (syntactic over-approximation) *)
Fixpoint may_inp (e : expr) : bool :=
  match e with
  | EId _ => true
  | EParen e1 => may_inp e1
  | ECond _ a b => may_inp a || may_inp b
  | EAssign _ r => may_inp r
  | ECall _ _ => true
  | ELogic _ a b => may_inp a || may_inp b
  | _ => false
  end.

(* a string-literal index whose token text is left unchanged by strip and is not empty *)
Definition good_key (k : expr) : bool :=
  match k with
  | EStr dq s => String.eqb (strip_q (token_text dq s)) s && negb (String.eqb s "")
  | _ => false
  end.

Fixpoint ok_e (br : bool) (e : expr) : bool :=
  match e with
  | ENum _ | EStr _ _ | EBool _ | EId _ => true
  | EDot e1 f =>
      match get_name e1 with
      | Some _ => negb (is_reserved f)                      (* x.f : f must carry an Identifier token *)
      | None => negb (may_inp e1) && ok_e br e1             (* otherwise the base is never the inputs object *)
      end
  | EIdx e1 k =>
      match get_name e1 with
      | Some _ => good_key k                                (* x["k"] / x['k'] *)
      | None => negb (may_inp e1) && ok_e br e1 && ok_e br k
      end
  | EAdd a b => ok_e br a && ok_e br b
  | ECond c a b => ok_e br c && ok_e true a && ok_e true b
  | EParen e1 => ok_e br e1
  | EAssign x r =>
      negb (String.eqb x "inputs") &&
      match get_name r with
      | Some y => negb br || String.eqb y "inputs"          (* in a branch an alias is only (re)bound to inputs itself *)
      | None => negb (may_inp r) && ok_e br r
      end
  | ECall _ _ | EFun _ _ | EOp _ _ _ | ELogic _ _ _ => false
  end.

Fixpoint ok_s (br : bool) (s : stmt) : bool :=
  match s with
  | SSkip | SVar _ => true
  | SSeq a b => ok_s br a && ok_s br b
  | SVarI _ e => negb (may_inp e) && ok_e br e             (* initialisers are invisible to the listener *)
  | SExpr e | SRet e => ok_e br e
  | SIf c t f => ok_e br c && ok_s true t && ok_s true f
  | SFun _ _ _ | SFunE _ _ _ | SFor _ _ _ _ => false
  end.

Definition in_fragment (body : stmt) : bool := ok_s false body.

(* ------------------------------------------------------------------------------------------------ *)
(* 5. the fragment with function declarations (JsDeps/Funs.v): no variable ever holds the inputs object (the object is
      only used as the base of a member access written [inputs.f] / [inputs["f"]]); function declarations at the top
      level of the library and of the body (not nested, no function expressions), called through an identifier;
      [L] = the names declared in the current function (parameters and vars), which never hold the inputs object. *)

Fixpoint may_inpB (L : list string) (e : expr) : bool :=
  match e with
  | EId x => negb (mem x L)
  | EParen e1 => may_inpB L e1
  | ECond _ a b => may_inpB L a || may_inpB L b
  | EAssign _ r => may_inpB L r
  | ELogic _ a b => may_inpB L a || may_inpB L b
  | _ => false
  end.

Fixpoint okb_e (L : list string) (e : expr) : bool :=
  match e with
  | ENum _ | EStr _ _ | EBool _ => true
  | EId x => mem x L || String.eqb x "inputs"
  | EDot e1 f =>
      okb_e L e1 && match get_name e1 with Some _ => negb (is_reserved f) | None => negb (may_inpB L e1) end
  | EIdx e1 k =>
      okb_e L e1 && match get_name e1 with
                    | Some _ => good_key k
                    | None => negb (may_inpB L e1) && okb_e L k
                    end
  | EAdd a b => okb_e L a && okb_e L b
  | ECond c a b => okb_e L c && okb_e L a && okb_e L b
  | EParen e1 => okb_e L e1
  | EAssign x r => mem x L && okb_e L r && negb (may_inpB L r)
  | ECall f args =>
      (match f with
       | EId _ => true
       | EDot r _ => okb_e L f && negb (may_inpB L r)       (* a method call on a receiver that is not the inputs object *)
       | _ => false
       end) && okb_l L args
  | EFun _ _ => false
  | EOp _ _ args => okb_l L args                            (* operands are never the inputs object itself *)
  | ELogic _ a b => okb_e L a && okb_e L b
  end
with okb_l (L : list string) (l : elist) : bool :=
  match l with
  | ENil => true
  | ECons e r => okb_e L e && negb (may_inpB L e) && okb_l L r
  end.

Fixpoint okb_s (top : bool) (L : list string) (s : stmt) : bool :=
  match s with
  | SSkip => true
  | SVar x => mem x L
  | SSeq a b => okb_s top L a && okb_s top L b
  | SVarI x e => mem x L && okb_e L e && negb (may_inpB L e)
  | SExpr e => okb_e L e
  | SRet e => okb_e L e && negb (may_inpB L e)
  | SIf c t f => okb_e L c && okb_s false L t && okb_s false L f
  | SFun _ ps body =>
      top && okb_s false (ps ++ hoist_vars body) body && negb (mem "inputs" (ps ++ hoist_vars body))
  | SFunE x ps body =>
      top && mem x L && okb_s false (ps ++ hoist_vars body) body && negb (mem "inputs" (ps ++ hoist_vars body))
  | SFor init c u body => okb_s false L init && okb_e L c && okb_e L u && okb_s false L body
  end.

Definition in_fragmentF (lib body : stmt) : bool :=
  let prog := SSeq lib body in
  okb_s true (hoist_vars prog) prog && negb (mem "inputs" (hoist_vars prog)).

(* every field that is syntactically read from the identifier [inputs], function bodies included *)
Definition inputs_key (e1 : expr) (k : list string) : list string :=
  match e1 with EId x => if String.eqb x "inputs" then k else [] | _ => [] end.
Fixpoint ad_e (e : expr) : list string :=
  match e with
  | ENum _ | EStr _ _ | EBool _ | EId _ => []
  | EDot e1 f => inputs_key e1 [f] ++ ad_e e1
  | EIdx e1 k => inputs_key e1 (match k with EStr _ s => [s] | _ => [] end) ++ ad_e e1 ++ ad_e k
  | EAdd a b => ad_e a ++ ad_e b
  | ECond c a b => ad_e c ++ ad_e a ++ ad_e b
  | EParen e1 => ad_e e1
  | EAssign _ r => ad_e r
  | ECall f args => ad_e f ++ ad_l args
  | EFun _ body => ad_s body
  | EOp _ _ args => ad_l args
  | ELogic _ a b => ad_e a ++ ad_e b
  end
with ad_l (l : elist) : list string :=
  match l with ENil => [] | ECons e r => ad_e e ++ ad_l r end
with ad_s (s : stmt) : list string :=
  match s with
  | SSkip | SVar _ => []
  | SSeq a b => ad_s a ++ ad_s b
  | SVarI _ e | SExpr e | SRet e => ad_e e
  | SIf c t f => ad_e c ++ ad_s t ++ ad_s f
  | SFun _ _ body | SFunE _ _ body => ad_s body
  | SFor init c u body => ad_s init ++ ad_e c ++ ad_e u ++ ad_s body
  end.

(* ------------------------------------------------------------------------------------------------ *)
(* 7. the combined fragment (JsDeps/Combined.v): aliases of [inputs] in the outermost frame (library + body top level),
      tracked through identifier-to-identifier assignment exactly as in section 4, together with the function declarations
      of section 5, as long as no alias crosses a function boundary.  [A] = the names that may ever hold the inputs
      object (alias-capable names); every other name (other variables, self, runtime, function names) never does.
      Function bodies stay alias-free: an alias bound INSIDE a function declaration is the refuted inner_scope case. *)

Fixpoint may_inpT (A : list string) (e : expr) : bool :=
  match e with
  | EId x => mem x A
  | EParen e1 => may_inpT A e1
  | ECond _ a b => may_inpT A a || may_inpT A b
  | EAssign _ r => may_inpT A r
  | ELogic _ a b => may_inpT A a || may_inpT A b
  | _ => false
  end.

Fixpoint okt_e (br : bool) (A : list string) (e : expr) : bool :=
  match e with
  | ENum _ | EStr _ _ | EBool _ | EId _ => true
  | EDot e1 f =>
      okt_e br A e1 && match get_name e1 with
                       | Some x => negb (mem x A) || negb (is_reserved f)
                       | None => negb (may_inpT A e1)
                       end
  | EIdx e1 k =>
      okt_e br A e1 && okt_e br A k &&
      match get_name e1 with
      | Some x => negb (mem x A) || good_key k
      | None => negb (may_inpT A e1)
      end
  | EAdd a b => okt_e br A a && okt_e br A b
  | ECond c a b => okt_e br A c && okt_e true A a && okt_e true A b
  | EParen e1 => okt_e br A e1
  | EAssign x r =>
      negb (String.eqb x "inputs") && okt_e br A r &&
      match get_name r with
      | Some y => if mem x A then negb br || String.eqb y "inputs" else negb (mem y A)
      | None => negb (may_inpT A r)
      end
  | ECall f args =>
      (match f with
       | EId _ => true
       | EDot r _ => okt_e br A f && negb (may_inpT A r)
       | _ => false
       end) && okt_l br A args
  | EFun _ _ => false
  | EOp _ _ args => okt_l br A args
  | ELogic _ a b => okt_e br A a && okt_e true A b            (* b may be skipped: treated like a branch *)
  end
with okt_l (br : bool) (A : list string) (l : elist) : bool :=
  match l with
  | ENil => true
  | ECons e r => okt_e br A e && negb (may_inpT A e) && okt_l br A r
  end.

Fixpoint okt_s (br : bool) (A : list string) (s : stmt) : bool :=
  match s with
  | SSkip | SVar _ => true
  | SSeq a b => okt_s br A a && okt_s br A b
  | SVarI _ e => okt_e br A e && negb (may_inpT A e)
  | SExpr e | SRet e => okt_e br A e
  | SIf c t f => okt_e br A c && okt_s true A t && okt_s true A f
  | SFun _ ps body =>
      negb br && okb_s false (ps ++ hoist_vars body) body && negb (mem "inputs" (ps ++ hoist_vars body)) &&
      forallb (fun x => negb (mem x A)) (ps ++ hoist_vars body)
  | SFunE x ps body =>
      negb br && negb (mem x A) && okb_s false (ps ++ hoist_vars body) body &&
      negb (mem "inputs" (ps ++ hoist_vars body)) && forallb (fun x => negb (mem x A)) (ps ++ hoist_vars body)
  | SFor _ _ _ _ => false                                     (* loops: only in the alias-free fragment of section 5 *)
  end.

(* fields read by the declared functions *)
Fixpoint fd_s (s : stmt) : list string :=
  match s with
  | SSeq a b => fd_s a ++ fd_s b
  | SIf _ t f => fd_s t ++ fd_s f
  | SFun _ _ body | SFunE _ _ body => ad_s body
  | _ => []
  end.

(* the alias-capable names: inputs, and every target of an identifier-to-identifier assignment (outside function
   bodies) whose right-hand side is alias-capable; computed by iterating once per such assignment *)
Fixpoint asg_e (e : expr) : list (string * string) :=
  match e with
  | EDot e1 _ | EParen e1 => asg_e e1
  | EIdx a b | EAdd a b => asg_e a ++ asg_e b
  | ECond c a b => asg_e c ++ asg_e a ++ asg_e b
  | EAssign x r => (match r with EId y => [(x, y)] | _ => [] end) ++ asg_e r
  | ECall f args => asg_e f ++ asg_l args
  | EOp _ _ args => asg_l args
  | ELogic _ a b => asg_e a ++ asg_e b
  | _ => []
  end
with asg_l (l : elist) : list (string * string) :=
  match l with ENil => [] | ECons e r => asg_e e ++ asg_l r end.
Fixpoint asg_s (s : stmt) : list (string * string) :=
  match s with
  | SSeq a b => asg_s a ++ asg_s b
  | SVarI _ e | SExpr e | SRet e => asg_e e
  | SIf c t f => asg_e c ++ asg_s t ++ asg_s f
  | _ => []
  end.
Definition alias_step (asg : list (string * string)) (A : list string) : list string :=
  A ++ map fst (filter (fun p => mem (snd p) A && negb (mem (fst p) A)) asg).
Fixpoint iter {X} (n : nat) (f : X -> X) (x : X) : X := match n with O => x | S n' => iter n' f (f x) end.
Definition alias_set (prog : stmt) : list string :=
  iter (List.length (asg_s prog)) (alias_step (asg_s prog)) ["inputs"].

Definition okT (A : list string) (lib body : stmt) : bool := mem "inputs" A && okt_s false A (SSeq lib body).
Definition in_fragmentT (lib body : stmt) : bool := okT (alias_set (SSeq lib body)) lib body.
(* by construction a superset of the fragments of sections 4 and 5 *)
Definition in_fragmentC (lib body : stmt) : bool :=
  in_fragmentT lib body || in_fragmentF lib body || (match lib with SSkip => in_fragment body | _ => false end).

(* ------------------------------------------------------------------------------------------------ *)
(* 6. whole interpolated strings: every part is evaluated left to right; the first failure aborts.  A parameter
      reference whose root is not [inputs] (self, runtime) starts at another object and reads nothing from inputs. *)

Fixpoint run_parts (inp : list (string * ival)) (n : nat) (lib : stmt) (ps : list part) (acc : list string)
  : option (list string) :=
  match ps with
  | [] => Some acc
  | PText _ :: r => run_parts inp n lib r acc
  | PRef root segs :: r =>
      if String.eqb root "inputs" then
        match run_ref inp n root segs with
        | Ok _ s => run_parts inp n lib r (snd s ++ acc)
        | _ => None
        end
      else run_parts inp n lib r acc
  | PJs body :: r =>
      match run inp n lib body with
      | Ok _ s => run_parts inp n lib r (snd s ++ acc)
      | _ => None
      end
  end.

Definition seg_key (g : seg) : string :=
  match g with SgDot s => s | SgSingle raw | SgDouble raw => unesc2 raw | SgIdx n => dec n end.

Definition part_ok (lib : stmt) (p : part) : bool :=
  match p with
  | PText _ => true
  | PRef root segs =>
      negb (String.eqb root "inputs") ||
      match segs with
      | [] => true
      | SgIdx _ :: _ => false
      | g :: _ => negb (String.eqb (seg_key g) "")
      end
  | PJs body => in_fragmentC lib body
  end.

Definition parts_in_fragment (lib : stmt) (ps : list part) : bool := forallb (part_ok lib) ps.

Definition incl_b (a b : list string) : bool := forallb (fun x => mem x b) a.
Definition set_eqb (a b : list string) : bool := incl_b a b && incl_b b a.
