(* Graph/Proofs4.v — replace(old, new). *)
From Coq Require Import List Bool NArith Arith Lia Permutation.
From SF Require Import Graph.Model Graph.Util Graph.Proofs Graph.Proofs2 Graph.Proofs3.
Import ListNotations.

Lemma sdiscard_noop o l : ~ In o l -> sdiscard o l = l.
Proof.
  unfold sdiscard. induction l as [|a l IH]; simpl; intros H; [reflexivity|].
  destruct (N.eqb_spec o a) as [->|Hne]; simpl.
  - exfalso. apply H. left. reflexivity.
  - rewrite IH; [reflexivity|]. intros A. apply H. right. assumption.
Qed.

Lemma sadd_idem n l : sadd n (sadd n l) = sadd n l.
Proof.
  unfold sadd. destruct (mem n l) eqn:E.
  - rewrite E. reflexivity.
  - assert (mem n (l ++ [n]) = true) as ->; [|reflexivity].
    apply mem_In. apply in_app_iff. right. left. reflexivity.
Qed.

Definition hrep (o n : node) (l : list node) : list node := sadd n (sdiscard o l).

Lemma hrep_idem o n l : o <> n -> hrep o n (hrep o n l) = hrep o n l.
Proof.
  intros Hne. unfold hrep. rewrite (sdiscard_noop o (sadd n (sdiscard o l))).
  - apply sadd_idem.
  - rewrite In_sadd, In_sdiscard. intuition congruence.
Qed.

Lemma In_hrep o n l y : In y (hrep o n l) <-> y = n \/ (y <> o /\ In y l).
Proof. unfold hrep. rewrite In_sadd, In_sdiscard. tauto. Qed.

Lemma In_fold_sadd L : forall (l : list node) y,
  In y (fold_left (fun l s => sadd s l) L l) <-> In y l \/ In y L.
Proof.
  induction L as [|a L IH]; intros l y; simpl; [tauto|].
  rewrite IH, In_sadd. intuition congruence.
Qed.

Lemma fold_pointwise (step : amap -> node -> amap) (h : list node -> list node)
  (Hh : forall l, h (h l) = h l)
  (Hstep : forall m s k, mget (step m s) k = if N.eqb s k then option_map h (mget m k) else mget m k)
  L : forall m k,
  mget (fold_left step L m) k = if mem k L then option_map h (mget m k) else mget m k.
Proof.
  induction L as [|a L IH]; intros m k; simpl; [reflexivity|].
  rewrite IH. rewrite Hstep. rewrite (N.eqb_sym k a).
  destruct (N.eqb a k) eqn:E; simpl.
  - destruct (mem k L); destruct (mget m k); simpl; rewrite ?Hh; reflexivity.
  - reflexivity.
Qed.

Lemma fold_graph_split (F1 F2 : amap -> node -> amap) L : forall g,
  fold_left (fun g s => mkG (F1 (gsucc g) s) (F2 (gpred g) s)) L g
  = mkG (fold_left F1 L (gsucc g)) (fold_left F2 L (gpred g)).
Proof.
  induction L as [|a L IH]; intros g; simpl; [destruct g; reflexivity|]. rewrite IH. reflexivity.
Qed.

Lemma upd2_get m s f1 f2 k :
  mget (upd (upd m s f1) s f2) k = if N.eqb s k then option_map (fun l => f2 (f1 l)) (mget m k) else mget m k.
Proof.
  rewrite !mget_upd. destruct (N.eqb s k); [|reflexivity]. destruct (mget m k); reflexivity.
Qed.

Section Replace.
  Variable order : list node -> list node.
  Hypothesis Hperm : forall l, Permutation (order l) l.
  Variables (g : graph) (o n : node).
  Hypothesis W : WF g.
  Hypothesis Ho : is_node g o.
  Hypothesis Hn : ~ is_node g n.

  Lemma o_ne_n : o <> n.
  Proof. intros ->. contradiction. Qed.

  Lemma n_not_succ a : ~ sedge g a n.
  Proof. intros H. apply Hn. eapply sedge_node_r; eassumption. Qed.
  Lemma n_no_succ b : ~ sedge g n b.
  Proof. intros H. apply Hn. eapply sedge_node_l; eassumption. Qed.

  Definition r1 := add_node g n.
  Definition Ls := order (mgetd (gsucc r1) o).
  Definition r2 := fold_left (fun g s => mkG (upd (gsucc g) n (sadd s))
                                           (upd (upd (gpred g) s (sdiscard o)) s (sadd n))) Ls r1.
  Definition Lp := order (mgetd (gpred r2) o).
  Definition r3 := fold_left (fun g p => mkG (upd (upd (gsucc g) p (sdiscard o)) p (sadd n))
                                           (upd (gpred g) n (sadd p))) Lp r2.
  Definition r4 := mkG (mdel (gsucc r3) o) (mdel (gpred r3) o).

  Lemma replace_unfold : replace order g o n = (r4, RetNone).
  Proof.
    unfold replace. apply contains_true in Ho. apply contains_false in Hn. rewrite Ho, Hn. reflexivity.
  Qed.

  Lemma S1 k : mget (gsucc r1) k = if N.eqb n k then Some [] else mget (gsucc g) k.
  Proof.
    unfold r1. rewrite add_node_get_succ. destruct (N.eqb_spec n k); [subst|reflexivity].
    unfold is_node in Hn. destruct (mget (gsucc g) k); [exfalso; apply Hn; congruence|reflexivity].
  Qed.

  Lemma P1 k : mget (gpred r1) k = if N.eqb n k then Some [] else mget (gpred g) k.
  Proof.
    unfold r1. rewrite add_node_get_pred by assumption. destruct (N.eqb_spec n k); [subst|reflexivity].
    destruct (mget (gpred g) k) eqn:E; [|reflexivity].
    exfalso. apply Hn. unfold is_node. intros H. apply (wf_dom g W) in H. congruence.
  Qed.

  Lemma In_Ls y : In y Ls <-> sedge g o y.
  Proof.
    unfold Ls. rewrite (order_In order Hperm). unfold sedge, mgetd. rewrite S1.
    destruct (N.eqb_spec n o); [exfalso; apply o_ne_n; congruence|tauto].
  Qed.

  Lemma S2 k : mget (gsucc r2) k
    = if N.eqb n k then Some (fold_left (fun l s => sadd s l) Ls []) else mget (gsucc g) k.
  Proof.
    unfold r2. rewrite (fold_graph_split (fun m s => upd m n (sadd s))
                          (fun m s => upd (upd m s (sdiscard o)) s (sadd n))). simpl.
    rewrite fold_upd_fixed_key. rewrite S1. destruct (N.eqb n k); reflexivity.
  Qed.

  Lemma P2 k : mget (gpred r2) k
    = if mem k Ls then option_map (hrep o n) (mget (gpred r1) k) else mget (gpred r1) k.
  Proof.
    unfold r2. rewrite (fold_graph_split (fun m s => upd m n (sadd s))
                          (fun m s => upd (upd m s (sdiscard o)) s (sadd n))). simpl.
    apply fold_pointwise.
    - intros l. apply hrep_idem. apply o_ne_n.
    - intros m s k'. exact (upd2_get m s (sdiscard o) (sadd n) k').
  Qed.

  Lemma In_Lp y : In y Lp <-> (sedge g o o /\ y = n) \/ (pedge g y o /\ y <> o).
  Proof.
    unfold Lp. rewrite (order_In order Hperm). unfold mgetd at 1. rewrite P2, P1.
    destruct (N.eqb_spec n o); [exfalso; apply o_ne_n; congruence|].
    unfold pedge, mgetd.
    destruct (mem o Ls) eqn:E.
    - apply mem_In in E. apply In_Ls in E.
      destruct (mget (gpred g) o) eqn:E2; simpl.
      + rewrite In_hrep. intuition.
      + exfalso. apply (wf_mirror g W) in E. unfold pedge, mgetd in E. rewrite E2 in E. destruct E.
    - apply mem_false in E. rewrite In_Ls in E.
      destruct (mget (gpred g) o) eqn:E2; simpl; [|tauto].
      split; [|tauto]. intros H. right. split; [assumption|]. intros ->. apply E.
      apply (wf_mirror g W). unfold pedge, mgetd. rewrite E2. assumption.
  Qed.

  Lemma S3 k : mget (gsucc r3) k
    = if mem k Lp then option_map (hrep o n) (mget (gsucc r2) k) else mget (gsucc r2) k.
  Proof.
    unfold r3. rewrite (fold_graph_split (fun m p => upd (upd m p (sdiscard o)) p (sadd n))
                          (fun m p => upd m n (sadd p))). simpl.
    apply fold_pointwise.
    - intros l. apply hrep_idem. apply o_ne_n.
    - intros m s k'. exact (upd2_get m s (sdiscard o) (sadd n) k').
  Qed.

  Lemma P3 k : mget (gpred r3) k
    = if N.eqb n k then option_map (fun l => fold_left (fun l p => sadd p l) Lp l) (mget (gpred r2) k)
      else mget (gpred r2) k.
  Proof.
    unfold r3. rewrite (fold_graph_split (fun m p => upd (upd m p (sdiscard o)) p (sadd n))
                          (fun m p => upd m n (sadd p))). simpl.
    apply fold_upd_fixed_key.
  Qed.

  Lemma mem_n_Ls : mem n Ls = false.
  Proof. apply mem_false. rewrite In_Ls. apply n_not_succ. Qed.

  Lemma mem_Lp_n : mem n Lp = true <-> sedge g o o.
  Proof.
    rewrite mem_In, In_Lp. split; [|tauto]. intros [[A _]|[A _]]; [assumption|].
    exfalso. apply (n_no_succ o). apply (wf_mirror g W). assumption.
  Qed.

  Lemma mem_Lp_other a : a <> n -> a <> o -> (mem a Lp = true <-> sedge g a o).
  Proof.
    intros A B. rewrite mem_In, In_Lp, <- (wf_mirror g W). tauto.
  Qed.

  Definition un (y : node) : node := if N.eqb y n then o else y.

  Lemma r4_node k : is_node r4 k <-> (is_node g k /\ k <> o) \/ k = n.
  Proof.
    unfold is_node, r4. simpl. rewrite mget_mdel, S3, S2.
    destruct (N.eqb_spec o k) as [<-|Hok].
    - split; [congruence|]. intros [[_ A]|A]; [congruence|]. exfalso. apply o_ne_n. assumption.
    - destruct (N.eqb_spec n k) as [<-|Hnk].
      + destruct (mem n Lp); simpl; split; intros; auto; congruence.
      + destruct (mem k Lp); destruct (mget (gsucc g) k); simpl; split; intros H; try tauto; try congruence;
          try (left; split; congruence); destruct H as [[H _]|H]; congruence.
  Qed.

  Lemma r4_sedge a b : sedge r4 a b <-> a <> o /\ b <> o /\ sedge g (un a) (un b).
  Proof.
    pose proof o_ne_n as Hon.
    unfold sedge at 1, r4. simpl. unfold mgetd at 1. rewrite mget_mdel, S3, S2.
    destruct (N.eqb_spec o a) as [<-|Hoa]; [simpl; tauto|].
    unfold un. destruct (N.eqb_spec a n) as [->|Han].
    - rewrite N.eqb_refl.
      destruct (mem n Lp) eqn:E.
      + apply mem_Lp_n in E. simpl. rewrite In_hrep, In_fold_sadd, In_Ls. simpl.
        destruct (N.eqb_spec b n) as [->|Hbn]; [intuition congruence|].
        intuition congruence.
      + assert (~ sedge g o o) as Hns by (rewrite <- mem_Lp_n; congruence).
        rewrite In_fold_sadd, In_Ls. simpl.
        destruct (N.eqb_spec b n) as [->|Hbn].
        * split; [intros [[]|A]; exfalso; eapply n_not_succ; eassumption|tauto].
        * split; [intros [[]|A]|tauto]. assert (b <> o) by (intros ->; contradiction). intuition congruence.
    - destruct (N.eqb_spec n a) as [->|_]; [congruence|].
      destruct (mem a Lp) eqn:E.
      + apply mem_Lp_other in E; try assumption; try congruence.
        unfold sedge, mgetd in *. destruct (mget (gsucc g) a) eqn:E2; simpl in *; [|destruct E].
        rewrite In_hrep.
        destruct (N.eqb_spec b n) as [->|Hbn]; [intuition congruence|]. intuition congruence.
      + assert (~ sedge g a o) as Hns.
        { intros H. apply mem_Lp_other in H; congruence. }
        fold (mgetd (gsucc g) a). fold (sedge g a b).
        destruct (N.eqb_spec b n) as [->|Hbn].
        * split; [intros A; exfalso; eapply n_not_succ; eassumption|tauto].
        * split; [|tauto]. intros A. assert (b <> o) by (intros ->; contradiction). intuition congruence.
  Qed.

  Lemma r4_pedge a b : pedge r4 a b <-> a <> o /\ b <> o /\ pedge g (un a) (un b).
  Proof.
    pose proof o_ne_n as Hon.
    unfold pedge at 1, r4. simpl. unfold mgetd at 1. rewrite mget_mdel, P3, P2, P1.
    destruct (N.eqb_spec o b) as [<-|Hob]; [simpl; tauto|].
    unfold un. destruct (N.eqb_spec b n) as [->|Hbn].
    - rewrite N.eqb_refl. rewrite mem_n_Ls. simpl.
      rewrite In_fold_sadd, In_Lp. simpl.
      destruct (N.eqb_spec a n) as [->|Han].
      + rewrite <- (wf_mirror g W o o).
        assert (~ pedge g n o) as Hnp by (rewrite <- (wf_mirror g W); apply n_no_succ).
        intuition congruence.
      + intuition congruence.
    - destruct (N.eqb_spec n b) as [->|_]; [congruence|].
      destruct (mem b Ls) eqn:E.
      + apply mem_In in E. apply In_Ls in E.
        apply (wf_mirror g W) in E.
        unfold pedge, mgetd in *. destruct (mget (gpred g) b) eqn:E2; simpl in *; [|destruct E].
        rewrite In_hrep.
        destruct (N.eqb_spec a n) as [->|Han]; [intuition congruence|]. intuition congruence.
      + apply mem_false in E. rewrite In_Ls in E.
        assert (~ pedge g o b) as Hns by (rewrite <- (wf_mirror g W); assumption).
        fold (mgetd (gpred g) b). fold (pedge g a b).
        destruct (N.eqb_spec a n) as [->|Han].
        * split; [intros A; exfalso; apply (n_no_succ b); apply (wf_mirror g W); assumption|tauto].
        * split; [|tauto]. intros A. assert (a <> o) by (intros ->; contradiction). intuition congruence.
  Qed.

  Lemma r4_dom k : mget (gsucc r4) k = None <-> mget (gpred r4) k = None.
  Proof.
    unfold r4. simpl. rewrite !mget_mdel, S3, S2, P3, P2, P1.
    destruct (N.eqb o k); [tauto|].
    destruct (N.eqb_spec n k) as [<-|Hnk].
    - rewrite mem_n_Ls. destruct (mem n Lp); simpl; split; congruence.
    - pose proof (wf_dom g W k) as D.
      destruct (mem k Lp); destruct (mem k Ls); destruct (mget (gsucc g) k); destruct (mget (gpred g) k);
        simpl; split; intros; try congruence;
        try (destruct D as [D1 D2]; first [discriminate (D1 eq_refl)|discriminate (D2 eq_refl)]).
  Qed.

  Theorem replace_spec :
    let r := replace order g o n in
    snd r = RetNone /\ WF (fst r) /\
    (forall k, is_node (fst r) k <-> (is_node g k /\ k <> o) \/ k = n) /\
    (forall a b, sedge (fst r) a b <-> a <> o /\ b <> o /\ sedge g (un a) (un b)).
  Proof.
    rewrite replace_unfold. simpl. split; [reflexivity|]. split; [|split].
    - split; [apply r4_dom|]. intros a b. rewrite r4_sedge, r4_pedge, (wf_mirror g W). tauto.
    - apply r4_node.
    - apply r4_sedge.
  Qed.
End Replace.

Lemma replace_absent order g o n : ~ is_node g o -> replace order g o n = (g, RetNone).
Proof. intros H. unfold replace. apply contains_false in H. rewrite H. reflexivity. Qed.

Lemma replace_exists order g o n : is_node g o -> is_node g n -> replace order g o n = (g, ValueErr).
Proof.
  intros A B. unfold replace. apply contains_true in A. apply contains_true in B. rewrite A, B. reflexivity.
Qed.
