(* Graph/Proofs2.v — remove_nodes as a whole (fuel, closure), add, and the statement-level lemmas. *)
From Coq Require Import List Bool NArith Arith Lia Permutation.
From SF Require Import Graph.Model Graph.Util Graph.Proofs.
Import ListNotations.

Section Remove2.
  Variable order : list node -> list node.
  Hypothesis Hperm : forall l, Permutation (order l) l.

  (* the fuel is enough: the while loop ends with an empty stack *)
  Lemma remove_loop_done prune : forall fuel g stack removed,
    length stack + esize (gpred g) < fuel ->
    snd (remove_loop order fuel prune g stack removed) = [].
  Proof.
    induction fuel as [|f IH]; intros g stack removed Hlt; [lia|].
    cbn [remove_loop]. destruct stack as [|cur stack]; [reflexivity|].
    destruct (contains g cur).
    - apply IH. pose proof (rm_one_stack_length order Hperm prune cur g stack). simpl in Hlt. lia.
    - apply IH. simpl in Hlt. lia.
  Qed.

  Lemma remove_loop_inv g0 ns prune (W0 : WF g0) : forall fuel g stack removed,
    Inv g0 ns prune g stack removed ->
    let r := remove_loop order fuel prune g stack removed in
    Inv g0 ns prune (fst (fst r)) (snd r) (snd (fst r)).
  Proof.
    induction fuel as [|f IH]; intros g stack removed I; [exact I|].
    cbn [remove_loop]. destruct stack as [|cur stack]; [exact I|].
    destruct (contains g cur) eqn:E.
    - apply IH. apply Inv_step; try assumption. apply contains_true. assumption.
    - apply IH. eapply Inv_skip; [eassumption|]. apply contains_false. assumption.
  Qed.

  (* ---- remove_nodes ---- *)
  Theorem remove_nodes_spec g ns prune : WF g ->
    let r := remove_nodes order g ns prune in
    WF (fst r) /\
    NoDup (snd r) /\
    (forall x, In x (snd r) <-> Clo (is_node g) (sedge g) (fun x => In x ns) prune x) /\
    (forall u, is_node (fst r) u <-> is_node g u /\ ~ In u (snd r)) /\
    (forall u v, sedge (fst r) u v <-> sedge g u v /\ ~ In u (snd r) /\ ~ In v (snd r)).
  Proof.
    intros W. unfold remove_nodes. simpl.
    pose proof (remove_loop_inv g ns prune W (remove_fuel g ns) g (rev ns) [] (Inv_init g ns prune W)) as I.
    pose proof (remove_loop_done prune (remove_fuel g ns) g (rev ns) []) as D.
    simpl in I. rewrite D in I by (unfold remove_fuel; rewrite rev_length; lia). clear D.
    destruct (remove_loop order (remove_fuel g ns) prune g (rev ns) []) as [[g' removed] stack'].
    simpl in *. destruct I.
    assert (Hcl : forall x, C g ns prune x -> In x removed).
    { intros x Hx. induction Hx as [x Hs Hn | p Hpr Hn [s Hs] Hall IHall].
      - destruct (i_req x Hs Hn) as [[]|H]; assumption.
      - destruct (in_dec N.eq_dec p removed) as [Hi|Hi]; [assumption|]. exfalso.
        assert (Hp' : is_node g' p) by (apply i_nodes; split; assumption).
        refine (i_dead Hpr p Hp' _ _).
        + exists s. split; [assumption|]. apply IHall. assumption.
        + intros s' Hs'. apply i_edges in Hs'. destruct Hs' as [A [_ B]].
          apply i_nodes in B. destruct B as [_ B]. apply B. apply IHall. assumption. }
    split; [assumption|]. split; [assumption|]. split; [|split].
    - intros x. split; [apply i_rem|apply Hcl].
    - assumption.
    - intros u v. rewrite i_edges, !i_nodes. split; [tauto|].
      intros [A [B D]]. split; [assumption|].
      split; (split; [|assumption]); [eapply sedge_node_l|eapply sedge_node_r]; eassumption.
  Qed.

  (* without pruning: exactly the requested nodes that are present *)
  Lemma Clo_noprune g ns x :
    Clo (is_node g) (sedge g) (fun x => In x ns) false x <-> In x ns /\ is_node g x.
  Proof.
    split.
    - intros H. destruct H; [tauto|discriminate].
    - intros [A B]. apply Clo_base; assumption.
  Qed.
End Remove2.

(* Clo only depends on the node set, the edge relation and the seed extensionally *)
Lemma Clo_ext (N1 N2 : node -> Prop) (E1 E2 : node -> node -> Prop) (s1 s2 : node -> Prop) prune :
  (forall x, N1 x <-> N2 x) -> (forall u v, E1 u v <-> E2 u v) -> (forall x, N1 x -> (s1 x <-> s2 x)) ->
  forall x, Clo N1 E1 s1 prune x -> Clo N2 E2 s2 prune x.
Proof.
  intros HN HE Hs x H. induction H as [x A B|p A B [s D] F IH].
  - apply Clo_base; [apply Hs; assumption|apply HN; assumption].
  - apply Clo_step; [assumption|apply HN; assumption|exists s; apply HE; assumption|].
    intros s' Hs'. apply IH. apply HE. assumption.
Qed.

(* ---- add ---- *)
Lemma add_node_get_succ g u k :
  mget (gsucc (add_node g u)) k
  = if N.eqb u k then (match mget (gsucc g) k with Some l => Some l | None => Some [] end)
    else mget (gsucc g) k.
Proof.
  unfold add_node, contains. destruct (mget (gsucc g) u) eqn:E.
  - destruct (N.eqb_spec u k); [subst; rewrite E|]; reflexivity.
  - simpl. rewrite mget_mset. destruct (N.eqb_spec u k); [subst; rewrite E|]; reflexivity.
Qed.

Lemma add_node_get_pred g u k : WF g ->
  mget (gpred (add_node g u)) k
  = if N.eqb u k then (match mget (gpred g) k with Some l => Some l | None => Some [] end)
    else mget (gpred g) k.
Proof.
  intros W. unfold add_node, contains. destruct (mget (gsucc g) u) eqn:E.
  - destruct (N.eqb_spec u k); [subst|reflexivity].
    destruct (mget (gpred g) k) eqn:E2; [reflexivity|].
    apply (wf_dom g W) in E2. congruence.
  - simpl. rewrite mget_mset. destruct (N.eqb_spec u k); [subst|reflexivity].
    apply (wf_dom g W) in E. rewrite E. reflexivity.
Qed.

Lemma add_node_WF g u : WF g -> WF (add_node g u).
Proof.
  intros W. split.
  - intros k. rewrite add_node_get_succ, add_node_get_pred by assumption.
    pose proof (wf_dom g W k). destruct (N.eqb u k); [|assumption].
    destruct (mget (gsucc g) k), (mget (gpred g) k); split; congruence.
  - intros a b. unfold sedge, pedge, mgetd.
    rewrite add_node_get_succ, add_node_get_pred by assumption.
    pose proof (wf_mirror g W a b) as M. unfold sedge, pedge, mgetd in M.
    destruct (N.eqb u a), (N.eqb u b); destruct (mget (gsucc g) a), (mget (gpred g) b); simpl in *; tauto.
Qed.

Lemma add_node_is_node g u k : is_node (add_node g u) k <-> is_node g k \/ k = u.
Proof.
  unfold is_node. rewrite add_node_get_succ.
  destruct (N.eqb_spec u k); [subst|].
  - destruct (mget (gsucc g) k); split; intros; try congruence; auto.
  - split; [tauto|]. intros [A|A]; congruence.
Qed.

Lemma add_node_sedge g u a b : sedge (add_node g u) a b <-> sedge g a b.
Proof.
  unfold sedge, mgetd. rewrite add_node_get_succ.
  destruct (N.eqb u a); destruct (mget (gsucc g) a); simpl; tauto.
Qed.

Lemma In_mgetd_upd m k f k' x (Hf : f [] = []) :
  In x (mgetd (upd m k f) k') <-> if N.eqb k k' then In x (f (mgetd m k')) else In x (mgetd m k').
Proof. rewrite mgetd_upd by assumption. destruct (N.eqb k k'); tauto. Qed.

Lemma mget_upd_none m k f k' : mget (upd m k f) k' = None <-> mget m k' = None.
Proof. rewrite mget_upd. destruct (N.eqb k k'); destruct (mget m k'); simpl; split; congruence. Qed.

Lemma mgetd_upd_sadd m k x k' y : mget m k <> None ->
  In y (mgetd (upd m k (sadd x)) k') <-> In y (mgetd m k') \/ (k' = k /\ y = x).
Proof.
  intros Hk. unfold mgetd. rewrite mget_upd.
  destruct (N.eqb_spec k k'); [subst|].
  - destruct (mget m k'); [|congruence]. simpl. rewrite In_sadd. intuition.
  - intuition congruence.
Qed.

Theorem add_spec g u v : WF g ->
  WF (add g u v) /\
  (forall k, is_node (add g u v) k <-> is_node g k \/ k = u \/ Some k = v) /\
  (forall a b, sedge (add g u v) a b <-> sedge g a b \/ (a = u /\ Some b = v)).
Proof.
  intros W. unfold add. destruct v as [v|].
  - set (g2 := add_node (add_node g u) v).
    assert (W2 : WF g2) by (apply add_node_WF, add_node_WF; assumption).
    assert (Hu : is_node g2 u) by (apply add_node_is_node; left; apply add_node_is_node; auto).
    assert (Hv : is_node g2 v) by (apply add_node_is_node; auto).
    assert (Hv' : mget (gpred g2) v <> None).
    { intros H. apply (wf_dom g2 W2) in H. apply Hv. assumption. }
    assert (Hs : forall a b, sedge (mkG (upd (gsucc g2) u (sadd v)) (upd (gpred g2) v (sadd u))) a b
                   <-> sedge g a b \/ (a = u /\ Some b = Some v)).
    { intros a b. unfold sedge. simpl. rewrite mgetd_upd_sadd by exact Hu.
      fold (sedge g2 a b). unfold g2. rewrite !add_node_sedge. intuition congruence. }
    split; [split|split].
    + intros k. simpl. rewrite !mget_upd_none. apply (wf_dom g2 W2).
    + intros a b. rewrite Hs. unfold pedge. simpl. rewrite mgetd_upd_sadd by exact Hv'.
      fold (pedge g2 a b). rewrite <- (wf_mirror g2 W2). unfold g2. rewrite !add_node_sedge.
      intuition congruence.
    + intros k. unfold is_node. simpl. rewrite mget_upd_none.
      fold (is_node g2 k). unfold g2. rewrite !add_node_is_node. intuition congruence.
    + exact Hs.
  - split; [apply add_node_WF; assumption|]. split.
    + intros k. rewrite add_node_is_node. intuition congruence.
    + intros a b. rewrite add_node_sedge. intuition congruence.
Qed.
