(* Graph/Corr.v — correspondence cases for Graph/Model.v (used by the C20 check).
   A case is an operation sequence applied to an initially empty DirectedAcyclicGraph together with
   what the Python object answered after every operation.  The model is run twice, with two
   different set-iteration orders (identity and reversal); both runs must reproduce every
   observation (all observations are sets, compared up to permutation). *)
From Coq Require Import List Bool NArith Arith.
From SF Require Import Base.Corr.
From SF Require Export Graph.Model.
Import ListNotations.

Record obs := mkObs {
  o_nodes : list N;               (* get_nodes() *)
  o_succ : list (N * N);          (* (u, v) for v in successors(u) *)
  o_pred : list (N * N);          (* (v, u) for u in predecessors(v) *)
  o_ret : gout;                   (* returned list (any order) / None / ValueError *)
  o_sources : list N;             (* get_sources() *)
  o_sinks : list N;               (* get_sinks() *)
  o_indeg : list (N * N);         (* in_degree().items() *)
  o_outdeg : list (N * N);        (* out_degree().items() *)
  o_empty : bool;                 (* empty() *)
  o_full : bool                   (* false: o_pred and the five derived queries were not recorded for this step *)
}.

Inductive ccase := CSeq (steps : list (gop * obs)).

Definition same_set {A} (eqb : A -> A -> bool) (l1 l2 : list A) : bool :=
  Nat.eqb (length l1) (length l2)
  && forallb (fun x => existsb (eqb x) l2) l1
  && forallb (fun x => existsb (eqb x) l1) l2.

Definition nn_eqb := pair_eqb N.eqb N.eqb.
Definition flip_pairs (l : list (N * N)) : list (N * N) := map (fun p => (snd p, fst p)) l.
Definition deg_of (l : list (node * nat)) : list (N * N) := map (fun p => (fst p, N.of_nat (snd p))) l.

Definition gout_eqb (a b : gout) : bool :=
  match a, b with
  | Ret l1, Ret l2 => same_set N.eqb l1 l2
  | RetNone, RetNone => true
  | ValueErr, ValueErr => true
  | _, _ => false
  end.

Definition obs_ok (g : graph) (r : gout) (o : obs) : bool :=
  same_set N.eqb (get_nodes g) (o_nodes o)
  && same_set nn_eqb (edges_of (gsucc g)) (o_succ o)
  && gout_eqb r (o_ret o)
  && (negb (o_full o)
      || (same_set nn_eqb (edges_of (gpred g)) (o_pred o)
          && same_set N.eqb (get_sources g) (o_sources o)
          && same_set N.eqb (get_sinks g) (o_sinks o)
          && same_set nn_eqb (deg_of (in_degree g)) (o_indeg o)
          && same_set nn_eqb (deg_of (out_degree g)) (o_outdeg o)
          && Bool.eqb (is_empty g) (o_empty o))).

Fixpoint check_steps (order : list node -> list node) (g : graph) (steps : list (gop * obs)) : bool :=
  match steps with
  | [] => true
  | (op, o) :: rest =>
      let r := gstep order g op in
      obs_ok (fst r) (snd r) o && check_steps order (fst r) rest
  end.

Definition check_case (c : ccase) : bool :=
  match c with
  | CSeq steps =>
      check_steps (fun l => l) empty_graph steps
      && check_steps (@rev node) empty_graph steps
  end.
