(* Graph/Model.v — executable model of streamflow.recovery.utils.DirectedGraph / DirectedAcyclicGraph.
   Definitions only (no proofs), so the correspondence still runs when a proof breaks.

   ANCHORS:
     streamflow.recovery.utils.DirectedGraph._add_node
     streamflow.recovery.utils.DirectedGraph.add
     streamflow.recovery.utils.DirectedGraph.contains / empty / get_nodes / in_degree / out_degree
     streamflow.recovery.utils.DirectedGraph.predecessors / successors
     streamflow.recovery.utils.DirectedGraph.remove_nodes
     streamflow.recovery.utils.DirectedGraph.remove_node
     streamflow.recovery.utils.DirectedGraph.replace
     streamflow.recovery.utils.DirectedAcyclicGraph.get_sources / get_sinks
     streamflow.recovery.utils.DirectedAcyclicGraph.promote_to_source

   Conventions.
   * The two dicts [_successors], [_predecessors] are two SEPARATE association lists (insertion order,
     first binding wins, [mset] updates in place or appends, [mdel] deletes): the mirror property is a
     theorem, not something built into the representation.
   * A Python [set] value is a list; [sadd] adds when absent, [sdiscard] removes every occurrence.
     Every place where the Python code ITERATES a set goes through the parameter [order], which may
     permute the elements arbitrarily (theorems: for every [order] with [Permutation (order l) l]).
   * [stack] in [remove_nodes] is a Python list used with pop()/append() at the right end; here the
     head of the list is the top, so the initial stack is [rev nodes].
   * [remove_nodes]'s while loop is run with fuel [length nodes + (sum of predecessor-set sizes) + 1];
     Proofs.v shows that this fuel is always enough (the loop has ended with an empty stack).
   * [d[k]] on a missing key (KeyError) and [s.remove(x)] on a missing element (KeyError) are NOT
     modelled: [upd] leaves the map alone.  Proofs.v shows that on mirror-consistent graphs every key
     looked up by these operations exists; the correspondence would see a KeyError as a mismatch. *)
From Coq Require Import List Bool NArith.
Import ListNotations.

Definition node := N.
Definition amap := list (node * list node).

Fixpoint mget (m : amap) (k : node) : option (list node) :=
  match m with
  | [] => None
  | (k', v) :: m' => if N.eqb k k' then Some v else mget m' k
  end.

Fixpoint mset (m : amap) (k : node) (v : list node) : amap :=
  match m with
  | [] => [(k, v)]
  | (k', v') :: m' => if N.eqb k k' then (k', v) :: m' else (k', v') :: mset m' k v
  end.

Definition mdel (m : amap) (k : node) : amap :=
  filter (fun kv => negb (N.eqb k (fst kv))) m.

Definition mgetd (m : amap) (k : node) : list node :=
  match mget m k with Some l => l | None => [] end.

(* m[k] = f(m[k]) for an existing key *)
Definition upd (m : amap) (k : node) (f : list node -> list node) : amap :=
  match mget m k with Some l => mset m k (f l) | None => m end.

Definition mem (x : node) (l : list node) : bool := existsb (N.eqb x) l.
Definition sadd (x : node) (l : list node) : list node := if mem x l then l else l ++ [x].
Definition sdiscard (x : node) (l : list node) : list node :=
  filter (fun y => negb (N.eqb x y)) l.
Definition is_nil (l : list node) : bool := match l with [] => true | _ => false end.

Record graph := mkG { gsucc : amap; gpred : amap }.
Definition empty_graph : graph := mkG [] [].

Definition contains (g : graph) (u : node) : bool :=
  match mget (gsucc g) u with Some _ => true | None => false end.

(* _add_node *)
Definition add_node (g : graph) (u : node) : graph :=
  if contains g u then g else mkG (mset (gsucc g) u []) (mset (gpred g) u []).

(* add(u, v=None) *)
Definition add (g : graph) (u : node) (v : option node) : graph :=
  let g1 := add_node g u in
  match v with
  | None => g1
  | Some v =>
      let g2 := add_node g1 v in
      mkG (upd (gsucc g2) u (sadd v)) (upd (gpred g2) v (sadd u))
  end.

Section Ordered.
  Variable order : list node -> list node.      (* iteration order of a Python set *)

  (* for succ in self._successors[current]: self._predecessors[succ].discard(current) *)
  Definition rm_succ_loop (cur : node) (g : graph) : graph :=
    fold_left (fun g s => mkG (gsucc g) (upd (gpred g) s (sdiscard cur)))
              (order (mgetd (gsucc g) cur)) g.

  (* body of: for pred in self._predecessors[current]: ...   state = (_successors, stack) *)
  Definition rm_pred_step (prune : bool) (cur : node) (st : amap * list node) (p : node)
    : amap * list node :=
    let sm' := upd (fst st) p (sdiscard cur) in
    if prune && forallb (fun x => mem x (snd st)) (mgetd sm' p)
    then (sm', p :: snd st) else (sm', snd st).

  (* one iteration of the while loop for a [cur] that is present *)
  Definition rm_one (prune : bool) (cur : node) (g : graph) (stack : list node) : graph * list node :=
    let g1 := rm_succ_loop cur g in
    let st := fold_left (rm_pred_step prune cur) (order (mgetd (gpred g1) cur)) (gsucc g1, stack) in
    (mkG (mdel (fst st) cur) (mdel (gpred g1) cur), snd st).

  (* result: (graph, removed_nodes, what is left of the stack — [] unless fuel ran out) *)
  Fixpoint remove_loop (fuel : nat) (prune : bool) (g : graph) (stack removed : list node)
    : graph * list node * list node :=
    match fuel with
    | O => (g, removed, stack)
    | S f =>
        match stack with
        | [] => (g, removed, [])
        | cur :: stack' =>
            if contains g cur then
              let r := rm_one prune cur g stack' in
              remove_loop f prune (fst r) (snd r) (removed ++ [cur])
            else remove_loop f prune g stack' removed
        end
    end.

  Definition esize (m : amap) : nat := fold_right (fun kv n => length (snd kv) + n) 0 m.

  Definition remove_fuel (g : graph) (ns : list node) : nat := length ns + esize (gpred g) + 1.

  Definition remove_nodes (g : graph) (ns : list node) (prune : bool) : graph * list node :=
    let r := remove_loop (remove_fuel g ns) prune g (rev ns) [] in
    (fst (fst r), snd (fst r)).

  Inductive gout := Ret (removed : list node) | RetNone | ValueErr.

  (* replace(old, new) *)
  Definition replace (g : graph) (o n : node) : graph * gout :=
    if negb (contains g o) then (g, RetNone)
    else if contains g n then (g, ValueErr)
    else
      let g1 := add_node g n in
      let g2 := fold_left
                  (fun g s => mkG (upd (gsucc g) n (sadd s))
                                  (upd (upd (gpred g) s (sdiscard o)) s (sadd n)))
                  (order (mgetd (gsucc g1) o)) g1 in
      let g3 := fold_left
                  (fun g p => mkG (upd (upd (gsucc g) p (sdiscard o)) p (sadd n))
                                  (upd (gpred g) n (sadd p)))
                  (order (mgetd (gpred g2) o)) g2 in
      (mkG (mdel (gsucc g3) o) (mdel (gpred g3) o), RetNone).

  (* promote_to_source(node) *)
  Definition promote_step (x : node) (st : graph * list node) (p : node) : graph * list node :=
    let g := fst st in
    let g' := mkG (upd (gsucc g) p (sdiscard x)) (upd (gpred g) x (sdiscard p)) in
    if is_nil (mgetd (gsucc g') p) then (g', snd st ++ [p]) else (g', snd st).

  Definition promote (g : graph) (x : node) : graph * list node :=
    if negb (contains g x) then (g, [])
    else
      let st := fold_left (promote_step x) (order (mgetd (gpred g) x)) (g, []) in
      remove_nodes (fst st) (snd st) true.

  Inductive gop :=
  | Add (u : node) (v : option node)
  | RemoveNodes (ns : list node) (prune : bool)
  | Replace (o n : node)
  | Promote (x : node).

  Definition gstep (g : graph) (op : gop) : graph * gout :=
    match op with
    | Add u v => (add g u v, RetNone)
    | RemoveNodes ns prune => let r := remove_nodes g ns prune in (fst r, Ret (snd r))
    | Replace o n => replace g o n
    | Promote x => let r := promote g x in (fst r, Ret (snd r))
    end.

  Fixpoint grun (g : graph) (ops : list gop) : graph :=
    match ops with
    | [] => g
    | op :: ops' => grun (fst (gstep g op)) ops'
    end.
End Ordered.

(* query methods *)
Definition get_nodes (g : graph) : list node := map fst (gsucc g).
Definition successors (g : graph) (u : node) : list node := mgetd (gsucc g) u.
Definition predecessors (g : graph) (u : node) : list node := mgetd (gpred g) u.
Definition out_degree (g : graph) : list (node * nat) := map (fun kv => (fst kv, length (snd kv))) (gsucc g).
Definition in_degree (g : graph) : list (node * nat) := map (fun kv => (fst kv, length (snd kv))) (gpred g).
Definition get_sources (g : graph) : list node :=
  map fst (filter (fun kv => is_nil (snd kv)) (gpred g)).
Definition get_sinks (g : graph) : list node :=
  map fst (filter (fun kv => is_nil (snd kv)) (gsucc g)).
Definition is_empty (g : graph) : bool := match gsucc g with [] => true | _ => false end.
Definition edges_of (m : amap) : list (node * node) :=
  flat_map (fun kv => map (fun v => (fst kv, v)) (snd kv)) m.
