(* Graph/Proofs5.v — every operation refines the plain-graph specification; operation sequences. *)
From Coq Require Import List Bool NArith Arith Lia Permutation.
From SF Require Import Graph.Model Graph.Util Graph.Proofs Graph.Proofs2 Graph.Proofs3 Graph.Proofs4.
Import ListNotations.

(* The plain graph of the property text: a node set [Nd] and an edge relation [E].
   [spec Nd E op r Nd' E'] says what operation [op] must return ([r]) and which plain graph results. *)
Definition same_graph (Nd Nd' : node -> Prop) (E E' : node -> node -> Prop) : Prop :=
  (forall k, Nd' k <-> Nd k) /\ (forall a b, E' a b <-> E a b).

Definition removes (Nd : node -> Prop) (E : node -> node -> Prop) (seed : node -> Prop) (prune : bool)
  (r : gout) (Nd' : node -> Prop) (E' : node -> node -> Prop) : Prop :=
  exists R, r = Ret R /\ NoDup R /\
    (forall x, In x R <-> Clo Nd E seed prune x) /\
    (forall k, Nd' k <-> Nd k /\ ~ In k R) /\
    (forall a b, E' a b <-> E a b /\ ~ In a R /\ ~ In b R).

Definition spec (Nd : node -> Prop) (E : node -> node -> Prop) (op : gop) (r : gout)
  (Nd' : node -> Prop) (E' : node -> node -> Prop) : Prop :=
  match op with
  | Add u v =>
      r = RetNone /\ (forall k, Nd' k <-> Nd k \/ k = u \/ Some k = v) /\
      (forall a b, E' a b <-> E a b \/ (a = u /\ Some b = v))
  | RemoveNodes ns prune => removes Nd E (fun x => In x ns) prune r Nd' E'
  | Replace o n =>
      (~ Nd o /\ r = RetNone /\ same_graph Nd Nd' E E') \/
      (Nd o /\ Nd n /\ r = ValueErr /\ same_graph Nd Nd' E E') \/
      (Nd o /\ ~ Nd n /\ r = RetNone /\
       (forall k, Nd' k <-> (Nd k /\ k <> o) \/ k = n) /\
       (forall a b, E' a b <-> a <> o /\ b <> o /\ E (un o n a) (un o n b)))
  | Promote x =>
      (~ Nd x /\ r = Ret [] /\ same_graph Nd Nd' E E') \/
      (Nd x /\ let E1 := fun u v => E u v /\ v <> x in
               removes Nd E1 (fun p => E p x /\ forall s, ~ E1 p s) true r Nd' E')
  end.

Section Steps.
  Variable order : list node -> list node.
  Hypothesis Hperm : forall l, Permutation (order l) l.

  Lemma same_refl g : same_graph (is_node g) (is_node g) (sedge g) (sedge g).
  Proof. split; intros; tauto. Qed.

  Theorem gstep_refines g op : WF g ->
    let r := gstep order g op in
    WF (fst r) /\ spec (is_node g) (sedge g) op (snd r) (is_node (fst r)) (sedge (fst r)).
  Proof.
    intros W. destruct op as [u v|ns prune|o n|x]; simpl.
    - destruct (add_spec g u v W) as [A [B D]]. auto.
    - destruct (remove_nodes_spec order Hperm g ns prune W) as [A [B [D [E F]]]].
      split; [assumption|]. exists (snd (remove_nodes order g ns prune)). auto.
    - destruct (is_node_dec g o) as [Ho|Ho].
      + destruct (is_node_dec g n) as [Hn|Hn].
        * rewrite replace_exists by assumption. simpl. split; [assumption|].
          right. left. auto using same_refl.
        * destruct (replace_spec order Hperm g o n W Ho Hn) as [A [B [D E]]].
          split; [assumption|]. right. right. auto.
      + rewrite replace_absent by assumption. simpl. split; [assumption|]. left. auto using same_refl.
    - destruct (is_node_dec g x) as [Hx|Hx].
      + destruct (promote_spec order Hperm x g W Hx) as [A [B [D [E F]]]].
        split; [assumption|]. right. split; [assumption|].
        exists (snd (promote order g x)). auto.
      + rewrite promote_absent by assumption. simpl. split; [assumption|]. left. auto using same_refl.
  Qed.

  Lemma grun_WF ops : forall g, WF g -> WF (grun order g ops).
  Proof.
    induction ops as [|op ops IH]; intros g W; simpl; [assumption|].
    apply IH. apply gstep_refines. assumption.
  Qed.

  Theorem reachable_WF ops : WF (grun order empty_graph ops).
  Proof. apply grun_WF. apply WF_empty. Qed.
End Steps.

(* derived query methods on a well-formed graph *)
Lemma In_map_fst_filter (m : amap) (f : list node -> bool) k :
  In k (map fst (filter (fun kv => f (snd kv)) m)) -> exists l, In (k, l) m /\ f l = true.
Proof.
  rewrite in_map_iff. intros [[k' l] [A B]]. simpl in A. subst k'. apply filter_In in B.
  exists l. simpl in B. assumption.
Qed.
