(* Graph/Proofs3.v — promote_to_source. *)
From Coq Require Import List Bool NArith Arith Lia Permutation.
From SF Require Import Graph.Model Graph.Util Graph.Proofs Graph.Proofs2.
Import ListNotations.

(* for p in L: l.discard(p) *)
Lemma In_fold_discard L : forall (l : list node) y,
  In y (fold_left (fun l p => sdiscard p l) L l) <-> In y l /\ ~ In y L.
Proof.
  induction L as [|a L IH]; intros l y; simpl; [tauto|].
  rewrite IH, In_sdiscard. intuition congruence.
Qed.

Lemma fold_upd_fixed_key (F : node -> list node -> list node) x L : forall m k,
  mget (fold_left (fun m p => upd m x (F p)) L m) k
  = if N.eqb x k then option_map (fun l => fold_left (fun l p => F p l) L l) (mget m k) else mget m k.
Proof.
  induction L as [|a L IH]; intros m k; simpl.
  - destruct (N.eqb x k); destruct (mget m k); reflexivity.
  - rewrite IH. rewrite mget_upd. destruct (N.eqb x k); [|reflexivity].
    destruct (mget m k); reflexivity.
Qed.

Section Promote.
  Variable order : list node -> list node.
  Hypothesis Hperm : forall l, Permutation (order l) l.
  Variable x : node.

  Lemma promote_fold_succ L : forall st,
    gsucc (fst (fold_left (promote_step x) L st))
    = fold_left (fun m p => upd m p (sdiscard x)) L (gsucc (fst st)).
  Proof.
    induction L as [|a L IH]; intros st; simpl; [reflexivity|].
    rewrite IH. unfold promote_step. simpl. destruct (is_nil _); reflexivity.
  Qed.

  Lemma promote_fold_pred L : forall st,
    gpred (fst (fold_left (promote_step x) L st))
    = fold_left (fun m p => upd m x (sdiscard p)) L (gpred (fst st)).
  Proof.
    induction L as [|a L IH]; intros st; simpl; [reflexivity|].
    rewrite IH. unfold promote_step. simpl. destruct (is_nil _); reflexivity.
  Qed.

  Lemma promote_fold_td L : forall st p,
    In p (snd (fold_left (promote_step x) L st))
    <-> In p (snd st) \/ (In p L /\ sdiscard x (mgetd (gsucc (fst st)) p) = []).
  Proof.
    induction L as [|a L IH]; intros st p; simpl; [tauto|].
    rewrite IH. set (st' := promote_step x st a).
    assert (H1 : gsucc (fst st') = upd (gsucc (fst st)) a (sdiscard x)).
    { unfold st', promote_step. simpl. destruct (is_nil _); reflexivity. }
    assert (H2 : In p (snd st') <-> In p (snd st) \/ (p = a /\ sdiscard x (mgetd (gsucc (fst st)) a) = [])).
    { unfold st', promote_step. simpl.
      assert (E : mgetd (upd (gsucc (fst st)) a (sdiscard x)) a = sdiscard x (mgetd (gsucc (fst st)) a)).
      { rewrite mgetd_upd by reflexivity. rewrite N.eqb_refl. reflexivity. }
      rewrite E.
      destruct (is_nil (sdiscard x (mgetd (gsucc (fst st)) a))) eqn:T; simpl.
      - apply is_nil_true in T. rewrite in_app_iff. simpl. intuition (subst; auto).
      - assert (sdiscard x (mgetd (gsucc (fst st)) a) <> []) as T'.
        { intros H. rewrite H in T. discriminate. }
        intuition (subst; auto). }
    rewrite H1, sdiscard_mgetd_upd, H2. intuition (subst; auto).
  Qed.

  Variable g : graph.
  Hypothesis W : WF g.

  Definition pst := fold_left (promote_step x) (order (mgetd (gpred g) x)) (g, []).
  Definition g1 := fst pst.
  Definition td := snd pst.

  Lemma g1_succ k :
    mget (gsucc g1) k = if mem k (mgetd (gpred g) x) then option_map (sdiscard x) (mget (gsucc g) k)
                        else mget (gsucc g) k.
  Proof.
    unfold g1, pst. rewrite promote_fold_succ. simpl.
    rewrite fold_upd_spec by apply sdiscard_idem. rewrite (mem_order order Hperm). reflexivity.
  Qed.

  Lemma g1_pred k :
    mget (gpred g1) k
    = if N.eqb x k then option_map (fun l => fold_left (fun l p => sdiscard p l) (order (mgetd (gpred g) x)) l)
                                   (mget (gpred g) k)
      else mget (gpred g) k.
  Proof. unfold g1, pst. rewrite promote_fold_pred. simpl. apply fold_upd_fixed_key. Qed.

  Lemma g1_node k : is_node g1 k <-> is_node g k.
  Proof.
    unfold is_node. rewrite g1_succ. destruct (mem k _); destruct (mget (gsucc g) k); simpl;
      split; congruence.
  Qed.

  Lemma g1_sedge u v : sedge g1 u v <-> sedge g u v /\ v <> x.
  Proof.
    unfold sedge. unfold mgetd at 1. rewrite g1_succ.
    destruct (mem u (mgetd (gpred g) x)) eqn:E.
    - unfold mgetd. destruct (mget (gsucc g) u); simpl; [rewrite In_sdiscard|]; tauto.
    - apply mem_false in E. fold (mgetd (gsucc g) u). split; [|tauto].
      intros H. split; [assumption|]. intros ->. apply E. apply (wf_mirror g W). exact H.
  Qed.

  Lemma g1_pedge u v : pedge g1 u v <-> pedge g u v /\ v <> x.
  Proof.
    unfold pedge. unfold mgetd at 1. rewrite g1_pred.
    destruct (N.eqb_spec x v) as [->|Hne].
    - remember (order (mgetd (gpred g) v)) as Lo eqn:HL.
      unfold mgetd. destruct (mget (gpred g) v) eqn:E; simpl; [|tauto].
      rewrite In_fold_discard. subst Lo. rewrite (order_In order Hperm). unfold mgetd. rewrite E. tauto.
    - fold (mgetd (gpred g) v). intuition congruence.
  Qed.

  Lemma g1_WF : WF g1.
  Proof.
    split.
    - intros u. rewrite g1_succ, g1_pred. pose proof (wf_dom g W u) as D.
      destruct (mem u _); destruct (N.eqb x u); destruct (mget (gsucc g) u); destruct (mget (gpred g) u);
        simpl; split; intros; try congruence;
        try (destruct D as [D1 D2]; first [discriminate (D1 eq_refl)|discriminate (D2 eq_refl)]).
    - intros u v. rewrite g1_sedge, g1_pedge, (wf_mirror g W). tauto.
  Qed.

  Lemma td_spec p : In p td <-> sedge g p x /\ (forall s, ~ (sedge g p s /\ s <> x)).
  Proof.
    unfold td, pst. rewrite promote_fold_td. simpl. rewrite (order_In order Hperm).
    fold (pedge g p x). rewrite <- (wf_mirror g W).
    split.
    - intros [[]|[A B]]. split; [assumption|]. intros s [Hs Hx].
      assert (In s (sdiscard x (mgetd (gsucc g) p))) as H by (apply In_sdiscard; split; assumption).
      rewrite B in H. destruct H.
    - intros [A B]. right. split; [assumption|].
      destruct (sdiscard x (mgetd (gsucc g) p)) as [|s l] eqn:E; [reflexivity|].
      exfalso. apply (B s).
      assert (In s (sdiscard x (mgetd (gsucc g) p))) as H by (rewrite E; left; reflexivity).
      apply In_sdiscard in H. unfold sedge. tauto.
  Qed.

  Theorem promote_spec : is_node g x ->
    let r := promote order g x in
    let E1 := fun u v => sedge g u v /\ v <> x in
    WF (fst r) /\ NoDup (snd r) /\
    (forall y, In y (snd r) <->
       Clo (is_node g) E1 (fun p => sedge g p x /\ forall s, ~ E1 p s) true y) /\
    (forall u, is_node (fst r) u <-> is_node g u /\ ~ In u (snd r)) /\
    (forall u v, sedge (fst r) u v <-> E1 u v /\ ~ In u (snd r) /\ ~ In v (snd r)).
  Proof.
    intros Hx. unfold promote. apply contains_true in Hx. rewrite Hx. simpl.
    fold pst. fold g1. fold td.
    destruct (remove_nodes_spec order Hperm g1 td true g1_WF) as [A [B [D [E F]]]].
    split; [assumption|]. split; [assumption|]. split; [|split].
    - intros y. rewrite D. split; apply Clo_ext; intros; try (rewrite g1_node; tauto);
        try (rewrite g1_sedge; tauto); rewrite td_spec; tauto.
    - intros u. rewrite E, g1_node. tauto.
    - intros u v. rewrite F, g1_sedge. tauto.
  Qed.

  Lemma promote_absent : ~ is_node g x -> promote order g x = (g, []).
  Proof. intros H. unfold promote. apply contains_false in H. rewrite H. reflexivity. Qed.
End Promote.
