(* Graph/Proofs.v — extensional views of the graph model, well-formedness (mirror) and the
   specification of remove_nodes.  (replace / promote_to_source / sequences: Graph/Proofs2.v) *)
From Coq Require Import List Bool NArith Arith Lia Permutation.
From SF Require Import Graph.Model Graph.Util.
Import ListNotations.

(* ---- extensional views ---- *)
Definition is_node (g : graph) (u : node) : Prop := mget (gsucc g) u <> None.
Definition sedge (g : graph) (u v : node) : Prop := In v (mgetd (gsucc g) u).   (* v in _successors[u] *)
Definition pedge (g : graph) (u v : node) : Prop := In u (mgetd (gpred g) v).   (* u in _predecessors[v] *)

Record WF (g : graph) : Prop := {
  wf_dom : forall u, mget (gsucc g) u = None <-> mget (gpred g) u = None;
  wf_mirror : forall u v, sedge g u v <-> pedge g u v
}.

Lemma contains_true g u : contains g u = true <-> is_node g u.
Proof. unfold contains, is_node. destruct (mget (gsucc g) u); split; congruence. Qed.

Lemma contains_false g u : contains g u = false <-> ~ is_node g u.
Proof. rewrite <- contains_true. destruct (contains g u); split; congruence. Qed.

Lemma is_node_dec g u : {is_node g u} + {~ is_node g u}.
Proof. unfold is_node. destruct (mget (gsucc g) u); [left; congruence|right; congruence]. Qed.

Lemma mgetd_none m k : mget m k = None -> mgetd m k = [].
Proof. unfold mgetd. intros ->. reflexivity. Qed.

Lemma sedge_node_l g u v : sedge g u v -> is_node g u.
Proof. unfold sedge, is_node, mgetd. destruct (mget (gsucc g) u); [congruence|intros []]. Qed.

Lemma sedge_node_r g u v : WF g -> sedge g u v -> is_node g v.
Proof.
  intros W H. apply (wf_mirror g W) in H. unfold pedge, is_node, mgetd in *.
  destruct (mget (gpred g) v) eqn:E; [|destruct H].
  intros Hn. apply (wf_dom g W) in Hn. congruence.
Qed.

Lemma WF_empty : WF empty_graph.
Proof. split; simpl; intros; unfold sedge, pedge; simpl; tauto. Qed.

Lemma mgetd_upd m k f k' (Hf : f [] = []) :
  mgetd (upd m k f) k' = if N.eqb k k' then f (mgetd m k') else mgetd m k'.
Proof.
  unfold mgetd. rewrite mget_upd. destruct (N.eqb k k'); destruct (mget m k'); simpl; auto.
Qed.

Lemma sdiscard_nil x : sdiscard x [] = [].
Proof. reflexivity. Qed.

Lemma sdiscard_mgetd_upd cur sm a p :
  sdiscard cur (mgetd (upd sm a (sdiscard cur)) p) = sdiscard cur (mgetd sm p).
Proof.
  rewrite mgetd_upd by reflexivity. destruct (N.eqb a p); [apply sdiscard_idem|reflexivity].
Qed.

Lemma NoDup_app_snoc (l : list node) x : NoDup l -> ~ In x l -> NoDup (l ++ [x]).
Proof.
  induction l as [|a l IH]; simpl; intros H Hn.
  - constructor; [intros []|constructor].
  - inversion H; subst. constructor.
    + rewrite in_app_iff. simpl. intros [A|[A|[]]]; [contradiction|]. apply Hn. left. congruence.
    + apply IH; [assumption|]. intros A. apply Hn. right. assumption.
Qed.

(* ---- the two inner loops of remove_nodes ---- *)
Lemma fold_gpred_upd f L : forall g,
  fold_left (fun g s => mkG (gsucc g) (upd (gpred g) s f)) L g
  = mkG (gsucc g) (fold_left (fun m s => upd m s f) L (gpred g)).
Proof.
  induction L as [|a L IH]; intros g; simpl; [destruct g; reflexivity|].
  rewrite IH. reflexivity.
Qed.

Section PredLoop.
  Variables (prune : bool) (cur : node).

  Lemma fold_pred_fst L : forall sm st,
    fst (fold_left (rm_pred_step prune cur) L (sm, st))
    = fold_left (fun m p => upd m p (sdiscard cur)) L sm.
  Proof.
    induction L as [|a L IH]; intros sm st; simpl; [reflexivity|].
    unfold rm_pred_step at 2. simpl.
    destruct (prune && forallb _ _); apply IH.
  Qed.

  Lemma fold_pred_incl L : forall sm st x,
    In x st -> In x (snd (fold_left (rm_pred_step prune cur) L (sm, st))).
  Proof.
    induction L as [|a L IH]; intros sm st x H; simpl; [assumption|].
    unfold rm_pred_step at 2. simpl.
    destruct (prune && forallb _ _); apply IH; simpl; auto.
  Qed.

  Lemma fold_pred_length L : forall sm st,
    length (snd (fold_left (rm_pred_step prune cur) L (sm, st))) <= length L + length st.
  Proof.
    induction L as [|a L IH]; intros sm st; simpl; [lia|].
    unfold rm_pred_step at 2. simpl.
    destruct (prune && forallb _ _); etransitivity; [apply IH| simpl; lia | apply IH | lia].
  Qed.

  Lemma fold_pred_Q (Q : node -> Prop) L : forall sm st,
    (forall x, In x st -> Q x) ->
    (prune = true -> forall p, In p L -> (forall s, In s (sdiscard cur (mgetd sm p)) -> Q s) -> Q p) ->
    forall x, In x (snd (fold_left (rm_pred_step prune cur) L (sm, st))) -> Q x.
  Proof.
    induction L as [|a L IH]; intros sm st Hst Hp x; simpl; [apply Hst|].
    unfold rm_pred_step at 2. simpl.
    assert (Hconv : prune = true -> forall p, In p L ->
              (forall s, In s (sdiscard cur (mgetd (upd sm a (sdiscard cur)) p)) -> Q s) -> Q p).
    { intros Epr p Hin Hs. apply Hp; [assumption|right; assumption|].
      intros s Hs'. apply Hs. rewrite sdiscard_mgetd_upd. assumption. }
    destruct (prune && forallb _ _) eqn:T; apply IH; try assumption.
    intros y [<-|Hy]; [|auto].
    apply andb_prop in T. destruct T as [Tp T]. rewrite forallb_forall in T.
    apply Hp; [assumption|left; reflexivity|]. intros s Hs. apply Hst. apply mem_In. apply T.
    rewrite mgetd_upd by reflexivity. rewrite N.eqb_refl.
    rewrite <- sdiscard_idem. apply In_sdiscard. split; [|assumption].
    apply In_sdiscard in Hs. tauto.
  Qed.

  Lemma fold_pred_push L : forall sm st p,
    prune = true -> In p L -> sdiscard cur (mgetd sm p) = [] ->
    In p (snd (fold_left (rm_pred_step prune cur) L (sm, st))).
  Proof.
    induction L as [|a L IH]; intros sm st p Hpr Hin Hnil; simpl; [destruct Hin|].
    unfold rm_pred_step at 2. simpl.
    destruct Hin as [->|Hin].
    - assert (E : mgetd (upd sm p (sdiscard cur)) p = []).
      { rewrite mgetd_upd by reflexivity. rewrite N.eqb_refl. assumption. }
      assert (T : prune && forallb (fun x => mem x st) (mgetd (upd sm p (sdiscard cur)) p) = true)
        by (rewrite E, Hpr; reflexivity).
      rewrite T. apply fold_pred_incl. left. reflexivity.
    - destruct (prune && forallb _ _); apply IH; try assumption;
        rewrite sdiscard_mgetd_upd; assumption.
  Qed.
End PredLoop.

(* ---- one iteration of the while loop ---- *)
Section Remove.
  Variable order : list node -> list node.
  Hypothesis Hperm : forall l, Permutation (order l) l.

  Lemma order_In l x : In x (order l) <-> In x l.
  Proof. split; apply Permutation_in; [apply Hperm|apply Permutation_sym, Hperm]. Qed.

  Lemma order_length l : length (order l) = length l.
  Proof. apply Permutation_length, Hperm. Qed.

  Lemma mem_order x l : mem x (order l) = mem x l.
  Proof.
    destruct (mem x l) eqn:E.
    - apply mem_In. apply order_In. apply mem_In. assumption.
    - apply mem_false. rewrite order_In. apply mem_false. assumption.
  Qed.

  Lemma rm_succ_loop_succ cur g : gsucc (rm_succ_loop order cur g) = gsucc g.
  Proof. unfold rm_succ_loop. rewrite fold_gpred_upd. reflexivity. Qed.

  Lemma rm_succ_loop_pred cur g k :
    mget (gpred (rm_succ_loop order cur g)) k
    = if mem k (mgetd (gsucc g) cur) then option_map (sdiscard cur) (mget (gpred g) k)
      else mget (gpred g) k.
  Proof.
    unfold rm_succ_loop. rewrite fold_gpred_upd. simpl.
    rewrite fold_upd_spec by apply sdiscard_idem. rewrite mem_order. reflexivity.
  Qed.

  Definition L2 cur g := order (mgetd (gpred (rm_succ_loop order cur g)) cur).

  Lemma In_L2 cur g k : WF g -> In k (L2 cur g) <-> pedge g k cur /\ k <> cur.
  Proof.
    intros W. unfold L2. rewrite order_In. unfold mgetd at 1. rewrite rm_succ_loop_pred.
    unfold pedge. unfold mgetd at 2.
    destruct (mem cur (mgetd (gsucc g) cur)) eqn:E.
    - destruct (mget (gpred g) cur); simpl; [rewrite In_sdiscard; tauto|tauto].
    - apply mem_false in E.
      assert (~ In cur (mgetd (gpred g) cur)) as Hn.
      { intros H. apply E. apply (wf_mirror g W). exact H. }
      unfold mgetd in Hn.
      destruct (mget (gpred g) cur); simpl; [|tauto].
      split; [intros H; split; [assumption|intros ->; tauto]|tauto].
  Qed.

  Lemma rm_one_succ prune cur g st k :
    mget (gsucc (fst (rm_one order prune cur g st))) k
    = if N.eqb cur k then None
      else if mem k (L2 cur g) then option_map (sdiscard cur) (mget (gsucc g) k)
      else mget (gsucc g) k.
  Proof.
    unfold rm_one. simpl. rewrite mget_mdel. destruct (N.eqb cur k); [reflexivity|].
    rewrite fold_pred_fst. rewrite fold_upd_spec by apply sdiscard_idem.
    rewrite rm_succ_loop_succ. reflexivity.
  Qed.

  Lemma rm_one_pred prune cur g st k :
    mget (gpred (fst (rm_one order prune cur g st))) k
    = if N.eqb cur k then None
      else if mem k (mgetd (gsucc g) cur) then option_map (sdiscard cur) (mget (gpred g) k)
      else mget (gpred g) k.
  Proof.
    unfold rm_one. simpl. rewrite mget_mdel. destruct (N.eqb cur k); [reflexivity|].
    apply rm_succ_loop_pred.
  Qed.

  Lemma rm_one_node prune cur g st k :
    is_node (fst (rm_one order prune cur g st)) k <-> is_node g k /\ k <> cur.
  Proof.
    unfold is_node. rewrite rm_one_succ.
    destruct (N.eqb_spec cur k) as [->|Hne].
    - tauto.
    - destruct (mem k (L2 cur g)); destruct (mget (gsucc g) k); simpl;
        split; try tauto; try (intros _; split; congruence); intros [A B]; congruence.
  Qed.

  Lemma rm_one_sedge prune cur g st u v : WF g ->
    sedge (fst (rm_one order prune cur g st)) u v <-> sedge g u v /\ u <> cur /\ v <> cur.
  Proof.
    intros W. unfold sedge. unfold mgetd at 1. rewrite rm_one_succ.
    destruct (N.eqb_spec cur u) as [->|Hne]; [simpl; tauto|].
    destruct (mem u (L2 cur g)) eqn:E.
    - unfold mgetd. destruct (mget (gsucc g) u); simpl; [rewrite In_sdiscard|]; intuition congruence.
    - apply mem_false in E. rewrite In_L2 in E by assumption.
      fold (mgetd (gsucc g) u).
      split; [|tauto]. intros H. split; [assumption|]. split; [congruence|].
      intros ->. apply E. split; [|congruence]. apply (wf_mirror g W). exact H.
  Qed.

  Lemma rm_one_pedge prune cur g st u v : WF g ->
    pedge (fst (rm_one order prune cur g st)) u v <-> pedge g u v /\ u <> cur /\ v <> cur.
  Proof.
    intros W. unfold pedge. unfold mgetd at 1. rewrite rm_one_pred.
    destruct (N.eqb_spec cur v) as [->|Hne]; [simpl; tauto|].
    destruct (mem v (mgetd (gsucc g) cur)) eqn:E.
    - unfold mgetd. destruct (mget (gpred g) v); simpl; [rewrite In_sdiscard|]; intuition congruence.
    - apply mem_false in E. fold (mgetd (gpred g) v).
      split; [|tauto]. intros H. split; [assumption|]. split; [|congruence].
      intros ->. apply E. apply (wf_mirror g W). exact H.
  Qed.

  Lemma rm_one_WF prune cur g st : WF g -> WF (fst (rm_one order prune cur g st)).
  Proof.
    intros W. split.
    - intros u. rewrite rm_one_succ, rm_one_pred.
      destruct (N.eqb cur u); [tauto|].
      pose proof (wf_dom g W u) as D.
      destruct (mem u (L2 cur g)); destruct (mem u (mgetd (gsucc g) cur));
        destruct (mget (gsucc g) u); destruct (mget (gpred g) u); simpl;
        split; intros; try congruence; try (destruct D as [D1 D2]; first [discriminate (D1 eq_refl)|discriminate (D2 eq_refl)]).
    - intros u v. rewrite rm_one_sedge, rm_one_pedge by assumption.
      rewrite (wf_mirror g W). tauto.
  Qed.

  (* the stack after one iteration *)
  Lemma rm_one_stack_incl prune cur g st x : In x st -> In x (snd (rm_one order prune cur g st)).
  Proof. unfold rm_one. simpl. apply fold_pred_incl. Qed.

  Lemma rm_one_stack_length prune cur g st :
    length (snd (rm_one order prune cur g st)) + esize (gpred (fst (rm_one order prune cur g st)))
    <= length st + esize (gpred g).
  Proof.
    unfold rm_one. simpl.
    set (g1 := rm_succ_loop order cur g).
    pose proof (fold_pred_length prune cur (order (mgetd (gpred g1) cur)) (gsucc g1) st) as H1.
    rewrite order_length in H1.
    pose proof (esize_mdel (gpred g1) cur) as H2.
    assert (H3 : esize (gpred g1) <= esize (gpred g)).
    { unfold g1, rm_succ_loop. rewrite fold_gpred_upd. simpl.
      generalize (gpred g). induction (order (mgetd (gsucc g) cur)) as [|a L IH]; intros m; simpl; [lia|].
      etransitivity; [apply IH|apply esize_upd_discard]. }
    lia.
  Qed.

  Lemma rm_one_stack_Q prune cur g st (Q : node -> Prop) : WF g ->
    (forall x, In x st -> Q x) ->
    (prune = true -> forall p, pedge g p cur -> p <> cur ->
       (forall s, sedge g p s -> s <> cur -> Q s) -> Q p) ->
    forall x, In x (snd (rm_one order prune cur g st)) -> Q x.
  Proof.
    intros W Hst Hp. unfold rm_one. simpl. apply fold_pred_Q; [assumption|].
    intros Epr p Hin Hs. specialize (Hp Epr). fold (L2 cur g) in Hin. apply In_L2 in Hin; [|assumption].
    destruct Hin as [A B]. apply Hp; try assumption.
    intros s Hs1 Hs2. apply Hs. rewrite rm_succ_loop_succ. apply In_sdiscard. split; assumption.
  Qed.

  Lemma rm_one_stack_push cur g st p : WF g ->
    pedge g p cur -> p <> cur -> (forall s, sedge g p s -> s = cur) ->
    In p (snd (rm_one order true cur g st)).
  Proof.
    intros W A B Hs. unfold rm_one. simpl. apply fold_pred_push; [reflexivity| |].
    - fold (L2 cur g). apply In_L2; [assumption|]. split; assumption.
    - rewrite rm_succ_loop_succ.
      destruct (sdiscard cur (mgetd (gsucc g) p)) as [|s l] eqn:E; [reflexivity|].
      assert (In s (sdiscard cur (mgetd (gsucc g) p))) as H by (rewrite E; left; reflexivity).
      apply In_sdiscard in H. destruct H as [H1 H2]. apply Hs in H2. congruence.
  Qed.

  (* ---- the closure removed by remove_nodes ---- *)
  Section Closure.
    Variables (Nd : node -> Prop) (E : node -> node -> Prop) (seed : node -> Prop) (prune : bool).
    Inductive Clo : node -> Prop :=
    | Clo_base x : seed x -> Nd x -> Clo x
    | Clo_step p : prune = true -> Nd p -> (exists s, E p s) -> (forall s, E p s -> Clo s) -> Clo p.
  End Closure.

  Section Loop.
    Variables (g0 : graph) (ns : list node) (prune : bool).
    Hypothesis W0 : WF g0.

    Definition C := Clo (is_node g0) (sedge g0) (fun x => In x ns) prune.

    Record Inv (g : graph) (stack removed : list node) : Prop := {
      i_wf : WF g;
      i_nodes : forall u, is_node g u <-> is_node g0 u /\ ~ In u removed;
      i_edges : forall u v, sedge g u v <-> sedge g0 u v /\ is_node g u /\ is_node g v;
      i_req : forall x, In x ns -> is_node g0 x -> In x stack \/ In x removed;
      i_rem : forall x, In x removed -> C x;
      i_stack : forall x, In x stack -> is_node g0 x -> C x;
      i_dead : prune = true -> forall p, is_node g p -> (exists s, sedge g0 p s /\ In s removed) ->
               (forall s, ~ sedge g p s) -> In p stack;
      i_nodup : NoDup removed
    }.

    Lemma C_node x : C x -> is_node g0 x.
    Proof. intros H. destruct H; assumption. Qed.

    Lemma Inv_init : Inv g0 (rev ns) [].
    Proof.
      split; try assumption; simpl.
      - intros u. tauto.
      - intros u v. split; [|tauto]. intros H. split; [assumption|].
        split; [eapply sedge_node_l; eassumption|eapply sedge_node_r; eassumption].
      - intros x H _. left. apply in_rev in H. assumption.
      - intros x [].
      - intros x H Hn. apply Clo_base; [apply in_rev; assumption|assumption].
      - intros _ p _ [s [_ []]].
      - constructor.
    Qed.

    Lemma Inv_skip g cur stack removed :
      Inv g (cur :: stack) removed -> ~ is_node g cur -> Inv g stack removed.
    Proof.
      intros I Hn. destruct I. split; try assumption.
      - intros x Hx Hx0. destruct (i_req0 x Hx Hx0) as [[<-|H]|H]; auto.
        right. destruct (in_dec N.eq_dec cur removed) as [Hi|Hi]; [assumption|].
        exfalso. apply Hn. apply i_nodes0. split; assumption.
      - intros x Hx. apply i_stack0. right. assumption.
      - intros Hp p Hnode Hs Hno. destruct (i_dead0 Hp p Hnode Hs Hno) as [<-|H]; [contradiction|assumption].
    Qed.

    Lemma Inv_step g cur stack removed :
      Inv g (cur :: stack) removed -> is_node g cur ->
      Inv (fst (rm_one order prune cur g stack)) (snd (rm_one order prune cur g stack)) (removed ++ [cur]).
    Proof.
      intros I Hc. destruct I.
      assert (Hc0 : is_node g0 cur) by (apply i_nodes0; assumption).
      assert (Hcr : ~ In cur removed) by (apply i_nodes0; assumption).
      assert (Ccur : C cur) by (apply i_stack0; [left; reflexivity|assumption]).
      assert (Hnode' : forall u, is_node (fst (rm_one order prune cur g stack)) u
                         <-> is_node g0 u /\ ~ In u (removed ++ [cur])).
      { intros u. rewrite rm_one_node, i_nodes0, in_app_iff. simpl. intuition congruence. }
      split.
      - apply rm_one_WF. assumption.
      - exact Hnode'.
      - intros u v. rewrite rm_one_sedge by assumption. rewrite i_edges0.
        rewrite !rm_one_node. tauto.
      - intros x Hx Hx0. rewrite in_app_iff. simpl.
        destruct (i_req0 x Hx Hx0) as [[<-|H]|H]; auto.
        left. apply rm_one_stack_incl. assumption.
      - intros x Hx. apply in_app_iff in Hx. destruct Hx as [Hx|[<-|[]]]; auto.
      - intros x Hx Hx0. revert Hx0.
        apply (rm_one_stack_Q prune cur g stack (fun x => is_node g0 x -> C x)); try assumption.
        + intros y Hy. apply i_stack0. right. assumption.
        + intros Epr p Hp Hpc Hsucc Hp0.
          assert (Hps : sedge g p cur) by (apply (wf_mirror g i_wf0); assumption).
          apply Clo_step; [assumption|assumption| |].
          * exists cur. apply i_edges0 in Hps. tauto.
          * intros s Hs.
            destruct (N.eq_dec s cur) as [->|Hsc]; [assumption|].
            destruct (in_dec N.eq_dec s removed) as [Hr|Hr]; [apply i_rem0; assumption|].
            assert (Hs0 : is_node g0 s) by (eapply sedge_node_r; eassumption).
            apply Hsucc; try assumption.
            apply i_edges0. split; [assumption|]. split.
            -- apply i_edges0 in Hps. tauto.
            -- apply i_nodes0. split; assumption.
      - intros Hp p Hnode [s [Hs Hsr]] Hno.
        apply rm_one_node in Hnode. destruct Hnode as [Hnode Hpc].
        rewrite Hp.
        destruct (in_dec N.eq_dec cur (mgetd (gsucc g) p)) as [Hpc'|Hpc']; fold (sedge g p cur) in Hpc'.
        + apply rm_one_stack_push; try assumption.
          * apply (wf_mirror g i_wf0). assumption.
          * intros s' Hs'. destruct (N.eq_dec s' cur) as [->|Hne]; [reflexivity|].
            exfalso. apply (Hno s'). apply rm_one_sedge; [assumption|]. tauto.
        + apply rm_one_stack_incl.
          apply in_app_iff in Hsr. destruct Hsr as [Hsr|[<-|[]]].
          * assert (In p (cur :: stack)) as Hin.
            { apply i_dead0; [assumption|assumption|exists s; tauto|].
              intros s' Hs'. apply (Hno s'). apply rm_one_sedge; [assumption|].
              split; [assumption|]. split; [assumption|]. intros ->. contradiction. }
            destruct Hin as [<-|Hin]; [congruence|assumption].
          * exfalso. apply Hpc'. apply i_edges0. split; [assumption|]. split; assumption.
      - apply NoDup_app_snoc; assumption.
    Qed.
  End Loop.
End Remove.
