(* Graph/Util.v — lemmas about the association-list maps and list-sets of Graph/Model.v. *)
From Coq Require Import List Bool NArith Arith Lia.
From SF Require Import Graph.Model.
Import ListNotations.

Lemma mem_In x l : mem x l = true <-> In x l.
Proof.
  unfold mem. rewrite existsb_exists. split.
  - intros [y [Hy He]]. apply N.eqb_eq in He. subst. assumption.
  - intros H. exists x. split; [assumption|apply N.eqb_refl].
Qed.

Lemma mem_false x l : mem x l = false <-> ~ In x l.
Proof. rewrite <- mem_In. destruct (mem x l); split; congruence. Qed.

Lemma In_sadd y x l : In y (sadd x l) <-> y = x \/ In y l.
Proof.
  unfold sadd. destruct (mem x l) eqn:E.
  - apply mem_In in E. split; [auto|]. intros [->|H]; assumption.
  - rewrite in_app_iff. simpl. split; [intros [H|[H|[]]]; auto|intros [H|H]; auto].
Qed.

Lemma In_sdiscard y x l : In y (sdiscard x l) <-> y <> x /\ In y l.
Proof.
  unfold sdiscard. rewrite filter_In. rewrite negb_true_iff, N.eqb_neq. split; intros [A B]; split; auto.
Qed.

Lemma sdiscard_idem x l : sdiscard x (sdiscard x l) = sdiscard x l.
Proof.
  unfold sdiscard. induction l as [|a l IH]; simpl; [reflexivity|].
  destruct (negb (x =? a)%N) eqn:E; simpl; [rewrite E|]; rewrite ?IH; reflexivity.
Qed.

Lemma sdiscard_length x l : length (sdiscard x l) <= length l.
Proof. unfold sdiscard. induction l as [|a l IH]; simpl; [lia|]. destruct (negb _); simpl; lia. Qed.

Lemma is_nil_true l : is_nil l = true <-> l = [].
Proof. destruct l; simpl; split; congruence. Qed.

(* ---- maps ---- *)
Lemma mget_mset_same m k v : mget (mset m k v) k = Some v.
Proof.
  induction m as [|[k' v'] m IH]; simpl.
  - rewrite N.eqb_refl. reflexivity.
  - destruct (N.eqb k k') eqn:E; simpl; rewrite E; [reflexivity|assumption].
Qed.

Lemma mget_mset_other m k v k' : k <> k' -> mget (mset m k v) k' = mget m k'.
Proof.
  intros Hne. induction m as [|[k2 v2] m IH]; simpl.
  - destruct (N.eqb k' k) eqn:E; [apply N.eqb_eq in E; congruence|reflexivity].
  - destruct (N.eqb k k2) eqn:E; simpl.
    + apply N.eqb_eq in E. subst k2.
      destruct (N.eqb k' k) eqn:E2; [apply N.eqb_eq in E2; congruence|reflexivity].
    + destruct (N.eqb k' k2); [reflexivity|assumption].
Qed.

Lemma mget_mdel_same m k : mget (mdel m k) k = None.
Proof.
  unfold mdel. induction m as [|[k2 v2] m IH]; simpl; [reflexivity|].
  destruct (N.eqb k k2) eqn:E; simpl; [assumption|]. rewrite E. assumption.
Qed.

Lemma mget_mdel_other m k k' : k <> k' -> mget (mdel m k) k' = mget m k'.
Proof.
  intros Hne. unfold mdel. induction m as [|[k2 v2] m IH]; simpl; [reflexivity|].
  destruct (N.eqb k k2) eqn:E; simpl.
  - apply N.eqb_eq in E. subst k2.
    destruct (N.eqb k' k) eqn:E2; [apply N.eqb_eq in E2; congruence|assumption].
  - destruct (N.eqb k' k2); [reflexivity|assumption].
Qed.

Lemma mget_upd_same m k f : mget (upd m k f) k = option_map f (mget m k).
Proof.
  unfold upd. destruct (mget m k) eqn:E; simpl; [apply mget_mset_same|assumption].
Qed.

Lemma mget_upd_other m k f k' : k <> k' -> mget (upd m k f) k' = mget m k'.
Proof.
  intros. unfold upd. destruct (mget m k); [apply mget_mset_other; assumption|reflexivity].
Qed.

Lemma mget_upd m k f k' :
  mget (upd m k f) k' = if N.eqb k k' then option_map f (mget m k') else mget m k'.
Proof.
  destruct (N.eqb k k') eqn:E.
  - apply N.eqb_eq in E. subst. apply mget_upd_same.
  - apply N.eqb_neq in E. apply mget_upd_other. assumption.
Qed.

Lemma mget_mdel m k k' : mget (mdel m k) k' = if N.eqb k k' then None else mget m k'.
Proof.
  destruct (N.eqb k k') eqn:E.
  - apply N.eqb_eq in E. subst. apply mget_mdel_same.
  - apply N.eqb_neq in E. apply mget_mdel_other. assumption.
Qed.

Lemma mget_mset m k v k' : mget (mset m k v) k' = if N.eqb k k' then Some v else mget m k'.
Proof.
  destruct (N.eqb k k') eqn:E.
  - apply N.eqb_eq in E. subst. apply mget_mset_same.
  - apply N.eqb_neq in E. apply mget_mset_other. assumption.
Qed.

(* folding one idempotent update over a list of keys *)
Lemma fold_upd_spec f (Hf : forall l, f (f l) = f l) L : forall m k,
  mget (fold_left (fun m s => upd m s f) L m) k
  = if mem k L then option_map f (mget m k) else mget m k.
Proof.
  induction L as [|a L IH]; intros m k; simpl; [reflexivity|].
  rewrite IH. rewrite mget_upd. rewrite (N.eqb_sym k a).
  destruct (N.eqb a k) eqn:E; simpl.
  - destruct (mem k L); destruct (mget m k); simpl; rewrite ?Hf; reflexivity.
  - reflexivity.
Qed.

(* ---- sizes (for the fuel of remove_nodes) ---- *)
Lemma esize_mset m k v l :
  mget m k = Some l -> length v <= length l -> esize (mset m k v) <= esize m.
Proof.
  unfold esize. induction m as [|[k2 v2] m IH]; simpl; [discriminate|].
  destruct (N.eqb k k2) eqn:E; simpl; intros H Hl.
  - injection H as ->. lia.
  - specialize (IH H Hl). lia.
Qed.

Lemma esize_upd_discard m k x : esize (upd m k (sdiscard x)) <= esize m.
Proof.
  unfold upd. destruct (mget m k) eqn:E; [|lia].
  eapply esize_mset; [eassumption|apply sdiscard_length].
Qed.

Lemma esize_mdel_le m k : esize (mdel m k) <= esize m.
Proof.
  unfold mdel, esize. induction m as [|[k2 v2] m IH]; simpl; [lia|].
  destruct (negb (N.eqb k k2)); simpl; lia.
Qed.

Lemma esize_mdel m k : esize (mdel m k) + length (mgetd m k) <= esize m.
Proof.
  pose proof (esize_mdel_le m k) as Hle0. revert Hle0.
  unfold mgetd, mdel, esize. induction m as [|[k2 v2] m IH]; simpl; [lia|].
  destruct (N.eqb k k2) eqn:E; simpl; intros Hle.
  - pose proof (esize_mdel_le m k) as H. unfold mdel, esize in H. lia.
  - pose proof (esize_mdel_le m k) as H. unfold mdel, esize in H. specialize (IH H).
    destruct (mget m k); simpl in *; lia.
Qed.
