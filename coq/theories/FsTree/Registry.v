(* FsTree/Registry.v — the registry half of a transfer, over C21's model of the data-location registry (DataReg, imported,
   not edited).

   ANCHORS:
     streamflow.data.manager.DefaultDataManager.transfer_data   -> reg_transfer
       (per destination location: register_path(dst_location, parent of loc_dst_path); DataLocation(loc_dst_path, PRIMARY);
        path_mapper.put(loc_dst_path, it); if not writable: register_relation(src_data_location, it) and, after the copy,
        data_type = SYMBOLIC_LINK if is_symlink else PRIMARY)
   The destination location wraps no other location here (the loop over get_inner_path at the end of transfer_data does
   nothing); wrapped destinations are exercised by the correspondence only. *)
From Coq Require Import Bool Arith Lia.
From SF Require Import Base.Str Base.Corr DataReg.Model DataReg.Rereg.
Import ListNotations.
Local Open Scope string_scope. Local Open Scope list_scope.

Fixpoint set_ty (r : nat) (t : dtype) (h : list dloc) : list dloc :=
  match h, r with
  | [], _ => []
  | d :: h', 0 => mkdloc (dl_loc d) (dl_path d) t :: h'
  | d :: h', S r' => d :: set_ty r' t h'
  end.
Definition set_type (r : ref) (t : dtype) (s : st) : st := mkst (set_ty r t (heap s)) (nodes s).

Definition reg_transfer (tab : list locinfo) (s : st) (li : nat) (place : path) (rsrc : ref) (w : bool) (ty : dtype)
  : st * ref :=
  let s1 := fst (register tab s li (removelast place) PRIMARY) in
  let r := length (heap s1) in
  let s2 := mkst (heap s1 ++ [mkdloc (key_of tab li) place PRIMARY]) (nodes s1) in
  let s3 := put_nonrec s2 place r in
  if w then (s3, r) else (set_type r ty (relate s3 rsrc r), r).

(* ---------------------------------------------------------------- set_type *)
Lemma nth_set_ty r t h r' :
  nth_error (set_ty r t h) r' =
  match nth_error h r' with
  | Some d => Some (if Nat.eqb r' r then mkdloc (dl_loc d) (dl_path d) t else d)
  | None => None
  end.
Proof.
  revert r r'. induction h as [|d h IH]; intros r r'.
  - destruct r, r'; reflexivity.
  - destruct r as [|r]; destruct r' as [|r']; simpl; try reflexivity.
    + destruct (nth_error h r'); reflexivity.
    + apply IH.
Qed.

Lemma same_copy_valid_set_type s r t lp x :
  t <> INVALID -> same_copy_valid s lp x = true -> same_copy_valid (set_type r t s) lp x = true.
Proof.
  intros Ht. unfold same_copy_valid, hget, set_type. simpl. rewrite nth_set_ty.
  destruct (nth_error (heap s) x) as [d|]; [|discriminate].
  destruct (Nat.eqb x r); [|auto]. simpl. intros H. apply andb_true_iff in H. destruct H as [H _]. rewrite H.
  destruct t; simpl; congruence.
Qed.

Lemma has_valid_set_type s r t np key lp :
  t <> INVALID -> has_valid s np key lp = true -> has_valid (set_type r t s) np key lp = true.
Proof.
  intros Ht. unfold has_valid. simpl. destruct (find_node np (nodes s)) as [n|]; [|discriminate].
  intros H. apply existsb_exists in H. destruct H as [x [Hx Hv]]. apply existsb_exists. exists x.
  split; [exact Hx | now apply same_copy_valid_set_type].
Qed.

(* ---------------------------------------------------------------- nothing is lost *)
Lemma le_register tab s li p t : le s (fst (register tab s li p t)).
Proof.
  unfold register, alloc. simpl. eapply le_trans; [apply le_alloc|]. eapply le_trans; [apply le_put_rec|apply le_reg_inner].
Qed.

Definition before_type (tab : list locinfo) (s : st) (li : nat) (place : path) (rsrc : ref) (w : bool) : st :=
  let s1 := fst (register tab s li (removelast place) PRIMARY) in
  let r := length (heap s1) in
  let s3 := put_nonrec (mkst (heap s1 ++ [mkdloc (key_of tab li) place PRIMARY]) (nodes s1)) place r in
  if w then s3 else relate s3 rsrc r.

Lemma reg_transfer_eq tab s li place rsrc w ty :
  fst (reg_transfer tab s li place rsrc w ty)
  = if w then before_type tab s li place rsrc w
    else set_type (length (heap (fst (register tab s li (removelast place) PRIMARY)))) ty (before_type tab s li place rsrc w).
Proof. unfold reg_transfer, before_type. destruct w; reflexivity. Qed.

Lemma le_before_type tab s li place rsrc w :
  le (fst (register tab s li (removelast place) PRIMARY)) (before_type tab s li place rsrc w).
Proof.
  unfold before_type. set (s1 := fst (register tab s li (removelast place) PRIMARY)).
  assert (H3 : le s1 (put_nonrec (mkst (heap s1 ++ [mkdloc (key_of tab li) place PRIMARY]) (nodes s1)) place (length (heap s1)))).
  { eapply le_trans; [apply le_alloc | apply le_put_nonrec]. }
  destruct w; [exact H3 | eapply le_trans; [exact H3 | apply le_relate]].
Qed.

(* every copy that was valid before the transfer still is: the source (and everything else) stays registered *)
Theorem reg_keeps tab s li place rsrc w ty np key lp :
  ty <> INVALID ->
  has_valid s np key lp = true -> has_valid (fst (reg_transfer tab s li place rsrc w ty)) np key lp = true.
Proof.
  intros Ht H. rewrite reg_transfer_eq.
  assert (Hb : has_valid (before_type tab s li place rsrc w) np key lp = true).
  { eapply has_valid_le; [|exact H]. eapply le_trans; [apply le_register | apply le_before_type]. }
  destruct w; [exact Hb | now apply has_valid_set_type].
Qed.

(* the object created for the destination *)
Lemma hget_new (h : list dloc) d ns : hget (mkst (h ++ [d]) ns) (length h) = Some d.
Proof. unfold hget. simpl. rewrite nth_error_app2 by lia. now rewrite Nat.sub_diag. Qed.

Theorem reg_place_valid tab s li place rsrc w ty :
  ty <> INVALID ->
  has_valid (fst (reg_transfer tab s li place rsrc w ty)) place (key_of tab li) place = true.
Proof.
  intros Ht. rewrite reg_transfer_eq.
  set (s1 := fst (register tab s li (removelast place) PRIMARY)).
  set (d := mkdloc (key_of tab li) place PRIMARY).
  assert (H3 : has_valid (put_nonrec (mkst (heap s1 ++ [d]) (nodes s1)) place (length (heap s1))) place (key_of tab li) place = true).
  { unfold put_nonrec. apply (has_valid_put_at' _ _ _ d); try reflexivity.
    - apply hget_new.
    - discriminate.
    - apply with_path_has. apply self_in_prefixes. }
  assert (Hb : has_valid (before_type tab s li place rsrc w) place (key_of tab li) place = true).
  { unfold before_type. fold s1. fold d. destruct w; [exact H3 | eapply has_valid_le; [apply le_relate | exact H3]]. }
  destruct w; [exact Hb | now apply has_valid_set_type].
Qed.

Theorem reg_parents_valid tab s li place rsrc w ty a :
  ty <> INVALID ->
  a = removelast place \/ In a (ancestors (removelast place)) ->
  has_valid (fst (reg_transfer tab s li place rsrc w ty)) a (key_of tab li) a = true.
Proof.
  intros Ht Ha. rewrite reg_transfer_eq.
  assert (H1 : has_valid (fst (register tab s li (removelast place) PRIMARY)) a (key_of tab li) a = true).
  { unfold register, alloc. simpl. eapply has_valid_le; [apply le_reg_inner|].
    set (d := mkdloc (key_of tab li) (removelast place) PRIMARY). change (key_of tab li) with (dl_loc d).
    apply has_valid_put_rec; try assumption; try reflexivity; [apply hget_new | discriminate]. }
  assert (Hb : has_valid (before_type tab s li place rsrc w) a (key_of tab li) a = true).
  { eapply has_valid_le; [apply le_before_type | exact H1]. }
  destruct w; [exact Hb | now apply has_valid_set_type].
Qed.

(* the destination object carries the observed data type; the source object is what it was *)
Theorem reg_objects tab s li place rsrc w ty dsrc :
  hget s rsrc = Some dsrc ->
  let '(s', r) := reg_transfer tab s li place rsrc w ty in
  hget s' r = Some (mkdloc (key_of tab li) place (if w then PRIMARY else ty)) /\ hget s' rsrc = Some dsrc /\ r <> rsrc.
Proof.
  intros Hsrc. unfold reg_transfer.
  set (s1 := fst (register tab s li (removelast place) PRIMARY)).
  set (d := mkdloc (key_of tab li) place PRIMARY).
  set (s3 := put_nonrec (mkst (heap s1 ++ [d]) (nodes s1)) place (length (heap s1))).
  assert (H1 : hget s1 rsrc = Some dsrc) by (apply (proj1 (le_register tab s li (removelast place) PRIMARY)); exact Hsrc).
  assert (Hlt : rsrc < length (heap s1)) by (apply nth_error_Some; unfold hget in H1; congruence).
  assert (Hle3 : le s1 s3) by (eapply le_trans; [apply le_alloc | apply le_put_nonrec]).
  assert (Hr3 : hget s3 (length (heap s1)) = Some d).
  { apply (proj1 (le_put_nonrec (mkst (heap s1 ++ [d]) (nodes s1)) place (length (heap s1)))). apply hget_new. }
  destruct w.
  - repeat split; [exact Hr3 | apply (proj1 Hle3); exact H1 | lia].
  - assert (Hr4 : hget (relate s3 rsrc (length (heap s1))) (length (heap s1)) = Some d)
      by (apply (proj1 (le_relate s3 rsrc (length (heap s1)))); exact Hr3).
    assert (Hs4 : hget (relate s3 rsrc (length (heap s1))) rsrc = Some dsrc)
      by (apply (proj1 (le_relate s3 rsrc (length (heap s1)))); apply (proj1 Hle3); exact H1).
    repeat split; [| |lia].
    + unfold hget, set_type in *. simpl. rewrite nth_set_ty, Hr4, Nat.eqb_refl. reflexivity.
    + unfold hget, set_type in *. simpl. rewrite nth_set_ty, Hs4.
      destruct (Nat.eqb_spec rsrc (length (heap s1))); [lia | reflexivity].
Qed.

Theorem registered tab s li place rsrc w ty dsrc :
  ty <> INVALID -> hget s rsrc = Some dsrc ->
  let s' := fst (reg_transfer tab s li place rsrc w ty) in
  let r := snd (reg_transfer tab s li place rsrc w ty) in
  available s' place (key_of tab li) = true /\
  available s' (removelast place) (key_of tab li) = true /\
  hget s' r = Some (mkdloc (key_of tab li) place (if w then PRIMARY else ty)) /\
  hget s' rsrc = Some dsrc /\
  (forall np key, has_valid s np key np = true -> available s' np key = true).
Proof.
  intros Ht Hsrc. pose proof (reg_objects tab s li place rsrc w ty dsrc Hsrc) as Ho.
  destruct (reg_transfer tab s li place rsrc w ty) as [s' r] eqn:E. simpl.
  assert (Es : s' = fst (reg_transfer tab s li place rsrc w ty)) by now rewrite E.
  destruct Ho as [Ho1 [Ho2 _]]. repeat split; try assumption.
  - apply has_valid_available. rewrite Es. now apply reg_place_valid.
  - apply has_valid_available. rewrite Es. apply reg_parents_valid; [assumption | now left].
  - intros np key H. apply has_valid_available. rewrite Es. now apply reg_keeps.
Qed.
