(* FsTree/Corr.v — correspondence cases for C22: a transfer (route, writable, destination state, names, source tree) together
   with what the real transfer_data left at the destination and which path it registered. *)
From Coq Require Import Bool Arith.
From SF Require Import Base.Str Base.Corr.
From SF Require Export FsTree.Model.
Import ListNotations.
Local Open Scope string_scope. Local Open Scope list_scope.

Inductive ccase :=
| CXfer (r : route) (w : bool) (dst : option tree) (sname dname : string) (t : tree)
        (err : bool) (obs : option tree) (reg : list string)
| CBoth (a b : ccase).        (* one transfer_data call with two destination locations: one observation per destination *)

(* equality of trees up to the order of directory entries (the harness lists them sorted) *)
Fixpoint tree_eqb (a b : tree) : bool :=
  match a, b with
  | File c x, File d y => String.eqb c d && Bool.eqb x y
  | Link g, Link h => String.eqb g h
  | Dir es, Dir fs =>
      Nat.eqb (length es) (length fs) &&
      (fix all (es : list (string * tree)) : bool :=
         match es with
         | [] => true
         | (n, c) :: r => match lookup1 n fs with Some d => tree_eqb c d | None => false end && all r
         end) es
  | _, _ => false
  end.

(* transfer_data: the parent of dst/name is registered too (PRIMARY); the destination's data type is looked at again
   (test -L) only for read-only transfers; only available locations are listed without a suffix *)
Definition expected_reg (w : bool) (dst : option tree) (at_place : option tree) : list string :=
  let ty := if w then "PRIMARY" else match at_place with Some (Link _) => "SYMBOLIC_LINK" | _ => "PRIMARY" end in
  if is_dir dst then ["dst:PRIMARY"; String.append "dst/s:" ty] else [String.append "dst:" ty].

Fixpoint check_case (c : ccase) : bool :=
  match c with
  | CXfer r w dst sname dname t err obs reg =>
      match r, deref FUEL t [] t with
      | RL, Some t' =>
          (* the local extraction loop with Python's errors: raised or not, and what was written until then *)
          let '(fs', e) := r2l_chk dst sname dname t' in
          Bool.eqb err e
          && opt_eqb tree_eqb (lookup1 dname (entries fs')) obs
          && (if e then true else list_eqb String.eqb reg (expected_reg w dst (lookup fs' (place dst sname dname))))
      | _, _ =>
          match transfer FUEL r w dst sname dname t with
          | None => err
          | Some fs' =>
              negb err
              && opt_eqb tree_eqb (lookup1 dname (entries fs')) obs
              && list_eqb String.eqb reg (expected_reg w dst (lookup fs' (place dst sname dname)))
          end
      end
  | CBoth a b => check_case a && check_case b
  end.
