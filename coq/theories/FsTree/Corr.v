(* FsTree/Corr.v — correspondence cases for C22: a transfer (route, writable, destination state, names, source tree) together
   with what the real transfer_data left at the destination and which path it registered. *)
From Coq Require Import Bool Arith.
From SF Require Import Base.Str Base.Corr.
From SF Require Export FsTree.Model.
Import ListNotations.
Local Open Scope string_scope. Local Open Scope list_scope.

Inductive ccase :=
| CXfer (r : route) (w : bool) (dst : option tree) (sname dname : string) (t : tree)
        (err : bool) (obs : option tree) (reg : list string).

(* equality of trees up to the order of directory entries (the harness lists them sorted) *)
Fixpoint tree_eqb (a b : tree) : bool :=
  match a, b with
  | File c x, File d y => String.eqb c d && Bool.eqb x y
  | Link g, Link h => String.eqb g h
  | Dir es, Dir fs =>
      Nat.eqb (length es) (length fs) &&
      (fix all (es : list (string * tree)) : bool :=
         match es with
         | [] => true
         | (n, c) :: r => match lookup1 n fs with Some d => tree_eqb c d | None => false end && all r
         end) es
  | _, _ => false
  end.

Definition check_case (c : ccase) : bool :=
  match c with
  | CXfer r w dst sname dname t err obs reg =>
      match transfer FUEL r w dst sname dname t with
      | None => err
      | Some fs' =>
          negb err
          && opt_eqb tree_eqb (lookup1 dname (entries fs')) obs
          && list_eqb String.eqb reg (if is_dir dst then ["dst"; "dst/s"] else ["dst"])   (* the parent of dst/s is registered too *)
      end
  end.
