(* FsTree/Proofs.v — lemmas about archives, extraction and the transfer decision tables. *)
From Coq Require Import Bool Arith Lia.
From SF Require Import Base.Str FsTree.Model.
Import ListNotations.
Local Open Scope string_scope. Local Open Scope list_scope.

(* ---------------------------------------------------------------- induction over trees *)
Section TreeInd.
  Variable P : tree -> Prop.
  Hypothesis HF : forall c x, P (File c x).
  Hypothesis HL : forall g, P (Link g).
  Hypothesis HD : forall es, Forall (fun e => P (snd e)) es -> P (Dir es).
  Fixpoint tree_ind2 (t : tree) : P t :=
    match t with
    | File c x => HF c x
    | Link g => HL g
    | Dir es => HD es ((fix go (es : list (string * tree)) : Forall (fun e => P (snd e)) es :=
                          match es with
                          | [] => Forall_nil _
                          | e :: r => Forall_cons e (tree_ind2 (snd e)) (go r)
                          end) es)
    end.
End TreeInd.

(* ---------------------------------------------------------------- well-formed trees: unique names in every directory *)
Definition names (es : list (string * tree)) : list string := map fst es.

Fixpoint wf (t : tree) : Prop :=
  match t with
  | Dir es => NoDup (names es) /\
              (fix all (es : list (string * tree)) : Prop :=
                 match es with [] => True | e :: r => wf (snd e) /\ all r end) es
  | _ => True
  end.

Fixpoint wf_all (es : list (string * tree)) : Prop :=
  match es with [] => True | e :: r => wf (snd e) /\ wf_all r end.
Lemma wf_dir es : wf (Dir es) <-> NoDup (names es) /\ wf_all es.
Proof.
  simpl. split; intros [H1 H2]; split; auto; clear H1; induction es as [|e r IH]; simpl in *; auto;
    destruct H2; split; auto.
Qed.

(* ---------------------------------------------------------------- association lists *)
Lemma upd_ext n f g es : (forall o, f o = g o) -> upd n f es = upd n g es.
Proof.
  intros E. induction es as [|[m c] r IH]; simpl.
  - now rewrite E.
  - destruct (String.eqb m n); [now rewrite E | now rewrite IH].
Qed.

Lemma upd_upd n f g es : upd n g (upd n f es) = upd n (fun o => g (Some (f o))) es.
Proof.
  induction es as [|[m c] r IH]; simpl.
  - now rewrite String.eqb_refl.
  - destruct (String.eqb m n) eqn:E; simpl; rewrite E; [reflexivity | now rewrite IH].
Qed.

Lemma lookup1_none_notin n es : lookup1 n es = None <-> ~ In n (names es).
Proof.
  induction es as [|[m c] r IH]; simpl; [tauto|].
  destruct (String.eqb_spec m n).
  - split; [discriminate | intros H; exfalso; apply H; now left].
  - rewrite IH. split; [intros H [E|E]; [congruence | tauto] | tauto].
Qed.

Lemma upd_fresh n f es : ~ In n (names es) -> upd n f es = es ++ [(n, f None)].
Proof.
  induction es as [|[m c] r IH]; simpl; intros H; [reflexivity|].
  destruct (String.eqb_spec m n); [exfalso; apply H; now left|].
  rewrite IH; [reflexivity | tauto].
Qed.

Lemma lookup1_app_fresh n c es : ~ In n (names es) -> lookup1 n (es ++ [(n, c)]) = Some c.
Proof.
  induction es as [|[m d] r IH]; simpl; intros H.
  - now rewrite String.eqb_refl.
  - destruct (String.eqb_spec m n); [exfalso; apply H; now left | apply IH; tauto].
Qed.

Lemma lookup1_app_other n m c es : m <> n -> lookup1 m (es ++ [(n, c)]) = lookup1 m es.
Proof.
  intros Hne. induction es as [|[k d] r IH]; simpl.
  - destruct (String.eqb_spec n m); [congruence | reflexivity].
  - destruct (String.eqb k m); [reflexivity | exact IH].
Qed.

(* ---------------------------------------------------------------- at_path *)
Lemma at_path_ext p f g o : (forall o', f o' = g o') -> at_path p f o = at_path p g o.
Proof.
  revert o. induction p as [|n p IH]; simpl; intros o E; [apply E|].
  f_equal. apply upd_ext. intros o'. now apply IH.
Qed.

Lemma at_path_comp p q f g o :
  at_path (p ++ q) g (Some (at_path p f o)) = at_path p (fun o' => at_path q g (Some (f o'))) o.
Proof.
  revert o. induction p as [|n p IH]; simpl; intros o; [reflexivity|].
  f_equal. rewrite upd_upd. apply upd_ext. intros o'. apply IH.
Qed.

(* ---------------------------------------------------------------- what extraction of a tree over a node leaves there *)
Definition odir_entries (o : option tree) : list (string * tree) :=
  match o with Some (Dir e0) => e0 | _ => [] end.

Fixpoint merge (t : tree) (o : option tree) : tree :=
  match t with
  | File c x => File c x
  | Link g => Link g
  | Dir es =>
      Dir ((fix go (es acc : list (string * tree)) : list (string * tree) :=
              match es with
              | [] => acc
              | (n, c) :: r => go r (upd n (merge c) acc)
              end) es (odir_entries o))
  end.

Fixpoint merge_all (es acc : list (string * tree)) : list (string * tree) :=
  match es with
  | [] => acc
  | (n, c) :: r => merge_all r (upd n (merge c) acc)
  end.
Lemma merge_dir es o : merge (Dir es) o = Dir (merge_all es (odir_entries o)).
Proof.
  reflexivity.
Qed.

Fixpoint members_all (self : path) (es : list (string * tree)) : list member :=
  match es with
  | [] => []
  | (n, c) :: r => members (self ++ [n]) c ++ members_all self r
  end.
Lemma members_dir self es : members self (Dir es) = (self, MDir) :: members_all self es.
Proof.
  simpl. f_equal. induction es as [|[n c] r IH]; simpl; [reflexivity | now rewrite IH].
Qed.

Lemma place_dir_eq o : place_node MDir o = Dir (odir_entries o).
Proof. destruct o as [[| |]|]; reflexivity. Qed.

Lemma extract_app a b fs : extract (a ++ b) fs = extract b (extract a fs).
Proof. unfold extract. apply fold_left_app. Qed.

(* children extracted one after the other under a directory that is being built at [p] *)
Lemma extract_children p es :
  Forall (fun e => forall q fs, extract (members q (snd e)) fs = at_path q (merge (snd e)) (Some fs)) es ->
  forall (A : option tree -> list (string * tree)) fs,
    extract (members_all p es) (at_path p (fun o => Dir (A o)) (Some fs))
    = at_path p (fun o => Dir (merge_all es (A o))) (Some fs).
Proof.
  induction 1 as [|[n c] r Hc Hr IH]; intros A fs; simpl; [reflexivity|].
  rewrite extract_app. simpl in Hc. rewrite Hc.
  rewrite at_path_comp. simpl.
  rewrite (at_path_ext p _ (fun o => Dir (upd n (merge c) (A o)))) by reflexivity.
  apply IH.
Qed.

Theorem extract_members t : forall p fs, extract (members p t) fs = at_path p (merge t) (Some fs).
Proof.
  induction t as [c x|g|es IH] using tree_ind2; intros p fs.
  - reflexivity.
  - reflexivity.
  - rewrite members_dir. unfold extract at 1. simpl. fold (extract (members_all p es) (insert fs (p, MDir))).
    unfold insert. simpl.
    rewrite (at_path_ext p (place_node MDir) (fun o => Dir (odir_entries o))) by apply place_dir_eq.
    rewrite (extract_children p es IH).
    apply at_path_ext. intros o. reflexivity.
Qed.

(* extracting a well-formed tree where nothing was gives the tree back *)
Lemma merge_all_fresh es :
  Forall (fun e => merge (snd e) None = snd e) es ->
  forall acc, NoDup (names acc ++ names es) -> merge_all es acc = acc ++ es.
Proof.
  induction 1 as [|[n c] r Hc Hr IH]; intros acc Hnd; simpl.
  - now rewrite app_nil_r.
  - simpl in Hc. rewrite upd_fresh.
    + rewrite Hc. rewrite IH.
      * now rewrite <- app_assoc.
      * unfold names in *. rewrite map_app. simpl. rewrite <- app_assoc. exact Hnd.
    + simpl in Hnd. apply NoDup_remove_2 in Hnd. intros Hin. apply Hnd. apply in_or_app. now left.
Qed.

Lemma wf_all_Forall (P : tree -> Prop) es :
  Forall (fun e => wf (snd e) -> P (snd e)) es -> wf_all es -> Forall (fun e => P (snd e)) es.
Proof. induction 1; simpl; intros Hw; constructor; tauto. Qed.

Theorem merge_fresh t : wf t -> merge t None = t.
Proof.
  induction t as [c x|g|es IH] using tree_ind2; intros Hw; try reflexivity.
  apply wf_dir in Hw. destruct Hw as [Hnd Hall].
  rewrite merge_dir. simpl. f_equal.
  rewrite (merge_all_fresh es); [reflexivity | | exact Hnd].
  apply (wf_all_Forall (fun t => merge t None = t)); assumption.
Qed.

(* into an existing directory that has no entry of that name *)
Theorem merge_into_empty t : wf t -> merge t (Some (Dir [])) = t.
Proof.
  destruct t as [c x|es|g]; intros Hw; try reflexivity.
  rewrite merge_dir. change (odir_entries (Some (Dir []))) with (odir_entries None). rewrite <- merge_dir.
  now apply merge_fresh.
Qed.

(* ---------------------------------------------------------------- reading back *)
Lemma lookup1_upd_same n g es : lookup1 n (upd n g es) = Some (g (lookup1 n es)).
Proof.
  induction es as [|[m c] r IH]; simpl.
  - now rewrite String.eqb_refl.
  - destruct (String.eqb m n) eqn:E; simpl; rewrite E; [reflexivity | exact IH].
Qed.

Lemma lookup1_upd_other n m g es : m <> n -> lookup1 m (upd n g es) = lookup1 m es.
Proof.
  intros Hne. induction es as [|[k c] r IH]; simpl.
  - destruct (String.eqb_spec n m); [congruence | reflexivity].
  - destruct (String.eqb_spec k n) as [->|Hk]; simpl.
    + destruct (String.eqb_spec n m); [congruence | reflexivity].
    + destruct (String.eqb k m); [reflexivity | exact IH].
Qed.

Definition olookup (o : option tree) (p : path) : option tree :=
  match o with Some t => lookup t p | None => match p with [] => None | _ => None end end.

Lemma olookup_cons o n p :
  olookup o (n :: p) = olookup (lookup1 n (entries (odir o))) p.
Proof.
  destruct o as [[c x|es|g]|]; simpl; destruct p; reflexivity.
Qed.

Lemma lookup_at_path p f : forall o, lookup (at_path p f o) p = Some (f (olookup o p)).
Proof.
  induction p as [|n p IH]; intros o.
  - simpl. destruct o; reflexivity.
  - simpl at_path. simpl lookup. rewrite lookup1_upd_same. rewrite IH. now rewrite olookup_cons.
Qed.

(* ---------------------------------------------------------------- archives under another root *)
Lemma reroot_app p a b : reroot p (a ++ b) = reroot p a ++ reroot p b.
Proof. unfold reroot. apply map_app. Qed.

Lemma members_reroot t : forall p q, members (p ++ q) t = reroot p (members q t).
Proof.
  induction t as [c x|g|es IH] using tree_ind2; intros p q; try reflexivity.
  rewrite !members_dir. unfold reroot at 1. simpl. f_equal.
  fold (reroot p (members_all q es)).
  induction IH as [|[n c] r Hc Hr IHr]; simpl; [reflexivity|].
  rewrite reroot_app. rewrite <- IHr. f_equal. simpl in Hc. rewrite <- Hc. now rewrite app_assoc.
Qed.

Lemma reroot_nil ms : reroot [] ms = ms.
Proof. unfold reroot. induction ms as [|[p m] r IH]; simpl in *; [reflexivity | now rewrite IH]. Qed.

(* ---------------------------------------------------------------- the transfer, cell by cell *)
Definition dst_ok (dst : option tree) (sname : string) : Prop :=
  dst = None \/ exists es, dst = Some (Dir es) /\ ~ In sname (names es).

Lemma nothing_at_place dst sname dname :
  dst_ok dst sname -> olookup (Some (world dname dst)) (place dst sname dname) = None.
Proof.
  intros [->|[es [-> Hn]]]; unfold place, world; simpl.
  - reflexivity.
  - rewrite String.eqb_refl. apply lookup1_none_notin in Hn. now rewrite Hn.
Qed.

(* the cells of the decision tables covered by [transfer_core] *)
Definition cell_proved (r : route) (w : bool) (dst : option tree) (sname dname : string) (t : tree) : bool :=
  match r with
  | LR | RRsame => true
  | LL => negb w || negb (is_dir_t t)
  | RRother => is_dir dst || String.eqb sname dname
  | RL => false
  end.

(* which of the three is at the registered path, route by route: cp -rf keeps the tree as it is (links stay links), ln -snf and
   os.symlink leave a link to the source, everything else (tar with -h, tarfile with dereference, shutil) the dereferenced tree *)
Definition copy_exact (r : route) (w : bool) (t t' c : tree) : Prop :=
  match r, w with
  | RRsame, true => c = t
  | RRsame, false | LL, false => c = Link SRC
  | _, _ => c = t'
  end.
Ltac cx := first [reflexivity | match goal with |- copy_exact _ ?w _ _ _ => destruct w; reflexivity end].

Definition copy_ok (w : bool) (t t' c : tree) : Prop :=
  c = t' \/ c = t \/ (c = Link SRC /\ w = false).

Lemma extract_at_place dst sname dname u :
  dst_ok dst sname -> wf u ->
  lookup (extract (members (place dst sname dname) u) (world dname dst)) (place dst sname dname) = Some u.
Proof.
  intros Hd Hw. rewrite extract_members, lookup_at_path, nothing_at_place by assumption.
  now rewrite merge_fresh.
Qed.

Lemma is_dir_place dst sname dname : is_dir dst = true -> place dst sname dname = [dname; sname].
Proof. unfold place. now intros ->. Qed.
Lemma not_dir_place dst sname dname : is_dir dst = false -> place dst sname dname = [dname].
Proof. unfold place. now intros ->. Qed.

Theorem transfer_core fuel r w dst sname dname t t' fs' :
  dst_ok dst sname -> wf t -> wf t' ->
  deref fuel t [] t = Some t' ->
  cell_proved r w dst sname dname t = true ->
  transfer fuel r w dst sname dname t = Some fs' ->
  exists c, lookup fs' (place dst sname dname) = Some c /\ copy_exact r w t t' c.
Proof.
  intros Hd Hw Hw' Hde Hcell Htr. unfold transfer in Htr. rewrite Hde in Htr. injection Htr as <-.
  destruct r; simpl in Hcell.
  - (* LL *)
    unfold local_copy. destruct w; simpl in *.
    + destruct (is_dir_t t); [discriminate|]. exists t'. split; [now apply extract_at_place | cx].
    + exists (Link SRC). split; [|cx].
      unfold symlink_at. now rewrite lookup_at_path, nothing_at_place.
  - (* LR *)
    exists t'. split; [now apply extract_at_place | cx].
  - discriminate.
  - (* RRsame *)
    unfold same_loc. destruct w.
    + exists t. split; [now apply extract_at_place | cx].
    + exists (Link SRC). split; [|cx].
      now rewrite lookup_at_path, nothing_at_place.
  - (* RRother *)
    unfold r2r, write_command. destruct (is_dir dst) eqn:Edir; simpl in Hcell.
    + unfold run_wcmd. rewrite <- (members_reroot t' [dname] [sname]). change ([dname] ++ [sname]) with [dname; sname].
      rewrite <- (is_dir_place dst sname dname Edir).
      exists t'. split; [now apply extract_at_place | cx].
    + rewrite Hcell. unfold negb, run_wcmd. rewrite reroot_nil. apply String.eqb_eq in Hcell. subst dname.
      rewrite <- (not_dir_place dst sname sname Edir).
      exists t'. split; [now apply extract_at_place | cx].
Qed.

(* other entries of an existing destination directory stay as they were *)
Theorem frame_at F es sname dname m :
  m <> sname ->
  lookup (at_path [dname; sname] F (Some (world dname (Some (Dir es))))) [dname; m] = lookup1 m es.
Proof.
  intros Hne. simpl. rewrite !String.eqb_refl. simpl. rewrite String.eqb_refl.
  rewrite lookup1_upd_other by exact Hne. destruct (lookup1 m es); reflexivity.
Qed.

(* ---------------------------------------------------------------- corollaries stated for Props/C22.v *)
(* tar c -C d n | tar x -C e: the tree arrives as it is, next to what was there *)
Theorem archive_roundtrip n t es :
  wf t -> ~ In n (names es) ->
  extract (members [n] t) (Dir es) = Dir (es ++ [(n, t)]).
Proof.
  intros Hw Hn. rewrite extract_members. simpl. rewrite upd_fresh by exact Hn. simpl. now rewrite merge_fresh.
Qed.

Theorem transfer_frame fuel r w es sname dname t fs' m :
  m <> sname -> cell_proved r w (Some (Dir es)) sname dname t = true ->
  transfer fuel r w (Some (Dir es)) sname dname t = Some fs' ->
  lookup fs' [dname; m] = lookup1 m es.
Proof.
  intros Hne Hcell Htr. unfold transfer in Htr. destruct (deref fuel t [] t) as [t'|]; [|discriminate].
  injection Htr as <-. destruct r; simpl in Hcell.
  - unfold local_copy. destruct w; simpl in *.
    + destruct (is_dir_t t); [discriminate|]. unfold place. simpl is_dir. cbv iota. rewrite extract_members. now apply frame_at.
    + unfold symlink_at, place. simpl is_dir. cbv iota. now apply frame_at.
  - unfold l2r, place. simpl is_dir. cbv iota. rewrite extract_members. now apply frame_at.
  - discriminate.
  - unfold same_loc, place. simpl is_dir. cbv iota. destruct w; [rewrite extract_members|]; now apply frame_at.
  - unfold r2r, write_command. simpl is_dir. cbv iota. unfold run_wcmd.
    rewrite <- (members_reroot t' [dname] [sname]). change ([dname] ++ [sname]) with [dname; sname].
    rewrite extract_members. now apply frame_at.
Qed.

(* the two cells where the faithful model does not reproduce the source at the registered path *)
Lemma exec_bit_lost :
  exists c, transfer FUEL RRother true None "s" "other" (File c true) = Some (Dir [("other", File c false)]).
Proof. exists "x". vm_compute. reflexivity. Qed.

Lemma local_merge_misplaced :
  exists fs', transfer FUEL LL true (Some (Dir [])) "s" "d" (Dir [("a", File "x" false)]) = Some fs'
              /\ lookup fs' (place (Some (Dir [])) "s" "d") = None
              /\ lookup fs' ["d"; "a"] = Some (File "x" false).
Proof. eexists. vm_compute. repeat split. Qed.
