(* FsTree/Model.v — what a StreamFlow data transfer does to the destination file tree.
   Definitions only (the correspondence keeps running when a proof breaks).

   ANCHORS:
     streamflow.data.manager._copy                                   -> route (who copies) / transfer
     streamflow.data.manager.DefaultDataManager.transfer_data        -> place (the path that gets registered)
     streamflow.deployment.connector.local._local_copy               -> local_copy
     streamflow.deployment.connector.base.BaseConnector.copy_local_to_remote,
       streamflow.core.utils.get_local_to_remote_destination,
       streamflow.deployment.connector.base.copy_local_to_remote     -> l2r
     streamflow.deployment.connector.base.BaseConnector.copy_remote_to_local,
       streamflow.deployment.connector.base.copy_remote_to_local,
       streamflow.deployment.connector.base.extract_tar_stream       -> r2l / py_extract
     streamflow.deployment.connector.base.copy_same_connector        -> same_loc
     streamflow.deployment.connector.base.copy_remote_to_remote,
       streamflow.core.utils.get_remote_to_remote_write_command      -> r2r / wcmd

   The tools are described from their manuals, as transformers of trees:
     tar c[h]f - -C d n      members of the tree found at d/n, parents before children, every path starting with n;
                             with h, symbolic links are replaced by what they point to (deref)
     tar xpf - -C d          every member inserted under d: directories created (kept when present), files replaced
     --strip-components 1    first path component dropped, members left without a name skipped
     -O | tee f              the contents of the file members, concatenated, written to f with the default mode (no exec bit)
     cp -rf s d              the tree copied as it is (links stay links), inside d when d is a directory
     ln -snf s d             a link to s at d, inside d when d is a directory
     tarfile.add(dereference=True, arcname=a) + tar xpf - -C /     the dereferenced tree inserted at path a
     shutil.copytree(dirs_exist_ok=True) / shutil.copy / os.symlink the local counterparts
   The world is the *parent directory of the destination*: [Dir [(dname, d)]] when the destination exists, [Dir []] when it
   does not; the source is a tree value whose relative links are resolved inside itself. *)
From Coq Require Import Ascii Bool.
From SF Require Import Base.Str.
Import ListNotations.
Local Open Scope string_scope. Local Open Scope list_scope.

Inductive tree :=
| File (c : string) (x : bool)
| Dir (es : list (string * tree))
| Link (tgt : string).

Definition path := list string.

Inductive mnode := MFile (c : string) (x : bool) | MDir | MLink (tgt : string).
Definition member : Type := path * mnode.

(* ---------------------------------------------------------------- directories as association lists *)
Fixpoint lookup1 (n : string) (es : list (string * tree)) : option tree :=
  match es with
  | [] => None
  | (m, c) :: r => if String.eqb m n then Some c else lookup1 n r
  end.

Fixpoint lookup (t : tree) (p : path) : option tree :=
  match p with
  | [] => Some t
  | n :: p' => match t with
               | Dir es => match lookup1 n es with Some c => lookup c p' | None => None end
               | _ => None
               end
  end.

(* replace or append the entry [n] *)
Fixpoint upd (n : string) (f : option tree -> tree) (es : list (string * tree)) : list (string * tree) :=
  match es with
  | [] => [(n, f None)]
  | (m, c) :: r => if String.eqb m n then (m, f (Some c)) :: r else (m, c) :: upd n f r
  end.

Definition entries (t : tree) : list (string * tree) := match t with Dir es => es | _ => [] end.
Definition odir (o : option tree) : tree := match o with Some c => c | None => Dir [] end.

(* apply [f] to the node at path [p]; missing (or non-directory) intermediate nodes become directories *)
Fixpoint at_path (p : path) (f : option tree -> tree) (o : option tree) : tree :=
  match p with
  | [] => f o
  | n :: p' => Dir (upd n (at_path p' f) (entries (odir o)))
  end.

Definition place_node (m : mnode) (o : option tree) : tree :=
  match m with
  | MFile c x => File c x
  | MLink g => Link g
  | MDir => match o with Some (Dir es) => Dir es | _ => Dir [] end
  end.

Definition insert (fs : tree) (mb : member) : tree := at_path (fst mb) (place_node (snd mb)) (Some fs).
Definition extract (ms : list member) (fs : tree) : tree := fold_left insert ms fs.

(* ---------------------------------------------------------------- archives *)
Fixpoint members (self : path) (t : tree) : list member :=
  match t with
  | File c x => [(self, MFile c x)]
  | Link g => [(self, MLink g)]
  | Dir es =>
      (self, MDir) ::
      (fix go (es : list (string * tree)) : list member :=
         match es with
         | [] => []
         | (n, c) :: r => members (self ++ [n]) c ++ go r
         end) es
  end.

Definition strip1' (ms : list member) : list member :=
  flat_map (fun mb : member => match fst mb with
                               | _ :: ((_ :: _) as p) => [(p, snd mb)]
                               | _ => []
                               end) ms.
Definition reroot (pre : path) (ms : list member) : list member := map (fun mb : member => (pre ++ fst mb, snd mb)) ms.

Definition file_contents (ms : list member) : string :=
  fold_right (fun (mb : member) acc => match snd mb with MFile c _ => String.append c acc | _ => acc end) EmptyString ms.

(* ---------------------------------------------------------------- symbolic links *)
(* the path a relative link text names, seen from directory [dir] *)
Fixpoint walk (stack : list string) (comps : list string) : option (list string) :=   (* stack: reversed path *)
  match comps with
  | [] => Some (rev stack)
  | c :: r =>
      if String.eqb c "" || String.eqb c "." then walk stack r
      else if String.eqb c ".." then match stack with [] => None | _ :: s => walk s r end
      else walk (c :: stack) r
  end.
Definition norm (dir : path) (tgt : string) : option path :=
  if startswith "/" tgt then None else walk (rev dir) (split_on "/"%char tgt).

Fixpoint map_opt (g : string -> tree -> option tree) (es : list (string * tree)) : option (list (string * tree)) :=
  match es with
  | [] => Some []
  | (n, c) :: r => match g n c, map_opt g r with
                   | Some c', Some r' => Some ((n, c') :: r')
                   | _, _ => None
                   end
  end.

(* tar -h / dereference=True / copytree(symlinks=False): links replaced by what they point to; [self] = path of [t] in [root] *)
Fixpoint deref (fuel : nat) (root : tree) (self : path) (t : tree) {struct fuel} : option tree :=
  match fuel with
  | O => None
  | S f =>
      match t with
      | File c x => Some (File c x)
      | Link g => match norm (removelast self) g with
                  | Some p => match lookup root p with
                              | Some u => deref f root p u
                              | None => None
                              end
                  | None => None
                  end
      | Dir es => option_map Dir (map_opt (fun n c => deref f root (self ++ [n]) c) es)
      end
  end.

(* ---------------------------------------------------------------- the decision tables *)
Inductive route := LL | LR | RL | RRsame | RRother.

Definition SRC : string := "$SRC".          (* the absolute source path, as a link target *)
Definition is_dir (o : option tree) : bool := match o with Some (Dir _) => true | _ => false end.
Definition is_dir_t (t : tree) : bool := match t with Dir _ => true | _ => false end.

(* the parent directory of the destination *)
Definition world (dname : string) (dst : option tree) : tree :=
  match dst with Some d => Dir [(dname, d)] | None => Dir [] end.

(* transfer_data: loc_dst_path = dst / src.name when dst is a directory (asked before copying) *)
Definition place (dst : option tree) (sname dname : string) : path :=
  if is_dir dst then [dname; sname] else [dname].

(* os.symlink(src, dst): EEXIST is swallowed *)
Definition symlink_at (p : path) (fs : tree) : tree :=
  at_path p (fun o => match o with Some c => c | None => Link SRC end) (Some fs).

(* _local_copy *)
Definition local_copy (w : bool) (dst : option tree) (sname dname : string) (t t' : tree) : tree :=
  let fs := world dname dst in
  if negb w then symlink_at (place dst sname dname) fs
  else if is_dir_t t then
         (* os.makedirs(dst, exist_ok=True); shutil.copytree(src, dst, dirs_exist_ok=True): the content goes INTO dst *)
         extract (reroot [dname] (strip1' (members [sname] t'))) (insert fs ([dname], MDir))
       else extract (members (place dst sname dname) t') fs.      (* shutil.copy *)

(* get_local_to_remote_destination + tarfile.add(src, arcname=dst') + tar xpf - -C / *)
Definition l2r (dst : option tree) (sname dname : string) (t' : tree) : tree :=
  extract (members (place dst sname dname) t') (world dname dst).

Definition is_root (sname : string) (mp : path) : bool :=
  match mp with [n] => String.eqb n sname | _ => false end.

(* extract_tar_stream: one member at a time, [isdir(dst)] asked of the file system as it is at that moment *)
Definition py_step (sname : string) (st : tree * path) (mb : member) : tree * path :=
  let '(fs, dstp) := st in
  let '(mp, m) := mb in
  let dst_is_dir := match lookup fs dstp with Some (Dir _) => true | _ => false end in
  if dst_is_dir && is_root sname mp then
    (insert fs (dstp ++ mp, m), match m with MDir => dstp ++ mp | _ => dstp end)
  else
    (* posixpath.relpath(member.path, basename(src)) then normpath(join(dst, .)) *)
    (insert fs (dstp ++ tl mp, m), dstp).
Definition py_extract (sname : string) (ms : list member) (fs : tree) (dstp : path) : tree :=
  fst (fold_left (py_step sname) ms (fs, dstp)).

(* The same loop with Python's errors: a member that cannot be written raises (NotADirectoryError when a proper prefix of its
   path is a regular file, IsADirectoryError when a file member meets a directory, FileExistsError when a directory member meets
   a non-directory), the loop stops there and what the earlier members wrote stays. *)
Definition node_conflict (m : mnode) (o : option tree) : bool :=
  match m, o with
  | MDir, None | MDir, Some (Dir _) => false
  | MDir, Some _ => true
  | _, Some (Dir _) => true
  | _, _ => false
  end.
Fixpoint path_blocked (p : path) (o : option tree) : bool :=
  match p with
  | [] => false
  | n :: p' => match o with
               | None => false
               | Some (Dir es) => path_blocked p' (lookup1 n es)
               | Some _ => true
               end
  end.
Definition member_conflict (fs : tree) (mb : member) : bool :=
  path_blocked (fst mb) (Some fs) || node_conflict (snd mb) (lookup fs (fst mb)).

(* where [py_step] writes the member *)
Definition py_target (sname : string) (st : tree * path) (mb : member) : member :=
  let '(fs, dstp) := st in
  let '(mp, m) := mb in
  let dst_is_dir := match lookup fs dstp with Some (Dir _) => true | _ => false end in
  if dst_is_dir && is_root sname mp then (dstp ++ mp, m) else (dstp ++ tl mp, m).

Fixpoint fold_chk {S M : Type} (step : S -> M -> S) (bad : S -> M -> bool) (ms : list M) (st : S) : S * bool :=
  match ms with
  | [] => (st, false)
  | mb :: r => if bad st mb then (st, true) else fold_chk step bad r (step st mb)
  end.

Definition py_bad (sname : string) (st : tree * path) (mb : member) : bool :=
  member_conflict (fst st) (py_target sname st mb).

(* (file system afterwards, raised?) *)
Definition r2l_chk (dst : option tree) (sname dname : string) (t' : tree) : tree * bool :=
  let '(st, e) := fold_chk (py_step sname) (py_bad sname) (members [sname] t') (world dname dst, [dname]) in
  (fst st, e).

(* tar chf - -C dirname(src) basename(src)  |  extract_tar_stream(tar, src, dst) *)
Definition r2l (dst : option tree) (sname dname : string) (t' : tree) : tree :=
  py_extract sname (members [sname] t') (world dname dst) [dname].

(* copy_same_connector: ln -snf src dst | /bin/cp -rf src dst *)
Definition same_loc (w : bool) (dst : option tree) (sname dname : string) (t : tree) : tree :=
  let fs := world dname dst in
  if w then extract (members (place dst sname dname) t) fs
  else at_path (place dst sname dname)
               (fun o => match o with Some (Dir es) => Dir es | _ => Link SRC end)   (* ln -f cannot replace a directory *)
               (Some fs).

(* get_remote_to_remote_write_command *)
Inductive wcmd := XInto (d : path) | XStrip (d : path) | XTee (f : path).
Definition write_command (dst : option tree) (sname dname : string) (src_is_dir : bool) : wcmd :=
  if is_dir dst then XInto [dname]                                     (* tar xpf - -C dst *)
  else if negb (String.eqb sname dname) then
         if src_is_dir then XStrip [dname]                             (* mkdir -p dst; tar xpf - -C dst --strip-components 1 *)
         else XTee [dname]                                             (* tar xpf - -O | tee dst > /dev/null *)
       else XInto [].                                                  (* tar xpf - -C dirname(dst) *)

Definition run_wcmd (c : wcmd) (ms : list member) (fs : tree) : tree :=
  match c with
  | XInto d => extract (reroot d ms) fs
  | XStrip d => extract (reroot d (strip1' ms)) (insert fs (d, MDir))
  | XTee f => insert fs (f, MFile (file_contents ms) false)
  end.

Definition r2r (dst : option tree) (sname dname : string) (t t' : tree) : tree :=
  run_wcmd (write_command dst sname dname (is_dir_t t)) (members [sname] t') (world dname dst).

Definition FUEL : nat := 48.

(* _copy + the connector methods; None = the archive cannot be built (dangling link) *)
Definition transfer (fuel : nat) (r : route) (w : bool) (dst : option tree) (sname dname : string) (t : tree) : option tree :=
  match deref fuel t [] t with
  | None => None
  | Some t' =>
      Some (match r with
            | LL => local_copy w dst sname dname t t'
            | LR => l2r dst sname dname t'
            | RL => r2l dst sname dname t'
            | RRsame => same_loc w dst sname dname t
            | RRother => r2r dst sname dname t t'
            end)
  end.
