(* FsTree/Verbatim.v — when do the transfer command lines (' '.join(command), read by the remote /bin/sh) reach their tools
   word for word?  Uses the reader model and lemmas of Shell (imported, not edited). *)
From Coq Require Import Bool.
From SF Require Import Base.Str Shell.Model Shell.Proofs.
Import ListNotations.
Local Open Scope string_scope. Local Open Scope list_scope.

Definition safe_word (s : string) : bool :=
  match s with EmptyString => false | _ => all_chars safe_char s end.

Lemma quote_safe s : safe_word s = true -> quote s = s.
Proof. destruct s; [discriminate|]. unfold safe_word, quote. now intros ->. Qed.

Lemma map_quote_safe args : forallb safe_word args = true -> map quote args = args.
Proof.
  induction args as [|a r IH]; simpl; [reflexivity|]. intros H. apply andb_true_iff in H. destruct H as [Ha Hr].
  now rewrite quote_safe, IH.
Qed.

Theorem words_verbatim args : forallb safe_word args = true -> sh_words (join " " args) = Some args.
Proof. intros H. rewrite <- (map_quote_safe args H) at 1. apply join_words. Qed.

(* the command lists of the transfer path *)
Definition reader_cmd (dir name : string) : list string := ["tar"; "chf"; "-"; "-C"; dir; name].
Definition writer_into (dst : string) : list string := ["tar"; "xpf"; "-"; "-C"; dst].
Definition writer_strip (dst : string) : list string := ["tar"; "xpf"; "-"; "-C"; dst; "--strip-components"; "1"].
Definition same_loc_cmd (w : bool) (src dst : string) : list string :=
  (if w then ["/bin/cp"; "-rf"] else ["ln"; "-snf"]) ++ [src; dst].
Definition mkdir_cmd (dst : string) : list string := ["mkdir"; "-p"; dst].

Theorem transfer_commands_verbatim dir name src dst w :
  safe_word dir = true -> safe_word name = true -> safe_word src = true -> safe_word dst = true ->
  sh_words (join " " (reader_cmd dir name)) = Some (reader_cmd dir name) /\
  sh_words (join " " (writer_into dst)) = Some (writer_into dst) /\
  sh_words (join " " (writer_strip dst)) = Some (writer_strip dst) /\
  sh_words (join " " (same_loc_cmd w src dst)) = Some (same_loc_cmd w src dst) /\
  sh_words (join " " (mkdir_cmd dst)) = Some (mkdir_cmd dst).
Proof.
  intros Hd Hn Hs Ht.
  repeat split; apply words_verbatim; unfold reader_cmd, writer_into, writer_strip, same_loc_cmd, mkdir_cmd;
    try destruct w; simpl; rewrite ?Hd, ?Hn, ?Hs, ?Ht; reflexivity.
Qed.

Lemma blank_not_verbatim :
  sh_words (join " " (reader_cmd "/r" "a b")) = Some ["tar"; "chf"; "-"; "-C"; "/r"; "a"; "b"].
Proof. vm_compute. reflexivity. Qed.
