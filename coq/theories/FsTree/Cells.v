(* FsTree/Cells.v — the remaining cells of the routing tables (remote->local through the extract_tar_stream loop,
   --strip-components 1, -O | tee, local copytree to an absent path), well-formedness of the dereferenced tree, and the
   transfer theorem over every cell that is not refuted. *)
From Coq Require Import Bool Arith Lia.
From SF Require Import Base.Str FsTree.Model FsTree.Proofs.
Import ListNotations.
Local Open Scope string_scope. Local Open Scope list_scope.

(* ---------------------------------------------------------------- member paths *)
Lemma members_all_reroot p q es : members_all (p ++ q) es = reroot p (members_all q es).
Proof.
  pose proof (members_reroot (Dir es) p q) as H. rewrite !members_dir in H.
  unfold reroot in H. simpl in H. injection H as H. exact H.
Qed.

Lemma members_prefix t : forall q mb, In mb (members q t) -> exists r, fst mb = q ++ r.
Proof.
  induction t as [c x|g|es IH] using tree_ind2; intros q mb Hin.
  - destruct Hin as [<-|[]]. exists []. simpl. now rewrite app_nil_r.
  - destruct Hin as [<-|[]]. exists []. simpl. now rewrite app_nil_r.
  - rewrite members_dir in Hin. destruct Hin as [<-|Hin]; [exists []; simpl; now rewrite app_nil_r|].
    induction IH as [|[n c] r Hc Hr IHr]; simpl in Hin; [contradiction|].
    apply in_app_or in Hin. destruct Hin as [Hin|Hin]; [|now apply IHr].
    simpl in Hc. destruct (Hc _ _ Hin) as [r' E]. exists (n :: r'). rewrite E. now rewrite <- app_assoc.
Qed.

Lemma members_all_prefix q es mb : In mb (members_all q es) -> exists n r, fst mb = q ++ n :: r.
Proof.
  induction es as [|[n c] r IH]; simpl; intros Hin; [contradiction|].
  apply in_app_or in Hin. destruct Hin as [Hin|Hin]; [|now apply IH].
  destruct (members_prefix c _ _ Hin) as [r' E]. exists n, r'. rewrite E. now rewrite <- app_assoc.
Qed.

(* moving the members below [s] to below [d] *)
Definition shift (d : path) (ms : list member) : list member := map (fun mb : member => (d ++ tl (fst mb), snd mb)) ms.

Lemma shift_reroot1 d s ms : shift d (reroot [s] ms) = reroot d ms.
Proof. unfold shift, reroot. rewrite map_map. apply map_ext. intros [p m]. reflexivity. Qed.

Lemma members_all_shift d s es : shift d (members_all [s] es) = members_all d es.
Proof.
  change [s] with ([s] ++ []). rewrite members_all_reroot, shift_reroot1, <- members_all_reroot. now rewrite app_nil_r.
Qed.

Lemma strip_shift d ms :
  (forall mb, In mb ms -> exists a b r, fst mb = a :: b :: r) -> reroot d (strip1' ms) = shift d ms.
Proof.
  induction ms as [|[p m] r IH]; intros H; [reflexivity|].
  unfold strip1'. simpl. fold (strip1' r).
  destruct (H (p, m) (or_introl eq_refl)) as [a [b [r' E]]]. simpl in E. subst p. simpl.
  unfold shift in *. simpl. rewrite <- IH; [reflexivity|]. intros mb Hin. apply H. now right.
Qed.

Lemma strip_is_rename d s es : reroot d (strip1' (members [s] (Dir es))) = members_all d es.
Proof.
  rewrite members_dir. unfold strip1'. simpl. fold (strip1' (members_all [s] es)).
  rewrite strip_shift; [apply members_all_shift|].
  intros mb Hin. destruct (members_all_prefix _ _ _ Hin) as [n [r E]]. exists s, n, r. exact E.
Qed.

Lemma extract_mkdir_then_children d es fs :
  extract (members_all d es) (insert fs (d, MDir)) = extract (members d (Dir es)) fs.
Proof. rewrite members_dir. reflexivity. Qed.

(* mkdir -p dst; tar x -C dst --strip-components 1  ==  extracting the tree under the new name *)
Theorem strip_extract d s es fs :
  extract (reroot d (strip1' (members [s] (Dir es)))) (insert fs (d, MDir)) = extract (members d (Dir es)) fs.
Proof. rewrite strip_is_rename. apply extract_mkdir_then_children. Qed.

(* ---------------------------------------------------------------- the extract_tar_stream loop *)
Lemma py_step_nonroot s fs dstp p m :
  is_root s p = false -> py_step s (fs, dstp) (p, m) = (insert fs (dstp ++ tl p, m), dstp).
Proof. intros H. unfold py_step. rewrite H, andb_false_r. reflexivity. Qed.

Lemma py_tail s ms : forall fs dstp,
  (forall mb, In mb ms -> is_root s (fst mb) = false) ->
  fold_left (py_step s) ms (fs, dstp) = (extract (shift dstp ms) fs, dstp).
Proof.
  induction ms as [|[p m] r IH]; intros fs dstp H; [reflexivity|].
  cbn [fold_left]. rewrite py_step_nonroot by apply (H (p, m) (or_introl eq_refl)).
  rewrite IH; [reflexivity|]. intros mb Hin. apply H. now right.
Qed.

Lemma is_root_self s : is_root s [s] = true.
Proof. simpl. apply String.eqb_refl. Qed.

Lemma not_root_children s es mb : In mb (members_all [s] es) -> is_root s (fst mb) = false.
Proof. intros Hin. destruct (members_all_prefix _ _ _ Hin) as [n [r E]]. rewrite E. reflexivity. Qed.

Lemma py_step_root_absent s dname m :
  py_step s (world dname None, [dname]) ([s], m) = (insert (world dname None) ([dname], m), [dname]).
Proof. unfold py_step, world. simpl. reflexivity. Qed.

Lemma py_step_root_dir s dname es m :
  py_step s (world dname (Some (Dir es)), [dname]) ([s], m)
  = (insert (world dname (Some (Dir es))) ([dname; s], m), match m with MDir => [dname; s] | _ => [dname] end).
Proof. unfold py_step, world. simpl. rewrite !String.eqb_refl. simpl. destruct m; reflexivity. Qed.

Theorem r2l_eq dst sname dname t' :
  (dst = None \/ exists es, dst = Some (Dir es)) ->
  r2l dst sname dname t' = extract (members (place dst sname dname) t') (world dname dst).
Proof.
  intros Hd. unfold r2l, py_extract.
  assert (Hone : forall m, fst (fold_left (py_step sname) [([sname], m)] (world dname dst, [dname]))
                           = insert (world dname dst) (place dst sname dname, m)).
  { intros m. cbn [fold_left]. destruct Hd as [->|[es ->]].
    - rewrite py_step_root_absent. reflexivity.
    - rewrite py_step_root_dir. reflexivity. }
  destruct t' as [c x|es'|g].
  - apply Hone.
  - rewrite members_dir. cbn [fold_left].
    destruct Hd as [->|[es ->]].
    + (* absent: the root member creates dst, the others go below it *)
      rewrite py_step_root_absent.
      rewrite py_tail by apply not_root_children. cbn [fst].
      rewrite members_all_shift. rewrite extract_mkdir_then_children. reflexivity.
    + (* existing directory: the root member goes inside it and dst is re-bound (fix 1583bc4) *)
      rewrite py_step_root_dir.
      rewrite py_tail by apply not_root_children. cbn [fst].
      rewrite members_all_shift.
      rewrite extract_mkdir_then_children. reflexivity.
  - apply Hone.
Qed.

(* ---------------------------------------------------------------- deref keeps trees well formed *)
Lemma wf_lookup1 n es c : wf_all es -> lookup1 n es = Some c -> wf c.
Proof.
  induction es as [|[m d] r IH]; simpl; [discriminate|]. intros [Hd Hr].
  destruct (String.eqb m n); [intros [= <-]; exact Hd | now apply IH].
Qed.

Lemma wf_lookup p : forall t u, wf t -> lookup t p = Some u -> wf u.
Proof.
  induction p as [|n p IH]; intros t u Hw; simpl; [now intros [= <-]|].
  destruct t as [c x|es|g]; try discriminate.
  destruct (lookup1 n es) as [c|] eqn:E; [|discriminate].
  apply wf_dir in Hw. destruct Hw as [_ Hall]. apply IH. eapply wf_lookup1; eassumption.
Qed.

Lemma map_opt_wf (g : string -> tree -> option tree) es es' :
  (forall n c c', In (n, c) es -> g n c = Some c' -> wf c') ->
  map_opt g es = Some es' -> names es' = names es /\ wf_all es'.
Proof.
  revert es'. induction es as [|[n c] r IH]; simpl; intros es' Hg H.
  - injection H as <-. split; [reflexivity | exact I].
  - destruct (g n c) as [c'|] eqn:E; [|discriminate].
    destruct (map_opt g r) as [r'|] eqn:Er; [|discriminate]. injection H as <-.
    destruct (IH r' (fun n0 c0 c0' Hin => Hg n0 c0 c0' (or_intror Hin)) eq_refl) as [Hn Hw].
    split; simpl; [now rewrite Hn | split; [apply (Hg n c c' (or_introl eq_refl) E) | exact Hw]].
Qed.

Lemma wf_all_in es n c : wf_all es -> In (n, c) es -> wf c.
Proof.
  induction es as [|e r IH]; simpl; [contradiction|]. intros [He Hr] [->|Hin]; [exact He | now apply IH].
Qed.

Theorem wf_deref root : wf root -> forall fuel self t t', wf t -> deref fuel root self t = Some t' -> wf t'.
Proof.
  intros Hroot. induction fuel as [|f IH]; intros self t t' Hw H; [discriminate|].
  simpl in H. destruct t as [c x|es|g].
  - injection H as <-. exact I.
  - destruct (map_opt (fun n c => deref f root (self ++ [n]) c) es) as [es'|] eqn:E; [|discriminate].
    injection H as <-. apply wf_dir in Hw. destruct Hw as [Hnd Hall].
    destruct (map_opt_wf _ es es' (fun n c c' Hin Hd => IH (self ++ [n]) c c' (wf_all_in es n c Hall Hin) Hd) E) as [Hn Hw'].
    apply wf_dir. split; [now rewrite Hn | exact Hw'].
  - destruct (norm (removelast self) g) as [p|]; [|discriminate].
    destruct (lookup root p) as [u|] eqn:El; [|discriminate].
    eapply IH; [|exact H]. exact (wf_lookup p root u Hroot El).
Qed.

Lemma deref_dir fuel root self es t' : deref fuel root self (Dir es) = Some t' -> exists es', t' = Dir es'.
Proof.
  destruct fuel; [discriminate|]. simpl. destruct (map_opt _ es) as [es'|]; [|discriminate].
  intros [= <-]. now exists es'.
Qed.

Lemma deref_file fuel root self c x t' : deref fuel root self (File c x) = Some t' -> t' = File c x.
Proof. destruct fuel; [discriminate|]. simpl. now intros [= <-]. Qed.

(* ---------------------------------------------------------------- every cell that is not refuted *)
Definition plain_file (t : tree) : bool := match t with File _ false => true | _ => false end.

(* excluded: writable local copy of a directory into an existing directory (merged into it: C22_local_merge_refuted) and a
   renamed regular file remote->other location that is executable (tee drops the bit: C22_exec_bit_refuted) *)
Definition cell_ok (r : route) (w : bool) (dst : option tree) (sname dname : string) (t : tree) : bool :=
  match r with
  | LR | RL | RRsame => true
  | LL => negb w || negb (is_dir_t t) || negb (is_dir dst)
  | RRother => is_dir dst || String.eqb sname dname || is_dir_t t || plain_file t
  end.

Lemma dst_ok_shape dst sname : dst_ok dst sname -> dst = None \/ exists es, dst = Some (Dir es).
Proof. intros [->|[es [-> _]]]; [now left | right; now exists es]. Qed.

Theorem transfer_all fuel r w dst sname dname t t' fs' :
  dst_ok dst sname -> wf t ->
  deref fuel t [] t = Some t' ->
  cell_ok r w dst sname dname t = true ->
  transfer fuel r w dst sname dname t = Some fs' ->
  exists c, lookup fs' (place dst sname dname) = Some c /\ copy_exact r w t t' c.
Proof.
  intros Hd Hw Hde Hcell Htr.
  assert (Hw' : wf t') by (eapply (wf_deref t Hw); eassumption).
  destruct (cell_proved r w dst sname dname t) eqn:Hold; [eapply transfer_core; eassumption|].
  unfold transfer in Htr. rewrite Hde in Htr. injection Htr as <-.
  destruct r; simpl in Hcell, Hold; try discriminate.
  - (* LL, writable directory, destination absent *)
    destruct w; [|discriminate]. destruct t as [c x|es|g]; try discriminate. simpl in Hcell.
    destruct (is_dir dst) eqn:Edir; [discriminate|].
    destruct (deref_dir _ _ _ _ _ Hde) as [es' ->].
    unfold local_copy. simpl negb. cbv iota. simpl is_dir_t. cbv iota.
    rewrite strip_extract. rewrite <- (not_dir_place dst sname dname Edir).
    exists (Dir es'). split; [now apply extract_at_place | cx].
  - (* RL *)
    rewrite r2l_eq by (apply (dst_ok_shape dst sname); exact Hd).
    exists t'. split; [now apply extract_at_place | cx].
  - (* RRother, destination absent, renamed *)
    destruct (is_dir dst) eqn:Edir; [discriminate|]. destruct (String.eqb sname dname) eqn:Ename; [discriminate|].
    simpl in Hcell. unfold r2r, write_command. rewrite Edir, Ename. simpl negb. cbv iota.
    destruct t as [c x|es|g]; simpl in Hcell; try discriminate.
    + (* a regular file without exec bit through tee *)
      destruct x; [discriminate|]. pose proof (deref_file _ _ _ _ _ _ Hde) as Et. subst t'. simpl is_dir_t. cbv iota.
      unfold run_wcmd, file_contents. simpl fold_right. rewrite append_nil_r.
      rewrite <- (not_dir_place dst sname dname Edir).
      exists (File c false). split; [|cx].
      change (insert (world dname dst) (place dst sname dname, MFile c false))
        with (extract (members (place dst sname dname) (File c false)) (world dname dst)).
      apply extract_at_place; [assumption | exact I].
    + (* a directory through --strip-components 1 *)
      destruct (deref_dir _ _ _ _ _ Hde) as [es' ->]. simpl is_dir_t. cbv iota. unfold run_wcmd.
      rewrite strip_extract. rewrite <- (not_dir_place dst sname dname Edir).
      exists (Dir es'). split; [now apply extract_at_place | cx].
Qed.

Theorem transfer_frame_all fuel r w es sname dname t fs' m :
  m <> sname -> cell_ok r w (Some (Dir es)) sname dname t = true ->
  transfer fuel r w (Some (Dir es)) sname dname t = Some fs' ->
  lookup fs' [dname; m] = lookup1 m es.
Proof.
  intros Hne Hcell Htr.
  destruct (cell_proved r w (Some (Dir es)) sname dname t) eqn:Hold; [eapply transfer_frame; eassumption|].
  unfold transfer in Htr. destruct (deref fuel t [] t) as [t'|]; [|discriminate]. injection Htr as <-.
  destruct r; simpl in Hcell, Hold; try discriminate.
  - destruct w; [|discriminate]. destruct (is_dir_t t); discriminate.
  - rewrite r2l_eq by (right; now exists es). unfold place. simpl is_dir. cbv iota.
    rewrite extract_members. now apply frame_at.
Qed.

Lemma copy_exact_ok r w t t' c : copy_exact r w t t' c -> copy_ok w t t' c.
Proof. unfold copy_exact, copy_ok. destruct r, w; intros ->; auto. Qed.

(* ---------------------------------------------------------------- the domain on which the tree transformers stand for the tools *)
(* [t] can be extracted over what is at a node without a kind conflict (a file where a directory has to go, or the reverse:
   there tar, tarfile and cp refuse or half-copy, and the total functions of the model do not describe them) *)
Fixpoint fits (t : tree) (o : option tree) : Prop :=
  match t with
  | Dir es =>
      match o with
      | None => True
      | Some (Dir e0) =>
          (fix all (es : list (string * tree)) : Prop :=
             match es with [] => True | e :: r => fits (snd e) (lookup1 (fst e) e0) /\ all r end) es
      | Some _ => False
      end
  | _ => match o with Some (Dir _) => False | _ => True end
  end.
(* every node on the way to [p] is a directory or missing *)
Fixpoint path_fits (p : path) (o : option tree) : Prop :=
  match p with
  | [] => True
  | n :: p' => match o with
               | None => True
               | Some (Dir es) => path_fits p' (lookup1 n es)
               | Some _ => False
               end
  end.
Definition no_conflict (p : path) (t : tree) (fs : tree) : Prop :=
  path_fits p (Some fs) /\ fits t (olookup (Some fs) p).

Lemma fits_none t : fits t None.
Proof. destruct t; exact I. Qed.

(* a destination that is absent, or a directory without an entry named like the source, is inside that domain *)
Theorem dst_ok_no_conflict dst sname dname u :
  dst_ok dst sname -> no_conflict (place dst sname dname) u (world dname dst).
Proof.
  intros Hd. split.
  - destruct Hd as [->|[es [-> Hn]]]; unfold place, world; simpl; [exact I|].
    rewrite String.eqb_refl. simpl. now destruct (lookup1 sname es).
  - rewrite nothing_at_place by exact Hd. apply fits_none.
Qed.

Theorem extract_members_dom t p fs : no_conflict p t fs -> extract (members p t) fs = at_path p (merge t) (Some fs).
Proof. intros _. apply extract_members. Qed.
Theorem strip_extract_dom d s es fs :
  no_conflict d (Dir es) fs ->
  extract (reroot d (strip1' (members [s] (Dir es)))) (insert fs (d, MDir)) = extract (members d (Dir es)) fs.
Proof. intros _. apply strip_extract. Qed.
Theorem r2l_eq_dom dst sname dname t' :
  dst_ok dst sname -> r2l dst sname dname t' = extract (members (place dst sname dname) t') (world dname dst).
Proof. intros Hd. apply r2l_eq. destruct Hd as [->|[es [-> _]]]; [now left | right; now exists es]. Qed.
Theorem transfer_frame_dom fuel r w es sname dname t fs' m :
  dst_ok (Some (Dir es)) sname ->
  m <> sname -> cell_ok r w (Some (Dir es)) sname dname t = true ->
  transfer fuel r w (Some (Dir es)) sname dname t = Some fs' ->
  lookup fs' [dname; m] = lookup1 m es.
Proof. intros _. apply transfer_frame_all. Qed.

(* outside it the model is NOT the tools: a directory "extracted" over a regular file silently becomes a directory *)
Lemma conflict_is_outside :
  ~ no_conflict ["d"; "s"] (Dir []) (Dir [("d", Dir [("s", File "old" false)])]) /\
  extract (members ["d"; "s"] (Dir [])) (Dir [("d", Dir [("s", File "old" false)])]) = Dir [("d", Dir [("s", Dir [])])].
Proof. split; [intros [_ H]; exact H | reflexivity]. Qed.

(* what [cell_ok] leaves out is exactly the two refuted cells *)
Theorem cells_excluded r w dst sname dname t :
  cell_ok r w dst sname dname t = false ->
  (r = LL /\ w = true /\ is_dir_t t = true /\ is_dir dst = true) \/
  (r = RRother /\ is_dir dst = false /\ String.eqb sname dname = false /\ is_dir_t t = false /\ plain_file t = false).
Proof.
  destruct r; simpl; try discriminate; intros H.
  - left. apply orb_false_iff in H. destruct H as [H H3]. apply orb_false_iff in H. destruct H as [H1 H2].
    repeat split; [destruct w | destruct (is_dir_t t) | destruct (is_dir dst)]; simpl in *; congruence.
  - right. apply orb_false_iff in H. destruct H as [H H4]. apply orb_false_iff in H. destruct H as [H H3].
    apply orb_false_iff in H. destruct H as [H1 H2]. repeat split; assumption.
Qed.

(* ---------------------------------------------------------------- re-transfer over an earlier copy (every recovery retry) *)
(* [t0] is what an earlier transfer of a source with the same names left: the same names in the same order, directory for
   directory and non-directory for non-directory; contents, exec bits and link texts are arbitrary (an out-of-date copy) *)
Fixpoint same_shape (t t0 : tree) : Prop :=
  match t with
  | Dir es =>
      match t0 with
      | Dir e0 =>
          (fix all (es e0 : list (string * tree)) : Prop :=
             match es, e0 with
             | [], [] => True
             | e :: r, d :: r0 => fst e = fst d /\ same_shape (snd e) (snd d) /\ all r r0
             | _, _ => False
             end) es e0
      | _ => False
      end
  | _ => match t0 with Dir _ => False | _ => True end
  end.

Fixpoint aligned (es e0 : list (string * tree)) : Prop :=
  match es, e0 with
  | [], [] => True
  | e :: r, d :: r0 => fst e = fst d /\ same_shape (snd e) (snd d) /\ aligned r r0
  | _, _ => False
  end.
Lemma same_shape_dir es e0 : same_shape (Dir es) (Dir e0) <-> aligned es e0.
Proof. simpl. reflexivity. Qed.

Lemma upd_mid n f pre d r : ~ In n (names pre) -> upd n f (pre ++ (n, d) :: r) = pre ++ (n, f (Some d)) :: r.
Proof.
  induction pre as [|[m c] pre IH]; simpl; intros H.
  - now rewrite String.eqb_refl.
  - destruct (String.eqb_spec m n); [exfalso; apply H; now left|]. rewrite IH; [reflexivity | tauto].
Qed.

Lemma merge_all_aligned es :
  Forall (fun e => forall d, same_shape (snd e) d -> merge (snd e) (Some d) = snd e) es ->
  forall e0 pre, aligned es e0 -> NoDup (names pre ++ names es) -> merge_all es (pre ++ e0) = pre ++ es.
Proof.
  induction 1 as [|[n c] r Hc Hr IH]; intros e0 pre Hal Hnd.
  - destruct e0; [reflexivity | contradiction].
  - destruct e0 as [|[m d] r0]; [contradiction|]. simpl in Hal. destruct Hal as [Hn [Hs Hal]]. subst m.
    simpl merge_all. rewrite upd_mid.
    + simpl in Hc. rewrite (Hc d Hs).
      change (pre ++ (n, c) :: r0) with (pre ++ [(n, c)] ++ r0). rewrite app_assoc. rewrite (IH r0 (pre ++ [(n, c)]) Hal).
      * now rewrite <- app_assoc.
      * unfold names in *. rewrite map_app. simpl. rewrite <- app_assoc. exact Hnd.
    + simpl in Hnd. apply NoDup_remove_2 in Hnd. intros Hin. apply Hnd. apply in_or_app. now left.
Qed.

(* extracting a tree over an earlier copy of the same shape leaves exactly the tree: every file is replaced, nothing is left over *)
Theorem merge_same_shape t : wf t -> forall t0, same_shape t t0 -> merge t (Some t0) = t.
Proof.
  induction t as [c x|g|es IH] using tree_ind2; intros Hw t0 Hs; try reflexivity.
  destruct t0 as [c0 x0|e0|g0]; try contradiction.
  apply wf_dir in Hw. destruct Hw as [Hnd Hall].
  rewrite merge_dir. simpl odir_entries. f_equal.
  apply (merge_all_aligned es) with (pre := []); [|exact Hs|exact Hnd].
  apply (wf_all_Forall (fun t => forall d, same_shape t d -> merge t (Some d) = t)); assumption.
Qed.

Definition tar_route (r : route) : bool := match r with LR | RL | RRother => true | _ => false end.

(* L->R, R->L, R->other location into a directory [es] that already holds an earlier copy [t0] of the same shape under the
   source's name: afterwards the entry is exactly the dereferenced source, and every other entry of the directory is what it was *)
Theorem retransfer_tar fuel r w es sname dname t t' t0 fs' :
  tar_route r = true -> wf t ->
  deref fuel t [] t = Some t' ->
  lookup1 sname es = Some t0 -> same_shape t' t0 ->
  transfer fuel r w (Some (Dir es)) sname dname t = Some fs' ->
  lookup fs' [dname; sname] = Some t' /\
  (forall m, m <> sname -> lookup fs' [dname; m] = lookup1 m es).
Proof.
  intros Hr Hw Hde Hl Hs Htr.
  assert (Hw' : wf t') by (eapply (wf_deref t Hw); eassumption).
  unfold transfer in Htr. rewrite Hde in Htr. injection Htr as <-.
  assert (E : match r with LL => Dir [] | LR => l2r (Some (Dir es)) sname dname t' | RL => r2l (Some (Dir es)) sname dname t'
                      | RRsame => Dir [] | RRother => r2r (Some (Dir es)) sname dname t t' end
              = extract (members [dname; sname] t') (world dname (Some (Dir es)))).
  { destruct r; try discriminate.
    - reflexivity.
    - rewrite r2l_eq by (right; now exists es). reflexivity.
    - unfold r2r, write_command. simpl is_dir. cbv iota. unfold run_wcmd.
      rewrite <- (members_reroot t' [dname] [sname]). reflexivity. }
  assert (E' : match r with LL => local_copy w (Some (Dir es)) sname dname t t' | LR => l2r (Some (Dir es)) sname dname t'
                       | RL => r2l (Some (Dir es)) sname dname t' | RRsame => same_loc w (Some (Dir es)) sname dname t
                       | RRother => r2r (Some (Dir es)) sname dname t t' end
               = extract (members [dname; sname] t') (world dname (Some (Dir es)))).
  { destruct r; try discriminate; exact E. }
  rewrite E'. rewrite extract_members. split.
  - rewrite lookup_at_path. unfold world. simpl olookup. rewrite String.eqb_refl. rewrite Hl. simpl.
    now rewrite merge_same_shape.
  - intros m Hm. now apply frame_at.
Qed.

(* ---------------------------------------------------------------- the local extraction loop with Python's errors *)
Section StopFold.
  Variables (St M : Type) (step : St -> M -> St) (bad : St -> M -> bool).
  (* the checked fold is the plain fold over the members before the first one that cannot be written; it raises exactly
     when there is such a member, and no earlier member was refused *)
  Theorem fold_chk_prefix ms : forall st,
    exists k,
      fst (fold_chk step bad ms st) = fold_left step (firstn k ms) st /\
      (snd (fold_chk step bad ms st) = false -> k = length ms) /\
      (snd (fold_chk step bad ms st) = true ->
         exists mb, nth_error ms k = Some mb /\ bad (fold_left step (firstn k ms) st) mb = true) /\
      (forall j mb, j < k -> nth_error ms j = Some mb -> bad (fold_left step (firstn j ms) st) mb = false).
  Proof.
    induction ms as [|a r IH]; intros st.
    - exists 0. simpl. repeat split; try discriminate; auto. intros j mb Hj. inversion Hj.
    - simpl. destruct (bad st a) eqn:E.
      + exists 0. simpl. repeat split; try discriminate.
        * intros _. exists a. split; [reflexivity | exact E].
        * intros j mb Hj. inversion Hj.
      + destruct (IH (step st a)) as [k [H1 [H2 [H3 H4]]]]. exists (S k). simpl. repeat split.
        * exact H1.
        * intros H. now rewrite (H2 H).
        * exact H3.
        * intros j mb Hj Hn. destruct j as [|j]; simpl in *.
          -- injection Hn as <-. exact E.
          -- apply H4; [apply Nat.succ_lt_mono; exact Hj | exact Hn].
  Qed.

  Corollary fold_chk_clean ms st : snd (fold_chk step bad ms st) = false -> fst (fold_chk step bad ms st) = fold_left step ms st.
  Proof.
    intros H. destruct (fold_chk_prefix ms st) as [k [H1 [H2 _]]]. rewrite H1, (H2 H). now rewrite firstn_all.
  Qed.
End StopFold.

(* when the loop does not raise it did what the error-free model says *)
Theorem r2l_chk_clean dst sname dname t' fs :
  r2l_chk dst sname dname t' = (fs, false) -> fs = r2l dst sname dname t'.
Proof.
  unfold r2l_chk, r2l, py_extract.
  destruct (fold_chk (py_step sname) (py_bad sname) (members [sname] t') (world dname dst, [dname])) as [st e] eqn:E.
  intros [= <- ->].
  pose proof (fold_chk_clean _ _ (py_step sname) (py_bad sname) (members [sname] t') (world dname dst, [dname])) as H.
  rewrite E in H. simpl in H. now rewrite (H eq_refl).
Qed.

(* what is there when it raises: exactly what the members before the offending one wrote *)
Theorem r2l_chk_partial dst sname dname t' fs :
  r2l_chk dst sname dname t' = (fs, true) ->
  exists k mb,
    nth_error (members [sname] t') k = Some mb /\
    fs = fst (fold_left (py_step sname) (firstn k (members [sname] t')) (world dname dst, [dname])) /\
    py_bad sname (fold_left (py_step sname) (firstn k (members [sname] t')) (world dname dst, [dname])) mb = true.
Proof.
  unfold r2l_chk.
  destruct (fold_chk (py_step sname) (py_bad sname) (members [sname] t') (world dname dst, [dname])) as [st e] eqn:E.
  intros [= <- ->].
  destruct (fold_chk_prefix _ _ (py_step sname) (py_bad sname) (members [sname] t') (world dname dst, [dname])) as [k [H1 [_ [H3 _]]]].
  rewrite E in H1, H3. simpl in H1, H3. destruct (H3 eq_refl) as [mb [Hn Hb]].
  exists k, mb. repeat split; [exact Hn | now rewrite H1 | exact Hb].
Qed.

(* witnesses: refused at the first member (nothing written), and refused later (the earlier members stay) *)
Lemma r2l_chk_witnesses :
  r2l_chk (Some (Dir [("s", File "old" false)])) "s" "d" (Dir [("a", File "x" false)])
    = (Dir [("d", Dir [("s", File "old" false)])], true) /\
  r2l_chk (Some (File "old" false)) "s" "d" (Dir [("a", File "x" false)]) = (Dir [("d", File "old" false)], true) /\
  r2l_chk (Some (Dir [("s", Dir [("in", File "old" false)])])) "s" "d" (File "x" true)
    = (Dir [("d", Dir [("s", Dir [("in", File "old" false)])])], true) /\
  r2l_chk (Some (Dir [("s", Dir [("b", Dir [])])])) "s" "d" (Dir [("a", File "x" false); ("b", File "y" false); ("c", File "z" false)])
    = (Dir [("d", Dir [("s", Dir [("b", Dir []); ("a", File "x" false)])])], true) /\
  r2l_chk (Some (Dir [])) "s" "d" (Dir [("a", File "x" false)]) = (Dir [("d", Dir [("s", Dir [("a", File "x" false)])])], false).
Proof. vm_compute. repeat split. Qed.
