(* FsTree/Paths.v — path strings vs. the component lists FsTree/Model.v works with.  Uses the PurePosixPath / posixpath
   fragment of Tags (imported, not edited): abs_path, pp_parts, pp_parent/pp_name (= posixpath.split on normalised absolute
   paths), posix_join.  A component is "good" when it is non-empty, not "." and has no "/" (".." never occurs: the harness
   and StreamFlow pass resolved paths). *)
From Coq Require Import Bool Ascii.
From SF Require Import Base.Str Tags.Model Tags.Proofs.
Import ListNotations.
Local Open Scope string_scope. Local Open Scope list_scope.

(* member names inside an archive are relative: "s/sub/k" *)
Definition member_name (p : list string) : string := join "/" p.

(* posixpath.relpath(member.path, basename(src)) for a member that is basename(src) or lies below it, as a component list
   ([] stands for ".") *)
Definition relpath_parts (member base : string) : list string :=
  match split_on "/"%char member with
  | x :: r => if String.eqb x base then r else x :: r
  | [] => []
  end.

(* the string of an absolute path determines its components, and back *)
Theorem abs_path_parts p : p <> [] -> (forall c, In c p -> good_comp c) -> pp_parts (abs_path p) = p.
Proof. exact (pp_parts_abs p). Qed.

(* posixpath.join(dst, basename(src)) is the path [dst ++ [name]]; posixpath.split of it gives back (dst, name):
   get_local_to_remote_destination, `loc_dst_path /= src_path.name`, and `tar chf - -C *posixpath.split(src)` *)
Theorem join_split dp n :
  (forall c, In c dp -> good_comp c) -> good_comp n ->
  posix_join (abs_path dp) n = abs_path (dp ++ [n]) /\
  pp_parent (abs_path (dp ++ [n])) = abs_path dp /\
  pp_name (abs_path (dp ++ [n])) = n.
Proof.
  intros Hd Hn. pose proof (job_name_split dp n Hd Hn) as [H1 H2].
  rewrite posix_join_abs in H1, H2 by assumption. unfold job_step_name in H1. unfold job_tag in H2.
  repeat split; [now apply posix_join_abs | exact H1 | exact H2].
Qed.

(* extract_tar_stream's relpath(member.path, basename(src)) drops the first component: [tl] in FsTree.Model.py_step *)
Theorem member_relpath s rest :
  (forall c, In c (s :: rest) -> good_comp c) ->
  relpath_parts (member_name (s :: rest)) s = rest.
Proof.
  intros H. unfold relpath_parts, member_name.
  rewrite (split_join "/"%char) by (try discriminate; now apply good_noslash).
  now rewrite String.eqb_refl.
Qed.

Theorem path_strings dp n s rest :
  (forall c, In c dp -> good_comp c) -> good_comp n ->
  (forall c, In c (s :: rest) -> good_comp c) ->
  pp_parts (abs_path (dp ++ [n])) = dp ++ [n] /\
  posix_join (abs_path dp) n = abs_path (dp ++ [n]) /\
  pp_parent (abs_path (dp ++ [n])) = abs_path dp /\
  pp_name (abs_path (dp ++ [n])) = n /\
  relpath_parts (member_name (s :: rest)) s = rest.
Proof.
  intros Hd Hn Hs. destruct (join_split dp n Hd Hn) as [H1 [H2 H3]].
  repeat split; try assumption; [|now apply member_relpath].
  apply abs_path_parts; [destruct dp; discriminate|].
  intros c Hc. apply in_app_or in Hc. destruct Hc as [Hc|[<-|[]]]; auto.
Qed.
