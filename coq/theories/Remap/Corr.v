(* Remap/Corr.v — correspondence cases for Remap/Model.v (used by the C32 check). *)
From Coq Require Import List Bool NArith.
From SF Require Import Base.Str Base.Corr.
From SF Require Export Remap.Model.   (* the generated case files name its constructors *)
Import ListNotations.

Fixpoint jv_eqb (a b : jv) : bool :=
  match a, b with
  | JAtom x, JAtom y => String.eqb x y
  | JStr x, JStr y => String.eqb x y
  | JList x, JList y => jvs_eqb x y
  | JObj x, JObj y => jfields_eqb x y
  | _, _ => false
  end
with jvs_eqb (a b : jvs) : bool :=
  match a, b with
  | VNil, VNil => true
  | VCons x a', VCons y b' => jv_eqb x y && jvs_eqb a' b'
  | _, _ => false
  end
with jfields_eqb (a b : jfields) : bool :=
  match a, b with
  | FNil, FNil => true
  | FCons k x a', FCons k' y b' => String.eqb k k' && jv_eqb x y && jfields_eqb a' b'
  | _, _ => false
  end.

Inductive ccase :=
(* remap_path(old -> new) of p observed as r1 (None = ValueError), then remap_path(new -> old) of r1 = r2 *)
| CPath (old new p : string) (r1 r2 : option string)
(* the same for remap_token_value on a whole CWL value *)
| CValue (old new : string) (v : jv) (r1 r2 : option jv).

Definition check_case (c : ccase) : bool :=
  match c with
  | CPath old new p r1 r2 =>
      opt_eqb String.eqb (remap_path old new p) r1
      && match r1 with Some p1 => opt_eqb String.eqb (remap_path new old p1) r2 | None => true end
  | CValue old new v r1 r2 =>
      opt_eqb jv_eqb (remap_token_value old new v) r1
      && match r1 with Some v1 => opt_eqb jv_eqb (remap_token_value new old v1) r2 | None => true end
  end.
