(* Remap/Model.v — model of streamflow.cwl.utils.remap_path / remap_token_value on byte strings
   (a Python str is represented by its UTF-8 bytes).
   ANCHORS: streamflow.cwl.utils.remap_path, streamflow.cwl.utils.remap_token_value,
            streamflow.cwl.utils.get_token_class
   Definitions only.  [remap_path] mirrors the code AFTER the fixes (plain paths are not percent-decoded;
   file:// locations are decoded, remapped and re-encoded with urllib.parse.quote; a string containing ":/"
   is a URL only if urlsplit finds a scheme in front of it); [remap_path_before_colon_fix] lacks the last;
   [remap_path_before_fix] is the code before it.
   Library functions modelled here, for the stated domains only:
     urllib.parse.unquote / quote (byte level; the decoded bytes must be valid UTF-8 for the Python str
       result to have these bytes), urlsplit(..).scheme (no control characters, no leading blanks),
     os.path.relpath for ABSOLUTE path and start (a relative one needs os.getcwd(): answer None),
     posixpath.join. *)
From Coq Require Import List Bool Ascii NArith.
From SF Require Import Base.Str Tags.Model.
Import ListNotations.
Local Open Scope string_scope. Local Open Scope list_scope.

(* ---- percent encoding ---- *)
Definition hexval (a : ascii) : option N :=
  let n := N_of_ascii a in
  if (48 <=? n)%N && (n <=? 57)%N then Some (n - 48)%N
  else if (65 <=? n)%N && (n <=? 70)%N then Some (n - 55)%N
  else if (97 <=? n)%N && (n <=? 102)%N then Some (n - 87)%N
  else None.

(* urllib.parse.unquote: "%" followed by two hex digits is one byte, any other "%" stays *)
Fixpoint unquote (s : string) : string :=
  match s with
  | EmptyString => EmptyString
  | String c t =>
      if Ascii.eqb c "%" then
        match t with
        | String a (String b r) =>
            match hexval a, hexval b with
            | Some x, Some y => String (ascii_of_N (16 * x + y)) (unquote r)
            | _, _ => String c (unquote t)
            end
        | _ => String c (unquote t)
        end
      else String c (unquote t)
  end.

Definition hexdigit (n : N) : ascii :=
  if (n <? 10)%N then ascii_of_N (48 + n) else ascii_of_N (55 + n).

(* quote's default safe set: letters, digits, "_.-~" and "/" *)
Definition is_safe (a : ascii) : bool :=
  let n := N_of_ascii a in
  ((48 <=? n) && (n <=? 57) || (65 <=? n) && (n <=? 90) || (97 <=? n) && (n <=? 122)
   || (n =? 95) || (n =? 46) || (n =? 45) || (n =? 126) || (n =? 47))%N.

Fixpoint quote (s : string) : string :=
  match s with
  | EmptyString => EmptyString
  | String c t =>
      if is_safe c then String c (quote t)
      else let n := N_of_ascii c in
           String "%" (String (hexdigit (n / 16)) (String (hexdigit (n mod 16)) (quote t)))
  end.

(* ---- ":/" in path ;  urlsplit(path).scheme ---- *)
Fixpoint has_colon_slash (s : string) : bool :=
  match s with
  | String ":" ((String "/" _) as t) => true
  | String _ t => has_colon_slash t
  | EmptyString => false
  end.

Definition is_alpha (a : ascii) : bool :=
  let n := N_of_ascii a in ((65 <=? n) && (n <=? 90) || (97 <=? n) && (n <=? 122))%N.
Definition is_scheme_char (a : ascii) : bool :=
  let n := N_of_ascii a in
  (is_alpha a || (48 <=? n) && (n <=? 57) || (n =? 43) || (n =? 45) || (n =? 46))%N.
Definition lower (a : ascii) : ascii :=
  let n := N_of_ascii a in if ((65 <=? n) && (n <=? 90))%N then ascii_of_N (n + 32) else a.

(* the characters before the first ":", lower-cased, if they are all scheme characters *)
Fixpoint scheme_prefix (s : string) : option string :=
  match s with
  | EmptyString => None
  | String c t =>
      if Ascii.eqb c ":" then Some EmptyString
      else if is_scheme_char c then option_map (String (lower c)) (scheme_prefix t) else None
  end.
Definition scheme_of (s : string) : string :=
  match s with
  | String c _ => if is_alpha c then match scheme_prefix s with Some p => p | None => "" end else ""
  | EmptyString => ""
  end.

Fixpoint drop (n : nat) (s : string) : string :=
  match n, s with
  | S n', String _ t => drop n' t
  | _, _ => s
  end.

(* ---- os.path.relpath(path, start) for absolute arguments ---- *)
Definition is_abs (s : string) : bool := match s with String "/" _ => true | _ => false end.

(* normpath's loop on an absolute path: "" and "." skipped, ".." pops (dropped at the root) *)
Definition norm_step (stack : list string) (c : string) : list string :=
  if String.eqb c "" || String.eqb c "." then stack
  else if String.eqb c ".." then removelast stack
  else stack ++ [c].
Definition norm_comps (p : string) : list string := fold_left norm_step (split_on "/" p) [].

(* [pardir] * (len(start_list) - i) + path_list[i:], i = length of the common prefix *)
Fixpoint rel_list (start path : list string) : list string :=
  match start, path with
  | s :: ss, p :: ps => if String.eqb s p then rel_list ss ps else repeat ".." (List.length start) ++ path
  | [], _ => path
  | _, [] => repeat ".." (List.length start)
  end.
Definition relpath (path start : string) : string :=
  match rel_list (norm_comps start) (norm_comps path) with
  | [] => "."
  | l => join "/" l
  end.

(* posixpath.join(a, *p) *)
Definition join_step (path b : string) : string :=
  match b with
  | String "/" _ => b
  | _ => if String.eqb path "" || ends_with_slash path then String.append path b
         else String.append path (String "/" b)
  end.
Definition pjoin (a : string) (ps : list string) : string := fold_left join_step ps a.

(* path_processor.join(new_dir, *os.path.relpath(p, old_dir).split(os.path.sep)) ;
   None: relpath raises ValueError on "" / a relative argument would need os.getcwd() *)
Definition remap_plain (old_dir new_dir p : string) : option string :=
  if is_abs p && is_abs old_dir then Some (pjoin new_dir (split_on "/" (relpath p old_dir))) else None.

(* remap_path, repaired code (both fixes):
   if ":/" in path and (scheme := urlsplit(path).scheme): file -> remap the decoded path and re-encode,
   other scheme -> unchanged;  else (no ":/", or no scheme in front of it) -> a plain path *)
Definition remap_path (old_dir new_dir path : string) : option string :=
  if has_colon_slash path && negb (String.eqb (scheme_of path) "") then
    if String.eqb (scheme_of path) "file" then
      option_map (fun p => String.append "file://" (quote p)) (remap_plain old_dir new_dir (unquote (drop 7 path)))
    else Some path
  else remap_plain old_dir new_dir path.

(* remap_path after the percent fix but before the ":/" fix: every string containing ":/" is a URL *)
Definition remap_path_before_colon_fix (old_dir new_dir path : string) : option string :=
  if has_colon_slash path then
    if String.eqb (scheme_of path) "file" then
      option_map (fun p => String.append "file://" (quote p)) (remap_plain old_dir new_dir (unquote (drop 7 path)))
    else Some path
  else remap_plain old_dir new_dir path.

(* remap_path before the fix: unquote on plain paths too, no re-encoding of file:// locations *)
Definition remap_path_before_fix (old_dir new_dir path : string) : option string :=
  if has_colon_slash path then
    if String.eqb (scheme_of path) "file" then
      option_map (String.append "file://") (remap_plain old_dir new_dir (unquote (drop 7 path)))
    else Some path
  else remap_plain old_dir new_dir (unquote path).

(* ---- CWL values ---- *)
Inductive jv :=
| JAtom (repr : string)            (* null, booleans, numbers: opaque *)
| JStr (s : string)
| JList (l : jvs)
| JObj (o : jfields)
with jvs := VNil | VCons (v : jv) (l : jvs)
with jfields := FNil | FCons (k : string) (v : jv) (o : jfields).

Fixpoint get_field (k : string) (o : jfields) : option jv :=
  match o with
  | FNil => None
  | FCons k' v r => if String.eqb k k' then Some v else get_field k r
  end.

(* get_token_class: value.get("class", value.get("type")) is "File" or "Directory" *)
Definition is_file_class (o : jfields) : bool :=
  match (match get_field "class" o with Some c => Some c | None => get_field "type" o end) with
  | Some (JStr c) => String.eqb c "File" || String.eqb c "Directory"
  | _ => false
  end.

Section Remap.
  Variable rp : string -> option string.     (* remap_path old_dir new_dir *)

  Fixpoint remap_v (v : jv) : option jv :=
    match v with
    | JList l => option_map JList (remap_vs l)
    | JObj o => option_map JObj (if is_file_class o then remap_file o else remap_rec o)
    | _ => Some v
    end
  with remap_vs (l : jvs) : option jvs :=
    match l with
    | VNil => Some VNil
    | VCons v r => match remap_v v, remap_vs r with
                   | Some v', Some r' => Some (VCons v' r') | _, _ => None end
    end
  (* {k: remap_token_value(v) for k, v in value.items()} *)
  with remap_rec (o : jfields) : option jfields :=
    match o with
    | FNil => Some FNil
    | FCons k v r => match remap_v v, remap_rec r with
                     | Some v', Some r' => Some (FCons k v' r') | _, _ => None end
    end
  (* the File/Directory case: location, path, secondaryFiles, listing are replaced in place, every
     other field is left alone; None: a non-string location/path or a non-list secondaryFiles/listing *)
  with remap_file (o : jfields) : option jfields :=
    match o with
    | FNil => Some FNil
    | FCons k v r =>
        let v' := if String.eqb k "location" || String.eqb k "path" then
                    match v with JStr s => option_map JStr (rp s) | _ => None end
                  else if String.eqb k "secondaryFiles" || String.eqb k "listing" then
                    match v with JList l => option_map JList (remap_vs l) | _ => None end
                  else Some v in
        match v', remap_file r with
        | Some v'', Some r' => Some (FCons k v'' r') | _, _ => None end
    end.
End Remap.

Definition remap_token_value (old_dir new_dir : string) (v : jv) : option jv :=
  remap_v (remap_path old_dir new_dir) v.
