(* Remap/Proofs.v — lemmas about Remap/Model.v. *)
From Coq Require Import List Bool Ascii NArith Lia.
From SF Require Import Base.Str Tags.Model Remap.Model.
Import ListNotations.
Local Open Scope string_scope. Local Open Scope list_scope.

(* ---------- percent encoding round trip, for every byte string ---------- *)
Lemma safe_not_percent c : is_safe c = true -> Ascii.eqb c "%" = false.
Proof. destruct c as [[] [] [] [] [] [] [] []]; vm_compute; congruence. Qed.

Lemma hex_byte c :
  hexval (hexdigit (N_of_ascii c / 16)) = Some (N_of_ascii c / 16)%N /\
  hexval (hexdigit (N_of_ascii c mod 16)) = Some (N_of_ascii c mod 16)%N /\
  ascii_of_N (16 * (N_of_ascii c / 16) + N_of_ascii c mod 16) = c.
Proof. destruct c as [[] [] [] [] [] [] [] []]; vm_compute; repeat split; reflexivity. Qed.

Lemma unquote_quote s : unquote (quote s) = s.
Proof.
  induction s as [|c s IH]; [reflexivity|].
  cbn [quote]. destruct (is_safe c) eqn:S.
  - cbn [unquote]. rewrite (safe_not_percent c S). rewrite IH. reflexivity.
  - destruct (hex_byte c) as (H1 & H2 & H3).
    cbn [unquote]. change (Ascii.eqb "%" "%") with true. cbv iota.
    rewrite H1, H2, H3, IH. reflexivity.
Qed.

(* ---------- paths as lists of components ---------- *)
Definition good (c : string) : bool :=
  negb (String.eqb c "") && negb (String.eqb c ".") && negb (String.eqb c "..")
  && negb (has_char "/" c).
Definition abs (l : list string) : string := String "/" (join "/" l).

Lemma good_noslash l : forallb good l = true -> forallb (fun x => negb (has_char "/" x)) l = true.
Proof.
  induction l as [|c l IH]; simpl; [reflexivity|]. intros H.
  apply andb_true_iff in H. destruct H as [Hc Hl]. rewrite (IH Hl), andb_true_r.
  unfold good in Hc. apply andb_true_iff in Hc. destruct Hc as [_ Hc]. exact Hc.
Qed.

Lemma norm_good l : forall acc, forallb good l = true -> fold_left norm_step l acc = acc ++ l.
Proof.
  induction l as [|c l IH]; intros acc H; simpl; [rewrite app_nil_r; reflexivity|].
  simpl in H. apply andb_true_iff in H. destruct H as [Hc Hl].
  unfold good in Hc. repeat (apply andb_true_iff in Hc; destruct Hc as [Hc ?]).
  unfold norm_step at 2.
  apply negb_true_iff in Hc. rewrite Hc.
  match goal with H : negb (String.eqb c ".") = true |- _ => apply negb_true_iff in H; rewrite H end.
  match goal with H : negb (String.eqb c "..") = true |- _ => apply negb_true_iff in H; rewrite H end.
  simpl. rewrite IH by exact Hl. rewrite <- app_assoc. reflexivity.
Qed.

Lemma norm_abs l : forallb good l = true -> norm_comps (abs l) = l.
Proof.
  intros H. unfold norm_comps, abs. cbn [split_on]. change (Ascii.eqb "/" "/") with true. cbv iota.
  destruct l as [|c l].
  - reflexivity.
  - change (String "/" EmptyString) with (sep1 "/").
    rewrite split_join; [|discriminate|apply good_noslash; exact H].
    cbn [fold_left]. unfold norm_step at 2. simpl. apply (norm_good (c :: l) [] H).
Qed.

Lemma rel_list_under old comps : rel_list old (old ++ comps) = comps.
Proof. induction old as [|c old IH]; simpl; [reflexivity|]. rewrite String.eqb_refl. exact IH. Qed.

Lemma forallb_app' {A} (p : A -> bool) a b : forallb p (a ++ b) = forallb p a && forallb p b.
Proof. induction a; simpl; [reflexivity|]. rewrite IHa. apply andb_assoc. Qed.

Lemma relpath_under old comps :
  forallb good old = true -> forallb good comps = true -> comps <> [] ->
  split_on "/" (relpath (abs (old ++ comps)) (abs old)) = comps.
Proof.
  intros Ho Hc Hne. unfold relpath.
  rewrite (norm_abs old Ho). rewrite norm_abs by (rewrite forallb_app', Ho, Hc; reflexivity).
  rewrite rel_list_under. destruct comps as [|c comps]; [congruence|].
  change (String "/" EmptyString) with (sep1 "/").
  apply split_join; [discriminate|apply good_noslash; exact Hc].
Qed.

Lemma noslash_not_ends s : has_char "/" s = false -> ends_with_slash s = false.
Proof.
  induction s as [|a s IH]; simpl; [reflexivity|]. intros H.
  apply orb_false_iff in H. destruct H as [Ha Hs].
  destruct s; [exact Ha|apply IH; exact Hs].
Qed.

Lemma ends_append a b : b <> EmptyString -> ends_with_slash (String.append a b) = ends_with_slash b.
Proof.
  intros Hb. induction a as [|x a IH]; [reflexivity|].
  simpl. destruct (String.append a b) eqn:E.
  - destruct a; simpl in E; [congruence|discriminate].
  - exact IH.
Qed.

Lemma good_facts c : good c = true -> c <> EmptyString /\ has_char "/" c = false.
Proof.
  unfold good. intros H. repeat (apply andb_true_iff in H; destruct H as [H ?]).
  split.
  - intros E. subst c. discriminate.
  - match goal with H : negb (has_char _ _) = true |- _ => apply negb_true_iff in H; exact H end.
Qed.

Lemma abs_not_ends l : forallb good l = true -> l <> [] -> ends_with_slash (abs l) = false.
Proof.
  intros H Hne. destruct (exists_last Hne) as (l' & c & E). subst l.
  rewrite forallb_app' in H. apply andb_true_iff in H. destruct H as [_ Hc]. simpl in Hc.
  rewrite andb_true_r in Hc. destruct (good_facts c Hc) as [Hne' Hns].
  unfold abs. destruct l' as [|d l'].
  - cbn [app join]. change (String "/" c) with (String.append "/" c).
    rewrite ends_append by exact Hne'. apply noslash_not_ends. exact Hns.
  - rewrite join_snoc by discriminate.
    change (String "/" (String.append (join "/" (d :: l')) (String.append "/" c)))
      with (String.append (String "/" (join "/" (d :: l'))) (String.append "/" c)).
    rewrite <- append_assoc. rewrite ends_append by exact Hne'. apply noslash_not_ends. exact Hns.
Qed.

Lemma join_step_abs l c :
  forallb good l = true -> good c = true -> join_step (abs l) c = abs (l ++ [c]).
Proof.
  intros Hl Hc. destruct (good_facts c Hc) as [Hne Hns]. unfold join_step.
  destruct c as [|a c]; [congruence|].
  destruct (Ascii.eqb_spec a "/") as [->|Ha].
  - simpl in Hns. discriminate.
  - assert (M : match String a c with String "/" _ => String a c | _ =>
                  if String.eqb (abs l) "" || ends_with_slash (abs l)
                  then String.append (abs l) (String a c)
                  else String.append (abs l) (String "/" (String a c)) end
                = if String.eqb (abs l) "" || ends_with_slash (abs l)
                  then String.append (abs l) (String a c)
                  else String.append (abs l) (String "/" (String a c))).
    { destruct a as [[] [] [] [] [] [] [] []]; try reflexivity. exfalso. apply Ha. reflexivity. }
    rewrite M. clear M. destruct l as [|d l].
    + reflexivity.
    + rewrite abs_not_ends by (exact Hl || discriminate). simpl orb. cbv iota.
      unfold abs. rewrite join_snoc by discriminate. reflexivity.
Qed.

Lemma pjoin_abs comps : forall l,
  forallb good l = true -> forallb good comps = true -> pjoin (abs l) comps = abs (l ++ comps).
Proof.
  induction comps as [|c comps IH]; intros l Hl Hc; unfold pjoin in *; cbn [fold_left].
  - rewrite app_nil_r. reflexivity.
  - cbn [forallb] in Hc. apply andb_true_iff in Hc. destruct Hc as [Hc Hcs].
    rewrite join_step_abs by assumption. rewrite IH.
    + rewrite <- app_assoc. reflexivity.
    + rewrite forallb_app', Hl. cbn [forallb]. rewrite Hc. reflexivity.
    + exact Hcs.
Qed.

Lemma remap_plain_under old new comps :
  forallb good old = true -> forallb good new = true -> forallb good comps = true -> comps <> [] ->
  remap_plain (abs old) (abs new) (abs (old ++ comps)) = Some (abs (new ++ comps)).
Proof.
  intros Ho Hn Hc Hne. unfold remap_plain. simpl andb. cbv iota.
  rewrite relpath_under by assumption. rewrite pjoin_abs by assumption. reflexivity.
Qed.

(* ---------- remap_path ---------- *)
Lemma scheme_abs l : scheme_of (abs l) = "".
Proof. reflexivity. Qed.

Theorem remap_path_plain old new comps :
  forallb good old = true -> forallb good new = true -> forallb good comps = true -> comps <> [] ->
  has_colon_slash (abs (old ++ comps)) = false ->
  remap_path (abs old) (abs new) (abs (old ++ comps)) = Some (abs (new ++ comps)).
Proof.
  intros Ho Hn Hc Hne Hcs. unfold remap_path. rewrite Hcs. apply remap_plain_under; assumption.
Qed.

Definition file_loc (l : list string) : string := String.append "file://" (quote (abs l)).

Theorem remap_path_file old new comps :
  forallb good old = true -> forallb good new = true -> forallb good comps = true -> comps <> [] ->
  remap_path (abs old) (abs new) (file_loc (old ++ comps)) = Some (file_loc (new ++ comps)).
Proof.
  intros Ho Hn Hc Hne. unfold remap_path, file_loc.
  change (has_colon_slash (String.append "file://" (quote (abs (old ++ comps))))) with true.
  change (scheme_of (String.append "file://" (quote (abs (old ++ comps))))) with "file".
  change (drop 7 (String.append "file://" (quote (abs (old ++ comps))))) with (quote (abs (old ++ comps))).
  simpl String.eqb. cbv iota. rewrite unquote_quote.
  rewrite remap_plain_under by assumption. reflexivity.
Qed.

Theorem roundtrip_plain old new comps :
  forallb good old = true -> forallb good new = true -> forallb good comps = true -> comps <> [] ->
  has_colon_slash (abs (old ++ comps)) = false -> has_colon_slash (abs (new ++ comps)) = false ->
  exists p', remap_path (abs old) (abs new) (abs (old ++ comps)) = Some p' /\
             remap_path (abs new) (abs old) p' = Some (abs (old ++ comps)).
Proof.
  intros Ho Hn Hc Hne H1 H2. exists (abs (new ++ comps)).
  split; apply remap_path_plain; assumption.
Qed.

Theorem roundtrip_file old new comps :
  forallb good old = true -> forallb good new = true -> forallb good comps = true -> comps <> [] ->
  exists p', remap_path (abs old) (abs new) (file_loc (old ++ comps)) = Some p' /\
             remap_path (abs new) (abs old) p' = Some (file_loc (old ++ comps)).
Proof.
  intros Ho Hn Hc Hne. exists (file_loc (new ++ comps)).
  split; apply remap_path_file; assumption.
Qed.

Theorem other_scheme_unchanged old new p :
  has_colon_slash p = true -> scheme_of p <> "file" -> remap_path old new p = Some p.
Proof.
  intros H1 H2. unfold remap_path. rewrite H1.
  destruct (String.eqb_spec (scheme_of p) "file"); [congruence|reflexivity].
Qed.
