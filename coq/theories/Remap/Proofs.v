(* Remap/Proofs.v — lemmas about Remap/Model.v. *)
From Coq Require Import List Bool Ascii NArith Lia.
From SF Require Import Base.Str Tags.Model Remap.Model.
Import ListNotations.
Local Open Scope string_scope. Local Open Scope list_scope.

(* ---------- percent encoding round trip, for every byte string ---------- *)
Lemma safe_not_percent c : is_safe c = true -> Ascii.eqb c "%" = false.
Proof. destruct c as [[] [] [] [] [] [] [] []]; vm_compute; congruence. Qed.

Lemma hex_byte c :
  hexval (hexdigit (N_of_ascii c / 16)) = Some (N_of_ascii c / 16)%N /\
  hexval (hexdigit (N_of_ascii c mod 16)) = Some (N_of_ascii c mod 16)%N /\
  ascii_of_N (16 * (N_of_ascii c / 16) + N_of_ascii c mod 16) = c.
Proof. destruct c as [[] [] [] [] [] [] [] []]; vm_compute; repeat split; reflexivity. Qed.

Lemma unquote_quote s : unquote (quote s) = s.
Proof.
  induction s as [|c s IH]; [reflexivity|].
  cbn [quote]. destruct (is_safe c) eqn:S.
  - cbn [unquote]. rewrite (safe_not_percent c S). rewrite IH. reflexivity.
  - destruct (hex_byte c) as (H1 & H2 & H3).
    cbn [unquote]. change (Ascii.eqb "%" "%") with true. cbv iota.
    rewrite H1, H2, H3, IH. reflexivity.
Qed.

(* ---------- paths as lists of components ---------- *)
Definition good (c : string) : bool :=
  negb (String.eqb c "") && negb (String.eqb c ".") && negb (String.eqb c "..")
  && negb (has_char "/" c).
Definition abs (l : list string) : string := String "/" (join "/" l).

Lemma good_noslash l : forallb good l = true -> forallb (fun x => negb (has_char "/" x)) l = true.
Proof.
  induction l as [|c l IH]; simpl; [reflexivity|]. intros H.
  apply andb_true_iff in H. destruct H as [Hc Hl]. rewrite (IH Hl), andb_true_r.
  unfold good in Hc. apply andb_true_iff in Hc. destruct Hc as [_ Hc]. exact Hc.
Qed.

Lemma norm_good l : forall acc, forallb good l = true -> fold_left norm_step l acc = acc ++ l.
Proof.
  induction l as [|c l IH]; intros acc H; simpl; [rewrite app_nil_r; reflexivity|].
  simpl in H. apply andb_true_iff in H. destruct H as [Hc Hl].
  unfold good in Hc. repeat (apply andb_true_iff in Hc; destruct Hc as [Hc ?]).
  unfold norm_step at 2.
  apply negb_true_iff in Hc. rewrite Hc.
  match goal with H : negb (String.eqb c ".") = true |- _ => apply negb_true_iff in H; rewrite H end.
  match goal with H : negb (String.eqb c "..") = true |- _ => apply negb_true_iff in H; rewrite H end.
  simpl. rewrite IH by exact Hl. rewrite <- app_assoc. reflexivity.
Qed.

Lemma norm_abs l : forallb good l = true -> norm_comps (abs l) = l.
Proof.
  intros H. unfold norm_comps, abs. cbn [split_on]. change (Ascii.eqb "/" "/") with true. cbv iota.
  destruct l as [|c l].
  - reflexivity.
  - change (String "/" EmptyString) with (sep1 "/").
    rewrite split_join; [|discriminate|apply good_noslash; exact H].
    cbn [fold_left]. unfold norm_step at 2. simpl. apply (norm_good (c :: l) [] H).
Qed.

Lemma rel_list_under old comps : rel_list old (old ++ comps) = comps.
Proof. induction old as [|c old IH]; simpl; [reflexivity|]. rewrite String.eqb_refl. exact IH. Qed.

Lemma forallb_app' {A} (p : A -> bool) a b : forallb p (a ++ b) = forallb p a && forallb p b.
Proof. induction a; simpl; [reflexivity|]. rewrite IHa. apply andb_assoc. Qed.

Lemma relpath_under old comps :
  forallb good old = true -> forallb good comps = true -> comps <> [] ->
  split_on "/" (relpath (abs (old ++ comps)) (abs old)) = comps.
Proof.
  intros Ho Hc Hne. unfold relpath.
  rewrite (norm_abs old Ho). rewrite norm_abs by (rewrite forallb_app', Ho, Hc; reflexivity).
  rewrite rel_list_under. destruct comps as [|c comps]; [congruence|].
  change (String "/" EmptyString) with (sep1 "/").
  apply split_join; [discriminate|apply good_noslash; exact Hc].
Qed.

Lemma noslash_not_ends s : has_char "/" s = false -> ends_with_slash s = false.
Proof.
  induction s as [|a s IH]; simpl; [reflexivity|]. intros H.
  apply orb_false_iff in H. destruct H as [Ha Hs].
  destruct s; [exact Ha|apply IH; exact Hs].
Qed.

Lemma ends_append a b : b <> EmptyString -> ends_with_slash (String.append a b) = ends_with_slash b.
Proof.
  intros Hb. induction a as [|x a IH]; [reflexivity|].
  simpl. destruct (String.append a b) eqn:E.
  - destruct a; simpl in E; [congruence|discriminate].
  - exact IH.
Qed.

Lemma good_facts c : good c = true -> c <> EmptyString /\ has_char "/" c = false.
Proof.
  unfold good. intros H. repeat (apply andb_true_iff in H; destruct H as [H ?]).
  split.
  - intros E. subst c. discriminate.
  - match goal with H : negb (has_char _ _) = true |- _ => apply negb_true_iff in H; exact H end.
Qed.

Lemma abs_not_ends l : forallb good l = true -> l <> [] -> ends_with_slash (abs l) = false.
Proof.
  intros H Hne. destruct (exists_last Hne) as (l' & c & E). subst l.
  rewrite forallb_app' in H. apply andb_true_iff in H. destruct H as [_ Hc]. simpl in Hc.
  rewrite andb_true_r in Hc. destruct (good_facts c Hc) as [Hne' Hns].
  unfold abs. destruct l' as [|d l'].
  - cbn [app join]. change (String "/" c) with (String.append "/" c).
    rewrite ends_append by exact Hne'. apply noslash_not_ends. exact Hns.
  - rewrite join_snoc by discriminate.
    change (String "/" (String.append (join "/" (d :: l')) (String.append "/" c)))
      with (String.append (String "/" (join "/" (d :: l'))) (String.append "/" c)).
    rewrite <- append_assoc. rewrite ends_append by exact Hne'. apply noslash_not_ends. exact Hns.
Qed.

Lemma join_step_abs l c :
  forallb good l = true -> good c = true -> join_step (abs l) c = abs (l ++ [c]).
Proof.
  intros Hl Hc. destruct (good_facts c Hc) as [Hne Hns]. unfold join_step.
  destruct c as [|a c]; [congruence|].
  destruct (Ascii.eqb_spec a "/") as [->|Ha].
  - simpl in Hns. discriminate.
  - assert (M : match String a c with String "/" _ => String a c | _ =>
                  if String.eqb (abs l) "" || ends_with_slash (abs l)
                  then String.append (abs l) (String a c)
                  else String.append (abs l) (String "/" (String a c)) end
                = if String.eqb (abs l) "" || ends_with_slash (abs l)
                  then String.append (abs l) (String a c)
                  else String.append (abs l) (String "/" (String a c))).
    { destruct a as [[] [] [] [] [] [] [] []]; try reflexivity. exfalso. apply Ha. reflexivity. }
    rewrite M. clear M. destruct l as [|d l].
    + reflexivity.
    + rewrite abs_not_ends by (exact Hl || discriminate). simpl orb. cbv iota.
      unfold abs. rewrite join_snoc by discriminate. reflexivity.
Qed.

Lemma pjoin_abs comps : forall l,
  forallb good l = true -> forallb good comps = true -> pjoin (abs l) comps = abs (l ++ comps).
Proof.
  induction comps as [|c comps IH]; intros l Hl Hc; unfold pjoin in *; cbn [fold_left].
  - rewrite app_nil_r. reflexivity.
  - cbn [forallb] in Hc. apply andb_true_iff in Hc. destruct Hc as [Hc Hcs].
    rewrite join_step_abs by assumption. rewrite IH.
    + rewrite <- app_assoc. reflexivity.
    + rewrite forallb_app', Hl. cbn [forallb]. rewrite Hc. reflexivity.
    + exact Hcs.
Qed.

Lemma remap_plain_under old new comps :
  forallb good old = true -> forallb good new = true -> forallb good comps = true -> comps <> [] ->
  remap_plain (abs old) (abs new) (abs (old ++ comps)) = Some (abs (new ++ comps)).
Proof.
  intros Ho Hn Hc Hne. unfold remap_plain. simpl andb. cbv iota.
  rewrite relpath_under by assumption. rewrite pjoin_abs by assumption. reflexivity.
Qed.

(* ---------- remap_path ---------- *)
Lemma scheme_abs l : scheme_of (abs l) = "".
Proof. reflexivity. Qed.

Theorem remap_path_plain old new comps :
  forallb good old = true -> forallb good new = true -> forallb good comps = true -> comps <> [] ->
  remap_path (abs old) (abs new) (abs (old ++ comps)) = Some (abs (new ++ comps)).
Proof.
  intros Ho Hn Hc Hne. unfold remap_path. rewrite scheme_abs. simpl negb. rewrite andb_false_r.
  apply remap_plain_under; assumption.
Qed.

Definition file_loc (l : list string) : string := String.append "file://" (quote (abs l)).

Theorem remap_path_file old new comps :
  forallb good old = true -> forallb good new = true -> forallb good comps = true -> comps <> [] ->
  remap_path (abs old) (abs new) (file_loc (old ++ comps)) = Some (file_loc (new ++ comps)).
Proof.
  intros Ho Hn Hc Hne. unfold remap_path, file_loc.
  change (has_colon_slash (String.append "file://" (quote (abs (old ++ comps))))) with true.
  change (scheme_of (String.append "file://" (quote (abs (old ++ comps))))) with "file".
  change (drop 7 (String.append "file://" (quote (abs (old ++ comps))))) with (quote (abs (old ++ comps))).
  simpl String.eqb. simpl negb. simpl andb. cbv iota. rewrite unquote_quote.
  rewrite remap_plain_under by assumption. reflexivity.
Qed.

Theorem roundtrip_plain old new comps :
  forallb good old = true -> forallb good new = true -> forallb good comps = true -> comps <> [] ->
  exists p', remap_path (abs old) (abs new) (abs (old ++ comps)) = Some p' /\
             remap_path (abs new) (abs old) p' = Some (abs (old ++ comps)).
Proof.
  intros Ho Hn Hc Hne. exists (abs (new ++ comps)).
  split; apply remap_path_plain; assumption.
Qed.

Theorem roundtrip_file old new comps :
  forallb good old = true -> forallb good new = true -> forallb good comps = true -> comps <> [] ->
  exists p', remap_path (abs old) (abs new) (file_loc (old ++ comps)) = Some p' /\
             remap_path (abs new) (abs old) p' = Some (file_loc (old ++ comps)).
Proof.
  intros Ho Hn Hc Hne. exists (file_loc (new ++ comps)).
  split; apply remap_path_file; assumption.
Qed.

Theorem other_scheme_unchanged old new p :
  has_colon_slash p = true -> scheme_of p <> "" -> scheme_of p <> "file" -> remap_path old new p = Some p.
Proof.
  intros H1 H0 H2. unfold remap_path. rewrite H1.
  destruct (String.eqb_spec (scheme_of p) ""); [congruence|]. simpl.
  destruct (String.eqb_spec (scheme_of p) "file"); [congruence|reflexivity].
Qed.

(* ---------- CWL values: the recursion restores the value when every file string round-trips ---------- *)
Definition is_pathkey (k : string) : bool := String.eqb k "location" || String.eqb k "path".
Definition is_listkey (k : string) : bool := String.eqb k "secondaryFiles" || String.eqb k "listing".

(* the location/path strings of the File/Directory objects that remap_token_value reaches *)
Fixpoint fs_v (v : jv) : list string :=
  match v with
  | JList l => fs_vs l
  | JObj o => if is_file_class o then fs_file o else fs_rec o
  | _ => []
  end
with fs_vs (l : jvs) : list string :=
  match l with VNil => [] | VCons v r => fs_v v ++ fs_vs r end
with fs_rec (o : jfields) : list string :=
  match o with FNil => [] | FCons _ v r => fs_v v ++ fs_rec r end
with fs_file (o : jfields) : list string :=
  match o with
  | FNil => []
  | FCons k v r =>
      (if is_pathkey k then match v with JStr s => [s] | _ => [] end
       else if is_listkey k then match v with JList l => fs_vs l | _ => [] end
       else []) ++ fs_file r
  end.

Scheme jv_mut := Induction for jv Sort Prop
  with jvs_mut := Induction for jvs Sort Prop
  with jfields_mut := Induction for jfields Sort Prop.
Combined Scheme jv_mutind from jv_mut, jvs_mut, jfields_mut.

(* unfolding equations of the mutual fixpoints *)
Lemma remap_v_atom rp a : remap_v rp (JAtom a) = Some (JAtom a). Proof. reflexivity. Qed.
Lemma remap_v_str_eq rp a : remap_v rp (JStr a) = Some (JStr a). Proof. reflexivity. Qed.
Lemma remap_v_list rp l : remap_v rp (JList l) = option_map JList (remap_vs rp l). Proof. reflexivity. Qed.
Lemma remap_v_obj rp o :
  remap_v rp (JObj o) = option_map JObj (if is_file_class o then remap_file rp o else remap_rec rp o).
Proof. reflexivity. Qed.
Lemma remap_vs_nil rp : remap_vs rp VNil = Some VNil. Proof. reflexivity. Qed.
Lemma remap_vs_cons rp v r :
  remap_vs rp (VCons v r) = match remap_v rp v, remap_vs rp r with
                            | Some v', Some r' => Some (VCons v' r') | _, _ => None end.
Proof. reflexivity. Qed.
Lemma remap_rec_nil rp : remap_rec rp FNil = Some FNil. Proof. reflexivity. Qed.
Lemma remap_rec_cons rp k v r :
  remap_rec rp (FCons k v r) = match remap_v rp v, remap_rec rp r with
                               | Some v', Some r' => Some (FCons k v' r') | _, _ => None end.
Proof. reflexivity. Qed.
Lemma remap_file_nil rp : remap_file rp FNil = Some FNil. Proof. reflexivity. Qed.
Lemma remap_file_cons rp k v r :
  remap_file rp (FCons k v r) =
    match (if is_pathkey k then match v with JStr s => option_map JStr (rp s) | _ => None end
           else if is_listkey k then match v with JList l => option_map JList (remap_vs rp l) | _ => None end
           else Some v), remap_file rp r with
    | Some v'', Some r' => Some (FCons k v'' r') | _, _ => None end.
Proof. reflexivity. Qed.

Section ValueRoundTrip.
  Variables rp1 rp2 : string -> option string.

  Definition back_ok (l : list string) : Prop :=
    forall s, In s l -> forall s', rp1 s = Some s' -> rp2 s' = Some s.

  Lemma back_ok_app a b : back_ok (a ++ b) -> back_ok a /\ back_ok b.
  Proof.
    intros H. split; intros s Hs; apply H; apply in_or_app; [left|right]; exact Hs.
  Qed.

  (* remapping keeps a value's shape at the top: a string stays that string *)
  Lemma remap_v_str rp v v' c : remap_v rp v = Some v' -> (v = JStr c <-> v' = JStr c).
  Proof.
    destruct v as [a|s|l|o]; intros H.
    - rewrite remap_v_atom in H. injection H as H. subst. split; congruence.
    - rewrite remap_v_str_eq in H. injection H as H. subst. split; congruence.
    - rewrite remap_v_list in H. destruct (remap_vs rp l); simpl in H; [|discriminate H].
      injection H as H. subst. split; intros X; discriminate X.
    - rewrite remap_v_obj in H.
      destruct (if is_file_class o then remap_file rp o else remap_rec rp o); simpl in H; [|discriminate H].
      injection H as H. subst. split; intros X; discriminate X.
  Qed.

  Definition same_top (a b : option jv) : Prop :=
    match a, b with
    | None, None => True
    | Some v, Some v' => forall c, v = JStr c <-> v' = JStr c
    | _, _ => False
    end.

  Lemma get_field_rec rp k : forall o o', remap_rec rp o = Some o' -> same_top (get_field k o) (get_field k o').
  Proof.
    induction o as [|k0 v r IH]; intros o' H.
    - rewrite remap_rec_nil in H. injection H as H. subst. exact I.
    - rewrite remap_rec_cons in H.
      destruct (remap_v rp v) as [v1|] eqn:E1; [|discriminate H].
      destruct (remap_rec rp r) as [r1|] eqn:E2; [|discriminate H].
      injection H as H. subst o'. simpl. destruct (String.eqb k k0).
      + intros c. apply (remap_v_str rp v v1 c E1).
      + apply IH. reflexivity.
  Qed.

  Lemma get_field_file rp k : is_pathkey k = false -> is_listkey k = false ->
    forall o o', remap_file rp o = Some o' -> get_field k o' = get_field k o.
  Proof.
    intros Hp Hl. induction o as [|k0 v r IH]; intros o' H.
    - rewrite remap_file_nil in H. injection H as H. subst. reflexivity.
    - rewrite remap_file_cons in H.
      destruct (remap_file rp r) as [r1|] eqn:E2.
      2:{ destruct (if is_pathkey k0 then _ else _); discriminate H. }
      destruct (String.eqb_spec k k0) as [E|Hne].
      + subst k0. rewrite Hp, Hl in H. injection H as H. subst o'. simpl. rewrite String.eqb_refl. reflexivity.
      + destruct (if is_pathkey k0 then _ else _) as [v1|]; [|discriminate H].
        injection H as H. subst o'. simpl.
        destruct (String.eqb_spec k k0); [congruence|]. apply IH. reflexivity.
  Qed.

  Lemma class_same_top a a' b b' : same_top a a' -> same_top b b' ->
    match (match a with Some c => Some c | None => b end) with
    | Some (JStr c) => String.eqb c "File" || String.eqb c "Directory" | _ => false end =
    match (match a' with Some c => Some c | None => b' end) with
    | Some (JStr c) => String.eqb c "File" || String.eqb c "Directory" | _ => false end.
  Proof.
    assert (K : forall x x', same_top (Some x) (Some x') ->
      match x with JStr c => String.eqb c "File" || String.eqb c "Directory" | _ => false end =
      match x' with JStr c => String.eqb c "File" || String.eqb c "Directory" | _ => false end).
    { intros x x' S. simpl in S. destruct x as [t|c|l|o].
      - destruct x' as [t'|c'|l'|o']; try reflexivity. discriminate (proj2 (S c') eq_refl).
      - rewrite (proj1 (S c) eq_refl). reflexivity.
      - destruct x' as [t'|c'|l'|o']; try reflexivity. discriminate (proj2 (S c') eq_refl).
      - destruct x' as [t'|c'|l'|o']; try reflexivity. discriminate (proj2 (S c') eq_refl). }
    intros Sa Sb. destruct a as [x|], a' as [x'|]; simpl in Sa; try contradiction.
    - apply K. exact Sa.
    - destruct b as [y|], b' as [y'|]; simpl in Sb; try contradiction; [apply K; exact Sb|reflexivity].
  Qed.

  Lemma class_rec rp o o' : remap_rec rp o = Some o' -> is_file_class o' = is_file_class o.
  Proof.
    intros H. unfold is_file_class. symmetry.
    apply class_same_top; apply (get_field_rec rp _ o o' H).
  Qed.

  Lemma class_file rp o o' : remap_file rp o = Some o' -> is_file_class o' = is_file_class o.
  Proof.
    intros H. unfold is_file_class.
    rewrite (get_field_file rp "class" eq_refl eq_refl o o' H).
    rewrite (get_field_file rp "type" eq_refl eq_refl o o' H). reflexivity.
  Qed.

  Theorem value_roundtrip :
    (forall v v', remap_v rp1 v = Some v' -> back_ok (fs_v v) -> remap_v rp2 v' = Some v) /\
    (forall l l', remap_vs rp1 l = Some l' -> back_ok (fs_vs l) -> remap_vs rp2 l' = Some l) /\
    (forall o, (forall o', remap_rec rp1 o = Some o' -> back_ok (fs_rec o) -> remap_rec rp2 o' = Some o) /\
               (forall o', remap_file rp1 o = Some o' -> back_ok (fs_file o) -> remap_file rp2 o' = Some o)).
  Proof.
    apply jv_mutind.
    - intros a v' H _. rewrite remap_v_atom in H. injection H as H. subst. reflexivity.
    - intros s v' H _. rewrite remap_v_str_eq in H. injection H as H. subst. reflexivity.
    - intros l IH v' H B. rewrite remap_v_list in H.
      destruct (remap_vs rp1 l) as [l1|] eqn:E; [|discriminate H].
      injection H as H. subst v'. rewrite remap_v_list. rewrite (IH l1 eq_refl B). reflexivity.
    - intros o [IHr IHf] v' H B. rewrite remap_v_obj in H.
      assert (B' : back_ok (if is_file_class o then fs_file o else fs_rec o)) by exact B.
      destruct (is_file_class o) eqn:C.
      + destruct (remap_file rp1 o) as [o1|] eqn:E; [|discriminate H].
        injection H as H. subst v'. rewrite remap_v_obj. rewrite (class_file rp1 o o1 E), C.
        rewrite (IHf o1 eq_refl B'). reflexivity.
      + destruct (remap_rec rp1 o) as [o1|] eqn:E; [|discriminate H].
        injection H as H. subst v'. rewrite remap_v_obj. rewrite (class_rec rp1 o o1 E), C.
        rewrite (IHr o1 eq_refl B'). reflexivity.
    - intros l' H _. rewrite remap_vs_nil in H. injection H as H. subst. reflexivity.
    - intros v IHv r IHr l' H B. rewrite remap_vs_cons in H.
      assert (B' : back_ok (fs_v v ++ fs_vs r)) by exact B.
      destruct (remap_v rp1 v) as [v1|] eqn:E1; [|discriminate H].
      destruct (remap_vs rp1 r) as [r1|] eqn:E2; [|discriminate H].
      injection H as H. subst l'. apply back_ok_app in B'. destruct B' as [B1 B2].
      rewrite remap_vs_cons. rewrite (IHv v1 eq_refl B1), (IHr r1 eq_refl B2). reflexivity.
    - split; intros o' H _.
      + rewrite remap_rec_nil in H. injection H as H. subst. reflexivity.
      + rewrite remap_file_nil in H. injection H as H. subst. reflexivity.
    - intros k v IHv r [IHr IHf]. split.
      + intros o' H B. rewrite remap_rec_cons in H.
        assert (B' : back_ok (fs_v v ++ fs_rec r)) by exact B.
        destruct (remap_v rp1 v) as [v1|] eqn:E1; [|discriminate H].
        destruct (remap_rec rp1 r) as [r1|] eqn:E2; [|discriminate H].
        injection H as H. subst o'. apply back_ok_app in B'. destruct B' as [B1 B2].
        rewrite remap_rec_cons. rewrite (IHv v1 eq_refl B1), (IHr r1 eq_refl B2). reflexivity.
      + intros o' H B. rewrite remap_file_cons in H.
        assert (B' : back_ok ((if is_pathkey k then match v with JStr s => [s] | _ => [] end
                               else if is_listkey k then match v with JList l => fs_vs l | _ => [] end
                               else []) ++ fs_file r)) by exact B.
        apply back_ok_app in B'. destruct B' as [B1 B2].
        destruct (remap_file rp1 r) as [r1|] eqn:E2.
        2:{ destruct (if is_pathkey k then _ else _); discriminate H. }
        destruct (is_pathkey k) eqn:Kp.
        * destruct v as [a|s|l|o]; try discriminate H.
          destruct (rp1 s) as [s1|] eqn:Es; [|discriminate H].
          simpl in H. injection H as H. subst o'.
          rewrite remap_file_cons. rewrite Kp.
          rewrite (B1 s (or_introl eq_refl) s1 Es). simpl. rewrite (IHf r1 eq_refl B2). reflexivity.
        * destruct (is_listkey k) eqn:Kl.
          -- destruct v as [a|s|l|o]; try discriminate H.
             destruct (remap_vs rp1 l) as [l1|] eqn:El; [|discriminate H].
             simpl in H. injection H as H. subst o'.
             rewrite remap_file_cons. rewrite Kp, Kl.
             assert (V : remap_v rp2 (JList l1) = Some (JList l)).
             { apply IHv; [rewrite remap_v_list, El; reflexivity|exact B1]. }
             rewrite remap_v_list in V. destruct (remap_vs rp2 l1) as [l2|]; [|discriminate V].
             simpl in V. injection V as V. subst l2. simpl.
             rewrite (IHf r1 eq_refl B2). reflexivity.
          -- injection H as H. subst o'.
             rewrite remap_file_cons. rewrite Kp, Kl.
             rewrite (IHf r1 eq_refl B2). reflexivity.
  Qed.
End ValueRoundTrip.

Theorem token_value_roundtrip old new v v' :
  remap_token_value old new v = Some v' ->
  (forall s, In s (fs_v v) -> forall s', remap_path old new s = Some s' -> remap_path new old s' = Some s) ->
  remap_token_value new old v' = Some v.
Proof. unfold remap_token_value. apply (proj1 (value_roundtrip (remap_path old new) (remap_path new old))). Qed.

(* atoms and strings outside File/Directory objects are never touched *)
Theorem non_file_unchanged rp v :
  match v with JAtom _ | JStr _ => remap_v rp v = Some v | _ => True end.
Proof. destruct v; simpl; trivial. Qed.

(* ---------- values whose file strings are all in the domain of the path theorems ---------- *)
Inductive in_domain (old new : list string) : string -> Prop :=
| dom_plain comps :
    forallb good comps = true -> comps <> [] -> in_domain old new (abs (old ++ comps))
| dom_file comps :
    forallb good comps = true -> comps <> [] -> in_domain old new (file_loc (old ++ comps))
| dom_other p :
    has_colon_slash p = true -> scheme_of p <> "" -> scheme_of p <> "file" -> in_domain old new p.

Theorem value_roundtrip_in_domain old new v v' :
  forallb good old = true -> forallb good new = true ->
  remap_token_value (abs old) (abs new) v = Some v' ->
  (forall s, In s (fs_v v) -> in_domain old new s) ->
  remap_token_value (abs new) (abs old) v' = Some v.
Proof.
  intros Ho Hn Hf Hd. apply (token_value_roundtrip (abs old) (abs new) v v' Hf).
  intros s Hs s' H1. destruct (Hd s Hs) as [comps Hc Hne|comps Hc Hne|p C S0 S].
  - rewrite (remap_path_plain old new comps Ho Hn Hc Hne) in H1. injection H1 as H1. subst s'.
    apply remap_path_plain; assumption.
  - rewrite (remap_path_file old new comps Ho Hn Hc Hne) in H1. injection H1 as H1. subst s'.
    apply remap_path_file; assumption.
  - rewrite (other_scheme_unchanged (abs old) (abs new) p C S0 S) in H1. injection H1 as H1. subst s'.
    apply other_scheme_unchanged; assumption.
Qed.
