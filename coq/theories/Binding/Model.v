(* Binding/Model.v — model of how a StreamFlow file's bindings and deployments are resolved.
   ANCHORS: streamflow.config.config.set_targets,
            streamflow.config.config.WorkflowConfig._process_binding,
            streamflow.config.config.WorkflowConfig.put,
            streamflow.config.config.WorkflowConfig.propagate,
            streamflow.config.config.WorkflowConfig._check_stacked_deployments,
            streamflow.deployment.utils._get_workdir,
            streamflow.deployment.utils.get_binding_config
   Definitions only.  A binding's configuration ({"targets": ..., "filters": ...}) is opaque here: it is
   represented by the index of the binding in the file (type N). *)
From Coq Require Import List Bool NArith.
From SF Require Import Base.Str Tags.Model.
Import ListNotations.
Local Open Scope string_scope. Local Open Scope list_scope.

(* ---- PurePosixPath(s).parts: the root ("/" or "//") if any, then the non-empty, non-"." components ---- *)
Definition pparts (s : string) : list string :=
  (if String.eqb (pp_root s) "" then [] else [pp_root s]) ++ pp_parts s.
Definition is_absolute (s : string) : bool := negb (String.eqb (pp_root s) "").

(* ---- self.filesystem: a trie of dicts {"children": {...}, ["step": cfg], ["port": cfg]} ----
   [step]: None = no "step" key; Some None = key present with value None (set_targets writes that) *)
Inductive node := Node (step : option (option N)) (port : option N) (ch : children)
with children := CNil | CCons (k : string) (c : node) (rest : children).

Definition empty_node : node := Node None None CNil.
Definition n_step (n : node) := match n with Node s _ _ => s end.
Definition n_port (n : node) := match n with Node _ p _ => p end.
Definition n_ch (n : node) := match n with Node _ _ c => c end.

Fixpoint clookup (k : string) (ch : children) : option node :=
  match ch with
  | CNil => None
  | CCons k' c r => if String.eqb k k' then Some c else clookup k r
  end.

(* if part not in children: children[part] = {"children": {}};  then descend and apply f *)
Fixpoint cupd (k : string) (f : node -> node) (ch : children) : children :=
  match ch with
  | CNil => CCons k (f empty_node) CNil
  | CCons k' c r => if String.eqb k k' then CCons k' (f c) r else CCons k' c (cupd k f r)
  end.

(* WorkflowConfig.put(path, name, value) with name in {"step","port"} *)
Fixpoint put (parts : list string) (is_step : bool) (v : N) (n : node) : node :=
  match parts with
  | [] => match n with
          | Node s p ch => if is_step then Node (Some (Some v)) p ch else Node s (Some v) ch
          end
  | k :: ps => match n with Node s p ch => Node s p (cupd k (put ps is_step v) ch) end
  end.

(* set_targets(current_node, target): the body of the loop on one child, and the loop *)
Fixpoint set_node (tgt : option N) (c : node) : node :=
  match c with
  | Node s p ch =>
      match p with
      | Some _ => c                                             (* if "port" in node: continue *)
      | None => let s' := match s with Some x => x | None => tgt end in
                Node (Some s') None (set_children s' ch)
      end
  end
with set_children (tgt : option N) (ch : children) : children :=
  match ch with
  | CNil => CNil
  | CCons k c r => CCons k (set_node tgt c) (set_children tgt r)
  end.
Definition set_targets (root : node) : node :=
  match root with Node s p ch => Node s p (set_children None ch) end.

(* WorkflowConfig.propagate(path, "step") *)
Fixpoint propagate (parts : list string) (ch : children) (value : option N) : option N :=
  match parts with
  | [] => value
  | k :: ps =>
      match clookup k ch with
      | None => value
      | Some c => propagate ps (n_ch c) (match n_step c with Some v => v | None => value end)
      end
  end.
(* WorkflowConfig.propagate(path, "port") *)
Fixpoint propagate_port (parts : list string) (ch : children) (value : option N) : option N :=
  match parts with
  | [] => value
  | k :: ps =>
      match clookup k ch with
      | None => value
      | Some c => propagate_port ps (n_ch c) (match n_port c with Some v => Some v | None => value end)
      end
  end.

(* a binding of the StreamFlow file: {"step"|"port": path, "target": ...}; its index stands for its config *)
Record binding := { b_step : bool; b_path : string; b_cfg : N }.

(* WorkflowConfig.__init__: for binding in bindings: _process_binding (raises on a relative path);
   then set_targets(self.filesystem, None) *)
Fixpoint process (bs : list binding) (root : node) : option node :=
  match bs with
  | [] => Some root
  | b :: bs' =>
      if is_absolute (b_path b) then process bs' (put (pparts (b_path b)) (b_step b) (b_cfg b) root)
      else None                                                  (* WorkflowDefinitionException *)
  end.
Definition build (bs : list binding) : option node :=
  option_map set_targets (process bs empty_node).

(* get_binding_config(name, "step", cfg): Some i = the targets of binding i, None = [LocalTarget()] *)
Definition get_binding (root : node) (name : string) : option N := propagate (pparts name) (n_ch root) None.
Definition get_binding_port (root : node) (name : string) : option N :=
  propagate_port (pparts name) (n_ch root) None.

(* ---- deployments: name -> (workdir, wraps) in file order ---- *)
Record deployment := { d_name : string; d_workdir : option string; d_wraps : option string }.

Fixpoint dlookup (k : string) (ds : list deployment) : option deployment :=
  match ds with
  | [] => None
  | d :: ds' => if String.eqb k (d_name d) then Some d else dlookup k ds'
  end.

Inductive wres := WOk (w : option string) | WKeyError | WFuel.

(* _get_workdir: while workdir is None and wraps is not None: deployment = deployments[wraps] *)
Fixpoint get_workdir (fuel : nat) (ds : list deployment) (d : deployment) : wres :=
  match d_workdir d with
  | Some w => WOk (Some w)
  | None =>
      match d_wraps d with
      | None => WOk None
      | Some w =>
          match fuel with
          | O => WFuel
          | S fuel' => match dlookup w ds with
                       | None => WKeyError
                       | Some d' => get_workdir fuel' ds d'
                       end
          end
      end
  end.

Inductive cres := CNoCycle | CCycle (name : string) | CKeyError | CFuel.

Definition mem (k : string) (l : list string) : bool := existsb (String.eqb k) l.

(* the inner while loop of _check_stacked_deployments for one deployment; seen = the set of names *)
Fixpoint check_from (fuel : nat) (ds : list deployment) (d : deployment) (seen : list string) : cres :=
  match d_wraps d with
  | None => CNoCycle
  | Some w =>
      match fuel with
      | O => CFuel
      | S fuel' =>
          match dlookup w ds with
          | None => CKeyError
          | Some d' => if mem (d_name d') seen then CCycle (d_name d')
                       else check_from fuel' ds d' (d_name d' :: seen)
          end
      end
  end.

(* for deployment in self.deployments.values(): the first failing one raises *)
Fixpoint check_all (fuel : nat) (ds : list deployment) (todo : list deployment) : cres :=
  match todo with
  | [] => CNoCycle
  | d :: todo' =>
      match check_from fuel ds d [d_name d] with
      | CNoCycle => check_all fuel ds todo'
      | r => r
      end
  end.
Definition check_stacked (ds : list deployment) : cres := check_all (S (List.length ds)) ds ds.

(* Target.workdir = target's own workdir or the deployment's (through _get_workdir) or the default *)
Definition target_workdir (ds : list deployment) (own : option string) (d : deployment) : wres :=
  match own with
  | Some w => WOk (Some w)
  | None => get_workdir (S (List.length ds)) ds d
  end.
