(* Binding/Cycle.v — the direct form of the cycle theorem: a wraps cycle reachable from a declared
   deployment is never accepted by _check_stacked_deployments. *)
From Coq Require Import List Bool Arith NArith Lia.
From SF Require Import Base.Str Tags.Model Binding.Model Binding.Spec Binding.Proofs.
Import ListNotations.
Local Open Scope string_scope. Local Open Scope list_scope.

Lemma reach_det ds a k b : reach ds a k b -> forall c, reach ds a k c -> b = c.
Proof.
  induction 1 as [d|a n a' k b Hn Hl Hr IH]; intros c Hc.
  - inversion Hc. reflexivity.
  - inversion Hc as [|a0 n0 a0' k0 c0 Hn0 Hl0 Hr0]; subst.
    rewrite Hn in Hn0. injection Hn0 as Hn0. subst n0. rewrite Hl in Hl0. injection Hl0 as Hl0. subst a0'.
    apply IH. exact Hr0.
Qed.

Lemma reach_split ds i : forall a j c, reach ds a (i + j) c -> exists b, reach ds a i b /\ reach ds b j c.
Proof.
  induction i as [|i IH]; intros a j c H.
  - exists a. split; [constructor|exact H].
  - simpl in H. inversion H as [|a0 n a' k c0 Hn Hl Hr]; subst.
    destruct (IH a' j c Hr) as (b & H1 & H2). exists b. split; [|exact H2].
    eapply reachS; eassumption.
Qed.

Lemma reach_pos_wraps ds a k b : reach ds a (S k) b -> d_wraps a <> None.
Proof. intros H. inversion H; subst. congruence. Qed.

(* from a deployment lying on a cycle the chain never ends *)
Lemma cycle_never_ends ds x m : reach ds x (S m) x ->
  forall n e, reach ds x n e -> d_wraps e <> None.
Proof.
  intros Hc n. induction n as [n IH] using lt_wf_ind. intros e He.
  destruct (Nat.lt_ge_cases n (S m)) as [Hlt|Hge].
  - replace (S m) with (n + (S m - n)) in Hc by lia.
    destruct (reach_split ds n x (S m - n) x Hc) as (b & H1 & H2).
    rewrite (reach_det ds x n e He b H1).
    destruct (S m - n) as [|r] eqn:R; [lia|]. eapply reach_pos_wraps. exact H2.
  - replace n with (S m + (n - S m)) in He by lia.
    destruct (reach_split ds (S m) x (n - S m) e He) as (b & H1 & H2).
    rewrite <- (reach_det ds x (S m) x Hc b H1) in H2.
    apply (IH (n - S m)); [lia|exact H2].
Qed.

Lemma cycle_chain_never_ends ds d j x m k :
  reach ds d j x -> reach ds x (S m) x -> ~ chain_ends ds d k.
Proof.
  intros Hj Hc (e & Hk & He).
  destruct (Nat.le_gt_cases k j) as [Hle|Hgt].
  - replace j with (k + (j - k)) in Hj by lia.
    destruct (reach_split ds k d (j - k) x Hj) as (b & H1 & H2).
    rewrite <- (reach_det ds d k e Hk b H1) in H2.
    destruct (j - k) as [|r].
    + inversion H2; subst. apply (reach_pos_wraps ds x m x Hc). exact He.
    + apply (reach_pos_wraps ds e r x H2). exact He.
  - replace k with (j + (k - j)) in Hk by lia.
    destruct (reach_split ds j d (k - j) e Hk) as (b & H1 & H2).
    rewrite <- (reach_det ds d j x Hj b H1) in H2.
    apply (cycle_never_ends ds x m Hc (k - j) e H2). exact He.
Qed.

Theorem reachable_cycle_not_accepted ds d j x m :
  In d ds -> reach ds d j x -> reach ds x (S m) x -> check_stacked ds <> CNoCycle.
Proof.
  intros Hd Hj Hc H.
  destruct (check_all_ends ds _ ds H d Hd) as (k & _ & Hk).
  exact (cycle_chain_never_ends ds d j x m k Hj Hc Hk).
Qed.

(* with every wraps reference defined, the answer is then the definition error *)
Definition closed (ds : list deployment) : Prop :=
  forall d w, In d ds -> d_wraps d = Some w -> dlookup w ds <> None.

Lemma check_from_no_keyerror ds : closed ds -> forall fuel d seen,
  In d ds -> check_from fuel ds d seen <> CKeyError.
Proof.
  intros Hcl. induction fuel as [|fuel IH]; intros d seen Hd; simpl.
  - destruct (d_wraps d); discriminate.
  - destruct (d_wraps d) as [w|] eqn:W; [|discriminate].
    destruct (dlookup w ds) as [d'|] eqn:L; [|exfalso; exact (Hcl d w Hd W L)].
    destruct (mem (d_name d') seen); [discriminate|].
    apply IH. apply dlookup_in in L. exact (proj1 L).
Qed.

Lemma check_all_no_keyerror ds fuel : closed ds -> forall todo,
  incl todo ds -> check_all fuel ds todo <> CKeyError.
Proof.
  intros Hcl. induction todo as [|d todo IH]; intros Hincl; simpl; [discriminate|].
  pose proof (check_from_no_keyerror ds Hcl fuel d [d_name d] (Hincl d (or_introl eq_refl))) as K.
  destruct (check_from fuel ds d [d_name d]); try discriminate; try congruence.
  apply IH. intros x Hx. apply Hincl. right. exact Hx.
Qed.

Theorem reachable_cycle_rejected ds d j x m :
  closed ds -> In d ds -> reach ds d j x -> reach ds x (S m) x -> exists n, check_stacked ds = CCycle n.
Proof.
  intros Hcl Hd Hj Hc.
  pose proof (reachable_cycle_not_accepted ds d j x m Hd Hj Hc) as H1.
  pose proof (check_stacked_terminates ds) as H2.
  pose proof (check_all_no_keyerror ds (S (List.length ds)) Hcl ds (incl_refl ds)) as H3.
  unfold check_stacked in *. destruct (check_all (S (List.length ds)) ds ds) as [| n | |]; try congruence.
  exists n. reflexivity.
Qed.

(* ---------- rejected <-> a cycle is reachable (names unique, as keys of the deployments mapping) ---------- *)
Lemma reach_snoc ds a k b n b' :
  reach ds a k b -> d_wraps b = Some n -> dlookup n ds = Some b' -> reach ds a (S k) b'.
Proof.
  intros Hr W L. induction Hr as [d|a0 n0 a' k b0 Hn Hl Hr IH].
  - eapply reachS; [exact W|exact L|constructor].
  - eapply reachS; [exact Hn|exact Hl|]. apply IH; assumption.
Qed.

Lemma check_from_cycle_in ds : forall fuel d seen n,
  In d ds ->
  (forall s, In s seen -> exists x j, In x ds /\ d_name x = s /\ reach ds x j d) ->
  check_from fuel ds d seen = CCycle n ->
  exists x y j, In x ds /\ In y ds /\ d_name x = n /\ d_name y = n /\ reach ds x (S j) y.
Proof.
  induction fuel as [|fuel IH]; intros d seen n Hd Inv; simpl.
  - destruct (d_wraps d); discriminate.
  - destruct (d_wraps d) as [w|] eqn:W; [|discriminate].
    destruct (dlookup w ds) as [d'|] eqn:L; [|discriminate].
    pose proof (proj1 (dlookup_in w ds d' L)) as Hd'.
    destruct (mem (d_name d') seen) eqn:M.
    + intros H. injection H as H. subst n. apply mem_in in M.
      destruct (Inv _ M) as (x & j & Hx & Hn & Hr).
      exists x, d', j. repeat split; try assumption. eapply reach_snoc; eassumption.
    + apply IH; [exact Hd'|]. intros s [Hs|Hs].
      * subst s. exists d', 0. repeat split; [exact Hd'|constructor].
      * destruct (Inv _ Hs) as (x & j & Hx & Hn & Hr). exists x, (S j).
        repeat split; try assumption. eapply reach_snoc; eassumption.
Qed.

Lemma check_all_cycle_in ds fuel : forall todo n,
  incl todo ds -> check_all fuel ds todo = CCycle n ->
  exists x y j, In x ds /\ In y ds /\ d_name x = n /\ d_name y = n /\ reach ds x (S j) y.
Proof.
  induction todo as [|d todo IH]; simpl; intros n Hincl H; [discriminate|].
  destruct (check_from fuel ds d [d_name d]) eqn:E; try discriminate.
  - apply IH; [intros z Hz; apply Hincl; right; exact Hz|exact H].
  - injection H as H. subst name.
    eapply check_from_cycle_in; [apply Hincl; left; reflexivity| |exact E].
    intros s [Hs|[]]. subst s. exists d, 0. repeat split; [apply Hincl; left; reflexivity|constructor].
Qed.

Lemma same_name_same ds : NoDup (map d_name ds) ->
  forall x y, In x ds -> In y ds -> d_name x = d_name y -> x = y.
Proof.
  induction ds as [|a ds IH]; intros Hnd x y Hx Hy E; [destruct Hx|].
  simpl in Hnd. inversion Hnd as [|? ? Hna Hnd']; subst.
  destruct Hx as [Hx|Hx], Hy as [Hy|Hy]; subst.
  - reflexivity.
  - exfalso. apply Hna. rewrite E. apply in_map. exact Hy.
  - exfalso. apply Hna. rewrite <- E. apply in_map. exact Hx.
  - apply IH; assumption.
Qed.

Theorem rejected_iff_cycle ds :
  NoDup (map d_name ds) -> closed ds ->
  ((exists n, check_stacked ds = CCycle n) <->
   (exists d x j m, In d ds /\ reach ds d j x /\ reach ds x (S m) x)).
Proof.
  intros Hnd Hcl. split.
  - intros [n H]. destruct (check_all_cycle_in ds _ ds n (incl_refl ds) H) as (x & y & j & Hx & Hy & Nx & Ny & Hr).
    assert (E : x = y) by (apply (same_name_same ds Hnd); [assumption|assumption|congruence]). subst y.
    exists x, x, 0, j. repeat split; [exact Hx|constructor|exact Hr].
  - intros (d & x & j & m & Hd & Hj & Hc). exact (reachable_cycle_rejected ds d j x m Hcl Hd Hj Hc).
Qed.
