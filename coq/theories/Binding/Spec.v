(* Binding/Spec.v — the property's own words for C28, over the flat list of bindings (no trie).
   Definitions only. *)
From Coq Require Import List Bool NArith.
From SF Require Import Base.Str Tags.Model Binding.Model.
Import ListNotations.
Local Open Scope string_scope. Local Open Scope list_scope.

(* a binding with its path already split: (is a step binding, parts, config index) *)
Definition pbinding := (bool * list string * N)%type.
Definition parse (b : binding) : pbinding := (b_step b, pparts (b_path b), b_cfg b).

(* the bindings declared at or below the child [k] of the current position, paths made relative to it *)
Definition strip (k : string) (bs : list pbinding) : list pbinding :=
  flat_map (fun b => match b with
                     | (s, k' :: ps, v) => if String.eqb k k' then [(s, ps, v)] else []
                     | (_, [], _) => []
                     end) bs.

(* the last step binding declared exactly at the current position *)
Definition here (acc : option N) (b : pbinding) : option N :=
  match b with (true, [], v) => Some v | _ => acc end.
Definition last_here (bs : list pbinding) : option N := fold_left here bs None.

(* walk down the step's path; at every ancestor (and finally the step itself) a binding declared exactly
   there replaces what was inherited from above; later declarations on the same path win *)
Fixpoint nearest (bs : list pbinding) (parts : list string) (inherited : option N) : option N :=
  match parts with
  | [] => inherited
  | k :: ps =>
      let bs' := strip k bs in
      nearest bs' ps (match last_here bs' with Some v => Some v | None => inherited end)
  end.

(* closed form: among the step bindings whose path is a prefix of the step's path, the longest path wins,
   the later declaration among equally long ones *)
Definition better (acc : option (nat * N)) (c : nat * N) : option (nat * N) :=
  match acc with
  | None => Some c
  | Some a => if Nat.leb (fst a) (fst c) then Some c else acc
  end.
Definition candidates (bs : list pbinding) (parts : list string) : list (nat * N) :=
  flat_map (fun b => match b with
                     | (true, q, v) => if list_prefixb q parts then [(List.length q, v)] else []
                     | _ => []
                     end) bs.
Definition best (bs : list pbinding) (parts : list string) : option N :=
  option_map snd (fold_left better (candidates bs parts) None).

(* the wraps chain: [inherits ds d k w]: following wraps k times from d, through deployments without a
   workdir, reaches one whose workdir is w (Some) or the end of the chain with none (None) *)
Inductive inherits (ds : list deployment) : deployment -> nat -> option string -> Prop :=
| inh_own d w : d_workdir d = Some w -> inherits ds d 0 (Some w)
| inh_end d : d_workdir d = None -> d_wraps d = None -> inherits ds d 0 None
| inh_step d n d' k r : d_workdir d = None -> d_wraps d = Some n -> dlookup n ds = Some d' ->
                        inherits ds d' k r -> inherits ds d (S k) r.

(* [reach ds a k b]: b is the k-th wraps successor of a *)
Inductive reach (ds : list deployment) : deployment -> nat -> deployment -> Prop :=
| reach0 d : reach ds d 0 d
| reachS a n a' k b : d_wraps a = Some n -> dlookup n ds = Some a' -> reach ds a' k b -> reach ds a (S k) b.

(* the wraps chain from d ends after k steps *)
Definition chain_ends (ds : list deployment) (d : deployment) (k : nat) : Prop :=
  exists e, reach ds d k e /\ d_wraps e = None.
