(* Binding/Closed.v — the walk [nearest] equals the closed form [best]: among the step bindings whose path
   is a prefix of the step's path the longest wins, the later declaration among equally long ones. *)
From Coq Require Import List Bool Arith NArith Lia.
From SF Require Import Base.Str Tags.Model Binding.Model Binding.Spec Binding.Proofs.
Import ListNotations.
Local Open Scope string_scope. Local Open Scope list_scope.

Definition cand_all (parts : list string) (b : pbinding) : list (nat * N) :=
  match b with
  | (true, q, v) => if list_prefixb q parts then [(List.length q, v)] else []
  | _ => []
  end.
Definition cand_ne (parts : list string) (b : pbinding) : list (nat * N) :=
  match b with
  | (true, k :: q, v) => if list_prefixb (k :: q) parts then [(S (List.length q), v)] else []
  | _ => []
  end.

Lemma candidates_all bs parts : candidates bs parts = flat_map (cand_all parts) bs.
Proof.
  unfold candidates. apply flat_map_ext. intros [[s q] v]. destruct s; reflexivity.
Qed.

Definition shift (c : nat * N) : nat * N := (S (fst c), snd c).

(* the non-empty-path candidates for k :: ps are the candidates of the stripped list for ps, one level deeper *)
Lemma cand_ne_strip k ps bs :
  flat_map (cand_ne (k :: ps)) bs = map shift (flat_map (cand_all ps) (strip k bs)).
Proof.
  induction bs as [|[[s q] v] bs IH]; [reflexivity|].
  change (strip k ((s, q, v) :: bs))
    with ((match q with k' :: ps' => if String.eqb k k' then [(s, ps', v)] else [] | [] => [] end) ++ strip k bs).
  cbn [flat_map]. rewrite flat_map_app. rewrite map_app. rewrite IH. f_equal.
  destruct q as [|k' q]; [destruct s; reflexivity|].
  cbn [cand_ne list_prefixb]. rewrite (String.eqb_sym k' k).
  destruct (String.eqb k k'); cbn [flat_map app andb].
  - destruct s; [|reflexivity]. cbn [cand_all]. destruct (list_prefixb q ps); reflexivity.
  - destruct s; reflexivity.
Qed.

Lemma better_shift a c : better (option_map shift a) (shift c) = option_map shift (better a c).
Proof.
  destruct a as [a|]; [|reflexivity]. unfold better. simpl.
  destruct (Nat.leb (fst a) (fst c)); reflexivity.
Qed.

Lemma fold_better_shift l : forall a,
  fold_left better (map shift l) (option_map shift a) = option_map shift (fold_left better l a).
Proof.
  induction l as [|c l IH]; intros a; [reflexivity|].
  cbn [map fold_left]. rewrite better_shift. apply IH.
Qed.

Definition pick (x : option (nat * N)) (inh : option N) : option N :=
  match x with Some c => Some (snd c) | None => inh end.

Lemma pick_shift x inh : pick (option_map shift x) inh = pick x inh.
Proof. destruct x as [[n v]|]; reflexivity. Qed.

(* bindings declared exactly here (length 0) lose against every deeper candidate, whatever the order *)
Definition combine (a : option (nat * N)) (h : option N) : option (nat * N) :=
  match a with Some c => Some c | None => option_map (fun v => (0, v)) h end.
Definition deep (a : option (nat * N)) : Prop := match a with Some c => 1 <= fst c | None => True end.

Lemma fold_all_split ps bs : forall a h, deep a ->
  fold_left better (flat_map (cand_all ps) bs) (combine a h)
  = combine (fold_left better (flat_map (cand_ne ps) bs) a) (fold_left here bs h).
Proof.
  induction bs as [|[[s q] v] bs IH]; intros a h Ha; [reflexivity|].
  cbn [flat_map]. rewrite !fold_left_app. cbn [fold_left].
  destruct s.
  - destruct q as [|k q].
    + (* declared here *)
      cbn [cand_all cand_ne list_prefixb fold_left here List.length].
      replace (better (combine a h) (0, v)) with (combine a (Some v)); [apply IH; exact Ha|].
      destruct a as [c|]; simpl.
      * simpl in Ha. destruct (Nat.leb (fst c) 0) eqn:L; [apply Nat.leb_le in L; lia|reflexivity].
      * destruct h; reflexivity.
    + cbn [cand_all cand_ne here]. destruct (list_prefixb (k :: q) ps).
      * cbn [fold_left List.length].
        replace (better (combine a h) (S (List.length q), v)) with (combine (better a (S (List.length q), v)) h).
        -- apply IH. destruct a as [c|]; simpl; [destruct (Nat.leb (fst c) (S (List.length q))); simpl; [lia|exact Ha]|lia].
        -- destruct a as [c|]; simpl.
           ++ destruct (Nat.leb (fst c) (S (List.length q))); reflexivity.
           ++ destruct h; reflexivity.
      * cbn [fold_left]. apply IH. exact Ha.
  - cbn [cand_all cand_ne fold_left here]. destruct q; apply IH; exact Ha.
Qed.

Lemma pick_combine x h inh : pick (combine x h) inh = pick x (match h with Some v => Some v | None => inh end).
Proof. destruct x as [[n v]|]; [reflexivity|]. destruct h; reflexivity. Qed.

Lemma cand_ne_nil bs : flat_map (cand_ne []) bs = [].
Proof. induction bs as [|[[s q] v] bs IH]; [reflexivity|]. cbn [flat_map]. rewrite IH. destruct s, q; reflexivity. Qed.

Lemma nearest_closed parts : forall bs inh,
  nearest bs parts inh = pick (fold_left better (flat_map (cand_ne parts) bs) None) inh.
Proof.
  induction parts as [|k ps IH]; intros bs inh.
  - rewrite cand_ne_nil. reflexivity.
  - cbn [nearest]. rewrite IH. rewrite cand_ne_strip.
    change (@None (nat * N)) with (option_map shift None) at 2.
    rewrite fold_better_shift, pick_shift.
    change (@None (nat * N)) with (combine None None) at 2.
    rewrite (fold_all_split ps (strip k bs) None None I).
    rewrite pick_combine. reflexivity.
Qed.

Lemma cand_all_ne parts bs :
  (forall b, In b bs -> snd (fst b) <> []) -> flat_map (cand_all parts) bs = flat_map (cand_ne parts) bs.
Proof.
  induction bs as [|[[s q] v] bs IH]; intros H; [reflexivity|].
  cbn [flat_map]. rewrite IH by (intros b Hb; apply H; right; exact Hb). f_equal.
  specialize (H (s, q, v) (or_introl eq_refl)). simpl in H.
  destruct s; [|reflexivity]. destruct q; [congruence|reflexivity].
Qed.

Lemma pparts_absolute s : is_absolute s = true -> pparts s <> [].
Proof.
  unfold is_absolute, pparts. intros H. apply negb_true_iff in H. rewrite H. discriminate.
Qed.

Theorem get_binding_best bs root name :
  build bs = Some root -> get_binding root name = best (map parse bs) (pparts name).
Proof.
  intros B. rewrite (get_binding_nearest bs root name B). rewrite nearest_closed.
  unfold best. rewrite candidates_all. rewrite cand_all_ne.
  - destruct (fold_left better _ None) as [[n v]|]; reflexivity.
  - intros b Hb. apply in_map_iff in Hb. destruct Hb as (x & E & Hx). subst b. simpl.
    apply pparts_absolute.
    assert (A : forallb (fun b => is_absolute (b_path b)) bs = true).
    { apply build_defined. rewrite B. discriminate. }
    rewrite forallb_forall in A. apply A. exact Hx.
Qed.
