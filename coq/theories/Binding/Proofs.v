(* Binding/Proofs.v — lemmas about Binding/Model.v against Binding/Spec.v. *)
From Coq Require Import List Bool NArith Lia.
From SF Require Import Base.Str Tags.Model Binding.Model Binding.Spec.
Import ListNotations.
Local Open Scope string_scope. Local Open Scope list_scope.

(* ---------- children dict ---------- *)
Definition dflt (o : option node) : node := match o with Some c => c | None => empty_node end.

Lemma clookup_cupd_same k f ch : clookup k (cupd k f ch) = Some (f (dflt (clookup k ch))).
Proof.
  induction ch as [|k' c r IH]; simpl.
  - rewrite String.eqb_refl. reflexivity.
  - destruct (String.eqb k k') eqn:E; simpl; rewrite E; [reflexivity|exact IH].
Qed.

Lemma clookup_cupd_other k k' f ch : k <> k' -> clookup k' (cupd k f ch) = clookup k' ch.
Proof.
  intros Hne. induction ch as [|k0 c r IH]; simpl.
  - destruct (String.eqb_spec k' k); [congruence|reflexivity].
  - destruct (String.eqb_spec k k0); simpl.
    + subst k0. destruct (String.eqb_spec k' k); [congruence|reflexivity].
    + rewrite IH. reflexivity.
Qed.

(* ---------- the trie built by a sequence of puts ---------- *)
Definition putb (n : node) (b : pbinding) : node :=
  match b with (s, ps, v) => put ps s v n end.
Definition buildp (bs : list pbinding) (n0 : node) : node := fold_left putb bs n0.

Lemma sub_trie k : forall bs n0,
  clookup k (n_ch (buildp bs n0)) =
    match strip k bs with
    | [] => clookup k (n_ch n0)
    | bs' => Some (buildp bs' (dflt (clookup k (n_ch n0))))
    end.
Proof.
  induction bs as [|[[s ps] v] bs IH]; intros n0; [reflexivity|].
  unfold buildp in *. cbn [fold_left]. rewrite IH. clear IH.
  destruct ps as [|k' ps].
  - (* binding on the node itself: children untouched *)
    assert (E : n_ch (putb n0 (s, [], v)) = n_ch n0) by (destruct n0; simpl; destruct s; reflexivity).
    rewrite E. reflexivity.
  - destruct n0 as [s0 p0 ch0]. cbn [putb put n_ch].
    unfold strip at 2. cbn [flat_map]. fold (strip k bs).
    destruct (String.eqb_spec k k').
    + subst k'. rewrite clookup_cupd_same. simpl app.
      destruct (strip k bs); reflexivity.
    + rewrite clookup_cupd_other by congruence. reflexivity.
Qed.

Lemma fold_here_acc bs : forall acc,
  fold_left here bs acc = match fold_left here bs None with Some v => Some v | None => acc end.
Proof.
  induction bs as [|b bs IH]; intros acc; [reflexivity|].
  simpl. rewrite IH. rewrite (IH (here None b)).
  destruct (fold_left here bs None); [reflexivity|].
  destruct b as [[s ps] v]. destruct s, ps; reflexivity.
Qed.

Lemma step_trie : forall bs n0,
  n_step (buildp bs n0) =
    match last_here bs with Some v => Some (Some v) | None => n_step n0 end.
Proof.
  unfold last_here, buildp.
  induction bs as [|[[s ps] v] bs IH]; intros n0; [reflexivity|].
  cbn [fold_left]. rewrite IH. rewrite (fold_here_acc bs (here None (s, ps, v))).
  destruct (fold_left here bs None); [reflexivity|].
  destruct n0 as [s0 p0 ch0]. destruct s, ps; reflexivity.
Qed.

Lemma strip_nil k : strip k [] = [].
Proof. reflexivity. Qed.

Lemma nearest_nil parts : forall v, nearest [] parts v = v.
Proof. induction parts as [|k ps IH]; intros v; simpl; [reflexivity|apply IH]. Qed.

(* propagate over the trie of puts = the walk over the flat list of bindings *)
Lemma propagate_nearest parts : forall bs v,
  propagate parts (n_ch (buildp bs empty_node)) v = nearest bs parts v.
Proof.
  induction parts as [|k ps IH]; intros bs v; [reflexivity|].
  cbn [propagate nearest]. rewrite sub_trie. cbn [empty_node n_ch clookup dflt].
  destruct (strip k bs) as [|b bs'] eqn:E.
  - cbn [last_here fold_left]. symmetry. apply nearest_nil.
  - rewrite step_trie. fold empty_node. cbn [n_step empty_node]. rewrite IH.
    destruct (last_here (b :: bs')); reflexivity.
Qed.

(* ---------- set_targets does not change what propagate answers ---------- *)
Lemma clookup_set_children k tgt ch :
  clookup k (set_children tgt ch) = option_map (set_node tgt) (clookup k ch).
Proof.
  induction ch as [|k' c r IH]; simpl; [reflexivity|].
  destruct (String.eqb k k'); [reflexivity|exact IH].
Qed.

Lemma propagate_set_children parts : forall ch tgt,
  propagate parts (set_children tgt ch) tgt = propagate parts ch tgt.
Proof.
  induction parts as [|k ps IH]; intros ch tgt; [reflexivity|].
  simpl. rewrite clookup_set_children.
  destruct (clookup k ch) as [[s p cch]|]; simpl; [|reflexivity].
  destruct p as [pv|]; simpl; [reflexivity|].
  rewrite IH. destruct s; reflexivity.
Qed.

(* ---------- the constructor ---------- *)
Lemma process_buildp bs : forall n0 r,
  process bs n0 = Some r -> r = buildp (map parse bs) n0.
Proof.
  induction bs as [|b bs IH]; intros n0 r; simpl.
  - intros H. injection H as H. symmetry. exact H.
  - destruct (is_absolute (b_path b)); [|discriminate]. intros H. apply IH in H. exact H.
Qed.

Lemma process_absolute bs : forall n0,
  process bs n0 <> None <-> forallb (fun b => is_absolute (b_path b)) bs = true.
Proof.
  induction bs as [|b bs IH]; intros n0; simpl.
  - split; [reflexivity|discriminate].
  - destruct (is_absolute (b_path b)); simpl; [apply IH|]. split; [congruence|discriminate].
Qed.

Theorem get_binding_nearest bs root name :
  build bs = Some root -> get_binding root name = nearest (map parse bs) (pparts name) None.
Proof.
  unfold build, get_binding. destruct (process bs empty_node) as [r|] eqn:E; [|discriminate].
  simpl. intros H. injection H as H. subst root.
  apply process_buildp in E. subst r.
  destruct (buildp (map parse bs) empty_node) as [s p ch] eqn:B. simpl.
  rewrite propagate_set_children.
  change ch with (n_ch (Node s p ch)). rewrite <- B. apply propagate_nearest.
Qed.

Theorem build_defined bs :
  build bs <> None <-> forallb (fun b => is_absolute (b_path b)) bs = true.
Proof.
  unfold build. rewrite <- (process_absolute bs empty_node).
  destruct (process bs empty_node); simpl; split; congruence.
Qed.

(* ---------- nearest = closed form (longest bound prefix, last declaration wins) ---------- *)
Definition shift (c : nat * N) : nat * N := (S (fst c), snd c).

(* ---------- working directories ---------- *)
Lemma get_workdir_inherits ds d k r :
  inherits ds d k r -> forall fuel, k <= fuel -> get_workdir fuel ds d = WOk r.
Proof.
  induction 1 as [d w Hw|d Hw Hn|d n d' k r Hw Hn Hl Hi IH]; intros fuel Hk.
  - destruct fuel; simpl; rewrite Hw; reflexivity.
  - destruct fuel; simpl; rewrite Hw, Hn; reflexivity.
  - destruct fuel as [|fuel]; [lia|]. simpl. rewrite Hw, Hn, Hl. apply IH. lia.
Qed.

Lemma get_workdir_inherits' ds d k r fuel :
  inherits ds d k r -> k <= fuel -> get_workdir fuel ds d = WOk r.
Proof. intros H. exact (get_workdir_inherits ds d k r H fuel). Qed.

Lemma inherits_of_chain ds d k e :
  reach ds d k e -> d_wraps e = None -> exists j r, j <= k /\ inherits ds d j r.
Proof.
  induction 1 as [d|a n a' k b Hn Hl Hr IH]; intros He.
  - destruct (d_workdir d) as [w|] eqn:W.
    + exists 0, (Some w). split; [lia|apply inh_own; exact W].
    + exists 0, None. split; [lia|apply inh_end; assumption].
  - destruct (d_workdir a) as [w|] eqn:W.
    + exists 0, (Some w). split; [lia|apply inh_own; exact W].
    + destruct (IH He) as (j & r & Hj & Hi).
      exists (S j), r. split; [lia|]. eapply inh_step; eassumption.
Qed.

(* ---------- the cycle check ---------- *)
Lemma dlookup_in n ds d : dlookup n ds = Some d -> In d ds /\ d_name d = n.
Proof.
  induction ds as [|x ds IH]; simpl; [discriminate|].
  destruct (String.eqb_spec n (d_name x)).
  - intros H. injection H as H. subst x. split; [left; reflexivity|congruence].
  - intros H. destruct (IH H) as [H1 H2]. split; [right; exact H1|exact H2].
Qed.

Lemma mem_in k l : mem k l = true <-> In k l.
Proof.
  unfold mem. rewrite existsb_exists. split.
  - intros (x & Hx & E). apply String.eqb_eq in E. subst. exact Hx.
  - intros H. exists k. split; [exact H|apply String.eqb_refl].
Qed.

(* no answer CFuel: the model's fuel is enough, i.e. the Python loop terminates *)
Lemma check_from_fuel ds : forall fuel d seen,
  NoDup seen -> incl seen (map d_name ds) -> List.length ds < fuel + List.length seen ->
  check_from fuel ds d seen <> CFuel.
Proof.
  induction fuel as [|fuel IH]; intros d seen Hnd Hincl Hlen.
  - exfalso. pose proof (NoDup_incl_length Hnd Hincl) as H. rewrite map_length in H. simpl in Hlen. lia.
  - simpl. destruct (d_wraps d) as [w|]; [|discriminate].
    destruct (dlookup w ds) as [d'|] eqn:L; [|discriminate].
    destruct (mem (d_name d') seen) eqn:M; [discriminate|].
    apply IH.
    + constructor; [|exact Hnd]. intros Hin. apply mem_in in Hin. congruence.
    + intros x [Hx|Hx]; [|apply Hincl; exact Hx]. subst x.
      apply dlookup_in in L. destruct L as [L _]. apply in_map. exact L.
    + simpl. lia.
Qed.

Lemma check_all_fuel ds fuel : forall todo,
  incl todo ds -> List.length ds <= fuel -> check_all fuel ds todo <> CFuel.
Proof.
  induction todo as [|d todo IH]; intros Hincl Hlen; simpl; [discriminate|].
  assert (F : check_from fuel ds d [d_name d] <> CFuel).
  { apply check_from_fuel.
    - constructor; [intros []|constructor].
    - intros x [Hx|[]]. subst x. apply in_map. apply Hincl. left. reflexivity.
    - simpl. lia. }
  destruct (check_from fuel ds d [d_name d]); try discriminate; try congruence.
  apply IH; [intros x Hx; apply Hincl; right; exact Hx|exact Hlen].
Qed.

Theorem check_stacked_terminates ds : check_stacked ds <> CFuel.
Proof. apply check_all_fuel; [apply incl_refl|lia]. Qed.

(* accepted => the chain from that deployment ends (within the fuel) *)
Lemma check_from_ends ds : forall fuel d seen,
  check_from fuel ds d seen = CNoCycle -> exists k, k <= fuel /\ chain_ends ds d k.
Proof.
  induction fuel as [|fuel IH]; intros d seen; simpl.
  - destruct (d_wraps d) eqn:W; [discriminate|]. intros _.
    exists 0. split; [lia|]. exists d. split; [constructor|exact W].
  - destruct (d_wraps d) as [w|] eqn:W.
    + destruct (dlookup w ds) as [d'|] eqn:L; [|discriminate].
      destruct (mem (d_name d') seen); [discriminate|].
      intros H. destruct (IH _ _ H) as (k & Hk & e & Hr & He).
      exists (S k). split; [lia|]. exists e. split; [|exact He].
      eapply reachS; eassumption.
    + intros _. exists 0. split; [lia|]. exists d. split; [constructor|exact W].
Qed.

Lemma check_all_ends ds fuel : forall todo,
  check_all fuel ds todo = CNoCycle ->
  forall d, In d todo -> exists k, k <= fuel /\ chain_ends ds d k.
Proof.
  induction todo as [|x todo IH]; simpl; intros H d Hd; [destruct Hd|].
  destruct (check_from fuel ds x [d_name x]) eqn:E; try discriminate.
  destruct Hd as [Hd|Hd]; [subst x; eapply check_from_ends; exact E|apply IH; assumption].
Qed.

Theorem accepted_workdir_terminates ds :
  check_stacked ds = CNoCycle ->
  forall d own, In d ds -> exists r, target_workdir ds own d = WOk r.
Proof.
  intros H d own Hd. unfold target_workdir. destruct own as [w|]; [eexists; reflexivity|].
  destruct (check_all_ends ds _ ds H d Hd) as (k & Hk & e & Hr & He).
  destruct (inherits_of_chain ds d k e Hr He) as (j & r & Hj & Hi).
  exists r. apply (get_workdir_inherits ds d j r Hi). lia.
Qed.

(* rejected => a wraps chain really comes back to a deployment name already met *)
Lemma check_from_cycle ds : forall fuel d seen n,
  (forall s, In s seen -> exists x j, d_name x = s /\ reach ds x j d) ->
  check_from fuel ds d seen = CCycle n ->
  exists x y j, d_name x = n /\ d_name y = n /\ reach ds x (S j) y.
Proof.
  induction fuel as [|fuel IH]; intros d seen n Inv; simpl.
  - destruct (d_wraps d); discriminate.
  - destruct (d_wraps d) as [w|] eqn:W; [|discriminate].
    destruct (dlookup w ds) as [d'|] eqn:L; [|discriminate].
    destruct (mem (d_name d') seen) eqn:M.
    + intros H. injection H as H. subst n. apply mem_in in M.
      destruct (Inv _ M) as (x & j & Hx & Hr).
      exists x, d', j. repeat split; [exact Hx|].
      clear -Hr W L. induction Hr as [d|a n a' k b Hn Hl Hr IH].
      * eapply reachS; [exact W|exact L|constructor].
      * eapply reachS; [exact Hn|exact Hl|]. apply IH; assumption.
    + apply IH. intros s [Hs|Hs].
      * subst s. exists d', 0. split; [reflexivity|constructor].
      * destruct (Inv _ Hs) as (x & j & Hx & Hr). exists x, (S j). split; [exact Hx|].
        clear -Hr W L. induction Hr as [d|a n a' k b Hn Hl Hr IH].
        -- eapply reachS; [exact W|exact L|constructor].
        -- eapply reachS; [exact Hn|exact Hl|]. apply IH; assumption.
Qed.

Lemma check_all_cycle ds fuel : forall todo n,
  check_all fuel ds todo = CCycle n ->
  exists x y j, d_name x = n /\ d_name y = n /\ reach ds x (S j) y.
Proof.
  induction todo as [|d todo IH]; simpl; intros n H; [discriminate|].
  destruct (check_from fuel ds d [d_name d]) eqn:E; try discriminate.
  - apply IH. exact H.
  - injection H as H. subst name. eapply check_from_cycle; [|exact E].
    intros s [Hs|[]]. subst s. exists d, 0. split; [reflexivity|constructor].
Qed.

Theorem rejected_has_cycle ds n :
  check_stacked ds = CCycle n -> exists x y j, d_name x = n /\ d_name y = n /\ reach ds x (S j) y.
Proof. apply check_all_cycle. Qed.
