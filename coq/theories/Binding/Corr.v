(* Binding/Corr.v — correspondence cases for Binding/Model.v (used by the C28 check). *)
From Coq Require Import List Bool NArith.
From SF Require Import Base.Str Base.Corr.
From SF Require Export Binding.Model.   (* the generated case files name its constructors *)
Import ListNotations.
Local Open Scope string_scope.

Definition B (s : bool) (p : string) (i : N) : binding := Build_binding s p i.
Definition D (n : string) (w : option string) (wr : option string) : deployment := Build_deployment n w wr.

(* Target.__init__: workdir or deployment.workdir or "/tmp/streamflow" (non-local deployment) *)
Definition target_wd (ds : list deployment) (own : option string) (d : deployment) : option string :=
  match target_workdir ds own d with
  | WOk (Some w) => Some w
  | WOk None => Some "/tmp/streamflow"
  | _ => None
  end.

Inductive ccase :=
(* WorkflowConfig(bindings) then get_binding_config(name, "step"|"port") for each query:
   ok = false: the constructor raised WorkflowDefinitionException (relative binding path);
   each query = (is step lookup, name, index of the binding whose targets came back / None = local) *)
| CNearest (bs : list binding) (ok : bool) (qs : list (bool * string * option N))
(* WorkflowConfig(deployments): r = outcome of _check_stacked_deployments; if accepted, for each
   (deployment name, target's own workdir): DeploymentConfig.workdir and Target.workdir observed *)
| CDeploy (ds : list deployment) (r : cres)
          (ws : list (string * option string * option string * string)).

Definition cres_eqb (a b : cres) : bool :=
  match a, b with
  | CNoCycle, CNoCycle | CKeyError, CKeyError | CFuel, CFuel => true
  | CCycle x, CCycle y => String.eqb x y
  | _, _ => false
  end.

Definition wres_is (r : wres) (w : option string) : bool :=
  match r with WOk x => opt_eqb String.eqb x w | _ => false end.

Definition check_case (c : ccase) : bool :=
  match c with
  | CNearest bs ok qs =>
      match build bs with
      | None => negb ok
      | Some root =>
          ok && forallb (fun q => match q with
                                  | (true, name, r) => opt_eqb N.eqb (get_binding root name) r
                                  | (false, name, r) => opt_eqb N.eqb (get_binding_port root name) r
                                  end) qs
      end
  | CDeploy ds r ws =>
      cres_eqb (check_stacked ds) r
      && forallb (fun x => match x with
                           | (n, own, dw, tw) =>
                               match dlookup n ds with
                               | None => false
                               | Some d => wres_is (get_workdir (S (List.length ds)) ds d) dw
                                           && opt_eqb String.eqb (target_wd ds own d) (Some tw)
                               end
                           end) ws
  end.
