(* TarStream/WriterChunk.v — the source side of AioTarStream.addfile: copyfileobj(fileobj, self.stream, size,
   bufsize) with aiotarstream.write()'s loop over short reads.  (StreamWrapper.write has no partial-write
   protocol — SubprocessStreamWriterWrapper.write is stream.write(data); await drain() — so the only chunking the
   writer is exposed to is how the SOURCE delivers the member's data and the copy buffer size.) *)
From Coq Require Import List Bool NArith Lia.
From SF Require Import TarStream.Model TarStream.Proofs.
Import ListNotations.
Local Open Scope N_scope.

Notation R p u := {| pos := p; und := u |}.
Definition nonempty (s : stream) : Prop := Forall (fun c : bytes => c <> []) s.

Lemma write_n_S : forall f n (r : rst stream) acc,
  write_n stream raw_read false (S f) n r acc =
  if n =? 0 then (Done, acc, r)
  else let '(buf, r1) := read stream raw_read n r in
       if negb false && (lenN buf =? 0) then (ReadError, acc, r1)
       else write_n stream raw_read false f (n - lenN buf) r1 (acc ++ buf).
Proof. reflexivity. Qed.

Lemma write_n_raw : forall s fuel n p acc,
  nonempty s -> n <= lenN (concat s) -> (length s < fuel)%nat ->
  exists s', write_n stream raw_read false fuel n (R p s) acc = (Done, acc ++ takeN n (concat s), R (p + n) s')
             /\ concat s' = dropN n (concat s) /\ nonempty s' /\ (length s' <= length s)%nat.
Proof.
  induction s as [|c r IH]; intros fuel n p acc Hne Hn Hf.
  - destruct fuel as [|f]; [cbn in Hf; lia|]. assert (n = 0) by (cbn in Hn; unfold lenN in Hn; cbn in Hn; lia). subst n.
    exists []. rewrite write_n_S. cbn [N.eqb]. rewrite N.add_0_r, app_nil_r. repeat split; constructor.
  - destruct fuel as [|[|f]]; try (cbn [length] in Hf; lia).
    inversion Hne as [|? ? Hc Hr]; subst. cbn [concat] in *.
    rewrite write_n_S. destruct (N.eqb_spec n 0) as [->|Hn0].
    { exists (c :: r). rewrite takeN_0, dropN_0, app_nil_r, N.add_0_r. repeat split; auto. }
    unfold read. cbn [und pos raw_read]. cbn [negb andb].
    assert (Hc0 : lenN c <> 0) by (rewrite lenN_nil_iff; exact Hc).
    destruct (N.leb_spec (lenN c) n) as [Hle|Hlt].
    + assert (lenN c =? 0 = false) as -> by (now apply N.eqb_neq).
      rewrite lenN_app in Hn.
      destruct (IH (S f) (n - lenN c) (p + lenN c) (acc ++ c) Hr) as (s' & E & C & NE & L); [lia|cbn [length] in Hf; lia|].
      exists s'. rewrite E. rewrite takeN_app_ge, dropN_app_ge by assumption. rewrite <- app_assoc.
      repeat split; try assumption; [f_equal; f_equal; lia|cbn [length]; lia].
    + assert (lenN (takeN n c) = n) as El by (rewrite lenN_takeN; lia). rewrite El.
      assert (n =? 0 = false) as -> by (now apply N.eqb_neq). rewrite N.sub_diag.
      rewrite write_n_S. cbn [N.eqb]. exists (dropN n c :: r).
      rewrite takeN_app_lt, dropN_app_lt by assumption. repeat split.
      * constructor; [|assumption]. intro E. apply (f_equal lenN) in E. rewrite lenN_dropN in E. unfold lenN in E at 2. cbn in E. lia.
      * cbn [length]. lia.
Qed.

Lemma dropN_dropN' : forall l a b, dropN a (dropN b l) = dropN (a + b) l.
Proof.
  induction l as [|x l IHl]; intros a b; [now rewrite !dropN_all by (unfold lenN; simpl; lia)|].
  cbn [dropN]. destruct (N.eqb_spec b 0) as [->|Hb]; [now rewrite N.add_0_r|].
  assert (a + b =? 0 = false) as -> by (apply N.eqb_neq; lia). rewrite IHl. f_equal. lia.
Qed.
Lemma takeN_split : forall a b l, takeN (a + b) l = takeN a l ++ takeN b (dropN a l).
Proof.
  intros a b l. rewrite <- (take_drop a l) at 1.
  destruct (N.le_gt_cases a (lenN l)) as [H|H].
  - rewrite takeN_app_ge by (rewrite lenN_takeN; lia). rewrite lenN_takeN. f_equal. f_equal. lia.
  - rewrite (takeN_all a l), (dropN_all a l) by lia. rewrite app_nil_r, takeN_all by lia.
    destruct b; cbn; now rewrite app_nil_r.
Qed.

Lemma copyfileobj_raw : forall fuel s rem bs p acc,
  0 < bs -> nonempty s -> rem <= lenN (concat s) -> (length s + N.to_nat rem < fuel)%nat ->
  exists s', copyfileobj stream raw_read false fuel rem bs (R p s) acc
             = (Done, acc ++ takeN rem (concat s), R (p + rem) s')
             /\ concat s' = dropN rem (concat s).
Proof.
  induction fuel as [|f IH]; intros s rem bs p acc Hbs Hne Hrem Hf; [lia|].
  cbn [copyfileobj]. destruct (N.eqb_spec rem 0) as [->|H0].
  { exists s. rewrite takeN_0, dropN_0, app_nil_r, N.add_0_r. split; reflexivity. }
  set (n := N.min bs rem). assert (Hn : 1 <= n /\ n <= rem) by (subst n; lia).
  destruct (write_n_raw s (S f) n p acc Hne) as (s1 & E & C & NE & L); [lia|lia|].
  rewrite E.
  destruct (IH s1 (rem - n) bs (p + n) (acc ++ takeN n (concat s)) Hbs NE) as (s2 & E2 & C2); [rewrite C, lenN_dropN; lia|lia|].
  exists s2. rewrite E2, C, C2. split.
  - f_equal; [|f_equal; lia]. f_equal. rewrite <- app_assoc. f_equal.
    rewrite <- takeN_split. f_equal. lia.
  - rewrite ?C. rewrite dropN_dropN'. f_equal. lia.
Qed.

(* the bytes copied into the archive for a member are the first [size] bytes the source delivers, whatever the
   sizes of the source's reads and whatever copybufsize (> 0; 0/None mean 16 KiB in the code) *)
Theorem writer_chunking : forall (s1 s2 : stream) size bs1 bs2 p1 p2,
  concat s1 = concat s2 -> nonempty s1 -> nonempty s2 -> 0 < bs1 -> 0 < bs2 -> size <= lenN (concat s1) ->
  fst (fst (copyfileobj stream raw_read false (S (length s1 + N.to_nat size)) size bs1 (R p1 s1) []))
  = Done
  /\ snd (fst (copyfileobj stream raw_read false (S (length s1 + N.to_nat size)) size bs1 (R p1 s1) []))
     = takeN size (concat s1)
  /\ fst (copyfileobj stream raw_read false (S (length s2 + N.to_nat size)) size bs2 (R p2 s2) [])
     = fst (copyfileobj stream raw_read false (S (length s1 + N.to_nat size)) size bs1 (R p1 s1) []).
Proof.
  intros s1 s2 size bs1 bs2 p1 p2 E N1 N2 B1 B2 Hs.
  destruct (copyfileobj_raw (S (length s1 + N.to_nat size)) s1 size bs1 p1 [] B1 N1 Hs) as (a & Ea & _); [apply le_n|].
  destruct (copyfileobj_raw (S (length s2 + N.to_nat size)) s2 size bs2 p2 [] B2 N2) as (b & Eb & _); [rewrite <- E; exact Hs|apply le_n|].
  rewrite Ea, Eb. cbn [fst snd app]. rewrite E. repeat split.
Qed.
