(* TarStream/Fields.v — slicing a 512-byte header block made of 17 fields of fixed lengths (abstract fields:
   nothing to unfold, every side condition is a closed numeral comparison). *)
From Coq Require Import List Bool NArith Lia.
From SF Require Import TarStream.Model TarStream.Proofs.
Import ListNotations.
Local Open Scope N_scope.

Lemma slice_skip : forall x l a b n, lenN x = n -> n <= a -> slice a b (x ++ l) = slice (a - n) (b - n) l.
Proof.
  intros x l a b n Hx Hn. unfold slice. rewrite dropN_app_ge by (rewrite Hx; exact Hn). rewrite Hx.
  f_equal. generalize dependent (lenN x). intros; subst. lia.
Qed.
Lemma slice_hit : forall x l b, lenN x = b -> slice 0 b (x ++ l) = x.
Proof.
  intros x l b Hx. unfold slice. rewrite dropN_0, N.sub_0_r. rewrite takeN_app_ge by (rewrite Hx; apply N.le_refl).
  rewrite Hx, N.sub_diag, takeN_0. apply app_nil_r.
Qed.
Lemma slice_hit_last : forall x b, lenN x = b -> slice 0 b x = x.
Proof. intros x b Hx. rewrite <- (app_nil_r x) at 1. now apply slice_hit. Qed.

Ltac norm_sub := repeat match goal with |- context [slice (?a - ?n) (?b - ?n) _] =>
    let a' := eval vm_compute in (a - n) in let b' := eval vm_compute in (b - n) in
    change (slice (a - n) (b - n)) with (slice a' b') end.
Ltac skipf H := rewrite (slice_skip _ _ _ _ _ H) by (vm_compute; discriminate); norm_sub.

Section Fields.
  Variables f0 f1 f2 f3 f4 f5 f6 f7 f8 f9 f10 f11 f12 f13 f14 f15 f16 : bytes.
  Hypothesis L0 : lenN f0 = 100.   (* name *)
  Hypothesis L1 : lenN f1 = 8.     (* mode *)
  Hypothesis L2 : lenN f2 = 8.     (* uid *)
  Hypothesis L3 : lenN f3 = 8.     (* gid *)
  Hypothesis L4 : lenN f4 = 12.    (* size *)
  Hypothesis L5 : lenN f5 = 12.    (* mtime *)
  Hypothesis L6 : lenN f6 = 8.     (* chksum *)
  Hypothesis L7 : lenN f7 = 1.     (* typeflag *)
  Hypothesis L8 : lenN f8 = 100.   (* linkname *)
  Hypothesis L9 : lenN f9 = 8.     (* magic + version *)
  Hypothesis L10 : lenN f10 = 32.  (* uname *)
  Hypothesis L11 : lenN f11 = 32.  (* gname *)
  Hypothesis L12 : lenN f12 = 8.   (* devmajor *)
  Hypothesis L13 : lenN f13 = 8.   (* devminor *)
  Hypothesis L14 : lenN f14 = 155. (* prefix *)
  Hypothesis L15 : lenN f15 = 12.  (* padding *)
  Definition blk : bytes :=
    f0 ++ f1 ++ f2 ++ f3 ++ f4 ++ f5 ++ f6 ++ f7 ++ f8 ++ f9 ++ f10 ++ f11 ++ f12 ++ f13 ++ f14 ++ f15.

  Lemma fld_name : slice 0 100 blk = f0.
  Proof. unfold blk. now apply slice_hit. Qed.
  Lemma fld_mode : slice 100 108 blk = f1.
  Proof. unfold blk. skipf L0. now apply slice_hit. Qed.
  Lemma fld_uid : slice 108 116 blk = f2.
  Proof. unfold blk. skipf L0. skipf L1. now apply slice_hit. Qed.
  Lemma fld_gid : slice 116 124 blk = f3.
  Proof. unfold blk. skipf L0. skipf L1. skipf L2. now apply slice_hit. Qed.
  Lemma fld_size : slice 124 136 blk = f4.
  Proof. unfold blk. skipf L0. skipf L1. skipf L2. skipf L3. now apply slice_hit. Qed.
  Lemma fld_mtime : slice 136 148 blk = f5.
  Proof. unfold blk. skipf L0. skipf L1. skipf L2. skipf L3. skipf L4. now apply slice_hit. Qed.
  Lemma fld_chk : slice 148 156 blk = f6.
  Proof. unfold blk. skipf L0. skipf L1. skipf L2. skipf L3. skipf L4. skipf L5. now apply slice_hit. Qed.
  Lemma fld_type : slice 156 157 blk = f7.
  Proof. unfold blk. skipf L0. skipf L1. skipf L2. skipf L3. skipf L4. skipf L5. skipf L6. now apply slice_hit. Qed.
  Lemma fld_link : slice 157 257 blk = f8.
  Proof.
    unfold blk. skipf L0. skipf L1. skipf L2. skipf L3. skipf L4. skipf L5. skipf L6. skipf L7. now apply slice_hit.
  Qed.
  Lemma fld_devmajor : slice 329 337 blk = f12.
  Proof.
    unfold blk. skipf L0. skipf L1. skipf L2. skipf L3. skipf L4. skipf L5. skipf L6. skipf L7. skipf L8. skipf L9.
    skipf L10. skipf L11. now apply slice_hit.
  Qed.
  Lemma fld_devminor : slice 337 345 blk = f13.
  Proof.
    unfold blk. skipf L0. skipf L1. skipf L2. skipf L3. skipf L4. skipf L5. skipf L6. skipf L7. skipf L8. skipf L9.
    skipf L10. skipf L11. skipf L12. now apply slice_hit.
  Qed.
  Lemma fld_prefix : slice 345 500 blk = f14.
  Proof.
    unfold blk. skipf L0. skipf L1. skipf L2. skipf L3. skipf L4. skipf L5. skipf L6. skipf L7. skipf L8. skipf L9.
    skipf L10. skipf L11. skipf L12. skipf L13. now apply slice_hit.
  Qed.
  Lemma blk_len : lenN blk = 512.
  Proof.
    unfold blk. rewrite !lenN_app, L0, L1, L2, L3, L4, L5, L6, L7, L8, L9, L10, L11, L12, L13, L14, L15. reflexivity.
  Qed.
  Lemma blk_take148 : takeN 148 blk = f0 ++ f1 ++ f2 ++ f3 ++ f4 ++ f5.
  Proof.
    unfold blk. replace (f0 ++ f1 ++ f2 ++ f3 ++ f4 ++ f5 ++ f6 ++ f7 ++ f8 ++ f9 ++ f10 ++ f11 ++ f12 ++ f13 ++ f14 ++ f15)
      with ((f0 ++ f1 ++ f2 ++ f3 ++ f4 ++ f5) ++ f6 ++ f7 ++ f8 ++ f9 ++ f10 ++ f11 ++ f12 ++ f13 ++ f14 ++ f15)
      by (now rewrite <- !app_assoc).
    assert (H : lenN (f0 ++ f1 ++ f2 ++ f3 ++ f4 ++ f5) = 148) by (rewrite !lenN_app, L0, L1, L2, L3, L4, L5; reflexivity).
    rewrite takeN_app_ge by (rewrite H; apply N.le_refl). rewrite H, N.sub_diag, takeN_0. apply app_nil_r.
  Qed.
  Lemma blk_drop156 : dropN 156 blk = f7 ++ f8 ++ f9 ++ f10 ++ f11 ++ f12 ++ f13 ++ f14 ++ f15.
  Proof.
    unfold blk. replace (f0 ++ f1 ++ f2 ++ f3 ++ f4 ++ f5 ++ f6 ++ f7 ++ f8 ++ f9 ++ f10 ++ f11 ++ f12 ++ f13 ++ f14 ++ f15)
      with ((f0 ++ f1 ++ f2 ++ f3 ++ f4 ++ f5 ++ f6) ++ f7 ++ f8 ++ f9 ++ f10 ++ f11 ++ f12 ++ f13 ++ f14 ++ f15)
      by (now rewrite <- !app_assoc).
    assert (H : lenN (f0 ++ f1 ++ f2 ++ f3 ++ f4 ++ f5 ++ f6) = 156)
      by (rewrite !lenN_app, L0, L1, L2, L3, L4, L5, L6; reflexivity).
    rewrite dropN_app_ge by (rewrite H; apply N.le_refl). rewrite H, N.sub_diag. apply dropN_0.
  Qed.
End Fields.
