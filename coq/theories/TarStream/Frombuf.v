(* TarStream/Frombuf.v — TarInfo.frombuf reads back the block written by TarInfo._create_header. *)
From Coq Require Import List Bool NArith ZArith Lia.
From SF Require Import TarStream.Model TarStream.Proofs TarStream.Trunc TarStream.Roundtrip TarStream.Fields.
Import ListNotations.
Local Open Scope N_scope.

Section Block.
  Variables (name : bytes) (mode size ty : N) (link : bytes) (mt : hmeta).
  Hypothesis Hn : le255 name.
  Hypothesis Hl : le255 link.
  Hypothesis Hm : meta_ok mt.
  Hypothesis Hmode : mode < pow8 7.
  Hypothesis Hsize : size < pow8 11.
  Hypothesis Hty : ty <= 255.

  Let c := 256 + sumN (hdr_pre name mode size mt) + sumN (hdr_post ty link mt).
  Let F6 := oct_digits 6 c ++ [0; 32].
  Let B := blk (stn name 100) (itn8 mode) (itn8 (m_uid mt)) (itn8 (m_gid mt)) (itn12 size) (itn12 (m_mtime mt))
               F6 [ty] (stn link 100) GNU_MAGIC (stn (m_uname mt) 32) (stn (m_gname mt) 32)
               (zeros 8) (zeros 8) (zeros 155) (zeros 12).

  Lemma LF6 : lenN F6 = 8.
  Proof. unfold F6. rewrite lenN_app, lenN_chk. reflexivity. Qed.
  Lemma Lty : lenN [ty] = 1. Proof. reflexivity. Qed.
  Lemma Lmagic : lenN GNU_MAGIC = 8. Proof. reflexivity. Qed.

  Lemma hdr_block_B : hdr_block name mode size ty link mt = B.
  Proof.
    unfold hdr_block. fold c. fold F6. unfold B, blk, hdr_pre, hdr_post. now rewrite <- !app_assoc.
  Qed.

  Lemma c_bound : c < pow8 6.
  Proof.
    pose proof (sumN_bound _ (le255_pre name mode size mt Hn)) as H1.
    pose proof (sumN_bound _ (le255_post ty link mt Hty Hl Hm)) as H2.
    rewrite lenN_pre in H1. rewrite lenN_post in H2. unfold c.
    generalize dependent (sumN (hdr_pre name mode size mt)).
    generalize dependent (sumN (hdr_post ty link mt)). intros s2 H2 s1 H1.
    change (pow8 6) with 262144. lia.
  Qed.

  (* instantiated field lemmas *)
  (* syntactic dispatch: [apply lenN_stn] on a goal about [zeros]/[GNU_MAGIC] sends unification into a very long search *)
  Ltac lensolve := match goal with
    | |- lenN (stn _ _) = _ => apply lenN_stn
    | |- lenN (itn8 _) = _ => apply lenN_itn8
    | |- lenN (itn12 _) = _ => apply lenN_itn12
    | |- lenN (zeros _) = _ => apply lenN_zeros
    | |- lenN F6 = _ => exact LF6
    | |- lenN GNU_MAGIC = _ => reflexivity
    | |- lenN [_] = _ => reflexivity
    end.
  Ltac inst L := apply L; lensolve.
  Lemma B_len : lenN B = 512. Proof. unfold B. inst blk_len. Qed.
  Lemma B_name : slice 0 100 B = stn name 100. Proof. unfold B. inst fld_name. Qed.
  Lemma B_mode : slice 100 108 B = itn8 mode. Proof. unfold B. inst fld_mode. Qed.
  Lemma B_uid : slice 108 116 B = itn8 (m_uid mt). Proof. unfold B. inst fld_uid. Qed.
  Lemma B_gid : slice 116 124 B = itn8 (m_gid mt). Proof. unfold B. inst fld_gid. Qed.
  Lemma B_size : slice 124 136 B = itn12 size. Proof. unfold B. inst fld_size. Qed.
  Lemma B_mtime : slice 136 148 B = itn12 (m_mtime mt). Proof. unfold B. inst fld_mtime. Qed.
  Lemma B_chk : slice 148 156 B = F6. Proof. unfold B. inst fld_chk. Qed.
  Lemma B_link : slice 157 257 B = stn link 100. Proof. unfold B. inst fld_link. Qed.
  Lemma B_dmaj : slice 329 337 B = zeros 8. Proof. unfold B. inst fld_devmajor. Qed.
  Lemma B_dmin : slice 337 345 B = zeros 8. Proof. unfold B. inst fld_devminor. Qed.
  Lemma B_prefix : slice 345 500 B = zeros 155. Proof. unfold B. inst fld_prefix. Qed.
  Lemma B_take : takeN 148 B = hdr_pre name mode size mt.
  Proof. unfold B. rewrite blk_take148; [reflexivity|lensolve..]. Qed.
  Lemma B_drop : dropN 156 B = hdr_post ty link mt.
  Proof. unfold B. rewrite blk_drop156; [reflexivity|lensolve..]. Qed.
  Lemma B_type : nth 156 B 0 = ty.
  Proof.
    rewrite nth_hd_skipn. change 156%nat with (N.to_nat 156). rewrite <- dropN_skipn, B_drop. reflexivity.
  Qed.
  Lemma B_chk_val : nti (slice 148 156 B) = NOk c.
  Proof. rewrite B_chk. unfold F6. apply (nti_digits 5 c [32]). exact c_bound. Qed.
  Lemma B_chk_ok : chk_ok c B = true.
  Proof. unfold chk_ok. rewrite B_take, B_drop. fold c. rewrite N.eqb_refl. reflexivity. Qed.
  Lemma B_nonzero : forallb (N.eqb 0) B = false.
  Proof.
    unfold B, blk. rewrite forallb_app. apply andb_false_iff. right.
    unfold itn8 at 1. rewrite <- app_assoc. apply forallb_dig_false.
  Qed.
  Lemma B_mode_val : nti (slice 100 108 B) = NOk mode.
  Proof. rewrite B_mode. apply (nti_digits 6 mode []). exact Hmode. Qed.
  Lemma B_uid_val : nti (slice 108 116 B) = NOk (m_uid mt).
  Proof. rewrite B_uid. apply (nti_digits 6 _ []). apply Hm. Qed.
  Lemma B_gid_val : nti (slice 116 124 B) = NOk (m_gid mt).
  Proof. rewrite B_gid. apply (nti_digits 6 _ []). apply Hm. Qed.
  Lemma B_size_val : nti (slice 124 136 B) = NOk size.
  Proof. rewrite B_size. apply (nti_digits 10 size []). exact Hsize. Qed.
  Lemma B_mtime_val : nti (slice 136 148 B) = NOk (m_mtime mt).
  Proof. rewrite B_mtime. apply (nti_digits 10 _ []). apply Hm. Qed.
  Lemma B_dmaj_val : nti (slice 329 337 B) = NOk 0. Proof. rewrite B_dmaj. reflexivity. Qed.
  Lemma B_dmin_val : nti (slice 337 345 B) = NOk 0. Proof. rewrite B_dmin. reflexivity. Qed.
  Lemma B_prefix_val : nts (slice 345 500 B) = []. Proof. rewrite B_prefix. apply nts_zeros. Qed.

  Hypothesis Hty0 : ty <> 0.
  Hypothesis HtyS : ty <> T_GNUSPARSE.
  Lemma frombuf_B : frombuf B = HOk (hdr_read name mode size ty link).
  Proof.
    unfold frombuf. rewrite B_len, B_nonzero, B_chk_val, B_chk_ok.
    change (512 =? 0) with false. change (512 =? 512) with true. cbv beta iota. cbn [negb].
    rewrite B_mode_val, B_uid_val, B_gid_val, B_size_val, B_mtime_val, B_dmaj_val, B_dmin_val.
    rewrite B_name, B_link, B_prefix_val, B_type.
    cbn [nres_all existsb orb].
    assert (ty =? T_AREG = false) as -> by (apply N.eqb_neq; exact Hty0). cbn [andb].
    assert (ty =? T_GNUSPARSE = false) as -> by (apply N.eqb_neq; exact HtyS).
    unfold hdr_read. destruct (ty =? T_DIR); reflexivity.
  Qed.
  Theorem frombuf_hdr_block : frombuf (hdr_block name mode size ty link mt) = HOk (hdr_read name mode size ty link).
  Proof. rewrite hdr_block_B. exact frombuf_B. Qed.
End Block.
