(* TarStream/Frombuf.v — TarInfo.frombuf reads back the block written by TarInfo._create_header. *)
From Coq Require Import List Bool NArith ZArith Lia.
From SF Require Import TarStream.Model TarStream.Proofs TarStream.Trunc TarStream.Roundtrip TarStream.Fields.
Import ListNotations.
Local Open Scope N_scope.

Section Block.
  Variables (name : bytes) (mode size ty : N) (link : bytes) (mt : hmeta).
  Hypothesis Hn : le255 name.
  Hypothesis Hl : le255 link.
  Hypothesis Hm : meta_ok mt.
  Hypothesis Hmode : mode < pow8 7.
  Hypothesis Hsize : size < pow8 11.
  Hypothesis Hty : ty <= 255.

  Let c := 256 + sumN (hdr_pre name mode size mt) + sumN (hdr_post ty link mt).
  Let F6 := oct_digits 6 c ++ [0; 32].
  Let B := blk (stn name 100) (itn8 mode) (itn8 (m_uid mt)) (itn8 (m_gid mt)) (itn12 size) (itn12 (m_mtime mt))
               F6 [ty] (stn link 100) GNU_MAGIC (stn (m_uname mt) 32) (stn (m_gname mt) 32)
               (zeros 8) (zeros 8) (zeros 155) (zeros 12).

  Lemma LF6 : lenN F6 = 8.
  Proof. unfold F6. rewrite lenN_app, lenN_chk. reflexivity. Qed.
  Lemma Lty : lenN [ty] = 1. Proof. reflexivity. Qed.
  Lemma Lmagic : lenN GNU_MAGIC = 8. Proof. reflexivity. Qed.

  Lemma hdr_block_B : hdr_block name mode size ty link mt = B.
  Proof.
    unfold hdr_block. fold c. fold F6. unfold B, blk, hdr_pre, hdr_post. now rewrite <- !app_assoc.
  Qed.

  Lemma c_bound : c < pow8 6.
  Proof.
    pose proof (sumN_bound _ (le255_pre name mode size mt Hn)) as H1.
    pose proof (sumN_bound _ (le255_post ty link mt Hty Hl Hm)) as H2.
    rewrite lenN_pre in H1. rewrite lenN_post in H2. unfold c.
    generalize dependent (sumN (hdr_pre name mode size mt)).
    generalize dependent (sumN (hdr_post ty link mt)). intros s2 H2 s1 H1.
    change (pow8 6) with 262144. lia.
  Qed.

  (* instantiated field lemmas *)
  Ltac inst L := apply L; first [apply lenN_stn | apply lenN_itn8 | apply lenN_itn12 | exact LF6 | exact Lty
                                | exact Lmagic | apply lenN_zeros].
  Lemma B_len : lenN B = 512. Proof. unfold B. inst blk_len. Qed.
  Lemma B_name : slice 0 100 B = stn name 100. Proof. unfold B. inst fld_name. Qed.
  Lemma B_mode : slice 100 108 B = itn8 mode. Proof. unfold B. inst fld_mode. Qed.
  Lemma B_uid : slice 108 116 B = itn8 (m_uid mt). Proof. unfold B. inst fld_uid. Qed.
  Lemma B_gid : slice 116 124 B = itn8 (m_gid mt). Proof. unfold B. inst fld_gid. Qed.
  Lemma B_size : slice 124 136 B = itn12 size. Proof. unfold B. inst fld_size. Qed.
  Lemma B_mtime : slice 136 148 B = itn12 (m_mtime mt). Proof. unfold B. inst fld_mtime. Qed.
  Lemma B_chk : slice 148 156 B = F6. Proof. unfold B. inst fld_chk. Qed.
  Lemma B_link : slice 157 257 B = stn link 100. Proof. unfold B. inst fld_link. Qed.
  Lemma B_dmaj : slice 329 337 B = zeros 8. Proof. unfold B. inst fld_devmajor. Qed.
  Lemma B_dmin : slice 337 345 B = zeros 8. Proof. unfold B. inst fld_devminor. Qed.
  Lemma B_prefix : slice 345 500 B = zeros 155. Proof. unfold B. inst fld_prefix. Qed.
  Lemma B_take : takeN 148 B = hdr_pre name mode size mt.
  Proof. unfold B. rewrite blk_take148; [reflexivity|inst idtac..]. Qed.
End Block.
