(* TarStream/Corr.v — correspondence cases for TarStream/Model.v (used by the C23 check).
   Byte strings travel run-length encoded ([(count, byte)]); [bs "text"] is an ASCII literal. *)
From Coq Require Import List Bool NArith ZArith String Ascii.
From SF Require Import Base.Corr TarStream.Model.
Import ListNotations.
Local Open Scope N_scope.

Definition unrle (l : list (N * N)) : bytes := flat_map (fun p => repeat (snd p) (N.to_nat (fst p))) l.
Definition bs (s : string) : bytes := map N_of_ascii (list_ascii_of_string s).

(* the fake reader of the harness: the data cut into chunks whose sizes cycle through [cyc] *)
Fixpoint chunkify (fuel : nat) (cyc cur : list N) (d : bytes) : stream :=
  match fuel with
  | O => []
  | S f =>
      match d with
      | [] => []
      | _ => match cur with
             | [] => chunkify f cyc cyc d
             | c :: cur' => if c =? 0 then chunkify f cyc cur' d
                            else takeN c d :: chunkify f cyc cur' (dropN c d)
             end
      end
  end.

Definition oentry := (N * N * list (N * N))%type.      (* kind (0 dir, 1 file, 2 symlink), mode, content / link target *)
Definition entry_match (e : entry) (o : oentry) : bool :=
  match e, o with
  | EDir m, (0, m', _) => m =? m'
  | EFile m c, (1, m', r) => (m =? m') && bytes_eqb c (unrle r)
  | ELink t, (2, _, r) => bytes_eqb t (unrle r)
  | _, _ => false
  end.
Definition tree_match (t : tree) (obs : list (bytes * oentry)) : bool :=
  (List.length t =? List.length obs)%nat
  && forallb (fun po => match t_get (fst po) t with Some e => entry_match e (snd po) | None => false end) obs.
Definition outcome_code (o : outcome) : N :=
  match o with Done => 0 | ReadError => 1 | Hang => 2 | Unsupported => 99 end.

(* names are compared modulo a trailing "/": unlike CPython >= 3.12, _proc_gnulong does not strip it from
   long directory names (harmless: every consumer normalises the path) *)
Definition member_match (m : hdr * bytes) (o : bytes * oentry) : bool :=
  let '(name, (ty, mode, r)) := o in
  bytes_eqb (rstrip_slash (h_name (fst m))) name && (h_type (fst m) =? ty) && (h_mode (fst m) =? mode)
  && bytes_eqb (snd m) (unrle r).

Inductive ccase :=
| CExtract (ar : list (N * N)) (chunks : list N) (base : bytes) (dst_isdir : bool) (bufsz : option N)
           (err : N) (tr : list (bytes * oentry))
| CWrite (ms : list (list (N * N) * list (N * N))) (ar : list (N * N)) (mem : list (bytes * oentry))
         (metas : list (bytes * (N * N * N) * (bytes * bytes))).   (* linkname, (uid, gid, mtime), (uname, gname) *)

(* the header writer model (tobuf) reproduces the header blocks the real writer emitted *)
Definition tobuf_match (m : bytes * oentry) (mt : bytes * (N * N * N) * (bytes * bytes)) (blocks : list (N * N)) : bool :=
  let '(name, (ty, mode, r)) := m in
  let '(link, (uid, gid, mtime), (un, gn)) := mt in
  bytes_eqb (tobuf {| h_name := name; h_mode := mode; h_size := lenN (unrle r); h_type := ty; h_link := link |}
                   {| m_uid := uid; m_gid := gid; m_mtime := mtime; m_uname := un; m_gname := gn |})
            (unrle blocks).
Fixpoint tobuf_all (mem : list (bytes * oentry)) (metas : list (bytes * (N * N * N) * (bytes * bytes)))
         (ms : list (list (N * N) * list (N * N))) : bool :=
  match mem, metas, ms with
  | [], [], [] => true
  | m :: mem', mt :: metas', b :: ms' => tobuf_match m mt (fst b) && tobuf_all mem' metas' ms'
  | _, _, _ => false
  end.

Definition check_case (c : ccase) : bool :=
  match c with
  | CExtract ar chunks base isdir bufsz err tr =>
      let d := unrle ar in
      let s := chunkify (2 * List.length d + 2 * List.length chunks + 2) chunks chunks d in
      let '(o, t) := run_chunked false base isdir bufsz s in
      (outcome_code o =? err) && tree_match t tr
  | CWrite ms ar mem metas =>
      let d := unrle ar in
      tobuf_all mem metas ms &&
      bytes_eqb (write_archive (map (fun m => (unrle (fst m), unrle (snd m))) ms)) d
      && match members_flat d with
         | (Done, l) => (List.length l =? List.length mem)%nat && forallb (fun p => member_match (fst p) (snd p)) (combine l mem)
         | _ => false
         end
  end.
