(* TarStream/RoundtripS.v — stream level: the reader lists exactly what the writer archived. *)
From Coq Require Import List Bool NArith ZArith Lia.
From SF Require Import TarStream.Model TarStream.Proofs TarStream.Trunc TarStream.Roundtrip TarStream.Fields TarStream.Frombuf.
Import ListNotations.
Local Open Scope N_scope.

Notation R p u := {| pos := p; und := u |}.
Notation Fread := (read bytes fread).
Notation Ffromtar := (fromtar bytes fread).
Notation Fnext := (next bytes fread fskip false).
Notation Fmembers := (members bytes fread fskip false).

Lemma read_exact : forall n x rest p, lenN x = n -> Fread n (R p (x ++ rest)) = (x, R (p + n) rest).
Proof.
  intros n x rest p H. unfold read, fread. cbn [und pos].
  rewrite takeN_app_ge, dropN_app_ge by (rewrite H; apply N.le_refl).
  rewrite H, N.sub_diag, takeN_0, dropN_0, app_nil_r. rewrite H. reflexivity.
Qed.

Lemma lenN_hdr_block : forall name mode size ty link mt, lenN (hdr_block name mode size ty link mt) = 512.
Proof. intros. unfold hdr_block. rewrite !lenN_app, lenN_pre, lenN_post, lenN_chk. reflexivity. Qed.

Record hb_ok (name : bytes) (mode size ty : N) (link : bytes) (mt : hmeta) : Prop := {
  ok_name : le255 name; ok_link : le255 link; ok_meta : meta_ok mt; ok_mode : mode < pow8 7;
  ok_size : size < pow8 11; ok_ty : ty <= 255; ok_ty0 : ty <> 0; ok_tyS : ty <> T_GNUSPARSE }.

Lemma frombuf_ok : forall name mode size ty link mt, hb_ok name mode size ty link mt ->
  frombuf (hdr_block name mode size ty link mt) = HOk (hdr_read name mode size ty link).
Proof. intros ? ? ? ? ? ? []. now apply frombuf_hdr_block. Qed.

Lemma hdr_read_type : forall n m s t l, h_type (hdr_read n m s t l) = t. Proof. reflexivity. Qed.
Lemma hdr_read_size : forall n m s t l, h_size (hdr_read n m s t l) = s. Proof. reflexivity. Qed.

(* an ordinary header block *)
Lemma fromtar_plain : forall name mode size ty link mt f p rest,
  hb_ok name mode size ty link mt -> ty <> T_GNULONGNAME -> ty <> T_GNULONGLINK -> is_pax_type ty = false ->
  Ffromtar (S f) (R p (hdr_block name mode size ty link mt ++ rest)) =
  (FOk (hdr_read name mode size ty link) (p + 512) (p + 512 + (if has_data ty then block size else 0)),
   R (p + 512) rest).
Proof.
  intros name mode size ty link mt f p rest Hok H1 H2 H3. cbn [fromtar].
  rewrite (read_exact 512) by apply lenN_hdr_block. rewrite (frombuf_ok _ _ _ _ _ _ Hok).
  rewrite hdr_read_type, hdr_read_size.
  assert (ty =? T_GNULONGNAME = false) as -> by (now apply N.eqb_neq).
  assert (ty =? T_GNULONGLINK = false) as -> by (now apply N.eqb_neq).
  cbn [orb]. rewrite H3. reflexivity.
Qed.

Definition patch (lty : N) (s : bytes) (h : hdr) : hdr :=
  if lty =? T_GNULONGNAME
  then {| h_name := s; h_mode := h_mode h; h_size := h_size h; h_type := h_type h; h_link := h_link h |}
  else {| h_name := h_name h; h_mode := h_mode h; h_size := h_size h; h_type := h_type h; h_link := s |}.

Lemma le255_longlink : le255 LONGLINK_NAME.
Proof. unfold LONGLINK_NAME, le255. repeat (constructor; [lia|]). constructor. Qed.
Lemma meta0_ok : meta_ok meta0.
Proof. constructor; cbn; try lia; constructor. Qed.
Lemma pad512_block' : forall n, n + pad512 n = block n. Proof. exact pad512_block. Qed.

(* a GNU long name / long link pseudo-member followed by the real header *)
Lemma fromtar_long : forall lty s f p rest h' od no r3,
  (lty = T_GNULONGNAME \/ lty = T_GNULONGLINK) ->
  le255 s -> Forall (fun b => b <> 0) s -> lenN s + 1 < pow8 11 ->
  Ffromtar f (R (p + 512 + block (lenN s + 1)) rest) = (FOk h' od no, r3) ->
  Ffromtar (S f) (R p (gnu_long lty s ++ rest)) = (FOk (patch lty s h') od no, r3).
Proof.
  intros lty s f p rest h' od no r3 Hlty Hs Hnul Hlen Hin.
  assert (Hpl : lenN (s ++ [0]) = lenN s + 1) by (rewrite lenN_app; reflexivity).
  assert (Hok : hb_ok LONGLINK_NAME 0 (lenN (s ++ [0])) lty [] meta0).
  { constructor.
    - apply le255_longlink.
    - constructor.
    - apply meta0_ok.
    - change (pow8 7) with 2097152. lia.
    - rewrite Hpl. exact Hlen.
    - destruct Hlty; subst; discriminate.
    - destruct Hlty; subst; discriminate.
    - destruct Hlty; subst; discriminate. }
  cbn [fromtar]. unfold gnu_long. cbv zeta. rewrite <- app_assoc.
  rewrite (read_exact 512) by apply lenN_hdr_block. rewrite (frombuf_ok _ _ _ _ _ _ Hok).
  rewrite hdr_read_type, hdr_read_size.
  assert ((lty =? T_GNULONGNAME) || (lty =? T_GNULONGLINK) = true) as ->.
  { destruct Hlty; subst; reflexivity. }
  rewrite (read_exact (block (lenN (s ++ [0])))).
  2:{ rewrite lenN_app, lenN_zeros. apply pad512_block. }
  rewrite Hpl. replace (p + 512 + block (lenN s + 1)) with (p + 512 + block (lenN s + 1)) by reflexivity.
  match goal with |- context [fromtar bytes fread f ?r] =>
    replace (fromtar bytes fread f r) with (FOk h' od no, r3) by (symmetry; exact Hin) end.
  assert (Hnts : nts ((s ++ [0]) ++ zeros (pad512 (lenN s + 1))) = s).
  { rewrite <- app_assoc. cbn [app]. now apply nts_app_nul. }
  rewrite Hnts. unfold patch. destruct Hlty; subst; reflexivity.
Qed.

(* ---------------------------------------------------------------- what is archived, what is read back *)
Record wmem := { w_h : hdr; w_data : bytes; w_mt : hmeta }.
Definition wname (h : hdr) : bytes := if h_type h =? T_DIR then h_name h ++ [47] else h_name h.
Record wf (m : wmem) : Prop := {
  wf_type : h_type (w_h m) = T_REG \/ h_type (w_h m) = T_DIR \/ h_type (w_h m) = T_SYM \/ h_type (w_h m) = T_LNK;
  wf_name : le255 (h_name (w_h m)); wf_name0 : Forall (fun b => b <> 0) (h_name (w_h m));
  wf_slash : ends_slash (h_name (w_h m)) = false; wf_namelen : lenN (h_name (w_h m)) + 2 < pow8 11;
  wf_link : le255 (h_link (w_h m)); wf_link0 : Forall (fun b => b <> 0) (h_link (w_h m));
  wf_linklen : lenN (h_link (w_h m)) + 1 < pow8 11;
  wf_mode : h_mode (w_h m) < 4096;
  wf_size : h_size (w_h m) = lenN (w_data m); wf_sizeb : h_size (w_h m) < pow8 11;
  wf_nodata : h_type (w_h m) <> T_REG -> w_data m = [];
  wf_meta : meta_ok (w_mt m) }.
(* the reader's view: identical, except that a directory whose name needed a GNU long-name record keeps the
   trailing "/" the writer appended (_proc_gnulong does not strip it, unlike CPython >= 3.12) *)
Definition expect_h (h : hdr) : hdr :=
  {| h_name := if (h_type h =? T_DIR) && (100 <? lenN (wname h)) then wname h else h_name h;
     h_mode := h_mode h; h_size := h_size h; h_type := h_type h; h_link := h_link h |}.

Lemma tobuf_eq : forall h mt, ends_slash (h_name h) = false ->
  tobuf h mt = (if 100 <? lenN (h_link h) then gnu_long T_GNULONGLINK (h_link h) else [])
               ++ (if 100 <? lenN (wname h) then gnu_long T_GNULONGNAME (wname h) else [])
               ++ hdr_block (wname h) (N.land (h_mode h) 4095) (h_size h) (h_type h) (h_link h) mt.
Proof.
  intros h mt Hs. unfold tobuf, wname. rewrite Hs. cbn [negb]. rewrite andb_true_r. reflexivity.
Qed.
Lemma lenN_gnu_long : forall ty s, lenN (gnu_long ty s) = 512 + block (lenN s + 1).
Proof.
  intros. unfold gnu_long. cbv zeta. rewrite !lenN_app, lenN_hdr_block, lenN_zeros.
  change (lenN [0]) with 1. rewrite <- (pad512_block (lenN s + 1)). reflexivity.
Qed.
Lemma land_4095 : forall m, m < 4096 -> N.land m 4095 = m.
Proof. intros m H. change 4095 with (N.ones 12). rewrite N.land_ones. apply N.mod_small. exact H. Qed.
Lemma rstrip_slash_snoc : forall s, ends_slash s = false -> rstrip_slash (s ++ [47]) = s.
Proof.
  intros s H. unfold rstrip_slash, ends_slash in *. rewrite rev_app_distr. cbn [rev app rstrip_slash_rev].
  destruct (rev s) as [|x r] eqn:E.
  - cbn. apply (f_equal (@rev N)) in E. rewrite rev_involutive in E. now subst.
  - assert (Hx : x <> 47) by (intros ->; discriminate H).
    assert (rstrip_slash_rev (x :: r) = x :: r) as ->.
    { cbn [rstrip_slash_rev]. destruct x as [|px]; [reflexivity|].
      destruct (N.eq_dec (N.pos px) 47) as [e|ne]; [contradiction|].
      repeat (destruct px as [px|px|]; try reflexivity; try (exfalso; apply ne; reflexivity)). }
    rewrite <- E. apply rev_involutive.
Qed.

(* ---------------------------------------------------------------- one member's header blocks *)
Lemma wf_hb_ok : forall m, wf m ->
  hb_ok (wname (w_h m)) (N.land (h_mode (w_h m)) 4095) (h_size (w_h m)) (h_type (w_h m)) (h_link (w_h m)) (w_mt m).
Proof.
  intros m W. destruct W. constructor; try assumption.
  - unfold wname. destruct (h_type (w_h m) =? T_DIR); [|assumption].
    apply le255_app; [assumption|]. repeat constructor. lia.
  - rewrite land_4095 by assumption. change (pow8 7) with 2097152. lia.
  - destruct wf_type0 as [e|[e|[e|e]]]; rewrite e; discriminate.
  - destruct wf_type0 as [e|[e|[e|e]]]; rewrite e; discriminate.
  - destruct wf_type0 as [e|[e|[e|e]]]; rewrite e; discriminate.
Qed.
Lemma wname_nonul : forall m, wf m -> Forall (fun b => b <> 0) (wname (w_h m)).
Proof.
  intros m W. unfold wname. destruct (h_type (w_h m) =? T_DIR); [|apply W].
  apply Forall_app. split; [apply W|]. repeat constructor. discriminate.
Qed.
Lemma wname_le255 : forall m, wf m -> le255 (wname (w_h m)).
Proof. intros m W. apply (wf_hb_ok m W). Qed.
Lemma wname_len : forall m, wf m -> lenN (wname (w_h m)) + 1 < pow8 11.
Proof.
  intros m W. pose proof (wf_namelen m W) as H. unfold wname. destruct (h_type (w_h m) =? T_DIR); [|lia].
  rewrite lenN_app. change (lenN [47]) with 1. lia.
Qed.

Lemma patch_name : forall s h, patch T_GNULONGNAME s h =
  {| h_name := s; h_mode := h_mode h; h_size := h_size h; h_type := h_type h; h_link := h_link h |}.
Proof. reflexivity. Qed.
Lemma patch_link : forall s h, patch T_GNULONGLINK s h =
  {| h_name := h_name h; h_mode := h_mode h; h_size := h_size h; h_type := h_type h; h_link := s |}.
Proof. reflexivity. Qed.

Lemma fromtar_tobuf : forall m f p rest, wf m ->
  let hb := tobuf (w_h m) (w_mt m) in
  Ffromtar (S (S (S f))) (R p (hb ++ rest)) =
  (FOk (expect_h (w_h m)) (p + lenN hb)
       (p + lenN hb + (if has_data (h_type (w_h m)) then block (h_size (w_h m)) else 0)),
   R (p + lenN hb) rest).
Proof.
  intros m f p rest W hb. subst hb. rewrite (tobuf_eq _ _ (wf_slash m W)).
  pose proof (wf_hb_ok m W) as Hok. pose proof (wname_nonul m W) as Hn0. pose proof (wname_le255 m W) as Hn255.
  pose proof (wname_len m W) as Hnl.
  set (h := w_h m) in *. set (mt := w_mt m) in *.
  assert (Ht : h_type h <> T_GNULONGNAME /\ h_type h <> T_GNULONGLINK /\ is_pax_type (h_type h) = false).
  { destruct (wf_type m W) as [e|[e|[e|e]]]; fold h in e; rewrite e; repeat split; discriminate. }
  destruct Ht as (T1 & T2 & T3).
  assert (Hmode : N.land (h_mode h) 4095 = h_mode h) by (apply land_4095; apply W).
  assert (Hlinkr : lenN (h_link h) <= 100 -> nts (stn (h_link h) 100) = h_link h).
  { intros. apply nts_stn; [apply W|assumption]. }
  assert (Hnamer : lenN (wname h) <= 100 ->
                   (if h_type h =? T_DIR then rstrip_slash (nts (stn (wname h) 100)) else nts (stn (wname h) 100))
                   = h_name h).
  { intros Hle. rewrite nts_stn by assumption. unfold wname. destruct (h_type h =? T_DIR); [|reflexivity].
    apply rstrip_slash_snoc. apply W. }
  assert (Hlong : (if h_type h =? T_DIR then wname h else h_name h) = wname h)
    by (unfold wname; destruct (h_type h =? T_DIR); reflexivity).
  destruct (N.ltb_spec 100 (lenN (h_link h))) as [LK|LK]; destruct (N.ltb_spec 100 (lenN (wname h))) as [LN|LN].
  - (* long link, long name *)
    rewrite <- !app_assoc.
    erewrite (fromtar_long T_GNULONGLINK (h_link h) (S (S f))); [| right; reflexivity | apply W | apply W | apply W |].
    2:{ erewrite (fromtar_long T_GNULONGNAME (wname h) (S f)); [| left; reflexivity | assumption..|].
        2:{ apply fromtar_plain; assumption. }
        reflexivity. }
    rewrite !lenN_app, !lenN_gnu_long, lenN_hdr_block. rewrite ?patch_link, ?patch_name. unfold expect_h, hdr_read. cbn [h_type h_name h_mode h_size h_link].
    apply N.ltb_lt in LN. rewrite LN, andb_true_r, Hmode, Hlong.
    f_equal; [f_equal; try reflexivity; lia | f_equal; lia].
  - (* long link only *)
    cbn [app]. rewrite <- !app_assoc.
    erewrite (fromtar_long T_GNULONGLINK (h_link h) (S (S f))); [| right; reflexivity | apply W | apply W | apply W |].
    2:{ apply fromtar_plain; assumption. }
    rewrite !lenN_app, !lenN_gnu_long, lenN_hdr_block. rewrite ?patch_link, ?patch_name. unfold expect_h, hdr_read. cbn [h_type h_name h_mode h_size h_link].
    rewrite (Hnamer LN), Hmode. apply N.ltb_ge in LN. rewrite LN, andb_false_r.
    f_equal; [f_equal; try reflexivity; lia | f_equal; lia].
  - (* long name only *)
    cbn [app]. rewrite <- !app_assoc.
    erewrite (fromtar_long T_GNULONGNAME (wname h) (S (S f))); [| left; reflexivity | assumption..|].
    2:{ apply fromtar_plain; assumption. }
    rewrite !lenN_app, !lenN_gnu_long, lenN_hdr_block. rewrite ?patch_link, ?patch_name. unfold expect_h, hdr_read. cbn [h_type h_name h_mode h_size h_link].
    rewrite (Hlinkr LK), Hmode. apply N.ltb_lt in LN. rewrite LN, andb_true_r, Hlong.
    f_equal; [f_equal; try reflexivity; lia | f_equal; lia].
  - (* short *)
    cbn [app]. rewrite fromtar_plain by assumption.
    rewrite lenN_hdr_block. unfold expect_h, hdr_read. cbn [h_type h_name h_mode h_size h_link].
    rewrite (Hnamer LN), (Hlinkr LK), Hmode. apply N.ltb_ge in LN. rewrite LN, andb_false_r. reflexivity.
Qed.

(* ---------------------------------------------------------------- skipping padding on a stream that has it *)
Lemma dropN_dropN : forall l a b, dropN a (dropN b l) = dropN (a + b) l.
Proof.
  induction l as [|x l IH]; intros a b; [now rewrite !dropN_all by (unfold lenN; simpl; lia)|].
  cbn [dropN]. destruct (N.eqb_spec b 0) as [->|Hb].
  - rewrite N.add_0_r. reflexivity.
  - assert (a + b =? 0 = false) as -> by (apply N.eqb_neq; lia). rewrite IH. f_equal. lia.
Qed.

Lemma advance_flat : forall off p u, p <= off -> off - p <= lenN u ->
  advance bytes fread fskip false off (R p u) = Some (R off (dropN (off - p) u)).
Proof.
  intros off p u Hle Hlen. unfold advance. cbn [pos].
  destruct (N.eqb_spec off p) as [->|Hne]; [now rewrite N.sub_diag, dropN_0|].
  assert (Hlt : p < off) by lia. unfold seek. cbn [pos und].
  destruct (N.ltb_spec p (off - 1)) as [Ha|Hb].
  - unfold fskip, read, fread. cbn [pos und fst snd].
    set (k := off - 1 - p) in *. assert (Hk : off - p = 1 + k) by (subst k; lia).
    rewrite Hk in *. rewrite !lenN_takeN, lenN_dropN.
    replace (N.min k (lenN u)) with k by lia. replace (N.min 1 (lenN u - k)) with 1 by lia.
    cbn [N.eqb]. rewrite dropN_dropN. f_equal. f_equal. subst k. lia.
  - assert (off - 1 <? p = false) as -> by (apply N.ltb_ge; lia).
    unfold read, fread. cbn [pos und fst snd]. rewrite lenN_takeN.
    assert (Hk : off - p = 1) by lia. rewrite Hk in *.
    replace (N.min 1 (lenN u)) with 1 by lia. cbn [N.eqb]. f_equal. f_equal. lia.
Qed.

(* ---------------------------------------------------------------- the whole archive *)
Definition enc (m : wmem) : bytes * bytes := (tobuf (w_h m) (w_mt m), w_data m).
Definition encs (ms : list wmem) : bytes := concat (map (fun m => add_member (fst (enc m)) (snd (enc m))) ms).
Definition expect (m : wmem) : hdr * bytes := (expect_h (w_h m), w_data m).

Lemma has_data_wf : forall m, wf m ->
  (h_type (w_h m) = T_REG /\ has_data (h_type (w_h m)) = true)
  \/ (has_data (h_type (w_h m)) = false /\ w_data m = []).
Proof.
  intros m W. destruct (wf_type m W) as [e|[e|[e|e]]].
  - left. rewrite e. split; reflexivity.
  - right. split; [rewrite e; reflexivity|apply W; rewrite e; discriminate].
  - right. split; [rewrite e; reflexivity|apply W; rewrite e; discriminate].
  - right. split; [rewrite e; reflexivity|apply W; rewrite e; discriminate].
Qed.

Lemma zeros_512_eof : frombuf (zeros 512) = HEof.
Proof. vm_compute. reflexivity. Qed.

Lemma members_S : forall f off r acc,
  Fmembers (S f) off r acc =
  match Fnext (S f) off r with
  | (NxErr, _) => (ReadError, acc)
  | (NxNone, _) => (Done, acc)
  | (NxUnsup, _) => (Unsupported, acc)
  | (NxFuel, _) => (Hang, acc)
  | (NxMem h od no, r1) =>
      if has_data (h_type h) then
        match fsr_loop bytes fread fskip false (S f) None od (h_size h) 0 r1 [] with
        | (Done, data, r2) => Fmembers f no r2 (acc ++ [(h, data)])
        | (o, data, _) => (o, acc ++ [(h, data)])
        end
      else Fmembers f no r1 (acc ++ [(h, [])])
  end.
Proof. reflexivity. Qed.
Lemma fsr_loop_S : forall f bufsz od size position r acc,
  fsr_loop bytes fread fskip false (S f) bufsz od size position r acc =
  if size <=? position then (Done, acc, r)
  else
    let remaining := size - position in
    let len := match bufsz with Some b => N.min b remaining | None => remaining end in
    if len =? 0 then (Done, acc, r)
    else match seek bytes fskip (od + position) r with
         | None => (ReadError, acc, r)
         | Some r1 =>
             let '(buf, r2) := Fread len r1 in
             if negb false && negb (lenN buf =? len) then (ReadError, acc, r2)
             else if lenN buf =? 0 then (Done, acc, r2)
             else fsr_loop bytes fread fskip false f bufsz od size (position + lenN buf) r2 (acc ++ buf)
         end.
Proof. reflexivity. Qed.

Lemma members_encs : forall ms fuel off r acc tail,
  Forall wf ms -> (length ms + 3 <= fuel)%nat ->
  (negb (off =? pos r) && (off =? 0)) = false ->
  advance bytes fread fskip false off r = Some (R off (encs ms ++ zeros 512 ++ tail)) ->
  Fmembers fuel off r acc = (Done, acc ++ map expect ms).
Proof.
  induction ms as [|m ms IH]; intros fuel off r acc tail Hwf Hfuel Hc Hadv.
  - destruct fuel as [|f]; [cbn in Hfuel; lia|]. rewrite members_S. unfold next. rewrite Hc, Hadv.
    cbn [encs map concat app]. cbn [fromtar].
    rewrite (read_exact 512) by apply lenN_zeros. rewrite zeros_512_eof. cbn [map]. now rewrite app_nil_r.
  - inversion Hwf as [|? ? W Hwf']; subst.
    destruct fuel as [|[|[|[|f]]]]; try (cbn [length] in Hfuel; lia).
    rewrite members_S. unfold next. rewrite Hc, Hadv.
    cbn [encs map concat]. unfold add_member at 1. cbn [enc fst snd]. rewrite <- !app_assoc.
    rewrite (fromtar_tobuf m (S f) off _ W). cbv zeta.
    set (hb := tobuf (w_h m) (w_mt m)). set (od := off + lenN hb).
    fold (encs ms).
    assert (Hod : od <> 0).
    { subst od hb. rewrite (tobuf_eq _ _ (wf_slash m W)), !lenN_app, lenN_hdr_block. lia. }
    destruct (has_data_wf m W) as [[Hreg Hd]|[Hd Hnil]]; change (h_type (expect_h (w_h m))) with (h_type (w_h m)); rewrite Hd.
    + (* regular file *)
      change (h_size (expect_h (w_h m))) with (h_size (w_h m)).
      rewrite (wf_size m W). set (size := lenN (w_data m)).
      destruct (N.eqb_spec size 0) as [Hz|Hnz].
      * (* empty file *)
        assert (Hdata : w_data m = []) by (apply lenN_nil_iff; exact Hz).
        rewrite fsr_loop_S. rewrite Hz. change (0 <=? 0) with true. cbv iota. rewrite Hdata. cbn [app lenN length N.of_nat].
        change (pad512 0) with 0. change (zeros 0) with (@nil N). cbn [app].
        rewrite (IH _ _ _ (acc ++ [(expect_h (w_h m), [])]) tail Hwf');
          [rewrite <- app_assoc; unfold expect at 2; now rewrite Hdata|cbn [length] in *; lia| |].
        -- change (block 0) with 0. rewrite N.add_0_r. cbn [pos]. now rewrite N.eqb_refl.
        -- change (block 0) with 0. rewrite N.add_0_r. rewrite advance_flat by (cbn [und]; lia).
           now rewrite N.sub_diag, dropN_0.
      * (* data, then padding *)
        rewrite fsr_loop_S. cbv zeta.
        assert (size <=? 0 = false) as -> by (apply N.leb_gt; lia).
        rewrite N.sub_0_r. assert (size =? 0 = false) as -> by (now apply N.eqb_neq).
        unfold seek. cbn [pos und]. rewrite N.add_0_r, N.ltb_irrefl.
        rewrite (read_exact size) by reflexivity.
        change (lenN (w_data m)) with size.
        cbn [negb andb]. rewrite N.eqb_refl. cbn [negb].
        assert (size =? 0 = false) as -> by (now apply N.eqb_neq).
        rewrite fsr_loop_S. assert (size <=? 0 + size = true) as -> by (apply N.leb_le; lia).
        cbn [app].
        rewrite (IH _ _ _ (acc ++ [expect m]) tail Hwf'); [now rewrite <- app_assoc|cbn [length] in *; lia| |].
        -- cbn [pos]. assert (od + block size =? 0 = false) as -> by (apply N.eqb_neq; lia). apply andb_false_r.
        -- pose proof (pad512_block size) as Hb. rewrite advance_flat.
           ++ f_equal. f_equal. replace (od + block size - (od + size)) with (pad512 size) by lia.
              rewrite dropN_app_ge by (rewrite lenN_zeros; lia). rewrite lenN_zeros, N.sub_diag. apply dropN_0.
           ++ lia.
           ++ rewrite lenN_app, lenN_zeros. lia.
    + (* directory / link: no data *)
      rewrite Hnil. cbn [app lenN length N.of_nat]. change (pad512 0) with 0. change (zeros 0) with (@nil N). cbn [app].
      rewrite N.add_0_r.
      rewrite (IH _ _ _ (acc ++ [(expect_h (w_h m), [])]) tail Hwf').
      * rewrite <- app_assoc. unfold expect at 2. now rewrite Hnil.
      * cbn [length] in *; lia.
      * cbn [pos]. now rewrite N.eqb_refl.
      * rewrite advance_flat by (cbn [und]; lia). now rewrite N.sub_diag, dropN_0.
Qed.

Lemma add_member_pos : forall h mt d, (1 <= length (add_member (tobuf h mt) d))%nat.
Proof.
  intros. unfold add_member, tobuf. cbv zeta. rewrite !app_length.
  match goal with |- context [length (hdr_block ?a ?b ?c ?d ?e ?f)] =>
    pose proof (lenN_hdr_block a b c d e f) as H; unfold lenN in H;
    apply (f_equal N.to_nat) in H; rewrite Nat2N.id in H; rewrite H end.
  change (N.to_nat 512) with 512%nat. lia.
Qed.
Lemma encs_len : forall ms, (length ms <= length (encs ms))%nat.
Proof.
  induction ms as [|m ms IH]; [cbn; lia|]. unfold encs in *. cbn [map concat]. rewrite app_length.
  pose proof (add_member_pos (w_h m) (w_mt m) (w_data m)). cbn [enc fst snd length] in *. lia.
Qed.
Lemma zeros_1024 : zeros 1024 = zeros 512 ++ zeros 512.
Proof. vm_compute. reflexivity. Qed.

(* reader after writer = identity on member lists, any number of members, any name/link length *)
Theorem roundtrip : forall ms, Forall wf ms ->
  members_flat (write_archive (map enc ms)) = (Done, map expect ms).
Proof.
  intros ms Hwf. unfold members_flat, write_archive. rewrite map_map. fold (encs ms).
  unfold close_marker. rewrite zeros_1024, <- !app_assoc.
  match goal with |- context [encs ms ++ zeros 512 ++ ?t] => set (tail := t) end.
  apply (members_encs ms _ 0 _ [] tail Hwf).
  - rewrite !app_length. pose proof (encs_len ms).
    assert (length (zeros 512) = 512%nat) by (unfold zeros; apply repeat_length). lia.
  - reflexivity.
  - rewrite advance_flat; [now rewrite N.sub_diag, dropN_0|lia|lia].
Qed.

(* ---- a concrete well-formed list: directory, file with a 120-byte name, symlink, hard link ---- *)
Definition ex_meta : hmeta := {| m_uid := 0; m_gid := 0; m_mtime := 1000000000; m_uname := [114;111;111;116]; m_gname := [114;111;111;116] |}.
Definition ex_long : bytes := [100; 47] ++ repeat 76 120.
Definition ex_ms : list wmem :=
  [ {| w_h := {| h_name := [100]; h_mode := 493; h_size := 0; h_type := T_DIR; h_link := [] |}; w_data := []; w_mt := ex_meta |};
    {| w_h := {| h_name := ex_long; h_mode := 420; h_size := 700; h_type := T_REG; h_link := [] |};
       w_data := repeat 65 700; w_mt := ex_meta |};
    {| w_h := {| h_name := [100;47;108]; h_mode := 511; h_size := 0; h_type := T_SYM; h_link := [46;46;47;120] |};
       w_data := []; w_mt := ex_meta |};
    {| w_h := {| h_name := [100;47;104]; h_mode := 420; h_size := 0; h_type := T_LNK; h_link := ex_long |};
       w_data := []; w_mt := ex_meta |} ].
Lemma ex_ms_computes :
  members_flat (write_archive (map enc ex_ms)) = (Done, map expect ex_ms) /\ map expect ex_ms = map (fun m => (w_h m, w_data m)) ex_ms
  /\ lenN (write_archive (map enc ex_ms)) = 10240.
Proof. vm_compute. repeat split; reflexivity. Qed.

Lemma le255_dec : forall l, forallb (fun b => b <=? 255) l = true -> le255 l.
Proof. intros l H. apply Forall_forall. intros x Hx. rewrite forallb_forall in H. apply N.leb_le. now apply H. Qed.
Lemma nonul_dec : forall l, forallb (fun b => negb (b =? 0)) l = true -> Forall (fun b => b <> 0) l.
Proof.
  intros l H. apply Forall_forall. intros x Hx. rewrite forallb_forall in H. specialize (H x Hx).
  apply negb_true_iff, N.eqb_neq in H. exact H.
Qed.
Lemma ex_meta_ok : meta_ok ex_meta.
Proof. constructor; try (vm_compute; reflexivity); apply le255_dec; reflexivity. Qed.
Ltac wf1 tac :=
  constructor; cbn [w_h w_data w_mt h_name h_mode h_size h_type h_link];
  [ tac | apply le255_dec; vm_compute; reflexivity | apply nonul_dec; vm_compute; reflexivity
  | vm_compute; reflexivity | vm_compute; reflexivity
  | apply le255_dec; vm_compute; reflexivity | apply nonul_dec; vm_compute; reflexivity
  | vm_compute; reflexivity | vm_compute; reflexivity | vm_compute; reflexivity | vm_compute; reflexivity
  | intros H; first [reflexivity | exfalso; apply H; reflexivity] | exact ex_meta_ok ].
Lemma ex_ms_wf : Forall wf ex_ms.
Proof.
  unfold ex_ms. constructor; [wf1 ltac:(right; left; reflexivity)|].
  constructor; [wf1 ltac:(left; reflexivity)|].
  constructor; [wf1 ltac:(right; right; left; reflexivity)|].
  constructor; [wf1 ltac:(right; right; right; reflexivity)|]. constructor.
Qed.

(* ---- the GNU long-name payload (name + NUL) exactly one block: a 511-byte path, empty file, followed by another
   member (the configuration a reader that skips "BLOCKSIZE - size % BLOCKSIZE" after the payload gets wrong) ---- *)
Definition ex_511_name : bytes := [100; 47] ++ repeat 69 509.
Definition ex_511 : list wmem :=
  [ {| w_h := {| h_name := [100]; h_mode := 493; h_size := 0; h_type := T_DIR; h_link := [] |}; w_data := []; w_mt := ex_meta |};
    {| w_h := {| h_name := ex_511_name; h_mode := 420; h_size := 0; h_type := T_REG; h_link := [] |}; w_data := []; w_mt := ex_meta |};
    {| w_h := {| h_name := [100;47;122]; h_mode := 384; h_size := 7; h_type := T_REG; h_link := [] |};
       w_data := repeat 90 7; w_mt := ex_meta |} ].
Lemma ex_511_wf : Forall wf ex_511.
Proof.
  unfold ex_511. constructor; [wf1 ltac:(right; left; reflexivity)|].
  constructor; [wf1 ltac:(left; reflexivity)|].
  constructor; [wf1 ltac:(left; reflexivity)|]. constructor.
Qed.
Lemma ex_511_computes :
  lenN ex_511_name = 511 /\ block (lenN ex_511_name + 1) = 512
  /\ members_flat (write_archive (map enc ex_511)) = (Done, map (fun m => (w_h m, w_data m)) ex_511).
Proof. vm_compute. repeat split; reflexivity. Qed.
