(* TarStream/Prefix.v — truncation in general: reading a prefix of a stream (same fuel) ends in ReadError, or
   yields a prefix of the member list; the only way to return normally with fewer members is a short read of a
   HEADER block at a non-zero offset (the header-level leniency of AioTarStream.next). *)
From Coq Require Import List Bool NArith Lia.
From SF Require Import TarStream.Model TarStream.Proofs.
Import ListNotations.
Local Open Scope N_scope.

Notation Fread := (read bytes fread).
Notation Fseek := (seek bytes fskip).
Notation Fadvance := (advance bytes fread fskip false).
Notation Ffromtar := (fromtar bytes fread).
Notation Fnext := (next bytes fread fskip false).
Notation Ffsr := (fsr_loop bytes fread fskip false).
Notation Fmembers := (members bytes fread fskip false).

(* rt reads a prefix of what rf reads, from the same position *)
Definition Sync (rf rt : rst bytes) : Prop := pos rf = pos rt /\ exists w, und rf = und rt ++ w.

Lemma takeN_app_le : forall n c l, n <= lenN c -> takeN n (c ++ l) = takeN n c.
Proof.
  intros. rewrite !takeN_firstn, firstn_app. unfold lenN in *.
  replace (N.to_nat n - length c)%nat with 0%nat by lia. simpl. apply app_nil_r.
Qed.
Lemma dropN_app_le : forall n c l, n <= lenN c -> dropN n (c ++ l) = dropN n c ++ l.
Proof.
  intros. rewrite !dropN_skipn, skipn_app. unfold lenN in *.
  replace (N.to_nat n - length c)%nat with 0%nat by lia. reflexivity.
Qed.

(* one read: either the same bytes and still in step, or a short read that leaves the cut stream at EOF *)
Lemma read_trunc : forall n rf rt, Sync rf rt ->
  (fst (Fread n rt) = fst (Fread n rf) /\ Sync (snd (Fread n rf)) (snd (Fread n rt)))
  \/ (lenN (fst (Fread n rt)) < n /\ fst (Fread n rt) = und rt /\ und (snd (Fread n rt)) = []).
Proof.
  intros n [pf uf] [pt ut] [Hp [w Hw]]. cbn [pos und] in *. subst pf uf. unfold read, fread. cbn [pos und fst snd].
  destruct (N.le_gt_cases n (lenN ut)) as [Hle|Hgt].
  - left. rewrite takeN_app_le, dropN_app_le by assumption. split; [reflexivity|].
    split; cbn [pos und]; [reflexivity|]. now exists w.
  - right. rewrite takeN_all, dropN_all by lia. repeat split. exact Hgt.
Qed.
Lemma read_eof : forall n r, und r = [] -> fst (Fread n r) = [] /\ und (snd (Fread n r)) = [].
Proof. intros n [p u] H. cbn [und] in H. subst. unfold read, fread. cbn. split; reflexivity. Qed.

Lemma seek_trunc : forall off rf rt, Sync rf rt ->
  (Fseek off rf = None /\ Fseek off rt = None)
  \/ exists a b, Fseek off rf = Some a /\ Fseek off rt = Some b /\ (Sync a b \/ und b = []).
Proof.
  intros off [pf uf] [pt ut] [Hp [w Hw]]. cbn [pos und] in *. subst pf uf. unfold seek. cbn [pos und].
  destruct (pt <? off).
  - right. unfold fskip. do 2 eexists. split; [reflexivity|]. split; [reflexivity|]. cbn [pos und].
    destruct (N.le_gt_cases (off - pt) (lenN ut)) as [Hle|Hgt].
    + left. rewrite takeN_app_le, dropN_app_le by assumption. split; cbn [pos und]; [reflexivity|now exists w].
    + right. apply dropN_all. lia.
  - destruct (off <? pt); [left; split; reflexivity|].
    right. do 2 eexists. split; [reflexivity|]. split; [reflexivity|]. left. split; cbn; [reflexivity|now exists w].
Qed.

Lemma advance_trunc : forall off rf rt, Sync rf rt ->
  Fadvance off rt = None
  \/ exists a b, Fadvance off rf = Some a /\ Fadvance off rt = Some b /\ Sync a b.
Proof.
  intros off rf rt H. unfold advance. destruct H as [Hp Hw]. rewrite Hp.
  destruct (off =? pos rt); [right; exists rf, rt; repeat split; assumption|].
  destruct (seek_trunc (off - 1) rf rt (conj Hp Hw)) as [[_ ->]|(a & b & -> & -> & [Hs|He])]; [now left| |].
  - destruct (read_trunc 1 a b Hs) as [[Hb Hs']|(Hlt & _ & _)].
    + destruct (Fread 1 a) as [ba a'], (Fread 1 b) as [bb b']. cbn [fst snd] in *. subst bb.
      destruct (lenN ba =? 0); [now left|]. right. exists a', b'. repeat split; try reflexivity; apply Hs'.
    + left. destruct (Fread 1 b) as [bb b']. cbn [fst] in Hlt.
      assert (lenN bb =? 0 = true) as -> by (apply N.eqb_eq; lia). reflexivity.
  - left. destruct (read_eof 1 b He) as [Hb _]. destruct (Fread 1 b) as [bb b']. cbn [fst] in Hb. subst bb. reflexivity.
Qed.

Lemma frombuf_short : forall b, lenN b < 512 -> frombuf b = HEmpty \/ frombuf b = HTrunc.
Proof.
  intros b H. unfold frombuf. destruct (lenN b =? 0); [now left|].
  assert (lenN b =? 512 = false) as -> by (apply N.eqb_neq; lia). now right.
Qed.
Lemma fromtar_eof_S : forall f r, und r = [] -> fst (Ffromtar (S f) r) = FHdr HEmpty.
Proof.
  intros f r H. cbn [fromtar]. destruct (read_eof 512 r H) as [Hb _].
  destruct (Fread 512 r) as [b r1]. cbn [fst] in Hb. subst b. reflexivity.
Qed.

Definition short_hdr (e : hres) : Prop := e = HEmpty \/ e = HTrunc.

Lemma fromtar_trunc : forall fuel rf rt, Sync rf rt ->
  (fst (Ffromtar fuel rt) = fst (Ffromtar fuel rf)
   /\ (forall h od no, fst (Ffromtar fuel rf) = FOk h od no -> Sync (snd (Ffromtar fuel rf)) (snd (Ffromtar fuel rt))))
  \/ (exists e, fst (Ffromtar fuel rt) = FHdr e /\ short_hdr e /\ lenN (und rt) < 512)
  \/ fst (Ffromtar fuel rt) = FSub
  \/ fst (Ffromtar fuel rt) = FFuel
  \/ (fst (Ffromtar fuel rt) = FHdr HInvalid /\ und (snd (Ffromtar fuel rt)) = []).
Proof.
  induction fuel as [|f IH]; intros rf rt H; [left; split; [reflexivity|intros; discriminate]|].
  cbn [fromtar]. destruct (read_trunc 512 rf rt H) as [[Hb Hs]|(Hlt & Hb & He)].
  2:{ right. left. destruct (Fread 512 rt) as [bt rt1]. cbn [fst snd] in *. subst bt.
      destruct (frombuf_short _ Hlt) as [E|E]; rewrite E; eexists; (split; [reflexivity|split; [|exact Hlt]]);
        [now left|now right]. }
  destruct (Fread 512 rf) as [bf rf1], (Fread 512 rt) as [bt rt1]. cbn [fst snd] in *. subst bt.
  destruct (frombuf bf) as [| | | | |h]; try (left; split; [reflexivity|intros; discriminate]).
  destruct ((h_type h =? T_GNULONGNAME) || (h_type h =? T_GNULONGLINK)).
  - destruct (read_trunc (block (h_size h)) rf1 rt1 Hs) as [[Hb2 Hs2]|(_ & _ & He2)].
    + destruct (Fread (block (h_size h)) rf1) as [nf rf2], (Fread (block (h_size h)) rt1) as [nt rt2].
      cbn [fst snd] in *. subst nt.
      destruct (IH rf2 rt2 Hs2) as [[E HS]|[(e & E & Hsh & _)|[E|[E|[E _]]]]].
      * left. destruct (Ffromtar f rf2) as [xf rf3], (Ffromtar f rt2) as [xt rt3]. cbn [fst snd] in *. subst xt.
        destruct xf as [e| | |h' od no|]; try destruct e; cbn [fst snd]; (split; [reflexivity|]); intros; try discriminate.
        eapply HS. reflexivity.
      * right. right. left. destruct (Ffromtar f rt2) as [xt rt3]. cbn [fst] in E. subst xt.
        destruct Hsh as [-> | ->]; reflexivity.
      * right. right. left. destruct (Ffromtar f rt2) as [xt rt3]. cbn [fst] in E. subst xt. reflexivity.
      * right. right. right. left. destruct (Ffromtar f rt2) as [xt rt3]. cbn [fst] in E. subst xt. reflexivity.
      * right. right. left. destruct (Ffromtar f rt2) as [xt rt3]. cbn [fst] in E. subst xt. reflexivity.
    + (* the long-name data is cut: the cut stream is at EOF *)
      destruct (Fread (block (h_size h)) rf1) as [nf rf2], (Fread (block (h_size h)) rt1) as [nt rt2].
      cbn [snd] in He2. destruct f as [|f'].
      * left. cbn [fromtar fst snd]. split; [reflexivity|intros; discriminate].
      * right. right. left. pose proof (fromtar_eof_S f' rt2 He2) as E.
        destruct (Ffromtar (S f') rt2) as [xt rt3]. cbn [fst] in E. subst xt. reflexivity.
  - destruct (is_pax_type (h_type h)).
    + destruct (h_type h =? 103); [left; split; [reflexivity|intros; discriminate]|].
      destruct (read_trunc (block (h_size h)) rf1 rt1 Hs) as [[Hb2 Hs2]|(_ & _ & He2)].
      * destruct (Fread (block (h_size h)) rf1) as [nf rf2], (Fread (block (h_size h)) rt1) as [nt rt2].
        cbn [fst snd] in *. subst nt.
        destruct (parse_pax (S (length nf)) nf 0 []) as [recs|]; [|left; split; [reflexivity|intros; discriminate]].
        destruct (IH rf2 rt2 Hs2) as [[E HS]|[(e & E & Hsh & _)|[E|[E|[E _]]]]].
        -- left. destruct (Ffromtar f rf2) as [xf rf3], (Ffromtar f rt2) as [xt rt3]. cbn [fst snd] in *. subst xt.
           destruct xf as [e| | |h' od no|]; try destruct e; try destruct (pax_sparse recs); cbn [fst snd];
             (split; [reflexivity|]); intros; try discriminate. eapply HS. reflexivity.
        -- right. right. left. destruct (Ffromtar f rt2) as [xt rt3]. cbn [fst] in E. subst xt.
           destruct Hsh as [-> | ->]; reflexivity.
        -- right. right. left. destruct (Ffromtar f rt2) as [xt rt3]. cbn [fst] in E. subst xt. reflexivity.
        -- right. right. right. left. destruct (Ffromtar f rt2) as [xt rt3]. cbn [fst] in E. subst xt. reflexivity.
        -- right. right. left. destruct (Ffromtar f rt2) as [xt rt3]. cbn [fst] in E. subst xt. reflexivity.
      * (* the pax payload is cut: the cut stream is at EOF *)
        destruct (Fread (block (h_size h)) rf1) as [nf rf2], (Fread (block (h_size h)) rt1) as [nt rt2].
        cbn [snd] in He2.
        destruct (parse_pax (S (length nt)) nt 0 []) as [recs|].
        -- destruct f as [|f'].
           ++ right. right. right. left. reflexivity.
           ++ right. right. left. pose proof (fromtar_eof_S f' rt2 He2) as E.
              destruct (Ffromtar (S f') rt2) as [xt rt3]. cbn [fst] in E. subst xt. reflexivity.
        -- right. right. right. right. split; [reflexivity|exact He2].
    + left. destruct Hs as [Hp Hw]. cbn [fst snd]. rewrite Hp. split; [reflexivity|]. intros. split; assumption.
Qed.

(* AioTarStream.next on the cut stream: an error, or the same answer, or — the leniency — a normal "end of
   archive" because the 512-byte header read at a non-zero offset came back short *)
Definition lenient_end (fuel : nat) (off : N) (rt : rst bytes) : Prop :=
  off <> 0 /\ exists b, Fadvance off rt = Some b
              /\ (lenN (und b) < 512
                  \/ (fst (Ffromtar fuel b) = FHdr HInvalid /\ und (snd (Ffromtar fuel b)) = [])).

Lemma next_trunc : forall fuel off rf rt, Sync rf rt ->
  fst (Fnext fuel off rt) = NxErr
  \/ (fst (Fnext fuel off rt) = fst (Fnext fuel off rf)
      /\ (forall h od no, fst (Fnext fuel off rf) = NxMem h od no -> Sync (snd (Fnext fuel off rf)) (snd (Fnext fuel off rt))))
  \/ (fst (Fnext fuel off rt) = NxNone /\ lenient_end fuel off rt)
  \/ fst (Fnext fuel off rt) = NxFuel.
Proof.
  intros fuel off rf rt H. unfold next. pose proof H as [Hp _]. rewrite Hp.
  destruct (negb (off =? pos rt) && (off =? 0)); [right; left; split; [reflexivity|intros; discriminate]|].
  destruct (advance_trunc off rf rt H) as [E|(a & b & Ea & Eb & Hs)]; [rewrite E; now left|].
  rewrite Ea, Eb.
  destruct (fromtar_trunc fuel a b Hs) as [[E HS]|[(e & E & Hsh & Hlen)|[E|[E|[E He]]]]].
  - right. left. destruct (Ffromtar fuel a) as [xf a'], (Ffromtar fuel b) as [xt b']. cbn [fst snd] in *. subst xt.
    destruct xf as [e| | |h od no|]; try destruct e; try destruct (off =? 0); cbn [fst snd];
      (split; [reflexivity|]); intros; try discriminate; eapply HS; reflexivity.
  - destruct (Ffromtar fuel b) as [xt b']. cbn [fst] in E. subst xt.
    destruct (N.eqb_spec off 0) as [E0|E0].
    + left. destruct Hsh as [-> | ->]; reflexivity.
    + right. right. left. split; [destruct Hsh as [-> | ->]; reflexivity|].
      split; [exact E0|]. exists b. split; [exact Eb|left; exact Hlen].
  - left. destruct (Ffromtar fuel b) as [xt b']. cbn [fst] in E. subst xt. reflexivity.
  - right. right. right. destruct (Ffromtar fuel b) as [xt b']. cbn [fst] in E. subst xt. reflexivity.
  - destruct (N.eqb_spec off 0) as [E0|E0].
    + left. destruct (Ffromtar fuel b) as [xt b']. cbn [fst] in E. subst xt. reflexivity.
    + right. right. left. split.
      * destruct (Ffromtar fuel b) as [xt b']. cbn [fst] in E. subst xt. reflexivity.
      * split; [exact E0|]. exists b. split; [exact Eb|right; split; assumption].
Qed.

Lemma fsr_trunc : forall fuel bufsz od size p rf rt acc, Sync rf rt ->
  fst (fst (Ffsr fuel bufsz od size p rt acc)) = ReadError
  \/ (fst (Ffsr fuel bufsz od size p rt acc) = fst (Ffsr fuel bufsz od size p rf acc)
      /\ Sync (snd (Ffsr fuel bufsz od size p rf acc)) (snd (Ffsr fuel bufsz od size p rt acc))).
Proof.
  induction fuel as [|f IH]; intros bufsz od size p rf rt acc H; [right; split; [reflexivity|exact H]|].
  cbn [fsr_loop]. destruct (size <=? p); [right; split; [reflexivity|exact H]|].
  set (len := match bufsz with Some b => N.min b (size - p) | None => size - p end).
  destruct (N.eqb_spec len 0) as [E0|E0]; [right; split; [reflexivity|exact H]|].
  destruct (seek_trunc (od + p) rf rt H) as [[-> ->]|(a & b & -> & -> & [Hs|He])]; [now left| |].
  - destruct (read_trunc len a b Hs) as [[Hb Hs']|(Hlt & _ & _)].
    + destruct (Fread len a) as [ba a'], (Fread len b) as [bb b']. cbn [fst snd] in *. subst bb.
      cbn [negb andb]. destruct (negb (lenN ba =? len)); [now left|].
      destruct (lenN ba =? 0); [right; split; [reflexivity|exact Hs']|]. now apply IH.
    + left. destruct (Fread len b) as [bb b']. cbn [fst] in Hlt. cbn [negb andb].
      assert (lenN bb =? len = false) as -> by (apply N.eqb_neq; lia). reflexivity.
  - left. destruct (read_eof len b He) as [Hb _]. destruct (Fread len b) as [bb b']. cbn [fst] in Hb. subst bb.
    cbn [negb andb]. assert (lenN [] =? len = false) as -> by (apply N.eqb_neq; unfold lenN; cbn [length]; lia).
    reflexivity.
Qed.

Lemma members_acc : forall fuel off r acc, exists l, snd (Fmembers fuel off r acc) = acc ++ l.
Proof.
  induction fuel as [|f IH]; intros off r acc; [exists []; cbn; now rewrite app_nil_r|].
  cbn [members]. destruct (Fnext (S f) off r) as [x r1].
  destruct x as [| | |h od no|]; try (exists []; cbn; now rewrite app_nil_r).
  destruct (has_data (h_type h)).
  - destruct (Ffsr (S f) None od (h_size h) 0 r1 []) as [[o d] r2].
    destruct o; try (exists [(h, d)]; reflexivity).
    destruct (IH no r2 (acc ++ [(h, d)])) as [l E]. exists ((h, d) :: l). rewrite E, <- app_assoc. reflexivity.
  - destruct (IH no r1 (acc ++ [(h, [])])) as [l E]. exists ((h, []) :: l). rewrite E, <- app_assoc. reflexivity.
Qed.

(* [cut_ok full cut]: the cut run failed with ReadError, or it lists a prefix of what the full run lists and
   either stops exactly like the full run or stops with a normal return *)
Definition cut_ok (full cut : outcome * list (hdr * bytes)) : Prop :=
  fst cut = ReadError
  \/ fst cut = Hang     (* the model's fuel ran out (NxFuel); never the case with the fuel members_flat gives *)
  \/ ((exists rest, snd full = snd cut ++ rest) /\ (fst cut = fst full \/ fst cut = Done)).

Lemma members_trunc : forall fuel off rf rt acc, Sync rf rt ->
  cut_ok (Fmembers fuel off rf acc) (Fmembers fuel off rt acc).
Proof.
  induction fuel as [|f IH]; intros off rf rt acc H.
  { right. left. reflexivity. }
  unfold cut_ok. cbn [members].
  destruct (next_trunc (S f) off rf rt H) as [E|[[E HS]|[[E _]|E]]].
  - left. destruct (Fnext (S f) off rt) as [xt rt1]. cbn [fst] in E. subst xt. reflexivity.
  - destruct (Fnext (S f) off rf) as [xf rf1], (Fnext (S f) off rt) as [xt rt1]. cbn [fst snd] in *. subst xt.
    destruct xf as [| | |h od no|]; try (right; right; split; [exists []; cbn; now rewrite app_nil_r|now left]).
    specialize (HS h od no eq_refl).
    destruct (has_data (h_type h)); [|now apply IH].
    destruct (fsr_trunc (S f) None od (h_size h) 0 rf1 rt1 [] HS) as [E|[E HS2]].
    + left. destruct (Ffsr (S f) None od (h_size h) 0 rt1 []) as [[o d] r2]. cbn [fst] in E. subst o. reflexivity.
    + destruct (Ffsr (S f) None od (h_size h) 0 rf1 []) as [[of df] rf2].
      destruct (Ffsr (S f) None od (h_size h) 0 rt1 []) as [[ot dt] rt2]. cbn [fst snd] in *.
      injection E as -> ->.
      destruct of; try (right; right; split; [exists []; cbn; now rewrite app_nil_r|now left]). now apply IH.
  - right. right. destruct (Fnext (S f) off rt) as [xt rt1]. cbn [fst] in E. subst xt. cbn [fst snd].
    pose proof (members_acc (S f) off rf acc) as [l El]. cbn [members] in El.
    split; [exists l; exact El|now right].
  - right. left. destruct (Fnext (S f) off rt) as [xt rt1]. cbn [fst] in E. subst xt. reflexivity.
Qed.

(* ---- the statements used by Props/C23.v ---- *)
Theorem truncation_prefix : forall fuel d k,
  cut_ok (Fmembers fuel 0 {| pos := 0; und := d |} []) (Fmembers fuel 0 {| pos := 0; und := takeN k d |} []).
Proof.
  intros. apply members_trunc. split; [reflexivity|]. exists (dropN k d). cbn [und]. symmetry. apply take_drop.
Qed.
(* the exact boundary: on a prefix of the stream, [next] answers "end of archive" where the whole stream has a
   member only through the header-level leniency *)
Theorem truncation_boundary : forall fuel off rf rt h od no,
  Sync rf rt -> fst (Fnext fuel off rf) = NxMem h od no -> fst (Fnext fuel off rt) = NxNone ->
  lenient_end fuel off rt.
Proof.
  intros fuel off rf rt h od no H Ef Et. destruct (next_trunc fuel off rf rt H) as [E|[[E _]|[[_ L]|E]]].
  - rewrite Et in E. discriminate.
  - rewrite Et, Ef in E. discriminate.
  - exact L.
  - rewrite Et in E. discriminate.
Qed.
