(* TarStream/Links.v — what extract_tar_stream does with symbolic and hard links (fix 35e756c in /repo). *)
From Coq Require Import List Bool Arith NArith Lia.
From SF Require Import TarStream.Model.
Import ListNotations.
Local Open Scope N_scope.

Lemma bytes_eqb_refl : forall a, bytes_eqb a a = true.
Proof.
  intros a. unfold bytes_eqb. rewrite PeanoNat.Nat.eqb_refl. cbn [andb].
  induction a as [|x a IH]; [reflexivity|]. cbn [combine forallb fst snd]. now rewrite N.eqb_refl, IH.
Qed.
Lemma t_get_set_same : forall p e t, t_get p (t_set p e t) = Some e.
Proof.
  intros p e. induction t as [|[q e'] t IH]; cbn [t_set t_get].
  - now rewrite bytes_eqb_refl.
  - destruct (bytes_eqb p q) eqn:E; cbn [t_get]; rewrite E; [reflexivity|exact IH].
Qed.

Section L.
  Variable St : Type.
  Variable rd : N -> St -> bytes * St.
  Variable sk : N -> St -> N * St.
  Variable legacy : bool.

  (* a symbolic link is created at dst/<name relative to the root> with the archived target, byte for byte *)
  Theorem symlink_target_verbatim : forall fuel base bufsz h od r t t' r',
    h_type h = T_SYM ->
    extract_member St rd sk legacy fuel base bufsz h od r t = (Done, t', r') ->
    exists p, rel_under base (h_name h) = Some p /\ p <> [] /\ t_get p t' = Some (ELink (h_link h)) /\ r' = r.
  Proof.
    intros fuel base bufsz h od r t t' r' Hty H. unfold extract_member, extract_member_g, relp in H. cbv beta iota zeta in H. rewrite Hty in H.
    change (isreg T_SYM) with false in H. change (T_SYM =? T_DIR) with false in H.
    change (T_SYM =? T_SYM) with true in H. cbv iota in H.
    destruct (t_isdir [] t && bytes_eqb (h_name h) base); [discriminate|].
    destruct (rel_under base (h_name h)) as [[|x p]|]; try discriminate.
    destruct (makedirs _ _ t) as [t1|]; [|discriminate].
    destruct (t_get (x :: p) t1) as [[| |]|]; try discriminate;
      injection H as <- <-; exists (x :: p); (split; [reflexivity|split; [discriminate|split; [apply t_get_set_same|reflexivity]]]).
  Qed.

  (* a hard link becomes a file with the content of the already extracted member its link name designates,
     the link name being taken relative to the root of the archive (relpath(linkname, basename(src))) *)
  Theorem hardlink_target_relative : forall fuel base bufsz h od r t t' r',
    h_type h = T_LNK ->
    extract_member St rd sk legacy fuel base bufsz h od r t = (Done, t', r') ->
    exists p q t1 m0 content,
      rel_under base (h_name h) = Some p /\ rel_under base (h_link h) = Some q /\
      t_get q t1 = Some (EFile m0 content) /\ t_get p t' = Some (EFile (h_mode h) content) /\ r' = r.
  Proof.
    intros fuel base bufsz h od r t t' r' Hty H. unfold extract_member, extract_member_g, relp in H. cbv beta iota zeta in H. rewrite Hty in H.
    change (isreg T_LNK) with false in H. change (T_LNK =? T_DIR) with false in H.
    change (T_LNK =? T_SYM) with false in H. change (T_LNK =? T_LNK) with true in H. cbv iota in H.
    destruct (t_isdir [] t && bytes_eqb (h_name h) base); [discriminate|].
    destruct (rel_under base (h_name h)) as [[|x p]|]; try discriminate.
    destruct (rel_under base (h_link h)) as [q|]; [|discriminate].
    destruct (makedirs _ _ t) as [t1|]; [|discriminate].
    destruct (t_get q t1) as [[| m0 content|]|] eqn:Eq; try discriminate.
    destruct (t_get (x :: p) t1) as [[| |]|]; try discriminate.
    - destruct (bytes_eqb (x :: p) q); [discriminate|]. injection H as <- <-.
      exists (x :: p), q, t1, m0, content. repeat split; try assumption. apply t_get_set_same.
    - injection H as <- <-.
      exists (x :: p), q, t1, m0, content. repeat split; try assumption. apply t_get_set_same.
  Qed.
End L.

(* a concrete run: d/, d/a.txt (abc), d/l -> a.txt, d/sub/, d/sub/up -> ../a.txt, d/h = hard link to d/a.txt *)
Definition lk_hdr (n : bytes) (ty : N) (l : bytes) : hdr := {| h_name := n; h_mode := 420; h_size := 0; h_type := ty; h_link := l |}.
Example links_example :
  let base := [100] in
  let r0 : rst bytes := {| pos := 0; und := [] |} in
  let t0 : tree := [([], EDir 493); ([97;46;116], EFile 420 [97;98;99]); ([115], EDir 493)] in
  let sym := extract_member bytes fread fskip false 3 base None (lk_hdr [100;47;108] T_SYM [97;46;116]) 0 r0 t0 in
  let up := extract_member bytes fread fskip false 3 base None (lk_hdr [100;47;115;47;117] T_SYM [46;46;47;97;46;116]) 0 r0 t0 in
  let hard := extract_member bytes fread fskip false 3 base None (lk_hdr [100;47;104] T_LNK [100;47;97;46;116]) 0 r0 t0 in
  t_get [108] (snd (fst sym)) = Some (ELink [97;46;116])
  /\ t_get [115;47;117] (snd (fst up)) = Some (ELink [46;46;47;97;46;116])
  /\ t_get [104] (snd (fst hard)) = Some (EFile 420 [97;98;99]) /\ fst (fst hard) = Done.
Proof. vm_compute. repeat split; reflexivity. Qed.
