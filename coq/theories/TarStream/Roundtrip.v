(* TarStream/Roundtrip.v — reader (frombuf / fromtar / members) after writer (tobuf / write_archive) is the identity. *)
From Coq Require Import List Bool NArith ZArith Lia.
From SF Require Import TarStream.Model TarStream.Proofs TarStream.Trunc.
Import ListNotations.
Local Open Scope N_scope.

(* ---------------------------------------------------------------- octal fields *)
Fixpoint pow8 (k : nat) : N := match k with O => 1 | S k' => 8 * pow8 k' end.
Definition isdig (b : N) : Prop := 48 <= b /\ b <= 55.
Lemma oct_digits_dig : forall k n, Forall isdig (oct_digits k n).
Proof.
  induction k as [|k IH]; intros n; cbn [oct_digits]; [constructor|].
  apply Forall_app. split; [apply IH|]. constructor; [|constructor].
  assert (n mod 8 < 8) by (apply N.mod_lt; discriminate). unfold isdig.
  generalize dependent (n mod 8). intros x Hx. lia.
Qed.
Lemma lenN_oct_digits : forall k n, lenN (oct_digits k n) = N.of_nat k.
Proof.
  induction k as [|k IH]; intros n; cbn [oct_digits]; [reflexivity|]. rewrite lenN_app, IH. unfold lenN. cbn [length]. lia.
Qed.
Lemma oct_val_app : forall a b acc,
  oct_val acc (a ++ b) = match oct_val acc a with Some x => oct_val x b | None => None end.
Proof.
  induction a as [|d a IH]; intros b acc; cbn [app oct_val]; [reflexivity|].
  destruct ((48 <=? d) && (d <=? 55)); [apply IH|reflexivity].
Qed.
Lemma oct_val_digits : forall k n acc, n < pow8 k -> oct_val acc (oct_digits k n) = Some (acc * pow8 k + n).
Proof.
  induction k as [|k IH]; intros n acc H; cbn [oct_digits pow8] in *.
  - cbn [oct_val]. f_equal. lia.
  - rewrite oct_val_app, IH.
    + cbn [oct_val]. assert (Hm : n mod 8 < 8) by (apply N.mod_lt; discriminate).
      assert (Hd : n = 8 * (n / 8) + n mod 8) by (apply N.div_mod; discriminate).
      generalize dependent (n mod 8). generalize dependent (n / 8). intros q x Hx Hd.
      assert ((48 <=? 48 + x) && (48 + x <=? 55) = true) as ->.
      { apply andb_true_iff. split; apply N.leb_le; lia. }
      f_equal. replace (48 + x - 48) with x by lia. subst n. lia.
    + apply N.div_lt_upper_bound; [discriminate|assumption].
Qed.

Lemma nts_app_nul : forall a r, Forall (fun b => b <> 0) a -> nts (a ++ 0 :: r) = a.
Proof.
  induction a as [|x a IH]; intros r H; cbn [app nts]; [reflexivity|].
  inversion H; subst. destruct (N.eqb_spec x 0); [contradiction|]. now rewrite IH.
Qed.
Lemma nts_nonul : forall a, Forall (fun b => b <> 0) a -> nts a = a.
Proof.
  induction a as [|x a IH]; intros H; cbn [nts]; [reflexivity|].
  inversion H; subst. destruct (N.eqb_spec x 0); [contradiction|]. now rewrite IH.
Qed.
Lemma lstrip_nows : forall l, Forall (fun b => is_ws b = false) l -> lstrip l = l.
Proof. intros [|x l] H; cbn [lstrip]; [reflexivity|]. inversion H; subst. now rewrite H2. Qed.
Lemma strip_nows : forall l, Forall (fun b => is_ws b = false) l -> strip l = l.
Proof.
  intros l H. unfold strip. rewrite (lstrip_nows l H). rewrite lstrip_nows; [apply rev_involutive|].
  apply Forall_rev. assumption.
Qed.
Lemma dig_facts : forall l, Forall isdig l ->
  Forall (fun b => b <> 0) l /\ Forall (fun b => is_ws b = false) l /\ existsb (fun b => 128 <=? b) l = false.
Proof.
  induction l as [|x l IH]; intros H; [repeat split; constructor|].
  inversion H as [|? ? [H1 H2] H3]; subst. destruct (IH H3) as (A & B & C).
  repeat split.
  - constructor; [lia|assumption].
  - constructor; [|assumption]. unfold is_ws.
    assert (x =? 32 = false) as -> by (apply N.eqb_neq; lia).
    assert (x <=? 13 = false) as -> by (apply N.leb_gt; lia).
    assert (x <=? 31 = false) as -> by (apply N.leb_gt; lia).
    now rewrite !andb_false_r.
  - cbn [existsb]. rewrite C. assert (128 <=? x = false) as -> by (apply N.leb_gt; lia). reflexivity.
Qed.
(* a field made of octal digits followed by NUL and anything parses back *)
Lemma nti_digits : forall k n r, n < pow8 (S k) -> nti (oct_digits (S k) n ++ 0 :: r) = NOk n.
Proof.
  intros k n r H. pose proof (oct_digits_dig (S k) n) as Hd. destruct (dig_facts _ Hd) as (A & B & C).
  pose proof (oct_val_digits (S k) n 0 H) as Hv.
  destruct (oct_digits (S k) n) as [|d ds] eqn:E.
  { apply (f_equal lenN) in E. rewrite lenN_oct_digits in E. unfold lenN in E. cbn [length] in E. lia. }
  assert (Hn : nts ((d :: ds) ++ 0 :: r) = d :: ds) by (apply nts_app_nul; assumption).
  inversion Hd as [|? ? [H1 H2] _]; subst.
  assert (Hbody : nti ((d :: ds) ++ 0 :: r) =
                  let t := nts ((d :: ds) ++ 0 :: r) in
                  if existsb (fun b => 128 <=? b) t then NBad
                  else match oct_val 0 (strip t) with Some n => NOk n | None => NBad end).
  { assert (d = 48 \/ d = 49 \/ d = 50 \/ d = 51 \/ d = 52 \/ d = 53 \/ d = 54 \/ d = 55) as Hc by lia.
    destruct Hc as [->|[->|[->|[->|[->|[->|[->| ->]]]]]]]; reflexivity. }
  rewrite Hbody. cbv zeta. rewrite Hn, C, (strip_nows _ B), Hv. f_equal; lia.
Qed.
Lemma nti_zeros8 : nti (zeros 8) = NOk 0.
Proof. reflexivity. Qed.

(* ---------------------------------------------------------------- stn *)
Lemma lenN_stn : forall s len, lenN (stn s len) = len.
Proof. intros. unfold stn. rewrite lenN_app, lenN_takeN, lenN_zeros. lia. Qed.
Lemma nts_zeros : forall n, nts (zeros n) = [].
Proof. intros n. unfold zeros. destruct (N.to_nat n); reflexivity. Qed.
Lemma zeros_succ : forall n, 0 < n -> zeros n = 0 :: zeros (n - 1).
Proof. intros n H. unfold zeros. replace (N.to_nat n) with (S (N.to_nat (n - 1))) by lia. reflexivity. Qed.
Lemma nts_stn : forall s len, Forall (fun b => b <> 0) s -> lenN s <= len -> nts (stn s len) = s.
Proof.
  intros s len Hs Hl. unfold stn. rewrite takeN_all by assumption.
  destruct (N.eq_dec (len - lenN s) 0) as [E|E].
  - rewrite E. change (zeros 0) with (@nil N). rewrite app_nil_r. now apply nts_nonul.
  - rewrite zeros_succ by lia. now apply nts_app_nul.
Qed.

(* ---------------------------------------------------------------- slicing a block made of fields *)
Lemma slice_app_r : forall x l a b n, lenN x = n -> n <= a -> slice a b (x ++ l) = slice (a - n) (b - n) l.
Proof.
  intros x l a b n Hx Hn. unfold slice. rewrite dropN_app_ge by lia. rewrite Hx. f_equal. lia.
Qed.
Lemma slice_app_l : forall x l a b, lenN x = b -> a = 0 -> slice a b (x ++ l) = x.
Proof.
  intros x l a b Hx ->. unfold slice. rewrite dropN_0, N.sub_0_r, takeN_app_ge by lia.
  rewrite Hx, N.sub_diag, takeN_0. apply app_nil_r.
Qed.
Lemma nth_hd_skipn : forall n (l : bytes) d, nth n l d = hd d (skipn n l).
Proof. induction n as [|n IH]; destruct l; simpl; auto. Qed.
Lemma lenN_itn8 : forall n, lenN (itn8 n) = 8.
Proof. intros. unfold itn8. rewrite lenN_app, lenN_oct_digits. reflexivity. Qed.
Lemma lenN_itn12 : forall n, lenN (itn12 n) = 12.
Proof. intros. unfold itn12. rewrite lenN_app, lenN_oct_digits. reflexivity. Qed.
Lemma lenN_chk : forall c, lenN (oct_digits 6 c) = 6.
Proof. intros. now rewrite lenN_oct_digits. Qed.

Ltac flen := first [apply lenN_stn | apply lenN_itn8 | apply lenN_itn12 | apply lenN_chk | apply lenN_zeros
  | match goal with |- lenN ?l = _ => let v := eval vm_compute in (lenN l) in exact (eq_refl v) end].
(* the offsets are renormalised to numerals after every step: nested truncated subtractions make lia exponential *)
Ltac norm_sub := repeat match goal with |- context [slice (?a - ?n) (?b - ?n) _] =>
    let a' := eval vm_compute in (a - n) in let b' := eval vm_compute in (b - n) in
    change (slice (a - n) (b - n)) with (slice a' b') end.
Ltac sl := repeat (erewrite slice_app_r by (first [flen | lia]); norm_sub); erewrite slice_app_l by (first [flen | lia]).

Definition le255 (l : bytes) : Prop := Forall (fun b => b <= 255) l.
Lemma sumN_acc : forall l a, fold_left N.add l a = a + sumN l.
Proof.
  induction l as [|x l IH]; intros a; unfold sumN; cbn [fold_left]; [lia|].
  rewrite IH, (IH (0 + x)). lia.
Qed.
Lemma sumN_app : forall a b, sumN (a ++ b) = sumN a + sumN b.
Proof. intros. unfold sumN. rewrite fold_left_app, sumN_acc. reflexivity. Qed.
Lemma sumN_bound : forall l, le255 l -> sumN l <= 255 * lenN l.
Proof.
  induction l as [|x l IH]; intros H; [unfold sumN, lenN; simpl; lia|].
  inversion H; subst. change (x :: l) with ([x] ++ l). rewrite sumN_app, lenN_app.
  specialize (IH H3). unfold sumN at 1. cbn [fold_left]. unfold lenN at 1. cbn [length]. lia.
Qed.
Lemma le255_app : forall a b, le255 a -> le255 b -> le255 (a ++ b).
Proof. intros. apply Forall_app. now split. Qed.
Lemma le255_zeros : forall n, le255 (zeros n).
Proof. intros. unfold zeros, le255. apply Forall_forall. intros x Hx. apply repeat_spec in Hx. subst. lia. Qed.
Lemma le255_takeN : forall l n, le255 l -> le255 (takeN n l).
Proof.
  induction l as [|x l IH]; intros n H; cbn [takeN]; [constructor|].
  destruct (n =? 0); [constructor|]. inversion H; subst. constructor; [assumption|]. now apply IH.
Qed.
Lemma le255_stn : forall s len, le255 s -> le255 (stn s len).
Proof. intros. unfold stn. apply le255_app; [now apply le255_takeN|apply le255_zeros]. Qed.
Lemma le255_digits : forall k n, le255 (oct_digits k n).
Proof.
  intros. pose proof (oct_digits_dig k n) as H. unfold le255. eapply Forall_impl; [|exact H].
  intros a [? ?]. lia.
Qed.
Lemma le255_itn8 : forall n, le255 (itn8 n).
Proof. intros. unfold itn8. apply le255_app; [apply le255_digits|repeat constructor; lia]. Qed.
Lemma le255_itn12 : forall n, le255 (itn12 n).
Proof. intros. unfold itn12. apply le255_app; [apply le255_digits|repeat constructor; lia]. Qed.

Record meta_ok (mt : hmeta) : Prop := {
  mo_uid : m_uid mt < pow8 7; mo_gid : m_gid mt < pow8 7; mo_mtime : m_mtime mt < pow8 11;
  mo_un : le255 (m_uname mt); mo_gn : le255 (m_gname mt) }.

Lemma lenN_pre : forall name mode size mt, lenN (hdr_pre name mode size mt) = 148.
Proof. intros. unfold hdr_pre. rewrite !lenN_app, lenN_stn, !lenN_itn8, !lenN_itn12. reflexivity. Qed.
Lemma lenN_post : forall ty link mt, lenN (hdr_post ty link mt) = 356.
Proof. intros. unfold hdr_post. rewrite !lenN_app, !lenN_stn, !lenN_zeros. reflexivity. Qed.
Lemma le255_pre : forall name mode size mt, le255 name -> le255 (hdr_pre name mode size mt).
Proof.
  intros. unfold hdr_pre.
  apply le255_app; [now apply le255_stn|]. apply le255_app; [apply le255_itn8|].
  apply le255_app; [apply le255_itn8|]. apply le255_app; [apply le255_itn8|].
  apply le255_app; [apply le255_itn12|apply le255_itn12].
Qed.
Lemma le255_post : forall ty link mt, ty <= 255 -> le255 link -> meta_ok mt -> le255 (hdr_post ty link mt).
Proof.
  intros ty link mt Ht Hl [? ? ? Hu Hg]. unfold hdr_post.
  apply le255_app; [constructor; [assumption|constructor]|].
  apply le255_app; [now apply le255_stn|].
  apply le255_app; [unfold GNU_MAGIC, le255; repeat (constructor; [lia|]); constructor|].
  apply le255_app; [now apply le255_stn|]. apply le255_app; [now apply le255_stn|].
  repeat (apply le255_app; [apply le255_zeros|]). apply le255_zeros.
Qed.

Lemma forallb_dig_false : forall k n r, forallb (N.eqb 0) (oct_digits (S k) n ++ r) = false.
Proof.
  intros k n r. pose proof (oct_digits_dig (S k) n) as H.
  destruct (oct_digits (S k) n) as [|d ds] eqn:E.
  { apply (f_equal lenN) in E. rewrite lenN_oct_digits in E. unfold lenN in E. cbn [length] in E. lia. }
  inversion H as [|? ? [H1 H2] _]; subst. cbn [app forallb].
  assert (0 =? d = false) as -> by (apply N.eqb_neq; lia). reflexivity.
Qed.

Definition hdr_read (name : bytes) (mode size ty : N) (link : bytes) : hdr :=
  let n := nts (stn name 100) in
  {| h_name := if ty =? T_DIR then rstrip_slash n else n; h_mode := mode; h_size := size; h_type := ty;
     h_link := nts (stn link 100) |}.

