(* TarStream/Proofs.v — lemmas for C23 over TarStream/Model.v. *)
From Coq Require Import List Bool NArith ZArith Lia.
From SF Require Import TarStream.Model.
Import ListNotations.
Local Open Scope N_scope.

(* ---------------------------------------------------------------- takeN / dropN / lenN *)
Lemma takeN_firstn : forall l n, takeN n l = firstn (N.to_nat n) l.
Proof.
  induction l as [|x l IH]; intros n; simpl.
  - now rewrite firstn_nil.
  - destruct (N.eqb_spec n 0) as [->|H]; simpl; [reflexivity|].
    replace (N.to_nat n) with (S (N.to_nat (N.pred n))) by lia. simpl. now rewrite IH.
Qed.
Lemma dropN_skipn : forall l n, dropN n l = skipn (N.to_nat n) l.
Proof.
  induction l as [|x l IH]; intros n; simpl.
  - now rewrite skipn_nil.
  - destruct (N.eqb_spec n 0) as [->|H]; simpl; [reflexivity|].
    replace (N.to_nat n) with (S (N.to_nat (N.pred n))) by lia. simpl. now rewrite IH.
Qed.
Lemma take_drop : forall n l, takeN n l ++ dropN n l = l.
Proof. intros. rewrite takeN_firstn, dropN_skipn. apply firstn_skipn. Qed.
Lemma lenN_app : forall a b, lenN (a ++ b) = lenN a + lenN b.
Proof. intros. unfold lenN. rewrite app_length. lia. Qed.
Lemma lenN_nil_iff : forall l, lenN l = 0 <-> l = [].
Proof. intros [|x l]; unfold lenN; simpl; split; intros; try reflexivity; try discriminate; lia. Qed.
Lemma lenN_takeN : forall n l, lenN (takeN n l) = N.min n (lenN l).
Proof. intros. rewrite takeN_firstn. unfold lenN. rewrite firstn_length. lia. Qed.
Lemma lenN_dropN : forall n l, lenN (dropN n l) = lenN l - n.
Proof. intros. rewrite dropN_skipn. unfold lenN. rewrite skipn_length. lia. Qed.
Lemma takeN_0 : forall l, takeN 0 l = [].
Proof. now intros [|x l]. Qed.
Lemma dropN_0 : forall l, dropN 0 l = l.
Proof. now intros [|x l]. Qed.
Lemma takeN_all : forall n l, lenN l <= n -> takeN n l = l.
Proof. intros. rewrite takeN_firstn. apply firstn_all2. unfold lenN in H. lia. Qed.
Lemma dropN_all : forall n l, lenN l <= n -> dropN n l = [].
Proof. intros. rewrite dropN_skipn. apply skipn_all2. unfold lenN in H. lia. Qed.
Lemma takeN_app_ge : forall n c l, lenN c <= n -> takeN n (c ++ l) = c ++ takeN (n - lenN c) l.
Proof.
  intros. rewrite !takeN_firstn, firstn_app. unfold lenN in *.
  rewrite firstn_all2 by lia. f_equal. f_equal. lia.
Qed.
Lemma dropN_app_ge : forall n c l, lenN c <= n -> dropN n (c ++ l) = dropN (n - lenN c) l.
Proof.
  intros. rewrite !dropN_skipn, skipn_app. unfold lenN in *.
  rewrite skipn_all2 by lia. simpl. f_equal. lia.
Qed.
Lemma takeN_app_lt : forall n c l, n < lenN c -> takeN n (c ++ l) = takeN n c.
Proof.
  intros. rewrite !takeN_firstn, firstn_app. unfold lenN in *.
  replace (N.to_nat n - length c)%nat with 0%nat by lia. simpl. apply app_nil_r.
Qed.
Lemma dropN_app_lt : forall n c l, n < lenN c -> dropN n (c ++ l) = dropN n c ++ l.
Proof.
  intros. rewrite !dropN_skipn, skipn_app. unfold lenN in *.
  replace (N.to_nat n - length c)%nat with 0%nat by lia. reflexivity.
Qed.

(* ---------------------------------------------------------------- the looping read sees only the concatenation *)
Lemma tread_spec : forall s n,
  fst (tread n s) = takeN n (concat s) /\ concat (snd (tread n s)) = dropN n (concat s).
Proof.
  induction s as [|c r IH]; intros n; simpl.
  - split; reflexivity.
  - destruct (N.eqb_spec n 0) as [->|Hn].
    + simpl. now rewrite takeN_0, dropN_0.
    + destruct (N.leb_spec (lenN c) n) as [Hle|Hlt].
      * specialize (IH (n - lenN c)). destruct (tread (n - lenN c) r) as [b s'] eqn:E. simpl in *.
        destruct IH as [-> ->]. split; [now rewrite takeN_app_ge|now rewrite dropN_app_ge].
      * simpl. split; [now rewrite takeN_app_lt|now rewrite dropN_app_lt].
Qed.

(* the structural reader is the Python loop (while size > 0: res = read(size); if not res: break) *)
Lemma tread_loop_S : forall f n s buf,
  tread_loop (S f) n s buf =
  if n =? 0 then (buf, s)
  else let '(res, s') := raw_read n s in
       if lenN res =? 0 then (buf, s') else tread_loop f (n - lenN res) s' (buf ++ res).
Proof. reflexivity. Qed.
Lemma tread_loop_tread : forall s n buf,
  Forall (fun c => c <> []) s ->
  tread_loop (S (length s)) n s buf = (buf ++ fst (tread n s), snd (tread n s)).
Proof.
  induction s as [|c r IH]; intros n buf Hne.
  - simpl. destruct (n =? 0); simpl; now rewrite app_nil_r.
  - inversion Hne as [|? ? Hc Hr]; subst.
    change (length (c :: r)) with (S (length r)). rewrite tread_loop_S. cbn [raw_read tread].
    destruct (N.eqb_spec n 0) as [->|Hn]; [simpl; now rewrite app_nil_r|].
    destruct (N.leb_spec (lenN c) n) as [Hle|Hlt].
    + assert (lenN c =? 0 = false) as -> by (apply N.eqb_neq; rewrite lenN_nil_iff; exact Hc).
      rewrite IH by assumption. destruct (tread (n - lenN c) r) as [b s']. simpl. now rewrite app_assoc.
    + assert (lenN (takeN n c) =? 0 = false) as ->.
      { apply N.eqb_neq. rewrite lenN_takeN. lia. }
      rewrite lenN_takeN. replace (n - N.min n (lenN c)) with 0 by lia.
      destruct r; simpl; reflexivity.
Qed.

(* ---------------------------------------------------------------- simulation between two readers *)
Section Sim.
  Variables St1 St2 : Type.
  Variable rd1 : N -> St1 -> bytes * St1.
  Variable rd2 : N -> St2 -> bytes * St2.
  Variable sk1 : N -> St1 -> N * St1.
  Variable sk2 : N -> St2 -> N * St2.
  Variable legacy : bool.
  Variable R : St1 -> St2 -> Prop.
  Hypothesis Hrd : forall n a b, R a b -> fst (rd1 n a) = fst (rd2 n b) /\ R (snd (rd1 n a)) (snd (rd2 n b)).
  Hypothesis Hsk : forall n a b, R a b -> fst (sk1 n a) = fst (sk2 n b) /\ R (snd (sk1 n a)) (snd (sk2 n b)).

  Definition RR (r1 : rst St1) (r2 : rst St2) : Prop := pos r1 = pos r2 /\ R (und r1) (und r2).
  Definition ORR (o1 : option (rst St1)) (o2 : option (rst St2)) : Prop :=
    match o1, o2 with Some a, Some b => RR a b | None, None => True | _, _ => False end.

  Lemma read_sim : forall n r1 r2, RR r1 r2 ->
    fst (read St1 rd1 n r1) = fst (read St2 rd2 n r2) /\ RR (snd (read St1 rd1 n r1)) (snd (read St2 rd2 n r2)).
  Proof.
    intros n r1 r2 [Hp Hr]. unfold read. pose proof (Hrd n _ _ Hr) as [H1 H2].
    destruct (rd1 n (und r1)) as [b1 s1], (rd2 n (und r2)) as [b2 s2]. simpl in *. subst b2.
    split; [reflexivity|]. split; simpl; [now rewrite Hp|assumption].
  Qed.
  Lemma seek_sim : forall off r1 r2, RR r1 r2 -> ORR (seek St1 sk1 off r1) (seek St2 sk2 off r2).
  Proof.
    intros off r1 r2 [Hp Hr]. unfold seek. rewrite Hp.
    destruct (pos r2 <? off).
    - pose proof (Hsk (off - pos r2) _ _ Hr) as [H1 H2].
      destruct (sk1 (off - pos r2) (und r1)) as [d1 s1], (sk2 (off - pos r2) (und r2)) as [d2 s2].
      simpl in *. subst. split; simpl; [reflexivity|assumption].
    - destruct (off <? pos r2); simpl; [exact I|]. split; assumption.
  Qed.

  Ltac rd_step n r1 r2 H :=
    let E1 := fresh "E" in let E2 := fresh "E" in let b1 := fresh "b" in let b2 := fresh "b" in
    let q1 := fresh "q" in let q2 := fresh "q" in let Hb := fresh "Hb" in let Hq := fresh "Hq" in
    pose proof (read_sim n r1 r2 H) as [Hb Hq];
    destruct (read St1 rd1 n r1) as [b1 q1] eqn:E1; destruct (read St2 rd2 n r2) as [b2 q2] eqn:E2;
    simpl in Hb, Hq; subst b2.

  Lemma fromtar_sim : forall fuel r1 r2, RR r1 r2 ->
    fst (fromtar St1 rd1 fuel r1) = fst (fromtar St2 rd2 fuel r2)
    /\ RR (snd (fromtar St1 rd1 fuel r1)) (snd (fromtar St2 rd2 fuel r2)).
  Proof.
    induction fuel as [|f IH]; intros r1 r2 H; cbn [fromtar]; [split; [reflexivity|assumption]|].
    rd_step 512 r1 r2 H.
    destruct (frombuf b) as [| | | | |h]; try (split; [reflexivity|assumption]).
    destruct ((h_type h =? T_GNULONGNAME) || (h_type h =? T_GNULONGLINK)).
    - rd_step (block (h_size h)) q q0 Hq.
      specialize (IH _ _ Hq0). destruct IH as [IH1 IH2].
      destruct (fromtar St1 rd1 f q1) as [x1 s1], (fromtar St2 rd2 f q2) as [x2 s2]. simpl in *. subst x2.
      destruct x1 as [e| | |h' od no|]; try destruct e; simpl; split; try reflexivity; try assumption.
    - destruct (is_pax_type (h_type h)).
      + destruct (h_type h =? 103); [split; [reflexivity|assumption]|].
        rd_step (block (h_size h)) q q0 Hq.
        destruct (parse_pax (S (length b0)) b0 0 []) as [recs|]; [|split; [reflexivity|assumption]].
        specialize (IH _ _ Hq0). destruct IH as [IH1 IH2].
        destruct (fromtar St1 rd1 f q1) as [x1 s1], (fromtar St2 rd2 f q2) as [x2 s2]. cbn [fst snd] in *. subst x2.
        destruct x1 as [e| | |h' od no|]; try destruct e; try destruct (pax_sparse recs); cbn [fst snd];
          split; try reflexivity; try assumption.
      + destruct Hq as [Hp Hr]. simpl. rewrite Hp. split; [reflexivity|split; assumption].
  Qed.

  Lemma advance_sim : forall off r1 r2, RR r1 r2 ->
    ORR (advance St1 rd1 sk1 legacy off r1) (advance St2 rd2 sk2 legacy off r2).
  Proof.
    intros off r1 r2 H. unfold advance. destruct H as [Hp Hr]. rewrite Hp.
    destruct (off =? pos r2); [split; assumption|].
    destruct legacy; [apply seek_sim; split; assumption|].
    pose proof (seek_sim (off - 1) r1 r2 (conj Hp Hr)) as Hs.
    destruct (seek St1 sk1 (off - 1) r1) as [a|], (seek St2 sk2 (off - 1) r2) as [b|]; simpl in Hs; try contradiction; [|exact I].
    rd_step 1 a b Hs. destruct (lenN b0 =? 0); [exact I|assumption].
  Qed.

  Lemma next_sim : forall fuel off r1 r2, RR r1 r2 ->
    fst (next St1 rd1 sk1 legacy fuel off r1) = fst (next St2 rd2 sk2 legacy fuel off r2)
    /\ RR (snd (next St1 rd1 sk1 legacy fuel off r1)) (snd (next St2 rd2 sk2 legacy fuel off r2)).
  Proof.
    intros fuel off r1 r2 H. unfold next. pose proof (advance_sim off r1 r2 H) as Ha.
    destruct H as [Hp Hr]. rewrite Hp.
    destruct (negb (off =? pos r2) && (off =? 0)); [split; [reflexivity|split; assumption]|].
    destruct (advance St1 rd1 sk1 legacy off r1) as [a|], (advance St2 rd2 sk2 legacy off r2) as [b|];
      simpl in Ha; try contradiction; [|split; [reflexivity|split; assumption]].
    pose proof (fromtar_sim fuel a b Ha) as [H1 H2].
    destruct (fromtar St1 rd1 fuel a) as [x1 s1], (fromtar St2 rd2 fuel b) as [x2 s2]. simpl in *. subst x2.
    destruct x1 as [e| | |h od no|]; try destruct e; simpl; split; try reflexivity; try assumption.
  Qed.

  Definition T3 {A B} (x : A * B * rst St1) (y : A * B * rst St2) : Prop :=
    fst (fst x) = fst (fst y) /\ snd (fst x) = snd (fst y) /\ RR (snd x) (snd y).

  Ltac t3done := unfold T3; simpl; split; [reflexivity|split; [reflexivity|assumption]].

  Lemma fsr_sim : forall fuel bufsz od size p r1 r2 acc, RR r1 r2 ->
    T3 (fsr_loop St1 rd1 sk1 legacy fuel bufsz od size p r1 acc) (fsr_loop St2 rd2 sk2 legacy fuel bufsz od size p r2 acc).
  Proof.
    induction fuel as [|f IH]; intros bufsz od size p r1 r2 acc H; simpl; [repeat split; apply H|].
    destruct (size <=? p); [repeat split; apply H|].
    destruct (_ =? 0); [repeat split; apply H|].
    pose proof (seek_sim (od + p) r1 r2 H) as Hs.
    destruct (seek St1 sk1 (od + p) r1) as [a|], (seek St2 sk2 (od + p) r2) as [b|]; simpl in Hs; try contradiction;
      [|repeat split; apply H].
    match goal with |- context [read St1 rd1 ?n a] => rd_step n a b Hs end.
    destruct (negb legacy && negb (lenN b0 =? _)); [repeat split; apply Hq|].
    destruct (lenN b0 =? 0); [repeat split; apply Hq|]. apply IH. assumption.
  Qed.

  Lemma write_n_sim : forall fuel n r1 r2 acc, RR r1 r2 ->
    T3 (write_n St1 rd1 legacy fuel n r1 acc) (write_n St2 rd2 legacy fuel n r2 acc).
  Proof.
    induction fuel as [|f IH]; intros n r1 r2 acc H; simpl; [repeat split; apply H|].
    destruct (n =? 0); [repeat split; apply H|].
    rd_step n r1 r2 H. destruct (negb legacy && (lenN b =? 0)); [repeat split; apply Hq|]. now apply IH.
  Qed.

  Lemma copyfileobj_sim : forall fuel rem bs r1 r2 acc, RR r1 r2 ->
    T3 (copyfileobj St1 rd1 legacy fuel rem bs r1 acc) (copyfileobj St2 rd2 legacy fuel rem bs r2 acc).
  Proof.
    induction fuel as [|f IH]; intros rem bs r1 r2 acc H; [repeat split; apply H|].
    cbn [copyfileobj]. destruct (rem =? 0); [repeat split; apply H|].
    pose proof (write_n_sim (S f) (N.min bs rem) r1 r2 acc H) as (H1 & H2 & H3).
    destruct (write_n St1 rd1 legacy (S f) (N.min bs rem) r1 acc) as [[o1 a1] s1].
    destruct (write_n St2 rd2 legacy (S f) (N.min bs rem) r2 acc) as [[o2 a2] s2]. simpl in *. subst.
    destruct o2; try t3done. now apply IH.
  Qed.

  Lemma extract_member_sim : forall reb fuel base bufsz h od r1 r2 t, RR r1 r2 ->
    T3 (extract_member_g St1 rd1 sk1 legacy reb fuel base bufsz h od r1 t)
       (extract_member_g St2 rd2 sk2 legacy reb fuel base bufsz h od r2 t).
  Proof.
    intros reb fuel base bufsz h od r1 r2 t H. unfold extract_member_g.
    destruct (t_isdir (if reb then base else []) t && bytes_eqb (h_name h) base).
    - destruct reb; [repeat split; apply H|]. destruct (isreg (h_type h)).
      + match goal with |- context [copyfileobj St1 rd1 legacy fuel ?a ?b r1 []] =>
          pose proof (copyfileobj_sim fuel a b r1 r2 [] H) as (H1 & H2 & H3);
          destruct (copyfileobj St1 rd1 legacy fuel a b r1 []) as [[o1 a1] s1];
          destruct (copyfileobj St2 rd2 legacy fuel a b r2 []) as [[o2 a2] s2] end.
        simpl in *. subst. destruct o2; t3done.
      + repeat match goal with
               | |- context [if ?c then _ else _] => destruct c
               | |- context [match ?x with _ => _ end] => destruct x
               end; repeat split; apply H.
    - destruct (isreg (h_type h)).
      + destruct (relp reb base (h_name h)) as [p|]; [|repeat split; apply H].
        destruct (negb _ || t_isdir p t); [repeat split; apply H|].
        pose proof (fsr_sim fuel bufsz od (h_size h) 0 r1 r2 [] H) as (H1 & H2 & H3).
        destruct (fsr_loop St1 rd1 sk1 legacy fuel bufsz od (h_size h) 0 r1 []) as [[o1 a1] s1].
        destruct (fsr_loop St2 rd2 sk2 legacy fuel bufsz od (h_size h) 0 r2 []) as [[o2 a2] s2].
        simpl in *. subst. destruct o2; t3done.
      + (* directory / symlink / hard link: the stream is not touched *)
        repeat match goal with
               | |- context [if ?c then _ else _] => destruct c
               | |- context [match ?x with _ => _ end] => destruct x
               end; repeat split; apply H.
  Qed.

  Lemma run_loop_sim : forall fuel base bufsz off r1 r2 t reb, RR r1 r2 ->
    run_loop St1 rd1 sk1 legacy fuel base bufsz off r1 t reb = run_loop St2 rd2 sk2 legacy fuel base bufsz off r2 t reb.
  Proof.
    induction fuel as [|f IH]; intros base bufsz off r1 r2 t reb H; [reflexivity|].
    cbn [run_loop]. pose proof (next_sim (S f) off r1 r2 H) as [H1 H2].
    destruct (next St1 rd1 sk1 legacy (S f) off r1) as [x1 s1], (next St2 rd2 sk2 legacy (S f) off r2) as [x2 s2].
    cbn [fst snd] in *. subst x2. destruct x1 as [| | |h od no|]; try reflexivity.
    pose proof (extract_member_sim reb (S f) base bufsz h od s1 s2 t H2) as (E1 & E2 & E3).
    destruct (extract_member_g St1 rd1 sk1 legacy reb (S f) base bufsz h od s1 t) as [[o1 t1] q1].
    destruct (extract_member_g St2 rd2 sk2 legacy reb (S f) base bufsz h od s2 t) as [[o2 t2] q2].
    cbn [fst snd] in *. subst. destruct o2; try reflexivity. now apply IH.
  Qed.

  Lemma members_sim : forall fuel off r1 r2 acc, RR r1 r2 ->
    members St1 rd1 sk1 legacy fuel off r1 acc = members St2 rd2 sk2 legacy fuel off r2 acc.
  Proof.
    induction fuel as [|f IH]; intros off r1 r2 acc H; [reflexivity|].
    cbn [members]. pose proof (next_sim (S f) off r1 r2 H) as [H1 H2].
    destruct (next St1 rd1 sk1 legacy (S f) off r1) as [x1 s1], (next St2 rd2 sk2 legacy (S f) off r2) as [x2 s2].
    cbn [fst snd] in *. subst x2. destruct x1 as [| | |h od no|]; try reflexivity.
    destruct (has_data (h_type h)); [|now apply IH].
    pose proof (fsr_sim (S f) None od (h_size h) 0 s1 s2 [] H2) as (E1 & E2 & E3).
    destruct (fsr_loop St1 rd1 sk1 legacy (S f) None od (h_size h) 0 s1 []) as [[o1 a1] q1].
    destruct (fsr_loop St2 rd2 sk2 legacy (S f) None od (h_size h) 0 s2 []) as [[o2 a2] q2].
    cbn [fst snd] in *. subst. destruct o2; try reflexivity. now apply IH.
  Qed.
End Sim.

(* ---------------------------------------------------------------- chunk boundaries are unobservable *)
Definition Rflat (s : stream) (l : bytes) : Prop := concat s = l.
Lemma Rflat_rd : forall n a b, Rflat a b -> fst (tread n a) = fst (fread n b) /\ Rflat (snd (tread n a)) (snd (fread n b)).
Proof. intros n a b <-. unfold Rflat, fread. simpl. apply tread_spec. Qed.
Lemma Rflat_sk : forall n a b, Rflat a b ->
  fst (skip_new n a) = fst (fskip n b) /\ Rflat (snd (skip_new n a)) (snd (fskip n b)).
Proof.
  intros n a b <-. unfold Rflat, skip_new, fskip. pose proof (tread_spec a n) as [H1 H2].
  destruct (tread n a) as [x s']. simpl in *. now subst.
Qed.

Theorem run_chunked_flat : forall base isdir bufsz s,
  run_chunked false base isdir bufsz s = run_flat base isdir bufsz (concat s).
Proof.
  intros. unfold run_chunked, run_flat.
  apply (run_loop_sim _ _ _ _ _ _ false Rflat Rflat_rd Rflat_sk). split; reflexivity.
Qed.
Theorem members_chunked_flat : forall s, members_chunked false s = members_flat (concat s).
Proof.
  intros. unfold members_chunked, members_flat.
  apply (members_sim _ _ _ _ _ _ false Rflat Rflat_rd Rflat_sk). split; reflexivity.
Qed.
Theorem chunking_irrelevant : forall base isdir bufsz s1 s2,
  concat s1 = concat s2 -> run_chunked false base isdir bufsz s1 = run_chunked false base isdir bufsz s2.
Proof. intros. rewrite !run_chunked_flat. now rewrite H. Qed.
Theorem chunking_irrelevant_members : forall s1 s2,
  concat s1 = concat s2 -> members_chunked false s1 = members_chunked false s2.
Proof. intros. rewrite !members_chunked_flat. now rewrite H. Qed.
