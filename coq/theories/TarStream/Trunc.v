(* TarStream/Trunc.v — truncation: no partial file without an error; a stream that ends inside a member's
   data or padding ends in ReadError; witnesses for what is NOT detected and for the pre-fix code. *)
From Coq Require Import List Bool NArith ZArith Lia.
From SF Require Import TarStream.Model TarStream.Proofs.
Import ListNotations.
Local Open Scope N_scope.

(* ---------------------------------------------------------------- completed members are complete *)
Section Full.
  Variable St : Type.
  Variable rd : N -> St -> bytes * St.
  Variable sk : N -> St -> N * St.
  Hypothesis Hrd_le : forall n s, lenN (fst (rd n s)) <= n.

  Lemma read_le : forall n r, lenN (fst (read St rd n r)) <= n.
  Proof. intros. unfold read. specialize (Hrd_le n (und r)). destruct (rd n (und r)); simpl in *. assumption. Qed.

  Lemma fsr_done_full : forall fuel bufsz od size p r acc data r',
    bufsz <> Some 0 -> p <= size ->
    fsr_loop St rd sk false fuel bufsz od size p r acc = (Done, data, r') ->
    lenN data = lenN acc + (size - p).
  Proof.
    induction fuel as [|f IH]; intros bufsz od size p r acc data r' Hb Hp H; simpl in H; [discriminate|].
    destruct (N.leb_spec size p) as [Hle|Hlt].
    - injection H as <- _. lia.
    - set (len := match bufsz with Some b => N.min b (size - p) | None => size - p end) in *.
      assert (Hlen : len <> 0 /\ len <= size - p).
      { subst len. destruct bufsz as [b|]; [|lia]. assert (b <> 0) by (intros ->; now apply Hb). lia. }
      destruct Hlen as [Hl0 Hl1]. apply N.eqb_neq in Hl0. rewrite Hl0 in H. apply N.eqb_neq in Hl0.
      destruct (seek St sk (od + p) r) as [r1|]; [|discriminate].
      destruct (read St rd len r1) as [buf r2] eqn:E.
      destruct (N.eqb_spec (lenN buf) len) as [He|Hne]; simpl in H; [|discriminate].
      assert (lenN buf =? 0 = false) as Hz by (apply N.eqb_neq; lia). rewrite Hz in H.
      apply IH in H; [|assumption|lia]. rewrite lenN_app in H. lia.
  Qed.

  Lemma write_n_done : forall fuel n r acc data r',
    write_n St rd false fuel n r acc = (Done, data, r') -> lenN data = lenN acc + n.
  Proof.
    induction fuel as [|f IH]; intros n r acc data r' H; simpl in H; [discriminate|].
    destruct (N.eqb_spec n 0) as [->|Hn]; [injection H as <- _; lia|].
    pose proof (read_le n r) as Hle. destruct (read St rd n r) as [buf r1]. simpl in Hle.
    destruct (lenN buf =? 0); simpl in H; [discriminate|].
    apply IH in H. rewrite lenN_app in H. lia.
  Qed.

  Lemma copyfileobj_done : forall fuel rem bs r acc data r',
    copyfileobj St rd false fuel rem bs r acc = (Done, data, r') -> lenN data = lenN acc + rem.
  Proof.
    induction fuel as [|f IH]; intros rem bs r acc data r' H; [discriminate|].
    cbn [copyfileobj] in H. destruct (N.eqb_spec rem 0) as [->|Hn]; [injection H as <- _; lia|].
    destruct (write_n St rd false (S f) (N.min bs rem) r acc) as [[o a] q] eqn:E.
    destruct o; try discriminate. apply write_n_done in E. apply IH in H. lia.
  Qed.

  (* a regular member that extract_tar_stream finishes without error is written with all its bytes *)
  Lemma extract_member_file_full : forall reb fuel base bufsz h od r t t' r',
    bufsz <> Some 0 -> isreg (h_type h) = true ->
    extract_member_g St rd sk false reb fuel base bufsz h od r t = (Done, t', r') ->
    exists p data, t' = t_set p (EFile (h_mode h) data) t /\ lenN data = h_size h.
  Proof.
    intros reb fuel base bufsz h od r t t' r' Hb Hreg H. unfold extract_member_g in H. cbv zeta in H. rewrite Hreg in H.
    destruct (t_isdir (if reb then base else []) t && bytes_eqb (h_name h) base).
    - destruct reb; [discriminate|].
      match type of H with context [copyfileobj St rd false fuel ?a ?b r []] =>
        destruct (copyfileobj St rd false fuel a b r []) as [[o d] q] eqn:E end.
      destruct o; try discriminate. injection H as <- _. apply copyfileobj_done in E.
      exists base, d. split; [reflexivity|]. simpl in E. lia.
    - destruct (relp reb base (h_name h)) as [p|]; [|discriminate].
      destruct (negb _ || t_isdir p t); [discriminate|].
      destruct (fsr_loop St rd sk false fuel bufsz od (h_size h) 0 r []) as [[o d] q] eqn:E.
      destruct o; try discriminate. injection H as <- _. apply fsr_done_full in E; [|assumption|lia].
      exists p, d. split; [reflexivity|]. simpl in E. lia.
  Qed.

  (* the same at the format level: every listed member with data has exactly h_size bytes *)
  Lemma members_done_full : forall fuel off r acc ms,
    (forall m, In m acc -> has_data (h_type (fst m)) = true -> lenN (snd m) = h_size (fst m)) ->
    members St rd sk false fuel off r acc = (Done, ms) ->
    forall m, In m ms -> has_data (h_type (fst m)) = true -> lenN (snd m) = h_size (fst m).
  Proof.
    induction fuel as [|f IH]; intros off r acc ms Hacc H; [discriminate|].
    cbn [members] in H. destruct (next St rd sk false (S f) off r) as [x r1].
    destruct x as [| | |h od no|]; try discriminate.
    - injection H as <-. assumption.
    - destruct (has_data (h_type h)) eqn:Hd.
      + destruct (fsr_loop St rd sk false (S f) None od (h_size h) 0 r1 []) as [[o d] q] eqn:E.
        destruct o; try discriminate. apply fsr_done_full in E; [|discriminate|lia].
        eapply IH; [|exact H]. intros m Hin Hm. apply in_app_or in Hin. destruct Hin as [Hin|[<-|[]]].
        * now apply Hacc.
        * simpl in *. lia.
      + eapply IH; [|exact H]. intros m Hin Hm. apply in_app_or in Hin. destruct Hin as [Hin|[<-|[]]].
        * now apply Hacc.
        * simpl in Hm. congruence.
  Qed.
End Full.

Lemma fread_le : forall n s, lenN (fst (fread n s)) <= n.
Proof. intros. unfold fread. simpl. rewrite lenN_takeN. lia. Qed.
Lemma tread_le : forall n s, lenN (fst (tread n s)) <= n.
Proof. intros. destruct (tread_spec s n) as [-> _]. rewrite lenN_takeN. lia. Qed.

(* ---------------------------------------------------------------- offsets of a member *)
Lemma pax_apply1_type : forall h kv, h_type (pax_apply1 h kv) = h_type h.
Proof.
  intros h [k v]. unfold pax_apply1. destruct (bytes_eqb k K_PATH); [reflexivity|].
  destruct (bytes_eqb k K_LINKPATH); [reflexivity|]. destruct (bytes_eqb k K_SIZE); reflexivity.
Qed.
Lemma pax_apply_type : forall recs h, h_type (pax_apply recs h) = h_type h.
Proof.
  unfold pax_apply. induction recs as [|kv recs IH]; intros h; [reflexivity|].
  cbn [fold_left]. rewrite IH. apply pax_apply1_type.
Qed.
Lemma pax_apply_size_nokey : forall recs h, pax_has K_SIZE recs = false -> h_size (pax_apply recs h) = h_size h.
Proof.
  unfold pax_apply, pax_has. induction recs as [|[k v] recs IH]; intros h H; [reflexivity|].
  cbn [existsb fst] in H. apply orb_false_iff in H. destruct H as [Hk Hr].
  cbn [fold_left]. rewrite (IH _ Hr). unfold pax_apply1. destruct (bytes_eqb k K_PATH); [reflexivity|].
  destruct (bytes_eqb k K_LINKPATH); [reflexivity|]. rewrite Hk. reflexivity.
Qed.

Lemma fromtar_ok_inv : forall St rd fuel r h od no r',
  fromtar St rd fuel r = (FOk h od no, r') ->
  od = pos r' /\ no = od + (if has_data (h_type h) then block (h_size h) else 0).
Proof.
  intros St rd. induction fuel as [|f IH]; intros r h od no r' H; cbn [fromtar] in H; [discriminate|].
  destruct (read St rd 512 r) as [buf r1].
  destruct (frombuf buf) as [| | | | |h0]; try discriminate.
  destruct ((h_type h0 =? T_GNULONGNAME) || (h_type h0 =? T_GNULONGLINK)).
  - destruct (read St rd (block (h_size h0)) r1) as [nbuf r2].
    destruct (fromtar St rd f r2) as [x r3] eqn:E.
    destruct x as [e| | |h' od' no'|]; try destruct e; try discriminate.
    apply IH in E. injection H as <- <- <- <-. destruct (h_type h0 =? T_GNULONGNAME); simpl; exact E.
  - destruct (is_pax_type (h_type h0)).
    + destruct (h_type h0 =? 103); [discriminate|].
      destruct (read St rd (block (h_size h0)) r1) as [pbuf r2].
      destruct (parse_pax (S (length pbuf)) pbuf 0 []) as [recs|]; [|discriminate].
      destruct (fromtar St rd f r2) as [x r3] eqn:E.
      destruct x as [e| | |h' od' no'|]; try destruct e; try discriminate.
      destruct (pax_sparse recs); [discriminate|]. apply IH in E. destruct E as [E1 E2].
      injection H as <- <- <- <-. split; [exact E1|].
      destruct (pax_has K_SIZE recs) eqn:Hs; [reflexivity|].
      rewrite pax_apply_type, (pax_apply_size_nokey _ _ Hs). exact E2.
    + injection H as <- <- <- <-. split; reflexivity.
Qed.
Lemma next_mem_inv : forall St rd sk legacy fuel off r h od no r1,
  next St rd sk legacy fuel off r = (NxMem h od no, r1) ->
  od = pos r1 /\ no = od + (if has_data (h_type h) then block (h_size h) else 0).
Proof.
  intros St rd sk legacy fuel off r h od no r1 H. unfold next in H.
  destruct (negb (off =? pos r) && (off =? 0)); [discriminate|].
  destruct (advance St rd sk legacy off r) as [a|]; [|discriminate].
  destruct (fromtar St rd fuel a) as [x r2] eqn:E.
  destruct x as [e| | |h' od' no'|]; try destruct e; try destruct (off =? 0); try discriminate;
    injection H as <- <- <- <-; eapply fromtar_ok_inv; exact E.
Qed.

Lemma block_ge : forall n, n <= block n.
Proof.
  intros n. unfold block. destruct (N.eqb_spec (n mod 512) 0); [lia|].
  pose proof (N.div_mod n 512). pose proof (N.mod_lt n 512). lia.
Qed.
Lemma block_0 : block 0 = 0.
Proof. reflexivity. Qed.

(* ---------------------------------------------------------------- a stream that ends inside data or padding *)
Theorem truncated_member_fails : forall fuel off r h od no r1 acc,
  next bytes fread fskip false (S (S fuel)) off r = (NxMem h od no, r1) ->
  has_data (h_type h) = true ->
  lenN (und r1) < block (h_size h) ->
  fst (members bytes fread fskip false (S (S fuel)) off r acc) = ReadError.
Proof.
  intros fuel off r h od no r1 acc Hn Hd Hlt.
  pose proof (next_mem_inv _ _ _ _ _ _ _ _ _ _ _ Hn) as [Hod Hno]. rewrite Hd in Hno.
  cbn [members]. rewrite Hn, Hd. cbn [fsr_loop].
  destruct (N.leb_spec (h_size h) 0) as [Hz|Hpos].
  { assert (h_size h = 0) as E by lia. rewrite E, block_0 in Hlt. lia. }
  replace (h_size h - 0) with (h_size h) by lia.
  assert (h_size h =? 0 = false) as -> by (apply N.eqb_neq; lia).
  unfold seek. assert (pos r1 <? od + 0 = false) as -> by (apply N.ltb_ge; lia).
  assert (od + 0 <? pos r1 = false) as -> by (apply N.ltb_ge; lia).
  unfold read at 1. unfold fread. cbn [fst snd negb andb].
  rewrite lenN_takeN.
  destruct (N.le_gt_cases (h_size h) (lenN (und r1))) as [Hfull|Hshort].
  2:{ assert (N.min (h_size h) (lenN (und r1)) =? h_size h = false) as -> by (apply N.eqb_neq; lia).
      reflexivity. }
  rewrite N.min_l by assumption. rewrite N.eqb_refl. cbn [negb].
  assert (h_size h =? 0 = false) as -> by (apply N.eqb_neq; lia).
  cbn [fsr_loop]. assert (h_size h <=? 0 + h_size h = true) as -> by (apply N.leb_le; lia).
  cbn [members]. unfold next. cbn [pos und].
  set (B := block (h_size h)) in *.
  assert (no =? pos r1 + h_size h = false) as -> by (apply N.eqb_neq; lia).
  assert (no =? 0 = false) as -> by (apply N.eqb_neq; lia). cbn [negb andb].
  unfold advance. cbn [pos und].
  assert (no =? pos r1 + h_size h = false) as -> by (apply N.eqb_neq; lia).
  unfold seek. cbn [pos und].
  destruct (N.ltb_spec (pos r1 + h_size h) (no - 1)) as [Ha|Hb].
  - unfold fskip. unfold read. cbn [pos und fst snd]. unfold fread. cbn [fst snd].
    assert (lenN (takeN 1 (dropN (no - 1 - (pos r1 + h_size h)) (dropN (h_size h) (und r1)))) =? 0 = true) as ->.
    { apply N.eqb_eq. rewrite lenN_takeN, !lenN_dropN. lia. }
    reflexivity.
  - assert (no - 1 <? pos r1 + h_size h = false) as -> by (apply N.ltb_ge; lia).
    unfold read. cbn [pos und fst snd]. unfold fread. cbn [fst snd].
    assert (lenN (takeN 1 (dropN (h_size h) (und r1))) =? 0 = true) as ->.
    { apply N.eqb_eq. rewrite lenN_takeN, lenN_dropN. lia. }
    reflexivity.
Qed.

(* ---------------------------------------------------------------- concrete archives (written by Python's tarfile, GNU format) *)
Definition unrle (l : list (N * N)) : bytes := flat_map (fun p => repeat (snd p) (N.to_nat (fst p))) l.
(* d/ (0755), d/a (700 x "A", 0644), d/b (5 x "B", 0600), one zero block *)
Definition ex_dir : bytes := unrle
  [(1,100);(1,47);(98,0);(4,48);(1,55);(2,53);(1,0);(7,48);(1,0);(7,48);(1,0);(11,48);(1,0);(11,48);(1,0);(2,48);(1,54);(1,49);(1,51);(1,48);(1,0);(1,32);(1,53);(100,0);(1,117);(1,115);(1,116);(1,97);(1,114);(2,32);(248,0);(1,100);(1,47);(1,97);(97,0);(4,48);(1,54);(2,52);(1,0);(7,48);(1,0);(7,48);(1,0);(7,48);(1,49);(1,50);(1,55);(1,52);(1,0);(11,48);(1,0);(2,48);(1,54);(1,50);(2,55);(1,0);(1,32);(1,48);(100,0);(1,117);(1,115);(1,116);(1,97);(1,114);(2,32);(248,0);(700,65);(324,0);(1,100);(1,47);(1,98);(97,0);(4,48);(1,54);(2,48);(1,0);(7,48);(1,0);(7,48);(1,0);(10,48);(1,53);(1,0);(11,48);(1,0);(2,48);(1,54);(1,50);(1,53);(1,55);(1,0);(1,32);(1,48);(100,0);(1,117);(1,115);(1,116);(1,97);(1,114);(2,32);(248,0);(5,66);(1019,0)].
(* f (600 x "Z", 0644), one zero block *)
Definition ex_one : bytes := unrle
  [(1,102);(99,0);(4,48);(1,54);(2,52);(1,0);(7,48);(1,0);(7,48);(1,0);(7,48);(2,49);(1,51);(1,48);(1,0);(11,48);(1,0);(2,48);(1,54);(1,48);(1,53);(1,48);(1,0);(1,32);(1,48);(100,0);(1,117);(1,115);(1,116);(1,97);(1,114);(2,32);(248,0);(600,90);(936,0)].
Definition flip (i : nat) (l : bytes) : bytes := firstn i l ++ (match nth i l 0 with 0 => 1 | x => x - 1 end) :: skipn (S i) l.
Definition names (r : outcome * list (hdr * bytes)) := (fst r, map (fun m => (h_name (fst m), lenN (snd m))) (snd r)).
Definition d_ := [100]. Definition da := [100;47;97]. Definition db := [100;47;98].

Lemma ex_dir_members : names (members_flat ex_dir) = (Done, [(d_, 0); (da, 700); (db, 5)]).
Proof. vm_compute. reflexivity. Qed.
(* cut exactly at the header of d/b (missing end-of-archive marker), or 100 bytes into it: silent *)
Lemma ex_cut_at_header : names (members_flat (takeN 2048 ex_dir)) = (Done, [(d_, 0); (da, 700)]).
Proof. vm_compute. reflexivity. Qed.
Lemma ex_cut_in_header : names (members_flat (takeN 2148 ex_dir)) = (Done, [(d_, 0); (da, 700)]).
Proof. vm_compute. reflexivity. Qed.
(* a later header with a wrong checksum: silent *)
Lemma ex_corrupt_header : names (members_flat (flip 2050 ex_dir)) = (Done, [(d_, 0); (da, 700)]).
Proof. vm_compute. reflexivity. Qed.
(* cut in data / in padding: detected by the current code *)
Lemma ex_cut_in_data : fst (members_flat (takeN 1324 ex_dir)) = ReadError.
Proof. vm_compute. reflexivity. Qed.
Lemma ex_cut_in_padding : fst (members_flat (takeN 1800 ex_dir)) = ReadError.
Proof. vm_compute. reflexivity. Qed.
Lemma ex_first_header : fst (members_flat (takeN 300 ex_dir)) = ReadError /\ fst (members_flat []) = ReadError
                        /\ fst (members_flat (flip 2 ex_dir)) = ReadError.
Proof. vm_compute. repeat split; reflexivity. Qed.

(* ---- the code before the fix: commits ([legacy = true]) ---- *)
Fixpoint chunks_of (fuel : nat) (c : N) (d : bytes) : stream :=
  match fuel with
  | O => []
  | S f => match d with [] => [] | _ => takeN c d :: chunks_of f c (dropN c d) end
  end.
Lemma legacy_seek_chunk_dependent :
  concat (chunks_of 4000 100 ex_dir) = concat [ex_dir]
  /\ names (members_chunked true [ex_dir]) = (Done, [(d_, 0); (da, 700); (db, 5)])
  /\ names (members_chunked true (chunks_of 4000 100 ex_dir)) = (Done, [(d_, 0); (da, 700)]).
Proof. vm_compute. repeat split; reflexivity. Qed.
Lemma legacy_short_file :
  names (members_chunked true [takeN 1324 ex_dir]) = (Done, [(d_, 0); (da, 300)]).
Proof. vm_compute. reflexivity. Qed.
Lemma legacy_hang :
  fst (run_chunked true [102] true None [takeN 912 ex_one]) = Hang
  /\ fst (run_chunked false [102] true None [takeN 912 ex_one]) = ReadError
  /\ run_chunked false [102] true None (chunks_of 4000 7 ex_one)
     = (Done, [([], EDir 493); ([102], EFile 420 (repeat 90 600))]).
Proof. vm_compute. repeat split; reflexivity. Qed.

(* ---------------------------------------------------------------- statements in the form used by Props/C23.v *)
Lemma no_partial_member_chunked : forall s ms,
  members_chunked false s = (Done, ms) ->
  forall m, In m ms -> has_data (h_type (fst m)) = true -> lenN (snd m) = h_size (fst m).
Proof.
  intros s ms H. unfold members_chunked in H.
  eapply (members_done_full stream tread skip_new); [|exact H]. intros m [].
Qed.
Lemma no_partial_file_chunked : forall fuel base bufsz h od r t t' r',
  bufsz <> Some 0 -> isreg (h_type h) = true ->
  extract_member stream tread skip_new false fuel base bufsz h od r t = (Done, t', r') ->
  exists p data, t' = t_set p (EFile (h_mode h) data) t /\ lenN data = h_size h.
Proof. intros. eapply (extract_member_file_full stream tread skip_new tread_le false); eassumption. Qed.
(* the same after dst has been rebound to dst/<basename(src)> (directory extracted into an existing directory) *)
Lemma no_partial_file_rebound : forall fuel base bufsz h od r t t' r',
  bufsz <> Some 0 -> isreg (h_type h) = true ->
  extract_member_g stream tread skip_new false true fuel base bufsz h od r t = (Done, t', r') ->
  exists p data, t' = t_set p (EFile (h_mode h) data) t /\ lenN data = h_size h.
Proof. intros. eapply (extract_member_file_full stream tread skip_new tread_le true); eassumption. Qed.

Definition fewer (a b : outcome * list (hdr * bytes)) : Prop :=
  fst a = Done /\ fst b = Done /\ (length (snd a) < length (snd b))%nat.
Lemma truncated_header_silent : exists d k, fewer (members_flat (takeN k d)) (members_flat d).
Proof. exists ex_dir, 2148. vm_compute. repeat split; lia. Qed.
Lemma missing_marker_silent : exists d k,
  fewer (members_flat (takeN k d)) (members_flat d) /\ k mod 512 = 0.
Proof. exists ex_dir, 2048. vm_compute. repeat split; lia. Qed.
Lemma corrupt_header_silent : exists d i, fewer (members_flat (flip i d)) (members_flat d).
Proof. exists ex_dir, 2050%nat. vm_compute. repeat split; lia. Qed.
Lemma legacy_chunking_refuted : exists s1 s2,
  concat s1 = concat s2 /\ members_chunked true s1 <> members_chunked true s2.
Proof.
  exists [ex_dir], (chunks_of 4000 100 ex_dir). split; [vm_compute; reflexivity|].
  intro E. apply (f_equal names) in E. vm_compute in E. discriminate.
Qed.
Lemma legacy_short_file_refuted : exists s ms m,
  members_chunked true s = (Done, ms) /\ In m ms /\ has_data (h_type (fst m)) = true
  /\ lenN (snd m) < h_size (fst m).
Proof.
  exists [takeN 1324 ex_dir]. eexists. eexists. split; [vm_compute; reflexivity|].
  split; [right; left; reflexivity|]. vm_compute. split; reflexivity.
Qed.
Lemma legacy_hang_refuted : exists base s, fst (run_chunked true base true None s) = Hang.
Proof. exists [102], [takeN 912 ex_one]. vm_compute. reflexivity. Qed.

(* hypotheses of truncated_member_fails are met by a real archive cut inside the data of d/a *)
Lemma truncated_member_example :
  let r := {| pos := 512; und := dropN 512 (takeN 1324 ex_dir) |} in
  exists h od no r1,
    next bytes fread fskip false 3 512 r = (NxMem h od no, r1) /\ has_data (h_type h) = true
    /\ lenN (und r1) < block (h_size h) /\ h_name h = da.
Proof. do 4 eexists. vm_compute. repeat split; reflexivity. Qed.

(* ---------------------------------------------------------------- writer: AioTarStream.addfile / _close block arithmetic *)
Lemma lenN_zeros : forall n, lenN (zeros n) = n.
Proof. intros. unfold lenN, zeros. rewrite repeat_length. lia. Qed.
Lemma pad512_block : forall n, n + pad512 n = block n.
Proof.
  intros n. unfold pad512, block.
  destruct (N.eqb_spec (n mod 512) 0) as [E|E].
  - rewrite E. change ((512 - 0) mod 512) with 0. lia.
  - assert (H : n = 512 * (n / 512) + n mod 512) by (apply N.div_mod; discriminate).
    assert (H0 : n mod 512 < 512) by (apply N.mod_lt; discriminate).
    generalize dependent (n mod 512). generalize (n / 512). intros q x E H H0.
    rewrite (N.mod_small (512 - x)) by lia. lia.
Qed.
Lemma lenN_add_member : forall hb data, lenN (add_member hb data) = lenN hb + block (lenN data).
Proof. intros. unfold add_member. rewrite !lenN_app, lenN_zeros, <- pad512_block. lia. Qed.
Lemma block_mod : forall n, block n mod 512 = 0.
Proof.
  intros n. unfold block. destruct (N.eqb_spec (n mod 512) 0) as [E|E]; [assumption|].
  apply N.mod_mul. discriminate.
Qed.
Lemma body_mod : forall ms, (forall m, In m ms -> lenN (fst m) mod 512 = 0) ->
  lenN (concat (map (fun m => add_member (fst m) (snd m)) ms)) mod 512 = 0.
Proof.
  induction ms as [|m ms IH]; intros H; simpl; [reflexivity|].
  rewrite lenN_app, lenN_add_member.
  rewrite N.add_mod by lia. rewrite (N.add_mod (lenN (fst m))) by lia.
  rewrite H by (left; reflexivity). rewrite block_mod. rewrite IH by (intros; apply H; now right). reflexivity.
Qed.
(* AioTarStream._close: two zero blocks, then zeros up to a multiple of RECORDSIZE *)
Theorem write_archive_record_aligned : forall ms,
  lenN (write_archive ms) mod 10240 = 0.
Proof.
  intros ms. unfold write_archive. set (body := concat _). rewrite lenN_app. unfold close_marker.
  rewrite lenN_app, lenN_zeros.
  destruct (N.eqb_spec ((lenN body + 1024) mod 10240) 0) as [E|E].
  - change (lenN []) with 0. rewrite N.add_0_r. exact E.
  - rewrite lenN_zeros.
    assert (H : lenN body + 1024 = 10240 * ((lenN body + 1024) / 10240) + (lenN body + 1024) mod 10240)
      by (apply N.div_mod; discriminate).
    assert (H0 : (lenN body + 1024) mod 10240 < 10240) by (apply N.mod_lt; discriminate).
    generalize dependent ((lenN body + 1024) mod 10240). generalize ((lenN body + 1024) / 10240).
    intros q x E H H0.
    replace (lenN body + (1024 + (10240 - x))) with ((q + 1) * 10240) by lia.
    apply N.mod_mul. discriminate.
Qed.
(* every member starts on a block boundary when the header blocks do *)
Theorem write_archive_block_aligned : forall ms,
  (forall x, In x ms -> lenN (fst x) mod 512 = 0) ->
  lenN (concat (map (fun m => add_member (fst m) (snd m)) ms)) mod 512 = 0.
Proof. intros. now apply body_mod. Qed.
