(* TarStream/Model.v — model of the reading side of streamflow/deployment/aiotarstream.py and of
   extract_tar_stream (streamflow/deployment/connector/base.py), plus the block arithmetic of the writer.
   ANCHORS: streamflow.deployment.aiotarstream.TellableStreamWrapper.read,
            streamflow.deployment.aiotarstream.SeekableStreamReaderWrapper.seek,
            streamflow.deployment.aiotarstream.FileStreamReaderWrapper.read,
            streamflow.deployment.aiotarstream.copyfileobj, streamflow.deployment.aiotarstream.write,
            streamflow.deployment.aiotarstream.AioTarInfo.fromtarfile, ._proc_builtin, ._proc_gnulong, ._proc_pax,
            streamflow.deployment.aiotarstream.AioTarStream.next, .makefile, .addfile, ._close,
            streamflow.deployment.connector.base.extract_tar_stream,
            tarfile.TarInfo.frombuf, tarfile.nti, tarfile.nts, tarfile.calc_chksums (CPython, called by the above)
   Definitions only.  Bytes are [N]; a stream is the list of the chunks the underlying reader will
   deliver (asyncio.StreamReader.read(n): at most n bytes, at most what is buffered, b"" only at EOF).
   The parser is written once, in a Section, against an abstract reader [rd]/[skip]; it is instantiated
   with the chunked stream (what the correspondence runs) and with a flat byte list (the reference).
   [legacy = true] reproduces the three places as they were before the fix: commits in /repo:
   seek() = one raw read and position := offset; no short-read errors; write() spinning at EOF. *)
From Coq Require Import List Bool NArith ZArith.
Import ListNotations.
Local Open Scope N_scope.

Definition bytes := list N.
Definition stream := list bytes.

Definition lenN (l : bytes) : N := N.of_nat (length l).

Fixpoint takeN (n : N) (l : bytes) : bytes :=
  match l with
  | [] => []
  | x :: r => if n =? 0 then [] else x :: takeN (N.pred n) r
  end.
Fixpoint dropN (n : N) (l : bytes) : bytes :=
  match l with
  | [] => []
  | x :: r => if n =? 0 then l else dropN (N.pred n) r
  end.
Definition slice (a b : N) (l : bytes) : bytes := takeN (b - a) (dropN a l).

(* ---- the underlying reader: one call returns at most n bytes and never crosses a chunk ---- *)
Definition raw_read (n : N) (s : stream) : bytes * stream :=
  match s with
  | [] => ([], [])
  | c :: r => if lenN c <=? n then (c, r) else (takeN n c, dropN n c :: r)
  end.

(* ---- TellableStreamWrapper.read(size): while size > 0: res = read(size); if not res: break; ... ---- *)
Fixpoint tread_loop (fuel : nat) (n : N) (s : stream) (buf : bytes) : bytes * stream :=
  match fuel with
  | O => (buf, s)
  | S f =>
      if n =? 0 then (buf, s)
      else let '(res, s') := raw_read n s in
           if lenN res =? 0 then (buf, s') else tread_loop f (n - lenN res) s' (buf ++ res)
  end.
(* the same loop by structural recursion on the chunk list (equal to the loop when no chunk is empty:
   TarStream/Proofs.v tread_loop_tread); this is the one the parser uses *)
Fixpoint tread (n : N) (s : stream) : bytes * stream :=
  match s with
  | [] => ([], [])
  | c :: r =>
      if n =? 0 then ([], s)
      else if lenN c <=? n then let '(b, s') := tread (n - lenN c) r in (c ++ b, s')
           else (takeN n c, dropN n c :: r)
  end.
(* SeekableStreamReaderWrapper.seek, forward part: returns (how far the position moves, stream) *)
Definition skip_new (n : N) (s : stream) : N * stream :=
  let '(b, s') := tread n s in (lenN b, s').
Definition skip_old (n : N) (s : stream) : N * stream :=     (* one raw read; self.position = offset *)
  (n, snd (raw_read n s)).
(* reference reader over the whole byte string *)
Definition fread (n : N) (l : bytes) : bytes * bytes := (takeN n l, dropN n l).
Definition fskip (n : N) (l : bytes) : N * bytes := (lenN (takeN n l), dropN n l).

(* ---- tarfile.nts / nti / calc_chksums / TarInfo.frombuf ---- *)
Fixpoint nts (s : bytes) : bytes :=
  match s with
  | [] => []
  | x :: r => if x =? 0 then [] else x :: nts r
  end.
Definition is_ws (b : N) : bool := (b =? 32) || ((9 <=? b) && (b <=? 13)) || ((28 <=? b) && (b <=? 31)).
Fixpoint lstrip (s : bytes) : bytes :=
  match s with
  | [] => []
  | x :: r => if is_ws x then lstrip r else s
  end.
Definition strip (s : bytes) : bytes := rev (lstrip (rev (lstrip s))).
Fixpoint oct_val (acc : N) (s : bytes) : option N :=
  match s with
  | [] => Some acc
  | d :: r => if (48 <=? d) && (d <=? 55) then oct_val (acc * 8 + (d - 48)) r else None
  end.
Inductive nres := NOk (n : N) | NBad | NUnsup.
(* NUnsup: GNU base-256 field (first byte 0o200/0o377), outside the model.  int(s, 8) leniencies
   (sign, underscores, 0o prefix) are outside too: the model answers NBad there. *)
Definition nti (s : bytes) : nres :=
  match s with
  | 128 :: _ => NUnsup
  | 255 :: _ => NUnsup
  | _ => let t := nts s in
         if existsb (fun b => 128 <=? b) t then NBad
         else match oct_val 0 (strip t) with Some n => NOk n | None => NBad end
  end.
Definition sumN (l : bytes) : N := fold_left N.add l 0.
Definition sbyte (b : N) : Z := if b <? 128 then Z.of_N b else (Z.of_N b - 256)%Z.
Definition sumZ (l : bytes) : Z := fold_left (fun a b => (a + sbyte b)%Z) l 0%Z.
Definition chk_ok (c : N) (buf : bytes) : bool :=
  (c =? 256 + sumN (takeN 148 buf) + sumN (dropN 156 buf))
  || (Z.of_N c =? 256 + sumZ (takeN 148 buf) + sumZ (dropN 156 buf))%Z.

Record hdr := { h_name : bytes; h_mode : N; h_size : N; h_type : N; h_link : bytes }.
Inductive hres := HEmpty | HTrunc | HEof | HInvalid | HUnsup | HOk (h : hdr).

Fixpoint rstrip_slash_rev (r : bytes) : bytes :=
  match r with
  | 47 :: r' => rstrip_slash_rev r'
  | _ => r
  end.
Definition rstrip_slash (s : bytes) : bytes := rev (rstrip_slash_rev (rev s)).
Definition ends_slash (s : bytes) : bool := match rev s with 47 :: _ => true | _ => false end.

Definition T_AREG := 0. Definition T_REG := 48. Definition T_LNK := 49. Definition T_SYM := 50.
Definition T_DIR := 53. Definition T_CONT := 55.
Definition T_GNULONGNAME := 76. Definition T_GNULONGLINK := 75. Definition T_GNUSPARSE := 83.
Definition is_gnu_type (t : N) : bool := (t =? 76) || (t =? 75) || (t =? 83).
Definition is_pax_type (t : N) : bool := (t =? 120) || (t =? 103) || (t =? 88).
Definition isreg (t : N) : bool := (t =? 48) || (t =? 0) || (t =? 55) || (t =? 83).
Definition supported (t : N) : bool :=
  (t =? 48) || (t =? 0) || (t =? 49) || (t =? 50) || (t =? 53) || (t =? 54) || (t =? 55) || (t =? 51)
  || (t =? 52) || (t =? 76) || (t =? 75) || (t =? 83).
Definition has_data (t : N) : bool := isreg t || negb (supported t).

Definition nres_all (l : list nres) : nres :=   (* any NBad -> NBad (InvalidHeaderError), else any NUnsup *)
  if existsb (fun r => match r with NBad => true | _ => false end) l then NBad
  else if existsb (fun r => match r with NUnsup => true | _ => false end) l then NUnsup else NOk 0.

Definition frombuf (buf : bytes) : hres :=
  if lenN buf =? 0 then HEmpty
  else if negb (lenN buf =? 512) then HTrunc
  else if forallb (N.eqb 0) buf then HEof
  else match nti (slice 148 156 buf) with
       | NBad => HInvalid
       | NUnsup => HUnsup
       | NOk c =>
           if negb (chk_ok c buf) then HInvalid
           else
             let mode := nti (slice 100 108 buf) in
             let size := nti (slice 124 136 buf) in
             match nres_all [mode; nti (slice 108 116 buf); nti (slice 116 124 buf); size;
                             nti (slice 136 148 buf); nti (slice 329 337 buf); nti (slice 337 345 buf)] with
             | NBad => HInvalid
             | NUnsup => HUnsup
             | NOk _ =>
                 match mode, size with
                 | NOk m, NOk sz =>
                     let name := nts (slice 0 100 buf) in
                     let ty := nth 156 buf 0 in
                     let link := nts (slice 157 257 buf) in
                     let prefix := nts (slice 345 500 buf) in
                     let ty := if (ty =? T_AREG) && ends_slash name then T_DIR else ty in
                     if ty =? T_GNUSPARSE then HUnsup
                     else
                       let name := if ty =? T_DIR then rstrip_slash name else name in
                       let name := match prefix with
                                   | [] => name
                                   | _ => if is_gnu_type ty then name else prefix ++ 47 :: name
                                   end in
                       HOk {| h_name := name; h_mode := m; h_size := sz; h_type := ty; h_link := link |}
                 | _, _ => HUnsup
                 end
             end
       end.

(* TarInfo._block *)
Definition block (n : N) : N := if n mod 512 =? 0 then n else (n / 512 + 1) * 512.

(* ---- extract_tar_stream's view of the destination: paths relative to dst ("" = dst itself) ---- *)
Inductive entry := EDir (mode : N) | EFile (mode : N) (content : bytes) | ELink (target : bytes).
Definition tree := list (bytes * entry).
Definition bytes_eqb (a b : bytes) : bool :=
  (length a =? length b)%nat && forallb (fun p => fst p =? snd p) (combine a b).
Fixpoint t_get (p : bytes) (t : tree) : option entry :=
  match t with
  | [] => None
  | (q, e) :: r => if bytes_eqb p q then Some e else t_get p r
  end.
Fixpoint t_set (p : bytes) (e : entry) (t : tree) : tree :=
  match t with
  | [] => [(p, e)]
  | (q, e') :: r => if bytes_eqb p q then (q, e) :: r else (q, e') :: t_set p e r
  end.
Definition t_isdir (p : bytes) (t : tree) : bool :=
  match t_get p t with Some (EDir _) => true | _ => false end.
(* os.path.dirname of a clean relative path; None for "" (the parent of dst is outside the tree) *)
Fixpoint dirname_rev (r : bytes) : bytes :=
  match r with
  | [] => []
  | 47 :: r' => r'
  | _ :: r' => dirname_rev r'
  end.
Definition dirname (p : bytes) : bytes := rev (dirname_rev (rev p)).
(* os.makedirs(exist_ok=True) of p and its ancestors inside dst, default mode 0o755 (umask 022) *)
Fixpoint makedirs (fuel : nat) (p : bytes) (t : tree) : option tree :=
  match fuel with
  | O => None
  | S f =>
      match t_get p t with
      | Some (EDir _) => Some t
      | Some (EFile _ _) => None
      | Some (ELink _) => None
      | None =>
          match p with
          | [] => Some (t_set [] (EDir 493) t)
          | _ => match makedirs f (dirname p) t with
                 | Some t' => Some (t_set p (EDir 493) t')
                 | None => None
                 end
          end
      end
  end.

Fixpoint starts_with (p s : bytes) : option bytes :=
  match p, s with
  | [], _ => Some s
  | x :: p', y :: s' => if x =? y then starts_with p' s' else None
  | _ :: _, [] => None
  end.
(* posixpath.relpath(name, base) for names that are base or base/<clean relative path>; "." is
   rendered as "" ; anything else is outside the model *)
Definition rel_under (base name : bytes) : option bytes :=
  let n := rstrip_slash name in
  if bytes_eqb n base then Some []
  else starts_with (base ++ [47]) n.

(* ---- AioTarInfo._proc_pax: records "<len> <key>=<value>\n" ---- *)
Definition is_digit (b : N) : bool := (48 <=? b) && (b <=? 57).
Fixpoint take_digits (s : bytes) : bytes * bytes :=
  match s with
  | d :: r => if is_digit d then let '(ds, r') := take_digits r in (d :: ds, r') else ([], s)
  | [] => ([], [])
  end.
Fixpoint take_key (s : bytes) : bytes * bytes :=          (* [^=]+ *)
  match s with
  | c :: r => if c =? 61 then ([], s) else let '(k, r') := take_key r in (c :: k, r')
  | [] => ([], [])
  end.
Fixpoint dec_val (acc : N) (ds : bytes) : N :=
  match ds with
  | [] => acc
  | d :: r => dec_val (acc * 10 + (d - 48)) r
  end.
Inductive prec := PNoMatch | PInvalid | PRec (key value : bytes) (len : N).
(* regex.match(buf, pos) with rb"(\d+) ([^=]+)=" ; value = buf[m.end(2)+1 : m.start(1)+length-1] *)
Definition pax_record (buf : bytes) (p : N) : prec :=
  let '(ds, r1) := take_digits (dropN p buf) in
  match ds, r1 with
  | _ :: _, 32 :: r2 =>
      let '(k, r3) := take_key r2 in
      match k, r3 with
      | _ :: _, 61 :: _ =>
          let len := dec_val 0 ds in
          if len =? 0 then PInvalid
          else PRec k (slice (p + lenN ds + 1 + lenN k + 1) (p + len - 1) buf) len
      | _, _ => PNoMatch
      end
  | _, _ => PNoMatch
  end.
Definition pax_recs := list (bytes * bytes).
Fixpoint parse_pax (fuel : nat) (buf : bytes) (p : N) (acc : pax_recs) : option pax_recs :=
  match fuel with
  | O => Some acc
  | S f =>
      match pax_record buf p with
      | PNoMatch => Some acc
      | PInvalid => None
      | PRec k v len => parse_pax f buf (p + len) (acc ++ [(k, v)])
      end
  end.
Definition K_PATH : bytes := [112;97;116;104].
Definition K_LINKPATH : bytes := [108;105;110;107;112;97;116;104].
Definition K_SIZE : bytes := [115;105;122;101].
Definition K_SPARSE_PREFIX : bytes := [71;78;85;46;115;112;97;114;115;101].      (* "GNU.sparse" *)
Definition has_prefix (p s : bytes) : bool := match starts_with p s with Some _ => true | None => false end.
Definition pax_has (k : bytes) (recs : pax_recs) : bool := existsb (fun kv => bytes_eqb (fst kv) k) recs.
Definition pax_sparse (recs : pax_recs) : bool := existsb (fun kv => has_prefix K_SPARSE_PREFIX (fst kv)) recs.
Definition pax_int (v : bytes) : N := if forallb is_digit v && negb (lenN v =? 0) then dec_val 0 v else 0.
(* TarInfo._apply_pax_info, in record order (a dict: the last occurrence of a key wins) *)
Definition pax_apply1 (h : hdr) (kv : bytes * bytes) : hdr :=
  let '(k, v) := kv in
  if bytes_eqb k K_PATH then {| h_name := rstrip_slash v; h_mode := h_mode h; h_size := h_size h; h_type := h_type h; h_link := h_link h |}
  else if bytes_eqb k K_LINKPATH then {| h_name := h_name h; h_mode := h_mode h; h_size := h_size h; h_type := h_type h; h_link := v |}
  else if bytes_eqb k K_SIZE then {| h_name := h_name h; h_mode := h_mode h; h_size := pax_int v; h_type := h_type h; h_link := h_link h |}
  else h.
Definition pax_apply (recs : pax_recs) (h : hdr) : hdr := fold_left pax_apply1 recs h.


(* member path relative to the original dst: relpath(name, basename(src)), prefixed by <base>/ once dst has
   been rebound to dst/<base> *)
Definition relp (reb : bool) (base name : bytes) : option bytes :=
  if reb then match rel_under base name with
              | Some [] => Some base
              | Some p => Some (base ++ 47 :: p)
              | None => None
              end
  else rel_under base name.

Inductive outcome := Done | ReadError | Hang | Unsupported.

Section Parser.
  Variable St : Type.
  Variable rd : N -> St -> bytes * St.          (* tar.stream.read(n): loops until n bytes or EOF *)
  Variable skip : N -> St -> N * St.            (* forward part of tar.stream.seek *)
  Variable legacy : bool.

  Record rst := { pos : N; und : St }.
  Definition read (n : N) (r : rst) : bytes * rst :=
    let '(b, s') := rd n (und r) in (b, {| pos := pos r + lenN b; und := s' |}).
  (* SeekableStreamReaderWrapper.seek: None = ReadError("Cannot seek backward with streams") *)
  Definition seek (off : N) (r : rst) : option rst :=
    if pos r <? off then let '(d, s') := skip (off - pos r) (und r) in Some {| pos := pos r + d; und := s' |}
    else if off <? pos r then None else Some r.

  (* AioTarInfo.fromtarfile with _proc_member: builtin, GNU long name/link, pax extended headers
     (path, linkpath, size); global pax headers and sparse members are outside the model *)
  Inductive fres := FHdr (e : hres) | FSub | FUnsup | FOk (h : hdr) (offset_data next_offset : N)
                  | FFuel.   (* the model ran out of fuel (never the case with the fuel run_chunked/members_* give) *)
  Fixpoint fromtar (fuel : nat) (r : rst) : fres * rst :=
    match fuel with
    | O => (FFuel, r)
    | S f =>
        let '(buf, r1) := read 512 r in
        match frombuf buf with
        | HOk h =>
            if (h_type h =? T_GNULONGNAME) || (h_type h =? T_GNULONGLINK) then
              let '(nbuf, r2) := read (block (h_size h)) r1 in
              match fromtar f r2 with
              | (FOk h' od no, r3) =>
                  let h'' := if h_type h =? T_GNULONGNAME
                             then {| h_name := nts nbuf; h_mode := h_mode h'; h_size := h_size h';
                                     h_type := h_type h'; h_link := h_link h' |}
                             else {| h_name := h_name h'; h_mode := h_mode h'; h_size := h_size h';
                                     h_type := h_type h'; h_link := nts nbuf |} in
                  (FOk h'' od no, r3)
              | (FHdr HUnsup, r3) => (FUnsup, r3)
              | (FHdr _, r3) => (FSub, r3)            (* HeaderError -> SubsequentHeaderError *)
              | (FSub, r3) => (FSub, r3)
              | (FUnsup, r3) => (FUnsup, r3)
              | (FFuel, r3) => (FFuel, r3)
              end
            else if is_pax_type (h_type h) then
              if h_type h =? 103 then (FUnsup, r1)          (* 'g' global header: outside the model *)
              else
                (* _proc_pax for 'x' / 'X': payload, records, then the real header, then _apply_pax_info *)
                let '(pbuf, r2) := read (block (h_size h)) r1 in
                match parse_pax (S (length pbuf)) pbuf 0 [] with
                | None => (FHdr HInvalid, r2)               (* InvalidHeaderError("invalid header"): length 0 *)
                | Some recs =>
                    match fromtar f r2 with
                    | (FOk h' od no, r3) =>
                        if pax_sparse recs then (FUnsup, r3)
                        else
                          let h'' := pax_apply recs h' in
                          let no' := if pax_has K_SIZE recs
                                     then od + (if has_data (h_type h'') then block (h_size h'') else 0)
                                     else no in
                          (FOk h'' od no', r3)
                    | (FHdr HUnsup, r3) => (FUnsup, r3)
                    | (FHdr _, r3) => (FSub, r3)
                    | (FSub, r3) => (FSub, r3)
                    | (FUnsup, r3) => (FUnsup, r3)
                    | (FFuel, r3) => (FFuel, r3)
                    end
                end
            else (FOk h (pos r1) (pos r1 + (if has_data (h_type h) then block (h_size h) else 0)), r1)
        | e => (FHdr e, r1)
        end
    end.

  (* AioTarStream.next; [offset] is tarstream.offset *)
  Inductive nxt := NxErr | NxNone | NxUnsup | NxMem (h : hdr) (offset_data : N) (next_offset : N) | NxFuel.
  Definition advance (offset : N) (r : rst) : option rst :=     (* None = ReadError *)
    if offset =? pos r then Some r
    else if legacy then seek offset r
    else match seek (offset - 1) r with
         | None => None
         | Some r1 => let '(b, r2) := read 1 r1 in if lenN b =? 0 then None else Some r2
         end.
  Definition next (fuel : nat) (offset : N) (r : rst) : nxt * rst :=
    if negb (offset =? pos r) && (offset =? 0) then (NxNone, r)
    else match advance offset r with
         | None => (NxErr, r)
         | Some r1 =>
             match fromtar fuel r1 with
             | (FOk h od no, r2) => (NxMem h od no, r2)
             | (FHdr HEof, r2) => (NxNone, r2)
             | (FHdr HUnsup, r2) => (NxUnsup, r2)
             | (FHdr _, r2) => ((if offset =? 0 then NxErr else NxNone), r2)
             | (FSub, r2) => (NxErr, r2)
             | (FUnsup, r2) => (NxUnsup, r2)
             | (FFuel, r2) => (NxFuel, r2)
             end
         end.

  (* the loop of extract_tar_stream over FileStreamReaderWrapper.read(transferBufferSize) for an
     ordinary (non-sparse) member: returns what was written to the output file *)
  Fixpoint fsr_loop (fuel : nat) (bufsz : option N) (od size position : N) (r : rst) (acc : bytes)
    : outcome * bytes * rst :=
    match fuel with
    | O => (Hang, acc, r)
    | S f =>
        if size <=? position then (Done, acc, r)
        else
          let remaining := size - position in
          let len := match bufsz with Some b => N.min b remaining | None => remaining end in
          if len =? 0 then (Done, acc, r)
          else match seek (od + position) r with
               | None => (ReadError, acc, r)
               | Some r1 =>
                   let '(buf, r2) := read len r1 in
                   if negb legacy && negb (lenN buf =? len) then (ReadError, acc, r2)
                   else if lenN buf =? 0 then (Done, acc, r2)
                   else fsr_loop f bufsz od size (position + lenN buf) r2 (acc ++ buf)
               end
    end.

  (* aiotarstream.write(src, dst, bufsize) *)
  Fixpoint write_n (fuel : nat) (n : N) (r : rst) (acc : bytes) : outcome * bytes * rst :=
    match fuel with
    | O => (Hang, acc, r)
    | S f =>
        if n =? 0 then (Done, acc, r)
        else let '(buf, r1) := read n r in
             if negb legacy && (lenN buf =? 0) then (ReadError, acc, r1)
             else write_n f (n - lenN buf) r1 (acc ++ buf)
    end.
  (* aiotarstream.copyfileobj(src, dst, length, bufsize): full blocks, then the remainder *)
  Fixpoint copyfileobj (fuel : nat) (remaining bs : N) (r : rst) (acc : bytes) : outcome * bytes * rst :=
    match fuel with
    | O => (Hang, acc, r)
    | S f =>
        if remaining =? 0 then (Done, acc, r)
        else let n := N.min bs remaining in
             match write_n fuel n r acc with
             | (Done, acc', r') => copyfileobj f (remaining - n) bs r' acc'
             | other => other
             end
    end.

  (* one member through extract_tar_stream.  [reb] = dst has been rebound to dst/<basename(src)> (since /repo
     1583bc4: a directory root member extracted into an existing directory); tree paths stay relative to the
     ORIGINAL dst, so after the rebind the current dst is the entry [base] and member paths get that prefix *)
  Definition extract_member_g (reb : bool) (fuel : nat) (base : bytes) (bufsz : option N) (h : hdr) (od : N)
             (r : rst) (t : tree) : outcome * tree * rst :=
    let copybs := match bufsz with Some 0 => 16384 | Some b => b | None => 16384 end in
    if t_isdir (if reb then base else []) t && bytes_eqb (h_name h) base then
      if reb then (Unsupported, t, r)       (* a second root member: nested rebind, outside the model *) else
      (* tar.extract(member, dst): target dst/<name> *)
      if isreg (h_type h) then
        match copyfileobj fuel (h_size h) copybs r [] with
        | (Done, data, r') => (Done, t_set base (EFile (h_mode h) data) t, r')
        | (o, data, r') => (o, t_set base (EFile 420 data) t, r')
        end
      else if h_type h =? T_DIR then
        (* tar.extract(member, dst): mkdir dst/<base>, chmod; run_loop then rebinds dst (see [rebinds]) *)
        match t_get base t with
        | Some (EFile _ _) => (Unsupported, t, r)
        | Some (ELink _) => (Unsupported, t, r)
        | _ => (Done, t_set base (EDir (h_mode h)) t, r)
        end
      else (Unsupported, t, r)
    else if isreg (h_type h) then
      (* extractfile + read loop, then chmod *)
      match relp reb base (h_name h) with
      | None => (Unsupported, t, r)
      | Some p =>
          let parent_ok := match p with [] => true | _ => t_isdir (dirname p) t end in
          if negb parent_ok || t_isdir p t then (Unsupported, t, r)
          else match fsr_loop fuel bufsz od (h_size h) 0 r [] with
               | (Done, data, r') => (Done, t_set p (EFile (h_mode h) data) t, r')
               | (o, data, r') => (o, t_set p (EFile 420 data) t, r')
               end
      end
    else if h_type h =? T_DIR then
      match relp reb base (h_name h) with
      | None => (Unsupported, t, r)
      | Some p =>
          match makedirs (S (length p)) (match p with [] => [] | _ => dirname p end) t with
          | None => (Unsupported, t, r)
          | Some t1 =>
              match t_get p t1 with
              | Some (EFile _ _) => (Unsupported, t, r)
              | Some (ELink _) => (Unsupported, t, r)
              | _ => (Done, t_set p (EDir (h_mode h)) t1, r)
              end
          end
      end
    else if h_type h =? T_SYM then
      (* makelink: os.symlink(tarinfo.linkname, dst/<rel name>); the link name is NOT rewritten (35e756c) *)
      match relp reb base (h_name h) with
      | None | Some [] => (Unsupported, t, r)
      | Some p =>
          match makedirs (S (length p)) (dirname p) t with
          | None => (Unsupported, t, r)
          | Some t1 =>
              match t_get p t1 with
              | Some (EDir _) => (Unsupported, t, r)
              | _ => (Done, t_set p (ELink (h_link h)) t1, r)
              end
          end
      end
    else if h_type h =? T_LNK then
      (* linkname := relpath(linkname, basename(src)); os.link(dst/<rel link>, dst/<rel name>); chmod acts on
         the shared inode.  A target that is not an already extracted regular file is outside the model *)
      match relp reb base (h_name h), relp reb base (h_link h) with
      | Some (x :: p'), Some q =>
          let p := x :: p' in
          match makedirs (S (length p)) (dirname p) t with
          | None => (Unsupported, t, r)
          | Some t1 =>
              match t_get q t1, t_get p t1 with
              | Some (EFile _ content), None =>
                  (Done, t_set p (EFile (h_mode h) content) (t_set q (EFile (h_mode h) content) t1), r)
              | Some (EFile _ content), Some (EFile _ _) =>
                  if bytes_eqb p q then (Unsupported, t, r)
                  else (Done, t_set p (EFile (h_mode h) content) (t_set q (EFile (h_mode h) content) t1), r)
              | _, _ => (Unsupported, t, r)
              end
          end
      | _, _ => (Unsupported, t, r)
      end
    else (Unsupported, t, r).

  Definition extract_member := extract_member_g false.
  (* extract_tar_stream: "if member.isdir(): dst = os.path.join(dst, member.path)" in the first branch *)
  Definition rebinds (reb : bool) (base : bytes) (h : hdr) (t : tree) : bool :=
    negb reb && t_isdir [] t && bytes_eqb (h_name h) base && (h_type h =? T_DIR).

  (* async for member in tar: ...  *)
  Fixpoint run_loop (fuel : nat) (base : bytes) (bufsz : option N) (offset : N) (r : rst) (t : tree)
           (reb : bool) : outcome * tree :=
    match fuel with
    | O => (Hang, t)
    | S f =>
        match next fuel offset r with
        | (NxErr, _) => (ReadError, t)
        | (NxNone, _) => (Done, t)
        | (NxUnsup, _) => (Unsupported, t)
        | (NxFuel, _) => (Hang, t)
        | (NxMem h od no, r1) =>
            match extract_member_g reb fuel base bufsz h od r1 t with
            | (Done, t', r2) => run_loop f base bufsz no r2 t' (reb || rebinds reb base h t)
            | (o, t', _) => (o, t')
            end
        end
    end.

  (* the list of (header, data) the reader yields when every member is read through extractfile():
     the format-level view used by the chunking/truncation theorems and the writer round trip *)
  Fixpoint members (fuel : nat) (offset : N) (r : rst) (acc : list (hdr * bytes))
    : outcome * list (hdr * bytes) :=
    match fuel with
    | O => (Hang, acc)
    | S f =>
        match next fuel offset r with
        | (NxErr, _) => (ReadError, acc)
        | (NxNone, _) => (Done, acc)
        | (NxUnsup, _) => (Unsupported, acc)
        | (NxFuel, _) => (Hang, acc)
        | (NxMem h od no, r1) =>
            if has_data (h_type h) then
              match fsr_loop fuel None od (h_size h) 0 r1 [] with
              | (Done, data, r2) => members f no r2 (acc ++ [(h, data)])
              | (o, data, _) => (o, acc ++ [(h, data)])
              end
            else members f no r1 (acc ++ [(h, [])])
        end
    end.
End Parser.

Arguments pos {St}. Arguments und {St}.

Definition init_tree (dst_isdir : bool) : tree := if dst_isdir then [([], EDir 493)] else [].

(* what the implementation does on a chunked stream *)
Definition run_chunked (legacy : bool) (base : bytes) (dst_isdir : bool) (bufsz : option N) (s : stream)
  : outcome * tree :=
  run_loop stream tread (if legacy then skip_old else skip_new) legacy
           (S (length (concat s))) base bufsz 0 {| pos := 0; und := s |} (init_tree dst_isdir) false.
(* the reference: the same bytes delivered at once *)
Definition run_flat (base : bytes) (dst_isdir : bool) (bufsz : option N) (d : bytes) : outcome * tree :=
  run_loop bytes fread fskip false (S (length d)) base bufsz 0 {| pos := 0; und := d |}
           (init_tree dst_isdir) false.
Definition members_chunked (legacy : bool) (s : stream) : outcome * list (hdr * bytes) :=
  members stream tread (if legacy then skip_old else skip_new) legacy
          (S (length (concat s))) 0 {| pos := 0; und := s |} [].
Definition members_flat (d : bytes) : outcome * list (hdr * bytes) :=
  members bytes fread fskip false (S (length d)) 0 {| pos := 0; und := d |} [].

(* ---- writer: AioTarStream.addfile / _close block arithmetic (the header block(s) come from
   CPython's TarInfo.tobuf and are an input here) ---- *)
Definition zeros (n : N) : bytes := repeat 0 (N.to_nat n).
Definition pad512 (n : N) : N := (512 - n mod 512) mod 512.
Definition add_member (hdrblocks data : bytes) : bytes := hdrblocks ++ data ++ zeros (pad512 (lenN data)).
Definition close_marker (offset : N) : bytes :=
  let o := offset + 1024 in
  zeros 1024 ++ (if o mod 10240 =? 0 then [] else zeros (10240 - o mod 10240)).
Definition write_archive (ms : list (bytes * bytes)) : bytes :=
  let body := concat (map (fun m => add_member (fst m) (snd m)) ms) in
  body ++ close_marker (lenN body).

(* ---- header writer: tarfile.stn / itn (octal branch) / TarInfo._create_header / create_gnu_header /
   _create_gnu_long_header / get_info, as AioTarStream.addfile calls them through tarinfo.tobuf(GNU_FORMAT).
   (ANCHORS, CPython: tarfile.TarInfo.tobuf, .create_gnu_header, ._create_header, ._create_gnu_long_header) ---- *)
Fixpoint oct_digits (k : nat) (n : N) : bytes :=         (* "%0*o" % (k, n), n < 8^k *)
  match k with
  | O => []
  | S k' => oct_digits k' (n / 8) ++ [48 + n mod 8]
  end.
Definition stn (s : bytes) (len : N) : bytes := takeN len s ++ zeros (len - lenN s).
Definition itn8 (n : N) : bytes := oct_digits 7 n ++ [0].
Definition itn12 (n : N) : bytes := oct_digits 11 n ++ [0].
Definition GNU_MAGIC : bytes := [117; 115; 116; 97; 114; 32; 32; 0].          (* b"ustar  \0" *)
Record hmeta := { m_uid : N; m_gid : N; m_mtime : N; m_uname : bytes; m_gname : bytes }.
Definition meta0 : hmeta := {| m_uid := 0; m_gid := 0; m_mtime := 0; m_uname := []; m_gname := [] |}.
(* bytes 0..148 and 156..512 of a header block; the checksum field sits between them *)
Definition hdr_pre (name : bytes) (mode size : N) (mt : hmeta) : bytes :=
  stn name 100 ++ itn8 mode ++ itn8 (m_uid mt) ++ itn8 (m_gid mt) ++ itn12 size ++ itn12 (m_mtime mt).
Definition hdr_post (ty : N) (link : bytes) (mt : hmeta) : bytes :=
  [ty] ++ stn link 100 ++ GNU_MAGIC ++ stn (m_uname mt) 32 ++ stn (m_gname mt) 32
  ++ zeros 8 ++ zeros 8 ++ zeros 155 ++ zeros 12.
Definition hdr_block (name : bytes) (mode size ty : N) (link : bytes) (mt : hmeta) : bytes :=
  let pre := hdr_pre name mode size mt in
  let post := hdr_post ty link mt in
  pre ++ (oct_digits 6 (256 + sumN pre + sumN post) ++ [0; 32]) ++ post.
Definition LONGLINK_NAME : bytes := [46;47;46;47;64;76;111;110;103;76;105;110;107].   (* "././@LongLink" *)
Definition gnu_long (ty : N) (s : bytes) : bytes :=
  let payload := s ++ [0] in
  hdr_block LONGLINK_NAME 0 (lenN payload) ty [] meta0 ++ payload ++ zeros (pad512 (lenN payload)).
(* tobuf(GNU_FORMAT): get_info appends "/" to directory names and masks the mode *)
Definition tobuf (h : hdr) (mt : hmeta) : bytes :=
  let name := if (h_type h =? T_DIR) && negb (ends_slash (h_name h)) then h_name h ++ [47] else h_name h in
  (if 100 <? lenN (h_link h) then gnu_long T_GNULONGLINK (h_link h) else [])
  ++ (if 100 <? lenN name then gnu_long T_GNULONGNAME name else [])
  ++ hdr_block name (N.land (h_mode h) 4095) (h_size h) (h_type h) (h_link h) mt.
