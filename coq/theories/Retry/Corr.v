(* Retry/Corr.v — correspondence cases for Retry/Model.v (used by the C17 check). *)
From Coq Require Import List Bool NArith.
From SF Require Import Base.Str Base.Corr.
From SF Require Export Retry.Model.
Import ListNotations.
Local Open Scope list_scope.

Definition outcome_eqb (a b : outcome) : bool :=
  match a, b with Completed, Completed | Failed, Failed => true | _, _ => false end.

Definition upd_eqb (a b : string * N * option N) : bool :=
  String.eqb (fst (fst a)) (fst (fst b)) && N.eqb (snd (fst a)) (snd (fst b)) &&
  opt_eqb N.eqb (snd a) (snd b).

(* both maps give the same version to every job mentioned in either (a missing entry means version 1:
   the request is created lazily, and the real loop may create requests the recorded prefix does not show) *)
Definition versions_agree (model : versions) (observed : list (string * N)) : bool :=
  forallb (fun jv => N.eqb (version_of model (fst jv)) (snd jv)) observed &&
  forallb (fun jv => N.eqb (version_of observed (fst jv)) (snd jv)) model.

(* explicitly typed builders: keep the elaboration of the generated case lists cheap *)
Definition rq (j : string) (b : bool) : string * bool := (j, b).
Definition up (j : string) (b : N) (a : option N) : string * N * option N := (j, b, a).
Definition jv (j : string) (v : N) : string * N := (j, v).
Definition vn (v : N) (n : nat) : N * nat := (v, n).

Inductive ccase :=
(* a history of _synchronize_workflows calls as the real manager performed them (requests in loop
   order with the answer is_recovering gave), the _update_request outcomes it produced for each call,
   and the final _retry_requests *)
| CHist (lim : limit) (h : list rollback) (log : list (list (string * N * option N)))
        (final : list (string * N))
(* one job failing its first k attempts of one phase under the rollback manager: outcome, version, attempts *)
| CJob (lim : limit) (k : nat) (o : outcome) (v : N) (n : nat)
(* a pipeline, job i failing its first ks[i] attempts (soft): outcome and (version, attempts) of started jobs *)
| CChain (lim : limit) (ks : list nat) (o : outcome) (vn : list (N * nat))
(* dummy failure manager *)
| CDummy (k : nat) (o : outcome) (n : nat).

Definition check_case (c : ccase) : bool :=
  match c with
  | CHist lim h log final =>
      list_eqb (list_eqb upd_eqb) (history_log lim [] h) log &&
      versions_agree (run_history lim [] h) final &&
      (* some call raised iff the real manager refused some update *)
      Bool.eqb (raised_in lim [] h)
               (existsb (existsb (fun u => match snd u with None => true | Some _ => false end)) log)
  | CJob lim k o v n =>
      let '(o', v', n') := run_job lim 1 (failing k) in
      outcome_eqb o' o && N.eqb v' v && Nat.eqb n' n
  | CChain lim ks o vn =>
      let '(o', l) := run_chain lim ks in
      outcome_eqb o' o && list_eqb (pair_eqb N.eqb Nat.eqb) l vn
  | CDummy k o n =>
      let '(o', n') := run_job_dummy (failing k) in outcome_eqb o' o && Nat.eqb n' n
  end.
