(* Retry/Proofs.v — lemmas about Retry/Model.v (property C17). *)
From Coq Require Import List Bool NArith Lia Arith.
From SF Require Import Base.Str Retry.Model.
Import ListNotations.
Local Open Scope string_scope. Local Open Scope list_scope. Local Open Scope N_scope.

(* every recorded version lies in [1, B] *)
Definition bounded (B : N) (vs : versions) : Prop :=
  forall j v, lookup vs j = Some v -> 1 <= v <= B.

Definition cap (lim : limit) : option N :=
  match lim with None => None | Some m => Some (N.max 1 m) end.

Lemma lookup_set_same vs j v : lookup (set_version vs j v) j = Some v.
Proof.
  induction vs as [|[k w] r IH]; simpl.
  - rewrite String.eqb_refl. reflexivity.
  - destruct (String.eqb k j) eqn:E; simpl; rewrite E; auto.
Qed.

Lemma lookup_set_other vs j v i : i <> j -> lookup (set_version vs j v) i = lookup vs i.
Proof.
  intros Hne. induction vs as [|[k w] r IH]; simpl.
  - destruct (String.eqb_spec j i); [congruence|reflexivity].
  - destruct (String.eqb_spec k j) as [->|Hkj]; simpl.
    + destruct (String.eqb_spec j i); [congruence|reflexivity].
    + destruct (String.eqb_spec k i); auto.
Qed.

Lemma bounded_nil B : bounded B [].
Proof. intros j v H. discriminate. Qed.

Lemma bounded_set B vs j v : bounded B vs -> 1 <= v <= B -> bounded B (set_version vs j v).
Proof.
  intros Hb Hv i w Hl. destruct (String.eqb_spec i j) as [->|Hne].
  - rewrite lookup_set_same in Hl. inversion Hl; subst; assumption.
  - rewrite lookup_set_other in Hl by assumption. eauto.
Qed.

Lemma version_of_bounded B vs j : 1 <= B -> bounded B vs -> 1 <= version_of vs j <= B.
Proof.
  intros HB Hb. unfold version_of. destruct (lookup vs j) eqn:E; [eauto|lia].
Qed.

Lemma get_request_bounded B vs j : 1 <= B -> bounded B vs -> bounded B (get_request vs j).
Proof.
  intros HB Hb. unfold get_request. destruct (lookup vs j); [assumption|].
  apply bounded_set; [assumption|lia].
Qed.

Lemma get_request_version vs j i : version_of (get_request vs j) i = version_of vs i.
Proof.
  unfold get_request. destruct (lookup vs j) eqn:E; [reflexivity|].
  unfold version_of. destruct (String.eqb_spec i j) as [->|Hne].
  - rewrite lookup_set_same, E. reflexivity.
  - rewrite lookup_set_other by assumption. reflexivity.
Qed.

Lemma update_request_bounded m vs j vs' :
  bounded (N.max 1 m) vs -> update_request (Some m) vs j = Some vs' -> bounded (N.max 1 m) vs'.
Proof.
  intros Hb. unfold update_request, can_retry.
  destruct (N.ltb_spec (version_of vs j) m) as [Hlt|Hge]; [|discriminate].
  intros H; inversion H; subst. apply bounded_set; [assumption|].
  pose proof (version_of_bounded (N.max 1 m) vs j ltac:(lia) Hb). lia.
Qed.

Lemma synchronize_bounded m reqs : forall vs,
  bounded (N.max 1 m) vs -> bounded (N.max 1 m) (fst (synchronize (Some m) vs reqs)).
Proof.
  induction reqs as [|[j b] r IH]; intros vs Hb; simpl; [assumption|].
  destruct b; [auto|].
  destruct (update_request (Some m) vs j) eqn:E; [|assumption].
  apply IH. eapply update_request_bounded; eauto.
Qed.

Lemma ensure_requests_bounded B rb : forall vs, 1 <= B -> bounded B vs -> bounded B (ensure_requests vs rb).
Proof.
  unfold ensure_requests. induction rb as [|[j b] r IH]; intros vs HB Hb; simpl; [assumption|].
  apply IH; [assumption|]. apply get_request_bounded; assumption.
Qed.

(* the invariant: whatever failures happen, in whatever order, with whatever rollback sets and whatever
   answers of is_recovering, no version ever exceeds max(1, max_retries) *)
Lemma run_history_bounded m h : forall vs,
  bounded (N.max 1 m) vs -> bounded (N.max 1 m) (run_history (Some m) vs h).
Proof.
  induction h as [|rb r IH]; intros vs Hb; simpl; [assumption|].
  apply IH. apply synchronize_bounded. apply ensure_requests_bounded; [lia|assumption].
Qed.

Lemma history_versions_le_limit m h j :
  1 <= m -> version_of (run_history (Some m) [] h) j <= m.
Proof.
  intros Hm. pose proof (run_history_bounded m h [] (bounded_nil _)) as Hb.
  pose proof (version_of_bounded (N.max 1 m) _ j ltac:(lia) Hb). lia.
Qed.

(* a version only changes by +1 steps, one per successful _update_request, and the log records each *)
Lemma sync_log_raise_iff lim reqs : forall vs,
  snd (synchronize lim vs reqs) = true <->
  exists j v, In (j, v, None) (sync_log lim vs reqs).
Proof.
  induction reqs as [|[j b] r IH]; intros vs; simpl.
  - split; [discriminate|intros (j & v & [])].
  - destruct b; [apply IH|].
    destruct (update_request lim vs j) eqn:E.
    + rewrite IH. split; intros (j' & v' & H); exists j', v'; [right; assumption|].
      destruct H as [H|H]; [inversion H|assumption].
    + simpl. split; [intros _; exists j, (version_of vs j); left; reflexivity|reflexivity].
Qed.

Lemma sync_log_raise_at_limit m vs reqs j v :
  In (j, v, None) (sync_log (Some m) vs reqs) -> m <= v.
Proof.
  revert vs. induction reqs as [|[i b] r IH]; intros vs; simpl; [intros []|].
  destruct b; [apply IH|].
  unfold update_request, can_retry.
  destruct (N.ltb_spec (version_of vs i) m) as [Hlt|Hge].
  - intros [H|H]; [inversion H|eapply IH; eauto].
  - intros [H|[]]. inversion H; subst. assumption.
Qed.

(* ------------------------------------------------------------------------------------------- *)
(* one job *)

Lemma run_job_counts lim faults : forall v,
  let '(o, v', n) := run_job lim v faults in v' + 1 = v + N.of_nat n.
Proof.
  induction faults as [|f rest IH]; intros v; simpl; [lia|].
  destruct f; [|lia].
  destruct (can_retry lim v); [|lia].
  specialize (IH (v + 1)). destruct (run_job lim (v + 1) rest) as [[o v'] n]. lia.
Qed.

Lemma run_job_bound m faults : forall v,
  let '(o, v', n) := run_job (Some m) v faults in v' <= N.max v m.
Proof.
  induction faults as [|f rest IH]; intros v; simpl; [lia|].
  destruct f; [|lia].
  destruct (N.ltb_spec v m) as [Hlt|Hge]; [|lia].
  specialize (IH (v + 1)). destruct (run_job (Some m) (v + 1) rest) as [[o v'] n]. lia.
Qed.

(* executions of a job never exceed the limit (limit >= 1; a job always runs once) *)
Lemma run_job_attempts_le_limit m faults :
  1 <= m ->
  let '(o, v', n) := run_job (Some m) 1 faults in N.of_nat n <= m /\ v' = N.of_nat n /\ v' <= m.
Proof.
  intros Hm. pose proof (run_job_counts (Some m) faults 1) as Hc.
  pose proof (run_job_bound m faults 1) as Hb.
  destruct (run_job (Some m) 1 faults) as [[o v'] n]. lia.
Qed.

Lemma run_job_exhaust m k : forall v rest,
  1 <= v <= m -> m + 1 <= v + N.of_nat k ->
  run_job (Some m) v (failing k ++ rest) = (Failed, m, N.to_nat (m - v + 1)).
Proof.
  induction k as [|k IH]; intros v rest Hv Hk; [simpl in Hk; lia|].
  simpl. destruct (N.ltb_spec v m) as [Hlt|Hge].
  - fold (failing k). rewrite IH by lia.
    f_equal. replace (m - v + 1) with (N.succ (m - (v + 1) + 1)) by lia.
    rewrite N2Nat.inj_succ. reflexivity.
  - assert (v = m) by lia. subst. replace (m - m + 1) with 1 by lia. reflexivity.
Qed.

Lemma run_job_completes lim k : forall v rest,
  (match lim with Some m => v + N.of_nat k <= m | None => True end) ->
  run_job lim v (failing k ++ false :: rest) = (Completed, v + N.of_nat k, S k) /\
  run_job lim v (failing k) = (Completed, v + N.of_nat k, S k).
Proof.
  induction k as [|k IH]; intros v rest Hk.
  - simpl. rewrite N.add_0_r. split; reflexivity.
  - assert (Hc : can_retry lim v = true).
    { destruct lim as [m|]; simpl; [|reflexivity]. apply N.ltb_lt. lia. }
    destruct (IH (v + 1) rest) as [H1 H2].
    { destruct lim; [lia|exact I]. }
    rewrite Nat2N.inj_succ. replace (v + N.succ (N.of_nat k)) with (v + 1 + N.of_nat k) by lia.
    unfold failing in *. cbn [repeat app run_job]. rewrite Hc, H1, H2.
    split; reflexivity.
Qed.

Lemma run_job_dummy_first_failure rest : run_job_dummy (true :: rest) = (Failed, 1%nat).
Proof. reflexivity. Qed.

Lemma run_job_dummy_attempts faults : snd (run_job_dummy faults) = 1%nat.
Proof. destruct faults as [|[] r]; reflexivity. Qed.

(* chain of jobs with soft failures *)
Lemma run_job_failing_outcome m k :
  1 <= m ->
  run_job (Some m) 1 (failing k) =
  if m <=? N.of_nat k then (Failed, m, N.to_nat m) else (Completed, 1 + N.of_nat k, S k).
Proof.
  intros Hm. destruct (N.leb_spec m (N.of_nat k)) as [Hle|Hgt].
  - rewrite <- (app_nil_r (failing k)). rewrite run_job_exhaust by lia.
    replace (m - 1 + 1) with m by lia. reflexivity.
  - destruct (run_job_completes (Some m) k 1 []) as [_ H]; [lia|exact H].
Qed.

Lemma run_chain_outcome m ks :
  1 <= m ->
  (fst (run_chain (Some m) ks) = Failed <-> exists k, In k ks /\ m <= N.of_nat k) /\
  Forall (fun vn => N.of_nat (snd vn) <= m /\ fst vn = N.of_nat (snd vn)) (snd (run_chain (Some m) ks)).
Proof.
  intros Hm. induction ks as [|k r [IH1 IH2]]; simpl.
  - split; [split; [discriminate|intros (k & [] & _)]|constructor].
  - rewrite run_job_failing_outcome by assumption.
    destruct (N.leb_spec m (N.of_nat k)) as [Hle|Hgt].
    + simpl. split; [split; [intros _; exists k; auto|reflexivity]|].
      constructor; [|constructor]. simpl. rewrite N2Nat.id. split; [lia|reflexivity].
    + destruct (run_chain (Some m) r) as [o' l]. cbn [fst snd] in *. split.
      * rewrite IH1. split; intros (k' & Hin & Hk'); exists k'; [auto|].
        destruct Hin as [->|Hin]; [lia|auto].
      * constructor; [|assumption]. cbn [fst snd]. rewrite Nat2N.inj_succ. split; lia.
Qed.

(* ------------------------------------------------------------------------------------------- *)
(* any rollback sets: a job asked to roll back `limit` times makes some call raise *)

Lemma version_of_set vs k v j : version_of (set_version vs k v) j = if String.eqb k j then v else version_of vs j.
Proof.
  unfold version_of. destruct (String.eqb_spec k j) as [->|Hne].
  - rewrite lookup_set_same. reflexivity.
  - rewrite lookup_set_other by congruence. reflexivity.
Qed.

Lemma sync_noraise_count lim j reqs : forall vs,
  snd (synchronize lim vs reqs) = false ->
  version_of (fst (synchronize lim vs reqs)) j = version_of vs j + N.of_nat (asked j reqs).
Proof.
  induction reqs as [|[k b] r IH]; intros vs Hno; [simpl; lia|].
  destruct b.
  - simpl in *. rewrite (IH vs Hno). unfold asked. simpl. rewrite andb_false_r. reflexivity.
  - simpl in Hno |- *. unfold update_request in *. destruct (can_retry lim (version_of vs k)); [|discriminate].
    rewrite (IH _ Hno). rewrite version_of_set. unfold asked. cbn [filter fst snd negb].
    destruct (String.eqb_spec k j) as [->|Hne]; cbn [andb length]; [rewrite Nat2N.inj_succ|]; lia.
Qed.

Lemma ensure_requests_version rb : forall vs j, version_of (ensure_requests vs rb) j = version_of vs j.
Proof.
  unfold ensure_requests. induction rb as [|[k b] r IH]; intros vs j; simpl; [reflexivity|].
  rewrite IH. apply get_request_version.
Qed.

Lemma history_noraise_count lim j h : forall vs,
  raised_in lim vs h = false ->
  version_of (run_history lim vs h) j = version_of vs j + N.of_nat (asked_in j h).
Proof.
  induction h as [|rb r IH]; intros vs Hno; [simpl; lia|].
  simpl in Hno |- *.
  destruct (synchronize lim (ensure_requests vs rb) rb) as [vs' b] eqn:E.
  apply orb_false_iff in Hno. destruct Hno as [Hb Hr]. subst b.
  simpl. rewrite (IH vs' Hr).
  pose proof (sync_noraise_count lim j rb (ensure_requests vs rb)) as H. rewrite E in H. simpl in H.
  rewrite (H eq_refl), ensure_requests_version, Nat2N.inj_add. lia.
Qed.

(* EXHAUSTION FOR ANY ROLLBACK SETS: whatever else happens -- other jobs, larger rollback sets, recovering flags of other
   requests, any interleaving -- a job that is asked to roll back `limit` times makes one of the calls raise *)
Lemma keeps_failing_raises m h j :
  1 <= m -> m <= N.of_nat (asked_in j h) -> raised_in (Some m) [] h = true.
Proof.
  intros Hm Hask. destruct (raised_in (Some m) [] h) eqn:E; [reflexivity|exfalso].
  pose proof (history_noraise_count (Some m) j h [] E) as Hv.
  pose proof (history_versions_le_limit m h j Hm) as Hb.
  change (version_of [] j) with 1 in Hv. lia.
Qed.
