(* Retry/Model.v — the retry counter of the rollback failure manager (property C17).
   Definitions only.

   ANCHORS:
     streamflow.core.recovery.RecoveryRequest.__init__              (version starts at 1)
     streamflow.core.recovery.recoverable                           (a failed phase calls recover; an
                                                                      UnrecoverableWorkflowException propagates)
     streamflow.recovery.failure_manager.RollbackFailureManager.get_request
     streamflow.recovery.failure_manager.RollbackFailureManager._update_request
     streamflow.recovery.failure_manager.RollbackFailureManager._synchronize_workflows
                                                                     (only the version bookkeeping: the loop over
                                                                      the requests, is_recovering => no update)
     streamflow.recovery.failure_manager.DummyFailureManager.recover (re-raises)

   What is NOT here: how the set of jobs of one rollback is chosen (provenance graph search, property C18) and
   the asyncio locking around _synchronize_workflows (property C19).  Both enter as data: a rollback is given as
   the list of (job, is_recovering) pairs in the order the loop visits them. *)
From Coq Require Import List Bool NArith Lia.
From SF Require Import Base.Str.
Import ListNotations.
Local Open Scope string_scope. Local Open Scope list_scope. Local Open Scope N_scope.

(* max_retries: None = no limit configured *)
Definition limit := option N.

(* _retry_requests : job name -> version, insertion ordered; a job without an entry has no request yet *)
Definition versions := list (string * N).

Fixpoint lookup (vs : versions) (j : string) : option N :=
  match vs with
  | [] => None
  | (k, v) :: r => if String.eqb k j then Some v else lookup r j
  end.

(* get_request(job).version: creates the request with version 1 when missing *)
Definition version_of (vs : versions) (j : string) : N :=
  match lookup vs j with Some v => v | None => 1 end.

Fixpoint set_version (vs : versions) (j : string) (v : N) : versions :=
  match vs with
  | [] => [(j, v)]
  | (k, w) :: r => if String.eqb k j then (k, v) :: r else (k, w) :: set_version r j v
  end.

(* get_request: after the call the entry exists *)
Definition get_request (vs : versions) (j : string) : versions :=
  match lookup vs j with Some _ => vs | None => set_version vs j 1 end.

(* `self.max_retries is None or retry_request.version < self.max_retries` *)
Definition can_retry (lim : limit) (v : N) : bool :=
  match lim with None => true | Some m => v <? m end.

(* _update_request: Some vs' = version incremented (and ROLLBACK notified); None = FailureHandlingException.
   The request exists when this is called (get_request ran in _recover). *)
Definition update_request (lim : limit) (vs : versions) (j : string) : option versions :=
  let v := version_of vs j in
  if can_retry lim v then Some (set_version vs j (v + 1)) else None.

(* _synchronize_workflows, version bookkeeping only.  reqs in loop order; flag = is_recovering(job).
   Returns the versions after the loop (increments made before a raise persist: the dict is mutated in
   place) and whether FailureHandlingException was raised. *)
Fixpoint synchronize (lim : limit) (vs : versions) (reqs : list (string * bool)) : versions * bool :=
  match reqs with
  | [] => (vs, false)
  | (j, true) :: r => synchronize lim vs r
  | (j, false) :: r =>
      match update_request lim vs j with
      | Some vs' => synchronize lim vs' r
      | None => (vs, true)
      end
  end.

(* what the recording shim around _update_request sees during one _synchronize_workflows call:
   (job, version before, Some version after | None = raised) *)
Fixpoint sync_log (lim : limit) (vs : versions) (reqs : list (string * bool))
  : list (string * N * option N) :=
  match reqs with
  | [] => []
  | (j, true) :: r => sync_log lim vs r
  | (j, false) :: r =>
      let v := version_of vs j in
      match update_request lim vs j with
      | Some vs' => (j, v, Some (v + 1)) :: sync_log lim vs' r
      | None => [(j, v, None)]
      end
  end.

(* a whole history of rollbacks (any failures, any interleaving, any rollback sets): each element is one
   _synchronize_workflows call, preceded by get_request for each of its jobs *)
Definition rollback := list (string * bool).

Definition ensure_requests (vs : versions) (rb : rollback) : versions :=
  fold_left (fun acc jb => get_request acc (fst jb)) rb vs.

Fixpoint run_history (lim : limit) (vs : versions) (h : list rollback) : versions :=
  match h with
  | [] => vs
  | rb :: r => run_history lim (fst (synchronize lim (ensure_requests vs rb) rb)) r
  end.

Fixpoint history_log (lim : limit) (vs : versions) (h : list rollback)
  : list (list (string * N * option N)) :=
  match h with
  | [] => []
  | rb :: r =>
      let vs0 := ensure_requests vs rb in
      sync_log lim vs0 rb :: history_log lim (fst (synchronize lim vs0 rb)) r
  end.

(* ---------------------------------------------------------------------------------------------
   One job under the `recoverable` decorator.  [faults] says, attempt by attempt, whether the attempt
   fails (true); once the list is exhausted attempts succeed.  An attempt that fails calls recover;
   the rollback manager either re-runs the job (in a recovery workflow, where the same decorator
   applies: hence the recursion) or raises.  Result: outcome, final version, number of attempts. *)
Inductive outcome := Completed | Failed.

Fixpoint run_job (lim : limit) (v : N) (faults : list bool) : outcome * N * nat :=
  match faults with
  | [] => (Completed, v, 1%nat)
  | false :: _ => (Completed, v, 1%nat)
  | true :: rest =>
      if can_retry lim v
      then let '(o, v', n) := run_job lim (v + 1) rest in (o, v', S n)
      else (Failed, v, 1%nat)
  end.

(* DummyFailureManager.recover re-raises the job's exception: no retry at all *)
Definition run_job_dummy (faults : list bool) : outcome * nat :=
  match faults with
  | true :: _ => (Failed, 1%nat)
  | _ => (Completed, 1%nat)
  end.

(* first k attempts fail *)
Definition failing (k : nat) : list bool := repeat true k.

(* a chain of jobs each run to completion before the next starts (soft failures: every rollback
   contains only the failing job): stops at the first job that exhausts its retries.
   Result: outcome, per-job (version, attempts) of the jobs that were started. *)
Fixpoint run_chain (lim : limit) (ks : list nat) : outcome * list (N * nat) :=
  match ks with
  | [] => (Completed, [])
  | k :: r =>
      let '(o, v, n) := run_job lim 1 (failing k) in
      match o with
      | Failed => (Failed, [(v, n)])
      | Completed => let '(o', l) := run_chain lim r in (o', (v, n) :: l)
      end
  end.

(* ---------------------------------------------------------------------------------------------
   Whole histories again: did any _synchronize_workflows call of the history raise?  (After the first raise the real run
   is aborted; the rest of the list is then irrelevant.) *)
Fixpoint raised_in (lim : limit) (vs : versions) (h : list rollback) : bool :=
  match h with
  | [] => false
  | rb :: r => let '(vs', b) := synchronize lim (ensure_requests vs rb) rb in b || raised_in lim vs' r
  end.

(* how often job j is asked to roll back (as a request that is not recovering) *)
Definition asked (j : string) (rb : rollback) : nat :=
  length (filter (fun jb => String.eqb (fst jb) j && negb (snd jb)) rb).
Definition asked_in (j : string) (h : list rollback) : nat :=
  fold_right (fun rb n => asked j rb + n)%nat 0%nat h.
