(* Deploy/Corr.v — correspondence cases for Deploy/Model.v (used by the C26 check).
   A case carries the configuration table, the requests, the schedule the controlled event loop actually
   took (task id of every task step) and what the real DefaultDeploymentManager produced: the connector call
   log interleaved with request completions, and the tasks left blocked at quiescence.  Phase 2 (optional) is
   one more request [undeploy_all()] started after phase 1 became quiescent. *)
From Coq Require Import List Bool Arith.
From SF Require Import Base.Corr.
From SF Require Export Deploy.Model.
Import ListNotations.

Definition err_eqb (a b : err) : bool :=
  match a, b with EFailed, EFailed | EDef, EDef | EKey, EKey | EDep, EDep => true | _, _ => false end.
Definition cinfo_eqb (a b : cinfo) : bool :=
  match a, b with
  | INone, INone => true
  | IReal x, IReal y => x =? y
  | IFut x, IFut y => opt_eqb Nat.eqb x y
  | _, _ => false
  end.
Definition ev_eqb (a b : ev) : bool :=
  match a, b with
  | DS n c, DS n' c' => (n =? n') && (c =? c')
  | DE c o, DE c' o' => (c =? c') && Bool.eqb o o'
  | US c, US c' => c =? c'
  | UE c, UE c' => c =? c'
  | Ret t i r x, Ret t' i' r' x' => (t =? t') && (i =? i') && opt_eqb err_eqb r r' && cinfo_eqb x x'
  | _, _ => false
  end.

(* the code the model mirrors: the current one (after the fix, see Model.v) *)
Definition current_prefix := false.

Inductive ccase :=
| CSched (deps : list dcfg) (reqs : list (list op))
         (s1 : list nat) (log1 : list ev) (hang1 : list nat)
         (final : bool) (s2 : list nat) (log2 : list ev) (hang2 : list nat) (endinfo : list cinfo).

Definition phase_ok (s : st) (lg : list ev) (hang : list nat) : bool :=
  negb (bad s) && quiescent s && list_eqb ev_eqb (rev (log s)) lg && list_eqb Nat.eqb (blocked s) hang.

Definition check_with (bn : bool) (c : ccase) : bool :=
  match c with
  | CSched deps reqs s1 log1 hang1 final s2 log2 hang2 endinfo =>
    let a := run bn deps (init reqs) s1 in
    phase_ok a log1 hang1 &&
    (if final then
       let b := run bn deps (spawn a [OAll]) s2 in
       phase_ok b (log1 ++ log2) hang2 &&
       list_eqb cinfo_eqb (map (info b) (seq 0 (length deps))) endinfo
     else true)
  end.

Definition check_case := check_with current_prefix.
