(* Deploy/Inductive.v — UNFINISHED groundwork for an inductive invariant over ALL executions (unbounded number
   of requests, operations, suspensions and scheduling choices) of the deploy-only fragment on one eager,
   non-wrapper, never-failing deployment.  This file contains: the invariant [INV] (heap facts H1/A2/A3/A4, the
   admissible stack shapes of a task with the heap facts each transient shape relies on, the log checker
   [ra_all] with [ra_all_ok : ra_all l = true -> ra_ok reqs l = true]), and the lemmas that are independent of
   [micro] (tasks that are not running only depend on deployments_map; waking preserves the shapes; replacing
   the running task in the table).  NOT proved here: preservation of [INV] by each case of [micro], hence no
   statement about executions follows from this file yet, and nothing in Props/ depends on it.  The plan of
   the remaining proof (and its extension to undeploy: deployer uniqueness, captured events are stale) is in
   design/notes/C26.md. *)
From Coq Require Import List Bool Arith Lia.
From SF Require Import Deploy.Model Deploy.Proofs.
Import ListNotations.

(* ---------------------------------------------------------------- list lemmas *)
Lemma nth_error_nth_upd : forall A (f : A -> A) l i j,
  nth_error (nth_upd i f l) j = if i =? j then option_map f (nth_error l j) else nth_error l j.
Proof.
  induction l as [|x l IH]; intros i j.
  - destruct i; destruct j; simpl; try reflexivity; destruct (i =? j); reflexivity.
  - destruct i; destruct j; simpl; auto.
Qed.
Lemma alookup_aset_same : forall A k (v : A) l, alookup k (aset k v l) = Some v.
Proof.
  induction l as [|[k' v'] l IH]; simpl. now rewrite Nat.eqb_refl.
  destruct (k' =? k) eqn:E; simpl. now rewrite Nat.eqb_refl. now rewrite E.
Qed.
Lemma nth_upd_length : forall A (f : A -> A) l i, length (nth_upd i f l) = length l.
Proof. induction l; destruct i; simpl; auto. Qed.
Lemma nth_nth_upd_same : forall (l : list bool) e, e < length l -> nth e (nth_upd e (fun _ => true) l) false = true.
Proof. induction l; destruct e; simpl; intros; try lia; auto. apply IHl. lia. Qed.
Lemma nth_app_end : forall (l : list bool), nth (length l) (l ++ [false]) false = false.
Proof. induction l; simpl; auto. Qed.
Lemma mem_app_self : forall l, mem 0 (l ++ [0]) = true.
Proof. unfold mem. intro l. rewrite existsb_app. simpl. apply orb_true_r. Qed.

(* a stronger checker that does not need the request table: every OK completion reports a registered real
   connector whose deploy() returned successfully before *)
Fixpoint ra_all (l : list ev) : bool :=
  match l with
  | [] => true
  | e :: older =>
    (match e with
     | Ret _ _ None (IReal c) => has (is_DE c true) older
     | Ret _ _ None _ => false
     | _ => true
     end) && ra_all older
  end.
Lemma ra_all_ok : forall reqs l, ra_all l = true -> ra_ok reqs l = true.
Proof.
  induction l as [|e l IH]; simpl; auto. intro H. apply andb_prop in H. destruct H as [H1 H2].
  rewrite (IH H2), andb_true_r. destruct e; auto. destruct r; auto. destruct info; try discriminate; auto.
  destruct (is_deploy reqs t i); auto.
Qed.
Lemma has_DE_In : forall c l, In (DE c true) l -> has (is_DE c true) l = true.
Proof.
  intros c l H. unfold has. apply existsb_exists. exists (DE c true). split; auto.
  simpl. now rewrite Nat.eqb_refl.
Qed.

Section OneEager.
Variable d : dcfg.
Hypothesis Hw : wrapper d = false.
Hypothesis Hl : lazy d = false.
Hypothesis Hf : fails d = [].
Let deps := [d].

Definition Eset (s : st) := exists e, alookup 0 (em s) = Some e /\ ev_isset s e = true.
Definition Eunset (s : st) := exists e, alookup 0 (em s) = Some e /\ ev_isset s e = false.
Definition G (s : st) := (exists c, alookup 0 (dm s) = Some (Real c)) /\ Eset s.
Definition Fresh (s : st) := alookup 0 (dm s) = None /\ mem 0 (cm s) = true /\ Eunset s.
Definition isD (o : option op) := o = Some (ODeploy 0).

Inductive shape (s : st) (t : task) : Prop :=
| Sh_idle : stack t = [] -> cur t = None -> shape s t
| Sh_ret : stack t = [] -> isD (cur t) -> tw t = WRun -> G s -> shape s t
| Sh_FD : stack t = [FD 0; FDeployTop 0] -> isD (cur t) -> shape s t
| Sh_Else : stack t = [FDElse 0; FDeployTop 0] -> isD (cur t) -> shape s t
| Sh_Wait : stack t = [FDWait 0; FDeployTop 0] -> isD (cur t) -> tw t = WRun -> Eset s -> shape s t
| Sh_FI : stack t = [FI 0 false; FDAfterInner 0; FDeployTop 0] -> isD (cur t) -> tw t = WRun -> Fresh s -> shape s t
| Sh_After : stack t = [FDAfterInner 0; FDeployTop 0] -> isD (cur t) -> tw t = WRun -> Fresh s -> shape s t
| Sh_Dep : forall c k, stack t = [FDDeploying 0 c k false; FDeployTop 0] -> isD (cur t) ->
                       alookup 0 (dm s) = Some (Real c) -> shape s t
| Sh_Top : stack t = [FDeployTop 0] -> isD (cur t) -> tw t = WRun -> G s -> shape s t.

Definition task_ok (s : st) (t : task) :=
  Forall (fun o => o = ODeploy 0) (todo t) /\ parent t = None /\ shape s t.

Definition P_H1 (s : st) := forall c e, alookup 0 (dm s) = Some (Real c) -> alookup 0 (em s) = Some e ->
                                        ev_isset s e = true -> In (DE c true) (log s).
Definition P_A2 (s : st) := alookup 0 (dm s) <> None -> mem 0 (cm s) = true.
Definition P_A3 (s : st) := forall x, alookup 0 (dm s) = Some x -> exists c, x = Real c.
Definition P_A4 (s : st) := forall e, alookup 0 (em s) = Some e -> e < length (evs s).
Definition P_T (o : option nat) (s : st) :=
  forall j t, nth_error (tasks s) j = Some t -> (tw t <> WRun \/ o = Some j) -> task_ok s t.

Record INV (o : option nat) (s : st) : Prop := {
  i_H1 : P_H1 s; i_A2 : P_A2 s; i_A3 : P_A3 s; i_A4 : P_A4 s; i_T : P_T o s; i_L : ra_all (log s) = true
}.

Definition heap (s : st) := (cm s, em s, dm s, evs s).

Lemma shape_heap : forall s s' t, heap s' = heap s -> shape s t -> shape s' t.
Proof.
  intros s s' t H Sh. unfold heap in H. inversion H as [[Hc He Hd Hv]].
  destruct Sh; [eapply Sh_idle|eapply Sh_ret|eapply Sh_FD|eapply Sh_Else|eapply Sh_Wait|eapply Sh_FI
               |eapply Sh_After|eapply Sh_Dep|eapply Sh_Top]; eauto;
  unfold G, Eset, Fresh, Eunset, ev_isset in *; rewrite ?Hc, ?He, ?Hd, ?Hv; auto.
Qed.
Lemma task_ok_heap : forall s s' t, heap s' = heap s -> task_ok s t -> task_ok s' t.
Proof. intros s s' t H [A [B C]]. split; [|split]; auto. eapply shape_heap; eauto. Qed.

(* other tasks only depend on deployments_map *)
Lemma other_ok : forall s s' t, tw t <> WRun -> alookup 0 (dm s') = alookup 0 (dm s) -> task_ok s t -> task_ok s' t.
Proof.
  intros s s' t Hn Hd [A [B C]]. split; [|split]; auto.
  destruct C; try contradiction; [ eapply Sh_idle | eapply Sh_FD | eapply Sh_Else | eapply Sh_Dep ]; eauto.
  rewrite Hd; eauto.
Qed.
Lemma other_ok_create : forall s s' t, tw t <> WRun -> alookup 0 (dm s) = None -> task_ok s t -> task_ok s' t.
Proof.
  intros s s' t Hn Hd [A [B C]]. split; [|split]; auto.
  destruct C; try contradiction; [ eapply Sh_idle | eapply Sh_FD | eapply Sh_Else | ]; eauto. congruence.
Qed.
Lemma wake_ok : forall s e t, task_ok s t -> task_ok s (wake e t).
Proof.
  intros s e t H. unfold wake. destruct (tw t) eqn:E; auto. destruct (e0 =? e); auto.
  destruct H as [A [B C]]. split; [|split]; auto.
  destruct C; try congruence; [ eapply Sh_idle | eapply Sh_FD | eapply Sh_Else | eapply Sh_Dep ]; eauto.
Qed.
Lemma wake_tw : forall e t, tw (wake e t) <> WRun -> tw t <> WRun.
Proof. intros e t. unfold wake. destruct (tw t) eqn:E; try congruence. Qed.
Lemma wake_run : forall e t, tw t = WRun -> wake e t = t.
Proof. intros e t H. unfold wake. now rewrite H. Qed.

(* master lemma: rebuild the invariant after the running task [tid] became [t1], the other tasks were mapped
   through [g] (identity or waking) and the heap changed in a way that is harmless for tasks that do not run *)
Lemma INV_mk : forall s s' tid t1 (g : task -> task),
  INV (Some tid) s ->
  P_H1 s' -> P_A2 s' -> P_A3 s' -> P_A4 s' -> ra_all (log s') = true ->
  (forall x, tw x <> WRun -> task_ok s x -> task_ok s' x) ->
  nth_error (tasks s') tid = Some t1 ->
  (forall j, j <> tid -> nth_error (tasks s') j = option_map g (nth_error (tasks s) j)) ->
  (forall x, task_ok s' x -> task_ok s' (g x)) -> (forall x, tw (g x) <> WRun -> tw x <> WRun) ->
  task_ok s' t1 -> INV (Some tid) s'.
Proof.
  intros s s' tid t1 g I h1 a2 a3 a4 l Ho Ht Hn Hg Hgw Hok.
  constructor; auto. intros j t' Hj Hc.
  destruct (Nat.eq_dec j tid) as [->|Hne].
  - rewrite Ht in Hj. inversion Hj; subst; auto.
  - rewrite (Hn j Hne) in Hj. destruct (nth_error (tasks s) j) as [x|] eqn:E; [|discriminate].
    simpl in Hj. inversion Hj; subst. destruct Hc as [Hc|Hc]; [|inversion Hc; congruence].
    apply Hg. apply Ho. apply Hgw; auto. apply (i_T _ _ I j x E). left. apply Hgw; auto.
Qed.

Lemma id_ok : forall s x, task_ok s x -> task_ok s ((fun y : task => y) x).
Proof. auto. Qed.

(* ---------------------------------------------------------------- transfer lemmas *)
Lemma INV_eq : forall o s s', heap s' = heap s -> tasks s' = tasks s -> log s' = log s -> INV o s -> INV o s'.
Proof.
  intros o s s' H Ht Hl I. pose proof H as H0. unfold heap in H. inversion H as [[Hc He Hd Hv]].
  destruct I as [h1 a2 a3 a4 tt ll].
  constructor; unfold P_H1, P_A2, P_A3, P_A4, P_T, ev_isset in *; rewrite ?Hc, ?He, ?Hd, ?Hv, ?Hl, ?Ht; auto.
  intros j t Hj Hcnd. eapply task_ok_heap; eauto.
Qed.

Definition ev_fine (x : ev) (older : list ev) : bool :=
  match x with
  | Ret _ _ None (IReal c) => has (is_DE c true) older
  | Ret _ _ None _ => false
  | _ => true
  end.
Lemma INV_log : forall o s s' x, heap s' = heap s -> tasks s' = tasks s -> log s' = x :: log s ->
  ev_fine x (log s) = true -> INV o s -> INV o s'.
Proof.
  intros o s s' x H Ht Hl Hx I. pose proof H as H0. unfold heap in H. inversion H as [[Hc He Hd Hv]].
  destruct I as [h1 a2 a3 a4 tt ll].
  constructor; unfold P_H1, P_A2, P_A3, P_A4, P_T, ev_isset in *; rewrite ?Hc, ?He, ?Hd, ?Hv, ?Hl, ?Ht; auto.
  - intros c e A B C. right. eapply h1; eauto.
  - intros j t Hj Hcnd. eapply task_ok_heap; eauto.
  - simpl. unfold ev_fine in Hx. rewrite ll, andb_true_r. exact Hx.
Qed.

Lemma opt_id : forall A (x : option A), option_map (fun y => y) x = x.
Proof. destruct x; reflexivity. Qed.

Lemma INV_upd : forall s tid t f,
  INV (Some tid) s -> nth_error (tasks s) tid = Some t -> task_ok s (f t) -> INV (Some tid) (upd_task s tid f).
Proof.
  intros s tid t f I Ht Hok.
  assert (Hh : heap (upd_task s tid f) = heap s) by reflexivity.
  apply INV_mk with (s := s) (t1 := f t) (g := fun y => y).
  - exact I.
  - exact (i_H1 _ _ I).
  - exact (i_A2 _ _ I).
  - exact (i_A3 _ _ I).
  - exact (i_A4 _ _ I).
  - exact (i_L _ _ I).
  - intros x _ Hx. eapply task_ok_heap; eauto.
  - simpl. rewrite nth_error_nth_upd, Nat.eqb_refl, Ht. reflexivity.
  - intros j Hne. simpl. rewrite nth_error_nth_upd. destruct (tid =? j) eqn:E.
    apply Nat.eqb_eq in E. congruence. now rewrite opt_id.
  - auto.
  - auto.
  - eapply task_ok_heap; eauto.
Qed.
Lemma tid_upd : forall s tid t f, nth_error (tasks s) tid = Some t ->
  nth_error (tasks (upd_task s tid f)) tid = Some (f t).
Proof. intros. simpl. rewrite nth_error_nth_upd, Nat.eqb_refl, H. reflexivity. Qed.

Lemma finish_eq : forall s tid t r, nth_error (tasks s) tid = Some t -> parent t = None ->
  finish s tid r = upd_task s tid (fun t => mkT [] [] (opi t) None (parent t) WDone (gerr t) (ucon t)).
Proof.
  intros s tid t r Ht Hp. unfold finish, notify.
  rewrite (tid_upd s tid t _ Ht). simpl. rewrite Hp. reflexivity.
Qed.

Lemma INV_finish : forall s tid t r,
  INV (Some tid) s -> nth_error (tasks s) tid = Some t -> task_ok s t -> INV (Some tid) (finish s tid r).
Proof.
  intros s tid t r I Ht [A [B C]]. rewrite (finish_eq s tid t r Ht B).
  eapply INV_upd; eauto. split; [|split]; simpl; auto. apply Sh_idle; reflexivity.
Qed.

Lemma INV_raise : forall s tid t e,
  INV (Some tid) s -> nth_error (tasks s) tid = Some t -> task_ok s t -> INV (Some tid) (raise s tid e).
Proof.
  intros s tid t e I Ht Hok. unfold raise. rewrite Ht. destruct (cur t) as [o|].
  - eapply INV_finish with (t := t); eauto.
    + eapply INV_log with (s := s); eauto; reflexivity.
    + eapply task_ok_heap; eauto. reflexivity.
  - eapply INV_finish; eauto.
Qed.

End OneEager.
