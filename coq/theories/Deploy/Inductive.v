(* Deploy/Inductive.v — an inductive invariant over ALL executions of Deploy/Model.v for the deploy-only
   fragment on one eager, non-wrapper, never-failing deployment: any number of requests, each any number of
   deploy(d0) operations, any number of suspensions inside connector.deploy(), every list of scheduling
   choices.  [deploy_only_all_executions]: return_after and once hold on the log of every execution.
   Structure: the invariant [INV] is a record of named clauses (heap facts H1/A2/A3/A4, the admissible stack
   shapes of every task with the heap facts each transient shape relies on, the log clauses); [INV_mk] rebuilds
   it after a step of the running task; one lemma per non-trivial case of [micro] (case_next, case_claim,
   case_create, case_deployed), [micro_inv] assembles the 9 stack shapes, then iter/step/run.
   Restricted program shape: no undeploy, no lazy FutureConnector, no failure, no wraps chain (plan for
   deploy+undeploy in design/notes/C26.md). *)
From Coq Require Import List Bool Arith Lia.
From SF Require Import Deploy.Model Deploy.Proofs.
Import ListNotations.

(* ---------------------------------------------------------------- list lemmas *)
Lemma nth_error_nth_upd : forall A (f : A -> A) l i j,
  nth_error (nth_upd i f l) j = if i =? j then option_map f (nth_error l j) else nth_error l j.
Proof.
  induction l as [|x l IH]; intros i j.
  - destruct i; destruct j; simpl; try reflexivity; destruct (i =? j); reflexivity.
  - destruct i; destruct j; simpl; auto.
Qed.
Lemma alookup_aset_same : forall A k (v : A) l, alookup k (aset k v l) = Some v.
Proof.
  induction l as [|[k' v'] l IH]; simpl. now rewrite Nat.eqb_refl.
  destruct (k' =? k) eqn:E; simpl. now rewrite Nat.eqb_refl. now rewrite E.
Qed.
Lemma nth_upd_length : forall A (f : A -> A) l i, length (nth_upd i f l) = length l.
Proof. induction l; destruct i; simpl; auto. Qed.
Lemma nth_nth_upd_same : forall (l : list bool) e, e < length l -> nth e (nth_upd e (fun _ => true) l) false = true.
Proof. induction l; destruct e; simpl; intros; try lia; auto. apply IHl. lia. Qed.
Lemma nth_app_end : forall (l : list bool), nth (length l) (l ++ [false]) false = false.
Proof. induction l; simpl; auto. Qed.
Lemma mem_app_self : forall l, mem 0 (l ++ [0]) = true.
Proof. unfold mem. intro l. rewrite existsb_app. simpl. apply orb_true_r. Qed.

(* a stronger checker that does not need the request table: every OK completion reports a registered real
   connector whose deploy() returned successfully before *)
Fixpoint ra_all (l : list ev) : bool :=
  match l with
  | [] => true
  | e :: older =>
    (match e with
     | Ret _ _ None (IReal c) => has (is_DE c true) older
     | Ret _ _ None _ => false
     | _ => true
     end) && ra_all older
  end.
Lemma ra_all_ok : forall reqs l, ra_all l = true -> ra_ok reqs l = true.
Proof.
  induction l as [|e l IH]; simpl; auto. intro H. apply andb_prop in H. destruct H as [H1 H2].
  rewrite (IH H2), andb_true_r. destruct e; auto. destruct r; auto. destruct info; try discriminate; auto.
  destruct (is_deploy reqs t i); auto.
Qed.
Lemma has_DE_In : forall c l, In (DE c true) l -> has (is_DE c true) l = true.
Proof.
  intros c l H. unfold has. apply existsb_exists. exists (DE c true). split; auto.
  simpl. now rewrite Nat.eqb_refl.
Qed.

Section OneEager.
Variable d : dcfg.
Hypothesis Dw : wrapper d = false.
Hypothesis Dl : lazy d = false.
Hypothesis Df : fails d = [].
Let deps := [d].

Definition Eset (s : st) := exists e, alookup 0 (em s) = Some e /\ ev_isset s e = true.
Definition Eunset (s : st) := exists e, alookup 0 (em s) = Some e /\ ev_isset s e = false.
Definition G (s : st) := (exists c, alookup 0 (dm s) = Some (Real c)) /\ Eset s.
Definition Fresh (s : st) := alookup 0 (dm s) = None /\ mem 0 (cm s) = true /\ Eunset s.
Definition isD (o : option op) := o = Some (ODeploy 0).

Inductive shape (s : st) (t : task) : Prop :=
| Sh_idle : stack t = [] -> cur t = None -> shape s t
| Sh_ret : stack t = [] -> isD (cur t) -> tw t = WRun -> G s -> shape s t
| Sh_FD : stack t = [FD 0; FDeployTop 0] -> isD (cur t) -> shape s t
| Sh_Else : stack t = [FDElse 0; FDeployTop 0] -> isD (cur t) -> shape s t
| Sh_Wait : stack t = [FDWait 0; FDeployTop 0] -> isD (cur t) -> tw t = WRun -> Eset s -> shape s t
| Sh_FI : stack t = [FI 0 false; FDAfterInner 0; FDeployTop 0] -> isD (cur t) -> tw t = WRun -> Fresh s -> shape s t
| Sh_After : stack t = [FDAfterInner 0; FDeployTop 0] -> isD (cur t) -> tw t = WRun -> Fresh s -> shape s t
| Sh_Dep : forall c k, stack t = [FDDeploying 0 c k false; FDeployTop 0] -> isD (cur t) ->
                       alookup 0 (dm s) = Some (Real c) -> shape s t
| Sh_Top : stack t = [FDeployTop 0] -> isD (cur t) -> tw t = WRun -> G s -> shape s t.

Definition task_ok (s : st) (t : task) :=
  Forall (fun o => o = ODeploy 0) (todo t) /\ parent t = None /\ shape s t.

Definition P_H1 (s : st) := forall c e, alookup 0 (dm s) = Some (Real c) -> alookup 0 (em s) = Some e ->
                                        ev_isset s e = true -> In (DE c true) (log s).
Definition P_A2 (s : st) := alookup 0 (dm s) <> None -> mem 0 (cm s) = true.
Definition P_A3 (s : st) := forall x, alookup 0 (dm s) = Some x -> exists c, x = Real c.
Definition P_A4 (s : st) := forall e, alookup 0 (em s) = Some e -> e < length (evs s).
Definition P_O (s : st) := alookup 0 (dm s) = None -> conns_of 0 (log s) = [].
Definition P_T (o : option nat) (s : st) :=
  forall j t, nth_error (tasks s) j = Some t -> (tw t <> WRun \/ o = Some j) -> task_ok s t.

Record INV (o : option nat) (s : st) : Prop := {
  i_H1 : P_H1 s; i_A2 : P_A2 s; i_A3 : P_A3 s; i_A4 : P_A4 s; i_T : P_T o s; i_L : ra_all (log s) = true;
  i_O : P_O s; i_Once : once_ok (log s) = true
}.

Definition heap (s : st) := (cm s, em s, dm s, evs s).

Lemma shape_heap : forall s s' t, heap s' = heap s -> shape s t -> shape s' t.
Proof.
  intros s s' t H Sh. unfold heap in H. inversion H as [[Hc He Hd Hv]].
  destruct Sh; [eapply Sh_idle|eapply Sh_ret|eapply Sh_FD|eapply Sh_Else|eapply Sh_Wait|eapply Sh_FI
               |eapply Sh_After|eapply Sh_Dep|eapply Sh_Top]; eauto;
  unfold G, Eset, Fresh, Eunset, ev_isset in *; rewrite ?Hc, ?He, ?Hd, ?Hv; auto.
Qed.
Lemma task_ok_heap : forall s s' t, heap s' = heap s -> task_ok s t -> task_ok s' t.
Proof. intros s s' t H [A [B C]]. split; [|split]; auto. eapply shape_heap; eauto. Qed.

(* other tasks only depend on deployments_map *)
Lemma other_ok : forall s s' t, tw t <> WRun -> alookup 0 (dm s') = alookup 0 (dm s) -> task_ok s t -> task_ok s' t.
Proof.
  intros s s' t Hn Hd [A [B C]]. split; [|split]; auto.
  destruct C; try contradiction; [ eapply Sh_idle | eapply Sh_FD | eapply Sh_Else | eapply Sh_Dep ]; eauto.
  rewrite Hd; eauto.
Qed.
Lemma other_ok_create : forall s s' t, tw t <> WRun -> alookup 0 (dm s) = None -> task_ok s t -> task_ok s' t.
Proof.
  intros s s' t Hn Hd [A [B C]]. split; [|split]; auto.
  destruct C; try contradiction; [ eapply Sh_idle | eapply Sh_FD | eapply Sh_Else | ]; eauto. congruence.
Qed.
Lemma wake_ok : forall s e t, task_ok s t -> task_ok s (wake e t).
Proof.
  intros s e t H. unfold wake. destruct (tw t) eqn:E; auto. destruct (e0 =? e); auto.
  destruct H as [A [B C]]. split; [|split]; auto.
  destruct C; try congruence; [ eapply Sh_idle | eapply Sh_FD | eapply Sh_Else | eapply Sh_Dep ]; eauto.
Qed.
Lemma wake_tw : forall e t, tw (wake e t) <> WRun -> tw t <> WRun.
Proof. intros e t. unfold wake. destruct (tw t) eqn:E; try congruence. Qed.
Lemma wake_run : forall e t, tw t = WRun -> wake e t = t.
Proof. intros e t H. unfold wake. now rewrite H. Qed.

(* master lemma: rebuild the invariant after the running task [tid] became [t1], the other tasks were mapped
   through [g] (identity or waking) and the heap changed in a way that is harmless for tasks that do not run *)
Lemma INV_mk : forall s s' tid t1 (g : task -> task),
  INV (Some tid) s ->
  P_H1 s' -> P_A2 s' -> P_A3 s' -> P_A4 s' -> ra_all (log s') = true -> P_O s' -> once_ok (log s') = true ->
  (forall x, tw x <> WRun -> task_ok s x -> task_ok s' x) ->
  nth_error (tasks s') tid = Some t1 ->
  (forall j, j <> tid -> nth_error (tasks s') j = option_map g (nth_error (tasks s) j)) ->
  (forall x, task_ok s' x -> task_ok s' (g x)) -> (forall x, tw (g x) <> WRun -> tw x <> WRun) ->
  task_ok s' t1 -> INV (Some tid) s'.
Proof.
  intros s s' tid t1 g I h1 a2 a3 a4 l po on Ho Ht Hn Hg Hgw Hok.
  constructor; auto. intros j t' Hj Hc.
  destruct (Nat.eq_dec j tid) as [->|Hne].
  - rewrite Ht in Hj. inversion Hj; subst; auto.
  - rewrite (Hn j Hne) in Hj. destruct (nth_error (tasks s) j) as [x|] eqn:E; [|discriminate].
    simpl in Hj. inversion Hj; subst. destruct Hc as [Hc|Hc]; [|inversion Hc; congruence].
    apply Hg. apply Ho. apply Hgw; auto. apply (i_T _ _ I j x E). left. apply Hgw; auto.
Qed.

Lemma id_ok : forall s x, task_ok s x -> task_ok s ((fun y : task => y) x).
Proof. auto. Qed.

(* ---------------------------------------------------------------- transfer lemmas *)
Lemma INV_eq : forall o s s', heap s' = heap s -> tasks s' = tasks s -> log s' = log s -> INV o s -> INV o s'.
Proof.
  intros o s s' H Ht Hlg I. pose proof H as H0. unfold heap in H. inversion H as [[Hc He Hd Hv]].
  destruct I as [h1 a2 a3 a4 tt ll oo on].
  constructor; unfold P_H1, P_A2, P_A3, P_A4, P_T, P_O, ev_isset in *; rewrite ?Hc, ?He, ?Hd, ?Hv, ?Hlg, ?Ht; auto.
  intros j t Hj Hcnd. eapply task_ok_heap; eauto.
Qed.

Definition ev_fine (x : ev) (older : list ev) : bool :=
  match x with
  | Ret _ _ None (IReal c) => has (is_DE c true) older
  | Ret _ _ None _ => false
  | DS _ _ => false
  | _ => true
  end.
Lemma INV_log : forall o s s' x, heap s' = heap s -> tasks s' = tasks s -> log s' = x :: log s ->
  ev_fine x (log s) = true -> INV o s -> INV o s'.
Proof.
  intros o s s' x H Ht Hlg Hx I. pose proof H as H0. unfold heap in H. inversion H as [[Hc He Hd Hv]].
  destruct I as [h1 a2 a3 a4 tt ll oo on].
  constructor; unfold P_H1, P_A2, P_A3, P_A4, P_T, P_O, ev_isset in *; rewrite ?Hc, ?He, ?Hd, ?Hv, ?Hlg, ?Ht; auto.
  - intros c e A B C. right. eapply h1; eauto.
  - intros j t Hj Hcnd. eapply task_ok_heap; eauto.
  - simpl. unfold ev_fine in Hx. rewrite ll, andb_true_r. destruct x; auto; discriminate.
  - intros Hn. destruct x; simpl; auto; discriminate.
  - destruct x; simpl; auto; discriminate.
Qed.

Lemma opt_id : forall A (x : option A), option_map (fun y => y) x = x.
Proof. destruct x; reflexivity. Qed.

Lemma INV_upd : forall s tid t f,
  INV (Some tid) s -> nth_error (tasks s) tid = Some t -> task_ok s (f t) -> INV (Some tid) (upd_task s tid f).
Proof.
  intros s tid t f I Ht Hok.
  assert (Hh : heap (upd_task s tid f) = heap s) by reflexivity.
  apply INV_mk with (s := s) (t1 := f t) (g := fun y => y).
  - exact I.
  - exact (i_H1 _ _ I).
  - exact (i_A2 _ _ I).
  - exact (i_A3 _ _ I).
  - exact (i_A4 _ _ I).
  - exact (i_L _ _ I).
  - exact (i_O _ _ I).
  - exact (i_Once _ _ I).
  - intros x _ Hx. eapply task_ok_heap; eauto.
  - simpl. rewrite nth_error_nth_upd, Nat.eqb_refl, Ht. reflexivity.
  - intros j Hne. simpl. rewrite nth_error_nth_upd. destruct (tid =? j) eqn:E.
    apply Nat.eqb_eq in E. congruence. now rewrite opt_id.
  - auto.
  - auto.
  - eapply task_ok_heap; eauto.
Qed.
Lemma tid_upd : forall s tid t f, nth_error (tasks s) tid = Some t ->
  nth_error (tasks (upd_task s tid f)) tid = Some (f t).
Proof. intros. simpl. rewrite nth_error_nth_upd, Nat.eqb_refl, H. reflexivity. Qed.

Lemma finish_eq : forall s tid t r, nth_error (tasks s) tid = Some t -> parent t = None ->
  finish s tid r = upd_task s tid (fun t => mkT [] [] (opi t) None (parent t) WDone (gerr t) (ucon t)).
Proof.
  intros s tid t r Ht Hp. unfold finish, notify.
  rewrite (tid_upd s tid t _ Ht). simpl. rewrite Hp. reflexivity.
Qed.

Lemma INV_finish : forall s tid t r,
  INV (Some tid) s -> nth_error (tasks s) tid = Some t -> task_ok s t -> INV (Some tid) (finish s tid r).
Proof.
  intros s tid t r I Ht [A [B C]]. rewrite (finish_eq s tid t r Ht B).
  eapply INV_upd; eauto. split; [|split]; simpl; auto. apply Sh_idle; reflexivity.
Qed.

Lemma INV_raise : forall s tid t e,
  INV (Some tid) s -> nth_error (tasks s) tid = Some t -> task_ok s t -> INV (Some tid) (raise s tid e).
Proof.
  intros s tid t e I Ht Hok. unfold raise. rewrite Ht. destruct (cur t) as [o|].
  - eapply INV_finish with (t := t).
    + apply INV_log with (s := s) (x := Ret tid (opi t) (Some e) (info_of s t o));
        [reflexivity|reflexivity|reflexivity|reflexivity|exact I].
    + exact Ht.
    + eapply task_ok_heap; [|exact Hok]. reflexivity.
  - eapply INV_finish; eauto.
Qed.

(* ---------------------------------------------------------------- the cases of [micro] *)
Ltac tab_tid Ht := simpl; rewrite ?nth_error_nth_upd, ?Nat.eqb_refl, ?Ht; reflexivity.
Ltac tab_other := intros j Hne; simpl; rewrite ?nth_error_nth_upd;
  destruct (_ =? j) eqn:E; [apply Nat.eqb_eq in E; congruence | now rewrite ?opt_id].

Lemma running_tw : forall s tid t, running s tid = true -> nth_error (tasks s) tid = Some t -> tw t = WRun.
Proof. unfold running. intros s tid t H Ht. rewrite Ht in H. destruct (tw t); congruence. Qed.

Lemma cfg0 : cfg deps 0 = d. Proof. reflexivity. Qed.

(* stack [] : an operation finished (or the first one starts) *)
Lemma case_next : forall s tid t,
  INV (Some tid) s -> nth_error (tasks s) tid = Some t -> tw t = WRun -> stack t = [] ->
  INV (Some tid) (next_op s tid t).
Proof.
  intros s tid t I Ht Hw Hs. pose proof (i_T _ _ I tid t Ht (or_intror eq_refl)) as [A [B C]].
  unfold next_op.
  (* the state after logging the completion *)
  set (s1 := match cur t with
             | Some o => add_log s (Ret tid (opi t) None (info_of s t o)) | None => s end).
  assert (I1 : INV (Some tid) s1 /\ heap s1 = heap s /\ tasks s1 = tasks s).
  { subst s1. destruct C as [Hst Hc|Hst Hc Hr Hg|Hst|Hst|Hst|Hst|Hst|c k Hst|Hst]; try congruence.
    - rewrite Hc. auto.
    - unfold isD in Hc. rewrite Hc. split; [|split; reflexivity].
      destruct Hg as [[c Hd] [e [He Hse]]].
      apply INV_log with (s := s) (x := Ret tid (opi t) None (info_of s t (ODeploy 0)));
        [reflexivity|reflexivity|reflexivity| |exact I].
      simpl. unfold info. rewrite Hd. simpl. apply has_DE_In. eapply (i_H1 _ _ I); eauto. }
  destruct I1 as [I1 [Hh Htk]].
  assert (Ht1 : nth_error (tasks s1) tid = Some t) by (rewrite Htk; exact Ht).
  destruct (todo t) as [|o rest] eqn:Et.
  - eapply INV_finish; eauto. eapply task_ok_heap; eauto. split; [|split]; auto. rewrite Et; auto.
  - eapply INV_upd; eauto. inversion A; subst. split; [|split]; simpl; auto.
    apply Sh_FD; simpl; reflexivity.
Qed.

(* the deployer claims the name: config_map, a fresh event, a fresh dependency set *)
Lemma case_claim : forall s tid t,
  INV (Some tid) s -> nth_error (tasks s) tid = Some t -> tw t = WRun ->
  stack t = [FD 0; FDeployTop 0] -> mem 0 (cm s) = false ->
  let e := length (evs s) in
  let sid := length (sets s) in
  let s1 := set_cm s (cm s ++ [0]) in
  let s2 := set_em (set_evs s1 (evs s1 ++ [false])) (aset 0 e (em s1)) in
  let s3 := set_dg (set_sets s2 (sets s2 ++ [[]])) (aset 0 sid (dg s2)) in
  INV (Some tid) (push (top_set s3 tid (FDAfterInner 0)) tid (FI 0 false)).
Proof.
  intros s tid t I Ht Hw Hs Hm. cbv zeta.
  pose proof (i_T _ _ I tid t Ht (or_intror eq_refl)) as [A [B C]].
  assert (Hcur : isD (cur t)).
  { destruct C as [Hst|Hst|Hst Hc|Hst|Hst|Hst|Hst|c k Hst|Hst]; try congruence. }
  assert (Hdm : alookup 0 (dm s) = None).
  { destruct (alookup 0 (dm s)) eqn:E; auto. rewrite (i_A2 _ _ I) in Hm; congruence. }
  eapply INV_mk with (s := s) (g := fun y => y)
    (t1 := set_stack (set_stack t (FDAfterInner 0 :: tl (stack t)))
                     (FI 0 false :: stack (set_stack t (FDAfterInner 0 :: tl (stack t))))).
  - exact I.
  - unfold P_H1, ev_isset. simpl. intros c e0 Hd He Hi. rewrite alookup_aset_same in He. inversion He; subst.
    rewrite nth_app_end in Hi. discriminate.
  - unfold P_A2. simpl. intros _. apply mem_app_self.
  - exact (i_A3 _ _ I).
  - unfold P_A4. simpl. intros e0 He. rewrite alookup_aset_same in He. inversion He; subst.
    rewrite app_length. simpl. lia.
  - exact (i_L _ _ I).
  - exact (i_O _ _ I).
  - exact (i_Once _ _ I).
  - intros x Hx Hok. apply (other_ok s _ x Hx); [reflexivity | exact Hok].
  - tab_tid Ht.
  - tab_other.
  - auto.
  - auto.
  - split; [|split]; simpl; auto. rewrite Hs. simpl. apply Sh_FI; simpl; auto.
    unfold Fresh, Eunset, ev_isset. simpl. split; [exact Hdm|split; [apply mem_app_self|]].
    exists (length (evs s)). rewrite alookup_aset_same. split; auto. apply nth_app_end.
Qed.

(* the connector is created and registered, deploy() is entered *)
Lemma case_create : forall s tid t,
  INV (Some tid) s -> nth_error (tasks s) tid = Some t -> tw t = WRun ->
  stack t = [FDAfterInner 0; FDeployTop 0] ->
  let c := nreal s in
  let s1 := set_dm (set_nreal s (S c)) (aset 0 (Real c) (dm s)) in
  INV (Some tid) (top_set (add_log s1 (DS 0 c)) tid (FDDeploying 0 c (dy d) false)).
Proof.
  intros s tid t I Ht Hw Hs. cbv zeta.
  pose proof (i_T _ _ I tid t Ht (or_intror eq_refl)) as [A [B C]].
  assert (Hcur : isD (cur t) /\ Fresh s).
  { destruct C as [Hst|Hst|Hst|Hst|Hst|Hst|Hst Hc _ Hf'|c' k Hst|Hst]; try congruence. auto. }
  destruct Hcur as [Hcur [Hdm [Hcm [e [He Hse]]]]].
  eapply INV_mk with (s := s) (g := fun y => y)
    (t1 := set_stack t (FDDeploying 0 (nreal s) (dy d) false :: tl (stack t))).
  - exact I.
  - unfold P_H1, ev_isset. simpl. intros c0 e0 Hd He0 Hi. unfold ev_isset in Hse. congruence.
  - unfold P_A2. simpl. auto.
  - unfold P_A3. simpl. intros x Hx. rewrite alookup_aset_same in Hx. inversion Hx. eauto.
  - exact (i_A4 _ _ I).
  - simpl. exact (i_L _ _ I).
  - unfold P_O. simpl. intros Hn. rewrite alookup_aset_same in Hn. discriminate.
  - simpl. rewrite (i_O _ _ I Hdm). simpl. exact (i_Once _ _ I).
  - intros x Hx Hok. apply (other_ok_create s _ x Hx Hdm Hok).
  - tab_tid Ht.
  - tab_other.
  - auto.
  - auto.
  - split; [|split]; simpl; auto. rewrite Hs. simpl. eapply Sh_Dep; simpl; eauto. apply alookup_aset_same.
Qed.

(* deploy() returned: the event is set, every waiter becomes ready *)
Lemma case_deployed : forall s tid t c e,
  INV (Some tid) s -> nth_error (tasks s) tid = Some t -> tw t = WRun ->
  stack t = [FDDeploying 0 c 0 false; FDeployTop 0] ->
  alookup 0 (em s) = Some e ->
  INV (Some tid) (pop (ev_set (add_log s (DE c true)) e) tid).
Proof.
  intros s tid t c e I Ht Hw Hs He.
  pose proof (i_T _ _ I tid t Ht (or_intror eq_refl)) as [A [B C]].
  assert (Hcur : isD (cur t) /\ alookup 0 (dm s) = Some (Real c)).
  { destruct C as [Hst|Hst|Hst|Hst|Hst|Hst|Hst|c' k Hst Hc Hd|Hst]; try congruence.
    rewrite Hs in Hst. inversion Hst; subst. auto. }
  destruct Hcur as [Hcur Hd].
  pose proof (i_A4 _ _ I e He) as Hlt.
  set (s1 := add_log s (DE c true)).
  assert (Hset : ev_isset (ev_set s1 e) e = true).
  { unfold ev_set. destruct (ev_isset s1 e) eqn:E; auto. unfold ev_isset. simpl. apply nth_nth_upd_same. exact Hlt. }
  assert (Hdm' : dm (ev_set s1 e) = dm s) by (unfold ev_set; destruct (ev_isset s1 e); reflexivity).
  assert (Hem' : em (ev_set s1 e) = em s) by (unfold ev_set; destruct (ev_isset s1 e); reflexivity).
  assert (Hcm' : cm (ev_set s1 e) = cm s) by (unfold ev_set; destruct (ev_isset s1 e); reflexivity).
  assert (Hlg' : log (ev_set s1 e) = DE c true :: log s) by (unfold ev_set; destruct (ev_isset s1 e); reflexivity).
  assert (Hlen : length (evs (ev_set s1 e)) = length (evs s)).
  { unfold ev_set. destruct (ev_isset s1 e); simpl; auto. apply nth_upd_length. }
  assert (HG : G (pop (ev_set s1 e) tid)).
  { unfold G, Eset. simpl. rewrite Hdm', Hem'. split; eauto. }
  assert (Htab : nth_error (tasks (pop (ev_set s1 e) tid)) tid = Some (set_stack t (tl (stack t))) /\
                 forall j, j <> tid -> nth_error (tasks (pop (ev_set s1 e) tid)) j =
                                         option_map (wake e) (nth_error (tasks s) j) \/
                                       nth_error (tasks (pop (ev_set s1 e) tid)) j =
                                         option_map (fun y => y) (nth_error (tasks s) j)).
  { unfold ev_set. destruct (ev_isset s1 e); simpl.
    - split. rewrite nth_error_nth_upd, Nat.eqb_refl, Ht. reflexivity.
      intros j Hne. right. rewrite nth_error_nth_upd. destruct (tid =? j) eqn:E'.
      apply Nat.eqb_eq in E'; congruence. now rewrite opt_id.
    - split. rewrite nth_error_nth_upd, Nat.eqb_refl, nth_error_map, Ht. simpl. now rewrite (wake_run e t Hw).
      intros j Hne. left. rewrite nth_error_nth_upd. destruct (tid =? j) eqn:E'.
      apply Nat.eqb_eq in E'; congruence. apply nth_error_map. }
  destruct Htab as [Htid Hoth].
  constructor.
  - unfold P_H1. simpl. rewrite Hdm', Hlg'. intros c0 e0 Hd0 _ _. left. congruence.
  - unfold P_A2. simpl. rewrite Hdm', Hcm'. exact (i_A2 _ _ I).
  - unfold P_A3. simpl. rewrite Hdm'. exact (i_A3 _ _ I).
  - unfold P_A4. simpl. rewrite Hem', Hlen. exact (i_A4 _ _ I).
  - intros j t' Hj Hc. destruct (Nat.eq_dec j tid) as [->|Hne].
    + rewrite Htid in Hj. inversion Hj; subst. split; [|split]; simpl; auto.
      rewrite Hs. simpl. apply Sh_Top; simpl; auto.
    + destruct Hc as [Hc|Hc]; [|inversion Hc; congruence].
      destruct (nth_error (tasks s) j) as [x|] eqn:Ex.
      * assert (Hx : tw x <> WRun -> task_ok (pop (ev_set s1 e) tid) x).
        { intro Hn. apply (other_ok s _ x Hn); [simpl; now rewrite Hdm' | eapply (i_T _ _ I j x Ex); auto]. }
        destruct (Hoth j Hne) as [Hj'|Hj']; rewrite Hj', Ex in Hj; simpl in Hj; inversion Hj; subst.
        -- apply wake_ok. apply Hx. eapply wake_tw; eauto.
        -- apply Hx. exact Hc.
      * destruct (Hoth j Hne) as [Hj'|Hj']; rewrite Hj', Ex in Hj; simpl in Hj; discriminate.
  - simpl. rewrite Hlg'. simpl. exact (i_L _ _ I).
  - unfold P_O. simpl. rewrite Hdm', Hlg'. simpl. exact (i_O _ _ I).
  - simpl. rewrite Hlg'. simpl. exact (i_Once _ _ I).
Qed.

Lemma nth_nil_false : forall n, nth n (@nil bool) false = false.
Proof. destruct n; reflexivity. Qed.

Lemma micro_inv : forall s tid,
  INV (Some tid) s -> running s tid = true -> INV (Some tid) (micro false deps tid s).
Proof.
  intros s tid I Hr. unfold running in Hr.
  destruct (nth_error (tasks s) tid) as [t|] eqn:Ht; [|discriminate].
  assert (Hw : tw t = WRun) by (destruct (tw t); congruence).
  pose proof (i_T _ _ I tid t Ht (or_intror eq_refl)) as Hok. pose proof Hok as [A [B C]].
  unfold micro. rewrite Ht.
  destruct C as [Hst Hc|Hst Hc _ Hg|Hst Hc|Hst Hc|Hst Hc _ He|Hst Hc _ Hfr|Hst Hc _ Hfr|c k Hst Hc Hd|Hst Hc _ Hg];
    rewrite Hst; cbv beta iota.
  - apply case_next; auto.
  - apply case_next; auto.
  - (* FD *)
    destruct (mem 0 (cm s)) eqn:Em.
    + unfold top_set. eapply INV_upd with (t := t); [exact I|exact Ht|]. split; [|split]; simpl; auto. rewrite Hst. simpl.
      apply Sh_Else; simpl; auto.
    + rewrite cfg0, Dw. apply (case_claim s tid t); auto.
  - (* FDElse *)
    destruct (alookup 0 (em s)) as [e|] eqn:Ee.
    + destruct (ev_isset s e) eqn:Es.
      * unfold top_set. eapply INV_upd with (t := t); [exact I|exact Ht|]. split; [|split]; simpl; auto. rewrite Hst. simpl.
        apply Sh_Wait; simpl; auto. exists e. split; auto.
      * unfold suspend. eapply INV_upd with (t := t); [exact I|exact Ht|]. split; [|split]; simpl; auto.
        apply Sh_Else; simpl; auto.
    + eapply INV_raise with (t := t); eauto.
  - (* FDWait *)
    destruct (alookup 0 (dm s)) as [x|] eqn:Ed.
    + destruct (mem 0 (cm s)) eqn:Em.
      * unfold pop. eapply INV_upd with (t := t); [exact I|exact Ht|]. split; [|split]; simpl; auto. rewrite Hst. simpl.
        apply Sh_Top; simpl; auto. split; auto. destruct (i_A3 _ _ I x Ed) as [c ->]. eauto.
      * unfold top_set. eapply INV_upd with (t := t); [exact I|exact Ht|]. split; [|split]; simpl; auto. rewrite Hst. simpl.
        apply Sh_FD; simpl; auto.
    + eapply INV_raise with (t := t); eauto.
  - (* FI 0 false *)
    unfold pop. eapply INV_upd with (t := t); [exact I|exact Ht|]. split; [|split]; simpl; auto. rewrite Hst. simpl.
    apply Sh_After; simpl; auto.
  - (* FDAfterInner *)
    rewrite cfg0, Dl. cbv beta iota zeta. unfold will_fail. rewrite cfg0, Df, nth_nil_false.
    apply (case_create s tid t); auto.
  - (* FDDeploying *)
    destruct k as [|k'].
    + cbv beta iota zeta.
      change (alookup 0 (em (add_log s (DE c true)))) with (alookup 0 (em s)).
      destruct (alookup 0 (em s)) as [e|] eqn:Ee.
      * apply (case_deployed s tid t c e); auto.
      * eapply INV_raise with (t := t).
        -- apply INV_log with (s := s) (x := DE c true); [reflexivity|reflexivity|reflexivity|reflexivity|exact I].
        -- exact Ht.
        -- eapply task_ok_heap; [|exact Hok]. reflexivity.
    + unfold suspend, top_set.
      eapply INV_upd with (t := set_stack t (FDDeploying 0 c k' false :: tl (stack t))).
      * eapply INV_upd with (t := t); [exact I|exact Ht|]. split; [|split]; simpl; auto. rewrite Hst. simpl.
        eapply Sh_Dep; simpl; eauto.
      * exact (tid_upd s tid t (fun t0 => set_stack t0 (FDDeploying 0 c k' false :: tl (stack t0))) Ht).
      * split; [|split]; simpl; auto. rewrite Hst. simpl. eapply Sh_Dep; simpl; eauto.
  - (* FDeployTop *)
    destruct (alookup 0 (dg s)) as [sid|] eqn:Eg.
    + unfold pop.
      assert (I' : INV (Some tid) (set_add s sid 0)) by (eapply INV_eq; [| | |exact I]; reflexivity).
      eapply INV_upd with (t := t); [exact I'|exact Ht|]. split; [|split]; simpl; auto. rewrite Hst. simpl.
      apply Sh_ret; simpl; auto.
    + eapply INV_raise with (t := t); eauto.
Qed.

(* ---------------------------------------------------------------- executions *)
Lemma iter_inv : forall fuel s tid, INV (Some tid) s -> INV (Some tid) (iter false deps fuel tid s).
Proof.
  induction fuel as [|f IH]; intros s tid I; simpl.
  - eapply INV_eq; [| | |exact I]; reflexivity.
  - destruct (running s tid) eqn:R; auto. apply IH. apply micro_inv; auto.
Qed.

Lemma INV_focus : forall s tid t, INV None s -> nth_error (tasks s) tid = Some t -> tw t <> WRun -> INV (Some tid) s.
Proof.
  intros s tid t I Ht Hn. destruct I as [h1 a2 a3 a4 tt ll oo on]. constructor; auto.
  intros j t' Hj Hc. destruct Hc as [Hc|Hc]; [apply (tt j t' Hj); auto|].
  inversion Hc; subst. rewrite Ht in Hj. inversion Hj; subst. apply (tt j t' Ht). auto.
Qed.
Lemma INV_unfocus : forall s tid, INV (Some tid) s -> INV None s.
Proof.
  intros s tid I. destruct I as [h1 a2 a3 a4 tt ll oo on]. constructor; auto.
  intros j t' Hj Hc. destruct Hc as [Hc|Hc]; [|discriminate]. apply (tt j t' Hj); auto.
Qed.

Lemma step_inv : forall s tid, INV None s -> INV None (step false deps s tid).
Proof.
  intros s tid I. unfold step.
  assert (Hbad : INV None (set_bad s)) by (eapply INV_eq; [| | |exact I]; reflexivity).
  destruct (nth_error (tasks s) tid) as [t|] eqn:Ht; auto.
  destruct (tw t) eqn:Etw; auto.
  apply INV_unfocus with (tid := tid). apply iter_inv. unfold suspend.
  assert (Hn : tw t <> WRun) by congruence.
  pose proof (INV_focus s tid t I Ht Hn) as I1.
  eapply INV_upd with (t := t); [exact I1|exact Ht|].
  destruct (i_T _ _ I1 tid t Ht (or_introl Hn)) as [A [B C]]. split; [|split]; simpl; auto.
  destruct C as [Hst Hc|Hst Hc Hr|Hst Hc|Hst Hc|Hst Hc Hr|Hst Hc Hr|Hst Hc Hr|c k Hst Hc Hd|Hst Hc Hr];
    try congruence;
    [ apply Sh_idle | apply Sh_FD | apply Sh_Else | eapply Sh_Dep ]; simpl; eauto.
Qed.

Lemma run_inv : forall sched s, INV None s -> INV None (run false deps s sched).
Proof.
  induction sched as [|t r IH]; intros s I; simpl; auto. apply IH. apply step_inv. exact I.
Qed.

Definition deploy_only (reqs : list (list op)) := Forall (Forall (fun o => o = ODeploy 0)) reqs.

Lemma init_inv : forall reqs, deploy_only reqs -> INV None (init reqs).
Proof.
  intros reqs H. constructor; unfold P_H1, P_A2, P_A3, P_A4, P_O; simpl; try discriminate; try congruence; auto.
  intros j t Hj _. unfold init in Hj. simpl in Hj. rewrite nth_error_map in Hj.
  destruct (nth_error reqs j) as [ops|] eqn:E; [|discriminate]. simpl in Hj. inversion Hj; subst.
  split; [|split]; simpl; auto.
  - unfold deploy_only in H. rewrite Forall_forall in H. apply H. eapply nth_error_In; eauto.
  - apply Sh_idle; reflexivity.
Qed.

(* every interleaving (every list of scheduling choices, ready or not) of any number of requests, each any
   number of deploy(d0) operations, with any number of suspensions inside connector.deploy *)
Theorem deploy_only_all_executions : forall reqs sched,
  deploy_only reqs ->
  ra_ok reqs (log (run false deps (init reqs) sched)) = true /\
  once_ok (log (run false deps (init reqs) sched)) = true.
Proof.
  intros reqs sched H. pose proof (run_inv sched (init reqs) (init_inv reqs H)) as I.
  split. apply ra_all_ok. exact (i_L _ _ I). exact (i_Once _ _ I).
Qed.

End OneEager.
