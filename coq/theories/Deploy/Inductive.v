(* Deploy/Inductive.v — UNFINISHED groundwork for an inductive invariant over ALL executions (unbounded number
   of requests, operations, suspensions and scheduling choices) of the deploy-only fragment on one eager,
   non-wrapper, never-failing deployment.  This file contains: the invariant [INV] (heap facts H1/A2/A3/A4, the
   admissible stack shapes of a task with the heap facts each transient shape relies on, the log checker
   [ra_all] with [ra_all_ok : ra_all l = true -> ra_ok reqs l = true]), and the lemmas that are independent of
   [micro] (tasks that are not running only depend on deployments_map; waking preserves the shapes; replacing
   the running task in the table).  NOT proved here: preservation of [INV] by each case of [micro], hence no
   statement about executions follows from this file yet, and nothing in Props/ depends on it.  The plan of
   the remaining proof (and its extension to undeploy: deployer uniqueness, captured events are stale) is in
   design/notes/C26.md. *)
From Coq Require Import List Bool Arith Lia.
From SF Require Import Deploy.Model Deploy.Proofs.
Import ListNotations.

(* ---------------------------------------------------------------- list lemmas *)
Lemma nth_error_nth_upd : forall A (f : A -> A) l i j,
  nth_error (nth_upd i f l) j = if i =? j then option_map f (nth_error l j) else nth_error l j.
Proof.
  induction l as [|x l IH]; intros i j.
  - destruct i; destruct j; simpl; try reflexivity; destruct (i =? j); reflexivity.
  - destruct i; destruct j; simpl; auto.
Qed.
Lemma alookup_aset_same : forall A k (v : A) l, alookup k (aset k v l) = Some v.
Proof.
  induction l as [|[k' v'] l IH]; simpl. now rewrite Nat.eqb_refl.
  destruct (k' =? k) eqn:E; simpl. now rewrite Nat.eqb_refl. now rewrite E.
Qed.
Lemma nth_upd_length : forall A (f : A -> A) l i, length (nth_upd i f l) = length l.
Proof. induction l; destruct i; simpl; auto. Qed.
Lemma nth_nth_upd_same : forall (l : list bool) e, e < length l -> nth e (nth_upd e (fun _ => true) l) false = true.
Proof. induction l; destruct e; simpl; intros; try lia; auto. apply IHl. lia. Qed.
Lemma nth_app_end : forall (l : list bool), nth (length l) (l ++ [false]) false = false.
Proof. induction l; simpl; auto. Qed.
Lemma mem_app_self : forall l, mem 0 (l ++ [0]) = true.
Proof. unfold mem. intro l. rewrite existsb_app. simpl. apply orb_true_r. Qed.

(* a stronger checker that does not need the request table: every OK completion reports a registered real
   connector whose deploy() returned successfully before *)
Fixpoint ra_all (l : list ev) : bool :=
  match l with
  | [] => true
  | e :: older =>
    (match e with
     | Ret _ _ None (IReal c) => has (is_DE c true) older
     | Ret _ _ None _ => false
     | _ => true
     end) && ra_all older
  end.
Lemma ra_all_ok : forall reqs l, ra_all l = true -> ra_ok reqs l = true.
Proof.
  induction l as [|e l IH]; simpl; auto. intro H. apply andb_prop in H. destruct H as [H1 H2].
  rewrite (IH H2), andb_true_r. destruct e; auto. destruct r; auto. destruct info; try discriminate; auto.
  destruct (is_deploy reqs t i); auto.
Qed.
Lemma has_DE_In : forall c l, In (DE c true) l -> has (is_DE c true) l = true.
Proof.
  intros c l H. unfold has. apply existsb_exists. exists (DE c true). split; auto.
  simpl. now rewrite Nat.eqb_refl.
Qed.

Section OneEager.
Variable d : dcfg.
Hypothesis Hw : wrapper d = false.
Hypothesis Hl : lazy d = false.
Hypothesis Hf : fails d = [].
Let deps := [d].

Definition Eset (s : st) := exists e, alookup 0 (em s) = Some e /\ ev_isset s e = true.
Definition Eunset (s : st) := exists e, alookup 0 (em s) = Some e /\ ev_isset s e = false.
Definition G (s : st) := (exists c, alookup 0 (dm s) = Some (Real c)) /\ Eset s.
Definition Fresh (s : st) := alookup 0 (dm s) = None /\ mem 0 (cm s) = true /\ Eunset s.
Definition isD (o : option op) := o = Some (ODeploy 0).

Inductive shape (s : st) (t : task) : Prop :=
| Sh_idle : stack t = [] -> cur t = None -> shape s t
| Sh_ret : stack t = [] -> isD (cur t) -> tw t = WRun -> G s -> shape s t
| Sh_FD : stack t = [FD 0; FDeployTop 0] -> isD (cur t) -> shape s t
| Sh_Else : stack t = [FDElse 0; FDeployTop 0] -> isD (cur t) -> shape s t
| Sh_Wait : stack t = [FDWait 0; FDeployTop 0] -> isD (cur t) -> tw t = WRun -> Eset s -> shape s t
| Sh_FI : stack t = [FI 0 false; FDAfterInner 0; FDeployTop 0] -> isD (cur t) -> tw t = WRun -> Fresh s -> shape s t
| Sh_After : stack t = [FDAfterInner 0; FDeployTop 0] -> isD (cur t) -> tw t = WRun -> Fresh s -> shape s t
| Sh_Dep : forall c k, stack t = [FDDeploying 0 c k false; FDeployTop 0] -> isD (cur t) ->
                       alookup 0 (dm s) = Some (Real c) -> shape s t
| Sh_Top : stack t = [FDeployTop 0] -> isD (cur t) -> tw t = WRun -> G s -> shape s t.

Definition task_ok (s : st) (t : task) :=
  Forall (fun o => o = ODeploy 0) (todo t) /\ parent t = None /\ shape s t.

Record INV (o : option nat) (s : st) : Prop := {
  i_H1 : forall c e, alookup 0 (dm s) = Some (Real c) -> alookup 0 (em s) = Some e -> ev_isset s e = true ->
                     In (DE c true) (log s);
  i_A2 : alookup 0 (dm s) <> None -> mem 0 (cm s) = true;
  i_A3 : forall x, alookup 0 (dm s) = Some x -> exists c, x = Real c;
  i_A4 : forall e, alookup 0 (em s) = Some e -> e < length (evs s);
  i_T : forall j t, nth_error (tasks s) j = Some t -> (tw t <> WRun \/ o = Some j) -> task_ok s t;
  i_L : ra_all (log s) = true
}.

(* other tasks only depend on deployments_map *)
Lemma other_ok : forall s s' t, tw t <> WRun -> alookup 0 (dm s') = alookup 0 (dm s) -> task_ok s t -> task_ok s' t.
Proof.
  intros s s' t Hn Hd [A [B C]]. split; [|split]; auto.
  destruct C; try contradiction; [ eapply Sh_idle | eapply Sh_FD | eapply Sh_Else | eapply Sh_Dep ]; eauto.
  rewrite Hd; eauto.
Qed.
Lemma other_ok_create : forall s s' t, tw t <> WRun -> alookup 0 (dm s) = None -> task_ok s t -> task_ok s' t.
Proof.
  intros s s' t Hn Hd [A [B C]]. split; [|split]; auto.
  destruct C; try contradiction; [ eapply Sh_idle | eapply Sh_FD | eapply Sh_Else | ]; eauto. congruence.
Qed.
Lemma wake_ok : forall s e t, task_ok s t -> task_ok s (wake e t).
Proof.
  intros s e t H. unfold wake. destruct (tw t) eqn:E; auto. destruct (e0 =? e); auto.
  destruct H as [A [B C]]. split; [|split]; auto.
  destruct C; try congruence; [ eapply Sh_idle | eapply Sh_FD | eapply Sh_Else | eapply Sh_Dep ]; eauto.
Qed.
Lemma wake_tw : forall e t, tw (wake e t) <> WRun -> tw t <> WRun.
Proof. intros e t. unfold wake. destruct (tw t) eqn:E; try congruence. Qed.
Lemma wake_run : forall e t, tw t = WRun -> wake e t = t.
Proof. intros e t H. unfold wake. now rewrite H. Qed.

(* the task table after the running task [tid] was replaced and (maybe) waiters were woken *)
Lemma T_upd : forall s s' tid t (f : task -> task) ts',
  (forall j t', nth_error (tasks s) j = Some t' -> (tw t' <> WRun \/ Some tid = Some j) -> task_ok s t') ->
  nth_error (tasks s) tid = Some t ->
  (forall t', tw t' <> WRun -> task_ok s t' -> task_ok s' t') ->
  task_ok s' (f t) ->
  (forall j, nth_error ts' j = if tid =? j then Some (f t) else nth_error (tasks s) j) ->
  forall j t', nth_error ts' j = Some t' -> (tw t' <> WRun \/ Some tid = Some j) -> task_ok s' t'.
Proof.
  intros s s' tid t f ts' HT Ht Ho Hft Hn j t' Hj Hc. rewrite Hn in Hj.
  destruct (tid =? j) eqn:E.
  - inversion Hj; subst; auto.
  - apply Nat.eqb_neq in E. destruct Hc as [Hc|Hc]; [|inversion Hc; congruence].
    apply Ho; auto. apply (HT j); auto.
Qed.

End OneEager.
