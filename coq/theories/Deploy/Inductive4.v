(* Deploy/Inductive4.v — the lazy (FutureConnector) fragment, over ALL executions of Deploy/Model.v:
   one lazy, non-wrapper deployment whose inner connector.deploy() may suspend any number of times and may
   FAIL (any failure list), any number of requests, each any sequence of deploy(d0) / use(d0) operations
   (use = get_connector(d0).get_available_locations(), the prologue shared by every FutureConnector method),
   every list of scheduling choices.  Proved on the log of every execution:
     once          the inner connector's deploy() is called at most once;
     return_after  a use that returns OK used a FutureConnector whose inner deploy() had returned OK;
     fail_wakes    once the inner deploy() has failed, every use that completes raises, and no task stays
                   blocked on the FutureConnector's deploy_event.
   This is FutureConnector's own protocol (`deploying` flag + `deploy_event`).  It does NOT cover the
   manager-level events_map (C26_fail_wakes_refuted stays: an exception out of _inner_deploy leaves waiters of
   the WRAPPER blocked), undeploy of a lazy deployment (C26_once_refuted), or wraps chains. *)
From Coq Require Import List Bool Arith Lia.
From SF Require Import Deploy.Model Deploy.Proofs Deploy.Inductive Deploy.Inductive2 Deploy.Inductive3.
Import ListNotations.

Definition okopx (o : op) := o = ODeploy 0 \/ o = OUse 0.
Definition is_use (reqs : list (list op)) t i :=
  match nth_error reqs t with
  | Some ops => match nth_error ops i with Some (OUse _) => true | _ => false end
  | None => false
  end.
Definition is_DEf e := match e with DE _ false => true | _ => false end.

(* the lazy clauses on the log (newest first) *)
Definition lz_step (reqs : list (list op)) (x : ev) (older : list ev) : bool :=
  match x with
  | Ret t i None info =>
      if is_use reqs t i then
        match info with
        | IFut (Some c) => has (is_DE c true) older && negb (has is_DEf older)
        | INone => negb (has is_DEf older)
        | _ => false
        end
      else true
  | _ => true
  end.
Fixpoint lz_ok (reqs : list (list op)) (l : list ev) : bool :=
  match l with [] => true | x :: older => lz_step reqs x older && lz_ok reqs older end.

Lemma nth_app_keep_false : forall (l : list bool) e, nth e l false = false -> nth e (l ++ [false]) false = false.
Proof.
  intros l e H. destruct (Nat.lt_ge_cases e (length l)).
  - rewrite app_nth1; auto.
  - rewrite app_nth2; auto. destruct (e - length l) as [|[|n]]; reflexivity.
Qed.

Section OneLazy.
Variable d : dcfg.
Hypothesis Dw : wrapper d = false.
Hypothesis Dl : lazy d = true.
Variable reqs : list (list op).
Hypothesis Hreqs : Forall (Forall okopx) reqs.
Let deps := [d].

Definition opsof4 (j : nat) := nth j reqs [].
Definition isD4 (o : option op) := o = Some (ODeploy 0).
Definition isX4 (o : option op) := o = Some (OUse 0).
Definition conns (s : st) := conns_of 0 (log s).
Definition noDE (s : st) := forall c b, ~ In (DE c b) (log s).
Definition NoFut (s : st) := alookup 0 (dm s) = None /\ futs s = [] /\ conns s = [] /\ noDE s.

(* phases of the (single) FutureConnector x *)
Definition Ph0 (s : st) (x : fut) :=
  f_deploying x = false /\ f_real x = None /\ conns s = [] /\ noDE s /\ ev_isset s (f_event x) = false.
Definition Ph1 (s : st) (x : fut) (c : nat) :=
  f_deploying x = true /\ f_real x = None /\ conns s = [c] /\ noDE s /\ ev_isset s (f_event x) = false.
Definition Ph2 (s : st) (x : fut) (c : nat) :=
  f_deploying x = true /\ f_real x = Some c /\ conns s = [c] /\ In (DE c true) (log s) /\
  has is_DEf (log s) = false /\ ev_isset s (f_event x) = true.
Definition Ph3 (s : st) (x : fut) (c : nat) :=
  f_deploying x = true /\ f_real x = None /\ conns s = [c] /\ has is_DEf (log s) = true /\
  ev_isset s (f_event x) = true.
Definition HasFut (s : st) (x : fut) :=
  alookup 0 (dm s) = Some (Fut 0) /\ futs s = [x] /\ f_name x = 0 /\ f_event x < length (evs s).
Definition P2 (s : st) := exists x c, HasFut s x /\ Ph2 s x c.
Definition P1 (s : st) (c : nat) := exists x, HasFut s x /\ Ph1 s x c.

Definition K (s : st) :=
  NoFut s \/ exists x, HasFut s x /\ (Ph0 s x \/ exists c, Ph1 s x c \/ Ph2 s x c \/ Ph3 s x c).

Definition EmOk (s : st) := exists e, alookup 0 (em s) = Some e /\ e < length (evs s).
Definition TT := FDeployTop 0.
Inductive shape4 (s : st) (t : task) : Prop :=
| Y_e : stack t = [] -> cur t = None -> shape4 s t
| Y_retD : stack t = [] -> isD4 (cur t) -> shape4 s t
| Y_retX : stack t = [] -> isX4 (cur t) -> tw t = WRun ->
           ((ucon t = None /\ NoFut s) \/ (ucon t = Some (Fut 0) /\ P2 s)) -> shape4 s t
| Y_FD : stack t = [FD 0; TT] -> isD4 (cur t) -> shape4 s t
| Y_Else : stack t = [FDElse 0; TT] -> isD4 (cur t) -> shape4 s t
| Y_Wait : stack t = [FDWait 0; TT] -> isD4 (cur t) -> shape4 s t
| Y_FI : stack t = [FI 0 false; FDAfterInner 0; TT] -> isD4 (cur t) -> tw t = WRun -> NoFut s ->
         mem 0 (cm s) = true -> EmOk s -> shape4 s t
| Y_After : stack t = [FDAfterInner 0; TT] -> isD4 (cur t) -> tw t = WRun -> NoFut s ->
            mem 0 (cm s) = true -> EmOk s -> shape4 s t
| Y_Top : stack t = [TT] -> isD4 (cur t) -> shape4 s t
| Y_Use : stack t = [FUse 0] -> isX4 (cur t) -> shape4 s t
| Y_UDep : forall c k fl, stack t = [FUseDeploying 0 c k fl] -> isX4 (cur t) -> ucon t = Some (Fut 0) ->
                          P1 s c -> shape4 s t
| Y_UWait : stack t = [FUseWait 0] -> isX4 (cur t) -> ucon t = Some (Fut 0) -> (exists x, HasFut s x) -> shape4 s t.

Definition isdepx (t : task) := exists c k fl, stack t = [FUseDeploying 0 c k fl].

Definition Jc4 (j : nat) (t : task) :=
  match cur t with
  | Some o => nth_error (opsof4 j) (opi t) = Some o /\ todo t = skipn (S (opi t)) (opsof4 j)
  | None => todo t = [] \/ (opi t = 0 /\ todo t = opsof4 j)
  end.
(* a blocked task waits on an event that is not set *)
Definition Bl (s : st) (t : task) := forall e, tw t = WEvent e -> ev_isset s e = false.

Definition task_ok4 (s : st) (j : nat) (t : task) :=
  Forall okopx (todo t) /\ parent t = None /\ Jc4 j t /\ Bl s t /\ shape4 s t.

Definition dom4 (o : option nat) (j : nat) (t : task) := tw t <> WRun \/ o = Some j.
Definition V_A2 (s : st) := alookup 0 (dm s) <> None -> mem 0 (cm s) = true.
Definition V_T (o : option nat) (s : st) :=
  forall j t, nth_error (tasks s) j = Some t -> dom4 o j t -> task_ok4 s j t.
Definition V_U (o : option nat) (s : st) :=
  forall i j ti tj, nth_error (tasks s) i = Some ti -> nth_error (tasks s) j = Some tj ->
                    dom4 o i ti -> dom4 o j tj -> isdepx ti -> isdepx tj -> i = j.

Record INV4 (o : option nat) (s : st) : Prop := {
  v_K : K s; v_A2 : V_A2 s; v_L : lz_ok reqs (log s) = true; v_T : V_T o s; v_U : V_U o s
}.

Lemma wake_dep4 : forall e t, isdepx (wake e t) -> isdepx t.
Proof. intros e t. unfold wake. destruct (tw t); auto. destruct (_ =? _); auto. Qed.

(* master lemma (same shape as INV3_mk) *)
Lemma INV4_mk : forall s s' tid t t1 (g : task -> task),
  INV4 (Some tid) s -> nth_error (tasks s) tid = Some t ->
  K s' -> V_A2 s' -> lz_ok reqs (log s') = true ->
  (forall j x, j <> tid -> nth_error (tasks s) j = Some x -> tw x <> WRun -> task_ok4 s' j (g x)) ->
  nth_error (tasks s') tid = Some t1 ->
  (forall j, j <> tid -> nth_error (tasks s') j = option_map g (nth_error (tasks s) j)) ->
  (forall x, tw (g x) <> WRun -> tw x <> WRun) ->
  (forall x, isdepx (g x) -> isdepx x) ->
  task_ok4 s' tid t1 ->
  (isdepx t1 -> isdepx t \/ forall j x, j <> tid -> nth_error (tasks s) j = Some x -> tw x <> WRun -> ~ isdepx x) ->
  INV4 (Some tid) s'.
Proof.
  intros s s' tid t t1 g I Ht k a2 l Ho Ht1 Hn Hgw Hgd Hok Hu.
  constructor; auto.
  - intros j t' Hj Hc. destruct (Nat.eq_dec j tid) as [->|Hne].
    + rewrite Ht1 in Hj. inversion Hj; subst; auto.
    + rewrite (Hn j Hne) in Hj. destruct (nth_error (tasks s) j) as [x|] eqn:E; [|discriminate].
      simpl in Hj. inversion Hj; subst. destruct Hc as [Hc|Hc]; [|inversion Hc; congruence].
      apply (Ho j x Hne E). apply Hgw; auto.
  - assert (Hold : forall j x, j <> tid -> nth_error (tasks s') j = Some x -> dom4 (Some tid) j x -> isdepx x ->
                   exists y, nth_error (tasks s) j = Some y /\ tw y <> WRun /\ isdepx y).
    { intros j x Hne Hj Hd Hi. rewrite (Hn j Hne) in Hj.
      destruct (nth_error (tasks s) j) as [y|] eqn:E; [|discriminate]. simpl in Hj. inversion Hj; subst.
      exists y. split; auto. split. destruct Hd as [Hd|Hd]; [apply Hgw; auto|inversion Hd; congruence].
      apply Hgd; auto. }
    intros i j ti tj Hi Hj Di Dj Pi Pj.
    destruct (Nat.eq_dec i tid) as [->|Ni]; destruct (Nat.eq_dec j tid) as [->|Nj]; auto.
    + rewrite Ht1 in Hi. inversion Hi; subst ti.
      destruct (Hold j tj Nj Hj Dj Pj) as [y [Ey [Wy Py]]].
      destruct (Hu Pi) as [Pt|Pn].
      * symmetry. apply (v_U _ _ I j tid y t Ey Ht); auto. left; auto. right; auto.
      * exfalso. apply (Pn j y Nj Ey Wy Py).
    + rewrite Ht1 in Hj. inversion Hj; subst tj.
      destruct (Hold i ti Ni Hi Di Pi) as [y [Ey [Wy Py]]].
      destruct (Hu Pj) as [Pt|Pn].
      * apply (v_U _ _ I i tid y t Ey Ht); auto. left; auto. right; auto.
      * exfalso. apply (Pn i y Ni Ey Wy Py).
    + destruct (Hold i ti Ni Hi Di Pi) as [y [Ey [Wy Py]]].
      destruct (Hold j tj Nj Hj Dj Pj) as [z [Ez [Wz Pz]]].
      apply (v_U _ _ I i j y z Ey Ez); auto; left; auto.
Qed.

(* ---------------------------------------------------------------- transfer lemmas *)
Ltac unf4 := unfold K, P1, P2, NoFut, HasFut, Ph0, Ph1, Ph2, Ph3, EmOk, V_A2, conns, noDE, ev_isset in *.

Lemma tok4_eq : forall s s' j t,
  cm s' = cm s -> em s' = em s -> dm s' = dm s -> futs s' = futs s -> evs s' = evs s -> log s' = log s ->
  task_ok4 s j t -> task_ok4 s' j t.
Proof.
  intros s s' j t Hc He Hd Hf Hv Hl [A [B [J [Bk C]]]]. split; [|split; [|split; [|split]]]; auto.
  - unfold Bl, ev_isset in *. rewrite Hv. auto.
  - destruct C as [H H0|H H0|H H0 Hr Hg|H H0|H H0|H H0|H H0 Hr Hg Hm He'|H H0 Hr Hg Hm He'|H H0|H H0
                  |c k fl H H0 Hu Hg|H H0 Hu Hg];
      [apply Y_e|apply Y_retD|apply Y_retX|apply Y_FD|apply Y_Else|apply Y_Wait|apply Y_FI|apply Y_After|apply Y_Top
      |apply Y_Use|eapply Y_UDep|apply Y_UWait]; eauto; unf4; rewrite ?Hc, ?He, ?Hd, ?Hf, ?Hv, ?Hl; auto.
Qed.

(* tasks that do not run: they only depend on P1 (a suspended inner deployer), on the existence of the
   FutureConnector and on the events they are blocked on *)
Lemma other4 : forall s s' j x (g : task -> task),
  tw x <> WRun -> task_ok4 s j x ->
  (isdepx x -> forall c, P1 s c -> P1 s' c) -> ((exists y, HasFut s y) -> exists y, HasFut s' y) ->
  (g x = x \/ exists e0, g x = wake e0 x) ->
  (forall e, tw (g x) = WEvent e -> ev_isset s e = false -> ev_isset s' e = false) ->
  task_ok4 s' j (g x).
Proof.
  intros s s' j x g Hn [A [B [J [Bk C]]]] Hp Hh Hg Hb.
  assert (Hsh : shape4 s' x).
  { destruct C as [H H0|H H0|H H0 Hr Hg'|H H0|H H0|H H0|H H0 Hr Hg' Hm He'|H H0 Hr Hg' Hm He'|H H0|H H0
                  |c k fl H H0 Hu Hg'|H H0 Hu Hg']; try contradiction;
      [apply Y_e|apply Y_retD|apply Y_FD|apply Y_Else|apply Y_Wait|apply Y_Top|apply Y_Use|eapply Y_UDep|apply Y_UWait];
      eauto. apply Hp; auto. exists c, k, fl. exact H. }
  destruct Hg as [Hg|[e0 Hg]]; rewrite Hg in *.
  - split; [|split; [|split; [|split]]]; auto. intros e He. apply Hb; auto.
  - unfold wake in *. destruct (tw x) eqn:E; try (split; [|split; [|split; [|split]]]; auto;
      intros e He; apply Hb; auto; fail).
    destruct (e =? e0) eqn:E0.
    + split; [|split; [|split; [|split]]]; auto.
      * intros e1 He1. simpl in He1. discriminate.
      * destruct Hsh as [H H0|H H0|H H0 Hr Hg'|H H0|H H0|H H0|H H0 Hr Hg' Hm He'|H H0 Hr Hg' Hm He'|H H0|H H0
                        |c k fl H H0 Hu Hg'|H H0 Hu Hg']; try congruence;
          [apply Y_e|apply Y_retD|apply Y_FD|apply Y_Else|apply Y_Wait|apply Y_Top|apply Y_Use|eapply Y_UDep|apply Y_UWait];
          eauto.
    + split; [|split; [|split; [|split]]]; auto. intros e1 He1. apply Hb; auto.
Qed.

Lemma noDE_has : forall s, noDE s -> has is_DEf (log s) = false.
Proof.
  unfold noDE, has. intros s H. induction (log s) as [|x l IH]; simpl; auto.
  destruct x; simpl; try (apply IH; intros c0 b0 X; apply (H c0 b0); right; auto).
  destruct ok; simpl. apply IH; intros c0 b0 X; apply (H c0 b0); right; auto.
  exfalso. apply (H c false). left; auto.
Qed.

Definition plain4 (x : ev) : bool := match x with DS _ _ | DE _ _ => false | _ => true end.

Lemma K_log : forall s s' x, cm s' = cm s -> em s' = em s -> dm s' = dm s -> futs s' = futs s -> evs s' = evs s ->
  log s' = x :: log s -> plain4 x = true -> K s -> K s'.
Proof.
  intros s s' x Hc He Hd Hf Hv Hl Hx Hk.
  assert (Hcn : conns_of 0 (log s') = conns_of 0 (log s)) by (rewrite Hl; destruct x; simpl in *; auto; discriminate).
  assert (Hnd : noDE s -> noDE s').
  { unfold noDE. rewrite Hl. intros H c b [X|X]; [subst; discriminate|apply (H c b X)]. }
  assert (Hin : forall c b, In (DE c b) (log s) -> In (DE c b) (log s')) by (intros; rewrite Hl; right; auto).
  assert (Hhs : has is_DEf (log s') = has is_DEf (log s)) by (rewrite Hl; destruct x; simpl in *; auto; discriminate).
  unf4. rewrite Hd, Hf, Hv, Hcn, Hhs.
  destruct Hk as [[k1 [k2 [k3 k4]]]|[y [Hh Hph]]]; [left; auto|right].
  exists y. split; auto.
  destruct Hph as [[p1 [p2 [p3 [p4 p5]]]]|[c [[p1 [p2 [p3 [p4 p5]]]]|[[p1 [p2 [p3 [p4 [p5 p6]]]]]|[p1 [p2 [p3 [p4 p5]]]]]]]].
  - left; auto 10.
  - right. exists c. left. auto 10.
  - right. exists c. right. left. auto 10.
  - right. exists c. right. right. auto 10.
Qed.

Definition FT (s s' : st) :=
  (NoFut s -> NoFut s') /\ (forall c, P1 s c -> P1 s' c) /\ (P2 s -> P2 s') /\
  ((exists x, HasFut s x) -> exists x, HasFut s' x) /\ (EmOk s -> EmOk s') /\
  (mem 0 (cm s) = true -> mem 0 (cm s') = true) /\ (forall e, ev_isset s e = false -> ev_isset s' e = false).

Lemma tok4_ft : forall s s' j t, FT s s' -> task_ok4 s j t -> task_ok4 s' j t.
Proof.
  intros s s' j t [F1 [F2 [F3 [F4 [F5 [F6 F7]]]]]] [A [B [J [Bk C]]]]. split; [|split; [|split; [|split]]]; auto.
  - intros e He. apply F7. apply Bk; auto.
  - destruct C as [H H0|H H0|H H0 Hr Hg|H H0|H H0|H H0|H H0 Hr Hg Hm He'|H H0 Hr Hg Hm He'|H H0|H H0
                  |c k fl H H0 Hu Hg|H H0 Hu Hg];
      [apply Y_e|apply Y_retD|apply Y_retX|apply Y_FD|apply Y_Else|apply Y_Wait|apply Y_FI|apply Y_After|apply Y_Top
      |apply Y_Use|eapply Y_UDep|apply Y_UWait]; eauto.
    destruct Hg as [[G1 G2]|[G1 G2]]; [left|right]; auto.
Qed.

Lemma FT_log : forall s s' x, cm s' = cm s -> em s' = em s -> dm s' = dm s -> futs s' = futs s -> evs s' = evs s ->
  log s' = x :: log s -> plain4 x = true -> FT s s'.
Proof.
  intros s s' x Hc He Hd Hf Hv Hl Hx.
  assert (Hcn : conns_of 0 (log s') = conns_of 0 (log s)) by (rewrite Hl; destruct x; simpl in *; auto; discriminate).
  assert (Hnd : noDE s -> noDE s').
  { unfold noDE. rewrite Hl. intros H c b [X|X]; [subst; discriminate|apply (H c b X)]. }
  assert (Hhs : has is_DEf (log s') = has is_DEf (log s)) by (rewrite Hl; destruct x; simpl in *; auto; discriminate).
  unfold FT. unf4. rewrite Hc, He, Hd, Hf, Hv, Hcn, Hhs, Hl.
  repeat split; auto.
  - destruct H as [k1 [k2 [k3 k4]]]; auto.
  - destruct H as [k1 [k2 [k3 k4]]]; auto.
  - destruct H as [k1 [k2 [k3 k4]]]; auto.
  - destruct H as [k1 [k2 [k3 k4]]]. intros c b. rewrite <- Hl. apply Hnd. exact k4.
  - intros c [y [Hh [p1 [p2 [p3 [p4 p5]]]]]]. exists y. repeat split; auto; try tauto.
    intros c0 b. rewrite <- Hl. apply Hnd. exact p4.
  - intros [y [c [Hh [p1 [p2 [p3 [p4 [p5 p6]]]]]]]]. exists y, c. repeat split; auto; try tauto. right; auto.
Qed.

Lemma FT_eq : forall s s', cm s' = cm s -> em s' = em s -> dm s' = dm s -> futs s' = futs s -> evs s' = evs s ->
  log s' = log s -> FT s s'.
Proof.
  intros s s' Hc He Hd Hf Hv Hl. unfold FT. unf4. rewrite Hc, He, Hd, Hf, Hv, Hl. repeat split; auto; tauto.
Qed.

Lemma INV4_same : forall o s s', cm s' = cm s -> em s' = em s -> dm s' = dm s -> futs s' = futs s ->
  evs s' = evs s -> log s' = log s -> tasks s' = tasks s -> INV4 o s -> INV4 o s'.
Proof.
  intros o s s' Hc He Hd Hf Hv Hl Ht I. pose proof (FT_eq s s' Hc He Hd Hf Hv Hl) as F.
  destruct I as [k a2 l tt uu]. constructor.
  - unf4. rewrite Hd, Hf, Hv, Hl. exact k.
  - unf4. rewrite Hd, Hc. exact a2.
  - rewrite Hl. exact l.
  - unfold V_T in *. rewrite Ht. intros j t Hj Hdm. eapply tok4_ft; eauto.
  - unfold V_U in *. rewrite Ht. exact uu.
Qed.

Lemma INV4_log : forall o s s' x, cm s' = cm s -> em s' = em s -> dm s' = dm s -> futs s' = futs s ->
  evs s' = evs s -> log s' = x :: log s -> tasks s' = tasks s -> plain4 x = true ->
  lz_step reqs x (log s) = true -> INV4 o s -> INV4 o s'.
Proof.
  intros o s s' x Hc He Hd Hf Hv Hl Ht Hx Hs I. pose proof (FT_log s s' x Hc He Hd Hf Hv Hl Hx) as F.
  destruct I as [k a2 l tt uu]. constructor.
  - eapply K_log; eauto.
  - unf4. rewrite Hd, Hc. exact a2.
  - rewrite Hl. simpl. rewrite Hs, l. reflexivity.
  - unfold V_T in *. rewrite Ht. intros j t Hj Hdm. eapply tok4_ft; eauto.
  - unfold V_U in *. rewrite Ht. exact uu.
Qed.

Lemma INV4_upd : forall s tid t f,
  INV4 (Some tid) s -> nth_error (tasks s) tid = Some t -> task_ok4 s tid (f t) -> (isdepx (f t) -> isdepx t) ->
  INV4 (Some tid) (upd_task s tid f).
Proof.
  intros s tid t f I Ht Hok Hdp.
  assert (F : FT s (upd_task s tid f)) by (apply FT_eq; reflexivity).
  apply INV4_mk with (s := s) (t := t) (t1 := f t) (g := fun y => y); auto.
  - exact (v_K _ _ I).
  - exact (v_A2 _ _ I).
  - exact (v_L _ _ I).
  - intros j x Hne Hj Hn. eapply tok4_ft; eauto. apply (v_T _ _ I j x Hj). left; auto.
  - simpl. rewrite nth_error_nth_upd, Nat.eqb_refl, Ht. reflexivity.
  - intros j Hne. simpl. rewrite nth_error_nth_upd. destruct (tid =? j) eqn:E.
    apply Nat.eqb_eq in E. congruence. now rewrite opt_id.
  - eapply tok4_ft; eauto.
Qed.

Lemma INV4_finish : forall s tid t r,
  INV4 (Some tid) s -> nth_error (tasks s) tid = Some t -> parent t = None -> INV4 (Some tid) (finish s tid r).
Proof.
  intros s tid t r I Ht B. rewrite (finish_eq3 s tid t r Ht B).
  eapply INV4_upd; eauto.
  - split; [|split; [|split; [|split]]]; simpl; auto. unfold Jc4. simpl. auto.
    intros e He. simpl in He. discriminate. apply Y_e; simpl; auto.
  - intros [c [k [fl H]]]. simpl in H. discriminate.
Qed.

(* raise only needs the running task to be a request task with a parent-less record *)
Lemma INV4_raise : forall s tid t e,
  INV4 (Some tid) s -> nth_error (tasks s) tid = Some t -> parent t = None -> INV4 (Some tid) (raise s tid e).
Proof.
  intros s tid t e I Ht B. unfold raise. rewrite Ht. destruct (cur t) as [o|].
  - eapply INV4_finish with (t := t); auto.
    apply INV4_log with (s := s) (x := Ret tid (opi t) (Some e) (info_of s t o)); auto.
  - eapply INV4_finish; eauto.
Qed.

(* ---------------------------------------------------------------- the cases of [micro] *)
Lemma cfg04 : cfg deps 0 = d. Proof. reflexivity. Qed.

Lemma is_use_J : forall j i o, nth_error (opsof4 j) i = Some o -> is_use reqs j i = true -> exists n, o = OUse n.
Proof.
  unfold is_use, opsof4. intros j i o H Hd. destruct (nth_error reqs j) as [ops|] eqn:E; [|discriminate].
  rewrite (nth_error_nth reqs j [] E) in H. rewrite H in Hd. destruct o; try discriminate. eauto.
Qed.

Lemma K_nofut : forall s, K s -> alookup 0 (dm s) = None -> NoFut s.
Proof. intros s [H|[x [[H _] _]]] Hd; auto. congruence. Qed.
Lemma K_hasfut : forall s v, K s -> alookup 0 (dm s) = Some v ->
  v = Fut 0 /\ exists x, HasFut s x /\ (Ph0 s x \/ exists c, Ph1 s x c \/ Ph2 s x c \/ Ph3 s x c).
Proof.
  intros s v [[H _]|[x [Hh Hp]]] Hd; [congruence|]. split; [|eauto]. destruct Hh as [H _]. congruence.
Qed.

Lemma dep_shape4 : forall s j x, task_ok4 s j x -> isdepx x -> exists c, P1 s c.
Proof.
  intros s j x [A [B [J [Bk C]]]] [c [k [fl H]]].
  destruct C as [H1 H0|H1 H0|H1 H0 Hr Hg|H1 H0|H1 H0|H1 H0|H1 H0 Hr Hg Hm He'|H1 H0 Hr Hg Hm He'|H1 H0|H1 H0
                |c' k' fl' H1 H0 Hu Hg|H1 H0 Hu Hg]; unfold TT in *; try congruence. eauto.
Qed.

Ltac tab4_tid Ht := simpl; rewrite ?nth_error_nth_upd, ?Nat.eqb_refl, ?Ht; reflexivity.
Ltac tab4_other := intros j Hne; simpl; rewrite ?nth_error_nth_upd;
  destruct (_ =? j) eqn:E; [apply Nat.eqb_eq in E; congruence | now rewrite ?opt_id].
Ltac nodep4 Hst := let c0 := fresh in let k0 := fresh in let f0 := fresh in let H := fresh in
  intros [c0 [k0 [f0 H]]]; simpl in H; rewrite ?Hst in H; simpl in H; discriminate.

Lemma case4_next : forall s tid t,
  INV4 (Some tid) s -> nth_error (tasks s) tid = Some t -> tw t = WRun -> stack t = [] ->
  INV4 (Some tid) (next_op s tid t).
Proof.
  intros s tid t I Ht Hw Hs. pose proof (v_T _ _ I tid t Ht (or_intror eq_refl)) as Hok.
  pose proof Hok as [A [B [J [Bk C]]]]. unfold next_op.
  set (s1 := match cur t with
             | Some o => add_log s (Ret tid (opi t) None (info_of s t o)) | None => s end).
  assert (I1 : INV4 (Some tid) s1 /\ tasks s1 = tasks s).
  { subst s1. destruct (cur t) as [o|] eqn:Ec; [|auto]. unfold Jc4 in J. rewrite Ec in J. destruct J as [J1 J2].
    split; [|reflexivity].
    apply INV4_log with (s := s) (x := Ret tid (opi t) None (info_of s t o)); auto.
    destruct C as [H H0|H H0|H H0 Hr Hg|H H0|H H0|H H0|H H0 Hr Hg Hm He'|H H0 Hr Hg Hm He'|H H0|H H0
                  |c k fl H H0 Hu Hg|H H0 Hu Hg]; try congruence.
    - unfold isD4 in H0. rewrite Ec in H0. inversion H0; subst o. unfold lz_step.
      destruct (is_use reqs tid (opi t)) eqn:Eu; auto. destruct (is_use_J _ _ _ J1 Eu). discriminate.
    - unfold isX4 in H0. rewrite Ec in H0. inversion H0; subst o. unfold lz_step.
      destruct (is_use reqs tid (opi t)); auto. simpl.
      destruct Hg as [[G1 G2]|[G1 [x [c [[h1 [h2 [h3 h4]]] [p1 [p2 [p3 [p4 [p5 p6]]]]]]]]]]; rewrite G1; simpl.
      + destruct G2 as [_ [_ [_ G4]]]. rewrite (noDE_has s G4). reflexivity.
      + rewrite h2. simpl. rewrite p2. rewrite (has_DE_In c (log s) p4), p5. reflexivity. }
  destruct I1 as [I1 Htk].
  assert (Ht1 : nth_error (tasks s1) tid = Some t) by (rewrite Htk; exact Ht).
  destruct (todo t) as [|o rest] eqn:Et.
  - eapply INV4_finish; eauto.
  - eapply INV4_upd; eauto.
    + inversion A; subst.
      assert (HJ : nth_error (opsof4 tid) (match cur t with Some _ => S (opi t) | None => opi t end) = Some o /\
                   rest = skipn (S (match cur t with Some _ => S (opi t) | None => opi t end)) (opsof4 tid)).
      { unfold Jc4 in J. destruct (cur t).
        - destruct J as [_ J2]. rewrite Et in J2. symmetry in J2. destruct (skipn_cons_nth _ _ _ _ _ J2). auto.
        - destruct J as [J|[J1 J2]]; [congruence|]. rewrite J1. rewrite Et in J2. symmetry in J2.
          change (opsof4 tid) with (skipn 0 (opsof4 tid)) in J2. destruct (skipn_cons_nth _ _ _ _ _ J2). auto. }
      destruct HJ as [HJ1 HJ2].
      split; [|split; [|split; [|split]]]; simpl; auto.
      * unfold Jc4. simpl. auto.
      * intros e He. simpl in He. congruence.
      * destruct H1 as [->| ->]; simpl; [apply Y_FD|apply Y_Use]; simpl; reflexivity.
    + inversion A; subst. intros [c [k [fl H]]]. simpl in H. destruct H1 as [->| ->]; simpl in H; discriminate.
Qed.

Lemma case4_claim : forall s tid t,
  INV4 (Some tid) s -> nth_error (tasks s) tid = Some t -> tw t = WRun ->
  stack t = [FD 0; TT] -> mem 0 (cm s) = false ->
  let e := length (evs s) in
  let sid := length (sets s) in
  let s1 := set_cm s (cm s ++ [0]) in
  let s2 := set_em (set_evs s1 (evs s1 ++ [false])) (aset 0 e (em s1)) in
  let s3 := set_dg (set_sets s2 (sets s2 ++ [[]])) (aset 0 sid (dg s2)) in
  INV4 (Some tid) (push (top_set s3 tid (FDAfterInner 0)) tid (FI 0 false)).
Proof.
  intros s tid t I Ht Hw Hs Hm. cbv zeta.
  pose proof (v_T _ _ I tid t Ht (or_intror eq_refl)) as [A [B [J [Bk C]]]].
  assert (Hcur : isD4 (cur t)).
  { destruct C as [H H0|H H0|H H0 Hr Hg|H H0|H H0|H H0|H H0 Hr Hg Hm' He'|H H0 Hr Hg Hm' He'|H H0|H H0
                  |c k fl H H0 Hu Hg|H H0 Hu Hg]; try congruence; rewrite Hs in H; discriminate. }
  assert (Hdm : alookup 0 (dm s) = None).
  { destruct (alookup 0 (dm s)) eqn:E; auto. rewrite (v_A2 _ _ I) in Hm; congruence. }
  pose proof (K_nofut s (v_K _ _ I) Hdm) as [N1 [N2 [N3 N4]]].
  eapply INV4_mk with (s := s) (t := t) (g := fun y => y)
    (t1 := set_stack (set_stack t (FDAfterInner 0 :: tl (stack t)))
                     (FI 0 false :: stack (set_stack t (FDAfterInner 0 :: tl (stack t))))); auto.
  - left. unf4. simpl. auto.
  - unf4. simpl. intros _. apply mem_app_self.
  - exact (v_L _ _ I).
  - intros j x Hne Hj Hn. apply (other4 s _ j x (fun y => y) Hn (v_T _ _ I j x Hj (or_introl Hn))); auto.
    + intros _ c [y [[h1 _] _]]. congruence.
    + intros [y [h1 _]]. congruence.
    + intros e0 _ H0. unfold ev_isset in *. simpl. apply nth_app_keep_false; auto.
  - tab4_tid Ht.
  - tab4_other.
  - split; [|split; [|split; [|split]]]; simpl; auto.
    + intros e He. simpl in He. congruence.
    + rewrite Hs. simpl. apply Y_FI; simpl; auto.
      * unf4. simpl. auto.
      * apply mem_app_self.
      * unf4. simpl. exists (length (evs s)). rewrite alookup_aset_same. split; auto. rewrite app_length. simpl. lia.
  - nodep4 Hs.
Qed.

Lemma wake_neq : forall e x e1, tw (wake e x) = WEvent e1 -> e1 <> e.
Proof.
  intros e x e1. unfold wake. destruct (tw x) eqn:E; try congruence.
  destruct (e0 =? e) eqn:E0; simpl; try congruence. intros H. rewrite E in H. inversion H; subst.
  apply Nat.eqb_neq; auto.
Qed.

(* what ev_set does, in the form the case lemmas need *)
Lemma evset_facts : forall S ev tid t (F : task -> task),
  nth_error (tasks S) tid = Some t -> tw t = WRun ->
  dm (ev_set S ev) = dm S /\ futs (ev_set S ev) = futs S /\ cm (ev_set S ev) = cm S /\ em (ev_set S ev) = em S /\
  log (ev_set S ev) = log S /\ length (evs (ev_set S ev)) = length (evs S) /\
  (ev < length (evs S) -> ev_isset (ev_set S ev) ev = true) /\
  (forall e1, e1 <> ev -> ev_isset (ev_set S ev) e1 = ev_isset S e1) /\
  exists g, ((g = fun y => y) /\ ev_isset S ev = true \/ g = wake ev) /\
    nth_error (tasks (upd_task (ev_set S ev) tid F)) tid = Some (F t) /\
    forall j, j <> tid -> nth_error (tasks (upd_task (ev_set S ev) tid F)) j = option_map g (nth_error (tasks S) j).
Proof.
  intros S ev tid t F Ht Hw. unfold ev_set. destruct (ev_isset S ev) eqn:E.
  - repeat split; auto. exists (fun y => y). split; [left; auto|]. split.
    + simpl. rewrite nth_error_nth_upd, Nat.eqb_refl, Ht. reflexivity.
    + intros j Hne. simpl. rewrite nth_error_nth_upd. destruct (tid =? j) eqn:E'.
      apply Nat.eqb_eq in E'; congruence. now rewrite opt_id.
  - repeat split; auto.
    + simpl. apply nth_upd_length.
    + intros Hlt. unfold ev_isset. simpl. apply nth_nth_upd_same; auto.
    + intros e1 Hne. unfold ev_isset. simpl. apply nth_nth_upd_other; auto.
    + exists (wake ev). split; [right; auto|]. split.
      * simpl. rewrite nth_error_nth_upd, Nat.eqb_refl, nth_error_map, Ht. simpl. now rewrite (wake_run ev t Hw).
      * intros j Hne. simpl. rewrite nth_error_nth_upd. destruct (tid =? j) eqn:E'.
        apply Nat.eqb_eq in E'; congruence. apply nth_error_map.
Qed.

Lemma g_cases : forall (g : task -> task) ev S, ((g = fun y => y) /\ ev_isset S ev = true \/ g = wake ev) ->
  (forall x, g x = x \/ exists e0, g x = wake e0 x) /\ (forall x, tw (g x) <> WRun -> tw x <> WRun) /\
  (forall x, isdepx (g x) -> isdepx x).
Proof.
  intros g ev S [[-> _]| ->]; repeat split; auto; intros x.
  - right. eauto.
  - apply wake_tw.
  - apply wake_dep4.
Qed.

(* the FutureConnector is created and registered; the manager-level event is set *)
Lemma case4_create : forall s tid t e,
  INV4 (Some tid) s -> nth_error (tasks s) tid = Some t -> tw t = WRun ->
  stack t = [FDAfterInner 0; TT] -> alookup 0 (em s) = Some e ->
  let f := length (futs s) in
  let e' := length (evs s) in
  let s1 := set_futs (set_evs s (evs s ++ [false])) (futs s ++ [mkF 0 false e' None]) in
  let s2 := set_dm s1 (aset 0 (Fut f) (dm s1)) in
  INV4 (Some tid) (top_set (ev_set s2 e) tid (FD 0)).
Proof.
  intros s tid t e I Ht Hw Hs He. cbv zeta.
  pose proof (v_T _ _ I tid t Ht (or_intror eq_refl)) as [A [B [J [Bk C]]]].
  assert (Hf : isD4 (cur t) /\ NoFut s /\ mem 0 (cm s) = true /\ EmOk s).
  { destruct C as [H H0|H H0|H H0 Hr Hg|H H0|H H0|H H0|H H0 Hr Hg Hm' He'|H H0 Hr Hg Hm' He'|H H0|H H0
                  |c k fl H H0 Hu Hg|H H0 Hu Hg]; unfold TT in *; try (rewrite Hs in H; discriminate). auto. }
  destruct Hf as [Hcur [[N1 [N2 [N3 N4]]] [Hcm [e0 [He0 Hlt]]]]]. rewrite He in He0. inversion He0; subst e0.
  match goal with |- INV4 _ (top_set (ev_set ?S2 _) _ _) => set (SS := S2) end.
  assert (HtS : nth_error (tasks SS) tid = Some t) by exact Ht.
  destruct (evset_facts SS e tid t (fun t0 => set_stack t0 (FD 0 :: tl (stack t0))) HtS Hw)
    as [Ed [Ef [Ec [Ee [El [Elen [Eset [Eoth [g [Hg [Htid Hothers]]]]]]]]]]].
  destruct (g_cases g e SS Hg) as [G1 [G2 G3]].
  assert (HdS : alookup 0 (dm SS) = Some (Fut 0)).
  { subst SS. simpl. rewrite N2. simpl. apply alookup_aset_same. }
  assert (HfS : futs SS = [mkF 0 false (length (evs s)) None]) by (subst SS; simpl; rewrite N2; reflexivity).
  assert (HlS : length (evs SS) = S (length (evs s))) by (subst SS; simpl; rewrite app_length; simpl; lia).
  assert (HS : forall e1, ev_isset s e1 = false -> ev_isset SS e1 = false).
  { intros e1 H0. unfold ev_isset in *. subst SS. simpl. apply nth_app_keep_false; auto. }
  assert (Hkeep : forall x e1, tw (g x) = WEvent e1 -> ev_isset s e1 = false -> ev_isset (ev_set SS e) e1 = false).
  { intros x e1 Hx H0. destruct Hg as [[-> Hs']| ->].
    - destruct (Nat.eq_dec e1 e) as [->|Hne].
      + exfalso. unfold ev_isset in Hs', H0. subst SS. simpl in Hs'. rewrite app_nth1 in Hs'; auto. congruence.
      + rewrite (Eoth e1 Hne). auto.
    - pose proof (wake_neq e x e1 Hx) as Hne. rewrite (Eoth e1 Hne). auto. }
  assert (Hph : ev_isset (ev_set SS e) (length (evs s)) = false).
  { rewrite Eoth by lia. unfold ev_isset. subst SS. simpl. apply nth_app_end. }
  assert (Hx0 : HasFut (top_set (ev_set SS e) tid (FD 0)) (mkF 0 false (length (evs s)) None)).
  { unf4. simpl. rewrite Ed, Ef, Elen, HdS, HfS, HlS. repeat split; auto. }
  eapply INV4_mk with (s := s) (t := t) (g := g) (t1 := set_stack t (FD 0 :: tl (stack t))); auto.
  - right. exists (mkF 0 false (length (evs s)) None). split; [exact Hx0|]. left.
    unfold Ph0, conns, noDE. simpl. rewrite El.
    split; [reflexivity|split; [reflexivity|split; [exact N3|split; [exact N4|exact Hph]]]].
  - unf4. simpl. rewrite Ec. subst SS. simpl. auto.
  - simpl. rewrite El. subst SS. simpl. exact (v_L _ _ I).
  - intros j x Hne Hj Hn. apply (other4 s _ j x g Hn (v_T _ _ I j x Hj (or_introl Hn))); auto.
    + intros _ c [y [[h1 _] _]]. congruence.
    + intros [y [h1 _]]. congruence.
    + intros e1 Hx H0. apply (Hkeep x e1 Hx H0).
  - split; [|split; [|split; [|split]]]; simpl; auto.
    + intros e1 He1. simpl in He1. congruence.
    + rewrite Hs. simpl. apply Y_FD; simpl; auto.
  - nodep4 Hs.
Qed.


Lemma raise_eq : forall s tid t e o, nth_error (tasks s) tid = Some t -> parent t = None -> cur t = Some o ->
  raise s tid e = upd_task (add_log s (Ret tid (opi t) (Some e) (info_of s t o))) tid
                           (fun t => mkT [] [] (opi t) None (parent t) WDone (gerr t) (ucon t)).
Proof.
  intros s tid t e o Ht Hp Hc. unfold raise. rewrite Ht, Hc.
  apply (finish_eq3 (add_log s (Ret tid (opi t) (Some e) (info_of s t o))) tid t (Some e)); auto.
Qed.

(* the inner deploy() returned (ok = true) or raised (ok = false): deploy_event is set, waiters are woken *)
Lemma case4_udep_end : forall s tid t c ok,
  INV4 (Some tid) s -> nth_error (tasks s) tid = Some t -> tw t = WRun ->
  stack t = [FUseDeploying 0 c 0 (negb ok)] ->
  forall x, futs s = [x] ->
  let s1 := add_log s (DE c ok) in
  let s2 := set_futs s1 (nth_upd 0 (fun y => mkF (f_name y) (f_deploying y) (f_event y) (if ok then Some c else None))
                                 (futs s1)) in
  INV4 (Some tid) (if ok then pop (ev_set s2 (f_event x)) tid else raise (ev_set s2 (f_event x)) tid EDep).
Proof.
  intros s tid t c ok I Ht Hw Hs x Hfx. cbv zeta.
  pose proof (v_T _ _ I tid t Ht (or_intror eq_refl)) as [A [B [J [Bk C]]]].
  assert (Hf : isX4 (cur t) /\ ucon t = Some (Fut 0) /\ P1 s c).
  { destruct C as [H H0|H H0|H H0 Hr Hg|H H0|H H0|H H0|H H0 Hr Hg Hm' He'|H H0 Hr Hg Hm' He'|H H0|H H0
                  |c' k fl H H0 Hu Hg|H H0 Hu Hg]; unfold TT in *; try (rewrite Hs in H; discriminate).
    rewrite Hs in H. inversion H; subst. auto. }
  destruct Hf as [Hcur [Huc [x' [[h1 [h2 [h3 h4]]] [p1 [p2 [p3 [p4 p5]]]]]]]].
  rewrite Hfx in h2. inversion h2; subst x'.
  match goal with |- INV4 _ (if ok then pop (ev_set ?S2 _) _ else _) => set (SS := S2) end.
  set (x2 := mkF (f_name x) (f_deploying x) (f_event x) (if ok then Some c else None)).
  assert (HfS : futs SS = [x2]) by (subst SS; simpl; rewrite Hfx; reflexivity).
  assert (HtS : nth_error (tasks SS) tid = Some t) by exact Ht.
  set (F := fun t0 : task => if ok then set_stack t0 (tl (stack t0))
                             else mkT [] [] (opi t0) None (parent t0) WDone (gerr t0) (ucon t0)).
  set (Sf := if ok then ev_set SS (f_event x)
             else add_log (ev_set SS (f_event x)) (Ret tid (opi t) (Some EDep) (info_of (ev_set SS (f_event x)) t (OUse 0)))).
  destruct (evset_facts SS (f_event x) tid t F HtS Hw)
    as [Ed [Ef [Ec [Ee [El [Elen [Eset [Eoth [g [Hg [Htid Hothers]]]]]]]]]]].
  destruct (g_cases g (f_event x) SS Hg) as [G1 [G2 G3]].
  assert (Hfin : (if ok then pop (ev_set SS (f_event x)) tid else raise (ev_set SS (f_event x)) tid EDep)
                 = upd_task Sf tid F).
  { subst Sf F. destruct ok; [reflexivity|].
    assert (Ht' : nth_error (tasks (ev_set SS (f_event x))) tid = Some t).
    { unfold ev_set. destruct (ev_isset SS (f_event x)); auto.
      change (nth_error (map (wake (f_event x)) (tasks SS)) tid = Some t).
      rewrite nth_error_map, HtS. simpl. now rewrite wake_run. }
    unfold isX4 in Hcur. apply (raise_eq _ tid t EDep (OUse 0) Ht' B Hcur). }
  rewrite Hfin.
  assert (HSf : dm Sf = dm s /\ futs Sf = [x2] /\ cm Sf = cm s /\ length (evs Sf) = length (evs s) /\
                evs Sf = evs (ev_set SS (f_event x)) /\ tasks Sf = tasks (ev_set SS (f_event x)) /\
                exists r, log Sf = r ++ DE c ok :: log s /\ Forall (fun y => plain4 y = true /\ forall older, lz_step reqs y older = true) r).
  { subst Sf. destruct ok; simpl; rewrite ?Ed, ?Ef, ?Ec, ?Elen, ?El; repeat split; auto.
    - exists []. split; auto.
    - exists [Ret tid (opi t) (Some EDep) (info_of (ev_set SS (f_event x)) t (OUse 0))]. split; auto. }
  destruct HSf as [SD [SF [SC [SL [SE [ST [r [SLg Hr]]]]]]]].
  assert (Hisset : ev_isset (upd_task Sf tid F) (f_event x) = true).
  { unfold ev_isset. simpl. rewrite SE. apply Eset. subst SS. simpl. exact h4. }
  assert (Hconn : conns_of 0 (log Sf) = [c]).
  { rewrite SLg. clear - Hr p3. unfold conns in p3. induction r as [|y r IH]; simpl; auto.
    inversion Hr; subst. destruct H1 as [Hp _]. destruct y; simpl in *; try discriminate; auto. }
  assert (HinDE : In (DE c ok) (log Sf)) by (rewrite SLg; apply in_or_app; right; left; auto).
  assert (Hdef : has is_DEf (log Sf) = negb ok).
  { rewrite SLg. clear - Hr p4. unfold has. rewrite existsb_app. simpl.
    assert (X : existsb is_DEf r = false).
    { induction r as [|y r IH]; simpl; auto. inversion Hr; subst. destruct H1 as [Hp _]. rewrite IH; auto.
      destruct y; simpl in *; try discriminate; auto. }
    rewrite X. simpl. fold (has is_DEf (log s)). rewrite (noDE_has s p4). destruct ok; reflexivity. }
  assert (Hlz : lz_ok reqs (log Sf) = true).
  { rewrite SLg. clear - Hr I. induction r as [|y r IH]; simpl.
    - exact (v_L _ _ I).
    - inversion Hr; subst. destruct H1 as [_ Hl]. rewrite Hl. simpl. apply IH; auto. }
  assert (Hx2 : HasFut (upd_task Sf tid F) x2).
  { unf4. simpl. rewrite SD, SF, SL. subst x2. simpl. repeat split; auto. }
  eapply INV4_mk with (s := s) (t := t) (g := g) (t1 := F t); auto.
  - right. exists x2. split; [exact Hx2|]. right. exists c. right.
    assert (Hlg' : log (upd_task Sf tid F) = log Sf) by reflexivity.
    destruct ok; first
      [ solve [left; unfold Ph2, conns; rewrite Hlg', Hconn, Hdef;
               split; [exact p1|split; [reflexivity|split; [reflexivity|split; [exact HinDE|split; [reflexivity|exact Hisset]]]]]]
      | solve [right; unfold Ph3, conns; rewrite Hlg', Hconn, Hdef;
               split; [exact p1|split; [reflexivity|split; [reflexivity|split; [reflexivity|exact Hisset]]]]] ].
  - unf4. simpl. rewrite SD, SC. exact (v_A2 _ _ I).
  - (* no other deployer; waiters keep their facts *)
    intros j y Hne Hj Hn. pose proof (v_T _ _ I j y Hj (or_introl Hn)) as Hoky.
    assert (Hnd : ~ isdepx y).
    { intro Hdp. apply Hne. apply (v_U _ _ I j tid y t Hj Ht); auto. left; auto. right; auto.
      exists c, 0, (negb ok). exact Hs. }
    apply (other4 s _ j y g Hn Hoky); auto.
    + intros Hd. contradiction.
    + intros _. exists x2. exact Hx2.
    + intros e1 Hy H0. unfold ev_isset. simpl. rewrite SE.
      destruct Hg as [[-> Hs']| ->].
      * destruct (Nat.eq_dec e1 (f_event x)) as [->|Hne1].
        -- exfalso. unfold ev_isset in Hs'. subst SS. simpl in Hs'. unfold ev_isset in p5. congruence.
        -- fold (ev_isset (ev_set SS (f_event x)) e1). rewrite (Eoth e1 Hne1). subst SS. exact H0.
      * pose proof (wake_neq _ _ _ Hy) as Hne1.
        fold (ev_isset (ev_set SS (f_event x)) e1). rewrite (Eoth e1 Hne1). subst SS. exact H0.
  - change (nth_error (nth_upd tid F (tasks Sf)) tid = Some (F t)). rewrite ST. exact Htid.
  - intros j Hne. change (nth_error (nth_upd tid F (tasks Sf)) j = option_map g (nth_error (tasks s) j)).
    rewrite ST. exact (Hothers j Hne).
  - assert (Hlg' : log (upd_task Sf tid F) = log Sf) by reflexivity.
    assert (HP2 : ok = true -> P2 (upd_task Sf tid F)).
    { intros ->. exists x2, c. split; [exact Hx2|]. unfold Ph2, conns. rewrite Hlg', Hconn, Hdef.
      split; [exact p1|split; [reflexivity|split; [reflexivity|split; [exact HinDE|split; [reflexivity|exact Hisset]]]]]. }
    destruct ok eqn:Eok.
    + subst F. split; [|split; [|split; [|split]]]; simpl; auto.
      * intros e1 He1. simpl in He1. congruence.
      * rewrite Hs. simpl. apply Y_retX; simpl; auto.
    + subst F. split; [|split; [|split; [|split]]]; simpl; auto.
      * unfold Jc4. simpl. auto.
      * intros e1 He1. simpl in He1. discriminate.
      * apply Y_e; simpl; auto.
  - subst F. destruct ok; intros [c0 [k0 [f0 H]]]; simpl in H; rewrite ?Hs in H; simpl in H; discriminate.
Qed.


(* the first use starts the inner deploy(): `deploying` := True, the connector is created, deploy() entered *)
Lemma case4_use_start : forall s tid t x fl,
  INV4 (Some tid) s -> nth_error (tasks s) tid = Some t -> tw t = WRun -> stack t = [FUse 0] ->
  HasFut s x -> Ph0 s x ->
  let s' := upd_task s tid (fun y => set_ucon y (alookup 0 (dm s))) in
  let c := nreal s' in
  let s1 := set_futs (set_nreal s' (S c)) (nth_upd 0 (fun y => mkF (f_name y) true (f_event y) (f_real y)) (futs s')) in
  INV4 (Some tid) (top_set (add_log s1 (DS (f_name x) c)) tid (FUseDeploying 0 c (dy (cfg deps (f_name x))) fl)).
Proof.
  intros s tid t x fl I Ht Hw Hs [h1 [h2 [h3 h4]]] [p1 [p2 [p3 [p4 p5]]]]. cbv zeta.
  pose proof (v_T _ _ I tid t Ht (or_intror eq_refl)) as [A [B [J [Bk C]]]].
  assert (Hcur : isX4 (cur t)).
  { destruct C as [H H0|H H0|H H0 Hr Hg|H H0|H H0|H H0|H H0 Hr Hg Hm' He'|H H0 Hr Hg Hm' He'|H H0|H H0
                  |c' k fl' H H0 Hu Hg|H H0 Hu Hg]; unfold TT in *; try (rewrite Hs in H; discriminate). auto. }
  set (x' := mkF (f_name x) true (f_event x) (f_real x)).
  assert (Hnone : forall c0, ~ P1 s c0).
  { intros c0 [y0 [[_ [hf _]] [q1 _]]]. rewrite h2 in hf. inversion hf; subst y0. congruence. }
  eapply INV4_mk with (s := s) (t := t) (g := fun y => y)
    (t1 := set_stack (set_ucon t (alookup 0 (dm s)))
             (FUseDeploying 0 (nreal s) (dy (cfg deps (f_name x))) fl :: tl (stack (set_ucon t (alookup 0 (dm s)))))); auto.
  - right. exists x'. split.
    + unf4. simpl. rewrite h2. simpl. repeat split; auto.
    + right. exists (nreal s). left. unfold Ph1, conns, noDE, ev_isset. simpl. rewrite h3. simpl.
      unfold conns in p3. rewrite p3. repeat split; auto;
      intros c0 b [X|X]; [discriminate|apply (p4 c0 b X)].
  - exact (v_A2 _ _ I).
  - simpl. exact (v_L _ _ I).
  - intros j y Hne Hj Hn. apply (other4 s _ j y (fun z => z) Hn (v_T _ _ I j y Hj (or_introl Hn))); auto.
    + intros _ c0 Hp. exfalso. apply (Hnone c0 Hp).
    + intros _. exists x'. unf4. simpl. rewrite h2. simpl. repeat split; auto.
  - tab4_tid Ht.
  - tab4_other.
  - split; [simpl; auto|split; [simpl; auto|split; [exact J|split; [intros e1 He1; simpl in He1; congruence|]]]].
    simpl. rewrite Hs. simpl. eapply Y_UDep; simpl; eauto.
      exists x'. split.
      * unf4. simpl. rewrite h2. simpl. repeat split; auto.
      * unfold Ph1, conns, noDE, ev_isset. simpl. rewrite h3. simpl. unfold conns in p3. rewrite p3.
        repeat split; auto; intros c0 b [X|X]; [discriminate|apply (p4 c0 b X)].
  - intros _. right. intros j y Hne Hj Hn Hdp.
    destruct (dep_shape4 s j y (v_T _ _ I j y Hj (or_introl Hn)) Hdp) as [c0 Hp]. apply (Hnone c0 Hp).
Qed.

Ltac tok4 J Hw Hst := split; [simpl; auto|split; [simpl; auto|split; [exact J
  |split; [let e1 := fresh in let H1 := fresh in intros e1 H1; simpl in H1; congruence|simpl; rewrite ?Hst; simpl]]]].

Lemma micro_inv4 : forall s tid,
  INV4 (Some tid) s -> running s tid = true -> INV4 (Some tid) (micro false deps tid s).
Proof.
  intros s tid I Hr. unfold running in Hr.
  destruct (nth_error (tasks s) tid) as [t|] eqn:Ht; [|discriminate].
  assert (Hw : tw t = WRun) by (destruct (tw t); congruence).
  pose proof (v_T _ _ I tid t Ht (or_intror eq_refl)) as Hok. pose proof Hok as [A [B [J [Bk C]]]].
  unfold micro. rewrite Ht.
  destruct C as [Hst Hc|Hst Hc|Hst Hc _ Hg|Hst Hc|Hst Hc|Hst Hc|Hst Hc _ Hg Hm He'|Hst Hc _ Hg Hm He'|Hst Hc|Hst Hc
                |c k fl Hst Hc Hu Hg|Hst Hc Hu Hg];
    rewrite Hst; unfold TT; cbv beta iota.
  - apply case4_next; auto.
  - apply case4_next; auto.
  - apply case4_next; auto.
  - (* FD *)
    destruct (mem 0 (cm s)) eqn:Em.
    + unfold top_set. eapply INV4_upd with (t := t); [exact I|exact Ht| |nodep4 Hst].
      tok4 J Hw Hst. apply Y_Else; simpl; auto.
    + rewrite cfg04, Dw. apply (case4_claim s tid t); auto.
  - (* FDElse *)
    destruct (alookup 0 (em s)) as [e|] eqn:Ee; [|eapply INV4_raise with (t := t); eauto].
    destruct (ev_isset s e) eqn:Es'.
    + unfold top_set. eapply INV4_upd with (t := t); [exact I|exact Ht| |nodep4 Hst].
      tok4 J Hw Hst. apply Y_Wait; simpl; auto.
    + unfold suspend. eapply INV4_upd with (t := t); [exact I|exact Ht| |nodep4 Hst].
      split; [simpl; auto|split; [simpl; auto|split; [exact J|split]]].
      * intros e1 H1. simpl in H1. inversion H1; subst. exact Es'.
      * simpl. apply Y_Else; simpl; auto.
  - (* FDWait *)
    destruct (alookup 0 (dm s)) as [x|] eqn:Ed; [|eapply INV4_raise with (t := t); eauto].
    destruct (mem 0 (cm s)).
    + unfold pop. eapply INV4_upd with (t := t); [exact I|exact Ht| |nodep4 Hst].
      tok4 J Hw Hst. apply Y_Top; simpl; auto.
    + unfold top_set. eapply INV4_upd with (t := t); [exact I|exact Ht| |nodep4 Hst].
      tok4 J Hw Hst. apply Y_FD; simpl; auto.
  - (* FI *)
    unfold pop. eapply INV4_upd with (t := t); [exact I|exact Ht| |nodep4 Hst].
    tok4 J Hw Hst. apply Y_After; simpl; auto.
  - (* FDAfterInner, lazy *)
    rewrite cfg04, Dl. cbv beta iota zeta.
    destruct He' as [e [He Hlt]].
    match goal with |- context [alookup 0 (em ?S2)] => change (alookup 0 (em S2)) with (alookup 0 (em s)) end.
    rewrite He. apply (case4_create s tid t e); auto.
  - (* FDeployTop *)
    destruct (alookup 0 (dg s)) as [sid|] eqn:Eg; [|eapply INV4_raise with (t := t); eauto].
    assert (I' : INV4 (Some tid) (set_add s sid 0)) by (apply INV4_same with (s := s); auto).
    unfold pop. eapply INV4_upd with (t := t); [exact I'|exact Ht| |nodep4 Hst].
    tok4 J Hw Hst. apply Y_retD; simpl; auto.
  - (* FUse *)
    cbv zeta. cbn [dm futs upd_task set_tasks].
    set (F0 := fun x : task => set_ucon x (alookup 0 (dm s))).
    assert (I0 : INV4 (Some tid) (upd_task s tid F0)).
    { eapply INV4_upd with (t := t); [exact I|exact Ht| |nodep4 Hst].
      tok4 J Hw Hst. apply Y_Use; simpl; auto. }
    assert (Ht0 : nth_error (tasks (upd_task s tid F0)) tid = Some (F0 t)) by (apply tid_upd; exact Ht).
    destruct (alookup 0 (dm s)) as [v|] eqn:Ed.
    + destruct (K_hasfut s v (v_K _ _ I) Ed) as [-> [x [Hh Hph]]].
      pose proof Hh as [h1 [h2 [h3 h4]]]. rewrite h2. cbn [nth_error].
      destruct Hph as [P0|[c [P1'|[P2'|P3']]]].
      * (* first use *)
        pose proof P0 as [p1 [p2 _]]. rewrite p2, p1.
        pose proof (case4_use_start s tid t x (will_fail deps (upd_task s tid F0) (f_name x)) I Ht Hw Hst Hh P0) as HH.
        cbv zeta in HH. cbn [futs upd_task set_tasks] in HH. rewrite h2 in HH. rewrite ?h1 in HH. exact HH.
      * (* a deploy is in flight: wait for deploy_event *)
        destruct P1' as [p1 [p2 [p3 [p4 p5]]]]. rewrite p2, p1. unfold wait_event.
        change (ev_isset (upd_task s tid F0) (f_event x)) with (ev_isset s (f_event x)). rewrite p5.
        unfold suspend, top_set.
        eapply INV4_upd with (t := set_stack (F0 t) (FUseWait 0 :: tl (stack (F0 t)))).
        -- eapply INV4_upd with (t := F0 t); [exact I0|exact Ht0| |nodep4 Hst].
           subst F0. tok4 J Hw Hst. apply Y_UWait; simpl; eauto.
        -- exact (tid_upd _ tid (F0 t) (fun t0 => set_stack t0 (FUseWait 0 :: tl (stack t0))) Ht0).
        -- subst F0. split; [simpl; auto|split; [simpl; auto|split; [exact J|split]]].
           ++ intros e1 H1. simpl in H1. inversion H1; subst. exact p5.
           ++ simpl. rewrite Hst. simpl. apply Y_UWait; simpl; eauto.
        -- nodep4 Hst.
      * (* already deployed *)
        pose proof P2' as [p1 [p2 _]]. rewrite p2.
        unfold pop. eapply INV4_upd with (t := F0 t); [exact I0|exact Ht0| |nodep4 Hst].
        subst F0. tok4 J Hw Hst. apply Y_retX; simpl; auto. right. split; auto. exists x, c. auto.
      * (* failed: the event is set, the waiter will raise *)
        destruct P3' as [p1 [p2 [p3 [p4 p5]]]]. rewrite p2, p1. unfold wait_event.
        change (ev_isset (upd_task s tid F0) (f_event x)) with (ev_isset s (f_event x)). rewrite p5.
        unfold top_set. eapply INV4_upd with (t := F0 t); [exact I0|exact Ht0| |nodep4 Hst].
        subst F0. tok4 J Hw Hst. apply Y_UWait; simpl; eauto.
    + pose proof (K_nofut s (v_K _ _ I) Ed) as Hnf.
      unfold pop. eapply INV4_upd with (t := F0 t); [exact I0|exact Ht0| |nodep4 Hst].
      subst F0. tok4 J Hw Hst. apply Y_retX; simpl; auto.
  - (* FUseDeploying *)
    destruct Hg as [x [Hh Hp1]]. pose proof Hh as [h1 [h2 [h3 h4]]].
    destruct k as [|k'].
    + rewrite h2. cbn [nth_error].
      pose proof (case4_udep_end s tid t c (negb fl) I Ht Hw) as Hend. rewrite Bool.negb_involutive in Hend.
      specialize (Hend Hst x h2). cbv zeta in Hend. destruct fl; simpl in Hend; exact Hend.
    + unfold suspend, top_set.
      eapply INV4_upd with (t := set_stack t (FUseDeploying 0 c k' fl :: tl (stack t))).
      * eapply INV4_upd with (t := t); [exact I|exact Ht| |].
        -- tok4 J Hw Hst. eapply Y_UDep; simpl; eauto. exists x; auto.
        -- intros _. exists c, (S k'), fl. exact Hst.
      * exact (tid_upd s tid t (fun t0 => set_stack t0 (FUseDeploying 0 c k' fl :: tl (stack t0))) Ht).
      * tok4 J Hw Hst. eapply Y_UDep; simpl; eauto. exists x; auto.
      * intros _. exists c, k', fl. simpl. rewrite Hst. reflexivity.
  - (* FUseWait *)
    destruct Hg as [x Hh]. pose proof Hh as [h1 [h2 [h3 h4]]]. rewrite h2. cbn [nth_error].
    destruct (f_real x) as [c|] eqn:Er; [|eapply INV4_raise with (t := t); eauto].
    unfold pop. eapply INV4_upd with (t := t); [exact I|exact Ht| |nodep4 Hst].
    tok4 J Hw Hst. apply Y_retX; simpl; auto. right. split; auto.
    destruct (K_hasfut s _ (v_K _ _ I) h1) as [_ [y [Hy Hph]]].
    assert (y = x) by (destruct Hy as [_ [hy _]]; congruence). subst y.
    destruct Hph as [[_ [q _]]|[c0 [[_ [q _]]|[P2'|[_ [q _]]]]]]; try congruence.
    exists x, c0. auto.
Qed.

(* ---------------------------------------------------------------- executions *)
Lemma iter_inv4 : forall fuel s tid, INV4 (Some tid) s -> INV4 (Some tid) (iter false deps fuel tid s).
Proof.
  induction fuel as [|f IH]; intros s tid I; simpl.
  - apply INV4_same with (s := s); auto.
  - destruct (running s tid) eqn:R; auto. apply IH. apply micro_inv4; auto.
Qed.

Lemma step_inv4 : forall s tid, INV4 None s -> INV4 None (step false deps s tid).
Proof.
  intros s tid I. unfold step.
  assert (Hbad : INV4 None (set_bad s)) by (apply INV4_same with (s := s); auto).
  destruct (nth_error (tasks s) tid) as [t|] eqn:Ht; auto.
  destruct (tw t) eqn:Etw; auto.
  assert (Hn : tw t <> WRun) by congruence.
  assert (Hdom : forall j x, nth_error (tasks s) j = Some x -> dom4 (Some tid) j x -> dom4 None j x).
  { intros j x Hj [Hd|Hd]; [left; auto|]. inversion Hd; subst. rewrite Ht in Hj. inversion Hj; subst. left; auto. }
  assert (I1 : INV4 (Some tid) s).
  { destruct I as [k a2 l tt uu]. constructor; auto.
    - intros j x Hj Hd. apply (tt j x Hj). apply Hdom; auto.
    - intros i j ti tj Hi Hj Di Dj. apply (uu i j ti tj Hi Hj); auto. }
  assert (I2 : INV4 (Some tid) (iter false deps fuel0 tid (suspend s tid WRun))).
  { apply iter_inv4. unfold suspend. eapply INV4_upd with (t := t); [exact I1|exact Ht| |].
    - destruct (v_T _ _ I1 tid t Ht (or_introl Hn)) as [A [B [J [Bk C]]]].
      split; [simpl; auto|split; [simpl; auto|split; [exact J|split]]].
      + intros e1 H1. simpl in H1. discriminate.
      + destruct C as [H H0|H H0|H H0 Hr Hg|H H0|H H0|H H0|H H0 Hr Hg Hm He'|H H0 Hr Hg Hm He'|H H0|H H0
                      |c k fl H H0 Hu Hg|H H0 Hu Hg]; try congruence;
          [apply Y_e|apply Y_retD|apply Y_FD|apply Y_Else|apply Y_Wait|apply Y_Top|apply Y_Use|eapply Y_UDep|apply Y_UWait];
          simpl; eauto.
    - intros [c [k [fl H]]]. exists c, k, fl. exact H. }
  destruct I2 as [k a2 l tt uu]. constructor; auto.
  - intros j x Hj [Hd|Hd]; [|discriminate]. apply (tt j x Hj). left; auto.
  - intros i j ti tj Hi Hj [Di|Di] [Dj|Dj]; try discriminate. apply (uu i j ti tj Hi Hj); left; auto.
Qed.

Lemma run_inv4 : forall sched s, INV4 None s -> INV4 None (run false deps s sched).
Proof.
  induction sched as [|t r IH]; intros s I; simpl; auto. apply IH. apply step_inv4. exact I.
Qed.

Lemma init_inv4 : INV4 None (init reqs).
Proof.
  constructor.
  - left. unf4. simpl. repeat split; auto.
  - unf4. simpl. congruence.
  - reflexivity.
  - intros j t Hj _. simpl in Hj. rewrite nth_error_map in Hj.
    destruct (nth_error reqs j) as [ops|] eqn:E; [|discriminate]. simpl in Hj. inversion Hj; subst.
    split; [|split; [|split; [|split]]]; simpl; auto.
    + rewrite Forall_forall in Hreqs. apply Hreqs. eapply nth_error_In; eauto.
    + unfold Jc4. simpl. right. split; auto. unfold opsof4. symmetry. apply nth_error_nth. exact E.
    + intros e1 H1. simpl in H1. discriminate.
    + apply Y_e; simpl; auto.
  - intros i j ti tj Hi Hj _ _ [c [k [fl H]]]. simpl in Hi. rewrite nth_error_map in Hi.
    destruct (nth_error reqs i); [|discriminate]. simpl in Hi. inversion Hi; subst. simpl in H. discriminate.
Qed.

(* once + return_after + "a use that completes after a failure raises", on every execution *)
Theorem lazy_all_executions : forall sched,
  let s := run false deps (init reqs) sched in
  length (conns_of 0 (log s)) <= 1 /\ lz_ok reqs (log s) = true.
Proof.
  intros sched s. pose proof (run_inv4 sched (init reqs) init_inv4) as I. fold s in I. split.
  - destruct (v_K _ _ I) as [[_ [_ [k3 _]]]|[x [_ [[_ [_ [k3 _]]]|[c [[_ [_ [k3 _]]]|[[_ [_ [k3 _]]]|[_ [_ [k3 _]]]]]]]]]];
      unfold conns in k3; rewrite k3; simpl; lia.
  - exact (v_L _ _ I).
Qed.

(* fail_wakes: once the inner deploy() has failed, no task is blocked on the FutureConnector's deploy_event *)
Theorem lazy_fail_wakes : forall sched j t e x,
  let s := run false deps (init reqs) sched in
  has is_DEf (log s) = true -> nth_error (tasks s) j = Some t -> tw t = WEvent e -> futs s = [x] ->
  e <> f_event x.
Proof.
  intros sched j t e x s Hf Hj Hw Hx. pose proof (run_inv4 sched (init reqs) init_inv4) as I. fold s in I.
  assert (Hn : tw t <> WRun) by congruence.
  destruct (v_T _ _ I j t Hj (or_introl Hn)) as [_ [_ [_ [Bk _]]]].
  pose proof (Bk e Hw) as Hun.
  destruct (v_K _ _ I) as [[_ [_ [_ k4]]]|[y [[_ [hy _]] Hph]]].
  - rewrite (noDE_has s k4) in Hf. discriminate.
  - rewrite Hx in hy. inversion hy; subst y.
    destruct Hph as [[_ [_ [_ [k4 _]]]]|[c [[_ [_ [_ [k4 _]]]]|[[_ [_ [_ [_ [k5 _]]]]]|[_ [_ [_ [_ k5]]]]]]]].
    + rewrite (noDE_has s k4) in Hf. discriminate.
    + rewrite (noDE_has s k4) in Hf. discriminate.
    + congruence.
    + intro X. subst e. congruence.
Qed.

End OneLazy.
