(* Deploy/Micro.v — fuel-free micro-level executions of Deploy/Model.v.

   [mstep deps] is the micro-step relation on (state, task that currently runs):
     M_resume  the event loop resumes a ready task (nobody runs)            -- tw := WRun
     M_micro   the running task performs ONE [micro] transition
     M_yield   the running task has suspended or finished: nobody runs
   There is no fuel and no [bad] flag: an atomic stretch may be arbitrarily long.  [step_refines]: whenever the
   fuelled executable [step] does not run out of fuel (bad = false afterwards), it is a finite sequence of
   micro-steps; so is [run] as long as no prefix is cut.  The invariants of Inductive{,2,3,4}.v are invariants
   of the micro-step relation (their core lemmas are about [micro]); the theorems below restate the unbounded
   results on micro-level executions, where no [bad = false] side condition is needed. *)
From Coq Require Import List Bool Arith Lia.
From SF Require Import Deploy.Model Deploy.Proofs Deploy.Inductive Deploy.Inductive2 Deploy.Inductive3 Deploy.Inductive4.
Import ListNotations.

Definition mstate := (st * option nat)%type.

Inductive mstep (deps : list dcfg) : mstate -> mstate -> Prop :=
| M_resume : forall s tid t, nth_error (tasks s) tid = Some t -> tw t = WReady ->
                             mstep deps (s, None) (suspend s tid WRun, Some tid)
| M_micro : forall s tid, running s tid = true -> mstep deps (s, Some tid) (micro false deps tid s, Some tid)
| M_yield : forall s tid, running s tid = false -> mstep deps (s, Some tid) (s, None).

Inductive mstar (deps : list dcfg) : mstate -> mstate -> Prop :=
| ms_refl : forall x, mstar deps x x
| ms_step : forall x y z, mstep deps x y -> mstar deps y z -> mstar deps x z.

Lemma mstar_trans : forall deps x y z, mstar deps x y -> mstar deps y z -> mstar deps x z.
Proof. intros deps x y z H. induction H; auto. intros. eapply ms_step; eauto. Qed.

(* ---------------------------------------------------------------- the executable step refines it *)
Lemma iter_refines : forall deps fuel tid s,
  bad (iter false deps fuel tid s) = false ->
  mstar deps (s, Some tid) (iter false deps fuel tid s, Some tid) /\ running (iter false deps fuel tid s) tid = false.
Proof.
  induction fuel as [|f IH]; intros tid s Hb; simpl in *.
  - discriminate.
  - destruct (running s tid) eqn:R.
    + destruct (IH tid _ Hb) as [A B]. split; auto. eapply ms_step; [apply M_micro; exact R|exact A].
    + split; [apply ms_refl|exact R].
Qed.

Theorem step_refines : forall deps s tid,
  bad (step false deps s tid) = false -> mstar deps (s, None) (step false deps s tid, None).
Proof.
  intros deps s tid Hb. unfold step in *.
  destruct (nth_error (tasks s) tid) as [t|] eqn:Ht; [|discriminate].
  destruct (tw t) eqn:Etw; try discriminate.
  destruct (iter_refines deps fuel0 tid _ Hb) as [A B].
  eapply ms_step; [eapply M_resume; eauto|].
  eapply mstar_trans; [exact A|]. eapply ms_step; [apply M_yield; exact B|apply ms_refl].
Qed.

(* no prefix of the schedule is cut *)
Fixpoint allgood (deps : list dcfg) (s : st) (sched : list nat) : Prop :=
  match sched with
  | [] => True
  | t :: r => bad (step false deps s t) = false /\ allgood deps (step false deps s t) r
  end.
Theorem run_refines : forall deps sched s, allgood deps s sched -> mstar deps (s, None) (run false deps s sched, None).
Proof.
  induction sched as [|t r IH]; intros s H; simpl in *. apply ms_refl.
  destruct H as [H1 H2]. eapply mstar_trans; [apply step_refines; exact H1|]. apply IH; exact H2.
Qed.

(* ---------------------------------------------------------------- invariants of the micro-step relation *)
Section Schema.
Variable deps : list dcfg.
Variable Inv : option nat -> st -> Prop.
Hypothesis H_res : forall s tid t, Inv None s -> nth_error (tasks s) tid = Some t -> tw t = WReady ->
                                   Inv (Some tid) (suspend s tid WRun).
Hypothesis H_mic : forall s tid, Inv (Some tid) s -> running s tid = true -> Inv (Some tid) (micro false deps tid s).
Hypothesis H_yield : forall s tid, Inv (Some tid) s -> Inv None s.

Lemma mstep_inv : forall x y, mstep deps x y -> Inv (snd x) (fst x) -> Inv (snd y) (fst y).
Proof. intros x y H. destruct H; simpl; intros I; eauto. Qed.
Lemma mstar_inv : forall x y, mstar deps x y -> Inv (snd x) (fst x) -> Inv (snd y) (fst y).
Proof. intros x y H. induction H; auto. intros I. apply IHmstar. eapply mstep_inv; eauto. Qed.
End Schema.

(* ---------------------------------------------------------------- the four fragments *)
(* 1. deploy-only, one eager deployment *)
Lemma res1 : forall s tid t, INV None s -> nth_error (tasks s) tid = Some t -> tw t = WReady ->
  INV (Some tid) (suspend s tid WRun).
Proof.
  intros s tid t I Ht Hw. assert (Hn : tw t <> WRun) by congruence.
  pose proof (INV_focus s tid t I Ht Hn) as I1. unfold suspend.
  eapply INV_upd with (t := t); [exact I1|exact Ht|].
  destruct (i_T _ _ I1 tid t Ht (or_introl Hn)) as [A [B C]]. split; [|split]; simpl; auto.
  destruct C as [Hst Hc|Hst Hc Hr|Hst Hc|Hst Hc|Hst Hc Hr|Hst Hc Hr|Hst Hc Hr|c k Hst Hc Hd|Hst Hc Hr];
    try congruence;
    [ apply Sh_idle | apply Sh_FD | apply Sh_Else | eapply Sh_Dep ]; simpl; eauto.
Qed.

Theorem micro_deploy_only : forall d reqs s c,
  wrapper d = false -> lazy d = false -> fails d = [] -> deploy_only reqs ->
  mstar [d] (init reqs, None) (s, c) ->
  ra_ok reqs (log s) = true /\ once_ok (log s) = true.
Proof.
  intros d reqs s c H1 H2 H3 H Hm.
  pose proof (mstar_inv [d] INV res1 (micro_inv d H1 H2 H3) INV_unfocus _ _ Hm (init_inv reqs H)) as I.
  simpl in I. split. apply ra_all_ok. exact (i_L _ _ I). exact (i_Once _ _ I).
Qed.

(* 2. deploy + undeploy, one eager deployment: once *)
Lemma res2 : forall s tid t, INV2 None s -> nth_error (tasks s) tid = Some t -> tw t = WReady ->
  INV2 (Some tid) (suspend s tid WRun).
Proof.
  intros s tid t I Ht Hw. assert (Hn : tw t <> WRun) by congruence.
  assert (I1 : INV2 (Some tid) s).
  { destruct I as [a2 a3 a5 oo on tt]. constructor; auto. intros j t' Hj Hc.
    destruct Hc as [Hc|Hc]; [apply (tt j t' Hj); auto|]. inversion Hc; subst. rewrite Ht in Hj.
    inversion Hj; subst. apply (tt j t' Ht). auto. }
  unfold suspend. eapply INV2_upd with (t := t); [exact I1|exact Ht|].
  destruct (q_T _ _ I1 tid t Ht (or_introl Hn)) as [A [B C]]. split; [|split]; simpl; auto.
  destruct C; try congruence;
    [apply S_e|apply S_FD|apply S_Else|apply S_Wait|eapply S_Dep|apply S_Top|apply S_FU|apply S_FUW
    |eapply S_FUU|apply S_FUL]; eauto.
Qed.
Lemma yield2 : forall s tid, INV2 (Some tid) s -> INV2 None s.
Proof.
  intros s tid I. destruct I as [a2 a3 a5 oo on tt]. constructor; auto.
  intros j t' Hj Hc. destruct Hc as [Hc|Hc]; [|discriminate]. apply (tt j t' Hj); auto.
Qed.

Theorem micro_once_deploy_undeploy : forall d reqs s c,
  wrapper d = false -> lazy d = false -> fails d = [] -> deploy_undeploy reqs ->
  mstar [d] (init reqs, None) (s, c) -> once_ok (log s) = true.
Proof.
  intros d reqs s c H1 H2 H3 H Hm.
  pose proof (mstar_inv [d] INV2 res2 (micro_inv2 d H1 H2 H3) yield2 _ _ Hm (init_inv2 reqs H)) as I.
  exact (q_Once _ _ I).
Qed.

(* 3. deploy + undeploy, one eager deployment: return_after *)
Lemma res3 : forall reqs s tid t, INV3 reqs None s -> nth_error (tasks s) tid = Some t -> tw t = WReady ->
  INV3 reqs (Some tid) (suspend s tid WRun).
Proof.
  intros reqs s tid t I Ht Hw. assert (Hn : tw t <> WRun) by congruence.
  assert (Hdom : forall j x, nth_error (tasks s) j = Some x -> dom (Some tid) j x -> dom None j x).
  { intros j x Hj [Hd|Hd]; [left; auto|]. inversion Hd; subst. rewrite Ht in Hj. inversion Hj; subst. left; auto. }
  assert (I1 : INV3 reqs (Some tid) s).
  { destruct I as [h1 a2 a3 a4 a5 a6 a7 l tt uu]. constructor; auto.
    - intros j x Hj Hd. apply (tt j x Hj). apply Hdom; auto.
    - intros i j ti tj Hi Hj Di Dj. apply (uu i j ti tj Hi Hj); auto. }
  unfold suspend. eapply INV3_upd with (t := t); [exact I1|exact Ht| |].
  - destruct (r_T _ _ _ I1 tid t Ht (or_introl Hn)) as [A [B [J C]]].
    split; [simpl; auto|split; [simpl; auto|split; [exact J|]]].
    destruct C as [H H0|H H0 Hr|H H0|H H0|H H0 Hr|H H0 Hr|H H0 Hr|c k H H0 D|H H0 Hr|H H0|H H0 Hr
                  |oc k e H H0 S|H H0]; try congruence;
      [apply Z_e|apply Z_FD|apply Z_Else|eapply Z_Dep|apply Z_FU|eapply Z_FUU|apply Z_FUL]; simpl; eauto.
  - intros [c [k H]]. exists c, k. exact H.
Qed.
Lemma yield3 : forall reqs s tid, INV3 reqs (Some tid) s -> INV3 reqs None s.
Proof.
  intros reqs s tid I. destruct I as [h1 a2 a3 a4 a5 a6 a7 l tt uu]. constructor; auto.
  - intros j x Hj [Hd|Hd]; [|discriminate]. apply (tt j x Hj). left; auto.
  - intros i j ti tj Hi Hj [Di|Di] [Dj|Dj]; try discriminate. apply (uu i j ti tj Hi Hj); left; auto.
Qed.

Theorem micro_return_after_deploy_undeploy : forall d reqs s c,
  wrapper d = false -> lazy d = false -> fails d = [] -> deploy_undeploy reqs ->
  mstar [d] (init reqs, None) (s, c) -> ra_ok reqs (log s) = true.
Proof.
  intros d reqs s c H1 H2 H3 H Hm.
  pose proof (mstar_inv [d] (INV3 reqs) (res3 reqs) (micro_inv3 d H1 H2 H3 reqs) (yield3 reqs) _ _ Hm
                        (init_inv3 reqs H)) as I.
  exact (r_L _ _ _ I).
Qed.

(* 4. the lazy fragment *)
Lemma res4 : forall reqs s tid t, INV4 reqs None s -> nth_error (tasks s) tid = Some t -> tw t = WReady ->
  INV4 reqs (Some tid) (suspend s tid WRun).
Proof.
  intros reqs s tid t I Ht Hw. assert (Hn : tw t <> WRun) by congruence.
  assert (Hdom : forall j x, nth_error (tasks s) j = Some x -> dom4 (Some tid) j x -> dom4 None j x).
  { intros j x Hj [Hd|Hd]; [left; auto|]. inversion Hd; subst. rewrite Ht in Hj. inversion Hj; subst. left; auto. }
  assert (I1 : INV4 reqs (Some tid) s).
  { destruct I as [k a2 l tt uu]. constructor; auto.
    - intros j x Hj Hd. apply (tt j x Hj). apply Hdom; auto.
    - intros i j ti tj Hi Hj Di Dj. apply (uu i j ti tj Hi Hj); auto. }
  unfold suspend. eapply INV4_upd with (t := t); [exact I1|exact Ht| |].
  - destruct (v_T _ _ _ I1 tid t Ht (or_introl Hn)) as [A [B [J [Bk C]]]].
    split; [simpl; auto|split; [simpl; auto|split; [exact J|split]]].
    + intros e1 H1. simpl in H1. discriminate.
    + destruct C as [H H0|H H0|H H0 Hr Hg|H H0|H H0|H H0|H H0 Hr Hg Hm He'|H H0 Hr Hg Hm He'|H H0|H H0
                    |c k fl H H0 Hu Hg|H H0 Hu Hg]; try congruence;
        [apply Y_e|apply Y_retD|apply Y_FD|apply Y_Else|apply Y_Wait|apply Y_Top|apply Y_Use|eapply Y_UDep|apply Y_UWait];
        simpl; eauto.
  - intros [c [k [fl H]]]. exists c, k, fl. exact H.
Qed.
Lemma yield4 : forall reqs s tid, INV4 reqs (Some tid) s -> INV4 reqs None s.
Proof.
  intros reqs s tid I. destruct I as [k a2 l tt uu]. constructor; auto.
  - intros j x Hj [Hd|Hd]; [|discriminate]. apply (tt j x Hj). left; auto.
  - intros i j ti tj Hi Hj [Di|Di] [Dj|Dj]; try discriminate. apply (uu i j ti tj Hi Hj); left; auto.
Qed.

Theorem micro_lazy : forall d reqs s c,
  wrapper d = false -> lazy d = true -> Forall (Forall okopx) reqs ->
  mstar [d] (init reqs, None) (s, c) ->
  length (conns_of 0 (log s)) <= 1 /\ lz_ok reqs (log s) = true.
Proof.
  intros d reqs s c H1 H2 H Hm.
  pose proof (mstar_inv [d] (INV4 reqs) (res4 reqs) (micro_inv4 d H1 H2 reqs) (yield4 reqs) _ _ Hm
                        (init_inv4 reqs H)) as I.
  simpl in I. split; [|exact (v_L _ _ _ I)].
  destruct (v_K _ _ _ I) as [[_ [_ [k3 _]]]|[x [_ [[_ [_ [k3 _]]]|[c0 [[_ [_ [k3 _]]]|[[_ [_ [k3 _]]]|[_ [_ [k3 _]]]]]]]]]];
    unfold conns in k3; rewrite k3; simpl; lia.
Qed.

Theorem micro_lazy_fail_wakes : forall d reqs s c j t e x,
  wrapper d = false -> lazy d = true -> Forall (Forall okopx) reqs ->
  mstar [d] (init reqs, None) (s, c) ->
  has is_DEf (log s) = true -> nth_error (tasks s) j = Some t -> tw t = WEvent e -> futs s = [x] ->
  e <> f_event x.
Proof.
  intros d reqs s c j t e x H1 H2 H Hm Hf Hj Hw Hx.
  pose proof (mstar_inv [d] (INV4 reqs) (res4 reqs) (micro_inv4 d H1 H2 reqs) (yield4 reqs) _ _ Hm
                        (init_inv4 reqs H)) as I. simpl in I.
  assert (Hn : tw t <> WRun) by congruence.
  destruct (v_T _ _ _ I j t Hj (or_introl Hn)) as [_ [_ [_ [Bk _]]]].
  pose proof (Bk e Hw) as Hun.
  destruct (v_K _ _ _ I) as [[_ [_ [_ k4]]]|[y [[_ [hy _]] Hph]]].
  - rewrite (noDE_has s k4) in Hf. discriminate.
  - rewrite Hx in hy. inversion hy; subst y.
    destruct Hph as [[_ [_ [_ [k4 _]]]]|[c0 [[_ [_ [_ [k4 _]]]]|[[_ [_ [_ [_ [k5 _]]]]]|[_ [_ [_ [_ k5]]]]]]]].
    + rewrite (noDE_has s k4) in Hf. discriminate.
    + rewrite (noDE_has s k4) in Hf. discriminate.
    + congruence.
    + intro X. subst e. congruence.
Qed.
